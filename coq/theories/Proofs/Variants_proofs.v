(* C37 — proofs about the action splitting of Compilers/Variants.v over the documented step [spec_step false]. *)
From Coq Require Import List ZArith NArith QArith Qcanon Bool Lia Permutation.
Import ListNotations.
Require Import UPV.Core.Expr UPV.Core.Eval UPV.Core.Interp UPV.Planning.Problem UPV.Planning.Sem.
Require Import UPV.Proofs.Eval_lemmas UPV.Proofs.Sem_proofs UPV.Proofs.Step_proofs UPV.Compilers.Variants.

(* ================================================================== 1. fired-effect lists up to what [combine] sees *)
Definition acts_of (L : list eres) : list aeff :=
  flat_map (fun r => match r with EAct a => [a] | _ => [] end) L.
Definition is_err (r : eres) : bool := match r with EErr => true | _ => false end.
Definition has_err (L : list eres) : bool := existsb is_err L.

Lemma collect_res_spec L : collect_res L = if has_err L then None else Some (acts_of L).
Proof.
  induction L as [|r L IH]; simpl; auto.
  destruct r; simpl; auto. rewrite IH. destruct (has_err L); auto.
Qed.

Lemma acts_of_app L1 L2 : acts_of (L1 ++ L2) = acts_of L1 ++ acts_of L2.
Proof. unfold acts_of. apply flat_map_app. Qed.
Lemma has_err_app L1 L2 : has_err (L1 ++ L2) = has_err L1 || has_err L2.
Proof. unfold has_err. apply existsb_app. Qed.

Definition nasg (a : aeff) : bool := negb (is_assign a).

(* two fired lists are similar when they contain the same assignments (as sets) and the same increases/decreases
   (as multisets) *)
Definition lsim (l l' : list aeff) : Prop :=
  (forall a, is_assign a = true -> (In a l <-> In a l')) /\ Permutation (filter nasg l) (filter nasg l').

Lemma lsim_refl l : lsim l l.
Proof. split; [tauto | apply Permutation_refl]. Qed.
Lemma lsim_sym l l' : lsim l l' -> lsim l' l.
Proof. intros [H1 H2]. split; [intros a Ha; symmetry; auto | apply Permutation_sym; auto]. Qed.
Lemma lsim_trans l1 l2 l3 : lsim l1 l2 -> lsim l2 l3 -> lsim l1 l3.
Proof.
  intros [H1 H2] [H3 H4]. split.
  - intros a Ha. rewrite (H1 a Ha). auto.
  - eapply Permutation_trans; eauto.
Qed.
Lemma lsim_app a a' b b' : lsim a a' -> lsim b b' -> lsim (a ++ b) (a' ++ b').
Proof.
  intros [H1 H2] [H3 H4]. split.
  - intros x Hx. rewrite !in_app_iff, (H1 x Hx), (H3 x Hx). tauto.
  - rewrite !filter_app. apply Permutation_app; auto.
Qed.
Lemma lsim_app_comm a b : lsim (a ++ b) (b ++ a).
Proof.
  split.
  - intros x _. rewrite !in_app_iff. tauto.
  - rewrite !filter_app. apply Permutation_app_comm.
Qed.
Lemma lsim_perm l l' : Permutation l l' -> lsim l l'.
Proof.
  intros H. split.
  - intros a _. split; apply Permutation_in; auto. apply Permutation_sym; auto.
  - induction H; simpl.
    + constructor.
    + destruct (nasg x); auto.
    + destruct (nasg x), (nasg y); auto. constructor.
    + eapply Permutation_trans; eauto.
Qed.

Definition esim (L L' : list eres) : Prop := has_err L = has_err L' /\ lsim (acts_of L) (acts_of L').

Lemma esim_refl L : esim L L.
Proof. split; auto using lsim_refl. Qed.
Lemma esim_sym L L' : esim L L' -> esim L' L.
Proof. intros [H1 H2]. split; auto using lsim_sym. Qed.
Lemma esim_trans L1 L2 L3 : esim L1 L2 -> esim L2 L3 -> esim L1 L3.
Proof. intros [H1 H2] [H3 H4]. split; [congruence | eauto using lsim_trans]. Qed.
Lemma esim_app a a' b b' : esim a a' -> esim b b' -> esim (a ++ b) (a' ++ b').
Proof.
  intros [H1 H2] [H3 H4]. split.
  - rewrite !has_err_app. congruence.
  - rewrite !acts_of_app. apply lsim_app; auto.
Qed.
Lemma esim_app_comm a b : esim (a ++ b) (b ++ a).
Proof.
  split.
  - rewrite !has_err_app. apply orb_comm.
  - rewrite !acts_of_app. apply lsim_app_comm.
Qed.
(* a piece that only skips contributes nothing *)
Lemma esim_skips L : Forall (fun r => r = ESkip) L -> esim L [].
Proof.
  intros H. induction H as [|r L Hr _ IH]; [apply esim_refl|].
  subst r. destruct IH as [H1 H2]. split; simpl; auto.
Qed.
Lemma esim_flat_map {A} (f g : A -> list eres) l :
  (forall x, In x l -> esim (f x) (g x)) -> esim (flat_map f l) (flat_map g l).
Proof.
  induction l as [|x l IH]; intros H; simpl; [apply esim_refl|].
  apply esim_app; [apply H; left; auto | apply IH; intros y Hy; apply H; right; auto].
Qed.

(* ---- what the declarative combination reads from a fired list is invariant under [lsim] *)
Lemma filter_andb {A} (p q : A -> bool) l : filter (fun x => p x && q x) l = filter p (filter q l).
Proof.
  induction l as [|x l IH]; simpl; auto.
  destruct (q x) eqn:Hq; simpl; rewrite ?andb_true_r, ?andb_false_r; [destruct (p x); simpl; congruence | auto].
Qed.
Lemma perm_filter {A} (p : A -> bool) l l' : Permutation l l' -> Permutation (filter p l) (filter p l').
Proof.
  induction 1; simpl; auto.
  - destruct (p x); auto.
  - destruct (p x), (p y); auto. constructor.
  - eapply Permutation_trans; eauto.
Qed.

Lemma in_avals k l v :
  In v (avals k l) <-> exists a, In a l /\ gfl_eqb (ae_key a) k = true /\ is_assign a = true /\ ae_val a = v.
Proof.
  unfold avals. rewrite in_map_iff. split.
  - intros [a [Hv Ha]]. apply filter_In in Ha. destruct Ha as [Ha Hb]. apply andb_true_iff in Hb.
    exists a. tauto.
  - intros [a [Ha [Hk [Has Hv]]]]. exists a. split; auto. apply filter_In. split; auto. rewrite Hk, Has. auto.
Qed.

Lemma lsim_avals k l l' : lsim l l' -> forall v, In v (avals k l) <-> In v (avals k l').
Proof.
  intros [H _] v. rewrite !in_avals. split; intros [a [Ha [Hk [Has Hv]]]]; exists a; repeat split; auto;
    apply (H a Has); auto.
Qed.

Lemma lsim_deltas k l l' : lsim l l' -> Permutation (deltas k l) (deltas k l').
Proof.
  intros [_ H]. unfold deltas.
  change (fun a => gfl_eqb (ae_key a) k && negb (is_assign a)) with (fun a => (fun a => gfl_eqb (ae_key a) k) a && nasg a).
  rewrite !filter_andb. apply Permutation_map. apply perm_filter. exact H.
Qed.

Lemma Qcplus_swap (c x y : Qc) : Qcplus (Qcplus c x) y = Qcplus (Qcplus c y) x.
Proof. ring. Qed.

Lemma sum_deltas_some c d l : sum_deltas c (Some d :: l) = sum_deltas (Qcplus c d) l.
Proof. reflexivity. Qed.
Lemma sum_deltas_none c l : sum_deltas c (None :: l) = None.
Proof. reflexivity. Qed.

Lemma sum_deltas_perm D D' : Permutation D D' -> forall c, sum_deltas c D = sum_deltas c D'.
Proof.
  induction 1; intros c; auto.
  - destruct x; rewrite ?sum_deltas_some, ?sum_deltas_none; auto.
  - destruct x as [x|], y as [y|]; rewrite ?sum_deltas_some, ?sum_deltas_none; auto.
    rewrite Qcplus_swap. reflexivity.
  - rewrite IHPermutation1. auto.
Qed.

Lemma combine_ext isb old A A' D D' :
  (forall v, In v A <-> In v A') -> Permutation D D' -> combine isb old A D = combine isb old A' D'.
Proof.
  intros HA HD.
  assert (HnilA : A = [] <-> A' = []).
  { split; intros E; subst.
    - destruct A' as [|x A']; auto. exfalso. apply (HA x). left; auto.
    - destruct A as [|x A]; auto. exfalso. apply (HA x). left; auto. }
  assert (HnilD : D = [] <-> D' = []).
  { split; intros E; subst.
    - apply Permutation_nil in HD. auto.
    - apply Permutation_sym, Permutation_nil in HD. auto. }
  destruct A as [|a rest].
  - assert (A' = []) by (apply HnilA; auto). subst A'.
    destruct D as [|d D].
    + assert (D' = []) by (apply HnilD; auto). subst. reflexivity.
    + destruct D' as [|d' D'']; [destruct HnilD as [_ H0]; discriminate H0; auto|].
      simpl. destruct old as [[b|c|o]|]; auto.
      rewrite (sum_deltas_perm _ _ HD c). reflexivity.
  - destruct A' as [|a' rest']; [destruct HnilA as [_ H0]; discriminate H0; auto|].
    destruct D as [|d D].
    + assert (D' = []) by (apply HnilD; auto). subst D'. simpl.
      destruct isb.
      * f_equal. f_equal.
        apply eq_true_iff_eq. change (existsb is_vtrue (a :: rest) = true <-> existsb is_vtrue (a' :: rest') = true).
        rewrite !existsb_exists. split; intros [x [Hx Hv]]; exists x; split; auto; apply HA; auto.
      * destruct (forallb (value_eqb a) rest) eqn:E1; destruct (forallb (value_eqb a') rest') eqn:E2.
        -- f_equal.
           assert (Ha' : In a' (a :: rest)) by (apply HA; left; auto).
           destruct Ha' as [Ha'|Ha']; auto.
           rewrite forallb_forall in E1. apply E1 in Ha'. apply value_eqb_eq in Ha'. auto.
        -- exfalso.
           assert (Hall : forall x, In x (a :: rest) -> x = a).
           { intros x [Hx|Hx]; auto. rewrite forallb_forall in E1. apply E1 in Hx. apply value_eqb_eq in Hx. auto. }
           assert (E2' : forallb (value_eqb a') rest' = true).
           { apply forallb_forall. intros x Hx. apply value_eqb_eq.
             rewrite (Hall x) by (apply HA; right; auto). rewrite (Hall a') by (apply HA; left; auto). reflexivity. }
           congruence.
        -- exfalso.
           assert (Hall : forall x, In x (a' :: rest') -> x = a').
           { intros x [Hx|Hx]; auto. rewrite forallb_forall in E2. apply E2 in Hx. apply value_eqb_eq in Hx. auto. }
           assert (E1' : forallb (value_eqb a) rest = true).
           { apply forallb_forall. intros x Hx. apply value_eqb_eq.
             rewrite (Hall x) by (apply HA; right; auto). rewrite (Hall a) by (apply HA; left; auto). reflexivity. }
           congruence.
        -- reflexivity.
    + destruct D' as [|d' D'']; [destruct HnilD as [_ H0]; discriminate H0; auto|]. reflexivity.
Qed.

Lemma lsim_spec_fluent P s l l' k : lsim l l' -> spec_fluent P s l k = spec_fluent P s l' k.
Proof.
  intros H. unfold spec_fluent. apply combine_ext; [apply lsim_avals | apply lsim_deltas]; auto.
Qed.

Lemma lsim_key_in l l' a : lsim l l' -> In a l -> exists a', In a' l' /\ ae_key a' = ae_key a.
Proof.
  intros [H1 H2] Ha. destruct (is_assign a) eqn:E.
  - exists a. split; auto. apply (H1 a E). auto.
  - assert (Hf : In a (filter nasg l)) by (apply filter_In; split; auto; unfold nasg; rewrite E; auto).
    apply (Permutation_in _ H2) in Hf. apply filter_In in Hf. exists a. tauto.
Qed.

Lemma lsim_effects_ok P s l l' : lsim l l' -> spec_effects_ok P s l = spec_effects_ok P s l'.
Proof.
  intros H. unfold spec_effects_ok.
  apply eq_true_iff_eq. rewrite !forallb_forall. split; intros Hall a Ha.
  - destruct (lsim_key_in l' l a (lsim_sym _ _ H) Ha) as [a' [Ha' Hk]].
    specialize (Hall a' Ha'). rewrite Hk in Hall. rewrite <- (lsim_spec_fluent P s l l' _ H). exact Hall.
  - destruct (lsim_key_in l l' a H Ha) as [a' [Ha' Hk]].
    specialize (Hall a' Ha'). rewrite Hk in Hall. rewrite (lsim_spec_fluent P s l l' _ H). exact Hall.
Qed.

Lemma lsim_succ P s l l' : lsim l l' -> state_eq (spec_succ P s l) (spec_succ P s l').
Proof. intros H f a. unfold spec_succ. rewrite (lsim_spec_fluent P s l l' _ H). reflexivity. Qed.

(* the tail of [spec_step] after the precondition test, as a function of the evaluated effect instances *)
Definition finish_step (P : problem) (s : state) (L : list eres) : option state :=
  match collect_res L with
  | None => None
  | Some acts =>
      if negb (spec_effects_ok P s acts) then None
      else let s' := spec_succ P s acts in if invariants_ok false P s' then Some s' else None
  end.

Definition eres_of (I : interp) (effs : list effect) : list eres :=
  flat_map (fun e => map (fun J => eval_effect false J e) (instances I (e_vars e))) effs.

Lemma spec_step_unfold P s a args :
  spec_step false P s a args =
  let I := mk_interp P s (zip_params (a_params a) args) in
  if negb (all_hold false I (a_pre a)) then None else finish_step P s (eres_of I (a_effs a)).
Proof. reflexivity. Qed.

Lemma esim_finish P s L L' : esim L L' -> ostate_eq (finish_step P s L) (finish_step P s L').
Proof.
  intros [He Hl]. unfold finish_step. rewrite !collect_res_spec, <- He.
  destruct (has_err L); simpl; auto.
  rewrite <- (lsim_effects_ok P s _ _ Hl).
  destruct (spec_effects_ok P s (acts_of L)); simpl; auto.
  rewrite <- (invariants_ok_ext false P _ _ (lsim_succ P s _ _ Hl)).
  destruct (invariants_ok false P (spec_succ P s (acts_of L))); simpl; auto.
  apply lsim_succ; auto.
Qed.

(* ================================================================== 2. general facts about steps and effect pieces *)
Lemma all_hold_app sc I l1 l2 : all_hold sc I (l1 ++ l2) = all_hold sc I l1 && all_hold sc I l2.
Proof. unfold all_hold. apply forallb_app. Qed.

Lemma eres_of_app I l1 l2 : eres_of I (l1 ++ l2) = eres_of I l1 ++ eres_of I l2.
Proof. unfold eres_of. apply flat_map_app. Qed.

Definition piece (I : interp) (e : effect) : list eres :=
  map (fun J => eval_effect false J e) (instances I (e_vars e)).

Lemma eres_of_cons I e l : eres_of I (e :: l) = piece I e ++ eres_of I l.
Proof. reflexivity. Qed.
Lemma eres_of_one I e : eres_of I [e] = piece I e.
Proof. unfold eres_of. simpl. apply app_nil_r. Qed.

(* the step only reads the preconditions through [all_hold]: the simplified preconditions of
   check_and_simplify_preconditions may replace the unsimplified ones wherever they are equivalent *)
Lemma step_pre_ext P s a1 a2 args :
  a_params a1 = a_params a2 -> a_effs a1 = a_effs a2 ->
  all_hold false (mk_interp P s (zip_params (a_params a1) args)) (a_pre a1) =
  all_hold false (mk_interp P s (zip_params (a_params a1) args)) (a_pre a2) ->
  spec_step false P s a1 args = spec_step false P s a2 args.
Proof. intros Hp He Hh. rewrite !spec_step_unfold. cbv zeta. rewrite <- Hp, <- He, Hh. reflexivity. Qed.

(* what an effect instance produces once its condition is known *)
Definition fire (J : interp) (e : effect) : eres :=
  match evals_l false J (e_args e) with
  | Some vs =>
      match eval false (e_val e) J with
      | Some v => EAct {| ae_key := (e_fl e, vs); ae_kind := e_kind e; ae_val := v |}
      | None => EErr
      end
  | None => EErr
  end.

Lemma eval_effect_true J e c :
  eval false c J = Some (VBool true) -> eval_effect false J (set_cond e c) = fire J e.
Proof.
  intros H. unfold eval_effect, fire. simpl. destruct (evals_l false J (e_args e)); auto. rewrite H. reflexivity.
Qed.
Lemma eval_effect_false J e c :
  eval false c J = Some (VBool false) -> evals_l false J (e_args e) <> None ->
  eval_effect false J (set_cond e c) = ESkip.
Proof.
  intros H Ha. unfold eval_effect. simpl. destruct (evals_l false J (e_args e)); [|congruence]. rewrite H. reflexivity.
Qed.
Lemma set_cond_id e : set_cond e (e_cond e) = e.
Proof. destruct e; reflexivity. Qed.

Lemma holds_bool sc I c b : eval sc c I = Some (VBool b) -> holds sc I c = b.
Proof. intros H. unfold holds. rewrite H. destruct b; reflexivity. Qed.

Lemma holds_mkNot I c b : eval false c I = Some (VBool b) -> holds false I (mkNot c) = negb b.
Proof.
  intros H. destruct c; try (unfold mkNot; unfold holds; rewrite eval_ENot, H; destruct b; reflexivity).
  (* c = ENot c0: ExpressionManager.Not returns c0 *)
  simpl. rewrite eval_ENot in H. destruct (eval false c I) as [[b0| |]|] eqn:E; simpl in H; try discriminate.
  inversion H; subst. unfold holds. rewrite E. destruct b0; reflexivity.
Qed.

(* ================================================================== 3. conditional-effects splitting *)
Section CE.
  Variable P : problem.
  Variable s : state.
  Variable a : action.
  Variable args : list value.
  Let I := mk_interp P s (zip_params (a_params a) args).

  (* HYPOTHESIS of the theorems, per conditional effect: its condition evaluates to a Boolean in the state, to the
     same Boolean under every instance of the effect's forall variables (i.e. it does not depend on them), and the
     target arguments are defined under every instance (so that a non-firing effect is skipped, not an error) *)
  Definition cond_ok (e : effect) : Prop :=
    exists b, eval false (e_cond e) I = Some (VBool b) /\
              Forall (fun J => eval false (e_cond e) J = Some (VBool b) /\ evals_l false J (e_args e) <> None)
                     (instances I (e_vars e)).

  Definition cv (e : effect) : bool := holds false I (e_cond e).
  Definition the_sel : list bool := map cv (cond_effs (a_effs a)).

  Lemma sel_pre_holds ces : Forall cond_ok ces -> forall sel, length sel = length ces ->
    (all_hold false I (sel_pre ces sel) = true <-> sel = map cv ces).
  Proof.
    induction 1 as [|e ces He _ IH]; intros sel Hl.
    - destruct sel; [|discriminate]. simpl. tauto.
    - destruct sel as [|b sel]; [discriminate|]. simpl in Hl. injection Hl as Hl.
      destruct He as [b0 [He _]].
      change (all_hold false I (sel_pre (e :: ces) (b :: sel)))
        with (holds false I (if b then e_cond e else mkNot (e_cond e)) && all_hold false I (sel_pre ces sel)).
      rewrite andb_true_iff, (IH sel Hl). simpl map.
      assert (Hcv : cv e = b0) by (unfold cv; apply holds_bool; auto). rewrite Hcv.
      destruct b.
      + rewrite (holds_bool _ _ _ _ He). split.
        * intros [H1 H2]. congruence.
        * intros H. injection H as H1 H2. auto.
      + rewrite (holds_mkNot _ _ _ He). split.
        * intros [H1 H2]. destruct b0; [discriminate|]. congruence.
        * intros H. injection H as H1 H2. rewrite <- H1. auto.
  Qed.

  Lemma piece_selected e : cond_ok e -> cv e = true -> piece I (strip_cond e) = piece I e.
  Proof.
    intros [b [Hb Hall]] Hc. unfold cv in Hc. rewrite (holds_bool _ _ _ _ Hb) in Hc. subst b.
    unfold piece. simpl. apply map_ext_in. intros J HJ.
    rewrite Forall_forall in Hall. destruct (Hall J HJ) as [H1 _].
    unfold strip_cond. rewrite (eval_effect_true J e (EBool true)) by reflexivity.
    rewrite <- (set_cond_id e) at 2. rewrite (eval_effect_true J e (e_cond e) H1). reflexivity.
  Qed.

  Lemma piece_unselected e : cond_ok e -> cv e = false -> esim (piece I e) [].
  Proof.
    intros [b [Hb Hall]] Hc. unfold cv in Hc. rewrite (holds_bool _ _ _ _ Hb) in Hc. subst b.
    apply esim_skips. unfold piece. apply Forall_forall. intros r Hr. apply in_map_iff in Hr.
    destruct Hr as [J [Hr HJ]]. rewrite Forall_forall in Hall. destruct (Hall J HJ) as [H1 H2].
    rewrite <- Hr, <- (set_cond_id e). apply eval_effect_false; auto.
  Qed.

  Lemma ce_eres effs : Forall cond_ok (cond_effs effs) ->
    esim (eres_of I effs) (eres_of I (uncond_effs effs ++ sel_effs (cond_effs effs) (map cv (cond_effs effs)))).
  Proof.
    induction effs as [|e effs IH]; intros Hok; [apply esim_refl|].
    unfold uncond_effs, cond_effs in *. simpl filter in *.
    destruct (is_uncond e) eqn:Hu; simpl negb in *; cbv iota in *.
    - (* unconditional: stays in front *)
      rewrite <- app_comm_cons, !eres_of_cons. apply esim_app; [apply esim_refl | apply IH; auto].
    - inversion Hok as [|? ? He Hok']; subst.
      specialize (IH Hok').
      rewrite eres_of_cons. simpl map. simpl sel_effs.
      rewrite eres_of_app in IH. rewrite !eres_of_app.
      set (U := eres_of I (filter is_uncond effs)) in *.
      set (S := eres_of I (sel_effs (filter (fun e0 => negb (is_uncond e0)) effs)
                             (map cv (filter (fun e0 => negb (is_uncond e0)) effs)))) in *.
      set (X := eres_of I (if cv e then [strip_cond e] else [])).
      assert (HX : esim (piece I e) X).
      { unfold X. destruct (cv e) eqn:Hc.
        - rewrite eres_of_one, piece_selected; auto. apply esim_refl.
        - apply piece_unselected; auto. }
      eapply esim_trans; [apply esim_app; [apply HX | apply IH]|].
      rewrite app_assoc. eapply esim_trans; [apply esim_app; [apply esim_app_comm | apply esim_refl]|].
      rewrite <- app_assoc. apply esim_refl.
  Qed.

  Hypothesis Hok : Forall cond_ok (cond_effs (a_effs a)).

  Lemma ce_sel_length sel : In sel (ce_sels a) -> length sel = length (cond_effs (a_effs a)).
  Proof.
    unfold ce_sels. generalize (length (cond_effs (a_effs a))). intros n. revert sel.
    induction n as [|n IH]; intros sel H; simpl in H.
    - destruct H as [H|[]]. subst. reflexivity.
    - apply in_app_iff in H. destruct H as [H|H]; apply in_map_iff in H; destruct H as [x [Hx Hin]]; subst;
        simpl; f_equal; apply IH; auto.
  Qed.

  Lemma all_sels_complete n : forall sel, length sel = n -> In sel (all_sels n).
  Proof.
    induction n as [|n IH]; intros sel H.
    - destruct sel; [left; auto | discriminate].
    - destruct sel as [|b sel]; [discriminate|]. injection H as H. simpl. apply in_app_iff.
      destruct b; [right | left]; apply in_map; apply IH; auto.
  Qed.

  Lemma nodup_app {A} (l1 l2 : list A) :
    NoDup l1 -> NoDup l2 -> (forall x, In x l1 -> In x l2 -> False) -> NoDup (l1 ++ l2).
  Proof.
    induction l1 as [|x l1 IH]; intros H1 H2 H; simpl; auto.
    inversion H1; subst. constructor.
    - rewrite in_app_iff. intros [Hx|Hx]; [auto | apply (H x); [left; auto | auto]].
    - apply IH; auto. intros y Hy1 Hy2. apply (H y); [right; auto | auto].
  Qed.
  Lemma nodup_map_inj {A B} (f : A -> B) l : (forall x y, f x = f y -> x = y) -> NoDup l -> NoDup (map f l).
  Proof.
    intros Hf H. induction H; simpl; constructor; auto.
    rewrite in_map_iff. intros [y [Hy Hin]]. apply Hf in Hy. subst. auto.
  Qed.
  Lemma all_sels_nodup n : NoDup (all_sels n).
  Proof.
    induction n as [|n IH]; simpl; [repeat constructor; auto|].
    apply nodup_app.
    - apply nodup_map_inj; auto. intros x y H; injection H; auto.
    - apply nodup_map_inj; auto. intros x y H; injection H; auto.
    - intros x H1 H2. apply in_map_iff in H1. apply in_map_iff in H2.
      destruct H1 as [y [Hy _]], H2 as [z [Hz _]]. subst. discriminate.
  Qed.

  Lemma the_sel_in : In the_sel (ce_sels a).
  Proof. apply all_sels_complete. unfold the_sel. apply map_length. Qed.

  (* the variant selected by the truth values of the conditions takes exactly the original step *)
  Lemma ce_the_variant_step :
    ostate_eq (spec_step false P s (ce_variant a the_sel) args) (spec_step false P s a args).
  Proof.
    rewrite !spec_step_unfold. cbv zeta. simpl a_params. simpl a_pre. simpl a_effs. fold I.
    rewrite all_hold_app.
    assert (Hs : all_hold false I (sel_pre (cond_effs (a_effs a)) the_sel) = true).
    { apply sel_pre_holds; auto. unfold the_sel. apply map_length. }
    rewrite Hs, andb_true_r.
    destruct (all_hold false I (a_pre a)); simpl; auto.
    apply esim_finish. apply esim_sym. apply ce_eres; auto.
  Qed.

  (* a variant whose preconditions hold is the selected one *)
  Lemma ce_applicable_sel sel :
    In sel (ce_sels a) -> applicable P s (ce_variant a sel) args = true -> sel = the_sel.
  Proof.
    intros Hin Happ. unfold applicable in Happ. rewrite spec_step_unfold in Happ. cbv zeta in Happ.
    simpl a_params in Happ. simpl a_pre in Happ. fold I in Happ. rewrite all_hold_app in Happ.
    destruct (all_hold false I (a_pre a)); simpl in Happ; [|discriminate].
    destruct (all_hold false I (sel_pre (cond_effs (a_effs a)) sel)) eqn:E; simpl in Happ; [|discriminate].
    apply sel_pre_holds in E; auto. apply ce_sel_length; auto.
  Qed.

  Lemma ostate_eq_is_some (x y : option state) : ostate_eq x y -> is_some x = is_some y.
  Proof. destruct x, y; simpl; tauto. Qed.

  Lemma ce_the_variant_applicable :
    applicable P s (ce_variant a the_sel) args = applicable P s a args.
  Proof. unfold applicable. apply ostate_eq_is_some. apply ce_the_variant_step. Qed.

  Theorem ce_variant_same_successor sel :
    In sel (ce_sels a) -> applicable P s (ce_variant a sel) args = true ->
    ostate_eq (spec_step false P s (ce_variant a sel) args) (spec_step false P s a args).
  Proof. intros Hin Happ. rewrite (ce_applicable_sel sel Hin Happ). apply ce_the_variant_step. Qed.

  Theorem ce_applicable_iff_some_variant :
    applicable P s a args = true <->
    exists sel, In sel (ce_sels a) /\ applicable P s (ce_variant a sel) args = true.
  Proof.
    split.
    - intros H. exists the_sel. split; [apply the_sel_in | rewrite ce_the_variant_applicable; auto].
    - intros [sel [Hin Happ]]. rewrite <- ce_the_variant_applicable, <- (ce_applicable_sel sel Hin Happ). auto.
  Qed.

  Lemma filter_unique {A} (f : A -> bool) (l : list A) (x : A) :
    NoDup l -> In x l -> f x = true -> (forall y, In y l -> f y = true -> y = x) -> filter f l = [x].
  Proof.
    induction l as [|z l IH]; intros Hnd Hin Hfx Hu; [destruct Hin|].
    inversion Hnd as [|? ? Hnz Hnd']; subst. simpl.
    destruct Hin as [Hin|Hin].
    - subst z. rewrite Hfx. f_equal.
      assert (Hnone : forall y, In y l -> f y = false).
      { intros y Hy. destruct (f y) eqn:E; auto. exfalso. apply Hnz. rewrite <- (Hu y (or_intror Hy) E). auto. }
      clear -Hnone. induction l as [|y l IH]; auto. simpl. rewrite (Hnone y (or_introl eq_refl)).
      apply IH. intros w Hw. apply Hnone. right; auto.
    - destruct (f z) eqn:E.
      + exfalso. apply Hnz. rewrite (Hu z (or_introl eq_refl) E). auto.
      + apply IH; auto. intros y Hy. apply Hu. right; auto.
  Qed.

  Lemma filter_map {A B} (f : B -> bool) (g : A -> B) l : filter f (map g l) = map g (filter (fun x => f (g x)) l).
  Proof. induction l as [|x l IH]; simpl; auto. destruct (f (g x)); simpl; congruence. Qed.

  (* exactly one variant is applicable wherever the original action is *)
  Theorem ce_exactly_one_variant :
    applicable P s a args = true ->
    filter (fun v => applicable P s v args) (ce_variants a) = [ce_variant a the_sel].
  Proof.
    intros Happ. unfold ce_variants. rewrite filter_map.
    rewrite (filter_unique _ (ce_sels a) the_sel); auto.
    - apply all_sels_nodup.
    - apply the_sel_in.
    - rewrite ce_the_variant_applicable; auto.
    - intros y Hy Hay. apply ce_applicable_sel; auto.
  Qed.

  (* and none is applicable where the original is not *)
  Lemma filter_none {A} (f : A -> bool) l : (forall x, In x l -> f x = false) -> filter f l = [].
  Proof.
    induction l as [|x l IH]; intros H; simpl; auto.
    rewrite (H x (or_introl eq_refl)). apply IH. intros y Hy. apply H. right; auto.
  Qed.

  Theorem ce_no_variant_when_inapplicable :
    applicable P s a args = false -> filter (fun v => applicable P s v args) (ce_variants a) = [].
  Proof.
    intros Happ. unfold ce_variants. rewrite filter_map. rewrite filter_none; auto.
    intros sel Hin. destruct (applicable P s (ce_variant a sel) args) eqn:E; auto.
    rewrite (ce_applicable_sel sel Hin E), ce_the_variant_applicable in E. congruence.
  Qed.
End CE.

(* ---- the variants the code drops *)
Section CE_kept.
  Variable P : problem.
  Variable s : state.
  Variable a : action.
  Variable args : list value.
  Hypothesis Hok : Forall (cond_ok P s a args) (cond_effs (a_effs a)).

  Lemma finish_nil t : finish_step P s [] = Some t -> state_eq t s.
  Proof.
    unfold finish_step. simpl. destruct (invariants_ok false P (spec_succ P s [])); intros H; inversion H; subst.
    intros f x. reflexivity.
  Qed.

  (* `if len(new_action.effects) > 0`: the variant selected in a state is dropped for having no effect only where the
     original step changes nothing *)
  Theorem ce_dropped_empty_is_noop :
    a_effs (ce_variant a (the_sel P s a args)) = [] ->
    forall t, spec_step false P s a args = Some t -> state_eq t s.
  Proof.
    intros Hnil t Ht.
    pose proof (ce_the_variant_step P s a args Hok) as H. rewrite Ht in H.
    destruct (spec_step false P s (ce_variant a (the_sel P s a args)) args) as [t'|] eqn:E; [|destruct H].
    rewrite spec_step_unfold in E. cbv zeta in E. rewrite Hnil in E.
    destruct (negb _) in E; [discriminate|].
    apply finish_nil in E. intros f x. rewrite <- (H f x). apply E.
  Qed.

  (* the kept variants: at most one is applicable; exactly one wherever the original is applicable, its selection
     is not dropped *)
  Theorem ce_kept_exactly_one :
    applicable P s a args = true -> ce_kept a (the_sel P s a args) = true ->
    filter (fun v => applicable P s v args) (ce_kept_variants a) = [ce_variant a (the_sel P s a args)].
  Proof.
    intros Happ Hk. unfold ce_kept_variants, ce_kept_sels. rewrite filter_map.
    rewrite (filter_unique _ _ (the_sel P s a args)); auto.
    - apply NoDup_filter. apply all_sels_nodup.
    - apply filter_In. split; auto. apply the_sel_in.
    - rewrite ce_the_variant_applicable; auto.
    - intros y Hy Hay. apply filter_In in Hy. apply ce_applicable_sel; tauto.
  Qed.

  Theorem ce_kept_none_when_dropped :
    ce_kept a (the_sel P s a args) = false ->
    filter (fun v => applicable P s v args) (ce_kept_variants a) = [].
  Proof.
    intros Hk. unfold ce_kept_variants, ce_kept_sels. rewrite filter_map. rewrite filter_none; auto.
    intros sel Hin. apply filter_In in Hin. destruct Hin as [Hin Hkept].
    destruct (applicable P s (ce_variant a sel) args) eqn:E; auto.
    rewrite (ce_applicable_sel P s a args Hok sel Hin E) in Hkept. congruence.
  Qed.
End CE_kept.

(* ================================================================== 4. disjunctive-conditions splitting *)
Lemma in_acts_of a L : In a (acts_of L) <-> In (EAct a) L.
Proof.
  unfold acts_of. rewrite in_flat_map. split.
  - intros [r [Hr Ha]]. destruct r; simpl in Ha; try tauto. destruct Ha as [Ha|[]]. subst. auto.
  - intros H. exists (EAct a). split; auto. left; auto.
Qed.
Lemma has_err_in L : has_err L = true <-> In EErr L.
Proof.
  unfold has_err. rewrite existsb_exists. split.
  - intros [r [Hr He]]. destruct r; try discriminate. auto.
  - intros H. exists EErr. auto.
Qed.

(* two result lists whose actions are all assignments are similar as soon as they agree as sets *)
Lemma esim_assign_sets L L' :
  (forall x, In (EAct x) L -> is_assign x = true) -> (forall x, In (EAct x) L' -> is_assign x = true) ->
  (In EErr L <-> In EErr L') -> (forall x, In (EAct x) L <-> In (EAct x) L') -> esim L L'.
Proof.
  intros HA HA' HE HX. split; [|split].
  - apply eq_true_iff_eq. rewrite !has_err_in. auto.
  - intros x _. rewrite !in_acts_of. auto.
  - assert (Hn : forall M, (forall x, In (EAct x) M -> is_assign x = true) -> filter nasg (acts_of M) = []).
    { intros M HM. apply filter_none. intros x Hx. apply in_acts_of in Hx. unfold nasg. rewrite (HM x Hx). auto. }
    rewrite (Hn L HA), (Hn L' HA'). constructor.
Qed.

Section DNF.
  Variable cdnf : expr -> list expr.
  Variable P : problem.
  Variable s : state.
  Variable a : action.
  Variable args : list value.
  Let I := mk_interp P s (zip_params (a_params a) args).

  (* HYPOTHESES per conditional effect and instance of its forall variables: target arguments defined, the condition
     and each supplied disjunct evaluate to Booleans, and "some disjunct holds iff the condition holds"
     (the DNF equivalence, proved for the walker in C12 and validated per instance by the harness) *)
  Definition dnf_cond_ok (J : interp) (e : effect) : Prop :=
    evals_l false J (e_args e) <> None /\
    (exists b, eval false (e_cond e) J = Some (VBool b)) /\
    (forall d, In d (cdnf (e_cond e)) -> exists bd, eval false d J = Some (VBool bd)) /\
    holds false J (e_cond e) = existsb (holds false J) (cdnf (e_cond e)).

  (* an effect split into several copies must be an assignment (the copies of an increase would add up:
     known finding C06-dcr-increase-per-disjunct, see dnf_increase_split_refuted in Props/C37.v) *)
  Definition split_ok (e : effect) : Prop :=
    is_kassign e = true \/ (length (cdnf (e_cond e)) <= 1)%nat.

  Definition dnf_effect_ok (e : effect) : Prop :=
    split_ok e /\ Forall (fun J => dnf_cond_ok J e) (instances I (e_vars e)).

  Lemma fire_assign J e x : is_kassign e = true -> fire J e = EAct x -> is_assign x = true.
  Proof.
    unfold fire, is_kassign, is_assign. intros Hk H.
    destruct (evals_l false J (e_args e)); [|discriminate]. destruct (eval false (e_val e) J); [|discriminate].
    inversion H; subst. simpl. exact Hk.
  Qed.

  Lemma result_cases J e c b : evals_l false J (e_args e) <> None -> eval false c J = Some (VBool b) ->
    eval_effect false J (set_cond e c) = if b then fire J e else ESkip.
  Proof. intros Ha Hc. destruct b; [apply eval_effect_true | apply eval_effect_false]; auto. Qed.

  Lemma piece_split e : dnf_effect_ok e -> esim (piece I e) (eres_of I (split_effect cdnf e)).
  Proof.
    intros [Hsplit Hall]. unfold split_effect. destruct (is_uncond e) eqn:Hu.
    { rewrite eres_of_one. apply esim_refl. }
    rewrite Forall_forall in Hall.
    assert (Horig : forall J, In J (instances I (e_vars e)) ->
              eval_effect false J e = if holds false J (e_cond e) then fire J e else ESkip).
    { intros J HJ. destruct (Hall J HJ) as [Ha [[b Hb] _]].
      rewrite <- (set_cond_id e) at 1. rewrite (result_cases J e (e_cond e) b Ha Hb), (holds_bool _ _ _ _ Hb). auto. }
    assert (Hd : forall J d, In J (instances I (e_vars e)) -> In d (cdnf (e_cond e)) ->
              eval_effect false J (set_cond e d) = if holds false J d then fire J e else ESkip).
    { intros J d HJ Hd. destruct (Hall J HJ) as [Ha [_ [Hds _]]]. destruct (Hds d Hd) as [bd Hbd].
      rewrite (result_cases J e d bd Ha Hbd), (holds_bool _ _ _ _ Hbd). auto. }
    assert (Heq : forall J, In J (instances I (e_vars e)) ->
              holds false J (e_cond e) = existsb (holds false J) (cdnf (e_cond e))).
    { intros J HJ. destruct (Hall J HJ) as [_ [_ [_ H]]]. exact H. }
    destruct Hsplit as [Hk | Hlen].
    - (* an assignment: copies do not matter *)
      unfold eres_of. rewrite flat_map_concat_map, map_map, <- flat_map_concat_map.
      apply esim_assign_sets.
      + intros x Hx. unfold piece in Hx. apply in_map_iff in Hx. destruct Hx as [J [Hx HJ]].
        rewrite (Horig J HJ) in Hx. destruct (holds false J (e_cond e)); [|discriminate].
        eapply fire_assign; eauto.
      + intros x Hx. apply in_flat_map in Hx. destruct Hx as [d [Hd' Hx]]. simpl in Hx.
        apply in_map_iff in Hx. destruct Hx as [J [Hx HJ]].
        rewrite (Hd J d HJ Hd') in Hx. destruct (holds false J d); [|discriminate]. eapply fire_assign; eauto.
      + unfold piece. rewrite in_map_iff, in_flat_map. split.
        * intros [J [Hx HJ]]. rewrite (Horig J HJ), (Heq J HJ) in Hx.
          destruct (existsb (holds false J) (cdnf (e_cond e))) eqn:E; [|discriminate].
          apply existsb_exists in E. destruct E as [d [Hd' Hh]]. exists d. split; auto. simpl.
          apply in_map_iff. exists J. split; auto. rewrite (Hd J d HJ Hd'), Hh. auto.
        * intros [d [Hd' Hx]]. simpl in Hx. apply in_map_iff in Hx. destruct Hx as [J [Hx HJ]].
          exists J. split; auto. rewrite (Hd J d HJ Hd') in Hx. destruct (holds false J d) eqn:Hh; [|discriminate].
          rewrite (Horig J HJ), (Heq J HJ).
          assert (E : existsb (holds false J) (cdnf (e_cond e)) = true) by (apply existsb_exists; eauto).
          rewrite E. auto.
      + intros x. unfold piece. rewrite in_map_iff, in_flat_map. split.
        * intros [J [Hx HJ]]. rewrite (Horig J HJ), (Heq J HJ) in Hx.
          destruct (existsb (holds false J) (cdnf (e_cond e))) eqn:E; [|discriminate].
          apply existsb_exists in E. destruct E as [d [Hd' Hh]]. exists d. split; auto. simpl.
          apply in_map_iff. exists J. split; auto. rewrite (Hd J d HJ Hd'), Hh. auto.
        * intros [d [Hd' Hx]]. simpl in Hx. apply in_map_iff in Hx. destruct Hx as [J [Hx HJ]].
          exists J. split; auto. rewrite (Hd J d HJ Hd') in Hx. destruct (holds false J d) eqn:Hh; [|discriminate].
          rewrite (Horig J HJ), (Heq J HJ).
          assert (E : existsb (holds false J) (cdnf (e_cond e)) = true) by (apply existsb_exists; eauto).
          rewrite E. auto.
    - (* at most one disjunct: the effect is kept with an equivalent condition, or dropped where it never fires *)
      destruct (cdnf (e_cond e)) as [|d [|d2 ds]] eqn:Eds; [| |simpl in Hlen; lia].
      + simpl. apply esim_skips. unfold piece. apply Forall_forall. intros r Hr. apply in_map_iff in Hr.
        destruct Hr as [J [Hr HJ]]. rewrite (Horig J HJ), (Heq J HJ) in Hr. simpl in Hr. auto.
      + simpl map. rewrite eres_of_one. unfold piece. simpl e_vars.
        replace (map (fun J => eval_effect false J (set_cond e d)) (instances I (e_vars e)))
          with (map (fun J => eval_effect false J e) (instances I (e_vars e))); [apply esim_refl|].
        apply map_ext_in. intros J HJ. rewrite (Horig J HJ), (Hd J d HJ (or_introl eq_refl)), (Heq J HJ).
        simpl. rewrite orb_false_r. reflexivity.
  Qed.

  Hypothesis Heffs : Forall dnf_effect_ok (a_effs a).

  Lemma dnf_eres : esim (eres_of I (a_effs a)) (eres_of I (flat_map (split_effect cdnf) (a_effs a))).
  Proof.
    induction (a_effs a) as [|e effs IH] in Heffs |- *; [apply esim_refl|].
    inversion Heffs; subst. simpl flat_map. rewrite eres_of_cons, eres_of_app.
    apply esim_app; [apply piece_split; auto | apply IH; auto].
  Qed.

  (* every applicable variant whose disjunct implies the original precondition takes the original step *)
  Theorem dnf_variant_same_successor d :
    (all_hold false I d = true -> all_hold false I (a_pre a) = true) ->
    applicable P s (dnf_variant cdnf a d) args = true ->
    ostate_eq (spec_step false P s (dnf_variant cdnf a d) args) (spec_step false P s a args).
  Proof.
    intros Hd Happ. unfold applicable in Happ. revert Happ.
    rewrite !spec_step_unfold. cbv zeta. simpl a_params. simpl a_pre. simpl a_effs. fold I.
    destruct (all_hold false I d) eqn:E; simpl; [|discriminate].
    rewrite (Hd eq_refl). simpl. intros _. apply esim_finish. apply esim_sym. apply dnf_eres.
  Qed.

  (* the variant of a disjunct is applicable exactly when the disjunct holds and the original effects apply *)
  Lemma dnf_variant_applicable d :
    applicable P s (dnf_variant cdnf a d) args =
    all_hold false I d && is_some (finish_step P s (eres_of I (a_effs a))).
  Proof.
    unfold applicable. rewrite spec_step_unfold. cbv zeta. simpl a_params. simpl a_pre. simpl a_effs. fold I.
    destruct (all_hold false I d); simpl; auto.
    apply ostate_eq_is_some. apply esim_finish. apply esim_sym. apply dnf_eres.
  Qed.

  (* original applicable <=> some variant applicable, given "some disjunct holds <=> the precondition holds" *)
  Theorem dnf_applicable_iff_some_variant pre_dnf :
    existsb (all_hold false I) pre_dnf = all_hold false I (a_pre a) ->
    (applicable P s a args = true <->
     exists d, In d pre_dnf /\ applicable P s (dnf_variant cdnf a d) args = true).
  Proof.
    intros Hdnf.
    assert (Horig : applicable P s a args = all_hold false I (a_pre a) && is_some (finish_step P s (eres_of I (a_effs a)))).
    { unfold applicable. rewrite spec_step_unfold. cbv zeta. fold I. destruct (all_hold false I (a_pre a)); auto. }
    rewrite Horig, <- Hdnf. split.
    - intros H. apply andb_true_iff in H. destruct H as [H1 H2]. apply existsb_exists in H1.
      destruct H1 as [d [Hin Hd]]. exists d. split; auto. rewrite dnf_variant_applicable, Hd, H2. auto.
    - intros [d [Hin Hd]]. rewrite dnf_variant_applicable in Hd. apply andb_true_iff in Hd. destruct Hd as [H1 H2].
      rewrite H2, andb_true_r. apply existsb_exists. eauto.
  Qed.

  (* `if len(new_action.effects) == 0: return None`: a dropped variant could only have taken a step that changes
     nothing *)
  Theorem dnf_dropped_empty_is_noop :
    flat_map (split_effect cdnf) (a_effs a) = [] ->
    forall t, spec_step false P s a args = Some t -> state_eq t s.
  Proof.
    intros Hnil t Ht. rewrite spec_step_unfold in Ht. cbv zeta in Ht. fold I in Ht.
    destruct (negb _) in Ht; [discriminate|].
    pose proof (esim_finish P s _ _ dnf_eres) as H. rewrite Ht, Hnil in H. simpl eres_of in H.
    destruct (finish_step P s []) as [t'|] eqn:E; [|destruct H].
    apply finish_nil in E. intros f x. rewrite (H f x). apply E.
  Qed.
End DNF.

(* ================================================================== 5. goals *)
Section Goals.
  Variable P : problem.
  Variable s : state.
  Let I0 := mk_interp P s [].

  (* the state after a fake-goal achiever: only the fake fluent changes, to true *)
  Definition set_true (fk : N) : state :=
    fun f x => if gfl_eqb (f, x) (fk, []) then Some (VBool true) else s f x.

  Lemma fake_eres fk :
    eval_effect false I0 (fake_effect fk) = EAct {| ae_key := (fk, []); ae_kind := KAssign; ae_val := VBool true |}.
  Proof. reflexivity. Qed.

  Lemma fake_succ fk :
    state_eq (spec_succ P s [{| ae_key := (fk, []); ae_kind := KAssign; ae_val := VBool true |}]) (set_true fk).
  Proof.
    intros f x. unfold spec_succ, spec_fluent, set_true, avals, deltas. simpl.
    rewrite (gfl_eqb_sym (fk, []) (f, x)).
    destruct (gfl_eqb (f, x) (fk, [])); simpl; [|reflexivity].
    destruct (is_bool_fluent P f); reflexivity.
  Qed.

  Lemma fake_effects_ok fk :
    spec_effects_ok P s [{| ae_key := (fk, []); ae_kind := KAssign; ae_val := VBool true |}] = true.
  Proof.
    unfold spec_effects_ok, spec_fluent, avals, deltas. simpl. rewrite gfl_eqb_refl. simpl.
    destruct (is_bool_fluent P fk); reflexivity.
  Qed.

  (* an achiever is applicable exactly where its disjunct holds (and the invariants survive); it makes the fake
     goal fluent true and changes nothing else *)
  Theorem fake_action_step fk d :
    ostate_eq (spec_step false P s (fake_action fk d) [])
              (if all_hold false I0 d && invariants_ok false P (set_true fk) then Some (set_true fk) else None).
  Proof.
    rewrite spec_step_unfold. cbv zeta. simpl a_params. simpl a_pre. simpl a_effs. simpl zip_params. fold I0.
    destruct (all_hold false I0 d); simpl; auto.
    rewrite fake_eres. unfold finish_step. cbn [collect_res]. rewrite fake_effects_ok. cbn [negb].
    rewrite (invariants_ok_ext false P _ _ (fake_succ fk)).
    destruct (invariants_ok false P (set_true fk)); simpl; auto. apply fake_succ.
  Qed.

  Lemma set_true_goal fk : holds false (mk_interp P (set_true fk) []) (EFluent fk []) = true.
  Proof. unfold holds. rewrite eval_EFluent. simpl. unfold set_true. rewrite gfl_eqb_refl. reflexivity. Qed.

  (* how each original goal was compiled, and what must hold of the supplied DNF (validated per instance):
     a goal kept as an expression is equivalent to the original; the disjuncts of a fake goal cover the original *)
  Definition cgoal_ok (g : expr) (c : cgoal) : Prop :=
    match c with
    | CDirect g' => holds false I0 g' = holds false I0 g
    | CFake fk ds => existsb (all_hold false I0) ds = holds false I0 g
    end.

  (* the compiled goal is met in s (direct) or can be met from s by one achiever (fake) *)
  Definition cgoal_sat (c : cgoal) : bool :=
    match c with
    | CDirect g' => holds false I0 g'
    | CFake fk ds => existsb (fun d => all_hold false I0 d) ds
    end.

  Theorem goals_equiv gs cs : Forall2 cgoal_ok gs cs -> all_hold false I0 gs = forallb cgoal_sat cs.
  Proof.
    induction 1 as [|g c gs cs Hgc _ IH]; [reflexivity|].
    change (all_hold false I0 (g :: gs)) with (holds false I0 g && all_hold false I0 gs).
    simpl forallb. rewrite IH. f_equal. destruct c; simpl in *; auto.
  Qed.

  (* a fake goal: the original goal holds iff some achiever's disjunct holds; that achiever (if the invariants
     survive) leads to a state that satisfies the compiled goal and differs from s only on the fake fluent *)
  Theorem fake_goal_achievable g fk ds :
    cgoal_ok g (CFake fk ds) ->
    (holds false I0 g = true <-> exists d, In d ds /\ all_hold false I0 d = true).
  Proof. simpl. intros H. rewrite <- H, existsb_exists. tauto. Qed.
End Goals.

(* ================================================================== 6. variants dropped for conflicting effects *)
Definition relevant (e : effect) : bool := is_uncond e && negb (e_isbool e).

Lemma lexpr_eqb_eq (l l' : list expr) : list_expr_eqb l l' = true <-> l = l'.
Proof. apply list_expr_eqb_eq. apply Forall_forall. intros x _. apply expr_eqb_eq. Qed.

Lemma tgt_eqb_eq x y : tgt_eqb x y = true <-> x = y.
Proof.
  destruct x as [f a], y as [g b]. unfold tgt_eqb. simpl. rewrite andb_true_iff, N.eqb_eq, lexpr_eqb_eq.
  split; [intros [H1 H2]; congruence | intros H; inversion H; auto].
Qed.

(* what UPConflictingEffectsException means: two unconditional effects on a non-Boolean fluent with the same
   (syntactic) target: two assignments of different value expressions, or an assignment and an increase/decrease *)
Definition conflict_pair (e1 e2 : effect) : Prop :=
  relevant e1 = true /\ relevant e2 = true /\ e_tgt e1 = e_tgt e2 /\
  ((is_kassign e1 = true /\ is_kassign e2 = true /\ same_value (e_val e1) (e_val e2) = false) \/
   (is_kassign e1 = true /\ is_kassign e2 = false) \/ (is_kassign e1 = false /\ is_kassign e2 = true)).

Definition fa_ok (fa : list (tgt * expr)) (seen : list effect) : Prop :=
  forall t v, fa_lookup t fa = Some v ->
    exists e1, In e1 seen /\ relevant e1 = true /\ is_kassign e1 = true /\ e_tgt e1 = t /\ e_val e1 = v.
Definition fid_ok (fid : list tgt) (seen : list effect) : Prop :=
  forall t, existsb (tgt_eqb t) fid = true ->
    exists e1, In e1 seen /\ relevant e1 = true /\ is_kassign e1 = false /\ e_tgt e1 = t.

Lemma fa_ok_mono fa seen e : fa_ok fa seen -> fa_ok fa (seen ++ [e]).
Proof. intros H t v Hl. destruct (H t v Hl) as [e1 [Hin Hr]]. exists e1. split; [apply in_or_app; auto | auto]. Qed.
Lemma fid_ok_mono fid seen e : fid_ok fid seen -> fid_ok fid (seen ++ [e]).
Proof. intros H t Hl. destruct (H t Hl) as [e1 [Hin Hr]]. exists e1. split; [apply in_or_app; auto | auto]. Qed.

Lemma add_effs_conflict es : forall fa fid seen, fa_ok fa seen -> fid_ok fid seen ->
  add_effs_ok fa fid es = false ->
  exists e1 e2, In e1 (seen ++ es) /\ In e2 es /\ conflict_pair e1 e2.
Proof.
  induction es as [|e es IH]; intros fa fid seen Hfa Hfid H; [discriminate|].
  assert (Hrec : forall fa' fid', fa_ok fa' (seen ++ [e]) -> fid_ok fid' (seen ++ [e]) ->
            add_effs_ok fa' fid' es = false ->
            exists e1 e2, In e1 (seen ++ e :: es) /\ In e2 (e :: es) /\ conflict_pair e1 e2).
  { intros fa' fid' H1 H2 H3. destruct (IH fa' fid' (seen ++ [e]) H1 H2 H3) as [e1 [e2 [Hi1 [Hi2 Hc]]]].
    exists e1, e2. rewrite <- app_assoc in Hi1. simpl in Hi1. split; auto. split; [right; auto | auto]. }
  simpl in H. fold (relevant e) in H.
  destruct (relevant e) eqn:Hrel.
  - destruct (is_kassign e) eqn:Hk.
    + destruct (existsb (tgt_eqb (e_tgt e)) fid) eqn:Hfid'.
      * destruct (Hfid _ Hfid') as [e1 [Hin [Hr [Hk1 Ht]]]].
        exists e1, e. split; [apply in_or_app; auto|]. split; [left; auto|].
        repeat split; auto.
      * destruct (fa_lookup (e_tgt e) fa) as [v|] eqn:Hl.
        -- destruct (same_value v (e_val e)) eqn:Hsv.
           ++ apply (Hrec fa fid); auto using fa_ok_mono, fid_ok_mono.
           ++ destruct (Hfa _ _ Hl) as [e1 [Hin [Hr [Hk1 [Ht Hv]]]]].
              exists e1, e. split; [apply in_or_app; auto|]. split; [left; auto|].
              repeat split; auto. left. subst v. auto.
        -- apply (Hrec ((e_tgt e, e_val e) :: fa) fid); auto using fid_ok_mono.
           intros t v Hl'. simpl in Hl'. destruct (tgt_eqb t (e_tgt e)) eqn:Ht.
           ++ inversion Hl'; subst. apply tgt_eqb_eq in Ht. exists e. split; [apply in_or_app; right; left; auto|].
              repeat split; auto.
           ++ exact (fa_ok_mono fa seen e Hfa t v Hl').
    + destruct (fa_lookup (e_tgt e) fa) as [v|] eqn:Hl.
      * destruct (Hfa _ _ Hl) as [e1 [Hin [Hr [Hk1 [Ht Hv]]]]].
        exists e1, e. split; [apply in_or_app; auto|]. split; [left; auto|]. repeat split; auto.
      * apply (Hrec fa (e_tgt e :: fid)); auto using fa_ok_mono.
        intros t Hl'. simpl in Hl'. apply orb_true_iff in Hl'. destruct Hl' as [Ht|Ht].
        -- apply tgt_eqb_eq in Ht. exists e. split; [apply in_or_app; right; left; auto|]. repeat split; auto.
        -- exact (fid_ok_mono fid seen e Hfid t Ht).
  - apply (Hrec fa fid); auto using fa_ok_mono, fid_ok_mono.
Qed.

Lemma is_true_eq c : is_true c = true -> c = EBool true.
Proof. destruct c; try discriminate. destruct b; [reflexivity | discriminate]. Qed.

Section Conflict.
  Variable P : problem.
  Variable s : state.
  Variable a : action.
  Variable args : list value.
  Let I := mk_interp P s (zip_params (a_params a) args).

  Lemma piece_uncond_novars e : is_uncond e = true -> e_vars e = [] -> piece I e = [fire I e].
  Proof.
    intros Hu Hv. unfold piece. rewrite Hv. simpl. f_equal.
    rewrite <- (set_cond_id e) at 1. apply eval_effect_true. apply is_true_eq in Hu. rewrite Hu. reflexivity.
  Qed.

  Lemma fire_in e : In e (a_effs a) -> is_uncond e = true -> e_vars e = [] -> In (fire I e) (eres_of I (a_effs a)).
  Proof.
    intros Hin Hu Hv. unfold eres_of. apply in_flat_map. exists e. split; auto.
    change (In (fire I e) (piece I e)). rewrite piece_uncond_novars; auto. left; auto.
  Qed.

  (* two effects that conflict for check_conflicting_effects make the action inapplicable, provided: they have no
     forall variables, the target is not a Boolean fluent of the problem, and (two assignments) their values differ
     in the state whenever they differ as expressions *)
  Theorem conflict_inapplicable e1 e2 :
    In e1 (a_effs a) -> In e2 (a_effs a) -> conflict_pair e1 e2 ->
    e_vars e1 = [] -> e_vars e2 = [] -> is_bool_fluent P (e_fl e1) = false ->
    (is_kassign e1 = true -> is_kassign e2 = true ->
     forall v1 v2, eval false (e_val e1) I = Some v1 -> eval false (e_val e2) I = Some v2 -> v1 <> v2) ->
    spec_step false P s a args = None.
  Proof.
    intros Hin1 Hin2 [Hr1 [Hr2 [Htgt Hkinds]]] Hv1 Hv2 Hnb Hdiff.
    rewrite spec_step_unfold. cbv zeta. fold I. destruct (negb (all_hold false I (a_pre a))); [reflexivity|].
    unfold relevant in Hr1, Hr2. apply andb_true_iff in Hr1. apply andb_true_iff in Hr2.
    destruct Hr1 as [Hu1 _], Hr2 as [Hu2 _].
    pose proof (fire_in e1 Hin1 Hu1 Hv1) as F1. pose proof (fire_in e2 Hin2 Hu2 Hv2) as F2.
    unfold finish_step. rewrite collect_res_spec.
    destruct (has_err (eres_of I (a_effs a))) eqn:Herr; [reflexivity|].
    assert (Hne : forall e, In (fire I e) (eres_of I (a_effs a)) -> fire I e <> EErr).
    { intros e Hi He. rewrite He in Hi. apply has_err_in in Hi. congruence. }
    specialize (Hne e1 F1) as N1. specialize (Hne e2 F2) as N2.
    unfold fire in *. unfold e_tgt in Htgt. inversion Htgt as [[Hfl Hargs]].
    rewrite <- Hargs, <- Hfl in *.
    destruct (evals_l false I (e_args e1)) as [vs|] eqn:Eargs; [|congruence].
    destruct (eval false (e_val e1) I) as [v1|] eqn:E1; [|congruence].
    destruct (eval false (e_val e2) I) as [v2|] eqn:E2; [|congruence].
    apply in_acts_of in F1. apply in_acts_of in F2.
    set (acts := acts_of (eres_of I (a_effs a))) in *.
    set (k := (e_fl e1, vs)) in *.
    set (x1 := {| ae_key := k; ae_kind := e_kind e1; ae_val := v1 |}) in *.
    set (x2 := {| ae_key := k; ae_kind := e_kind e2; ae_val := v2 |}) in *.
    assert (Hfail : spec_fluent P s acts k = CFail).
    { unfold spec_fluent. simpl fst. rewrite Hnb.
      assert (HA : forall x, In x acts -> ae_key x = k -> is_assign x = true -> In (ae_val x) (avals k acts)).
      { intros x Hx Hk Ha. apply in_avals. exists x. rewrite Hk, gfl_eqb_refl. auto. }
      assert (HD : forall x, In x acts -> ae_key x = k -> is_assign x = false -> deltas k acts <> []).
      { intros x Hx Hk Ha Hnil. assert (Hi : In (delta_of x) (deltas k acts)).
        { unfold deltas. apply in_map. apply filter_In. split; auto. rewrite Hk, gfl_eqb_refl, Ha. auto. }
        rewrite Hnil in Hi. destruct Hi. }
      destruct Hkinds as [[Hk1 [Hk2 _]] | [[Hk1 Hk2] | [Hk1 Hk2]]].
      - (* two assignments of different values *)
        assert (Hneq : v1 <> v2) by (apply Hdiff; auto).
        pose proof (HA x1 F1 eq_refl Hk1) as A1. pose proof (HA x2 F2 eq_refl Hk2) as A2. simpl in A1, A2.
        destruct (avals k acts) as [|a0 rest] eqn:EA; [destruct A1|].
        destruct (deltas k acts) as [|d0 D]; [|reflexivity].
        simpl. destruct (forallb (value_eqb a0) rest) eqn:Eall; [|reflexivity].
        exfalso. apply Hneq.
        assert (Hall : forall x, In x (a0 :: rest) -> x = a0).
        { intros x [Hx|Hx]; auto. rewrite forallb_forall in Eall. apply Eall in Hx. apply value_eqb_eq in Hx. auto. }
        rewrite (Hall v1 A1), (Hall v2 A2). reflexivity.
      - pose proof (HA x1 F1 eq_refl Hk1) as A1. pose proof (HD x2 F2 eq_refl Hk2) as D2.
        destruct (avals k acts) as [|a0 rest]; [destruct A1|]. destruct (deltas k acts); [congruence|reflexivity].
      - pose proof (HA x2 F2 eq_refl Hk2) as A2. pose proof (HD x1 F1 eq_refl Hk1) as D1.
        destruct (avals k acts) as [|a0 rest]; [destruct A2|]. destruct (deltas k acts); [congruence|reflexivity]. }
    assert (Hok : spec_effects_ok P s acts = false).
    { unfold spec_effects_ok. destruct (forallb _ acts) eqn:E; auto.
      rewrite forallb_forall in E. specialize (E x1 F1). simpl in E. rewrite Hfail in E. discriminate. }
    rewrite Hok. reflexivity.
  Qed.
End Conflict.

(* the selected variant dropped for a conflict: the original action is not applicable there (so nothing is lost),
   under the hypotheses of [conflict_inapplicable] for the effects of that variant *)
Theorem ce_conflict_drop_sound P s a args :
  Forall (cond_ok P s a args) (cond_effs (a_effs a)) ->
  let v := ce_variant a (the_sel P s a args) in
  let I := mk_interp P s (zip_params (a_params a) args) in
  add_effs_ok [] [] (a_effs v) = false ->
  (forall e, In e (a_effs v) -> relevant e = true -> e_vars e = [] /\ is_bool_fluent P (e_fl e) = false) ->
  (forall e1 e2, In e1 (a_effs v) -> In e2 (a_effs v) -> same_value (e_val e1) (e_val e2) = false ->
     forall v1 v2, eval false (e_val e1) I = Some v1 -> eval false (e_val e2) I = Some v2 -> v1 <> v2) ->
  applicable P s a args = false.
Proof.
  intros Hok v I Hconf Hrel Hdiff.
  rewrite <- (ce_the_variant_applicable P s a args Hok). fold v.
  destruct (add_effs_conflict (a_effs v) [] [] []) as [e1 [e2 [Hi1 [Hi2 Hc]]]]; auto.
  { intros t x H. discriminate. }
  { intros t H. discriminate. }
  simpl in Hi1. pose proof Hc as [Hr1 [Hr2 [_ Hk]]].
  destruct (Hrel e1 Hi1 Hr1) as [Hv1 Hb1]. destruct (Hrel e2 Hi2 Hr2) as [Hv2 _].
  unfold applicable. rewrite (conflict_inapplicable P s v args e1 e2); auto.
  intros Hk1 Hk2. apply Hdiff; auto.
  destruct Hk as [[_ [_ H]] | [[_ H] | [H _]]]; auto; congruence.
Qed.

(* the same for a variant of the disjunctive splitting left out after UPConflictingEffectsException (a split effect
   whose condition simplified to TRUE): wherever its disjunct holds the original action is not applicable *)
Theorem dnf_conflict_drop_sound cdnf P s a args d :
  Forall (dnf_effect_ok cdnf P s a args) (a_effs a) ->
  let v := dnf_variant cdnf a d in
  let I := mk_interp P s (zip_params (a_params a) args) in
  add_effs_ok [] [] (a_effs v) = false ->
  (forall e, In e (a_effs v) -> relevant e = true -> e_vars e = [] /\ is_bool_fluent P (e_fl e) = false) ->
  (forall e1 e2, In e1 (a_effs v) -> In e2 (a_effs v) -> same_value (e_val e1) (e_val e2) = false ->
     forall v1 v2, eval false (e_val e1) I = Some v1 -> eval false (e_val e2) I = Some v2 -> v1 <> v2) ->
  all_hold false I d = true -> (all_hold false I d = true -> all_hold false I (a_pre a) = true) ->
  applicable P s a args = false.
Proof.
  intros Hok v I Hconf Hrel Hdiff Hd Hpre.
  destruct (add_effs_conflict (a_effs v) [] [] []) as [e1 [e2 [Hi1 [Hi2 Hc]]]]; auto.
  { intros t x H. discriminate. }
  { intros t H. discriminate. }
  simpl in Hi1. pose proof Hc as [Hr1 [Hr2 [_ Hk]]].
  destruct (Hrel e1 Hi1 Hr1) as [Hv1 Hb1]. destruct (Hrel e2 Hi2 Hr2) as [Hv2 _].
  assert (Hv : applicable P s v args = false).
  { unfold applicable. rewrite (conflict_inapplicable P s v args e1 e2); auto.
    intros Hk1 Hk2. apply Hdiff; auto.
    destruct Hk as [[_ [_ H]] | [[_ H] | [H _]]]; auto; congruence. }
  unfold v in Hv. rewrite (dnf_variant_applicable cdnf P s a args Hok d) in Hv. fold I in Hv. rewrite Hd in Hv.
  simpl in Hv. unfold applicable. rewrite spec_step_unfold. cbv zeta. fold I. rewrite (Hpre Hd). simpl. exact Hv.
Qed.
