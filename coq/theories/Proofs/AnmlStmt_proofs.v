(* Proofs about the statement layer of the ANML codec (Model/AnmlStmt.v): timings, intervals, conditions, effects. *)
From Coq Require Import List ZArith NArith QArith Qcanon Bool Lia.
Import ListNotations.
Require Import UPV.Core.Expr UPV.Core.Eval UPV.Proofs.Eval_lemmas UPV.Planning.Problem UPV.Planning.Temporal.
Require Import UPV.Model.AnmlExpr UPV.Proofs.AnmlExpr_proofs UPV.Model.AnmlStmt.
Local Open Scope nat_scope.

Lemma Q2Qc_this (q : Qc) : Q2Qc (this q) = q.
Proof. apply Qc_is_canon. cbn. apply Qred_correct. Qed.

Definition tstop (r : list token) : bool :=
  match r with (TComma | TRsq | TRp) :: _ => true | _ => false end.

Lemma rat_rt q rest : (0 <=? Qnum (this q))%Z = true -> tstop rest = true ->
  parse_rat (pr_rat q ++ rest) = Some (q, rest).
Proof.
  intros Hn Hs. apply Z.leb_le in Hn. unfold pr_rat.
  assert (E : forall d, Qden (this q) = d -> mkq (Z.to_N (Qnum (this q))) d = q).
  { intros d Hd. unfold mkq. rewrite Z2N.id by exact Hn. rewrite <- Hd.
    rewrite <- (Q2Qc_this q) at 3. f_equal. destruct (this q); reflexivity. }
  destruct (Qden (this q)) eqn:D; cbn [app parse_rat].
  - rewrite (E _ eq_refl). reflexivity.
  - rewrite (E _ eq_refl). reflexivity.
  - destruct rest as [|[] rest]; cbn in Hs; try discriminate; rewrite (E _ eq_refl); reflexivity.
Qed.

Lemma this_opp (q : Qc) : this (Qcopp q) = Qopp (this q).
Proof. unfold Qcopp, Q2Qc. cbn [this]. rewrite Qred_opp. f_equal. destruct q as [x Hx]. exact Hx. Qed.

Lemma qc_zero_eq q : qc_pos q = false -> qc_neg q = false -> q = Q2Qc 0.
Proof.
  unfold qc_pos, qc_neg. intros H1 H2. apply Z.ltb_ge in H1. apply Z.ltb_ge in H2.
  apply Qc_is_canon. destruct q as [[n d] Hc]. cbn in *. unfold Qeq. cbn. lia.
Qed.

Theorem timing_rt tm rest : timing_ok tm = true -> tstop rest = true ->
  parse_timing (pr_timing tm ++ rest) = Some (tm, rest).
Proof.
  destruct tm as [an q]. unfold timing_ok, pr_timing. cbn [tm_anchor tm_delay]. intros Hok Hs.
  destruct (qc_pos q) eqn:P.
  - assert (Hn : (0 <=? Qnum (this q))%Z = true) by (unfold qc_pos in P; apply Z.ltb_lt in P; apply Z.leb_le; lia).
    destruct an; [|discriminate].
    cbn [app parse_timing]. rewrite (rat_rt q rest Hn Hs). reflexivity.
  - destruct (qc_neg q) eqn:Ng.
    + destruct an; [discriminate|].
      assert (Hn : (0 <=? Qnum (this (Qcopp q)))%Z = true).
      { rewrite this_opp. unfold qc_neg in Ng. apply Z.ltb_lt in Ng. apply Z.leb_le. destruct (this q). cbn in *. lia. }
      cbn [app parse_timing]. rewrite (rat_rt (Qcopp q) rest Hn Hs). rewrite Qcopp_involutive. reflexivity.
    + rewrite (qc_zero_eq q P Ng). cbn [app].
      destruct an; cbn [parse_timing]; destruct rest as [|[] rest]; cbn in Hs; try discriminate; reflexivity.
Qed.

Theorem interval_rt iv rest : interval_ok iv = true ->
  parse_interval (pr_interval iv ++ rest)
  = Some (if timing_eqb (ti_lo iv) (ti_hi iv) then PPoint (ti_lo iv) else PIv iv, rest).
Proof.
  destruct iv as [lo hi lop rop]. unfold interval_ok, pr_interval. cbn [ti_lo ti_hi ti_lopen ti_ropen].
  intros H. apply andb_prop in H. destruct H as [H Hp]. apply andb_prop in H. destruct H as [Hlo Hhi].
  destruct (timing_eqb lo hi) eqn:E.
  - apply andb_prop in Hp. destruct Hp as [Hl Hr]. apply negb_true_iff in Hl, Hr. subst.
    cbn [app]. rewrite <- app_assoc. cbn [app parse_interval].
    rewrite (timing_rt lo (TRsq :: rest) Hlo eq_refl). reflexivity.
  - assert (X : forall l b, tstop (b :: rest) = true ->
            parse_interval (l :: (pr_timing lo ++ TComma :: pr_timing hi) ++ [b] ++ rest)
            = match l with
              | TLsq | TLp =>
                  match b with
                  | TRsq | TRp => Some (PIv {| ti_lo := lo; ti_hi := hi; ti_lopen := match l with TLp => true | _ => false end;
                                               ti_ropen := match b with TRp => true | _ => false end |}, rest)
                  | _ => None
                  end
              | _ => None end).
    { intros l b Hb. rewrite <- app_assoc. cbn [app].
      destruct l; try reflexivity; cbn [parse_interval];
        rewrite (timing_rt lo (TComma :: pr_timing hi ++ b :: rest) Hlo eq_refl);
        rewrite (timing_rt hi (b :: rest) Hhi Hb); destruct b; cbn in Hb; try discriminate; reflexivity. }
    destruct lop, rop; cbn [app]; rewrite <- app_assoc; rewrite X by reflexivity; reflexivity.
Qed.

(* ---- statements: no statement keyword inside printed expressions / intervals; conditions ---- *)
Definition cleant (t : token) : bool := negb (is_stmt_tok t || is_when t).
Definition clean (ts : list token) : bool := forallb cleant ts.

Lemma clean_no ts : clean ts = true -> existsb is_stmt_tok ts = false /\ existsb is_when ts = false.
Proof.
  induction ts as [|t ts IH]; [split; reflexivity|]. cbn [clean forallb existsb]. intros H.
  apply andb_prop in H. destruct H as [Ht Hts]. destruct (IH Hts) as [A B]. rewrite A, B.
  unfold cleant in Ht. apply negb_true_iff in Ht. apply orb_false_iff in Ht. destruct Ht as [-> ->]. split; reflexivity.
Qed.

Section S.
  Variable W : wnames.

  Lemma clean_join sep l : cleant sep = true -> Forall (fun x => clean (pr W x) = true) l ->
    clean (join sep (map (pr W) l)) = true.
  Proof.
    intros Hs HF. induction HF as [|x l Hx HF IH]; [reflexivity|].
    destruct l as [|y l]; [exact Hx|].
    change (join sep (map (pr W) (x :: y :: l))) with (pr W x ++ sep :: join sep (map (pr W) (y :: l))).
    unfold clean in *. rewrite forallb_app. cbn [forallb]. rewrite Hx, Hs, IH. reflexivity.
  Qed.
  Lemma clean_vars vs : clean (pr_vars W vs) = true.
  Proof.
    unfold pr_vars. induction vs as [|p vs IH]; [reflexivity|]. destruct vs as [|p' vs]; [reflexivity|].
    change (join TComma (map (fun p => [TName (nmT W (snd p)); TName (nmV W (fst p))]) (p :: p' :: vs)))
      with ([TName (nmT W (snd p)); TName (nmV W (fst p))] ++ TComma ::
            join TComma (map (fun p => [TName (nmT W (snd p)); TName (nmV W (fst p))]) (p' :: vs))).
    unfold clean in *. rewrite forallb_app. cbn [forallb]. rewrite IH. reflexivity.
  Qed.

  Lemma clean_pr : forall e, clean (pr W e) = true.
  Proof.
    induction e using expr_ind'; try reflexivity;
      try (cbn [pr]; unfold clean in *; cbn [forallb]; rewrite ?forallb_app; cbn [forallb];
           rewrite ?IHe, ?IHe1, ?IHe2; reflexivity).
    all: try (destruct b; reflexivity).
    all: try (cbn [pr]; unfold pr_int; destruct (z <? 0)%Z; reflexivity).
    all: try (cbn [pr]; unfold pr_int, clean; destruct (Qnum (this q) <? 0)%Z; reflexivity).
    all: try (destruct args as [|x l]; [reflexivity|];
      change (pr W (EFluent f (x :: l))) with (TName (nmF W f) :: TLp :: join TComma (map (pr W) (x :: l)) ++ [TRp]);
      pose proof (clean_join TComma (x :: l) eq_refl H) as C; unfold clean in *; cbn [forallb]; rewrite forallb_app, C; reflexivity).
    all: try (cbn [pr]; match goal with |- context [join ?s _] => pose proof (clean_join s l eq_refl H) as C end;
      unfold clean in *; cbn [forallb]; rewrite forallb_app, C; reflexivity).
    all: try (cbn [pr]; unfold clean in *; repeat (progress (cbn [forallb]; rewrite ?forallb_app));
              rewrite ?IHe1, ?IHe2; cbn [forallb andb]; rewrite ?IHe1, ?IHe2; reflexivity).
    all: cbn [pr]; match goal with |- context [pr_vars W ?v] => pose proof (clean_vars v) as V end;
      unfold clean in *; cbn [forallb]; rewrite !forallb_app; cbn [forallb]; rewrite V, IHe; reflexivity.
  Qed.

  Lemma clean_rat q : clean (pr_rat q) = true.
  Proof. unfold pr_rat. destruct (Qden (this q)); reflexivity. Qed.
  Lemma clean_timing tm : clean (pr_timing tm) = true.
  Proof.
    unfold pr_timing. destruct (qc_pos (tm_delay tm)); [|destruct (qc_neg (tm_delay tm))];
      unfold clean; cbn [forallb]; fold (clean (pr_rat (tm_delay tm))); fold (clean (pr_rat (- tm_delay tm)));
      rewrite ?clean_rat; destruct (tm_anchor tm); reflexivity.
  Qed.
  Lemma clean_interval iv : clean (pr_interval iv) = true.
  Proof.
    unfold pr_interval, clean. cbn [forallb]. rewrite forallb_app.
    pose proof (clean_timing (ti_lo iv)) as A. pose proof (clean_timing (ti_hi iv)) as B. unfold clean in A, B.
    destruct (timing_eqb (ti_lo iv) (ti_hi iv)); rewrite ?forallb_app; cbn [forallb]; rewrite ?A, ?B;
      destruct (ti_lopen iv), (ti_ropen iv); reflexivity.
  Qed.

  Variable R : rtables.
  Variable arity : N -> nat.
  Hypothesis HN : names_ok W R arity.

  (* the expression theorem as the inner step: an expression of the fragment followed by a token that is neither an
     operator nor "(" is read by the top level of the expression parser, which stops in front of that token *)
  Lemma expr_step e bs rest n :
    anml_ok R arity bs e = true -> nolp rest = true -> lv (hd rest) = 0 ->
    20 * length (pr W e) + 10 <= n ->
    go R n SImp (rscope W bs) (pr W e ++ rest) = Ok (norm e) (tier_of e) rest.
  Proof.
    intros Hok Hl Hv Hn.
    pose proof (main W R arity HN true (fun _ => quant_case W R arity HN) e bs (frag_true e) Hok rest Hl) as P.
    exact (up_imp R _ _ _ _ _ _ (start_pr W R arity e bs rest Hok) P Hv n Hn).
  Qed.

  Lemma timing_eqb_eq a b : timing_eqb a b = true -> a = b.
  Proof.
    destruct a as [x p], b as [y q]. unfold timing_eqb. cbn. intros H. apply andb_prop in H. destruct H as [A B].
    apply qc_eqb_eq in B. subst. destruct x, y; cbn in A; try discriminate; reflexivity.
  Qed.

  Theorem cond_rt iv c : stmt_ok R arity (SCond iv c) = true ->
    parse_stmt R (pr_stmt W (SCond iv c)) = Some (PCond iv (norm c)).
  Proof.
    cbn [stmt_ok pr_stmt]. intros H. apply andb_prop in H. destruct H as [Hiv Hc].
    unfold parse_stmt.
    assert (Cl : clean (pr_interval iv ++ pr W c ++ [TSemi]) = true).
    { unfold clean. rewrite !forallb_app. fold (clean (pr_interval iv)). fold (clean (pr W c)).
      rewrite clean_interval, clean_pr. reflexivity. }
    destruct (clean_no _ Cl) as [-> ->].
    unfold parse_cond, opt_interval. rewrite (interval_rt iv _ Hiv).
    change (@nil (N * N)) with (rscope W []).
    rewrite (expr_step c [] [TSemi] _ Hc eq_refl eq_refl).
    - f_equal. f_equal. destruct (timing_eqb (ti_lo iv) (ti_hi iv)) eqn:E; [|reflexivity].
      unfold interval_ok in Hiv. rewrite E in Hiv. apply andb_prop in Hiv. destruct Hiv as [_ Hb].
      apply andb_prop in Hb. destruct Hb as [Hl Hr]. apply negb_true_iff in Hl, Hr.
      apply timing_eqb_eq in E. destruct iv as [lo hi lop rop]. cbn in *. subst. reflexivity.
    - unfold fuel_of. rewrite !app_length. lia.
  Qed.
End S.
