(* Proofs about the statement layer of the ANML codec (Model/AnmlStmt.v): timings, intervals, conditions, effects. *)
From Coq Require Import List ZArith NArith QArith Qcanon Bool Lia.
Import ListNotations.
Require Import UPV.Core.Expr UPV.Core.Eval UPV.Proofs.Eval_lemmas UPV.Planning.Problem UPV.Planning.Temporal.
Require Import UPV.Model.AnmlExpr UPV.Proofs.AnmlExpr_proofs UPV.Model.AnmlStmt.
Local Open Scope nat_scope.

Lemma Q2Qc_this (q : Qc) : Q2Qc (this q) = q.
Proof. apply Qc_is_canon. cbn. apply Qred_correct. Qed.

Definition tstop (r : list token) : bool :=
  match r with (TComma | TRsq | TRp) :: _ => true | _ => false end.

Lemma rat_rt q rest : (0 <=? Qnum (this q))%Z = true -> tstop rest = true ->
  parse_rat (pr_rat q ++ rest) = Some (q, rest).
Proof.
  intros Hn Hs. apply Z.leb_le in Hn. unfold pr_rat.
  assert (E : forall d, Qden (this q) = d -> mkq (Z.to_N (Qnum (this q))) d = q).
  { intros d Hd. unfold mkq. rewrite Z2N.id by exact Hn. rewrite <- Hd.
    rewrite <- (Q2Qc_this q) at 3. f_equal. destruct (this q); reflexivity. }
  destruct (Qden (this q)) eqn:D; cbn [app parse_rat].
  - rewrite (E _ eq_refl). reflexivity.
  - rewrite (E _ eq_refl). reflexivity.
  - destruct rest as [|[] rest]; cbn in Hs; try discriminate; rewrite (E _ eq_refl); reflexivity.
Qed.

Lemma this_opp (q : Qc) : this (Qcopp q) = Qopp (this q).
Proof. unfold Qcopp, Q2Qc. cbn [this]. rewrite Qred_opp. f_equal. destruct q as [x Hx]. exact Hx. Qed.

Lemma qc_zero_eq q : qc_pos q = false -> qc_neg q = false -> q = Q2Qc 0.
Proof.
  unfold qc_pos, qc_neg. intros H1 H2. apply Z.ltb_ge in H1. apply Z.ltb_ge in H2.
  apply Qc_is_canon. destruct q as [[n d] Hc]. cbn in *. unfold Qeq. cbn. lia.
Qed.

Theorem timing_rt tm rest : timing_ok tm = true -> tstop rest = true ->
  parse_timing (pr_timing tm ++ rest) = Some (tm, rest).
Proof.
  destruct tm as [an q]. unfold timing_ok, pr_timing. cbn [tm_anchor tm_delay]. intros Hok Hs.
  destruct (qc_pos q) eqn:P.
  - assert (Hn : (0 <=? Qnum (this q))%Z = true) by (unfold qc_pos in P; apply Z.ltb_lt in P; apply Z.leb_le; lia).
    destruct an; [|discriminate].
    cbn [app parse_timing]. rewrite (rat_rt q rest Hn Hs). reflexivity.
  - destruct (qc_neg q) eqn:Ng.
    + destruct an; [discriminate|].
      assert (Hn : (0 <=? Qnum (this (Qcopp q)))%Z = true).
      { rewrite this_opp. unfold qc_neg in Ng. apply Z.ltb_lt in Ng. apply Z.leb_le. destruct (this q). cbn in *. lia. }
      cbn [app parse_timing]. rewrite (rat_rt (Qcopp q) rest Hn Hs). rewrite Qcopp_involutive. reflexivity.
    + rewrite (qc_zero_eq q P Ng). cbn [app].
      destruct an; cbn [parse_timing]; destruct rest as [|[] rest]; cbn in Hs; try discriminate; reflexivity.
Qed.

Theorem interval_rt iv rest : interval_ok iv = true ->
  parse_interval (pr_interval iv ++ rest)
  = Some (if timing_eqb (ti_lo iv) (ti_hi iv) then PPoint (ti_lo iv) else PIv iv, rest).
Proof.
  destruct iv as [lo hi lop rop]. unfold interval_ok, pr_interval. cbn [ti_lo ti_hi ti_lopen ti_ropen].
  intros H. apply andb_prop in H. destruct H as [H Hp]. apply andb_prop in H. destruct H as [Hlo Hhi].
  destruct (timing_eqb lo hi) eqn:E.
  - apply andb_prop in Hp. destruct Hp as [Hl Hr]. apply negb_true_iff in Hl, Hr. subst.
    cbn [app]. rewrite <- app_assoc. cbn [app parse_interval].
    rewrite (timing_rt lo (TRsq :: rest) Hlo eq_refl). reflexivity.
  - assert (X : forall l b, tstop (b :: rest) = true ->
            parse_interval (l :: (pr_timing lo ++ TComma :: pr_timing hi) ++ [b] ++ rest)
            = match l with
              | TLsq | TLp =>
                  match b with
                  | TRsq | TRp => Some (PIv {| ti_lo := lo; ti_hi := hi; ti_lopen := match l with TLp => true | _ => false end;
                                               ti_ropen := match b with TRp => true | _ => false end |}, rest)
                  | _ => None
                  end
              | _ => None end).
    { intros l b Hb. rewrite <- app_assoc. cbn [app].
      destruct l; try reflexivity; cbn [parse_interval];
        rewrite (timing_rt lo (TComma :: pr_timing hi ++ b :: rest) Hlo eq_refl);
        rewrite (timing_rt hi (b :: rest) Hhi Hb); destruct b; cbn in Hb; try discriminate; reflexivity. }
    destruct lop, rop; cbn [app]; rewrite <- app_assoc; rewrite X by reflexivity; reflexivity.
Qed.
