(* Proofs about the statement layer of the ANML codec (Model/AnmlStmt.v): timings, intervals, conditions, effects. *)
From Coq Require Import List ZArith NArith QArith Qcanon Bool Lia.
Import ListNotations.
Require Import UPV.Core.Expr UPV.Core.Eval UPV.Proofs.Eval_lemmas UPV.Planning.Problem UPV.Planning.Temporal.
Require Import UPV.Model.AnmlExpr UPV.Proofs.AnmlExpr_proofs UPV.Model.AnmlStmt.
Local Open Scope nat_scope.

Lemma Q2Qc_this (q : Qc) : Q2Qc (this q) = q.
Proof. apply Qc_is_canon. cbn. apply Qred_correct. Qed.

Definition tstop (r : list token) : bool :=
  match r with (TComma | TRsq | TRp) :: _ => true | _ => false end.

Lemma rat_rt q rest : (0 <=? Qnum (this q))%Z = true -> tstop rest = true ->
  parse_rat (pr_rat q ++ rest) = Some (q, rest).
Proof.
  intros Hn Hs. apply Z.leb_le in Hn. unfold pr_rat.
  assert (E : forall d, Qden (this q) = d -> mkq (Z.to_N (Qnum (this q))) d = q).
  { intros d Hd. unfold mkq. rewrite Z2N.id by exact Hn. rewrite <- Hd.
    rewrite <- (Q2Qc_this q) at 3. f_equal. destruct (this q); reflexivity. }
  destruct (Qden (this q)) eqn:D; cbn [app parse_rat].
  - rewrite (E _ eq_refl). reflexivity.
  - rewrite (E _ eq_refl). reflexivity.
  - destruct rest as [|[] rest]; cbn in Hs; try discriminate; rewrite (E _ eq_refl); reflexivity.
Qed.

Lemma this_opp (q : Qc) : this (Qcopp q) = Qopp (this q).
Proof. unfold Qcopp, Q2Qc. cbn [this]. rewrite Qred_opp. f_equal. destruct q as [x Hx]. exact Hx. Qed.

Lemma qc_zero_eq q : qc_pos q = false -> qc_neg q = false -> q = Q2Qc 0.
Proof.
  unfold qc_pos, qc_neg. intros H1 H2. apply Z.ltb_ge in H1. apply Z.ltb_ge in H2.
  apply Qc_is_canon. destruct q as [[n d] Hc]. cbn in *. unfold Qeq. cbn. lia.
Qed.

Theorem timing_rt tm rest : timing_ok tm = true -> tstop rest = true ->
  parse_timing (pr_timing tm ++ rest) = Some (tm, rest).
Proof.
  destruct tm as [an q]. unfold timing_ok, pr_timing. cbn [tm_anchor tm_delay]. intros Hok Hs.
  destruct (qc_pos q) eqn:P.
  - assert (Hn : (0 <=? Qnum (this q))%Z = true) by (unfold qc_pos in P; apply Z.ltb_lt in P; apply Z.leb_le; lia).
    destruct an; [|discriminate].
    cbn [app parse_timing]. rewrite (rat_rt q rest Hn Hs). reflexivity.
  - destruct (qc_neg q) eqn:Ng.
    + destruct an; [discriminate|].
      assert (Hn : (0 <=? Qnum (this (Qcopp q)))%Z = true).
      { rewrite this_opp. unfold qc_neg in Ng. apply Z.ltb_lt in Ng. apply Z.leb_le. destruct (this q). cbn in *. lia. }
      cbn [app parse_timing]. rewrite (rat_rt (Qcopp q) rest Hn Hs). rewrite Qcopp_involutive. reflexivity.
    + rewrite (qc_zero_eq q P Ng). cbn [app].
      destruct an; cbn [parse_timing]; destruct rest as [|[] rest]; cbn in Hs; try discriminate; reflexivity.
Qed.

Theorem interval_rt iv rest : interval_ok iv = true ->
  parse_interval (pr_interval iv ++ rest)
  = Some (if timing_eqb (ti_lo iv) (ti_hi iv) then PPoint (ti_lo iv) else PIv iv, rest).
Proof.
  destruct iv as [lo hi lop rop]. unfold interval_ok, pr_interval. cbn [ti_lo ti_hi ti_lopen ti_ropen].
  intros H. apply andb_prop in H. destruct H as [H Hp]. apply andb_prop in H. destruct H as [Hlo Hhi].
  destruct (timing_eqb lo hi) eqn:E.
  - apply andb_prop in Hp. destruct Hp as [Hl Hr]. apply negb_true_iff in Hl, Hr. subst.
    cbn [app]. rewrite <- app_assoc. cbn [app parse_interval].
    rewrite (timing_rt lo (TRsq :: rest) Hlo eq_refl). reflexivity.
  - assert (X : forall l b, tstop (b :: rest) = true ->
            parse_interval (l :: (pr_timing lo ++ TComma :: pr_timing hi) ++ [b] ++ rest)
            = match l with
              | TLsq | TLp =>
                  match b with
                  | TRsq | TRp => Some (PIv {| ti_lo := lo; ti_hi := hi; ti_lopen := match l with TLp => true | _ => false end;
                                               ti_ropen := match b with TRp => true | _ => false end |}, rest)
                  | _ => None
                  end
              | _ => None end).
    { intros l b Hb. rewrite <- app_assoc. cbn [app].
      destruct l; try reflexivity; cbn [parse_interval];
        rewrite (timing_rt lo (TComma :: pr_timing hi ++ b :: rest) Hlo eq_refl);
        rewrite (timing_rt hi (b :: rest) Hhi Hb); destruct b; cbn in Hb; try discriminate; reflexivity. }
    destruct lop, rop; cbn [app]; rewrite <- app_assoc; rewrite X by reflexivity; reflexivity.
Qed.

(* ---- statements: no statement keyword inside printed expressions / intervals; conditions ---- *)
Definition cleant (t : token) : bool := negb (is_stmt_tok t || is_when t).
Definition clean (ts : list token) : bool := forallb cleant ts.

Lemma clean_no ts : clean ts = true -> existsb is_stmt_tok ts = false /\ existsb is_when ts = false.
Proof.
  induction ts as [|t ts IH]; [split; reflexivity|]. cbn [clean forallb existsb]. intros H.
  apply andb_prop in H. destruct H as [Ht Hts]. destruct (IH Hts) as [A B]. rewrite A, B.
  unfold cleant in Ht. apply negb_true_iff in Ht. apply orb_false_iff in Ht. destruct Ht as [-> ->]. split; reflexivity.
Qed.

Section S.
  Variable W : wnames.

  Lemma clean_join sep l : cleant sep = true -> Forall (fun x => clean (pr W x) = true) l ->
    clean (join sep (map (pr W) l)) = true.
  Proof.
    intros Hs HF. induction HF as [|x l Hx HF IH]; [reflexivity|].
    destruct l as [|y l]; [exact Hx|].
    change (join sep (map (pr W) (x :: y :: l))) with (pr W x ++ sep :: join sep (map (pr W) (y :: l))).
    unfold clean in *. rewrite forallb_app. cbn [forallb]. rewrite Hx, Hs, IH. reflexivity.
  Qed.
  Lemma clean_vars vs : clean (pr_vars W vs) = true.
  Proof.
    unfold pr_vars. induction vs as [|p vs IH]; [reflexivity|]. destruct vs as [|p' vs]; [reflexivity|].
    change (join TComma (map (fun p => [TName (nmT W (snd p)); TName (nmV W (fst p))]) (p :: p' :: vs)))
      with ([TName (nmT W (snd p)); TName (nmV W (fst p))] ++ TComma ::
            join TComma (map (fun p => [TName (nmT W (snd p)); TName (nmV W (fst p))]) (p' :: vs))).
    unfold clean in *. rewrite forallb_app. cbn [forallb]. rewrite IH. reflexivity.
  Qed.

  Lemma clean_pr : forall e, clean (pr W e) = true.
  Proof.
    induction e using expr_ind'; try reflexivity;
      try (cbn [pr]; unfold clean in *; cbn [forallb]; rewrite ?forallb_app; cbn [forallb];
           rewrite ?IHe, ?IHe1, ?IHe2; reflexivity).
    all: try (destruct b; reflexivity).
    all: try (cbn [pr]; unfold pr_int; destruct (z <? 0)%Z; reflexivity).
    all: try (cbn [pr]; unfold pr_int, clean; destruct (Qnum (this q) <? 0)%Z; reflexivity).
    all: try (destruct args as [|x l]; [reflexivity|];
      change (pr W (EFluent f (x :: l))) with (TName (nmF W f) :: TLp :: join TComma (map (pr W) (x :: l)) ++ [TRp]);
      pose proof (clean_join TComma (x :: l) eq_refl H) as C; unfold clean in *; cbn [forallb]; rewrite forallb_app, C; reflexivity).
    all: try (cbn [pr]; match goal with |- context [join ?s _] => pose proof (clean_join s l eq_refl H) as C end;
      unfold clean in *; cbn [forallb]; rewrite forallb_app, C; reflexivity).
    all: try (cbn [pr]; unfold clean in *; repeat (progress (cbn [forallb]; rewrite ?forallb_app));
              rewrite ?IHe1, ?IHe2; cbn [forallb andb]; rewrite ?IHe1, ?IHe2; reflexivity).
    all: cbn [pr]; match goal with |- context [pr_vars W ?v] => pose proof (clean_vars v) as V end;
      unfold clean in *; cbn [forallb]; rewrite !forallb_app; cbn [forallb]; rewrite V, IHe; reflexivity.
  Qed.

  Lemma clean_rat q : clean (pr_rat q) = true.
  Proof. unfold pr_rat. destruct (Qden (this q)); reflexivity. Qed.
  Lemma clean_timing tm : clean (pr_timing tm) = true.
  Proof.
    unfold pr_timing. destruct (qc_pos (tm_delay tm)); [|destruct (qc_neg (tm_delay tm))];
      unfold clean; cbn [forallb]; fold (clean (pr_rat (tm_delay tm))); fold (clean (pr_rat (- tm_delay tm)));
      rewrite ?clean_rat; destruct (tm_anchor tm); reflexivity.
  Qed.
  Lemma clean_interval iv : clean (pr_interval iv) = true.
  Proof.
    unfold pr_interval, clean. cbn [forallb]. rewrite forallb_app.
    pose proof (clean_timing (ti_lo iv)) as A. pose proof (clean_timing (ti_hi iv)) as B. unfold clean in A, B.
    destruct (timing_eqb (ti_lo iv) (ti_hi iv)); rewrite ?forallb_app; cbn [forallb]; rewrite ?A, ?B;
      destruct (ti_lopen iv), (ti_ropen iv); reflexivity.
  Qed.

  Variable R : rtables.
  Variable arity : N -> nat.
  Hypothesis HN : names_ok W R arity.

  (* the expression theorem as the inner step: an expression of the fragment followed by a token that is neither an
     operator nor "(" is read by the top level of the expression parser, which stops in front of that token *)
  Lemma expr_step e bs rest n :
    anml_ok R arity bs e = true -> nolp rest = true -> lv (hd rest) = 0 ->
    20 * length (pr W e) + 10 <= n ->
    go R n SImp (rscope W bs) (pr W e ++ rest) = Ok (norm e) (tier_of e) rest.
  Proof.
    intros Hok Hl Hv Hn.
    pose proof (main W R arity HN true (fun _ => quant_case W R arity HN) e bs (frag_true e) Hok rest Hl) as P.
    exact (up_imp R _ _ _ _ _ _ (start_pr W R arity e bs rest Hok) P Hv n Hn).
  Qed.

  Lemma timing_eqb_eq a b : timing_eqb a b = true -> a = b.
  Proof.
    destruct a as [x p], b as [y q]. unfold timing_eqb. cbn. intros H. apply andb_prop in H. destruct H as [A B].
    apply qc_eqb_eq in B. subst. destruct x, y; cbn in A; try discriminate; reflexivity.
  Qed.

  Theorem cond_rt iv c : stmt_ok R arity (SCond iv c) = true ->
    parse_stmt R (pr_stmt W (SCond iv c)) = Some (PCond iv (norm c)).
  Proof.
    cbn [stmt_ok pr_stmt]. intros H. apply andb_prop in H. destruct H as [Hiv Hc].
    unfold parse_stmt.
    assert (Cl : clean (pr_interval iv ++ pr W c ++ [TSemi]) = true).
    { unfold clean. rewrite !forallb_app. fold (clean (pr_interval iv)). fold (clean (pr W c)).
      rewrite clean_interval, clean_pr. reflexivity. }
    destruct (clean_no _ Cl) as [-> ->].
    unfold parse_cond, opt_interval. rewrite (interval_rt iv _ Hiv).
    change (@nil (N * N)) with (rscope W []).
    rewrite (expr_step c [] [TSemi] _ Hc eq_refl eq_refl).
    - f_equal. f_equal. destruct (timing_eqb (ti_lo iv) (ti_hi iv)) eqn:E; [|reflexivity].
      unfold interval_ok in Hiv. rewrite E in Hiv. apply andb_prop in Hiv. destruct Hiv as [_ Hb].
      apply andb_prop in Hb. destruct Hb as [Hl Hr]. apply negb_true_iff in Hl, Hr.
      apply timing_eqb_eq in E. destruct iv as [lo hi lop rop]. cbn in *. subst. reflexivity.
    - unfold fuel_of. rewrite !app_length. lia.
  Qed.
End S.

(* ================================================================================================================
   Effects: assignment, `when` block, forall. *)
(* ---- the optional interval in front of a printed expression / fluent reference is absent ---- *)
Definition noiv (ts : list token) : bool :=
  match ts with
  | TLsq :: _ => false
  | TLp :: (TStart | TEnd) :: _ => false
  | _ => true
  end.
Lemma noiv_none ts : noiv ts = true -> opt_interval ts = (None, ts).
Proof.
  unfold opt_interval. intros H. destruct ts as [|t ts]; [reflexivity|].
  destruct t; try reflexivity; try discriminate.
  destruct ts as [|t' ts]; [reflexivity|]. destruct t'; try reflexivity; discriminate.
Qed.
Lemma noiv_start ts : start_ok ts = true -> noiv (TLp :: ts) = true.
Proof. destruct ts as [|[] ts]; cbn; congruence. Qed.

Section E.
  Variable W : wnames.
  Variable R : rtables.
  Variable arity : N -> nat.
  Hypothesis HN : names_ok W R arity.

  Lemma two_plus2 (l : list expr) : Nat.leb 2 (length l) = true -> exists x y l', l = x :: y :: l'.
  Proof. destruct l as [|x [|y l']]; cbn; try discriminate. eauto. Qed.

  Lemma noiv_pr e bs rest : anml_ok R arity bs e = true -> noiv (pr W e ++ rest) = true.
  Proof.
    destruct e; cbn [anml_ok]; try discriminate; intros Hok.
    - destruct b; reflexivity.
    - cbn [pr]. unfold pr_int. destruct (z <? 0)%Z; reflexivity.
    - cbn [pr]. unfold pr_int. destruct (Qnum (this q) <? 0)%Z; reflexivity.
    - reflexivity.
    - reflexivity.
    - reflexivity.
    - destruct args; reflexivity.
    - apply andb_prop in Hok. destruct Hok as [Hok Hl]. destruct (two_plus2 l Hl) as (x & y & l' & ->).
      cbn [forallb] in Hok. apply andb_prop in Hok. destruct Hok as [Hx _].
      cbn [pr map]. rewrite join_cons. cbn [app]. rewrite <- !app_assoc. apply noiv_start. eapply start_pr. exact Hx.
    - apply andb_prop in Hok. destruct Hok as [Hok Hl]. destruct (two_plus2 l Hl) as (x & y & l' & ->).
      cbn [forallb] in Hok. apply andb_prop in Hok. destruct Hok as [Hx _].
      cbn [pr map]. rewrite join_cons. cbn [app]. rewrite <- !app_assoc. apply noiv_start. eapply start_pr. exact Hx.
    - reflexivity.
    - apply andb_prop in Hok. destruct Hok as [Hx _]. cbn [pr app]. rewrite <- !app_assoc. apply noiv_start. eapply start_pr. exact Hx.
    - reflexivity.
    - reflexivity.
    - reflexivity.
    - apply andb_prop in Hok. destruct Hok as [Hok Hl]. apply andb_prop in Hok. destruct Hok as [Hok _].
      destruct (two_plus2 l Hl) as (x & y & l' & ->).
      cbn [forallb] in Hok. apply andb_prop in Hok. destruct Hok as [Hx _].
      cbn [pr map]. rewrite join_cons. cbn [app]. rewrite <- !app_assoc. apply noiv_start. eapply start_pr. exact Hx.
    - do 3 (apply andb_prop in Hok; destruct Hok as [Hok _]).
      cbn [pr app]. rewrite <- !app_assoc. apply noiv_start. eapply start_pr. exact Hok.
    - apply andb_prop in Hok. destruct Hok as [Hok Hl]. apply andb_prop in Hok. destruct Hok as [Hok _].
      destruct (two_plus2 l Hl) as (x & y & l' & ->).
      cbn [forallb] in Hok. apply andb_prop in Hok. destruct Hok as [Hx _].
      cbn [pr map]. rewrite join_cons. cbn [app]. rewrite <- !app_assoc. apply noiv_start. eapply start_pr. exact Hx.
    - do 3 (apply andb_prop in Hok; destruct Hok as [Hok _]).
      cbn [pr app]. rewrite <- !app_assoc. apply noiv_start. eapply start_pr. exact Hok.
    - do 3 (apply andb_prop in Hok; destruct Hok as [Hok _]).
      cbn [pr app]. rewrite <- !app_assoc. apply noiv_start. eapply start_pr. exact Hok.
    - do 3 (apply andb_prop in Hok; destruct Hok as [Hok _]).
      cbn [pr app]. rewrite <- !app_assoc. apply noiv_start. eapply start_pr. exact Hok.
    - do 4 (apply andb_prop in Hok; destruct Hok as [Hok _]).
      cbn [pr app]. rewrite <- !app_assoc. apply noiv_start. eapply start_pr. exact Hok.
  Qed.

  Lemma prF_head f args X : exists r, pr W (EFluent f args) ++ X = TName (nmF W f) :: r.
  Proof. destruct args; cbn [pr app]; eauto. Qed.

  Lemma tok_kind_kind k : tok_kind (kind_tok k) = Some k.
  Proof. destruct k; reflexivity. Qed.

  (* "f(args) op value ;" *)
  Lemma assign_rt bs f args k v rest n :
    anml_ok R arity bs (EFluent f args) = true -> anml_ok R arity bs v = true ->
    20 * length (pr W (EFluent f args)) + 10 <= n -> 20 * length (pr W v) + 10 <= n ->
    parse_assign R n (rscope W bs) (pr W (EFluent f args) ++ kind_tok k :: pr W v ++ TSemi :: rest)
    = Some (f, map norm args, k, norm v, rest).
  Proof.
    intros HF Hv L1 L2. unfold parse_assign.
    rewrite (expr_step W R arity HN (EFluent f args) bs (kind_tok k :: pr W v ++ TSemi :: rest) n HF
               ltac:(destruct k; reflexivity) ltac:(destruct k; reflexivity) L1).
    cbn [norm]. rewrite tok_kind_kind.
    rewrite (expr_step W R arity HN v bs (TSemi :: rest) n Hv eq_refl eq_refl L2). reflexivity.
  Qed.
End E.

Definition nofa (r : list token) : bool := match r with TForall :: _ => false | _ => true end.
Lemma not_forall_branch {X} (r : list token) (A : list token -> X) (B : X) :
  nofa r = true -> match r with TForall :: TLp :: r1 => A r1 | _ => B end = B.
Proof. destruct r as [|t r]; [reflexivity|]. destruct t; try reflexivity; discriminate. Qed.

Section F.
  Variable W : wnames.
  Variable R : rtables.
  Variable arity : N -> nat.
  Hypothesis HN : names_ok W R arity.

  Lemma timing_eqb_refl t : timing_eqb t t = true.
  Proof. destruct t as [a q]. unfold timing_eqb. cbn. rewrite qc_eqb_refl. destruct a; reflexivity. Qed.
  Lemma point_rt tm rest : timing_ok tm = true ->
    parse_interval (TLsq :: pr_timing tm ++ TRsq :: rest) = Some (PPoint tm, rest).
  Proof.
    intros H. pose proof (interval_rt (point_iv tm) rest) as X.
    unfold interval_ok, pr_interval, point_iv in X. cbn [ti_lo ti_hi ti_lopen ti_ropen] in X.
    rewrite timing_eqb_refl, H in X. cbn [app] in X. rewrite <- app_assoc in X. cbn [app] in X. apply X. reflexivity.
  Qed.

  (* the two branches of parse_effect *)
  Definition eff_nf (n : nat) (oiv : option piv) (r : list token) : option pstmt :=
    match parse_core R n [] [] r with
    | Some (civ, eiv, oc, (f, args, kd, v), []) =>
        match merge3 oiv civ eiv with
        | Some (Some (PIv _)) => None
        | Some fin =>
            let tm := match fin with Some (PPoint t) => t | _ => start_tm end in
            let c := match oc with Some c => c | None => EBool true end in
            Some (PEff tm (mk_effect R f args kd v c []))
        | None => None
        end
    | _ => None
    end.
  Definition eff_fa (n : nat) (oiv : option piv) (r1 : list token) : option pstmt :=
    match pvars r1 with
    | Some (decls, TLb :: r2) =>
        match decl_types R decls with
        | Some d =>
            let d' := dict_of d in
            let vs := map (fun p => (varOf R (fst p), snd p)) d' in
            match parse_core R n d' d' r2 with
            | Some (civ, eiv, oc, (f, args, kd, v), [TRb; TSemi]) =>
                match merge3 oiv civ eiv with
                | Some (Some (PIv _)) => None
                | Some fin =>
                    let tm := match fin with Some (PPoint t) => t | _ => start_tm end in
                    let c := match oc with Some c => EAnd [c; EBool true] | None => EBool true end in
                    Some (PEff tm (mk_effect R f args kd v c vs))
                | None => None
                end
            | _ => None
            end
        | None => None
        end
    | _ => None
    end.
  Lemma pe_unfold n ts :
    parse_effect R n ts =
    let (oiv, r) := opt_interval ts in
    match r with TForall :: TLp :: r1 => eff_fa n oiv r1 | _ => eff_nf n oiv r end.
  Proof. reflexivity. Qed.

  Lemma parse_core_name n csc sc s r :
    parse_core R n csc sc (TName s :: r) =
    match parse_assign R n sc (TName s :: r) with
    | Some (f, args, kd, v, r') => Some (None, None, None, (f, args, kd, v), r')
    | None => None
    end.
  Proof. reflexivity. Qed.

  Definition F_of (e : effect) : expr := EFluent (e_fl e) (e_args e).

  Lemma core_rt bs e rest n :
    anml_ok R arity bs (F_of e) = true -> anml_ok R arity bs (e_val e) = true ->
    (is_cond e = true -> anml_ok R arity bs (e_cond e) = true) ->
    20 * length (pr_effect_core W e) + 10 <= n ->
    parse_core R n (rscope W bs) (rscope W bs) (pr_effect_core W e ++ rest)
    = Some (None, None, (if is_cond e then Some (norm (e_cond e)) else None),
            (e_fl e, map norm (e_args e), e_kind e, norm (e_val e)), rest).
  Proof.
    intros HF Hv Hc. unfold pr_effect_core. fold (F_of e). destruct (is_cond e) eqn:C.
    - specialize (Hc eq_refl). intros L.
      replace ((TWhen :: pr W (e_cond e) ++ [TLb]) ++ pr W (F_of e) ++ kind_tok (e_kind e) :: pr W (e_val e) ++ [TSemi] ++ [TRb; TSemi])
        with (TWhen :: pr W (e_cond e) ++ TLb :: pr W (F_of e) ++ kind_tok (e_kind e) :: pr W (e_val e) ++ TSemi :: TRb :: [TSemi]) in *
        by (cbn [app]; f_equal; repeat (rewrite <- app_assoc; cbn [app]); reflexivity).
      replace ((TWhen :: pr W (e_cond e) ++ TLb :: pr W (F_of e) ++ kind_tok (e_kind e) :: pr W (e_val e) ++ TSemi :: TRb :: [TSemi]) ++ rest)
        with (TWhen :: pr W (e_cond e) ++ TLb :: pr W (F_of e) ++ kind_tok (e_kind e) :: pr W (e_val e) ++ TSemi :: TRb :: TSemi :: rest)
        by (cbn [app]; f_equal; repeat (rewrite <- app_assoc; cbn [app]); reflexivity).
      cbn [length] in L. repeat (rewrite app_length in L; cbn [length] in L).
      cbn [parse_core]. rewrite (noiv_none _ (noiv_pr W R arity (e_cond e) bs _ Hc)).
      rewrite (expr_step W R arity HN (e_cond e) bs (TLb :: pr W (F_of e) ++ kind_tok (e_kind e) :: pr W (e_val e) ++ TSemi :: TRb :: TSemi :: rest) n Hc eq_refl eq_refl ltac:(lia)).
      assert (NI : forall Y, opt_interval (pr W (F_of e) ++ Y) = (None, pr W (F_of e) ++ Y)).
      { intros Y. destruct (prF_head W (e_fl e) (e_args e) Y) as [r0 E]. unfold F_of. rewrite E. reflexivity. }
      rewrite NI. unfold F_of.
      rewrite (assign_rt W R arity HN bs (e_fl e) (e_args e) (e_kind e) (e_val e) (TRb :: TSemi :: rest) n HF Hv
                 ltac:(unfold F_of in L; lia) ltac:(lia)).
      reflexivity.
    - intros L. cbn [app]. rewrite app_nil_r in *. 
      replace ((pr W (F_of e) ++ kind_tok (e_kind e) :: pr W (e_val e) ++ [TSemi]) ++ rest)
        with (pr W (F_of e) ++ kind_tok (e_kind e) :: pr W (e_val e) ++ TSemi :: rest)
        by (repeat (rewrite <- app_assoc; cbn [app]); reflexivity).
      repeat (rewrite app_length in L; cbn [length] in L).
      unfold F_of in *.
      destruct (prF_head W (e_fl e) (e_args e) (kind_tok (e_kind e) :: pr W (e_val e) ++ TSemi :: rest)) as [r0 E].
      rewrite E, parse_core_name, <- E.
      rewrite (assign_rt W R arity HN bs (e_fl e) (e_args e) (e_kind e) (e_val e) rest n HF Hv ltac:(lia) ltac:(lia)).
      reflexivity.
  Qed.
End F.

Section G.
  Variable W : wnames.
  Variable R : rtables.
  Variable arity : N -> nat.
  Hypothesis HN : names_ok W R arity.

  Lemma core_has_kind e : existsb is_stmt_tok (pr_effect_core W e) = true.
  Proof.
    unfold pr_effect_core. rewrite existsb_app, (existsb_app _ (pr W _)). cbn [existsb].
    replace (is_stmt_tok (kind_tok (e_kind e))) with true by (destruct (e_kind e); reflexivity).
    cbn [orb]. rewrite !orb_true_r. reflexivity.
  Qed.
  Lemma nofa_core e : nofa (pr_effect_core W e) = true.
  Proof.
    unfold pr_effect_core. destruct (is_cond e); [reflexivity|]. cbn [app].
    destruct (prF_head W (e_fl e) (e_args e) (kind_tok (e_kind e) :: pr W (e_val e) ++ [TSemi])) as [r0 E].
    rewrite E. reflexivity.
  Qed.

  Theorem effect_rt tm e : stmt_ok R arity (SEff tm e) = true ->
    parse_stmt R (pr_stmt W (SEff tm e)) = Some (PEff tm (norm_effect e)).
  Proof.
    cbn [stmt_ok]. unfold effect_ok. intros H.
    apply andb_prop in H. destruct H as [Htm H]. apply andb_prop in H. destruct H as [H Hib].
    apply andb_prop in H. destruct H as [H Hnd]. apply andb_prop in H. destruct H as [H Hc].
    apply andb_prop in H. destruct H as [HF Hv]. apply Bool.eqb_prop in Hib.
    assert (Hc' : is_cond e = true -> anml_ok R arity (e_vars e) (e_cond e) = true)
      by (intros E; rewrite E in Hc; exact Hc).
    unfold parse_stmt.
    assert (Ex : existsb is_stmt_tok (pr_stmt W (SEff tm e)) = true).
    { cbn [pr_stmt existsb]. rewrite existsb_app. cbn [existsb].
      destruct (is_forall e).
      - cbn [existsb]. rewrite existsb_app. cbn [existsb]. rewrite existsb_app, core_has_kind. cbn [orb].
        rewrite !orb_true_r. reflexivity.
      - rewrite core_has_kind. rewrite !orb_true_r. reflexivity. }
    rewrite Ex. rewrite pe_unfold. unfold opt_interval.
    set (n := fuel_of (pr_stmt W (SEff tm e))).
    assert (Ln : 20 * length (pr_effect_core W e) + 10 <= n).
    { unfold n, fuel_of. cbn [pr_stmt length]. rewrite app_length. cbn [length].
      destruct (is_forall e); [cbn [length]; rewrite app_length; cbn [length]; rewrite app_length|]; lia. }
    cbn [pr_stmt]. rewrite (point_rt tm _ Htm).
    unfold is_forall in *. destruct (e_vars e) as [|p vs0] eqn:EV.
    - (* not quantified *)
      rewrite (not_forall_branch _ (eff_fa R n (Some (PPoint tm))) _ (nofa_core e)).
      unfold eff_nf. change (@nil (N * N)) with (rscope W []).
      rewrite <- (app_nil_r (pr_effect_core W e)).
      rewrite (core_rt W R arity HN [] e [] n HF Hv Hc' Ln).
      cbn [merge3 merge2]. unfold norm_effect, mk_effect, is_forall. rewrite EV.
      destruct e; cbn in *. subst. destruct (is_cond _); reflexivity.
    - (* forall *)
      assert (Hvs : e_vars e <> []) by (rewrite EV; discriminate). rewrite <- EV in *. clear EV p vs0.
      cbv iota. unfold eff_fa.
      rewrite (pvars_pr W (e_vars e) _ Hvs), (decl_types_of W R arity HN), (dict_of_rscope W R arity HN _ Hnd).
      rewrite (core_rt W R arity HN (e_vars e) e [TRb; TSemi] n HF Hv Hc' Ln).
      cbn [merge3 merge2]. rewrite (quant_vars W R arity HN).
      unfold norm_effect, mk_effect, is_forall.
      destruct e; cbn in *. subst. destruct e_vars; [congruence|]. destruct (is_cond _); reflexivity.
  Qed.
End G.
