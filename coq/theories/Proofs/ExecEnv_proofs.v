(* C35 — proofs about Model/ExecEnv.v. *)
From Coq Require Import List ZArith NArith QArith Qcanon Bool Lia.
Import ListNotations.
Require Import UPV.Core.Expr UPV.Core.Eval UPV.Core.Interp UPV.Planning.Problem UPV.Planning.Sem.
Require Import UPV.Proofs.Eval_lemmas UPV.Proofs.Sem_proofs UPV.Model.ExecEnv.

(* ------------------------------------------------------------------ the clone has the same dynamics *)
Lemma det_action_id a : det_action a = a.
Proof. destruct a; reflexivity. Qed.

Lemma det_actions_id l : map (fun ia : N * action => (fst ia, det_action (snd ia))) l = l.
Proof.
  induction l as [|[i a] l IH]; [reflexivity|]. cbn [map fst snd]. rewrite det_action_id, IH. reflexivity.
Qed.

Lemma det_clone_eq P : det_clone P = cp_base P.
Proof. unfold det_clone. rewrite det_actions_id. destruct (cp_base P); reflexivity. Qed.

(* ------------------------------------------------------------------ initial values *)
Lemma mem_lit_hidden k hs :
  mem_lit {| l_pos := true; l_key := k |} hs = true -> existsb (gfl_eqb k) (map l_key hs) = true.
Proof.
  unfold mem_lit. induction hs as [|h hs IH]; cbn [existsb map]; [discriminate|].
  rewrite !orb_true_iff. intros [H|H]; [left | right; auto].
  unfold lit_eqb in H. apply andb_true_iff in H. exact (proj2 H).
Qed.

Lemma lookup_known_explicit P f args :
  is_hidden P (f, args) = false ->
  lookup_app f args (known_explicit P) = lookup_app f args (cp_explicit P).
Proof.
  unfold known_explicit, is_hidden, hidden_atoms. intros Hh.
  induction (cp_explicit P) as [|[[g a] v] l IH]; [reflexivity|].
  cbn [filter fst snd lookup_app].
  destruct ((f =? g)%N && values_eqb args a) eqn:E.
  - assert (Hk : (f, args) = (g, a)) by (apply gfl_eqb_eq; exact E).
    inversion Hk; subst g a.
    destruct (mem_lit {| l_pos := true; l_key := (f, args) |} (cp_hidden P)) eqn:M.
    + apply mem_lit_hidden in M. rewrite M in Hh. discriminate.
    + cbn [negb lookup_app]. rewrite E. reflexivity.
  - destruct (negb (mem_lit {| l_pos := true; l_key := (g, a) |} (cp_hidden P))); [|exact IH].
    cbn [lookup_app]. rewrite E. exact IH.
Qed.

Lemma lookup_chosen chi f args atoms rest :
  lookup_app f args (map (fun k : gfl => (fst k, snd k, VBool (chi k))) atoms ++ rest) =
  if existsb (gfl_eqb (f, args)) atoms then Some (VBool (chi (f, args))) else lookup_app f args rest.
Proof.
  induction atoms as [|k atoms IH]; [reflexivity|].
  cbn [map app lookup_app existsb].
  change ((f =? fst k)%N && values_eqb args (snd k)) with (gfl_eqb (f, args) k).
  destruct (gfl_eqb (f, args) k) eqn:E.
  - apply gfl_eqb_eq in E. subst k. reflexivity.
  - cbn [orb]. exact IH.
Qed.

Lemma find_fd_id P f fd : find_fd P f = Some fd -> fd_id fd = f.
Proof. unfold find_fd. intros H. apply find_some in H. apply N.eqb_eq. exact (proj2 H). Qed.

(* every non-hidden ground fluent of a declared fluent starts with its declared value: explicit, else the per-fluent
   default, else the default of its type; when nothing is declared the environment closes the world with `false` *)
Lemma init_state_non_hidden P chi k fd :
  find_fd (cp_base P) (fst k) = Some fd -> is_hidden P k = false ->
  init_state P chi (fst k) (snd k) =
  Some (match declared_init P k with Some v => v | None => VBool false end).
Proof.
  destruct k as [f args]. cbn [fst snd]. intros Hfd Hh.
  unfold init_state, clone_explicit. rewrite lookup_chosen.
  unfold is_hidden in Hh. rewrite Hh.
  rewrite (lookup_known_explicit P f args Hh).
  unfold declared_init. cbn [fst snd].
  destruct (lookup_app f args (cp_explicit P)) as [v|]; [reflexivity|].
  rewrite Hfd. f_equal. unfold clone_default.
  rewrite (find_fd_id _ _ _ Hfd).
  destruct (fluents_defaults P f) as [v|] eqn:E; [reflexivity|].
  unfold fluents_defaults in E. rewrite Hfd in E.
  destruct (lookupN f (cp_fdefault P)); [discriminate|]. rewrite E. reflexivity.
Qed.

Lemma init_state_declared P chi k fd v :
  find_fd (cp_base P) (fst k) = Some fd -> is_hidden P k = false -> declared_init P k = Some v ->
  init_state P chi (fst k) (snd k) = Some v.
Proof. intros Hfd Hh Hd. rewrite (init_state_non_hidden P chi k fd Hfd Hh), Hd. reflexivity. Qed.

(* the three levels of [declared_init], spelled out *)
Lemma declared_init_levels P k fd :
  find_fd (cp_base P) (fst k) = Some fd ->
  declared_init P k =
  match lookup_app (fst k) (snd k) (cp_explicit P) with
  | Some v => Some v
  | None => match lookupN (fst k) (cp_fdefault P) with
            | Some v => Some v
            | None => type_default (cp_tdefault P) (cp_ftype P) (fst k)
            end
  end.
Proof. intros H. unfold declared_init, fluents_defaults. rewrite H. reflexivity. Qed.

Lemma init_state_hidden P chi k :
  is_hidden P k = true -> init_state P chi (fst k) (snd k) = Some (VBool (chi k)).
Proof.
  destruct k as [f args]. cbn [fst snd]. intros Hh. unfold init_state, clone_explicit.
  rewrite lookup_chosen. unfold is_hidden in Hh. rewrite Hh. reflexivity.
Qed.

(* ------------------------------------------------------------------ constraints: chosen assignment <-> state *)
Lemma zq_num q : Zpos (Qden (this q)) = 1%Z -> zq (Qnum (this q)) = q.
Proof.
  intros H. apply Qc_is_canon. unfold zq. cbn [this Q2Qc]. rewrite Qred_correct.
  destruct q as [[n d] Hc]. cbn [this Qnum Qden] in *. injection H as ->. reflexivity.
Qed.

Lemma eval_value_expr sc I v : eval sc (value_expr v) I = Some v.
Proof.
  destruct v as [b|q|o]; try reflexivity.
  unfold value_expr, num_node.
  destruct (Zpos (Qden (this q)) =? 1)%Z eqn:E; [|reflexivity].
  apply Z.eqb_eq in E. cbn [eval]. rewrite (zq_num q E). reflexivity.
Qed.

Lemma evals_value_exprs sc I vs : evals sc I (map value_expr vs) = Some vs.
Proof.
  induction vs as [|v vs IH]; [reflexivity|]. cbn [map evals]. rewrite eval_value_expr, IH. reflexivity.
Qed.

Lemma lit_holds_fluent P s l b :
  s (fst (l_key l)) (snd (l_key l)) = Some (VBool b) -> lit_holds P s l = Bool.eqb b (l_pos l).
Proof.
  intros Hs. unfold lit_holds, holds, lit_expr.
  destruct (l_pos l).
  - rewrite eval_EFluent, evals_value_exprs. cbn [fl mk_interp]. rewrite Hs. destruct b; reflexivity.
  - rewrite eval_ENot, eval_EFluent, evals_value_exprs. cbn [fl mk_interp]. rewrite Hs. destruct b; reflexivity.
Qed.

Definition wf_hidden (P : cproblem) : Prop :=
  forall c, In c (cp_oneof P ++ cp_or P) -> forall l, In l c -> In l (cp_hidden P).

Lemma in_hidden_is_hidden P l : In l (cp_hidden P) -> is_hidden P (l_key l) = true.
Proof.
  intros H. unfold is_hidden, hidden_atoms. apply existsb_exists. exists (l_key l).
  split; [apply in_map; exact H | apply gfl_eqb_refl].
Qed.

Lemma lit_holds_init P chi l :
  In l (cp_hidden P) -> lit_holds (cp_base P) (init_state P chi) l = lit_holds_chi chi l.
Proof.
  intros H. unfold lit_holds_chi. apply lit_holds_fluent.
  apply init_state_hidden. apply in_hidden_is_hidden. exact H.
Qed.

Lemma existsb_ext_in {A} (p q : A -> bool) l : (forall x, In x l -> p x = q x) -> existsb p l = existsb q l.
Proof.
  induction l as [|x l IH]; intros H; [reflexivity|]. cbn [existsb].
  rewrite (H x (or_introl eq_refl)), IH; [reflexivity|]. intros y Hy. apply H. right. exact Hy.
Qed.

Lemma forallb_ext_in {A} (p q : A -> bool) l : (forall x, In x l -> p x = q x) -> forallb p l = forallb q l.
Proof.
  induction l as [|x l IH]; intros H; [reflexivity|]. cbn [forallb].
  rewrite (H x (or_introl eq_refl)), IH; [reflexivity|]. intros y Hy. apply H. right. exact Hy.
Qed.

(* the environment's initial state satisfies a oneof / or constraint exactly when the chosen assignment does *)
Lemma constraints_hold_init P chi :
  wf_hidden P -> constraints_hold P (init_state P chi) = sat_assign chi (cp_oneof P) (cp_or P).
Proof.
  intros W. unfold constraints_hold, sat_assign. f_equal.
  - apply forallb_ext_in. intros c Hc. unfold count_true. f_equal. f_equal.
    apply filter_ext_in. intros l Hl. apply lit_holds_init. apply (W c); [apply in_or_app; left; exact Hc | exact Hl].
  - apply forallb_ext_in. intros c Hc. apply existsb_ext_in. intros l Hl.
    apply lit_holds_init. apply (W c); [apply in_or_app; right; exact Hc | exact Hl].
Qed.

(* the API keeps every constrained literal hidden *)
Lemma wf_hidden_empty P : cp_oneof P = [] -> cp_or P = [] -> wf_hidden P.
Proof. intros H1 H2 c Hc. rewrite H1, H2 in Hc. destruct Hc. Qed.

Lemma wf_hidden_add_oneof P c : wf_hidden P -> wf_hidden (add_oneof P c).
Proof.
  intros W c' Hc l Hl. unfold add_oneof, set_hidden in *. cbn [cp_hidden cp_oneof cp_or] in *.
  apply in_or_app. rewrite <- app_assoc in Hc. apply in_app_or in Hc. destruct Hc as [Hc|Hc].
  - right. apply (W c'); [apply in_or_app; left; exact Hc | exact Hl].
  - apply in_app_or in Hc. destruct Hc as [[<-|[]]|Hc]; [left; exact Hl|].
    right. apply (W c'); [apply in_or_app; right; exact Hc | exact Hl].
Qed.

Lemma wf_hidden_add_or P c : wf_hidden P -> wf_hidden (add_or P c).
Proof.
  intros W c' Hc l Hl. unfold add_or, set_hidden in *. cbn [cp_hidden cp_oneof cp_or] in *.
  apply in_or_app. rewrite app_assoc in Hc. apply in_app_or in Hc. destruct Hc as [Hc|[<-|[]]].
  - right. apply (W c'); assumption.
  - left. exact Hl.
Qed.

Lemma wf_hidden_add_unknown P k : wf_hidden P -> wf_hidden (add_unknown P k).
Proof. intros W. exact (wf_hidden_add_or P _ W). Qed.

(* ------------------------------------------------------------------ apply = the sequential simulator *)
Lemma env_step_is_sim_apply P s aid args :
  env_step P s aid args =
  match lookup_action (cp_base P) aid with
  | Some a => sim_apply true (cp_base P) s a args
  | None => None
  end.
Proof. unfold env_step. rewrite det_clone_eq. reflexivity. Qed.

Lemma env_apply_state P s aid args :
  option_map fst (env_apply P s aid args) =
  match lookup_action (cp_base P) aid with
  | Some a => sim_apply true (cp_base P) s a args
  | None => None
  end.
Proof.
  unfold env_apply. rewrite env_step_is_sim_apply.
  destruct (lookup_action (cp_base P) aid) as [a|]; [|reflexivity].
  destruct (sim_apply true (cp_base P) s a args); reflexivity.
Qed.

(* every action sequence, by induction over the sequence *)
Lemma env_run_is_sim_run P plan : forall s,
  env_run P s plan = run (cp_base P) (sim_apply true (cp_base P)) s plan.
Proof.
  induction plan as [|[aid args] rest IH]; intros s; [reflexivity|].
  cbn [env_run run]. unfold env_apply. rewrite env_step_is_sim_apply.
  destruct (lookup_action (cp_base P) aid) as [a|]; [|reflexivity].
  destruct (sim_apply true (cp_base P) s a args) as [s'|]; [apply IH | reflexivity].
Qed.

Lemma env_is_goal_spec P s : env_is_goal P s = goals_hold true (cp_base P) s.
Proof. unfold env_is_goal, sim_is_goal. rewrite det_clone_eq. reflexivity. Qed.

(* ------------------------------------------------------------------ observations *)
Definition rows_current (s : state) (res : list obs_row) : Prop :=
  forall k v, In (k, v) res -> v = s (fst k) (snd k).

Lemma obs_insert_current s k res : rows_current s res -> rows_current s (obs_insert k (s (fst k) (snd k)) res).
Proof.
  induction res as [|[k' v'] res IH]; intros H k0 v0 Hin; cbn [obs_insert] in Hin.
  - destruct Hin as [E|[]]. inversion E; subst. reflexivity.
  - destruct (gfl_eqb k k') eqn:E.
    + apply gfl_eqb_eq in E. subst k'. destruct Hin as [E'|Hin].
      * inversion E'; subst. reflexivity.
      * apply H. right. exact Hin.
    + destruct Hin as [E'|Hin].
      * apply H. left. exact E'.
      * apply IH; [|exact Hin]. intros k1 v1 H1. apply H. right. exact H1.
Qed.

Lemma obs_insert_in k v res : In (k, v) (obs_insert k v res).
Proof.
  induction res as [|[k' v'] res IH]; cbn [obs_insert]; [left; reflexivity|].
  destruct (gfl_eqb k k') eqn:E; [apply gfl_eqb_eq in E; subst k'; left; reflexivity | right; exact IH].
Qed.

Lemma obs_insert_keeps s k r res :
  rows_current s res -> In r res -> In r (obs_insert k (s (fst k) (snd k)) res).
Proof.
  induction res as [|[k' v'] res IH]; intros H Hin; [destruct Hin|]. cbn [obs_insert].
  destruct (gfl_eqb k k') eqn:E.
  - apply gfl_eqb_eq in E. subst k'. destruct Hin as [<-|Hin]; [|right; exact Hin].
    left. f_equal. symmetry. apply (H k v'). left. reflexivity.
  - destruct Hin as [<-|Hin]; [left; reflexivity|]. right. apply IH; [|exact Hin].
    intros k1 v1 H1. apply H. right. exact H1.
Qed.

Lemma obs_insert_keys k v res r : In r (obs_insert k v res) -> fst r = k \/ exists r', In r' res /\ fst r' = fst r.
Proof.
  induction res as [|[k' v'] res IH]; cbn [obs_insert]; intros Hin.
  - destruct Hin as [<-|[]]. left. reflexivity.
  - destruct (gfl_eqb k k') eqn:E.
    + destruct Hin as [<-|Hin]; right.
      * exists (k', v'). split; [left; reflexivity | reflexivity].
      * exists r. split; [right; exact Hin | reflexivity].
    + destruct Hin as [<-|Hin].
      * right. exists (k', v'). split; [left; reflexivity | reflexivity].
      * destruct (IH Hin) as [H|[r' [H1 H2]]]; [left; exact H|]. right. exists r'. split; [right; exact H1 | exact H2].
Qed.

Lemma observe_all_spec s pars obs : forall res out,
  observe_all s pars obs res = Some out -> rows_current s res ->
  rows_current s out /\
  (forall r, In r res -> In r out) /\
  (forall f eargs vs, In (f, eargs) obs -> inst_args pars eargs = Some vs -> In ((f, vs), s f vs) out) /\
  (forall r, In r out -> (exists r', In r' res /\ fst r' = fst r) \/
                         exists f eargs vs, In (f, eargs) obs /\ inst_args pars eargs = Some vs /\ fst r = (f, vs)).
Proof.
  induction obs as [|[f eargs] obs IH]; intros res out H Hc; cbn [observe_all] in H.
  - inversion H; subst out. repeat split; auto.
    + intros f eargs vs [].
    + intros r Hr. left. exists r. auto.
  - destruct (inst_args pars eargs) as [vs|] eqn:E; [|discriminate].
    pose proof (obs_insert_current s (f, vs) res Hc) as Hc'. cbn [fst snd] in Hc'.
    destruct (IH _ _ H Hc') as [A [B [C D]]]. repeat split.
    + exact A.
    + intros r Hr. apply B. apply (obs_insert_keeps s (f, vs) r res Hc Hr).
    + intros f0 ea0 vs0 [E0|Hin] Hi.
      * inversion E0; subst f0 ea0. rewrite E in Hi. inversion Hi; subst vs0.
        apply B. apply obs_insert_in.
      * apply (C f0 ea0 vs0 Hin Hi).
    + intros r Hr. destruct (D r Hr) as [[r' [H1 H2]]|[f0 [ea0 [vs0 [H1 [H2 H3]]]]]].
      * destruct (obs_insert_keys _ _ _ _ H1) as [Hk|[r'' [H3 H4]]].
        -- right. exists f, eargs, vs. split; [left; reflexivity|]. split; [exact E|]. rewrite <- H2. exact Hk.
        -- left. exists r''. split; [exact H3|]. rewrite H4. exact H2.
      * right. exists f0, ea0, vs0. split; [right; exact H1|]. split; assumption.
Qed.

(* the observations returned by apply: every row carries the value of its ground fluent in the state AFTER the action,
   the rows are exactly the observed fluents of the sensing action instantiated with the actual parameters, and an
   ordinary action observes nothing *)
Lemma env_obs_spec P s aid args s' obs :
  env_apply P s aid args = Some (s', Some obs) ->
  env_step P s aid args = Some s' /\
  (forall k v, In (k, v) obs -> v = s' (fst k) (snd k)) /\
  (lookupN aid (cp_observed P) = None -> obs = []) /\
  (forall ofl a, lookupN aid (cp_observed P) = Some ofl -> lookup_action (cp_base P) aid = Some a ->
     let pars := zip_params (a_params a) args in
     (forall f eargs vs, In (f, eargs) ofl -> inst_args pars eargs = Some vs -> In ((f, vs), s' f vs) obs) /\
     (forall k v, In (k, v) obs -> exists eargs, In (fst k, eargs) ofl /\ inst_args pars eargs = Some (snd k))).
Proof.
  unfold env_apply. destruct (env_step P s aid args) as [t|] eqn:Es; [|discriminate].
  intros H. inversion H; subst t. clear H. rename H2 into Ho. split; [reflexivity|].
  unfold env_obs in Ho.
  destruct (lookupN aid (cp_observed P)) as [ofl|] eqn:El.
  - destruct (lookup_action (cp_base P) aid) as [a|] eqn:Ea.
    + assert (Hc : rows_current s' []) by (intros k v []).
      destruct (observe_all_spec s' _ ofl [] obs Ho Hc) as [A [_ [C D]]].
      split; [exact A|]. split; [discriminate|].
      intros ofl' a' E1 E2. inversion E1; inversion E2; subst ofl' a'. cbn zeta. split; [exact C|].
      intros k v Hin. destruct (D _ Hin) as [[r' [[] _]]|[f [eargs [vs [H1 [H2 H3]]]]]].
      cbn [fst] in H3. subst k. exists eargs. split; assumption.
    + inversion Ho; subst obs. split; [intros k v []|]. split; [reflexivity|]. intros ofl' a' _ E2. discriminate.
  - inversion Ho; subst obs. split; [intros k v []|]. split; [reflexivity|]. intros ofl' a' E1. discriminate.
Qed.

(* ------------------------------------------------------------------ the constructor, for any oracle *)
Lemma env_init_spec pick P s0 :
  env_init pick P = Some s0 ->
  exists chi, pick (hidden_atoms P) (cp_oneof P) (cp_or P) = Some chi /\ s0 = init_state P chi /\
              invariants_ok true (cp_base P) s0 = true.
Proof.
  unfold env_init. destruct (pick (hidden_atoms P) (cp_oneof P) (cp_or P)) as [chi|]; [|discriminate].
  rewrite det_clone_eq. destruct (invariants_ok true (cp_base P) (init_state P chi)) eqn:E; [|discriminate].
  intros H. inversion H; subst s0. exists chi. auto.
Qed.

(* if the oracle only returns models of the constraints (what all_smt promises; validated per run), the environment's
   initial state satisfies every oneof / or constraint and gives every non-hidden fluent its declared value *)
Lemma env_init_faithful pick P s0 :
  wf_hidden P ->
  (forall chi, pick (hidden_atoms P) (cp_oneof P) (cp_or P) = Some chi -> sat_assign chi (cp_oneof P) (cp_or P) = true) ->
  env_init pick P = Some s0 ->
  constraints_hold P s0 = true /\
  forall k fd, find_fd (cp_base P) (fst k) = Some fd -> is_hidden P k = false ->
    s0 (fst k) (snd k) = Some (match declared_init P k with Some v => v | None => VBool false end).
Proof.
  intros W Hp Hi. destruct (env_init_spec pick P s0 Hi) as [chi [E1 [E2 _]]]. subst s0. split.
  - rewrite (constraints_hold_init P chi W). apply Hp. exact E1.
  - intros k fd Hfd Hh. apply (init_state_non_hidden P chi k fd Hfd Hh).
Qed.
