(* C06 / C07, Layer A — QuantifiersRemover: proofs about Compilers/LayerA_Quant.v.
   A. quantifier instances as object tuples;  B. substituting variables by objects (on top of C13's theorems);
   C. the expression-level theorem;  D. the problem-level theorems. *)
From Coq Require Import List ZArith NArith QArith Qcanon Bool Lia.
Import ListNotations.
Require Import UPV.Core.Expr UPV.Core.Eval UPV.Core.Interp UPV.Planning.Problem UPV.Planning.Sem.
Require Import UPV.Proofs.Eval_lemmas UPV.Proofs.Sem_proofs UPV.Proofs.Step_proofs.
Require Import UPV.Walkers.Subst UPV.Proofs.Subst_proofs.
Require Import UPV.Compilers.Variants UPV.Compilers.LayerA_Quant.
Local Open Scope nat_scope.

(* ================================================================== A. instances = object tuples *)
Lemma binds_static I vs : forall os, same_static I (binds I vs os).
Proof.
  revert I. induction vs as [|[v t] vs IH]; intros I [|o os]; cbn [binds]; try apply same_static_refl.
  eapply same_static_trans; [apply same_static_bind1 | apply IH].
Qed.

Lemma binds_objs I vs os : objs (binds I vs os) = objs I.
Proof. destruct (binds_static I vs os) as (_ & _ & _ & H). exact H. Qed.
Lemma binds_fl I vs os : fl (binds I vs os) = fl I.
Proof. destruct (binds_static I vs os) as (H & _). exact H. Qed.

Lemma instances_binds vs : forall I, instances I vs = map (binds I vs) (obj_tuples (objs I) vs).
Proof.
  induction vs as [|[v t] vs IH]; intros I; [reflexivity|].
  cbn [instances obj_tuples]. induction (objs I t) as [|o os IHo]; [reflexivity|].
  cbn [flat_map]. rewrite map_app, IHo. f_equal.
  rewrite map_map. rewrite IH. reflexivity.
Qed.

Lemma obj_tuples_length ob vs : forall os, In os (obj_tuples ob vs) -> length os = length vs.
Proof.
  induction vs as [|[v t] vs IH]; intros os H; cbn [obj_tuples] in H.
  - destruct H as [<-|[]]. reflexivity.
  - apply in_flat_map in H. destruct H as [o [_ H]]. apply in_map_iff in H. destruct H as [os' [<- H]].
    cbn [length]. f_equal. apply IH. exact H.
Qed.

Lemma binds_var_out x vs : forall I os, ~ In x (map fst vs) -> var (binds I vs os) x = var I x.
Proof.
  induction vs as [|[v t] vs IH]; intros I [|o os] H; cbn [binds]; try reflexivity.
  cbn [map fst] in H. rewrite IH by (intros Hx; apply H; right; exact Hx).
  cbn [bind_var var]. destruct (x =? v)%N eqn:E; [|reflexivity].
  apply N.eqb_eq in E. subst. exfalso. apply H. left; reflexivity.
Qed.

Lemma nodupN_cons x l : nodupN (x :: l) = true -> ~ In x l /\ nodupN l = true.
Proof.
  cbn [nodupN]. intros H. apply andb_true_iff in H. destruct H as [H1 H2]. split; [|exact H2].
  apply negb_true_iff in H1. apply memN_false. exact H1.
Qed.

Lemma binds_var_in vs : forall I os v t o,
  nodupN (map fst vs) = true -> In ((v, t), o) (List.combine vs os) -> var (binds I vs os) v = Some (VObj o).
Proof.
  induction vs as [|[w u] vs IH]; intros I [|o' os] v t o Hnd Hin; cbn [List.combine] in Hin; try destruct Hin.
  - inversion H; subst. cbn [binds]. cbn [map fst] in Hnd. apply nodupN_cons in Hnd. destruct Hnd as [Hn _].
    rewrite binds_var_out by exact Hn. cbn [bind_var var]. rewrite N.eqb_refl. reflexivity.
  - cbn [binds]. cbn [map fst] in Hnd. apply nodupN_cons in Hnd. destruct Hnd as [_ Hnd].
    eapply IH; eassumption.
Qed.

(* ================================================================== B. variables |-> objects *)
(* keys are variables, values are objects *)
Definition vo (s : smap) : Prop :=
  forall k w, In (k, w) s -> (exists v t, k = EVar v t) /\ (exists o, w = EObj o).

Lemma vo_incl s s' : incl s' s -> vo s -> vo s'.
Proof. intros Hi H k w Hin. apply H. apply Hi. exact Hin. Qed.

Lemma vo_drop s vs : vo s -> vo (drop_bound s vs).
Proof. apply vo_incl. apply drop_bound_incl. Qed.

Lemma zip_subs_In vs : forall os k w, In (k, w) (zip_subs vs os) ->
  exists v t o, k = EVar v t /\ w = EObj o /\ In ((v, t), o) (List.combine vs os).
Proof.
  induction vs as [|[v t] vs IH]; intros [|o os] k w H; cbn [zip_subs] in H; try destruct H.
  - inversion H; subst. exists v, t, o. repeat split. left; reflexivity.
  - destruct (IH os k w H) as (v' & t' & o' & -> & -> & Hin). exists v', t', o'. repeat split. right; exact Hin.
Qed.

Lemma vo_zip vs os : vo (zip_subs vs os).
Proof.
  intros k w H. destruct (zip_subs_In vs os k w H) as (v & t & o & -> & -> & _).
  split; [exists v, t | exists o]; reflexivity.
Qed.

Lemma vo_assoc_obj s e w : vo s -> assoc s e = Some w -> exists o, w = EObj o.
Proof. intros H Ha. apply assoc_In in Ha. apply (H _ _ Ha). Qed.

Lemma vo_assoc_var s e w : vo s -> assoc s e = Some w -> exists v t, e = EVar v t.
Proof. intros H Ha. apply assoc_In in Ha. apply (H _ _ Ha). Qed.

(* a key that does not mention the bound variables survives the filter *)
Lemma assoc_drop_bound s vs k : mentions_bound vs k = false -> assoc (drop_bound s vs) k = assoc s k.
Proof.
  intros Hm. induction s as [|[k' w] s IH]; [reflexivity|].
  unfold drop_bound. cbn [filter fst]. fold (drop_bound s vs).
  rewrite assoc_cons. destruct (expr_eqb k k') eqn:E.
  - apply expr_eqb_eq in E. subst k'. rewrite Hm. cbn [negb]. rewrite assoc_cons, expr_eqb_refl. reflexivity.
  - destruct (negb (mentions_bound vs k')); [rewrite assoc_cons, E|]; exact IH.
Qed.

Lemma zip_assoc_none vs : forall os x t, length os = length vs ->
  assoc (zip_subs vs os) (EVar x t) = None -> ~ In (x, t) vs.
Proof.
  induction vs as [|[v u] vs IH]; intros [|o os] x t Hl Ha; try discriminate; [intros []|].
  cbn [zip_subs] in Ha. rewrite assoc_cons in Ha.
  destruct (expr_eqb (EVar x t) (EVar v u)) eqn:E; [discriminate|].
  intros [H|H].
  - inversion H; subst. rewrite expr_eqb_refl in E. discriminate.
  - revert H. apply (IH os); [cbn [length] in Hl; lia | exact Ha].
Qed.

(* ---- free variables of the manager's constructors *)
Lemma fv_mkAnd l : free_vars (mkAnd l) = flat_map free_vars l.
Proof. destruct l as [|x [|y l]]; [reflexivity | cbn [mkAnd flat_map]; rewrite app_nil_r; reflexivity | apply fv_EAnd]. Qed.
Lemma fv_mkOr l : free_vars (mkOr l) = flat_map free_vars l.
Proof. destruct l as [|x [|y l]]; [reflexivity | cbn [mkOr flat_map]; rewrite app_nil_r; reflexivity | apply fv_EOr]. Qed.
Lemma fv_mkPlus l : free_vars (mkPlus l) = flat_map free_vars l.
Proof. destruct l as [|x [|y l]]; [reflexivity | cbn [mkPlus flat_map]; rewrite app_nil_r; reflexivity | apply fv_EPlus]. Qed.
Lemma fv_mkTimes l : free_vars (mkTimes l) = flat_map free_vars l.
Proof. destruct l as [|x [|y l]]; [reflexivity | cbn [mkTimes flat_map]; rewrite app_nil_r; reflexivity | apply fv_ETimes]. Qed.
Lemma fv_mkNot e : free_vars (mkNot e) = free_vars e.
Proof. destruct e; reflexivity. Qed.

Lemma in_flat_map_map {A} (f : expr -> A) (g : A -> list N) x l :
  In x (flat_map g (map f l)) -> exists a, In a l /\ In x (g (f a)).
Proof.
  intros H. apply in_flat_map in H. destruct H as [y [Hy Hx]]. apply in_map_iff in Hy.
  destruct Hy as [a [<- Ha]]. exists a. split; assumption.
Qed.

(* a variable that is still free after the replacement is not a key (its id carries its type) *)
Lemma fv_tr tau x : forall e s, vo s -> vtyped tau e = true ->
  In x (free_vars (topdown_replace s e)) -> assoc s (EVar x (tau x)) = None.
Proof.
  induction e using expr_ind'; intros s Hvo Hvt Hin; cbn [topdown_replace] in Hin;
    (destruct (assoc s _) as [w|] eqn:Ea;
     [destruct (vo_assoc_obj _ _ _ Hvo Ea) as [xo ->]; destruct Hin|]);
    cbn [vtyped] in Hvt; nfsplit; try (destruct Hin; fail).
  - (* Var *) cbn [free_vars] in Hin. destruct Hin as [<-|[]]. apply N.eqb_eq in Hvt. subst. exact Ea.
  - rewrite fv_EFluent in Hin. apply in_flat_map_map in Hin. destruct Hin as [a [Ha Hx]].
    rewrite Forall_forall in H. rewrite forallb_forall in Hvt. eapply H; eauto.
  - rewrite fv_EIFun in Hin. apply in_flat_map_map in Hin. destruct Hin as [a [Ha Hx]].
    rewrite Forall_forall in H. rewrite forallb_forall in Hvt. eapply H; eauto.
  - rewrite fv_mkAnd in Hin. apply in_flat_map_map in Hin. destruct Hin as [a [Ha Hx]].
    rewrite Forall_forall in H. rewrite forallb_forall in Hvt. eapply H; eauto.
  - rewrite fv_mkOr in Hin. apply in_flat_map_map in Hin. destruct Hin as [a [Ha Hx]].
    rewrite Forall_forall in H. rewrite forallb_forall in Hvt. eapply H; eauto.
  - rewrite fv_mkNot in Hin. eapply IHe; eauto.
  - cbn [free_vars] in Hin. apply in_app_or in Hin. destruct Hin; [eapply IHe1 | eapply IHe2]; eauto.
  - cbn [free_vars] in Hin. apply in_app_or in Hin. destruct Hin; [eapply IHe1 | eapply IHe2]; eauto.
  - (* Exists *) cbn [free_vars] in Hin. apply filter_In in Hin. destruct Hin as [Hx Hn].
    apply negb_true_iff in Hn. rewrite <- (assoc_drop_bound s vs).
    + eapply IHe; eauto. apply vo_drop; exact Hvo.
    + unfold mentions_bound. cbn [free_vars]. apply not_true_is_false. intros Hm. apply existsb_exists in Hm.
      destruct Hm as [[y u] [Hy Hm]]. cbn [fst memN existsb] in Hm. rewrite orb_false_r in Hm.
      apply N.eqb_eq in Hm. subst y. apply memN_false in Hn. apply Hn. apply in_map_iff. exists (x, u). split; auto.
  - cbn [free_vars] in Hin. apply filter_In in Hin. destruct Hin as [Hx Hn].
    apply negb_true_iff in Hn. rewrite <- (assoc_drop_bound s vs).
    + eapply IHe; eauto. apply vo_drop; exact Hvo.
    + unfold mentions_bound. cbn [free_vars]. apply not_true_is_false. intros Hm. apply existsb_exists in Hm.
      destruct Hm as [[y u] [Hy Hm]]. cbn [fst memN existsb] in Hm. rewrite orb_false_r in Hm.
      apply N.eqb_eq in Hm. subst y. apply memN_false in Hn. apply Hn. apply in_map_iff. exists (x, u). split; auto.
  - rewrite fv_mkPlus in Hin. apply in_flat_map_map in Hin. destruct Hin as [a [Ha Hx]].
    rewrite Forall_forall in H. rewrite forallb_forall in Hvt. eapply H; eauto.
  - cbn [free_vars] in Hin. apply in_app_or in Hin. destruct Hin; [eapply IHe1 | eapply IHe2]; eauto.
  - rewrite fv_mkTimes in Hin. apply in_flat_map_map in Hin. destruct Hin as [a [Ha Hx]].
    rewrite Forall_forall in H. rewrite forallb_forall in Hvt. eapply H; eauto.
  - cbn [free_vars] in Hin. apply in_app_or in Hin. destruct Hin; [eapply IHe1 | eapply IHe2]; eauto.
  - cbn [free_vars] in Hin. apply in_app_or in Hin. destruct Hin; [eapply IHe1 | eapply IHe2]; eauto.
  - cbn [free_vars] in Hin. apply in_app_or in Hin. destruct Hin; [eapply IHe1 | eapply IHe2]; eauto.
  - cbn [free_vars] in Hin. apply in_app_or in Hin. destruct Hin; [eapply IHe1 | eapply IHe2]; eauto.
  - cbn [free_vars] in Hin. eapply IHe; eauto.
  - cbn [free_vars] in Hin. eapply IHe; eauto.
  - cbn [free_vars] in Hin. apply in_app_or in Hin. destruct Hin; [eapply IHe1 | eapply IHe2]; eauto.
  - cbn [free_vars] in Hin. apply in_app_or in Hin. destruct Hin; [eapply IHe1 | eapply IHe2]; eauto.
  - cbn [free_vars] in Hin. eapply IHe; eauto.
Qed.

(* values without free variables can never be captured *)
Lemma cfree_vo e : forall B s, vo s -> cfree B s e = true.
Proof.
  induction e using expr_ind'; intros B s Hvo; cbn [cfree];
    (destruct (assoc s _) as [w|] eqn:Ea; [destruct (vo_assoc_obj _ _ _ Hvo Ea) as [xo ->]; reflexivity|]);
    try reflexivity;
    try (apply forallb_forall; intros a Ha; rewrite Forall_forall in H; apply H; assumption);
    try (rewrite ?IHe, ?IHe1, ?IHe2 by assumption; reflexivity);
    try (apply IHe; apply vo_drop; assumption).
Qed.

Lemma binders_typed tau vs x : binders_ok tau vs = true -> In x (map fst vs) -> In (x, tau x) vs.
Proof.
  intros Hb Hx. unfold binders_ok in Hb. apply andb_true_iff in Hb. destruct Hb as [Hb _].
  rewrite forallb_forall in Hb. apply in_map_iff in Hx. destruct Hx as [[y u] [<- Hy]].
  specialize (Hb _ Hy). cbn [fst snd] in *. apply N.eqb_eq in Hb. subst. exact Hy.
Qed.

(* substituting the variables of a quantifier by the objects of a tuple = evaluating under the instance *)
Theorem subst_vo_eval sc tau vs os e I :
  nf e = true -> vtyped tau e = true -> binders_ok tau vs = true -> length os = length vs ->
  eval sc (substitute (zip_subs vs os) e) I = eval sc e (binds I vs os).
Proof.
  intros Hnf Hvt Hb Hl.
  assert (Hnd : nodupN (map fst vs) = true) by (unfold binders_ok in Hb; apply andb_true_iff in Hb; tauto).
  transitivity (eval sc (substitute (zip_subs vs os) e) (binds I vs os)).
  - symmetry. apply eval_coincide; [apply binds_static|].
    intros x Hx. apply binds_var_out. intros Hin.
    rewrite subst_spec in Hx by exact Hnf.
    apply (fv_tr tau x e _ (vo_zip vs os) Hvt) in Hx.
    apply (zip_assoc_none vs os x (tau x) Hl Hx). apply binders_typed; assumption.
  - apply subst_eval; [exact Hnf | apply cfree_vo, vo_zip | |].
    + intros k w Hin. destruct (zip_subs_In vs os k w Hin) as (v & t & o & -> & -> & Hc).
      cbn [eval]. apply (binds_var_in vs I os v t o Hnd Hc).
    + intros k y Hin. destruct (zip_subs_In vs os k _ Hin) as (v & t & o & _ & Habs & _). discriminate.
Qed.

(* ---- what the replacement preserves *)
Lemma is_not_tr s a : vo s -> is_not a = false -> nf a = true -> is_not (topdown_replace s a) = false.
Proof.
  intros Hvo Hn Hnf. destruct (is_not (topdown_replace s a)) eqn:E; [|reflexivity].
  destruct (topdown_replace s a) eqn:Et; try discriminate.
  apply tr_head_not in Et; try assumption. destruct (vo_assoc_obj _ _ _ Hvo Et) as [o Ho]. discriminate.
Qed.

Lemma bexp_tr beta s e : vo s -> nf e = true -> bexp beta (topdown_replace s e) = bexp beta e.
Proof.
  intros Hvo Hnf. destruct e; cbn [topdown_replace];
    (destruct (assoc s _) as [w|] eqn:Ea;
     [destruct (vo_assoc_var _ _ _ Hvo Ea) as (v' & t' & Hk); try discriminate;
      destruct (vo_assoc_obj _ _ _ Hvo Ea) as [xo ->]; inversion Hk; reflexivity|]);
    try reflexivity; cbn [nf] in Hnf; nfsplit.
  - rewrite mkAnd_two by (rewrite two_plus_map; assumption). reflexivity.
  - rewrite mkOr_two by (rewrite two_plus_map; assumption). reflexivity.
  - match goal with Hn : negb (is_not e) = true |- _ => apply negb_true_iff in Hn; rename Hn into Hnn end.
    rewrite mkNot_plain by (apply is_not_tr; assumption). reflexivity.
  - rewrite mkPlus_two by (rewrite two_plus_map; assumption). reflexivity.
  - rewrite mkTimes_two by (rewrite two_plus_map; assumption). reflexivity.
Qed.

Ltac mk3 := let x := fresh "x" in let y := fresh "y" in let l := fresh "l" in
  intros l; destruct l as [|x [|y l]]; intros Hl; [reflexivity | cbn [forallb] in Hl; nfsplit; assumption | exact Hl].

Lemma bpos_mkAnd beta : forall l, forallb (bpos beta) l = true -> bpos beta (mkAnd l) = true. Proof. mk3. Qed.
Lemma bpos_mkOr beta : forall l, forallb (bpos beta) l = true -> bpos beta (mkOr l) = true. Proof. mk3. Qed.
Lemma bpos_mkPlus beta : forall l, forallb (bpos beta) l = true -> bpos beta (mkPlus l) = true. Proof. mk3. Qed.
Lemma bpos_mkTimes beta : forall l, forallb (bpos beta) l = true -> bpos beta (mkTimes l) = true. Proof. mk3. Qed.
Lemma vtyped_mkAnd tau : forall l, forallb (vtyped tau) l = true -> vtyped tau (mkAnd l) = true. Proof. mk3. Qed.
Lemma vtyped_mkOr tau : forall l, forallb (vtyped tau) l = true -> vtyped tau (mkOr l) = true. Proof. mk3. Qed.
Lemma vtyped_mkPlus tau : forall l, forallb (vtyped tau) l = true -> vtyped tau (mkPlus l) = true. Proof. mk3. Qed.
Lemma vtyped_mkTimes tau : forall l, forallb (vtyped tau) l = true -> vtyped tau (mkTimes l) = true. Proof. mk3. Qed.
Lemma qf_mkAnd : forall l, forallb qf l = true -> qf (mkAnd l) = true. Proof. mk3. Qed.
Lemma qf_mkOr : forall l, forallb qf l = true -> qf (mkOr l) = true. Proof. mk3. Qed.
Lemma qf_mkPlus : forall l, forallb qf l = true -> qf (mkPlus l) = true. Proof. mk3. Qed.
Lemma qf_mkTimes : forall l, forallb qf l = true -> qf (mkTimes l) = true. Proof. mk3. Qed.

Lemma vtyped_mkNot tau e : vtyped tau e = true -> vtyped tau (mkNot e) = true.
Proof. destruct e; auto. Qed.
Lemma qf_mkNot e : qf e = true -> qf (mkNot e) = true.
Proof. destruct e; auto. Qed.

(* list step shared by the preservation lemmas *)
Lemma forallb_map_IH (Q : expr -> bool) (f : expr -> expr) l :
  Forall (fun x => Q x = true -> Q (f x) = true) l -> forallb Q l = true -> forallb Q (map f l) = true.
Proof.
  induction 1 as [|x l Hx _ IH]; [reflexivity|]. cbn [forallb map]. intros H. nfsplit.
  rewrite Hx, IH by assumption. reflexivity.
Qed.

Lemma vtyped_tr tau e : forall s, vo s -> vtyped tau e = true -> vtyped tau (topdown_replace s e) = true.
Proof.
  induction e using expr_ind'; intros s Hvo Hvt; cbn [topdown_replace];
    (destruct (assoc s _) as [w|] eqn:Ea; [destruct (vo_assoc_obj _ _ _ Hvo Ea) as [xo ->]; reflexivity|]);
    try exact Hvt; cbn [vtyped] in Hvt; nfsplit;
    try (cbn [vtyped]; rewrite ?IHe, ?IHe1, ?IHe2 by assumption; reflexivity);
    try (first [apply vtyped_mkAnd | apply vtyped_mkOr | apply vtyped_mkPlus | apply vtyped_mkTimes | cbn [vtyped]];
         apply forallb_map_IH; [|assumption]; eapply Forall_impl; [|exact H]; intros a Ha Hq; apply Ha; assumption).
  - apply vtyped_mkNot. apply IHe; assumption.
  - cbn [vtyped]. rewrite IHe by (try apply vo_drop; assumption). rewrite andb_true_r. assumption.
  - cbn [vtyped]. rewrite IHe by (try apply vo_drop; assumption). rewrite andb_true_r. assumption.
Qed.

Lemma qf_tr e : forall s, vo s -> qf e = true -> qf (topdown_replace s e) = true.
Proof.
  induction e using expr_ind'; intros s Hvo Hq; cbn [topdown_replace];
    (destruct (assoc s _) as [w|] eqn:Ea; [destruct (vo_assoc_obj _ _ _ Hvo Ea) as [xo ->]; reflexivity|]);
    try exact Hq; cbn [qf] in Hq; try discriminate; nfsplit;
    try (cbn [qf]; rewrite ?IHe, ?IHe1, ?IHe2 by assumption; reflexivity);
    try (first [apply qf_mkAnd | apply qf_mkOr | apply qf_mkPlus | apply qf_mkTimes | cbn [qf]];
         apply forallb_map_IH; [|assumption]; eapply Forall_impl; [|exact H]; intros a Ha Hq'; apply Ha; assumption).
  - apply qf_mkNot. apply IHe; assumption.
Qed.

Lemma bpos_tr beta e : forall s, vo s -> nf e = true -> bpos beta e = true -> bpos beta (topdown_replace s e) = true.
Proof.
  induction e using expr_ind'; intros s Hvo Hnf Hb; cbn [topdown_replace];
    (destruct (assoc s _) as [w|] eqn:Ea; [destruct (vo_assoc_obj _ _ _ Hvo Ea) as [xo ->]; reflexivity|]);
    try exact Hb; cbn [bpos] in Hb; cbn [nf] in Hnf; nfsplit;
    try (cbn [bpos]; rewrite ?IHe, ?IHe1, ?IHe2 by assumption; reflexivity);
    try (first [apply bpos_mkAnd | apply bpos_mkOr | apply bpos_mkPlus | apply bpos_mkTimes | cbn [bpos]];
         apply forallb_forall; intros y Hy; apply in_map_iff in Hy; destruct Hy as [a [<- Ha]];
         rewrite Forall_forall in H;
         repeat match goal with Hf : forallb _ _ = true |- _ => rewrite forallb_forall in Hf end;
         apply H; auto).
  - match goal with Hn : negb (is_not e) = true |- _ => apply negb_true_iff in Hn; rename Hn into Hnn end.
    rewrite mkNot_plain by (apply is_not_tr; assumption). cbn [bpos].
    rewrite bexp_tr by assumption. rewrite IHe by assumption. rewrite andb_true_r. assumption.
  - cbn [bpos]. rewrite bexp_tr by (try apply vo_drop; assumption).
    rewrite IHe by (try apply vo_drop; assumption). rewrite andb_true_r. assumption.
  - cbn [bpos]. rewrite bexp_tr by (try apply vo_drop; assumption).
    rewrite IHe by (try apply vo_drop; assumption). rewrite andb_true_r. assumption.
Qed.

(* ================================================================== C. the expression-level theorem *)
Lemma subst_zip_facts tau beta vs os x : nf x = true ->
  let y := substitute (zip_subs vs os) x in
  nf y = true /\ (qf x = true -> qf y = true) /\ (vtyped tau x = true -> vtyped tau y = true) /\
  (bpos beta x = true -> bpos beta y = true) /\ bexp beta y = bexp beta x.
Proof.
  intros Hnf y. unfold y. rewrite subst_spec by exact Hnf. pose proof (vo_zip vs os) as Hvo.
  repeat split.
  - apply nf_topdown_replace; [|exact Hnf]. intros k w Hin. destruct (Hvo k w Hin) as [_ [o ->]]. reflexivity.
  - apply qf_tr; assumption.
  - apply vtyped_tr; assumption.
  - apply bpos_tr; assumption.
  - apply bexp_tr; assumption.
Qed.

Ltac list_IH H := apply forallb_map_IH; [|assumption]; eapply Forall_impl; [|exact H];
                  let a := fresh in let Ha := fresh in let Hq := fresh in intros a Ha Hq; apply Ha; assumption.

Lemma nf_expand ob e : nf e = true -> nf (expand ob e) = true.
Proof.
  induction e using expr_ind'; intros Hnf; cbn [expand]; try exact Hnf; cbn [nf] in Hnf; nfsplit;
    try (cbn [nf]; rewrite ?IHe, ?IHe1, ?IHe2 by assumption; reflexivity);
    try (first [apply nf_mkAnd | apply nf_mkOr | apply nf_mkPlus | apply nf_mkTimes | cbn [nf]]; list_IH H).
  - apply nf_mkNot. apply IHe. assumption.
  - apply nf_mkOr. apply forallb_forall. intros y Hy. apply in_map_iff in Hy. destruct Hy as [os [<- _]].
    apply (subst_zip_facts (fun _ => 0%N) (fun _ => false)). apply IHe. assumption.
  - apply nf_mkAnd. apply forallb_forall. intros y Hy. apply in_map_iff in Hy. destruct Hy as [os [<- _]].
    apply (subst_zip_facts (fun _ => 0%N) (fun _ => false)). apply IHe. assumption.
Qed.

Lemma forallb_map_nfIH (Q : expr -> bool) (f : expr -> expr) l :
  Forall (fun x => nf x = true -> Q (f x) = true) l -> forallb nf l = true -> forallb Q (map f l) = true.
Proof.
  induction 1 as [|x l Hx _ IH]; [reflexivity|]. cbn [forallb map]. intros H. nfsplit.
  rewrite Hx, IH by assumption. reflexivity.
Qed.

Lemma qf_expand ob e : nf e = true -> qf (expand ob e) = true.
Proof.
  induction e using expr_ind'; intros Hnf; cbn [expand]; try reflexivity; cbn [nf] in Hnf; nfsplit;
    try (cbn [qf]; rewrite ?IHe, ?IHe1, ?IHe2 by assumption; reflexivity);
    try (first [apply qf_mkAnd | apply qf_mkOr | apply qf_mkPlus | apply qf_mkTimes | cbn [qf]];
         apply forallb_map_nfIH; assumption).
  - apply qf_mkNot. apply IHe. assumption.
  - apply qf_mkOr. apply forallb_forall. intros y Hy. apply in_map_iff in Hy. destruct Hy as [os [<- _]].
    apply (subst_zip_facts (fun _ => 0%N) (fun _ => false)); [apply nf_expand; assumption | apply IHe; assumption].
  - apply qf_mkAnd. apply forallb_forall. intros y Hy. apply in_map_iff in Hy. destruct Hy as [os [<- _]].
    apply (subst_zip_facts (fun _ => 0%N) (fun _ => false)); [apply nf_expand; assumption | apply IHe; assumption].
Qed.

Lemma forallb_map_IH2 (Q R : expr -> bool) (f : expr -> expr) l :
  Forall (fun x => R x = true -> Q x = true -> Q (f x) = true) l -> forallb R l = true -> forallb Q l = true ->
  forallb Q (map f l) = true.
Proof.
  induction 1 as [|x l Hx _ IH]; [reflexivity|]. cbn [forallb map]. intros H1 H2. nfsplit.
  rewrite Hx, IH by assumption. reflexivity.
Qed.

Lemma vtyped_expand tau ob e : nf e = true -> vtyped tau e = true -> vtyped tau (expand ob e) = true.
Proof.
  induction e using expr_ind'; intros Hnf Hvt; cbn [expand]; try exact Hvt; cbn [nf] in Hnf; cbn [vtyped] in Hvt; nfsplit;
    try (cbn [vtyped]; rewrite ?IHe, ?IHe1, ?IHe2 by assumption; reflexivity);
    try (first [apply vtyped_mkAnd | apply vtyped_mkOr | apply vtyped_mkPlus | apply vtyped_mkTimes | cbn [vtyped]];
         apply (forallb_map_IH2 _ nf); assumption).
  - apply vtyped_mkNot. apply IHe; assumption.
  - apply vtyped_mkOr. apply forallb_forall. intros y Hy. apply in_map_iff in Hy. destruct Hy as [os [<- _]].
    apply (subst_zip_facts tau (fun _ => false)); [apply nf_expand; assumption | apply IHe; assumption].
  - apply vtyped_mkAnd. apply forallb_forall. intros y Hy. apply in_map_iff in Hy. destruct Hy as [os [<- _]].
    apply (subst_zip_facts tau (fun _ => false)); [apply nf_expand; assumption | apply IHe; assumption].
Qed.

Lemma mk_bb beta (mk : list expr -> expr) (C : list expr -> expr) (unit : expr) :
  (forall l, mk l = match l with [] => unit | [x] => x | _ => C l end) ->
  bpos beta unit = true -> bexp beta unit = true ->
  (forall l, bpos beta (C l) = forallb (bpos beta) l) -> (forall l, bexp beta (C l) = true) ->
  forall xs, (forall x, In x xs -> bpos beta x = true /\ bexp beta x = true) ->
             bpos beta (mk xs) = true /\ bexp beta (mk xs) = true.
Proof.
  intros Hmk Hu1 Hu2 HC1 HC2 xs Hx. rewrite Hmk. destruct xs as [|x [|y l]].
  - split; assumption.
  - apply Hx. left; reflexivity.
  - split; [|apply HC2]. rewrite HC1. apply forallb_forall. intros z Hz. apply Hx. exact Hz.
Qed.

Lemma bpos_expand beta ob e : nf e = true -> bpos beta e = true ->
  bpos beta (expand ob e) = true /\ (bexp beta e = true -> bexp beta (expand ob e) = true).
Proof.
  induction e using expr_ind'; intros Hnf Hb; cbn [expand]; try (split; [exact Hb | auto]; fail);
    cbn [nf] in Hnf; cbn [bpos] in Hb; nfsplit;
    repeat match goal with
           | IH : nf ?a = true -> bpos _ ?a = true -> _ |- _ =>
               let B := fresh "B" in let X := fresh "X" in
               destruct (IH ltac:(assumption) ltac:(assumption)) as [B X]; clear IH
           end;
    try (split; [cbn [bpos]; repeat match goal with B : bpos _ (expand _ _) = true |- _ => rewrite B; clear B end; reflexivity
                | cbn [bexp]; auto]; fail);
    try (assert (HL : forallb (bpos beta) (map (expand ob) l) = true)
           by (apply (forallb_map_IH2 _ nf); [|assumption|assumption];
               eapply Forall_impl; [|exact H]; intros a Ha Hq1 Hq2; apply (proj1 (Ha Hq1 Hq2))));
    try (assert (HL : forallb (bpos beta) (map (expand ob) args) = true)
           by (apply (forallb_map_IH2 _ nf); [|assumption|assumption];
               eapply Forall_impl; [|exact H]; intros a Ha Hq1 Hq2; apply (proj1 (Ha Hq1 Hq2)))).
  - split; [exact HL | cbn [bexp]; auto].
  - split; [exact HL | cbn [bexp]; auto].
  - rewrite mkAnd_two by (rewrite two_plus_map; assumption). split; [exact HL | reflexivity].
  - rewrite mkOr_two by (rewrite two_plus_map; assumption). split; [exact HL | reflexivity].
  - (* Not *) specialize (X ltac:(assumption)).
    destruct (is_not (expand ob e)) eqn:En.
    + destruct (expand ob e) eqn:Ex; try discriminate. cbn [mkNot].
      cbn [bpos] in B. apply andb_true_iff in B. destruct B as [B1 B2]. split; [exact B2 | intros _; exact B1].
    + rewrite mkNot_plain by exact En. split; [|reflexivity].
      cbn [bpos]. apply andb_true_iff. split; [exact X | exact B].
  - (* Exists *) specialize (X ltac:(assumption)).
    assert (Hn : nf (expand ob e) = true) by (apply nf_expand; assumption).
    assert (HX : forall x, In x (map (fun os => substitute (zip_subs vs os) (expand ob e)) (obj_tuples ob vs)) ->
                           bpos beta x = true /\ bexp beta x = true).
    { intros x Hx. apply in_map_iff in Hx. destruct Hx as [os [<- _]].
      destruct (subst_zip_facts (fun _ => 0%N) beta vs os _ Hn) as (_ & _ & _ & F4 & F5).
      split; [apply F4; exact B | rewrite F5; exact X]. }
    destruct (mk_bb beta mkOr EOr (EBool false) ltac:(reflexivity) eq_refl eq_refl ltac:(reflexivity) ltac:(reflexivity) _ HX)
      as [R1 R2].
    split; [exact R1 | intros _; exact R2].
  - specialize (X ltac:(assumption)).
    assert (Hn : nf (expand ob e) = true) by (apply nf_expand; assumption).
    assert (HX : forall x, In x (map (fun os => substitute (zip_subs vs os) (expand ob e)) (obj_tuples ob vs)) ->
                           bpos beta x = true /\ bexp beta x = true).
    { intros x Hx. apply in_map_iff in Hx. destruct Hx as [os [<- _]].
      destruct (subst_zip_facts (fun _ => 0%N) beta vs os _ Hn) as (_ & _ & _ & F4 & F5).
      split; [apply F4; exact B | rewrite F5; exact X]. }
    destruct (mk_bb beta mkAnd EAnd (EBool true) ltac:(reflexivity) eq_refl eq_refl ltac:(reflexivity) ltac:(reflexivity) _ HX)
      as [R1 R2].
    split; [exact R1 | intros _; exact R2].
  - rewrite mkPlus_two by (rewrite two_plus_map; assumption). split; [exact HL | cbn [bexp]; auto].
  - rewrite mkTimes_two by (rewrite two_plus_map; assumption). split; [exact HL | cbn [bexp]; auto].
Qed.

(* a syntactically Boolean expression has a Boolean value or none *)
Lemma bexp_bool sc beta e I : bexp beta e = true -> btyped beta I -> bool_or_undef (eval sc e I).
Proof.
  intros Hb Hty. unfold bool_or_undef. destruct e; cbn [bexp] in Hb; try discriminate.
  - right. eexists. reflexivity.
  - rewrite eval_EFluent. destruct (evals sc I args); [apply Hty; exact Hb | left; reflexivity].
  - rewrite eval_EAnd. destruct (ebools sc I l); [right; eexists; reflexivity | left; reflexivity].
  - rewrite eval_EOr. destruct (ebools sc I l); [right; eexists; reflexivity | left; reflexivity].
  - rewrite eval_ENot. destruct (as_bool (eval sc e I)); [right; eexists; reflexivity | left; reflexivity].
  - rewrite eval_EImplies. destruct (as_bool (eval sc e1 I)), (as_bool (eval sc e2 I));
      try (left; reflexivity). right; eexists; reflexivity.
  - rewrite eval_EIff. destruct (as_bool (eval sc e1 I)), (as_bool (eval sc e2 I));
      try (left; reflexivity). right; eexists; reflexivity.
  - rewrite eval_EExists. destruct (q_fold sc true _); [right; eexists; reflexivity | left; reflexivity].
  - rewrite eval_EForall. destruct (q_fold sc false _); [right; eexists; reflexivity | left; reflexivity].
  - rewrite eval_ELe. destruct (as_num (eval sc e1 I)), (as_num (eval sc e2 I));
      try (left; reflexivity). right; eexists; reflexivity.
  - rewrite eval_ELt. destruct (as_num (eval sc e1 I)), (as_num (eval sc e2 I));
      try (left; reflexivity). right; eexists; reflexivity.
  - rewrite eval_EEquals. destruct (eval sc e1 I) as [[?|?|?]|], (eval sc e2 I) as [[?|?|?]|];
      try (left; reflexivity); right; eexists; reflexivity.
Qed.

(* strict quantifier folds are the n-ary connectives *)
Lemma qfold_or I xs :
  q_fold false true (map (fun x => as_bool (eval false x I)) xs) =
  match ebools false I xs with Some bs => Some (existsb (fun b => b) bs) | None => None end.
Proof.
  induction xs as [|x xs IH]; [reflexivity|]. cbn [map q_fold ebools].
  destruct (as_bool (eval false x I)) as [b|]; [|reflexivity]. rewrite IH.
  destruct (ebools false I xs) as [bs|]; destruct b; reflexivity.
Qed.
Lemma qfold_and I xs :
  q_fold false false (map (fun x => as_bool (eval false x I)) xs) =
  match ebools false I xs with Some bs => Some (forallb (fun b => b) bs) | None => None end.
Proof.
  induction xs as [|x xs IH]; [reflexivity|]. cbn [map q_fold ebools].
  destruct (as_bool (eval false x I)) as [b|]; [|reflexivity]. rewrite IH.
  destruct (ebools false I xs) as [bs|]; destruct b; reflexivity.
Qed.

Lemma bou_as_bool v : bool_or_undef v -> v = match as_bool v with Some b => Some (VBool b) | None => None end.
Proof. intros [->|[b ->]]; reflexivity. Qed.

Lemma eval_mkOr_qfold I xs : (forall x, In x xs -> bool_or_undef (eval false x I)) ->
  eval false (mkOr xs) I =
  match q_fold false true (map (fun x => as_bool (eval false x I)) xs) with Some b => Some (VBool b) | None => None end.
Proof.
  intros Hb. destruct xs as [|x [|y l]].
  - reflexivity.
  - cbn [mkOr map q_fold]. rewrite (bou_as_bool _ (Hb x (or_introl eq_refl))) at 1.
    destruct (as_bool (eval false x I)) as [[|]|]; reflexivity.
  - change (mkOr (x :: y :: l)) with (EOr (x :: y :: l)). rewrite eval_EOr, qfold_or.
    destruct (ebools false I (x :: y :: l)); reflexivity.
Qed.
Lemma eval_mkAnd_qfold I xs : (forall x, In x xs -> bool_or_undef (eval false x I)) ->
  eval false (mkAnd xs) I =
  match q_fold false false (map (fun x => as_bool (eval false x I)) xs) with Some b => Some (VBool b) | None => None end.
Proof.
  intros Hb. destruct xs as [|x [|y l]].
  - reflexivity.
  - cbn [mkAnd map q_fold]. rewrite (bou_as_bool _ (Hb x (or_introl eq_refl))) at 1.
    destruct (as_bool (eval false x I)) as [[|]|]; reflexivity.
  - change (mkAnd (x :: y :: l)) with (EAnd (x :: y :: l)). rewrite eval_EAnd, qfold_and.
    destruct (ebools false I (x :: y :: l)); reflexivity.
Qed.

Lemma wfe_split tau beta e : wfe tau beta e = true -> nf e = true /\ bpos beta e = true /\ vtyped tau e = true.
Proof. unfold wfe. intros H. nfsplit. auto. Qed.

Lemma btyped_binds beta I vs os : btyped beta I -> btyped beta (binds I vs os).
Proof. intros H f args Hf. rewrite binds_fl. apply H. exact Hf. Qed.

Section ExpandEval.
  Variable tau : N -> N.
  Variable beta : N -> bool.
  Variable ob : N -> list N.

  Definition good_interp (I : interp) : Prop := objs I = ob /\ btyped beta I.

  Lemma good_binds I vs os : good_interp I -> good_interp (binds I vs os).
  Proof. intros [H1 H2]. split; [rewrite binds_objs; exact H1 | apply btyped_binds; exact H2]. Qed.

  (* the instances of a quantifier, evaluated on the body, are the substituted copies of the expanded body *)
  Lemma inst_map_eq e vs I :
    nf e = true -> vtyped tau e = true -> bpos beta e = true -> bexp beta e = true -> binders_ok tau vs = true ->
    good_interp I ->
    (forall J, good_interp J -> eval false (expand ob e) J = eval false e J) ->
    let xs := map (fun os => substitute (zip_subs vs os) (expand ob e)) (obj_tuples ob vs) in
    map (fun x => as_bool (eval false x I)) xs = map (fun J => as_bool (eval false e J)) (instances I vs) /\
    (forall x, In x xs -> bool_or_undef (eval false x I)).
  Proof.
    intros Hnf Hvt Hbp Hbe Hb HI IH xs.
    assert (E : forall os, In os (obj_tuples ob vs) ->
                eval false (substitute (zip_subs vs os) (expand ob e)) I = eval false e (binds I vs os)).
    { intros os Hos. rewrite (subst_vo_eval false tau); [apply IH, good_binds, HI | apply nf_expand; assumption
        | apply vtyped_expand; assumption | assumption | eapply obj_tuples_length; exact Hos]. }
    split.
    - unfold xs. rewrite instances_binds. destruct HI as [-> _]. rewrite !map_map.
      apply map_ext_in. intros os Hos. rewrite (E os Hos). reflexivity.
    - intros x Hx. unfold xs in Hx. apply in_map_iff in Hx. destruct Hx as [os [<- Hos]].
      rewrite (E os Hos). apply (bexp_bool false beta); [exact Hbe | apply good_binds, HI].
  Qed.

  Theorem expand_eval_strict e : forall I, wfe tau beta e = true -> good_interp I ->
    eval false (expand ob e) I = eval false e I.
  Proof.
    induction e using expr_ind'; intros I Hwf HI; apply wfe_split in Hwf; destruct Hwf as (Hnf & Hbp & Hvt);
      cbn [expand]; try reflexivity; cbn [nf] in Hnf; cbn [bpos] in Hbp; cbn [vtyped] in Hvt; nfsplit;
      try (assert (HF : Forall (fun x => eval false (expand ob x) I = eval false x I) l)
             by (rewrite Forall_forall in *; intros x Hx; apply H; [exact Hx| |exact HI]; unfold wfe;
                 repeat match goal with Hf : forallb _ _ = true |- _ => rewrite forallb_forall in Hf; rewrite (Hf x Hx); clear Hf end;
                 reflexivity));
      try (assert (HF : Forall (fun x => eval false (expand ob x) I = eval false x I) args)
             by (rewrite Forall_forall in *; intros x Hx; apply H; [exact Hx| |exact HI]; unfold wfe;
                 repeat match goal with Hf : forallb _ _ = true |- _ => rewrite forallb_forall in Hf; rewrite (Hf x Hx); clear Hf end;
                 reflexivity));
      repeat match goal with
             | IH : forall I, wfe tau beta ?a = true -> _ |- _ =>
                 let E := fresh "E" in
                 assert (E : forall J, good_interp J -> eval false (expand ob a) J = eval false a J)
                   by (intros J HJ; apply IH; [unfold wfe; repeat match goal with Hq : _ = true |- _ => rewrite Hq; clear Hq end; reflexivity | exact HJ]);
                 clear IH
             end.
    - rewrite !eval_EFluent, (evals_map false I _ _ HF). reflexivity.
    - rewrite !eval_EIFun, (evals_map false I _ _ HF). reflexivity.
    - rewrite mkAnd_two by (rewrite two_plus_map; assumption). rewrite !eval_EAnd, (ebools_map false I _ _ HF). reflexivity.
    - rewrite mkOr_two by (rewrite two_plus_map; assumption). rewrite !eval_EOr, (ebools_map false I _ _ HF). reflexivity.
    - (* Not *)
      destruct (is_not (expand ob e)) eqn:En.
      + destruct (expand ob e) eqn:Ex; try discriminate. cbn [mkNot].
        rewrite (eval_ENot false I e), <- (E I HI).
        apply double_not_eval. apply (bexp_bool false beta); [|apply HI].
        destruct (bpos_expand beta ob e ltac:(assumption) ltac:(assumption)) as [B _]. rewrite Ex in B.
        cbn [bpos] in B. apply andb_true_iff in B. tauto.
      + rewrite mkNot_plain by exact En. rewrite !eval_ENot, (E I HI). reflexivity.
    - rewrite !eval_EImplies, (E I HI), (E0 I HI). reflexivity.
    - rewrite !eval_EIff, (E I HI), (E0 I HI). reflexivity.
    - (* Exists *)
      destruct (inst_map_eq e vs I ltac:(assumption) ltac:(assumption) ltac:(assumption) ltac:(assumption)
                            ltac:(assumption) HI E) as [M Bo].
      rewrite eval_mkOr_qfold by exact Bo. rewrite M, eval_EExists. reflexivity.
    - destruct (inst_map_eq e vs I ltac:(assumption) ltac:(assumption) ltac:(assumption) ltac:(assumption)
                            ltac:(assumption) HI E) as [M Bo].
      rewrite eval_mkAnd_qfold by exact Bo. rewrite M, eval_EForall. reflexivity.
    - rewrite mkPlus_two by (rewrite two_plus_map; assumption). rewrite !eval_EPlus, (enums_map false I _ _ HF). reflexivity.
    - rewrite !eval_EMinus, (E I HI), (E0 I HI). reflexivity.
    - rewrite mkTimes_two by (rewrite two_plus_map; assumption). rewrite !eval_ETimes, (enums_map false I _ _ HF). reflexivity.
    - rewrite !eval_EDiv, (E I HI), (E0 I HI). reflexivity.
    - rewrite !eval_ELe, (E I HI), (E0 I HI). reflexivity.
    - rewrite !eval_ELt, (E I HI), (E0 I HI). reflexivity.
    - rewrite !eval_EEquals, (E I HI), (E0 I HI). reflexivity.
  Qed.
End ExpandEval.

(* a quantifier-free expression does not see the quantifier mode *)
Lemma eval_qf_sc e : forall I, qf e = true -> eval true e I = eval false e I.
Proof.
  induction e using expr_ind'; intros I Hq; try reflexivity; cbn [qf] in Hq; try discriminate; nfsplit;
    try (assert (HF : Forall (fun x => eval true x I = eval false x I) l)
           by (rewrite Forall_forall in *; intros x Hx; apply H; [exact Hx|]; rewrite forallb_forall in Hq; apply Hq; exact Hx));
    try (assert (HF : Forall (fun x => eval true x I = eval false x I) args)
           by (rewrite Forall_forall in *; intros x Hx; apply H; [exact Hx|]; rewrite forallb_forall in Hq; apply Hq; exact Hx)).
  - rewrite !eval_EFluent. replace (evals true I args) with (evals false I args); [reflexivity|].
    clear H Hq. induction HF as [|x l' Hx _ IH']; [reflexivity|]. cbn [evals]. rewrite Hx, IH'. reflexivity.
  - rewrite !eval_EIFun. replace (evals true I args) with (evals false I args); [reflexivity|].
    clear H Hq. induction HF as [|x l' Hx _ IH']; [reflexivity|]. cbn [evals]. rewrite Hx, IH'. reflexivity.
  - rewrite !eval_EAnd. replace (ebools true I l) with (ebools false I l); [reflexivity|].
    clear H Hq. induction HF as [|x l' Hx _ IH']; [reflexivity|]. cbn [ebools]. rewrite Hx, IH'. reflexivity.
  - rewrite !eval_EOr. replace (ebools true I l) with (ebools false I l); [reflexivity|].
    clear H Hq. induction HF as [|x l' Hx _ IH']; [reflexivity|]. cbn [ebools]. rewrite Hx, IH'. reflexivity.
  - rewrite !eval_ENot, IHe by assumption. reflexivity.
  - rewrite !eval_EImplies, IHe1, IHe2 by assumption. reflexivity.
  - rewrite !eval_EIff, IHe1, IHe2 by assumption. reflexivity.
  - rewrite !eval_EPlus. replace (enums true I l) with (enums false I l); [reflexivity|].
    clear H Hq. induction HF as [|x l' Hx _ IH']; [reflexivity|]. cbn [enums]. rewrite Hx, IH'. reflexivity.
  - rewrite !eval_EMinus, IHe1, IHe2 by assumption. reflexivity.
  - rewrite !eval_ETimes. replace (enums true I l) with (enums false I l); [reflexivity|].
    clear H Hq. induction HF as [|x l' Hx _ IH']; [reflexivity|]. cbn [enums]. rewrite Hx, IH'. reflexivity.
  - rewrite !eval_EDiv, IHe1, IHe2 by assumption. reflexivity.
  - rewrite !eval_ELe, IHe1, IHe2 by assumption. reflexivity.
  - rewrite !eval_ELt, IHe1, IHe2 by assumption. reflexivity.
  - rewrite !eval_EEquals, IHe1, IHe2 by assumption. reflexivity.
Qed.

(* ---- the two quantifier modes.
   strict ([eval false], the documented reading): the expansion has the same value and the same definedness;
   short-circuit ([eval true], what the evaluator does): And/Or are strict in this semantics, the quantifiers are not, so
   the expansion REFINES the quantified expression (a value of the expansion is the value of the original; an
   instance that is undefined after a deciding one makes the expansion undefined and leaves the original defined),
   and wherever the strict reading of the original is defined all four agree. *)
Theorem expand_quantifiers_eval tau beta e I :
  wfe tau beta e = true -> btyped beta I -> eval false (expand (objs I) e) I = eval false e I.
Proof. intros Hw Hb. apply (expand_eval_strict tau beta (objs I)); [exact Hw | split; [reflexivity | exact Hb]]. Qed.

Theorem expand_quantifiers_eval_sc tau beta e I v :
  wfe tau beta e = true -> btyped beta I -> eval true (expand (objs I) e) I = Some v -> eval true e I = Some v.
Proof.
  intros Hw Hb H. apply eval_sc_refines.
  rewrite <- (expand_quantifiers_eval tau beta e I Hw Hb), <- eval_qf_sc; [exact H|].
  apply qf_expand. apply wfe_split in Hw. tauto.
Qed.

Theorem expand_quantifiers_eval_sc_defined tau beta e I v :
  wfe tau beta e = true -> btyped beta I -> eval false e I = Some v ->
  eval true (expand (objs I) e) I = Some v /\ eval true e I = Some v.
Proof.
  intros Hw Hb H. split; [|apply eval_sc_refines; exact H].
  rewrite eval_qf_sc by (apply qf_expand; apply wfe_split in Hw; tauto).
  rewrite (expand_quantifiers_eval tau beta e I Hw Hb). exact H.
Qed.

Theorem expand_quantifier_free tau beta ob e : wfe tau beta e = true -> qf (expand ob e) = true.
Proof. intros Hw. apply qf_expand. apply wfe_split in Hw. tauto. Qed.

(* the refinement of the short-circuit mode is strict: Exists v. p(v) with p(o1) true and p(o2) undefined *)
Example expand_sc_not_equal :
  exists e I, eval true e I = Some (VBool true) /\ eval true (expand (objs I) e) I = None.
Proof.
  exists (EExists [(0%N, 0%N)] (EFluent 0%N [EVar 0%N 0%N])),
         {| fl := fun f a => match a with [VObj 1%N] => Some (VBool true) | _ => None end;
            par := fun _ => None; var := fun _ => None; ifun := fun _ _ => None; objs := fun _ => [1%N; 2%N] |}.
  split; vm_compute; reflexivity.
Qed.

(* ================================================================== D. the problem-level theorems *)
Require Import UPV.Compilers.LayerA_Defs UPV.Proofs.LayerA_base.

Definition eres (I : interp) (effs : list effect) : list eres :=
  flat_map (fun e => map (fun J => eval_effect false J e) (instances I (e_vars e))) effs.

Lemma fired_eres I effs : fired false I effs = collect_res (eres I effs).
Proof. reflexivity. Qed.

Lemma flat_map_map {A B C} (g : A -> B) (f : B -> list C) l : flat_map f (map g l) = flat_map (fun x => f (g x)) l.
Proof. induction l as [|x l IH]; [reflexivity|]. simpl. rewrite IH. reflexivity. Qed.

Lemma map_as_flat_map {A B} (f : A -> B) l : map f l = flat_map (fun x => [f x]) l.
Proof. induction l as [|x l IH]; [reflexivity|]. simpl. rewrite IH. reflexivity. Qed.

Lemma eres_flat_map {A} I (g : A -> list effect) l : eres I (flat_map g l) = flat_map (fun x => eres I (g x)) l.
Proof.
  induction l as [|x l IH]; [reflexivity|]. simpl. unfold eres in *. rewrite flat_map_app, IH. reflexivity.
Qed.

Lemma is_false_eq c : is_false c = true -> c = EBool false.
Proof. destruct c; try discriminate. destruct b; [discriminate | reflexivity]. Qed.

Lemma all_hold_app' sc I l1 l2 : all_hold sc I (l1 ++ l2) = all_hold sc I l1 && all_hold sc I l2.
Proof. unfold all_hold. apply forallb_app. Qed.

Lemma all_hold_add_pres sc I l : all_hold sc I (add_pres l) = all_hold sc I l.
Proof.
  unfold add_pres.
  assert (G : forall acc, all_hold sc I (fold_left add_pre l acc) = all_hold sc I acc && all_hold sc I l).
  { induction l as [|p l IH]; intros acc; cbn [fold_left].
    - cbn [all_hold forallb]. rewrite andb_true_r. reflexivity.
    - rewrite IH. unfold add_pre. change (all_hold sc I (p :: l)) with (holds sc I p && all_hold sc I l).
      destruct (is_true p) eqn:Et; cbn [orb].
      + rewrite (holds_true sc I p Et). reflexivity.
      + destruct (existsb (expr_eqb p) acc) eqn:Em.
        * destruct (all_hold sc I acc) eqn:Ea; [|reflexivity].
          apply existsb_exists in Em. destruct Em as [q [Hq Eq]]. apply expr_eqb_eq in Eq. subst q.
          rewrite (all_hold_In sc I acc p Ea Hq). reflexivity.
        * rewrite all_hold_app'. change (all_hold sc I [p]) with (holds sc I p && true). rewrite andb_true_r.
          rewrite andb_assoc. reflexivity. }
  rewrite G. reflexivity.
Qed.

Lemma all_hold_filter_true sc I l : all_hold sc I (filter (fun g => negb (is_true g)) l) = all_hold sc I l.
Proof.
  induction l as [|g l IH]; [reflexivity|]. cbn [filter].
  change (all_hold sc I (g :: l)) with (holds sc I g && all_hold sc I l).
  destruct (is_true g) eqn:E; cbn [negb].
  - rewrite (holds_true sc I g E). exact IH.
  - change (all_hold sc I (g :: filter (fun g0 => negb (is_true g0)) l))
      with (holds sc I g && all_hold sc I (filter (fun g0 => negb (is_true g0)) l)). rewrite IH. reflexivity.
Qed.

Lemma all_hold_map_eq sc I (f : expr -> expr) l :
  (forall x, In x l -> eval sc (f x) I = eval sc x I) -> all_hold sc I (map f l) = all_hold sc I l.
Proof.
  induction l as [|x l IH]; intros H; [reflexivity|]. cbn [map].
  change (all_hold sc I (f x :: map f l)) with (holds sc I (f x) && all_hold sc I (map f l)).
  change (all_hold sc I (x :: l)) with (holds sc I x && all_hold sc I l).
  unfold holds at 1 2. rewrite (H x (or_introl eq_refl)), IH; [reflexivity|]. intros y Hy. apply H. right; exact Hy.
Qed.

Section QuantProofs.
  Variable smp : expr -> expr.
  Hypothesis Hsmp : smp_exact smp.
  Variable P : problem.
  Variable tau : N -> N.
  Let ob := objs_of P.
  Let beta := is_bool_fluent P.
  Let P' := quant_compile smp P.

  Notation good := (good_interp beta ob).

  Lemma ev_expand e I : wfe tau beta e = true -> good I -> eval false (expand ob e) I = eval false e I.
  Proof. intros. apply (expand_eval_strict tau beta ob); assumption. Qed.

  Lemma ev_smp_expand e I : wfe tau beta e = true -> good I -> eval false (smp (expand ob e)) I = eval false e I.
  Proof. intros. rewrite Hsmp. apply ev_expand; assumption. Qed.

  Lemma good_mk s pars : bool_state P s -> good (mk_interp P s pars).
  Proof. intros H. split; [reflexivity|]. intros f args Hf. apply H. exact Hf. Qed.

  Lemma good_instance I vs J : good I -> In J (instances I vs) -> good J.
  Proof.
    intros HI HJ. rewrite instances_binds in HJ. apply in_map_iff in HJ. destruct HJ as [os [<- _]].
    apply good_binds. exact HI.
  Qed.

  (* one expanded effect (no forall variable left) after the loop body of _compile *)
  Lemma q_effect1_res J e1 :
    e_vars e1 = [] -> wfe tau beta (e_cond e1) = true -> wfe tau beta (e_val e1) = true -> good J ->
    evals_l false J (e_args e1) <> None ->
    strip (eres J (q_effect1 smp P e1)) = strip [eval_effect false J e1].
  Proof.
    intros Hv Hc Hval HJ Ha. unfold q_effect1. fold ob.
    set (c := if is_uncond e1 then e_cond e1 else smp (expand ob (e_cond e1))).
    assert (Ec : eval false c J = eval false (e_cond e1) J).
    { unfold c. destruct (is_uncond e1); [reflexivity | apply ev_smp_expand; assumption]. }
    destruct (is_false c) eqn:F.
    - apply is_false_eq in F. rewrite F in Ec. cbn [eval] in Ec.
      unfold eval_effect. destruct (evals_l false J (e_args e1)); [|congruence]. rewrite <- Ec. reflexivity.
    - unfold eres. cbn [flat_map set_cv e_vars]. rewrite Hv. cbn [instances map app]. f_equal. f_equal.
      unfold eval_effect. cbn [set_cv e_args e_cond e_val e_fl e_kind]. rewrite Ec, (ev_expand _ J Hval HJ). reflexivity.
  Qed.

  Lemma wfe_subst vs os x : wfe tau beta x = true -> wfe tau beta (substitute (zip_subs vs os) x) = true.
  Proof.
    intros H. apply wfe_split in H. destruct H as (H1 & H2 & H3).
    destruct (subst_zip_facts tau beta vs os x H1) as (F1 & _ & F3 & F4 & _).
    unfold wfe. rewrite F1, (F4 H2), (F3 H3). reflexivity.
  Qed.

  Lemma evals_l_subst vs os l I :
    forallb (wfe tau beta) l = true -> binders_ok tau vs = true -> length os = length vs ->
    evals_l false I (map (substitute (zip_subs vs os)) l) = evals_l false (binds I vs os) l.
  Proof.
    intros Hl Hb Hlen. induction l as [|x l IH]; [reflexivity|]. cbn [forallb] in Hl. nfsplit.
    cbn [map evals_l]. match goal with Hx : wfe tau beta x = true |- _ => apply wfe_split in Hx; destruct Hx as (X1 & X2 & X3) end.
    rewrite (subst_vo_eval false tau vs os x I X1 X3 Hb Hlen), IH by assumption. reflexivity.
  Qed.

  Lemma effect_wf_split e : effect_wf P tau e = true ->
    forallb (wfe tau beta) (e_args e) = true /\ wfe tau beta (e_val e) = true /\ wfe tau beta (e_cond e) = true /\
    binders_ok tau (e_vars e) = true.
  Proof. unfold effect_wf. intros H. nfsplit. auto. Qed.

  (* one original effect: its expanded copies evaluate like its instances *)
  Lemma expand_effect_res I e :
    effect_wf P tau e = true -> good I ->
    (forall J, In J (instances I (e_vars e)) -> evals_l false J (e_args e) <> None) ->
    strip (eres I (flat_map (q_effect1 smp P) (expand_effect P e))) =
    strip (map (fun J => eval_effect false J e) (instances I (e_vars e))).
  Proof.
    intros Hwf HI Ht. apply effect_wf_split in Hwf. destruct Hwf as (Wa & Wv & Wc & Wb).
    unfold expand_effect. fold ob. destruct (e_vars e) as [|vt vs0] eqn:Ev.
    - cbn [flat_map instances map]. rewrite app_nil_r. apply q_effect1_res; try assumption.
      apply Ht. left; reflexivity.
    - set (vs := vt :: vs0) in *.
      rewrite flat_map_map, eres_flat_map.
      rewrite instances_binds. destruct HI as [Hob Hbt]. rewrite Hob. rewrite map_map.
      rewrite (map_as_flat_map (fun os => eval_effect false (binds I vs os) e)).
      apply strip_flat_map. intros os Hos.
      pose proof (obj_tuples_length ob vs os Hos) as Hlen.
      set (s := zip_subs vs os).
      set (e1 := set_cv e (map (substitute s) (e_args e)) (substitute s (e_val e)) (substitute s (e_cond e)) []).
      assert (Ea : evals_l false I (e_args e1) = evals_l false (binds I vs os) (e_args e))
        by (apply evals_l_subst; assumption).
      rewrite (q_effect1_res I e1); [| reflexivity | apply wfe_subst; exact Wc | apply wfe_subst; exact Wv
                                     | split; assumption |].
      + f_equal. f_equal. unfold eval_effect. rewrite Ea.
        unfold e1, s. cbn [set_cv e_cond e_val e_fl e_kind].
        apply wfe_split in Wc. destruct Wc as (C1 & _ & C3). apply wfe_split in Wv. destruct Wv as (V1 & _ & V3).
        rewrite (subst_vo_eval false tau vs os (e_cond e) I C1 C3 Wb Hlen),
                (subst_vo_eval false tau vs os (e_val e) I V1 V3 Wb Hlen). reflexivity.
      + rewrite Ea. apply Ht. rewrite instances_binds, Hob. apply in_map. exact Hos.
  Qed.

  Lemma q_effects_fired I effs :
    forallb (effect_wf P tau) effs = true -> good I ->
    (forall e J, In e effs -> In J (instances I (e_vars e)) -> evals_l false J (e_args e) <> None) ->
    fired false I (q_effects smp P effs) = fired false I effs.
  Proof.
    intros Hwf HI Ht. rewrite !fired_eres, collect_res_strip, (collect_res_strip (eres I effs)). f_equal.
    unfold q_effects. rewrite eres_flat_map. unfold eres at 2. apply strip_flat_map.
    intros e He. apply expand_effect_res; [|exact HI|].
    - rewrite forallb_forall in Hwf. apply Hwf. exact He.
    - intros J HJ. apply (Ht e J He HJ).
  Qed.

  Lemma quant_invariants s :
    forallb (wfe tau beta) (p_invs P) = true -> bool_state P s ->
    invariants_ok false P' s = invariants_ok false P s.
  Proof.
    intros Hwf Hs. unfold invariants_ok.
    rewrite (bound_invs_sig P P' eq_refl eq_refl). change (mk_interp P' s []) with (mk_interp P s []).
    rewrite !all_hold_app'. f_equal.
    change (p_invs P') with (q_invs smp P (p_invs P)). unfold q_invs. fold ob.
    rewrite all_hold_filter_true. apply all_hold_map_eq.
    intros x Hx. apply ev_smp_expand; [|apply good_mk; exact Hs].
    rewrite forallb_forall in Hwf. apply Hwf. exact Hx.
  Qed.

  Lemma action_wf_split a : action_wf P tau a = true ->
    forallb (wfe tau beta) (a_pre a) = true /\ forallb (effect_wf P tau) (a_effs a) = true.
  Proof. unfold action_wf. intros H. nfsplit. auto. Qed.

  (* the compiled action takes exactly the original step *)
  Lemma quant_step s a a' args :
    action_wf P tau a = true -> forallb (wfe tau beta) (p_invs P) = true -> bool_state P s ->
    targets_total P a args -> q_action smp P a = Some a' ->
    spec_step false P' s a' args = spec_step false P s a args.
  Proof.
    intros Hwf Hinv Hs Ht Hq. apply action_wf_split in Hwf. destruct Hwf as [Wp We].
    unfold q_action in Hq. fold ob in Hq.
    destruct (add_effs_ok [] [] (q_effects smp P (a_effs a))); [|discriminate]. inversion Hq; subst a'. clear Hq.
    pose proof (good_mk s (zip_params (a_params a) args) Hs) as HI.
    apply spec_step_cong; try reflexivity.
    - cbn [a_pre]. rewrite all_hold_add_pres. apply all_hold_map_eq. intros x Hx.
      apply ev_expand; [|exact HI]. rewrite forallb_forall in Wp. apply Wp. exact Hx.
    - cbn [a_effs]. apply q_effects_fired; [exact We | exact HI |].
      intros e J He HJ. apply (Ht s e J He HJ).
    - intros acts _. apply quant_invariants; [exact Hinv | apply spec_succ_bool; exact Hs].
  Qed.

  Lemma problem_wf_split : problem_wf P tau = true ->
    (forall aid a, In (aid, a) (p_actions P) -> action_wf P tau a = true) /\
    forallb (wfe tau beta) (p_goals P) = true /\ forallb (wfe tau beta) (p_invs P) = true.
  Proof.
    unfold problem_wf. intros H. nfsplit. repeat split; try assumption.
    intros aid a Hin. match goal with Hf : forallb _ (p_actions P) = true |- _ => rewrite forallb_forall in Hf; apply (Hf (aid, a) Hin) end.
  Qed.

  Lemma quant_lookup aid : unique_ids P ->
    lookup_action P' aid = match lookup_action P aid with Some a => q_action smp P a | None => None end.
  Proof. intros Hu. unfold lookup_action. apply lookup_map_actions. exact Hu. Qed.

  Lemma quant_goals s : forallb (wfe tau beta) (p_goals P) = true -> bool_state P s ->
    goals_hold false P' s = goals_hold false P s.
  Proof.
    intros Hwf Hs. unfold goals_hold. change (mk_interp P' s []) with (mk_interp P s []).
    change (p_goals P') with (add_goals (map (expand ob) (p_goals P))). unfold add_goals.
    rewrite all_hold_filter_true. apply all_hold_map_eq. intros x Hx.
    apply ev_expand; [|apply good_mk; exact Hs]. rewrite forallb_forall in Hwf. apply Hwf. exact Hx.
  Qed.

  Hypothesis Hu : unique_ids P.
  Hypothesis Hwf : problem_wf P tau = true.

  Lemma quant_run_sound pi : forall s t, bool_state P s -> plan_targets_total P pi ->
    run P' (spec_step false P') s pi = Some t -> run P (spec_step false P) s pi = Some t /\ bool_state P t.
  Proof.
    destruct (problem_wf_split Hwf) as (Wa & Wg & Wi).
    induction pi as [|[aid args] pi IH]; intros s t Hs Ht; cbn [run].
    - intros E. inversion E; subst. split; [reflexivity | exact Hs].
    - rewrite quant_lookup by exact Hu. destruct (lookup_action P aid) as [a|] eqn:EL; [|discriminate].
      destruct (q_action smp P a) as [a'|] eqn:EQ; [|discriminate].
      assert (Hin : In (aid, a) (p_actions P)) by (apply lookupN_In; exact EL).
      rewrite (quant_step s a a' args (Wa aid a Hin) Wi Hs (Ht aid args a (or_introl eq_refl) EL) EQ).
      destruct (spec_step false P s a args) as [s1|] eqn:ES; [|discriminate].
      apply IH; [eapply spec_step_bool; eassumption|].
      intros aid0 args0 a0 H0. apply Ht. right; exact H0.
  Qed.

  Lemma quant_run_complete pi : no_action_dropped smp P -> forall s t, bool_state P s -> plan_targets_total P pi ->
    run P (spec_step false P) s pi = Some t -> run P' (spec_step false P') s pi = Some t /\ bool_state P t.
  Proof.
    intros Hnd. destruct (problem_wf_split Hwf) as (Wa & Wg & Wi).
    induction pi as [|[aid args] pi IH]; intros s t Hs Ht; cbn [run].
    - intros E. inversion E; subst. split; [reflexivity | exact Hs].
    - rewrite quant_lookup by exact Hu. destruct (lookup_action P aid) as [a|] eqn:EL; [|discriminate].
      assert (Hin : In (aid, a) (p_actions P)) by (apply lookupN_In; exact EL).
      destruct (q_action smp P a) as [a'|] eqn:EQ; [|exfalso; exact (Hnd aid a Hin EQ)].
      rewrite (quant_step s a a' args (Wa aid a Hin) Wi Hs (Ht aid args a (or_introl eq_refl) EL) EQ).
      destruct (spec_step false P s a args) as [s1|] eqn:ES; [|discriminate].
      apply IH; [eapply spec_step_bool; eassumption|].
      intros aid0 args0 a0 H0. apply Ht. right; exact H0.
  Qed.

  (* soundness: a valid plan of the compiled problem is, unchanged (the compiled actions keep their names and
     parameters), a valid plan of the original problem *)
  Theorem quant_sound s0 pi : bool_state P s0 -> plan_targets_total P pi ->
    valid_plan false P' s0 pi = true -> valid_plan false P s0 pi = true.
  Proof.
    intros Hs Ht. unfold valid_plan.
    destruct (run P' (spec_step false P') s0 pi) as [t|] eqn:ER; [|discriminate].
    destruct (quant_run_sound pi s0 t Hs Ht ER) as [-> Hb].
    destruct (problem_wf_split Hwf) as (_ & Wg & _). rewrite (quant_goals t Wg Hb). auto.
  Qed.

  (* completeness: when no action is left out for conflicting effects, every valid plan of the original problem is a
     valid plan of the compiled one *)
  Theorem quant_complete s0 pi : no_action_dropped smp P -> bool_state P s0 -> plan_targets_total P pi ->
    valid_plan false P s0 pi = true -> valid_plan false P' s0 pi = true.
  Proof.
    intros Hnd Hs Ht. unfold valid_plan.
    destruct (run P (spec_step false P) s0 pi) as [t|] eqn:ER; [|discriminate].
    destruct (quant_run_complete pi Hnd s0 t Hs Ht ER) as [-> Hb].
    destruct (problem_wf_split Hwf) as (_ & Wg & _). rewrite (quant_goals t Wg Hb). auto.
  Qed.

  (* the initial state is judged alike (state invariants and bounded types of the initial state) *)
  Theorem quant_init_ok s0 : bool_state P s0 -> invariants_ok false P' s0 = invariants_ok false P s0.
  Proof. intros Hs. destruct (problem_wf_split Hwf) as (_ & _ & Wi). apply quant_invariants; assumption. Qed.
End QuantProofs.
