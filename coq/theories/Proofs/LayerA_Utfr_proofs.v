(* C06 / C07, Layer A — UsertypeFluentsRemover: proofs about Compilers/LayerA_Utfr.v.
   Invariant [utfr_rel]: o(x, u) is true iff o(x) = u (u an object of o's type), o(x, _) is undefined iff o(x) is.
   Under it: expressions without object fluents evaluate alike ([eval_uclean]); one converted effect fires exactly the
   Boolean images of the original effect instance ([split_eff_res], [u_effect_res], [u_effects_res]); the successor
   states are related again and the conflict checks agree ([succ_rel], [effects_ok_eq]) provided the assignments fired on
   one ground object fluent carry one value; steps, runs and plans follow ([u_step], [u_run], [u_valid_plan]).
   [utfr_masked_conflict_witness]: without "one value" the compiled problem accepts a plan the original rejects. *)
From Coq Require Import List ZArith NArith QArith Qcanon Bool Lia.
Import ListNotations.
Require Import UPV.Core.Expr UPV.Core.Eval UPV.Core.Interp UPV.Planning.Problem UPV.Planning.Sem.
Require Import UPV.Proofs.Eval_lemmas UPV.Proofs.Sem_proofs UPV.Proofs.Step_proofs.
Require Import UPV.Walkers.Subst UPV.Proofs.Subst_proofs.
Require Import UPV.Compilers.Variants UPV.Compilers.LayerA_Defs UPV.Compilers.LayerA_Quant UPV.Compilers.LayerA_Utfr.
Require Import UPV.Proofs.Variants_proofs UPV.Proofs.LayerA_base UPV.Proofs.LayerA_Quant_proofs.
Local Open Scope nat_scope.

(* ------------------------------------------------------------------ expression level *)
Section UExpr.
  Variable ot : N -> option N.

  Lemma urel_bind I I' v o : urel_interp ot I I' -> urel_interp ot (bind_var I v o) (bind_var I' v o).
  Proof.
    intros (H1 & H2 & H3 & H4 & H5 & H6). repeat split; simpl; auto. intros w. destruct (w =? v)%N; auto.
  Qed.

  Lemma urel_instances vs : forall I I', urel_interp ot I I' ->
    Forall2 (urel_interp ot) (instances I vs) (instances I' vs).
  Proof.
    induction vs as [|[v t] vs IH]; intros I I' H; simpl.
    - constructor; [exact H | constructor].
    - assert (HH := H). destruct H as (H1 & H2 & H3 & H4 & H5 & H6). rewrite H4.
      induction (objs I t) as [|o os IHo]; simpl; [constructor|].
      apply Forall2_app; [apply IH, urel_bind, HH | exact IHo].
  Qed.

  Lemma F2_map_eq {A B} (R : A -> A -> Prop) (f g : A -> B) l l' :
    Forall2 R l l' -> (forall x y, R x y -> f x = g y) -> map f l = map g l'.
  Proof. induction 1; intros H'; simpl; [reflexivity|]. f_equal; auto. Qed.

  (* an expression that mentions no object fluent does not see the encoding *)
  Lemma eval_uclean sc e : forall I I', urel_interp ot I I' -> uclean ot e = true -> eval sc e I' = eval sc e I.
  Proof.
    induction e using expr_ind'; intros I I' HR Hc; pose proof HR as (Hp & Hv & Hi & Ho & Hf & _);
      try reflexivity; cbn [uclean] in Hc;
      try (destruct (ot f) eqn:Eot; [discriminate|]); nfsplit;
      try (assert (HF : Forall (fun x => eval sc x I' = eval sc x I) l)
             by (rewrite Forall_forall in *; intros x Hx; apply H; [exact Hx | exact HR |];
                 match goal with Hq : forallb _ _ = true |- _ => rewrite forallb_forall in Hq; apply Hq; exact Hx end));
      try (assert (HF : Forall (fun x => eval sc x I' = eval sc x I) args)
             by (rewrite Forall_forall in *; intros x Hx; apply H; [exact Hx | exact HR |];
                 match goal with Hq : forallb _ _ = true |- _ => rewrite forallb_forall in Hq; apply Hq; exact Hx end)).
    - cbn [eval]. apply Hp.
    - cbn [eval]. apply Hv.
    - rewrite !eval_EFluent.
      replace (evals sc I' args) with (evals sc I args)
        by (clear -HF; induction HF as [|x l' Hx _ IH']; [reflexivity|]; cbn [evals]; rewrite Hx, IH'; reflexivity).
      destruct (evals sc I args); [|reflexivity]. apply Hf. exact Eot.
    - rewrite !eval_EIFun.
      replace (evals sc I' args) with (evals sc I args)
        by (clear -HF; induction HF as [|x l' Hx _ IH']; [reflexivity|]; cbn [evals]; rewrite Hx, IH'; reflexivity).
      destruct (evals sc I args); [|reflexivity]. apply Hi.
    - rewrite !eval_EAnd.
      replace (ebools sc I' l) with (ebools sc I l)
        by (clear -HF; induction HF as [|x l' Hx _ IH']; [reflexivity|]; cbn [ebools]; rewrite Hx, IH'; reflexivity).
      reflexivity.
    - rewrite !eval_EOr.
      replace (ebools sc I' l) with (ebools sc I l)
        by (clear -HF; induction HF as [|x l' Hx _ IH']; [reflexivity|]; cbn [ebools]; rewrite Hx, IH'; reflexivity).
      reflexivity.
    - rewrite !eval_ENot, (IHe I I' HR) by assumption. reflexivity.
    - rewrite !eval_EImplies, (IHe1 I I' HR), (IHe2 I I' HR) by assumption. reflexivity.
    - rewrite !eval_EIff, (IHe1 I I' HR), (IHe2 I I' HR) by assumption. reflexivity.
    - rewrite !eval_EExists. f_equal.
      rewrite (F2_map_eq (urel_interp ot) (fun J => as_bool (eval sc e J)) (fun J => as_bool (eval sc e J))
                 _ _ (urel_instances vs I I' HR)); [reflexivity|].
      intros x y Hxy. rewrite (IHe x y Hxy) by assumption. reflexivity.
    - rewrite !eval_EForall. f_equal.
      rewrite (F2_map_eq (urel_interp ot) (fun J => as_bool (eval sc e J)) (fun J => as_bool (eval sc e J))
                 _ _ (urel_instances vs I I' HR)); [reflexivity|].
      intros x y Hxy. rewrite (IHe x y Hxy) by assumption. reflexivity.
    - rewrite !eval_EPlus.
      replace (enums sc I' l) with (enums sc I l)
        by (clear -HF; induction HF as [|x l' Hx _ IH']; [reflexivity|]; cbn [enums]; rewrite Hx, IH'; reflexivity).
      reflexivity.
    - rewrite !eval_EMinus, (IHe1 I I' HR), (IHe2 I I' HR) by assumption. reflexivity.
    - rewrite !eval_ETimes.
      replace (enums sc I' l) with (enums sc I l)
        by (clear -HF; induction HF as [|x l' Hx _ IH']; [reflexivity|]; cbn [enums]; rewrite Hx, IH'; reflexivity).
      reflexivity.
    - rewrite !eval_EDiv, (IHe1 I I' HR), (IHe2 I I' HR) by assumption. reflexivity.
    - rewrite !eval_ELe, (IHe1 I I' HR), (IHe2 I I' HR) by assumption. reflexivity.
    - rewrite !eval_ELt, (IHe1 I I' HR), (IHe2 I I' HR) by assumption. reflexivity.
    - rewrite !eval_EEquals, (IHe1 I I' HR), (IHe2 I I' HR) by assumption. reflexivity.
  Qed.

  Lemma evals_l_uclean J J' l : urel_interp ot J J' -> forallb (uclean ot) l = true ->
    evals_l false J' l = evals_l false J l.
  Proof.
    intros HR. induction l as [|x l IH]; intros H; [reflexivity|]. cbn [forallb] in H. nfsplit. cbn [evals_l].
    rewrite (eval_uclean false x J J' HR), IH by assumption. reflexivity.
  Qed.
End UExpr.

(* ------------------------------------------------------------------ effect level *)
Lemma is_false_eq c : is_false c = true -> c = EBool false.
Proof. destruct c; try discriminate. destruct b; [discriminate | reflexivity]. Qed.

Lemma eval_mkNot_b J v b : eval false v J = Some (VBool b) -> eval false (mkNot v) J = Some (VBool (negb b)).
Proof.
  intros H. assert (G : eval false (ENot v) J = Some (VBool (negb b))) by (rewrite eval_ENot, H; reflexivity).
  destruct v; try exact G. cbn [mkNot].
  rewrite eval_ENot in H. destruct (as_bool (eval false v J)) as [x|] eqn:E; [|discriminate].
  inversion H. apply as_bool_some in E. rewrite E, negb_involutive. reflexivity.
Qed.

Section USplit.
  Variable smp : expr -> expr.
  Hypothesis Hsmp : smp_exact smp.

  Lemma eval_cond_and J c x cb xb : eval false c J = Some (VBool cb) -> eval false x J = Some (VBool xb) ->
    eval false (cond_and smp c x) J = Some (VBool (cb && xb)).
  Proof.
    intros Hc Hx. unfold cond_and. rewrite Hsmp, eval_EAnd. cbn [ebools]. rewrite Hc, eval_EAnd. cbn [ebools eval as_bool].
    rewrite Hx. cbn [as_bool forallb]. rewrite !andb_true_r. reflexivity.
  Qed.

  Lemma eval_cond_only J c cb : eval false c J = Some (VBool cb) ->
    eval false (cond_only smp c) J = Some (VBool cb).
  Proof.
    intros Hc. unfold cond_only. rewrite Hsmp, eval_EAnd. cbn [ebools eval as_bool]. rewrite Hc. cbn [as_bool forallb].
    rewrite !andb_true_r. reflexivity.
  Qed.

  Lemma eval_mk_eff J f args v c k vars isb vs cb val :
    evals_l false J args = Some vs -> eval false c J = Some (VBool cb) -> eval false v J = Some val ->
    eval_effect false J (mk_eff f args v c k vars isb) =
    if cb then EAct {| ae_key := (f, vs); ae_kind := k; ae_val := val |} else ESkip.
  Proof.
    intros Ha Hc Hv. unfold eval_effect. cbn [mk_eff e_args e_cond e_val e_fl e_kind]. rewrite Ha, Hc.
    destruct cb; [rewrite Hv|]; reflexivity.
  Qed.

  (* one converted target/value: exactly the original effect instance, no error *)
  Lemma split_eff_res J f args v c k vars isb vs cb val :
    evals_l false J args = Some vs -> eval false c J = Some (VBool cb) -> eval false v J = Some val ->
    (isb = true -> exists b, val = VBool b) ->
    let L := map (fun e => eval_effect false J e) (split_eff smp f args v c k vars isb) in
    has_err L = false /\
    acts_of L = if cb then [{| ae_key := (f, vs); ae_kind := k; ae_val := val |}] else [].
  Proof.
    intros Ha Hc Hv Hb. unfold split_eff. destruct (isb && negb (is_bconst v)) eqn:Es.
    - apply andb_true_iff in Es. destruct Es as [Ei _]. destruct (Hb Ei) as [bv ->].
      pose proof (eval_cond_and J c v cb bv Hc Hv) as Ep.
      pose proof (eval_cond_and J c (mkNot v) cb (negb bv) Hc (eval_mkNot_b J v bv Hv)) as En.
      assert (Et : eval false (EBool true) J = Some (VBool true)) by reflexivity.
      assert (Ef : eval false (EBool false) J = Some (VBool false)) by reflexivity.
      destruct (is_false (cond_and smp c v)) eqn:Fp; destruct (is_false (cond_and smp c (mkNot v))) eqn:Fn;
        try (apply is_false_eq in Fp; rewrite Fp in Ep; cbn [eval] in Ep; inversion Ep as [Ep']);
        try (apply is_false_eq in Fn; rewrite Fn in En; cbn [eval] in En; inversion En as [En']);
        cbn [app map]; repeat rewrite (eval_mk_eff J _ _ _ _ _ _ _ vs _ _ Ha Ep Et);
        repeat rewrite (eval_mk_eff J _ _ _ _ _ _ _ vs _ _ Ha En Ef);
        destruct cb, bv; try discriminate; cbn; split; reflexivity.
    - pose proof (eval_cond_only J c cb Hc) as Eo.
      destruct (is_false (cond_only smp c)) eqn:Fo.
      + apply is_false_eq in Fo. rewrite Fo in Eo. cbn [eval] in Eo. inversion Eo. split; reflexivity.
      + cbn [map]. rewrite (eval_mk_eff J _ _ _ _ _ _ _ vs cb val Ha Eo Hv). destruct cb; split; reflexivity.
  Qed.
End USplit.

Lemma evals_l_evals_u sc I l : evals_l sc I l = evals sc I l.
Proof. induction l as [|x l IH]; [reflexivity|]. cbn [evals_l evals]. rewrite IH. reflexivity. Qed.

Lemma evals_l_app sc I l1 l2 :
  evals_l sc I (l1 ++ l2) =
  match evals_l sc I l1, evals_l sc I l2 with Some a, Some b => Some (a ++ b) | _, _ => None end.
Proof.
  induction l1 as [|x l1 IH]; cbn [app evals_l].
  - destruct (evals_l sc I l2); reflexivity.
  - rewrite IH. destruct (eval sc x I); [|reflexivity].
    destruct (evals_l sc I l1); [|reflexivity]. destruct (evals_l sc I l2); reflexivity.
Qed.

Lemma evals_l_map_eq sc J J' (f : expr -> expr) l :
  (forall x, In x l -> eval sc (f x) J' = eval sc x J) -> evals_l sc J' (map f l) = evals_l sc J l.
Proof.
  induction l as [|x l IH]; intros H; [reflexivity|]. cbn [map evals_l].
  rewrite (H x (or_introl eq_refl)), IH; [reflexivity|]. intros y Hy. apply H. right; exact Hy.
Qed.

Definition objv (v : value) : N := match v with VObj o => o | _ => 0%N end.

Section UEffect.
  Variable tr : expr -> expr.
  Variable smp : expr -> expr.
  Variable P : problem.
  Notation ot := (otype P).
  Hypothesis Hsmp : smp_exact smp.

  (* the Boolean assignments that encode one fired assignment of an object fluent *)
  Definition img1 (x : aeff) (u : N) : aeff :=
    {| ae_key := (fst (ae_key x), snd (ae_key x) ++ [VObj u]); ae_kind := ae_kind x;
       ae_val := VBool (objv (ae_val x) =? u)%N |}.
  Definition img (x : aeff) : list aeff :=
    match ot (fst (ae_key x)) with
    | Some t => map (img1 x) (objs_of P t)
    | None => [x]
    end.

  Lemma vtest_eval I I' val u t w : urel_interp ot I I' -> val_flat P t val = true ->
    eval false val I = Some (VObj w) -> In u (objs I t) ->
    eval false (vtest P val u) I' = Some (VBool (w =? u)%N).
  Proof.
    intros HR Hf Hv Hu. pose proof HR as (_ & _ & _ & _ & _ & Hob).
    assert (Gen : uclean ot val = true -> eval false (EEquals val (EObj u)) I' = Some (VBool (w =? u)%N)).
    { intros Hc. rewrite eval_EEquals, (eval_uclean ot false val I I' HR Hc), Hv. reflexivity. }
    unfold vtest, val_flat in *. destruct val; try (apply Gen; exact Hf).
    destruct (ot f) as [t'|] eqn:Eq; [|apply Gen; exact Hf].
    apply andb_true_iff in Hf. destruct Hf as [Et Hb]. apply N.eqb_eq in Et. subst t'.
    rewrite eval_EFluent in Hv. rewrite eval_EFluent, <- evals_l_evals_u, evals_l_app.
    rewrite (evals_l_uclean ot I I' args HR Hb), evals_l_evals_u.
    destruct (evals false I args) as [bs|]; [|discriminate]. cbn [evals_l eval].
    specialize (Hob f t bs Eq). rewrite Hv in Hob. destruct Hob as [_ Hob]. apply Hob. exact Hu.
  Qed.

  Lemma u_effect_res I I' e : urel_interp ot I I' -> objs I = objs_of P -> eff_flat P e = true ->
    eff_defined P I e -> eval false (tr (e_cond e)) I' = eval false (e_cond e) I ->
    let L' := map (fun x => eval_effect false I' x) (u_effect tr smp P e) in
    has_err L' = false /\ acts_of L' = flat_map img (acts_of [eval_effect false I e]) /\
    is_err (eval_effect false I e) = false.
  Proof.
    intros HR Ho Hf ((vs & Ha) & (cb & Hc) & (v & Hv & Hty)) Htr.
    unfold eff_flat in Hf. apply andb_true_iff in Hf. destruct Hf as [Hf Hf3].
    apply andb_true_iff in Hf. destruct Hf as [Hargs _].
    assert (E0 : eval_effect false I e =
                 if cb then EAct {| ae_key := (e_fl e, vs); ae_kind := e_kind e; ae_val := v |} else ESkip).
    { unfold eval_effect. rewrite Ha, Hc. destruct cb; [rewrite Hv|]; reflexivity. }
    rewrite Hc in Htr.
    assert (Ea' : evals_l false I' (map smp (e_args e)) = Some vs).
    { rewrite (evals_l_map_eq false I' I' smp) by (intros; apply Hsmp).
      rewrite (evals_l_uclean ot I I' _ HR Hargs). exact Ha. }
    unfold u_effect. cbv zeta. destruct (ot (e_fl e)) as [t|] eqn:Et.
    - destruct Hty as (w & -> & Hw). apply andb_true_iff in Hf3. destruct Hf3 as [_ Hvf].
      assert (Gen : forall us, incl us (objs_of P t) ->
        let L := map (fun x => eval_effect false I' x)
                     (flat_map (fun u => split_eff smp (e_fl e) (map smp (e_args e ++ [EObj u])) (smp (vtest P (e_val e) u))
                                                   (tr (e_cond e)) (e_kind e) (e_vars e) true) us) in
        has_err L = false /\
        acts_of L = if cb then map (img1 {| ae_key := (e_fl e, vs); ae_kind := e_kind e; ae_val := VObj w |}) us else []).
      { induction us as [|u us IH]; intros Hin; cbv zeta.
        - destruct cb; split; reflexivity.
        - cbn [flat_map]. rewrite map_app, has_err_app, acts_of_app.
          destruct (IH (fun x Hx => Hin x (or_intror Hx))) as [IH1 IH2]. cbv zeta in IH1, IH2. rewrite IH1, IH2.
          assert (Hu : In u (objs I t)) by (rewrite Ho; apply Hin; left; reflexivity).
          assert (Eau : evals_l false I' (map smp (e_args e ++ [EObj u])) = Some (vs ++ [VObj u])).
          { rewrite map_app, evals_l_app, Ea'. cbn [map evals_l]. rewrite Hsmp. reflexivity. }
          assert (Evu : eval false (smp (vtest P (e_val e) u)) I' = Some (VBool (w =? u)%N))
            by (rewrite Hsmp; apply (vtest_eval I I' _ u t w HR Hvf Hv Hu)).
          destruct (split_eff_res smp Hsmp I' (e_fl e) _ _ _ (e_kind e) (e_vars e) true _ cb _ Eau Htr Evu
                      (fun _ => ex_intro _ _ eq_refl)) as [S1 S2].
          cbv zeta in S1, S2. rewrite S1, S2. destruct cb; split; reflexivity. }
      destruct (Gen (objs_of P t) (incl_refl _)) as [G1 G2]. cbv zeta in G1, G2.
      split; [exact G1|]. split; [|rewrite E0; destruct cb; reflexivity].
      rewrite G2, E0. destruct cb; [|reflexivity]. unfold acts_of. cbn [flat_map app].
      unfold img. cbn [ae_key fst]. rewrite Et, app_nil_r. reflexivity.
    - assert (Ev' : eval false (smp (e_val e)) I' = Some v)
        by (rewrite Hsmp, (eval_uclean ot false _ I I' HR Hf3); exact Hv).
      destruct (split_eff_res smp Hsmp I' (e_fl e) _ _ _ (e_kind e) (e_vars e) (e_isbool e) _ cb _ Ea' Htr Ev') as [S1 S2].
      { intros Hb. rewrite Hb in Hty. exact Hty. }
      cbv zeta in S1, S2. split; [exact S1|]. split; [|rewrite E0; destruct cb; reflexivity].
      rewrite S2, E0. destruct cb; [|reflexivity]. unfold acts_of. cbn [flat_map app].
      unfold img. cbn [ae_key fst]. rewrite Et. reflexivity.
  Qed.
End UEffect.

(* ------------------------------------------------------------------ effect lists *)
Section UEffects.
  Variable tr : expr -> expr.
  Variable smp : expr -> expr.
  Variable P : problem.
  Notation ot := (otype P).
  Hypothesis Hsmp : smp_exact smp.

  Lemma split_eff_vars f args v c k vars isb x : In x (split_eff smp f args v c k vars isb) -> e_vars x = vars.
  Proof.
    unfold split_eff. destruct (isb && negb (is_bconst v)).
    - intros H. apply in_app_or in H. destruct H as [H|H].
      + destruct (is_false (cond_and smp c v)); [destruct H | destruct H as [<-|[]]; reflexivity].
      + destruct (is_false (cond_and smp c (mkNot v))); [destruct H | destruct H as [<-|[]]; reflexivity].
    - destruct (is_false (cond_only smp c)); [intros [] | intros [<-|[]]; reflexivity].
  Qed.

  Lemma u_effect_vars e x : In x (u_effect tr smp P e) -> e_vars x = e_vars e.
  Proof.
    unfold u_effect. cbv zeta. destruct (ot (e_fl e)).
    - intros H. apply in_flat_map in H. destruct H as [u [_ H]]. apply split_eff_vars in H. exact H.
    - apply split_eff_vars.
  Qed.

  Lemma eres_novars I effs : (forall e, In e effs -> e_vars e = []) ->
    eres_of I effs = map (fun e => eval_effect false I e) effs.
  Proof.
    induction effs as [|e l IH]; intros H; [reflexivity|]. rewrite eres_of_cons, IH by (intros x Hx; apply H; right; exact Hx).
    unfold piece. rewrite (H e (or_introl eq_refl)). reflexivity.
  Qed.

  Lemma eff_flat_novars e : eff_flat P e = true -> e_vars e = [].
  Proof.
    unfold eff_flat. intros H. apply andb_true_iff in H. destruct H as [H _]. apply andb_true_iff in H.
    destruct H as [_ H]. destruct (e_vars e); [reflexivity | discriminate].
  Qed.

  Lemma u_effects_res I I' effs : urel_interp ot I I' -> objs I = objs_of P ->
    (forall e, In e effs -> eff_flat P e = true /\ eff_defined P I e /\
                            eval false (tr (e_cond e)) I' = eval false (e_cond e) I) ->
    has_err (eres_of I effs) = false /\ has_err (eres_of I' (u_effects tr smp P effs)) = false /\
    acts_of (eres_of I' (u_effects tr smp P effs)) = flat_map (img P) (acts_of (eres_of I effs)).
  Proof.
    intros HR Ho H.
    rewrite (eres_novars I effs) by (intros e He; apply eff_flat_novars, (H e He)).
    rewrite (eres_novars I' (u_effects tr smp P effs)).
    2:{ intros x Hx. unfold u_effects in Hx. apply in_flat_map in Hx. destruct Hx as [e [He Hx]].
        rewrite (u_effect_vars e x Hx). apply eff_flat_novars, (H e He). }
    induction effs as [|e l IH]; [repeat split; reflexivity|].
    destruct (H e (or_introl eq_refl)) as (Hf & Hd & Ht).
    destruct (u_effect_res tr smp P Hsmp I I' e HR Ho Hf Hd Ht) as (R1 & R2 & R3). cbv zeta in R1, R2.
    destruct (IH (fun x Hx => H x (or_intror Hx))) as (I1 & I2 & I3).
    unfold u_effects in *. cbn [flat_map map]. rewrite map_app, !has_err_app, acts_of_app, R1, R2, I2, I3.
    change (eval_effect false I e :: map (fun e0 => eval_effect false I e0) l)
      with ([eval_effect false I e] ++ map (fun e0 => eval_effect false I e0) l).
    rewrite has_err_app, acts_of_app, flat_map_app, I1. cbn [has_err existsb]. rewrite R3. repeat split; reflexivity.
  Qed.
End UEffects.

(* ------------------------------------------------------------------ the successor states *)
Lemma existsb_vtrue_const A b : A <> [] -> (forall y, In y A -> y = VBool b) -> existsb is_vtrue A = b.
Proof.
  intros Hne H. destruct b.
  - destruct A as [|y A]; [contradiction|]. cbn [existsb]. rewrite (H y (or_introl eq_refl)). reflexivity.
  - induction A as [|y A IH]; [contradiction|]. cbn [existsb]. rewrite (H y (or_introl eq_refl)). cbn [is_vtrue orb].
    destruct A as [|z A']; [reflexivity|]. apply IH; [discriminate|]. intros w Hw. apply H. right; exact Hw.
Qed.

Lemma forallb_const {A} (p : A -> bool) l : (forall x, In x l -> p x = true) -> forallb p l = true.
Proof. intros H. apply forallb_forall. exact H. Qed.

Section USucc.
  Variable tr : expr -> expr.
  Variable smp : expr -> expr.
  Variable P : problem.
  Notation ot := (otype P).
  Notation P' := (utfr_compile tr smp P).
  Hypothesis Hdecl : decls_ok P = true.

  Lemma ot_in f t : ot f = Some t -> exists fd, In fd (p_fluents P) /\ fd_id fd = f /\ fd_ty fd = FObj t.
  Proof.
    unfold otype, olist. intros H. apply lookupN_In in H. apply in_flat_map in H. destruct H as [fd [Hfd H]].
    exists fd. destruct (fd_ty fd) eqn:E; [destruct H | destruct H | destruct H as [H|[]]; inversion H; subst; auto].
  Qed.

  Lemma ot_none_in f fd : ot f = None -> In fd (p_fluents P) -> fd_id fd = f -> forall t, fd_ty fd <> FObj t.
  Proof.
    intros Hn Hfd Hid t Ht. unfold otype in Hn.
    assert (Hin : In (f, t) (olist P)).
    { unfold olist. apply in_flat_map. exists fd. split; [exact Hfd|]. rewrite Ht, Hid. left; reflexivity. }
    clear -Hn Hin. induction (olist P) as [|[k v] l IH]; [destruct Hin|]. cbn [lookupN] in Hn.
    destruct (f =? k)%N eqn:E; [discriminate|]. destruct Hin as [Hin|Hin]; [inversion Hin; subst; rewrite N.eqb_refl in E; discriminate|].
    apply IH; assumption.
  Qed.

  Lemma isb_obj' f t : ot f = Some t -> is_bool_fluent P' f = true.
  Proof.
    intros H. destruct (ot_in f t H) as (fd & Hfd & Hid & Hty). unfold is_bool_fluent. cbn [utfr_compile p_fluents].
    apply existsb_exists. exists (u_fd fd). split; [apply in_map; exact Hfd|]. unfold u_fd. rewrite Hty. cbn [fd_id fd_ty].
    rewrite Hid, N.eqb_refl. reflexivity.
  Qed.

  Lemma isb_obj f t : ot f = Some t -> is_bool_fluent P f = false.
  Proof.
    intros H. destruct (ot_in f t H) as (fd & Hfd & Hid & Hty). unfold decls_ok in Hdecl.
    rewrite forallb_forall in Hdecl. specialize (Hdecl fd Hfd). rewrite Hty, Hid in Hdecl.
    apply negb_true_iff in Hdecl. exact Hdecl.
  Qed.

  Lemma isb_other g : ot g = None -> is_bool_fluent P' g = is_bool_fluent P g.
  Proof.
    intros H. unfold is_bool_fluent. cbn [utfr_compile p_fluents].
    assert (G : forall l, incl l (p_fluents P) ->
      existsb (fun fd => (fd_id fd =? g)%N && match fd_ty fd with FBool => true | _ => false end) (map u_fd l) =
      existsb (fun fd => (fd_id fd =? g)%N && match fd_ty fd with FBool => true | _ => false end) l).
    { induction l as [|fd l IH]; intros Hin; [reflexivity|]. cbn [map existsb].
      rewrite IH by (intros x Hx; apply Hin; right; exact Hx). f_equal.
      unfold u_fd. destruct (fd_ty fd) as [|lo hi|ty] eqn:Ety; [rewrite ?Ety; reflexivity | rewrite ?Ety; reflexivity |]. cbn [fd_id fd_ty]. rewrite ?Ety.
      destruct (fd_id fd =? g)%N eqn:E; [|reflexivity]. apply N.eqb_eq in E.
      exfalso. exact (ot_none_in g fd H (Hin fd (or_introl eq_refl)) E ty Ety). }
    apply G, incl_refl.
  Qed.

  Variable acts : list aeff.
  (* the fired assignments on object fluents are assignments of objects of the fluent's type *)
  Hypothesis Htyped : forall x t, In x acts -> ot (fst (ae_key x)) = Some t ->
    is_assign x = true /\ exists w, ae_val x = VObj w /\ In w (objs_of P t).
  Hypothesis Hone : forall f t a v1 v2, ot f = Some t ->
    In v1 (avals (f, a) acts) -> In v2 (avals (f, a) acts) -> v1 = v2.

  Notation acts' := (flat_map (img P) acts).

  Lemma img_key_other x y g : In y (img P x) -> ot g = None -> fst (ae_key y) = g -> y = x.
  Proof.
    unfold img. destruct (ot (fst (ae_key x))) eqn:E.
    - intros H Hg Hk. apply in_map_iff in H. destruct H as [u [<- _]]. cbn [img1 ae_key fst] in Hk. congruence.
    - intros [<-|[]] _ _. reflexivity.
  Qed.

  Lemma filter_img_other (p : aeff -> bool) g a l :
    ot g = None ->
    filter (fun x => gfl_eqb (ae_key x) (g, a) && p x) (flat_map (img P) l) =
    filter (fun x => gfl_eqb (ae_key x) (g, a) && p x) l.
  Proof.
    intros Hg. induction l as [|x l IH]; [reflexivity|]. cbn [flat_map]. rewrite filter_app, IH. cbn [filter].
    unfold img. destruct (ot (fst (ae_key x))) eqn:E.
    - assert (N1 : gfl_eqb (ae_key x) (g, a) = false).
      { destruct (gfl_eqb (ae_key x) (g, a)) eqn:K; [|reflexivity]. apply gfl_eqb_eq in K. rewrite K in E. cbn in E. congruence. }
      rewrite N1. cbn [andb]. rewrite (filter_none _ (map (img1 x) (objs_of P n))); [reflexivity|].
      intros y Hy. apply in_map_iff in Hy. destruct Hy as [u [<- _]].
      destruct (gfl_eqb (ae_key (img1 x u)) (g, a)) eqn:K; [|reflexivity]. apply gfl_eqb_eq in K.
      cbn [img1 ae_key] in K. inversion K. congruence.
    - cbn [filter app]. destruct (gfl_eqb (ae_key x) (g, a) && p x); reflexivity.
  Qed.

  Lemma avals_other g a : ot g = None -> avals (g, a) acts' = avals (g, a) acts.
  Proof. intros H. unfold avals. rewrite (filter_img_other is_assign g a acts H). reflexivity. Qed.

  Lemma deltas_other g a : ot g = None -> deltas (g, a) acts' = deltas (g, a) acts.
  Proof. intros H. unfold deltas. rewrite (filter_img_other (fun x => negb (is_assign x)) g a acts H). reflexivity. Qed.

  Lemma deltas_obj f t a : ot f = Some t -> deltas (f, a) acts = [].
  Proof.
    intros H. unfold deltas. rewrite filter_none; [reflexivity|]. intros x Hx.
    destruct (gfl_eqb (ae_key x) (f, a)) eqn:K; [|reflexivity]. apply gfl_eqb_eq in K.
    destruct (Htyped x t Hx) as [Ha _]; [rewrite K; exact H|]. rewrite Ha. reflexivity.
  Qed.

  Lemma in_acts' y : In y acts' <-> exists x, In x acts /\ In y (img P x).
  Proof. apply in_flat_map. Qed.

  Lemma deltas_obj' f t a : ot f = Some t -> deltas (f, a) acts' = [].
  Proof.
    intros H. unfold deltas. rewrite filter_none; [reflexivity|]. intros y Hy.
    destruct (gfl_eqb (ae_key y) (f, a)) eqn:K; [|reflexivity]. apply gfl_eqb_eq in K. cbn [andb].
    apply in_acts' in Hy. destruct Hy as [x [Hx Hy]]. unfold img in Hy.
    destruct (ot (fst (ae_key x))) as [t0|] eqn:E.
    - apply in_map_iff in Hy. destruct Hy as [u [<- _]]. destruct (Htyped x t0 Hx E) as [Ha _].
      unfold is_assign in *. cbn [img1 ae_kind]. rewrite Ha. reflexivity.
    - destruct Hy as [<-|[]]. rewrite K in E. cbn in E. congruence.
  Qed.

  (* the assignments on the encoding o(a, u) are the images of the assignments on o(a) *)
  Lemma in_avals' f t a u v : ot f = Some t ->
    (In v (avals (f, a ++ [VObj u]) acts') <->
     In u (objs_of P t) /\ exists w, In (VObj w) (avals (f, a) acts) /\ v = VBool (w =? u)%N).
  Proof.
    intros H. rewrite in_avals. split.
    - intros (y & Hy & Hk & Ha & Hv). apply gfl_eqb_eq in Hk. apply in_acts' in Hy. destruct Hy as [x [Hx Hy]].
      unfold img in Hy. destruct (ot (fst (ae_key x))) as [t0|] eqn:E.
      + apply in_map_iff in Hy. destruct Hy as [u0 [<- Hu0]]. cbn [img1 ae_key ae_val] in *.
        inversion Hk as [[Kf Ka]]. apply app_inj_tail in Ka. destruct Ka as [Ka Ku]. inversion Ku; subst u0.
        rewrite Kf in E. rewrite H in E. inversion E; subst t0. split; [exact Hu0|].
        destruct (Htyped x t Hx) as [Has [w [Hw _]]]; [rewrite Kf; exact H|].
        exists w. split; [|rewrite <- Hv, Hw; reflexivity].
        apply in_avals. exists x. repeat split; auto. apply gfl_eqb_eq. destruct (ae_key x); cbn in *; subst; reflexivity.
      + destruct Hy as [<-|[]]. rewrite Hk in E. cbn in E. congruence.
    - intros (Hu & w & Hw & ->). apply in_avals in Hw. destruct Hw as (x & Hx & Hk & Ha & Hv). apply gfl_eqb_eq in Hk.
      exists (img1 x u). split; [|split; [|split]].
      + apply in_acts'. exists x. split; [exact Hx|]. unfold img. rewrite Hk. cbn [fst]. rewrite H. apply in_map. exact Hu.
      + apply gfl_eqb_eq. cbn [img1 ae_key]. rewrite Hk. reflexivity.
      + unfold is_assign in *. cbn [img1 ae_kind]. exact Ha.
      + cbn [img1 ae_val]. rewrite Hv. reflexivity.
  Qed.

  Lemma avals_obj_shape f t a : ot f = Some t ->
    avals (f, a) acts = [] \/
    exists w, In w (objs_of P t) /\ avals (f, a) acts <> [] /\ (forall v, In v (avals (f, a) acts) -> v = VObj w).
  Proof.
    intros H. destruct (avals (f, a) acts) as [|v0 A] eqn:EA; [left; reflexivity|]. right.
    assert (H0 : In v0 (avals (f, a) acts)) by (rewrite EA; left; reflexivity).
    pose proof H0 as H0'. apply in_avals in H0'. destruct H0' as (x & Hx & Hk & _ & Hv). apply gfl_eqb_eq in Hk.
    destruct (Htyped x t Hx) as [_ [w [Hw Hin]]]; [rewrite Hk; exact H|].
    exists w. split; [exact Hin|]. split; [discriminate|]. intros v Hv'. rewrite <- EA in Hv'.
    rewrite (Hone f t a v v0 H Hv' H0), <- Hv, Hw. reflexivity.
  Qed.

  Lemma spec_fluent_obj f t a : ot f = Some t -> forall s,
    spec_fluent P s acts (f, a) =
    match avals (f, a) acts with [] => CUnchanged | v :: _ => CVal v end.
  Proof.
    intros H s. unfold spec_fluent. cbn [fst snd]. rewrite (isb_obj f t H), (deltas_obj f t a H).
    destruct (avals_obj_shape f t a H) as [->|(w & _ & _ & Hall)]; [reflexivity|].
    destruct (avals (f, a) acts) as [|v0 A]; [reflexivity|]. cbn [combine].
    rewrite forallb_const; [reflexivity|]. intros y Hy.
    rewrite (Hall v0 (or_introl eq_refl)), (Hall y (or_intror Hy)). apply value_eqb_refl.
  Qed.

  Lemma spec_fluent_obj' f t k s' : ot f = Some t -> fst k = f ->
    spec_fluent P' s' acts' k =
    match avals k acts' with [] => CUnchanged | _ :: _ => CVal (VBool (existsb is_vtrue (avals k acts'))) end.
  Proof.
    intros H Hk. unfold spec_fluent. rewrite Hk, (isb_obj' f t H). destruct k as [f0 a0]. cbn [fst] in Hk. subst f0.
    rewrite (deltas_obj' f t a0 H). destruct (avals (f, a0) acts'); reflexivity.
  Qed.

  Lemma spec_fluent_other g a s s' : ot g = None -> s' g a = s g a ->
    spec_fluent P' s' acts' (g, a) = spec_fluent P s acts (g, a).
  Proof.
    intros H Hs. unfold spec_fluent. cbn [fst snd]. rewrite (isb_other g H), Hs, (avals_other g a H), (deltas_other g a H).
    reflexivity.
  Qed.

  Variables s s' : state.
  Hypothesis Hrel : utfr_rel P s s'.

  Lemma succ_rel : utfr_rel P (spec_succ P s acts) (spec_succ P' s' acts').
  Proof.
    destruct Hrel as [R1 R2]. split.
    - intros g a Hg. unfold spec_succ. rewrite (spec_fluent_other g a s s' Hg (R1 g a Hg)), (R1 g a Hg). reflexivity.
    - intros f t a Hf. unfold spec_succ. rewrite (spec_fluent_obj f t a Hf s).
      destruct (avals_obj_shape f t a Hf) as [E|(w & Hw & Hne & Hall)].
      + rewrite E. specialize (R2 f t a Hf).
        assert (U : forall u, spec_fluent P' s' acts' (f, a ++ [VObj u]) = CUnchanged).
        { intros u. rewrite (spec_fluent_obj' f t (f, a ++ [VObj u]) s' Hf eq_refl).
          destruct (avals (f, a ++ [VObj u]) acts') as [|v A] eqn:EA; [reflexivity|].
          assert (Hv : In v (avals (f, a ++ [VObj u]) acts')) by (rewrite EA; left; reflexivity).
          apply (in_avals' f t a u v Hf) in Hv. destruct Hv as (_ & w & Hw & _). rewrite E in Hw. destruct Hw. }
        destruct (s f a) as [[| |c]|]; try exact R2.
        * destruct R2 as [Hc R2]. split; [exact Hc|]. intros u Hu. rewrite U. apply R2, Hu.
        * intros u Hu. rewrite U. apply R2, Hu.
      + destruct (avals (f, a) acts) as [|v0 A] eqn:EA; [contradiction|].
        rewrite (Hall v0 (or_introl eq_refl)). split; [exact Hw|]. intros u Hu.
        rewrite (spec_fluent_obj' f t (f, a ++ [VObj u]) s' Hf eq_refl).
        assert (Hin : In (VBool (w =? u)%N) (avals (f, a ++ [VObj u]) acts')).
        { apply (in_avals' f t a u _ Hf). split; [exact Hu|]. exists w. split; [|reflexivity].
          rewrite EA. left. apply Hall. left; reflexivity. }
        destruct (avals (f, a ++ [VObj u]) acts') as [|y A'] eqn:EA'; [destruct Hin|].
        rewrite (existsb_vtrue_const (y :: A') (w =? u)%N); [reflexivity | discriminate|].
        intros z Hz. rewrite <- EA' in Hz. apply (in_avals' f t a u z Hf) in Hz. destruct Hz as (_ & w' & Hw' & ->).
        rewrite EA in Hw'. specialize (Hall _ Hw'). inversion Hall. reflexivity.
  Qed.

  Lemma effects_ok_eq : spec_effects_ok P' s' acts' = spec_effects_ok P s acts.
  Proof.
    destruct Hrel as [R1 _]. unfold spec_effects_ok.
    assert (G : forall l, incl l acts ->
      forallb (fun a => match spec_fluent P' s' acts' (ae_key a) with CFail => false | _ => true end) (flat_map (img P) l) =
      forallb (fun a => match spec_fluent P s acts (ae_key a) with CFail => false | _ => true end) l).
    { induction l as [|x l IH]; intros Hin; [reflexivity|]. cbn [flat_map forallb]. rewrite forallb_app, IH by (intros z Hz; apply Hin; right; exact Hz).
      f_equal. assert (Ei : img P x = match ot (fst (ae_key x)) with Some t => map (img1 x) (objs_of P t) | None => [x] end)
        by reflexivity. rewrite Ei. clear Ei. destruct (ot (fst (ae_key x))) as [t|] eqn:E.
      - destruct (ae_key x) as [f a] eqn:K. cbn [fst] in E. rewrite (spec_fluent_obj f t a E s).
        replace (match match avals (f, a) acts with [] => CUnchanged | v :: _ => CVal v end with CFail => false | _ => true end)
          with true by (destruct (avals (f, a) acts); reflexivity).
        apply forallb_const. intros y Hy. apply in_map_iff in Hy. destruct Hy as [u [<- _]].
        rewrite (spec_fluent_obj' f t _ s' E) by (cbn [img1 ae_key fst]; rewrite K; reflexivity).
        destruct (avals (ae_key (img1 x u)) acts'); reflexivity.
      - cbn [forallb]. rewrite andb_true_r. destruct (ae_key x) as [g a] eqn:K. cbn [fst] in E.
        rewrite (spec_fluent_other g a s s' E (R1 g a E)). reflexivity. }
    apply G, incl_refl.
  Qed.
End USucc.

(* ------------------------------------------------------------------ steps and plans *)
Lemma all_hold_map2 I I' (f : expr -> expr) l :
  (forall x, In x l -> eval false (f x) I' = eval false x I) -> all_hold false I' (map f l) = all_hold false I l.
Proof.
  induction l as [|x l IH]; intros H; [reflexivity|]. cbn [map].
  change (all_hold false I' (f x :: map f l)) with (holds false I' (f x) && all_hold false I' (map f l)).
  change (all_hold false I (x :: l)) with (holds false I x && all_hold false I l).
  unfold holds at 1 2. rewrite (H x (or_introl eq_refl)), IH; [reflexivity|]. intros y Hy. apply H. right; exact Hy.
Qed.

Lemma all_hold_filter_true I l : all_hold false I (filter (fun i => negb (is_true i)) l) = all_hold false I l.
Proof.
  induction l as [|x l IH]; [reflexivity|]. cbn [filter]. destruct (is_true x) eqn:E; cbn [negb].
  - change (all_hold false I (x :: l)) with (holds false I x && all_hold false I l).
    rewrite (holds_true false I x E), IH. reflexivity.
  - change (all_hold false I (x :: filter (fun i => negb (is_true i)) l))
      with (holds false I x && all_hold false I (filter (fun i => negb (is_true i)) l)).
    rewrite IH. reflexivity.
Qed.

Lemma all_hold_same I I' l : (forall x, In x l -> eval false x I' = eval false x I) -> all_hold false I' l = all_hold false I l.
Proof. intros H. rewrite <- (map_id l) at 1. apply all_hold_map2. exact H. Qed.

Section UPlan.
  Variable tr : expr -> expr.
  Variable smp : expr -> expr.
  Variable P : problem.
  Variable G : state -> Prop.
  Notation ot := (otype P).
  Notation P' := (utfr_compile tr smp P).
  Hypothesis Hsmp : smp_exact smp.
  Hypothesis Hwf : utfr_wf tr smp P = true.
  Hypothesis Htr : tr_ok tr P.
  Hypothesis Hdef : effects_defined P G.
  Hypothesis Hone : one_value P G.
  Hypothesis Hcl : closed P G.
  Hypothesis Hid : unique_ids P.

  Lemma wf_decl : decls_ok P = true.
  Proof. unfold utfr_wf in Hwf. apply andb_true_iff in Hwf. tauto. Qed.

  Lemma wf_action i a : In (i, a) (p_actions P) ->
    (forall e, In e (a_effs a) -> eff_flat P e = true) /\ exists a', u_action tr smp P a = Some a'.
  Proof.
    intros H. unfold utfr_wf in Hwf. apply andb_true_iff in Hwf. destruct Hwf as [_ H2].
    rewrite forallb_forall in H2. specialize (H2 _ H). cbn [snd] in H2. apply andb_true_iff in H2. destruct H2 as [F1 F2].
    split; [rewrite forallb_forall in F1; exact F1|]. destruct (u_action tr smp P a) as [a'|]; [eexists; reflexivity | discriminate].
  Qed.

  Lemma rel_mk s s' pars : utfr_rel P s s' -> urel_interp ot (mk_interp P s pars) (mk_interp P' s' pars).
  Proof. intros [H1 H2]. repeat split; cbn [mk_interp fl par var ifun objs]; auto. Qed.

  Lemma in_conds_pre i a x : In (i, a) (p_actions P) -> In x (a_pre a) -> In x (conds_of_u P).
  Proof.
    intros Ha Hx. unfold conds_of_u. apply in_or_app. left. apply in_flat_map. exists (i, a). split; [exact Ha|].
    apply in_or_app. left. exact Hx.
  Qed.
  Lemma in_conds_eff i a e : In (i, a) (p_actions P) -> In e (a_effs a) -> In (e_cond e) (conds_of_u P).
  Proof.
    intros Ha Hx. unfold conds_of_u. apply in_or_app. left. apply in_flat_map. exists (i, a). split; [exact Ha|].
    apply in_or_app. right. apply in_map. exact Hx.
  Qed.

  (* bounded types: numeric fluents are untouched *)
  Lemma bound_invs_u : bound_invs P' = bound_invs P.
  Proof.
    unfold bound_invs. cbn [utfr_compile p_fluents]. induction (p_fluents P) as [|fd l IH]; [reflexivity|].
    cbn [map flat_map]. rewrite IH. f_equal. unfold u_fd. destruct (fd_ty fd) as [|lo hi|ty] eqn:E; rewrite ?E; try reflexivity.
    rewrite (arg_tuples_objs P P' (fd_sig fd) eq_refl). reflexivity.
  Qed.

  Lemma uclean_value_expr v : uclean ot (value_expr v) = true.
  Proof. destruct v; try reflexivity. cbn [value_expr]. unfold num_node. destruct (_ =? _)%Z; reflexivity. Qed.

  Lemma bound_invs_clean x : In x (bound_invs P) -> uclean ot x = true.
  Proof.
    pose proof wf_decl as Hd. unfold decls_ok in Hd. rewrite forallb_forall in Hd.
    unfold bound_invs. intros H. apply in_flat_map in H. destruct H as [fd [Hfd H]]. specialize (Hd fd Hfd).
    destruct (fd_ty fd) as [|lo hi|ty] eqn:E; try destruct H. apply in_flat_map in H. destruct H as [a [_ H]].
    destruct (ot (fd_id fd)) eqn:Eo; [discriminate|].
    assert (Cf : uclean ot (EFluent (fd_id fd) (map value_expr a)) = true).
    { cbn [uclean]. rewrite Eo. apply forallb_forall. intros y Hy. apply in_map_iff in Hy. destruct Hy as [v [<- _]].
      apply uclean_value_expr. }
    assert (Cn : forall q, uclean ot (num_node q) = true) by (intros q; unfold num_node; destruct (_ =? _)%Z; reflexivity).
    apply in_app_or in H. destruct H as [H|H].
    - destruct lo; [|destruct H]. destruct H as [<-|[]]. cbn [uclean]. fold (uclean ot). rewrite Cn. exact Cf.
    - destruct hi; [|destruct H]. destruct H as [<-|[]]. cbn [uclean]. fold (uclean ot). rewrite Cn, andb_true_r. exact Cf.
  Qed.

  Lemma invariants_rel t t' : utfr_rel P t t' -> invariants_ok false P' t' = invariants_ok false P t.
  Proof.
    intros HR. pose proof (rel_mk t t' [] HR) as HI. unfold invariants_ok. rewrite bound_invs_u, !all_hold_app.
    cbn [utfr_compile p_invs]. rewrite all_hold_filter_true. f_equal.
    - apply all_hold_map2. intros x Hx. apply Htr; [|exact HI|reflexivity]. unfold conds_of_u. apply in_or_app. right. apply in_or_app. right. exact Hx.
    - apply all_hold_same. intros x Hx. apply (eval_uclean ot false x _ _ HI), bound_invs_clean, Hx.
  Qed.

  Lemma goals_rel t t' : utfr_rel P t t' -> goals_hold false P' t' = goals_hold false P t.
  Proof.
    intros HR. pose proof (rel_mk t t' [] HR) as HI. unfold goals_hold. cbn [utfr_compile p_goals]. unfold add_goals.
    rewrite all_hold_filter_true. apply all_hold_map2. intros x Hx. apply Htr; [|exact HI|reflexivity].
    unfold conds_of_u. apply in_or_app. right. apply in_or_app. left. exact Hx.
  Qed.

  Definition step_rel (o o' : option state) : Prop :=
    match o, o' with Some t, Some t' => utfr_rel P t t' | None, None => True | _, _ => False end.

  Lemma u_step s s' i a a' args : G s -> utfr_rel P s s' -> In (i, a) (p_actions P) -> u_action tr smp P a = Some a' ->
    step_rel (spec_step false P s a args) (spec_step false P' s' a' args).
  Proof.
    intros HG HR Hin Hua. destruct (wf_action i a Hin) as [Hflat _].
    unfold u_action in Hua. destruct (add_effs_ok [] [] (u_effects tr smp P (a_effs a))); [|discriminate].
    inversion Hua; subst a'; clear Hua. rewrite !spec_step_unfold. cbn [a_params a_pre a_effs]. cbv zeta.
    set (I := mk_interp P s (zip_params (a_params a) args)). set (I' := mk_interp P' s' (zip_params (a_params a) args)).
    pose proof (rel_mk s s' (zip_params (a_params a) args) HR) as HI. fold I I' in HI.
    rewrite all_hold_add_pres, (all_hold_map2 I I' tr (a_pre a))
      by (intros x Hx; apply Htr; [apply (in_conds_pre i a x Hin Hx) | exact HI | reflexivity]).
    destruct (all_hold false I (a_pre a)) eqn:Epre; cbn [negb]; [|exact Logic.I].
    destruct (u_effects_res tr smp P Hsmp I I' (a_effs a) HI eq_refl) as (E1 & E2 & E3).
    { intros e He. split; [apply Hflat, He|]. split; [apply (Hdef s i a args e HG Hin He Epre)|].
      apply Htr; [apply (in_conds_eff i a e Hin He) | exact HI | reflexivity]. }
    unfold finish_step. rewrite !collect_res_spec, E1, E2, E3.
    set (acts := acts_of (eres_of I (a_effs a))).
    assert (Hfired : fired false I (a_effs a) = Some acts).
    { change (fired false I (a_effs a)) with (collect_res (eres_of I (a_effs a))). rewrite collect_res_spec, E1. reflexivity. }
    assert (Htyped : forall x t, In x acts -> ot (fst (ae_key x)) = Some t ->
              is_assign x = true /\ exists w, ae_val x = VObj w /\ In w (objs_of P t)).
    { intros x t Hx Ht. unfold acts in Hx.
      rewrite (eres_novars I (a_effs a)) in Hx by (intros e He; apply (eff_flat_novars P), Hflat, He).
      apply in_acts_of in Hx. apply in_map_iff in Hx. destruct Hx as [e [Ee He]].
      destruct (Hdef s i a args e HG Hin He Epre) as ((vs & Ha) & (cb & Hc) & (v & Hv & Hty)). fold I in Ha, Hc, Hv, Hty.
      unfold eval_effect in Ee. rewrite Ha, Hc in Ee. destruct cb; [|discriminate]. rewrite Hv in Ee.
      inversion Ee; subst x; clear Ee. cbn [ae_key fst ae_val] in *. rewrite Ht in Hty.
      split; [|exact Hty]. specialize (Hflat e He). unfold eff_flat in Hflat. rewrite Ht in Hflat.
      apply andb_true_iff in Hflat. destruct Hflat as [_ Hk]. apply andb_true_iff in Hk. destruct Hk as [Hk _].
      unfold is_assign, is_kassign in *. cbn [ae_kind]. exact Hk. }
    assert (Hone' : forall f t x v1 v2, ot f = Some t -> In v1 (avals (f, x) acts) -> In v2 (avals (f, x) acts) -> v1 = v2).
    { intros f t x v1 v2 Hf. apply (Hone s i a args acts f t x v1 v2 HG Hin Hfired Hf). }
    rewrite (effects_ok_eq tr smp P wf_decl acts Htyped Hone' s s' HR).
    destruct (negb (spec_effects_ok P s acts)); [exact Logic.I|]. cbv zeta.
    pose proof (succ_rel tr smp P wf_decl acts Htyped Hone' s s' HR) as HS.
    rewrite (invariants_rel _ _ HS). destruct (invariants_ok false P (spec_succ P s acts)); [exact HS | exact Logic.I].
  Qed.

  Lemma lookup_u aid : lookup_action P' aid =
    match lookup_action P aid with Some a => u_action tr smp P a | None => None end.
  Proof. unfold lookup_action. cbn [utfr_compile p_actions]. apply lookup_map_actions. exact Hid. Qed.

  Theorem u_run pi : forall s s', G s -> utfr_rel P s s' ->
    step_rel (run P (spec_step false P) s pi) (run P' (spec_step false P') s' pi).
  Proof.
    induction pi as [|[aid args] pi IH]; intros s s' HG HR; [exact HR|]. cbn [run]. rewrite lookup_u.
    destruct (lookup_action P aid) as [a|] eqn:EL; [|exact Logic.I].
    assert (Hin : In (aid, a) (p_actions P)) by (apply lookupN_In; exact EL).
    destruct (wf_action aid a Hin) as [_ [a' Ea]]. rewrite Ea.
    pose proof (u_step s s' aid a a' args HG HR Hin Ea) as HS. unfold step_rel in HS.
    destruct (spec_step false P s a args) as [t|] eqn:Es, (spec_step false P' s' a' args) as [t'|]; try contradiction;
      [|exact Logic.I].
    apply IH; [apply (Hcl s aid a args t HG EL Es) | exact HS].
  Qed.

  (* the compiled problem accepts exactly the plans of the original (soundness and completeness; the map back of a plan
     is the plan itself: replace_action with the new_to_old dictionary, same names and parameters) *)
  Theorem u_valid_plan s s' pi : G s -> utfr_rel P s s' ->
    valid_plan false P' s' pi = valid_plan false P s pi.
  Proof.
    intros HG HR. unfold valid_plan. pose proof (u_run pi s s' HG HR) as H. unfold step_rel in H.
    destruct (run P (spec_step false P) s pi) as [t|], (run P' (spec_step false P') s' pi) as [t'|]; try contradiction;
      [apply goals_rel; exact H | reflexivity].
  Qed.
End UPlan.

(* ------------------------------------------------------------------ the encoding of a state *)
Lemma split_last_snoc a x : split_last (a ++ [x]) = Some (a, x).
Proof. unfold split_last. rewrite rev_app_distr. cbn [rev app]. rewrite rev_involutive. reflexivity. Qed.

(* the compiled initial values: related to the original ones whenever the object fluents hold objects of their type *)
Lemma enc_rel P s :
  (forall f t a, otype P f = Some t -> match s f a with
                                       | Some (VObj c) => In c (objs_of P t) | Some _ => False | None => True end) ->
  utfr_rel P s (enc_state P s).
Proof.
  intros H. split.
  - intros g a Hg. unfold enc_state. rewrite Hg. reflexivity.
  - intros f t a Hf. specialize (H f t a Hf). unfold enc_state. rewrite Hf.
    destruct (s f a) as [[| |c]|] eqn:E; try contradiction.
    + split; [exact H|]. intros u _. rewrite split_last_snoc, E. reflexivity.
    + intros u _. rewrite split_last_snoc, E. reflexivity.
Qed.

(* the decidable condition "no object fluent symbol is the target of two effects of one action" implies [one_value]
   (on the flat fragment: no forall variables) *)
Lemma in_avals_effect I effs k v : (forall e, In e effs -> e_vars e = []) ->
  In v (avals k (acts_of (eres_of I effs))) ->
  exists e, In e effs /\ e_fl e = fst k /\ exists x, eval_effect false I e = EAct x /\ ae_val x = v.
Proof.
  intros Hv H. apply in_avals in H. destruct H as (x & Hx & Hk & _ & Hval).
  rewrite (eres_novars I effs Hv) in Hx. apply in_acts_of in Hx. apply in_map_iff in Hx. destruct Hx as [e [Ee He]].
  exists e. split; [exact He|]. apply gfl_eqb_eq in Hk. split; [|exists x; split; assumption].
  unfold eval_effect in Ee. destruct (evals_l false I (e_args e)); [|discriminate].
  destruct (eval false (e_cond e) I) as [[[|]| |]|]; try discriminate. destruct (eval false (e_val e) I); [|discriminate].
  inversion Ee; subst x. cbn [ae_key] in Hk. rewrite <- Hk. reflexivity.
Qed.

(* ------------------------------------------------------------------ witnesses *)
Module UtfrWitness.
  Definition oeff (v c : expr) : effect :=
    {| e_fl := 0%N; e_args := []; e_val := v; e_cond := c; e_kind := KAssign; e_vars := []; e_isbool := false |}.
  Definition geff : effect :=
    {| e_fl := 1%N; e_args := []; e_val := EBool true; e_cond := EBool true; e_kind := KAssign; e_vars := []; e_isbool := true |}.
  (* o := 1; if b then o := 2; g := true      (type 0 = {1, 2}; o : type 0, g, b Boolean) *)
  Definition aw : action :=
    {| a_params := []; a_pre := []; a_effs := [oeff (EObj 1%N) (EBool true); oeff (EObj 2%N) (EFluent 2%N []); geff] |}.
  Definition fds : list fdecl :=
    [{| fd_id := 0%N; fd_sig := []; fd_ty := FObj 0%N |}; {| fd_id := 1%N; fd_sig := []; fd_ty := FBool |};
     {| fd_id := 2%N; fd_sig := []; fd_ty := FBool |}].
  Definition Pw : problem :=
    {| p_objs := [(0%N, [1%N; 2%N])]; p_ifun := []; p_fluents := fds; p_actions := [(0%N, aw)];
       p_goals := [EFluent 1%N []]; p_invs := [] |}.
  Definition idf (e : expr) : expr := e.
  Definition sw : state :=
    fun f a => match f with 0%N => Some (VObj 1%N) | 1%N => Some (VBool false) | _ => Some (VBool true) end.
  Definition Pw' : problem := utfr_compile idf idf Pw.
  Definition plan : list (N * list value) := [(0%N, [])].

  (* the sound variant: the second assignment is gone, the first takes its value from the object fluent q (id 3) *)
  Definition qeff : effect :=
    {| e_fl := 0%N; e_args := []; e_val := EFluent 3%N []; e_cond := EFluent 2%N []; e_kind := KAssign; e_vars := [];
       e_isbool := false |}.
  Definition an : action := {| a_params := []; a_pre := [EFluent 2%N []]; a_effs := [qeff; geff] |}.
  Definition Pn : problem :=
    {| p_objs := [(0%N, [1%N; 2%N])]; p_ifun := [];
       p_fluents := fds ++ [{| fd_id := 3%N; fd_sig := []; fd_ty := FObj 0%N |}]; p_actions := [(0%N, an)];
       p_goals := [EFluent 1%N []]; p_invs := [] |}.
  Definition sn : state :=
    fun f a => match f with 0%N => Some (VObj 1%N) | 1%N => Some (VBool false) | 3%N => Some (VObj 2%N)
                       | _ => Some (VBool true) end.
  Definition Gn (s : state) : Prop :=
    (forall a, exists b, s 2%N a = Some (VBool b)) /\ (forall a, exists w, s 3%N a = Some (VObj w) /\ (w = 1 \/ w = 2)%N).
End UtfrWitness.

Lemma utfr_masked_conflict_witness :
  utfr_wf UtfrWitness.idf UtfrWitness.idf UtfrWitness.Pw = true /\
  obj_assigned_once UtfrWitness.Pw = false /\
  utfr_rel UtfrWitness.Pw UtfrWitness.sw (enc_state UtfrWitness.Pw UtfrWitness.sw) /\
  valid_plan false UtfrWitness.Pw' (enc_state UtfrWitness.Pw UtfrWitness.sw) UtfrWitness.plan = true /\
  valid_plan false UtfrWitness.Pw UtfrWitness.sw UtfrWitness.plan = false.
Proof.
  split; [vm_compute; reflexivity|]. split; [vm_compute; reflexivity|]. split; [|split; vm_compute; reflexivity].
  apply enc_rel. intros f t a Hf. unfold otype in Hf. cbn in Hf. destruct (f =? 0)%N eqn:E; [|discriminate].
  apply N.eqb_eq in E. subst f. inversion Hf; subst t. cbn. left; reflexivity.
Qed.

Lemma tr_ok_id P : (forall e, In e (conds_of_u P) -> uclean (otype P) e = true) -> tr_ok (fun e => e) P.
Proof. intros H e He I I' HR _. apply (eval_uclean (otype P) false e I I' HR), H, He. Qed.

Lemma utfr_nonvacuous :
  smp_exact UtfrWitness.idf /\ utfr_wf UtfrWitness.idf UtfrWitness.idf UtfrWitness.Pn = true /\
  tr_ok UtfrWitness.idf UtfrWitness.Pn /\ effects_defined UtfrWitness.Pn UtfrWitness.Gn /\
  one_value UtfrWitness.Pn UtfrWitness.Gn /\ closed UtfrWitness.Pn UtfrWitness.Gn /\ unique_ids UtfrWitness.Pn /\
  UtfrWitness.Gn UtfrWitness.sn /\
  utfr_rel UtfrWitness.Pn UtfrWitness.sn (enc_state UtfrWitness.Pn UtfrWitness.sn) /\
  valid_plan false UtfrWitness.Pn UtfrWitness.sn UtfrWitness.plan = true /\
  valid_plan false (utfr_compile UtfrWitness.idf UtfrWitness.idf UtfrWitness.Pn)
             (enc_state UtfrWitness.Pn UtfrWitness.sn) UtfrWitness.plan = true /\
  length (a_effs (snd (hd (0%N, UtfrWitness.an)
                          (p_actions (utfr_compile UtfrWitness.idf UtfrWitness.idf UtfrWitness.Pn))))) = 5.
Proof.
  split; [intros e I; reflexivity|]. split; [vm_compute; reflexivity|].
  split.
  { apply tr_ok_id. intros e He. vm_compute in He. repeat (destruct He as [<-|He]; [reflexivity|]). destruct He. }
  split.
  { intros s i a args e [Hb Hq] [Hin|[]] He _. inversion Hin; subst i a; clear Hin.
    destruct He as [<-|[<-|[]]].
    - split; [exists []; reflexivity|]. split.
      + destruct (Hb []) as [b Eb]. exists b. cbn. rewrite Eb. reflexivity.
      + destruct (Hq []) as [w [Ew Hw]]. exists (VObj w). split; [cbn; rewrite Ew; reflexivity|].
        cbn. exists w. split; [reflexivity|]. destruct Hw as [->| ->]; [left | right; left]; reflexivity.
    - split; [exists []; reflexivity|]. split; [exists true; reflexivity|]. exists (VBool true). split; [reflexivity|].
      cbn. exists true; reflexivity. }
  split.
  { intros s i a args acts f t x v1 v2 _ [Hin|[]] Hf Hot H1 H2. inversion Hin; subst i a; clear Hin.
    change (fired false ?I ?l) with (collect_res (eres_of I l)) in Hf. rewrite collect_res_spec in Hf.
    destruct (has_err _); [discriminate|]. inversion Hf; subst acts; clear Hf.
    assert (Hv : forall e, In e (a_effs UtfrWitness.an) -> e_vars e = []) by (intros e [<-|[<-|[]]]; reflexivity).
    destruct (in_avals_effect _ _ _ _ Hv H1) as (e1 & He1 & Hk1 & x1 & Ex1 & <-).
    destruct (in_avals_effect _ _ _ _ Hv H2) as (e2 & He2 & Hk2 & x2 & Ex2 & <-). cbn [fst] in Hk1, Hk2.
    assert (E : forall e, In e (a_effs UtfrWitness.an) -> e_fl e = f -> e = UtfrWitness.qeff).
    { intros e [<-|[<-|[]]] Ef; [reflexivity|]. change (1%N = f) in Ef. rewrite <- Ef in Hot. exfalso. clear -Hot. vm_compute in Hot. discriminate Hot. }
    rewrite (E e1 He1 Hk1) in Ex1. rewrite (E e2 He2 Hk2) in Ex2. rewrite Ex1 in Ex2. inversion Ex2. reflexivity. }
  split.
  { intros s aid a args t [Hb Hq] EL Es. unfold lookup_action in EL. cbn in EL. destruct (aid =? 0)%N; [|discriminate].
    inversion EL; subst a; clear EL. rewrite spec_step_eq in Es.
    destruct (negb _); [discriminate|]. destruct (fired _ _ _) as [acts|] eqn:EF; [|discriminate].
    destruct (negb _); [discriminate|]. destruct (invariants_ok _ _ _); [|discriminate]. inversion Es; subst t; clear Es.
    change (fired false ?I ?l) with (collect_res (eres_of I l)) in EF. rewrite collect_res_spec in EF.
    destruct (has_err _); [discriminate|]. inversion EF; subst acts; clear EF.
    assert (K : forall f a, (f = 2 \/ f = 3)%N ->
              spec_succ UtfrWitness.Pn s (acts_of (eres_of (mk_interp UtfrWitness.Pn s (zip_params [] args)) (a_effs UtfrWitness.an))) f a = s f a).
    { intros f a Hfa. unfold spec_succ, spec_fluent.
      assert (A : forall l, (forall x, In x l -> fst (ae_key x) <> f) -> avals (f, a) l = [] /\ deltas (f, a) l = []).
      { intros l Hl. unfold avals, deltas. split; rewrite filter_none; try reflexivity; intros y Hy;
          (destruct (gfl_eqb (ae_key y) (f, a)) eqn:K; [|reflexivity]); apply gfl_eqb_eq in K; exfalso;
          apply (Hl y Hy); rewrite K; reflexivity. }
      destruct (A (acts_of (eres_of (mk_interp UtfrWitness.Pn s (zip_params [] args)) (a_effs UtfrWitness.an)))) as [-> ->]; [|reflexivity].
      intros y Hy. rewrite (eres_novars _ (a_effs UtfrWitness.an)) in Hy by (intros e [<-|[<-|[]]]; reflexivity).
      apply in_acts_of in Hy. apply in_map_iff in Hy. destruct Hy as [e [Ee He]].
      unfold eval_effect in Ee. destruct (evals_l _ _ _); [|discriminate].
      destruct (eval false (e_cond e) _) as [[[|]| |]|]; try discriminate. destruct (eval false (e_val e) _); [|discriminate].
      inversion Ee; subst y. cbn [ae_key fst]. destruct He as [<-|[<-|[]]]; cbn; destruct Hfa as [->| ->]; discriminate. }
    split; intros a; rewrite K; auto. }
  split; [repeat constructor; intros []|].
  split; [split; intros a; [exists true | exists 2%N; split; [|right]]; reflexivity|].
  split.
  { apply enc_rel. intros f t a Hf. unfold otype in Hf. cbn in Hf.
    destruct (f =? 0)%N eqn:E0; [apply N.eqb_eq in E0; subst f; inversion Hf; cbn; left; reflexivity|].
    destruct (f =? 3)%N eqn:E3; [|discriminate]. apply N.eqb_eq in E3; subst f; inversion Hf; cbn. right; left; reflexivity. }
  repeat split; vm_compute; reflexivity.
Qed.

Lemma u_sound tr smp P G :
  smp_exact smp -> utfr_wf tr smp P = true -> tr_ok tr P -> effects_defined P G -> one_value P G -> closed P G ->
  unique_ids P ->
  forall (s s' : state) (pi : list (N * list value)), G s -> utfr_rel P s s' ->
    valid_plan false (utfr_compile tr smp P) s' pi = true -> valid_plan false P s pi = true.
Proof.
  intros H1 H2 H3 H4 H5 H6 H7 s s' pi HG HR H.
  rewrite <- (u_valid_plan tr smp P G H1 H2 H3 H4 H5 H6 H7 s s' pi HG HR). exact H.
Qed.

Lemma u_complete tr smp P G :
  smp_exact smp -> utfr_wf tr smp P = true -> tr_ok tr P -> effects_defined P G -> one_value P G -> closed P G ->
  unique_ids P ->
  forall (s s' : state) (pi : list (N * list value)), G s -> utfr_rel P s s' ->
    valid_plan false P s pi = true -> valid_plan false (utfr_compile tr smp P) s' pi = true.
Proof.
  intros H1 H2 H3 H4 H5 H6 H7 s s' pi HG HR H.
  rewrite (u_valid_plan tr smp P G H1 H2 H3 H4 H5 H6 H7 s s' pi HG HR). exact H.
Qed.

(* ------------------------------------------------------------------ the reference walker [utr] is exact on the flat fragment *)
Lemma q_fold_none_all (g : N -> option bool) l : l <> [] -> (forall x, In x l -> g x = None) ->
  q_fold false true (map g l) = None.
Proof. destruct l as [|x l]; [contradiction|]. intros _ H. cbn [map q_fold]. rewrite (H x (or_introl eq_refl)). reflexivity. Qed.

Lemma q_fold_all_some (b : N -> bool) l : q_fold false true (map (fun u => Some (b u)) l) = Some (existsb b l).
Proof.
  induction l as [|x l IH]; [reflexivity|]. cbn [map q_fold existsb]. rewrite IH.
  destruct (b x); reflexivity.
Qed.

Lemma instances_one I v ty : instances I [(v, ty)] = map (fun o => bind_var I v o) (objs I ty).
Proof. cbn [instances]. induction (objs I ty) as [|o l IH]; [reflexivity|]. cbn [flat_map map app]. rewrite IH. reflexivity. Qed.

Lemma simple_term_bind sc I v u x : simple_term v x = true -> eval sc x (bind_var I v u) = eval sc x I.
Proof.
  destruct x; try discriminate; try reflexivity. cbn [simple_term eval bind_var var]. intros H.
  apply negb_true_iff in H. rewrite H. reflexivity.
Qed.

Lemma simple_term_uclean ot v x : simple_term v x = true -> uclean ot x = true.
Proof. destruct x; try discriminate; reflexivity. Qed.

Lemma evals_l_simple_bind I v u l : forallb (simple_term v) l = true ->
  evals_l false (bind_var I v u) l = evals_l false I l.
Proof.
  induction l as [|x l IH]; intros H; [reflexivity|]. cbn [forallb] in H. apply andb_true_iff in H. destruct H as [H1 H2].
  cbn [evals_l]. rewrite (simple_term_bind false I v u x H1), (IH H2). reflexivity.
Qed.

Lemma existsb_pick (c w : N) l : In c l -> existsb (fun u => (u =? w)%N && (c =? u)%N) l = (c =? w)%N.
Proof.
  intros Hc. destruct (c =? w)%N eqn:E.
  - apply N.eqb_eq in E. subst w. apply existsb_exists. exists c. split; [exact Hc|]. rewrite N.eqb_refl. reflexivity.
  - apply not_true_iff_false. intros H. apply existsb_exists in H. destruct H as [u [_ H]].
    apply andb_true_iff in H. destruct H as [H1 H2]. apply N.eqb_eq in H1, H2. subst. rewrite N.eqb_refl in E. discriminate.
Qed.

Section UtrExact.
  Variable ot : N -> option N.
  Variable fv : N -> N.

  (* one flat read: Exists v. And(Equals(v, t) / Equals(t, v), o(a, v)) has the value and the definedness of
     Equals(o(a), t) / Equals(t, o(a)) *)
  Lemma flat_read_exact I I' f ty a t (swap : bool) :
    urel_interp ot I I' -> ot f = Some ty -> objs I ty <> [] ->
    forallb (simple_term (fv f)) a = true -> simple_term (fv f) t = true ->
    eval false (EExists [(fv f, ty)]
                  (EAnd [if swap then EEquals t (EVar (fv f) ty) else EEquals (EVar (fv f) ty) t;
                         EFluent f (a ++ [EVar (fv f) ty])])) I' =
    eval false (if swap then EEquals t (EFluent f a) else EEquals (EFluent f a) t) I.
  Proof.
    intros HR Hf Hne Ha Ht. pose proof HR as (_ & _ & _ & Ho & _ & Hob).
    set (v := fv f) in *.
    assert (Ea : evals_l false I' a = evals_l false I a).
    { apply (evals_l_uclean ot I I' a HR). apply forallb_forall. intros x Hx. rewrite forallb_forall in Ha.
      apply (simple_term_uclean ot v), Ha, Hx. }
    assert (Et : eval false t I' = eval false t I) by (apply (eval_uclean ot false t I I' HR), (simple_term_uclean ot v), Ht).
    (* the value of one instance *)
    assert (Inst : forall u,
      as_bool (eval false (EAnd [if swap then EEquals t (EVar v ty) else EEquals (EVar v ty) t;
                                 EFluent f (a ++ [EVar v ty])]) (bind_var I' v u)) =
      match eval false t I, (match evals_l false I a with Some vs => fl I' f (vs ++ [VObj u]) | None => None end) with
      | Some (VObj w), Some (VBool b2) => Some ((u =? w)%N && b2)
      | _, _ => None
      end).
    { intros u. rewrite eval_EAnd. cbn [ebools].
      assert (E1 : eval false (if swap then EEquals t (EVar v ty) else EEquals (EVar v ty) t) (bind_var I' v u) =
                   match eval false t I with Some (VObj w) => Some (VBool (u =? w)%N) | _ => None end).
      { destruct swap; rewrite eval_EEquals, (simple_term_bind false I' v u t Ht), Et; cbn [eval bind_var var];
          rewrite N.eqb_refl; destruct (eval false t I) as [[| |w]|]; try reflexivity. rewrite N.eqb_sym. reflexivity. }
      assert (E2 : eval false (EFluent f (a ++ [EVar v ty])) (bind_var I' v u) =
                   match evals_l false I a with Some vs => fl I' f (vs ++ [VObj u]) | None => None end).
      { rewrite eval_EFluent, <- evals_l_evals_u, evals_l_app, (evals_l_simple_bind I' v u a Ha), Ea.
        cbn [evals_l eval bind_var var]. rewrite N.eqb_refl. destruct (evals_l false I a); reflexivity. }
      rewrite E1, E2. destruct (eval false t I) as [[| |w]|]; try reflexivity.
      cbn [as_bool]. destruct (match evals_l false I a with Some vs => fl I' f (vs ++ [VObj u]) | None => None end)
        as [[b2| |]|]; try reflexivity. cbn [as_bool forallb]. rewrite andb_true_r. reflexivity. }
    assert (AllNone : (forall u, In u (objs I ty) ->
                match eval false t I, (match evals_l false I a with Some vs => fl I' f (vs ++ [VObj u]) | None => None end) with
                | Some (VObj w), Some (VBool b2) => Some ((u =? w)%N && b2)
                | _, _ => None
                end = None) ->
              eval false (EExists [(v, ty)]
                  (EAnd [if swap then EEquals t (EVar v ty) else EEquals (EVar v ty) t; EFluent f (a ++ [EVar v ty])])) I' = None).
    { intros H. rewrite eval_EExists, instances_one, map_map, Ho, (map_ext _ _ Inst), (q_fold_none_all _ _ Hne H). reflexivity. }
    destruct (evals_l false I a) as [vs|] eqn:Era.
    - specialize (Hob f ty vs Hf). destruct (fl I f vs) as [[| |c]|] eqn:Efl; try contradiction.
      + destruct Hob as [Hc Hob]. destruct (eval false t I) as [[| |w]|] eqn:Ert.
        * rewrite AllNone by (intros; reflexivity).
          destruct swap; rewrite eval_EEquals, eval_EFluent, <- evals_l_evals_u, Era, Efl, Ert; reflexivity.
        * rewrite AllNone by (intros; reflexivity).
          destruct swap; rewrite eval_EEquals, eval_EFluent, <- evals_l_evals_u, Era, Efl, Ert; reflexivity.
        * rewrite eval_EExists, instances_one, map_map, Ho, (map_ext _ _ Inst).
          rewrite (map_ext_in _ (fun u => Some ((u =? w)%N && (c =? u)%N))) by (intros u Hu; rewrite (Hob u Hu); reflexivity).
          rewrite q_fold_all_some, (existsb_pick c w _ Hc).
          destruct swap; rewrite eval_EEquals, eval_EFluent, <- evals_l_evals_u, Era, Efl, Ert; [rewrite N.eqb_sym|]; reflexivity.
        * rewrite AllNone by (intros; reflexivity).
          destruct swap; rewrite eval_EEquals, eval_EFluent, <- evals_l_evals_u, Era, Efl, Ert; reflexivity.
      + rewrite AllNone by (intros u Hu; rewrite (Hob u Hu); destruct (eval false t I) as [[| |?]|]; reflexivity).
        destruct swap; rewrite eval_EEquals, eval_EFluent, <- evals_l_evals_u, Era, Efl;
          destruct (eval false t I) as [[| |?]|]; reflexivity.
    - rewrite AllNone by (intros u Hu; destruct (eval false t I) as [[| |?]|]; reflexivity).
      destruct swap; rewrite eval_EEquals, eval_EFluent, <- evals_l_evals_u, Era;
        destruct (eval false t I) as [[| |?]|]; reflexivity.
  Qed.
End UtrExact.

Section UtrExact2.
  Variable ot : N -> option N.
  Variable fv : N -> N.
  Variable ob : N -> list N.
  (* the type of every object fluent has an object (otherwise Exists over the empty type is false where the original
     read is undefined) *)
  Hypothesis Hinh : forall f t, ot f = Some t -> ob t <> [].

  Definition urel_ob (J J' : interp) : Prop := urel_interp ot J J' /\ objs J = ob.

  Lemma urel_instances_ob vs : forall I I', urel_ob I I' -> Forall2 urel_ob (instances I vs) (instances I' vs).
  Proof.
    induction vs as [|[v t] vs IH]; intros I I' H; simpl.
    - constructor; [exact H | constructor].
    - assert (HH := H). destruct H as [(H1 & H2 & H3 & H4 & H5 & H6) Hob]. rewrite H4.
      induction (objs I t) as [|o os IHo]; simpl; [constructor|].
      apply Forall2_app; [|exact IHo]. apply IH. destruct HH as [HR HO]. split; [apply urel_bind; exact HR | exact HO].
  Qed.

  Lemma flat_equals_l I I' f args t : urel_ob I I' -> flat ot fv (EEquals (EFluent f args) t) = true ->
    eval false (utr ot fv (EEquals (EFluent f args) t)) I' = eval false (EEquals (EFluent f args) t) I.
  Proof.
    intros [HR Hob] Hfl. cbn [utr flat] in *. unfold flat_read. destruct (ot f) as [ty|] eqn:Ef.
    - rewrite Hfl. apply andb_true_iff in Hfl. destruct Hfl as [Ha Ht].
      apply (flat_read_exact ot fv I I' f ty args t false HR Ef); [rewrite Hob; apply (Hinh f ty Ef) | exact Ha | exact Ht].
    - exact (eval_uclean ot false _ I I' HR Hfl).
  Qed.

  Lemma flat_equals_r I I' f args t : urel_ob I I' ->
    match t with EFluent _ _ => False | _ => True end ->
    flat ot fv (EEquals t (EFluent f args)) = true ->
    eval false (utr ot fv (EEquals t (EFluent f args))) I' = eval false (EEquals t (EFluent f args)) I.
  Proof.
    intros [HR Hob] Hnt Hfl.
    assert (Eu : utr ot fv (EEquals t (EFluent f args)) =
                 match flat_read ot fv f args t true with Some x => x | None => EEquals t (EFluent f args) end)
      by (destruct t; try contradiction; reflexivity).
    assert (Efl : flat ot fv (EEquals t (EFluent f args)) =
                  match ot f with
                  | Some _ => forallb (simple_term (fv f)) args && simple_term (fv f) t
                  | None => uclean ot (EEquals t (EFluent f args))
                  end)
      by (destruct t; try contradiction; reflexivity).
    rewrite Eu. rewrite Efl in Hfl. unfold flat_read. destruct (ot f) as [ty|] eqn:Ef.
    - rewrite Hfl. apply andb_true_iff in Hfl. destruct Hfl as [Ha Ht].
      apply (flat_read_exact ot fv I I' f ty args t true HR Ef); [rewrite Hob; apply (Hinh f ty Ef) | exact Ha | exact Ht].
    - exact (eval_uclean ot false _ I I' HR Hfl).
  Qed.

  Lemma ebools_utr I I' l :
    Forall (fun x => forall I I', urel_ob I I' -> flat ot fv x = true -> eval false (utr ot fv x) I' = eval false x I) l ->
    urel_ob I I' -> forallb (flat ot fv) l = true -> ebools false I' (map (utr ot fv) l) = ebools false I l.
  Proof.
    intros HF HR. induction HF as [|x l Hx _ IH]; intros Hfl; [reflexivity|]. cbn [forallb] in Hfl.
    apply andb_true_iff in Hfl. destruct Hfl as [H1 H2]. cbn [map ebools]. rewrite (Hx I I' HR H1), (IH H2). reflexivity.
  Qed.

  Theorem utr_exact e : forall I I', urel_ob I I' -> flat ot fv e = true ->
    eval false (utr ot fv e) I' = eval false e I.
  Proof.
    induction e using expr_ind'; intros I I' HR Hfl;
      try exact (eval_uclean ot false _ I I' (proj1 HR) Hfl).
    - (* EAnd *) cbn [utr flat] in *. rewrite !eval_EAnd, (ebools_utr I I' l H HR Hfl). reflexivity.
    - (* EOr *) cbn [utr flat] in *. rewrite !eval_EOr, (ebools_utr I I' l H HR Hfl). reflexivity.
    - cbn [utr flat] in *. rewrite !eval_ENot, (IHe I I' HR Hfl). reflexivity.
    - cbn [utr flat] in *. apply andb_true_iff in Hfl. destruct Hfl as [F1 F2].
      rewrite !eval_EImplies, (IHe1 I I' HR F1), (IHe2 I I' HR F2). reflexivity.
    - cbn [utr flat] in *. apply andb_true_iff in Hfl. destruct Hfl as [F1 F2].
      rewrite !eval_EIff, (IHe1 I I' HR F1), (IHe2 I I' HR F2). reflexivity.
    - cbn [utr flat] in *. rewrite !eval_EExists. f_equal.
      rewrite (F2_map_eq urel_ob (fun J => as_bool (eval false e J)) (fun J => as_bool (eval false (utr ot fv e) J))
                 _ _ (urel_instances_ob vs I I' HR)); [reflexivity|].
      intros x y Hxy. rewrite (IHe x y Hxy Hfl). reflexivity.
    - cbn [utr flat] in *. rewrite !eval_EForall. f_equal.
      rewrite (F2_map_eq urel_ob (fun J => as_bool (eval false e J)) (fun J => as_bool (eval false (utr ot fv e) J))
                 _ _ (urel_instances_ob vs I I' HR)); [reflexivity|].
      intros x y Hxy. rewrite (IHe x y Hxy Hfl). reflexivity.
    - (* EEquals *)
      destruct e1; try (destruct e2; try exact (eval_uclean ot false _ I I' (proj1 HR) Hfl);
                        apply flat_equals_r; [exact HR | exact Logic.I | exact Hfl]).
      apply flat_equals_l; assumption.
  Qed.
End UtrExact2.

(* [utr] (followed by an exact simplifier) satisfies [tr_ok] *)
Lemma utr_tr_ok smp P fv : smp_exact smp -> conds_flat P fv = true -> types_inhabited P = true ->
  tr_ok (fun e => smp (utr (otype P) fv e)) P.
Proof.
  intros Hsmp Hfl Hin e He I I' HR Hob. rewrite Hsmp.
  apply (utr_exact (otype P) fv (objs_of P)).
  - intros f t Hf. unfold types_inhabited in Hin. rewrite forallb_forall in Hin.
    specialize (Hin (f, t) (lookupN_In _ _ _ Hf)). cbn [snd] in Hin. destruct (objs_of P t); [discriminate | discriminate].
  - split; assumption.
  - unfold conds_flat in Hfl. rewrite forallb_forall in Hfl. apply Hfl, He.
Qed.

(* the statement of the expression-level theorem for one pair of interpretations *)
Lemma utr_exact_interp ot fv e I I' :
  urel_interp ot I I' -> (forall f t, ot f = Some t -> objs I t <> []) -> flat ot fv e = true ->
  eval false (utr ot fv e) I' = eval false e I.
Proof. intros HR Hin Hfl. apply (utr_exact ot fv (objs I) Hin e I I'); [split; [exact HR | reflexivity] | exact Hfl]. Qed.

(* the plan-level theorems with the reference walker in place of the abstract one *)
Section UReference.
  Variable smp : expr -> expr.
  Variable fv : N -> N.
  Variable P : problem.
  Variable G : state -> Prop.
  Notation trr := (fun e => smp (utr (otype P) fv e)).
  Hypothesis Hsmp : smp_exact smp.
  Hypothesis Hfl : conds_flat P fv = true.
  Hypothesis Hinh : types_inhabited P = true.
  Hypothesis Hwf : utfr_wf trr smp P = true.
  Hypothesis Hdef : effects_defined P G.
  Hypothesis Hone : one_value P G.
  Hypothesis Hcl : closed P G.
  Hypothesis Hid : unique_ids P.

  Theorem u_valid_plan_reference s s' pi : G s -> utfr_rel P s s' ->
    valid_plan false (utfr_compile trr smp P) s' pi = valid_plan false P s pi.
  Proof. apply (u_valid_plan trr smp P G Hsmp Hwf (utr_tr_ok smp P fv Hsmp Hfl Hinh) Hdef Hone Hcl Hid). Qed.

  Theorem u_sound_reference s s' pi : G s -> utfr_rel P s s' ->
    valid_plan false (utfr_compile trr smp P) s' pi = true -> valid_plan false P s pi = true.
  Proof. intros HG HR H. rewrite <- (u_valid_plan_reference s s' pi HG HR). exact H. Qed.

  Theorem u_complete_reference s s' pi : G s -> utfr_rel P s s' ->
    valid_plan false P s pi = true -> valid_plan false (utfr_compile trr smp P) s' pi = true.
  Proof. intros HG HR H. rewrite (u_valid_plan_reference s s' pi HG HR). exact H. Qed.
End UReference.

(* non-vacuity with an object read: type 0 = {1, 2}; o(x : type 0) : type 0 (fluent 0), g Boolean (fluent 1);
   action 0 (parameter 7):  pre o(x) == 1;  eff o(x) := 2, g := true;  goals g and o(1) == 2 *)
Module UtfrRef.
  Definition px : expr := EParam 7%N.
  Definition ox : expr := EFluent 0%N [px].
  Definition oeffx : effect :=
    {| e_fl := 0%N; e_args := [px]; e_val := EObj 2%N; e_cond := EBool true; e_kind := KAssign; e_vars := [];
       e_isbool := false |}.
  Definition ar : action :=
    {| a_params := [7%N]; a_pre := [EEquals ox (EObj 1%N)]; a_effs := [oeffx; UtfrWitness.geff] |}.
  Definition Pr : problem :=
    {| p_objs := [(0%N, [1%N; 2%N])]; p_ifun := [];
       p_fluents := [{| fd_id := 0%N; fd_sig := [0%N]; fd_ty := FObj 0%N |}; {| fd_id := 1%N; fd_sig := []; fd_ty := FBool |}];
       p_actions := [(0%N, ar)];
       p_goals := [EFluent 1%N []; EEquals (EFluent 0%N [EObj 1%N]) (EObj 2%N)]; p_invs := [] |}.
  Definition sr : state := fun f a => match f with 0%N => Some (VObj 1%N) | _ => Some (VBool false) end.
  Definition fvr (f : N) : N := (100 + f)%N.
  Definition Gr (s : state) : Prop := True.
  Definition planr : list (N * list value) := [(0%N, [VObj 1%N])].
  Definition trr (e : expr) : expr := UtfrWitness.idf (utr (otype Pr) fvr e).
  Definition Pr' : problem := utfr_compile trr UtfrWitness.idf Pr.
End UtfrRef.

Lemma utfr_reference_nonvacuous :
  smp_exact UtfrWitness.idf /\ conds_flat UtfrRef.Pr UtfrRef.fvr = true /\ types_inhabited UtfrRef.Pr = true /\
  utfr_wf UtfrRef.trr UtfrWitness.idf UtfrRef.Pr = true /\
  effects_defined UtfrRef.Pr UtfrRef.Gr /\ one_value UtfrRef.Pr UtfrRef.Gr /\ closed UtfrRef.Pr UtfrRef.Gr /\
  unique_ids UtfrRef.Pr /\ UtfrRef.Gr UtfrRef.sr /\
  utfr_rel UtfrRef.Pr UtfrRef.sr (enc_state UtfrRef.Pr UtfrRef.sr) /\
  valid_plan false UtfrRef.Pr UtfrRef.sr UtfrRef.planr = true /\
  valid_plan false UtfrRef.Pr' (enc_state UtfrRef.Pr UtfrRef.sr) UtfrRef.planr = true /\
  valid_plan false UtfrRef.Pr' (enc_state UtfrRef.Pr UtfrRef.sr) [(0%N, [VObj 2%N]); (0%N, [VObj 1%N])] = true /\
  valid_plan false UtfrRef.Pr' (enc_state UtfrRef.Pr UtfrRef.sr) [(0%N, [VObj 1%N]); (0%N, [VObj 1%N])] = false /\
  map (fun ia => a_pre (snd ia)) (p_actions UtfrRef.Pr') =
    [[EExists [(100%N, 0%N)]
        (EAnd [EEquals (EVar 100%N 0%N) (EObj 1%N); EFluent 0%N [EParam 7%N; EVar 100%N 0%N]])]].
Proof.
  split; [intros e I; reflexivity|]. split; [vm_compute; reflexivity|]. split; [vm_compute; reflexivity|].
  split; [vm_compute; reflexivity|].
  split.
  { intros s i a args e _ [Hin|[]] He Hpre. inversion Hin; subst i a; clear Hin.
    set (I := mk_interp UtfrRef.Pr s (zip_params (a_params UtfrRef.ar) args)) in *.
    assert (Hp : exists p, par I 7%N = Some p).
    { unfold all_hold in Hpre. cbn [UtfrRef.ar a_pre forallb] in Hpre. unfold holds in Hpre.
      unfold UtfrRef.ox, UtfrRef.px in Hpre. rewrite eval_EEquals, eval_EFluent in Hpre. cbn [evals eval] in Hpre.
      destruct (par I 7%N) as [p|]; [exists p; reflexivity | discriminate]. }
    destruct Hp as [p Hp]. destruct He as [<-|[<-|[]]].
    - split; [exists [p]; cbn [UtfrRef.oeffx e_args UtfrRef.px evals_l eval]; rewrite Hp; reflexivity|].
      split; [exists true; reflexivity|]. exists (VObj 2%N). split; [reflexivity|].
      change (otype UtfrRef.Pr (e_fl UtfrRef.oeffx)) with (Some 0%N). exists 2%N. split; [reflexivity|].
      right; left; reflexivity.
    - split; [exists []; reflexivity|]. split; [exists true; reflexivity|]. exists (VBool true). split; [reflexivity|].
      cbn. exists true; reflexivity. }
  split.
  { intros s i a args acts f t x v1 v2 _ [Hin|[]] Hf Hot H1 H2. inversion Hin; subst i a; clear Hin.
    change (fired false ?I ?l) with (collect_res (eres_of I l)) in Hf. rewrite collect_res_spec in Hf.
    destruct (has_err _); [discriminate|]. inversion Hf; subst acts; clear Hf.
    assert (Hv : forall e, In e (a_effs UtfrRef.ar) -> e_vars e = []) by (intros e [<-|[<-|[]]]; reflexivity).
    destruct (in_avals_effect _ _ _ _ Hv H1) as (e1 & He1 & Hk1 & x1 & Ex1 & <-).
    destruct (in_avals_effect _ _ _ _ Hv H2) as (e2 & He2 & Hk2 & x2 & Ex2 & <-). cbn [fst] in Hk1, Hk2.
    assert (E : forall e, In e (a_effs UtfrRef.ar) -> e_fl e = f -> e = UtfrRef.oeffx).
    { intros e [<-|[<-|[]]] Ef; [reflexivity|]. change (1%N = f) in Ef. rewrite <- Ef in Hot. exfalso. clear -Hot.
      vm_compute in Hot. discriminate Hot. }
    rewrite (E e1 He1 Hk1) in Ex1. rewrite (E e2 He2 Hk2) in Ex2. rewrite Ex1 in Ex2. inversion Ex2. reflexivity. }
  split; [intros s aid a args t _ _ _; exact Logic.I|].
  split; [repeat constructor; intros []|]. split; [exact Logic.I|].
  split.
  { apply enc_rel. intros f t a Hf. unfold otype in Hf. cbn in Hf.
    destruct (f =? 0)%N eqn:E0; [|discriminate]. apply N.eqb_eq in E0; subst f; inversion Hf; cbn. left; reflexivity. }
  repeat split; vm_compute; reflexivity.
Qed.
