(* Proofs about the protobuf codec model (C20): every decoder inverts its encoder on well-formed objects. *)
From Coq Require Import List ZArith NArith QArith Qreduction Bool Lia.
Import ListNotations.
Require Import UPV.Model.ProtoCodec.
Open Scope list_scope.

(* ------------------------------------------------------------------ rationals *)
Lemma canonQb_true q : canonQb q = true -> canonQ q.
Proof.
  unfold canonQb, canonQ. intros H. apply andb_true_iff in H. destruct H as [H1 H2].
  apply Z.eqb_eq in H1. apply Pos.eqb_eq in H2.
  destruct (Qred q) as [a b]; destruct q as [n d]; simpl in *. subst. reflexivity.
Qed.

Lemma canonQ_canonQb q : canonQ q -> canonQb q = true.
Proof.
  unfold canonQb, canonQ. intros H. rewrite H. rewrite Z.eqb_refl, Pos.eqb_refl. reflexivity.
Qed.

Lemma Qmake_eta q : Qmake (Qnum q) (Qden q) = q.
Proof. destruct q; reflexivity. Qed.

Lemma Qeqb_strict_eq a b : Qeqb_strict a b = true -> a = b.
Proof.
  unfold Qeqb_strict. intros H. apply andb_true_iff in H. destruct H as [H1 H2].
  apply Z.eqb_eq in H1. apply Pos.eqb_eq in H2. destruct a, b; simpl in *; subst; reflexivity.
Qed.

(* the only reduced fraction with numerator 0 is 0/1 *)
Lemma canon_zero q : canonQ q -> Qnum q = 0%Z -> q = Qmake 0 1.
Proof.
  unfold canonQ. destruct q as [n d]; simpl. intros Hc Hn. subst n.
  unfold Qred in Hc; simpl in Hc. rewrite <- Hc. reflexivity.
Qed.

#[local] Opaque Qred.

Lemma real_codec q : canonQ q -> dec_real (enc_real q) = Some q.
Proof.
  unfold canonQ, dec_real, enc_real, py_fraction; simpl. intros H. rewrite Qmake_eta, H. reflexivity.
Qed.

(* Fraction(n, d) of the numerator / denominator of a reduced fraction *)
Lemma py_fraction_num_den q : canonQ q -> py_fraction (Qnum q) (Zpos (Qden q)) = Some q.
Proof. exact (real_codec q). Qed.

(* a message with a negative denominator (never written) still denotes the same rational: sign normalisation *)
Lemma py_fraction_neg_den n p : py_fraction n (Zneg p) = py_fraction (- n) (Zpos p).
Proof. reflexivity. Qed.

(* ------------------------------------------------------------------ types *)
Lemma opt_eqb_eq {A} (e : A -> A -> bool) (a b : option A) :
  (forall x y, e x y = true -> x = y) -> opt_eqb e a b = true -> a = b.
Proof. intros He. destruct a, b; simpl; intros H; try discriminate; [f_equal; auto | reflexivity]. Qed.

Lemma ty_eqb_eq a b : ty_eqb a b = true -> a = b.
Proof.
  destruct a, b; simpl; intros H; try discriminate; try reflexivity.
  - apply andb_true_iff in H. destruct H as [H1 H2].
    apply (opt_eqb_eq Z.eqb) in H1; [|intros x y E; apply Z.eqb_eq; exact E].
    apply (opt_eqb_eq Z.eqb) in H2; [|intros x y E; apply Z.eqb_eq; exact E]. subst; reflexivity.
  - apply andb_true_iff in H. destruct H as [H1 H2].
    apply (opt_eqb_eq Qeqb_strict) in H1; [|exact Qeqb_strict_eq].
    apply (opt_eqb_eq Qeqb_strict) in H2; [|exact Qeqb_strict_eq]. subst; reflexivity.
  - apply N.eqb_eq in H. subst; reflexivity.
Qed.

(* str(Fraction) then Fraction(str) is the identity on a reduced fraction, and never looks like an infinity token *)
Lemma fraction_str_roundtrip q : canonQ q ->
  py_fraction_str (str_fraction q) = Some q /\ has_inf (str_fraction q) = false
  /\ has_neginf (str_fraction q) = false /\ is_inf (str_fraction q) = false.
Proof.
  unfold canonQ, str_fraction. intros H. destruct q as [n d]; simpl in *.
  destruct d; simpl; try (rewrite H; repeat split; reflexivity). repeat split; reflexivity.
Qed.

Lemma real_lo_bound q : canonQ q ->
  opt_bound (has_neginf (str_fraction q)) (py_fraction_str (str_fraction q)) = Some (Some q).
Proof. intros H. destruct (fraction_str_roundtrip q H) as (E1 & _ & E3 & _). rewrite E1, E3. reflexivity. Qed.

Lemma real_hi_bound q : canonQ q ->
  opt_bound (has_inf (str_fraction q)) (py_fraction_str (str_fraction q)) = Some (Some q).
Proof. intros H. destruct (fraction_str_roundtrip q H) as (E1 & E2 & _ & _). rewrite E1, E2. reflexivity. Qed.

Lemma real_hi_bound_decl q : canonQ q ->
  opt_bound (is_inf (str_fraction q)) (py_fraction_str (str_fraction q)) = Some (Some q).
Proof. intros H. destruct (fraction_str_roundtrip q H) as (E1 & _ & _ & E4). rewrite E1, E4. reflexivity. Qed.

Lemma wf_boundb_canon b : wf_boundb b = true -> match b with Some q => canonQ q | None => True end.
Proof. destruct b; simpl; [apply canonQb_true | trivial]. Qed.

(* integer types: every combination of finite / infinite bounds, no hypothesis *)
Lemma int_type_codec ut (lo hi : option Z) :
  convert_type_str ut (proto_type (TyInt lo hi)) = Some (TyInt lo hi).
Proof. destruct lo, hi; reflexivity. Qed.

(* real types: every combination of finite / infinite bounds (bounds are Fractions, i.e. reduced) *)
Lemma real_type_codec ut (lo hi : option Q) :
  match lo with Some q => canonQ q | None => True end ->
  match hi with Some q => canonQ q | None => True end ->
  convert_type_str ut (proto_type (TyReal lo hi)) = Some (TyReal lo hi).
Proof.
  destruct lo as [l|], hi as [h|]; simpl; intros Hl Hh.
  - rewrite (real_lo_bound l Hl), (real_hi_bound h Hh). reflexivity.
  - rewrite (real_lo_bound l Hl). reflexivity.
  - rewrite (real_hi_bound h Hh). reflexivity.
  - reflexivity.
Qed.

Theorem type_codec ut t : wf_tyb ut t = true -> convert_type_str ut (proto_type t) = Some t.
Proof.
  destruct t as [| lo hi | lo hi | n]; simpl; intros H.
  - reflexivity.
  - apply int_type_codec.
  - apply andb_true_iff in H. destruct H as [H1 H2].
    apply (real_type_codec ut lo hi); apply wf_boundb_canon; assumption.
  - rewrite H. reflexivity.
Qed.

(* type declarations (ProtobufWriter._convert_*_type / ProtobufReader._convert_type_declaration) *)
Definition wf_fatherb (ut : name -> bool) (t : ty) (father : option name) : bool :=
  match t, father with
  | TyUser _, Some f => negb (f =? 0)%N && ut f
  | TyUser _, None => true
  | _, Some _ => false
  | _, None => true
  end.

Theorem type_decl_codec ut t father :
  match t with TyReal lo hi => wf_boundb lo && wf_boundb hi | _ => true end = true ->
  wf_fatherb ut t father = true ->
  dec_type_decl ut (enc_type_decl t father) = Some (t, father).
Proof.
  destruct t as [| lo hi | lo hi | n]; simpl; intros H Hf.
  - destruct father; [discriminate | reflexivity].
  - destruct father; [discriminate|]. destruct lo, hi; reflexivity.
  - destruct father; [discriminate|]. apply andb_true_iff in H. destruct H as [H1 H2].
    apply wf_boundb_canon in H1. apply wf_boundb_canon in H2.
    unfold dec_type_decl, enc_type_decl. destruct lo as [l|], hi as [h|]; simpl.
    + rewrite (real_lo_bound l H1), (real_hi_bound_decl h H2). reflexivity.
    + rewrite (real_lo_bound l H1). reflexivity.
    + rewrite (real_hi_bound_decl h H2). reflexivity.
    + reflexivity.
  - unfold dec_type_decl, enc_type_decl; simpl. destruct father as [f|]; simpl.
    + apply andb_true_iff in Hf. destruct Hf as [Hf1 Hf2]. apply negb_true_iff in Hf1.
      rewrite Hf1, Hf2. reflexivity.
    + reflexivity.
Qed.

(* ------------------------------------------------------------------ timepoints, timings, intervals *)
Theorem timepoint_codec tp : wf_timepointb tp = true -> dec_timepoint (enc_timepoint tp) = Some tp.
Proof.
  destruct tp as [k c]. unfold wf_timepointb, dec_timepoint, enc_timepoint; simpl. intros H.
  destruct c as [c|]; simpl.
  - apply negb_true_iff in H. rewrite H. destruct k; reflexivity.
  - destruct k; reflexivity.
Qed.

(* the boundary is sharp: the empty container name is read back as "no container" (proto3 default) *)
Lemma timepoint_empty_container_lost k :
  dec_timepoint (enc_timepoint {| tp_kind := k; tp_container := Some 0%N |})
  = Some {| tp_kind := k; tp_container := None |}.
Proof. destruct k; reflexivity. Qed.

Lemma mk_timing_canon t : canonQ (tm_delay t) -> mk_timing (tm_delay t) (tm_tp t) = t.
Proof. unfold canonQ, mk_timing. intros H. rewrite H. destruct t; reflexivity. Qed.

Theorem timing_codec t : wf_timingb t = true -> dec_timing (enc_timing t) = Some t.
Proof.
  unfold wf_timingb. intros H. apply andb_true_iff in H. destruct H as [H1 H2].
  apply canonQb_true in H1. unfold dec_timing, enc_timing; cbn [tmm_delay tmm_tp].
  rewrite (real_codec _ H1), (timepoint_codec _ H2), (mk_timing_canon t H1). reflexivity.
Qed.

Theorem tinterval_codec i : wf_tintervalb i = true -> dec_tinterval (enc_tinterval i) = Some i.
Proof.
  unfold wf_tintervalb. intros H. apply andb_true_iff in H. destruct H as [H1 H2].
  unfold dec_tinterval, enc_tinterval; cbn [tim_lower tim_upper tim_lopen tim_ropen].
  rewrite (timing_codec _ H1), (timing_codec _ H2). destruct i; reflexivity.
Qed.

(* ------------------------------------------------------------------ generic list lemmas *)
Lemma seq_opt_cons {A B} (f : A -> option B) x r :
  seq_opt f (x :: r) = match f x, seq_opt f r with Some y, Some ys => Some (y :: ys) | _, _ => None end.
Proof. reflexivity. Qed.

Lemma seq_opt_map {A B} (enc : A -> B) (dec : B -> option A) (l : list A) :
  Forall (fun x => dec (enc x) = Some x) l -> seq_opt dec (map enc l) = Some l.
Proof.
  induction 1 as [|x l Hx _ IH]; [reflexivity|].
  cbn [map]. rewrite seq_opt_cons, Hx, IH. reflexivity.
Qed.

Lemma split_last_opt_cons2 {A B C} (fv : A -> option B) (fb : A -> option C) x y r :
  split_last_opt fv fb (x :: y :: r) =
  match fv x, split_last_opt fv fb (y :: r) with Some v, Some (vs, b) => Some (v :: vs, b) | _, _ => None end.
Proof. reflexivity. Qed.

Lemma split_last_opt_app {A B C} (ev : B -> A) (eb : C -> A) (fv : A -> option B) (fb : A -> option C) vars body :
  (forall v, In v vars -> fv (ev v) = Some v) -> fb (eb body) = Some body ->
  split_last_opt fv fb (map ev vars ++ [eb body]) = Some (vars, body).
Proof.
  intros Hv Hb. induction vars as [|v vars IH].
  - cbn. rewrite Hb. reflexivity.
  - cbn [map app]. destruct (map ev vars ++ [eb body]) as [|y r] eqn:E.
    + destruct (map ev vars); discriminate.
    + rewrite split_last_opt_cons2, (Hv v (or_introl eq_refl)), IH; [reflexivity|].
      intros v' Hin. apply Hv. right; exact Hin.
Qed.

Lemma forallb_Forall {A} (p : A -> bool) l : forallb p l = true -> Forall (fun x => p x = true) l.
Proof.
  induction l as [|x l IH]; simpl; intros H; [constructor|].
  apply andb_true_iff in H. destruct H as [H1 H2]. constructor; auto.
Qed.

(* ------------------------------------------------------------------ expressions *)
Section expr_induction.
  Variable P : expr -> Prop.
  Hypothesis HBool : forall b, P (EBool b).
  Hypothesis HInt : forall z, P (EInt z).
  Hypothesis HReal : forall q, P (EReal q).
  Hypothesis HParam : forall n t, P (EParam n t).
  Hypothesis HVar : forall n t, P (EVar n t).
  Hypothesis HObj : forall n t, P (EObj n t).
  Hypothesis HFluent : forall f t args, Forall P args -> P (EFluent f t args).
  Hypothesis HOp : forall o args, Forall P args -> P (EOp o args).
  Hypothesis HQuant : forall q vars body, P body -> P (EQuant q vars body).
  Hypothesis HTiming : forall t, P (ETiming t).
  Hypothesis HPresent : forall c, P (EPresent c).

  Fixpoint expr_ind' (e : expr) : P e :=
    match e with
    | EBool b => HBool b
    | EInt z => HInt z
    | EReal q => HReal q
    | EParam n t => HParam n t
    | EVar n t => HVar n t
    | EObj n t => HObj n t
    | EFluent f t args =>
        HFluent f t args ((fix go (l : list expr) : Forall P l :=
                             match l with [] => Forall_nil P | x :: r => Forall_cons x (expr_ind' x) (go r) end) args)
    | EOp o args =>
        HOp o args ((fix go (l : list expr) : Forall P l :=
                       match l with [] => Forall_nil P | x :: r => Forall_cons x (expr_ind' x) (go r) end) args)
    | EQuant q vars body => HQuant q vars body (expr_ind' body)
    | ETiming t => HTiming t
    | EPresent c => HPresent c
    end.
End expr_induction.

Lemma var_codec ut v : wf_varb ut v = true -> dec_var ut (enc_var v) = Some v.
Proof.
  destruct v as [n t]. unfold wf_varb, dec_var, enc_var, sym_atom, dec_etype; simpl. intros H.
  rewrite (type_codec ut t H). reflexivity.
Qed.

(* the timing sub-language `(up:plus (QUALIFIER [CONTAINER]) DELAY)`; here even an empty container name survives *)
Lemma tp_list_codec tp :
  dec_tp_list (sym_atom (STp (tp_kind tp)) YNone KFunctionSymbol ::
               match tp_container tp with
               | Some c => [sym_atom (SName c) YContainer KContainerId]
               | None => []
               end) = Some tp.
Proof. destruct tp as [k [c|]]; reflexivity. Qed.

Lemma timing_exp_codec t : canonQ (tm_delay t) ->
  match enc_timing_exp t with PE _ l _ _ => dec_timing_exp l end = Some t.
Proof.
  intros Hc. unfold enc_timing_exp. destruct (Qnum (tm_delay t) =? 0)%Z eqn:E0.
  - (* no delay *)
    unfold enc_tp_app. unfold dec_timing_exp.
    assert (Hd : tm_delay t = Qmake 0 1).
    { apply Z.eqb_eq in E0. apply canon_zero; assumption. }
    assert (Hmk : mk_timing (Qmake 0 1) (tm_tp t) = t).
    { rewrite <- Hd. apply mk_timing_canon. exact Hc. }
    transitivity (Some (mk_timing (Qmake 0 1) (tm_tp t))); [|rewrite Hmk; reflexivity].
    destruct (tm_tp t) as [k [c|]]; reflexivity.
  - transitivity (Some (mk_timing (tm_delay t) (tm_tp t))); [|rewrite (mk_timing_canon t Hc); reflexivity].
    revert Hc. generalize (tm_tp t) as tp. generalize (tm_delay t) as q. clear. intros q tp Hc.
    unfold canonQ in Hc.
    destruct tp as [k [c|]]; destruct q as [n [d|d|]]; cbn; rewrite ?Hc; reflexivity.
Qed.

Lemma enc_timing_exp_shape t : exists l, enc_timing_exp t = PE None l YTime KFunctionApplication
  /\ match l with hd :: _ => is_present hd = false | [] => False end.
Proof.
  unfold enc_timing_exp. destruct (Qnum (tm_delay t) =? 0)%Z.
  - unfold enc_tp_app. eexists. split; [reflexivity|]. reflexivity.
  - eexists. split; [reflexivity|]. reflexivity.
Qed.

Theorem expr_codec ut obj_ty fluent_ty e :
  wf_exprb ut obj_ty fluent_ty e = true ->
  dec_expr ut obj_ty fluent_ty (enc_expr e) = Some e.
Proof.
  induction e using expr_ind'; intros Hwf.
  - reflexivity.
  - reflexivity.
  - cbn [wf_exprb] in Hwf. apply canonQb_true in Hwf. cbn [enc_expr enc_real_expr dec_expr].
    rewrite (py_fraction_num_den q Hwf). reflexivity.
  - cbn [wf_exprb] in Hwf. cbn [enc_expr sym_atom dec_expr atom_name dec_etype].
    rewrite (type_codec ut t Hwf). reflexivity.
  - cbn [wf_exprb] in Hwf. cbn [enc_expr enc_var fst snd sym_atom dec_expr atom_name dec_etype].
    rewrite (type_codec ut t Hwf). reflexivity.
  - cbn [wf_exprb] in Hwf. cbn [enc_expr sym_atom dec_expr]. destruct (obj_ty n) as [t'|]; [|discriminate].
    apply ty_eqb_eq in Hwf. subst. reflexivity.
  - (* fluent application *)
    cbn [wf_exprb] in Hwf. apply andb_true_iff in Hwf. destruct Hwf as [Hwf Hargs].
    apply andb_true_iff in Hwf. destruct Hwf as [Ho Hf].
    cbn [enc_expr dec_expr sym_atom dec_fluent_sym].
    destruct (obj_ty f) as [?|]; [discriminate|].
    destruct (fluent_ty f) as [t'|]; [|discriminate]. apply ty_eqb_eq in Hf. subst t'.
    rewrite (seq_opt_map enc_expr (dec_expr ut obj_ty fluent_ty) args); [reflexivity|].
    apply forallb_Forall in Hargs. rewrite Forall_forall in *. intros x Hx. apply H; auto.
  - (* operator application *)
    cbn [wf_exprb] in Hwf. cbn [enc_expr dec_expr sym_atom is_present is_time negb].
    rewrite (seq_opt_map enc_expr (dec_expr ut obj_ty fluent_ty) args); [reflexivity|].
    apply forallb_Forall in Hwf. rewrite Forall_forall in *. intros x Hx. apply H; auto.
  - (* quantifier *)
    cbn [wf_exprb] in Hwf. apply andb_true_iff in Hwf. destruct Hwf as [Hv Hb].
    cbn [enc_expr dec_expr sym_atom is_present is_time negb].
    rewrite (split_last_opt_app enc_var enc_expr (dec_var ut) (dec_expr ut obj_ty fluent_ty) vars e).
    + reflexivity.
    + intros v Hin. apply var_codec. apply forallb_Forall in Hv. rewrite Forall_forall in Hv. auto.
    + auto.
  - (* timing *)
    cbn [wf_exprb] in Hwf. unfold wf_timing_expb in Hwf. apply canonQb_true in Hwf.
    pose proof (timing_exp_codec t Hwf) as Hd.
    destruct (enc_timing_exp_shape t) as (l & El & Hl).
    cbn [enc_expr]. rewrite El in *. cbn [dec_expr].
    destruct l as [|hd rest]; [contradiction|]. rewrite Hl. cbn [is_time negb]. rewrite Hd. reflexivity.
  - reflexivity.
Qed.

(* ------------------------------------------------------------------ durations, effects, metrics *)
Section Compound.
  Variable ut : name -> bool.
  Variable obj_ty : name -> option ty.
  Variable fluent_ty : name -> option ty.
  Variable has_action : name -> bool.

  Theorem dinterval_codec i : wf_dintervalb ut obj_ty fluent_ty i = true ->
    dec_dinterval ut obj_ty fluent_ty (enc_dinterval i) = Some i.
  Proof.
    unfold wf_dintervalb. intros H. apply andb_true_iff in H. destruct H as [H1 H2].
    unfold dec_dinterval, enc_dinterval; simpl.
    rewrite (expr_codec _ _ _ _ H1), (expr_codec _ _ _ _ H2). destruct i; reflexivity.
  Qed.

  Lemma effkind_codec k : dec_effkind (effkind_num k) = k.
  Proof. destruct k; reflexivity. Qed.

  Theorem effect_codec e : wf_effectb ut obj_ty fluent_ty e = true ->
    dec_effect ut obj_ty fluent_ty (enc_effect e) = Some e.
  Proof.
    unfold wf_effectb. intros H. repeat (apply andb_true_iff in H; destruct H as [H ?]).
    unfold dec_effect, enc_effect; simpl.
    rewrite (expr_codec _ _ _ _ H), (expr_codec _ _ _ _ H2), (expr_codec _ _ _ _ H1).
    rewrite (seq_opt_map enc_var (dec_var ut) (ef_forall e)).
    - rewrite effkind_codec. destruct e; reflexivity.
    - apply forallb_Forall in H0. rewrite Forall_forall in *. intros v Hv. apply var_codec. auto.
  Qed.

  Theorem timed_effect_codec ot e :
    wf_effectb ut obj_ty fluent_ty e = true -> wf_opt wf_timingb ot = true ->
    dec_timed_effect ut obj_ty fluent_ty (enc_timed_effect ot e) = Some (ot, e).
  Proof.
    intros He Ht. unfold dec_timed_effect, enc_timed_effect; simpl. rewrite (effect_codec e He).
    destruct ot as [t|]; simpl in *; [rewrite (timing_codec t Ht)|]; reflexivity.
  Qed.

  Theorem condition_codec span c :
    wf_exprb ut obj_ty fluent_ty c = true -> wf_opt wf_tintervalb span = true ->
    dec_condition ut obj_ty fluent_ty (enc_condition span c) = Some (span, c).
  Proof.
    intros Hc Hs. unfold dec_condition, enc_condition; simpl. rewrite (expr_codec _ _ _ _ Hc).
    destruct span as [i|]; simpl in *; [rewrite (tinterval_codec i Hs)|]; reflexivity.
  Qed.

  Theorem metric_codec m : wf_metricb ut obj_ty fluent_ty has_action m = true ->
    dec_metric ut obj_ty fluent_ty has_action (enc_metric m) = Some m.
  Proof.
    destruct m as [costs default | | | e | e | goals | goals]; simpl; intros H.
    - apply andb_true_iff in H. destruct H as [Hc Hd]. unfold dec_metric; simpl.
      rewrite (seq_opt_map (fun ac => (fst ac, enc_expr (snd ac))) (dec_cost ut obj_ty fluent_ty has_action) costs).
      + destruct default as [d|]; simpl in *; [rewrite (expr_codec _ _ _ _ Hd)|]; reflexivity.
      + apply forallb_Forall in Hc. rewrite Forall_forall in *. intros [a c] Hin. specialize (Hc _ Hin). simpl in Hc.
        apply andb_true_iff in Hc. destruct Hc as [Ha Hc]. unfold dec_cost; simpl.
        rewrite Ha, (expr_codec _ _ _ _ Hc). reflexivity.
    - reflexivity.
    - reflexivity.
    - unfold dec_metric; simpl. rewrite (expr_codec _ _ _ _ H). reflexivity.
    - unfold dec_metric; simpl. rewrite (expr_codec _ _ _ _ H). reflexivity.
    - unfold dec_metric; simpl.
      rewrite (seq_opt_map (fun gw => (enc_expr (fst gw), enc_real (snd gw))) (dec_goal ut obj_ty fluent_ty) goals);
        [reflexivity|].
      apply forallb_Forall in H. rewrite Forall_forall in *. intros [g w] Hin. specialize (H _ Hin). simpl in H.
      apply andb_true_iff in H. destruct H as [Hg Hw]. apply canonQb_true in Hw. unfold dec_goal; cbn [fst snd].
      rewrite (expr_codec _ _ _ _ Hg), (real_codec w Hw). unfold canonQ in Hw. rewrite Hw. reflexivity.
    - unfold dec_metric; simpl.
      rewrite (seq_opt_map (fun igw => (enc_expr (snd (fst igw)), enc_tinterval (fst (fst igw)), enc_real (snd igw)))
                 (dec_timed_goal ut obj_ty fluent_ty) goals); [reflexivity|].
      apply forallb_Forall in H. rewrite Forall_forall in *. intros [[i g] w] Hin. specialize (H _ Hin). simpl in H.
      apply andb_true_iff in H. destruct H as [H Hw]. apply andb_true_iff in H. destruct H as [Hi Hg].
      apply canonQb_true in Hw. unfold dec_timed_goal; cbn [fst snd].
      rewrite (tinterval_codec i Hi), (expr_codec _ _ _ _ Hg), (real_codec w Hw). unfold canonQ in Hw. rewrite Hw.
      reflexivity.
  Qed.
End Compound.

(* ------------------------------------------------------------------ numeric constants as expressions *)
Lemma int_const_codec ut obj_ty fluent_ty z : dec_expr ut obj_ty fluent_ty (enc_int z) = Some (EInt z).
Proof. reflexivity. Qed.

Lemma real_const_codec ut obj_ty fluent_ty q : canonQ q ->
  dec_expr ut obj_ty fluent_ty (enc_real_expr q) = Some (EReal q).
Proof. intros H. apply (expr_codec ut obj_ty fluent_ty (EReal q)). apply canonQ_canonQb. exact H. Qed.

Lemma timepoint_codec_refuted : exists tp, dec_timepoint (enc_timepoint tp) <> Some tp.
Proof. exists {| tp_kind := Start; tp_container := Some 0%N |}. rewrite timepoint_empty_container_lost. discriminate. Qed.
