(* Tie between Planning/Ground.v's parameter substitution [psubst] and the C13 model of FNode.substitute
   (Walkers/Subst.v): on expressions the ExpressionManager can build ([Subst.nf]), the Substituter applied to the map
   {parameter: constant} that create_action_with_given_subs passes computes exactly [psubst]. *)
From Coq Require Import List ZArith NArith QArith Qcanon Bool.
Import ListNotations.
Require Import UPV.Core.Expr UPV.Core.Eval UPV.Core.Interp UPV.Planning.Problem UPV.Planning.Ground.
Require Import UPV.Proofs.Eval_lemmas UPV.Walkers.Subst UPV.Proofs.Subst_proofs.
Local Open Scope nat_scope.

(* subs = dict(zip(action.parameters, parameters)) as a substitution map of the C13 model *)
Definition pmap (sg : list (N * value)) : smap := map (fun pv => (EParam (fst pv), value_expr (snd pv))) sg.

Lemma assoc_pmap_param sg p : assoc (pmap sg) (EParam p) = option_map value_expr (lookupN p sg).
Proof.
  induction sg as [|[q v] sg IH]; [reflexivity|]. cbn [pmap map fst snd]. rewrite assoc_cons.
  cbn [expr_eqb lookupN]. destruct (p =? q)%N; [reflexivity | exact IH].
Qed.

Lemma assoc_pmap_other sg e : (forall p, e <> EParam p) -> assoc (pmap sg) e = None.
Proof.
  intros H. induction sg as [|[q v] sg IH]; [reflexivity|]. cbn [pmap map fst snd]. rewrite assoc_cons.
  destruct e; try exact IH. contradiction (H p). reflexivity.
Qed.

Lemma mentions_bound_param vs p : mentions_bound vs (EParam p) = false.
Proof. unfold mentions_bound. induction vs as [|x vs IH]; [reflexivity|]. cbn [existsb free_vars memN]. exact IH. Qed.

Lemma drop_bound_pmap sg vs : drop_bound (pmap sg) vs = pmap sg.
Proof.
  unfold drop_bound. induction sg as [|[q v] sg IH]; [reflexivity|]. cbn [pmap map filter fst snd].
  rewrite mentions_bound_param. cbn [negb]. f_equal. exact IH.
Qed.

Lemma is_not_value_expr v : is_not (value_expr v) = false.
Proof. destruct v as [b|q|o]; try reflexivity. unfold value_expr, num_node. destruct (_ =? _)%Z; reflexivity. Qed.

Lemma is_not_psubst sg e : is_not (psubst sg e) = is_not e.
Proof. destruct e; try reflexivity. cbn [psubst]. destruct (lookupN p sg); [apply is_not_value_expr | reflexivity]. Qed.

Lemma map_Forall_eq2 {A B} (Q : A -> bool) (f g : A -> B) l :
  Forall (fun x => Q x = true -> f x = g x) l -> forallb Q l = true -> map f l = map g l.
Proof.
  induction 1 as [|x l Hx _ IH]; [reflexivity|]. cbn [forallb map]. intros H. apply andb_true_iff in H.
  destruct H as [H1 H2]. rewrite (Hx H1), (IH H2). reflexivity.
Qed.

Theorem tr_psubst sg e : nf e = true -> topdown_replace (pmap sg) e = psubst sg e.
Proof.
  induction e using expr_ind'; intros Hnf; cbn [topdown_replace psubst];
    try (rewrite assoc_pmap_other by (intros ?; discriminate)); cbn [nf] in Hnf; nfsplit;
    try reflexivity;
    try (rewrite (map_Forall_eq2 nf _ (psubst sg)) by assumption);
    try (rewrite ?IHe, ?IHe1, ?IHe2 by assumption; reflexivity).
  - rewrite assoc_pmap_param. destruct (lookupN p sg); reflexivity.
  - apply mkAnd_two. rewrite two_plus_map. assumption.
  - apply mkOr_two. rewrite two_plus_map. assumption.
  - rewrite IHe by assumption. apply mkNot_plain. rewrite is_not_psubst. apply negb_true_iff. assumption.
  - rewrite drop_bound_pmap, IHe by assumption. reflexivity.
  - rewrite drop_bound_pmap, IHe by assumption. reflexivity.
  - apply mkPlus_two. rewrite two_plus_map. assumption.
  - apply mkTimes_two. rewrite two_plus_map. assumption.
Qed.

(* FNode.substitute(subs) with subs = {parameter: constant}, on a manager-built expression, is [psubst] *)
Theorem psubst_is_substitute sg e : nf e = true -> substitute (pmap sg) e = psubst sg e.
Proof. intros H. rewrite (subst_spec (pmap sg) e H). apply tr_psubst. exact H. Qed.
