(* C06 / C07, Layer A — facts about steps, runs and plans shared by the per-compiler proofs. *)
From Coq Require Import List ZArith NArith QArith Qcanon Bool Lia.
Import ListNotations.
Require Import UPV.Core.Expr UPV.Core.Eval UPV.Core.Interp UPV.Planning.Problem UPV.Planning.Sem.
Require Import UPV.Proofs.Eval_lemmas UPV.Proofs.Sem_proofs UPV.Proofs.Step_proofs.
Require Import UPV.Walkers.Subst UPV.Compilers.LayerA_Defs.
Local Open Scope nat_scope.

(* ------------------------------------------------------------------ extensional state equality *)
Lemma state_eq_refl s : state_eq s s.
Proof. intros f a; reflexivity. Qed.
Lemma state_eq_sym s t : state_eq s t -> state_eq t s.
Proof. intros H f a; symmetry; apply H. Qed.
Lemma state_eq_trans s t u : state_eq s t -> state_eq t u -> state_eq s u.
Proof. intros H1 H2 f a; rewrite H1; apply H2. Qed.

Lemma ostate_eq_refl o : ostate_eq o o.
Proof. destruct o; simpl; [apply state_eq_refl | exact I]. Qed.
Lemma ostate_eq_sym a b : ostate_eq a b -> ostate_eq b a.
Proof. destruct a, b; simpl; auto. apply state_eq_sym. Qed.
Lemma ostate_eq_trans a b c : ostate_eq a b -> ostate_eq b c -> ostate_eq a c.
Proof. destruct a, b, c; simpl; try tauto. apply state_eq_trans. Qed.

Lemma spec_fluent_ext P s t acts k : state_eq s t -> spec_fluent P s acts k = spec_fluent P t acts k.
Proof. intros H. unfold spec_fluent. rewrite (H (fst k) (snd k)). reflexivity. Qed.

Lemma spec_effects_ok_ext P s t acts : state_eq s t -> spec_effects_ok P s acts = spec_effects_ok P t acts.
Proof.
  intros H. unfold spec_effects_ok. generalize acts at 2 4. intros l.
  induction l as [|a l IH]; simpl; [reflexivity|]. rewrite (spec_fluent_ext P s t acts _ H), IH. reflexivity.
Qed.

Lemma spec_succ_ext P s t acts : state_eq s t -> state_eq (spec_succ P s acts) (spec_succ P t acts).
Proof. intros H f a. unfold spec_succ. rewrite (spec_fluent_ext P s t acts _ H), (H f a). reflexivity. Qed.

Lemma spec_step_ext sc P s t a args :
  state_eq s t -> ostate_eq (spec_step sc P s a args) (spec_step sc P t a args).
Proof.
  intros H. unfold spec_step.
  pose proof (mk_interp_ext P s t (zip_params (a_params a) args) H) as HI.
  rewrite (all_hold_ext sc _ _ (a_pre a) HI), (fired_ext sc (a_effs a) _ _ HI).
  destruct (negb (all_hold sc (mk_interp P t (zip_params (a_params a) args)) (a_pre a))); [exact I|].
  destruct (fired sc (mk_interp P t (zip_params (a_params a) args)) (a_effs a)) as [acts|]; [|exact I].
  rewrite (spec_effects_ok_ext P s t acts H).
  destruct (negb (spec_effects_ok P t acts)); [exact I|].
  rewrite (invariants_ok_ext sc P _ _ (spec_succ_ext P s t acts H)).
  destruct (invariants_ok sc P (spec_succ P t acts)); [|exact I].
  apply spec_succ_ext, H.
Qed.

Lemma goals_hold_ext sc P s t : state_eq s t -> goals_hold sc P s = goals_hold sc P t.
Proof. intros H. unfold goals_hold. apply all_hold_ext, mk_interp_ext, H. Qed.

Lemma run_ext sc P pi : forall s t, state_eq s t ->
  ostate_eq (run P (spec_step sc P) s pi) (run P (spec_step sc P) t pi).
Proof.
  induction pi as [|[aid args] pi IH]; intros s t H; simpl; [exact H|].
  destruct (lookup_action P aid) as [a|]; [|exact I].
  pose proof (spec_step_ext sc P s t a args H) as E.
  destruct (spec_step sc P s a args) as [s1|], (spec_step sc P t a args) as [t1|]; simpl in E; try contradiction;
    [apply IH; exact E | exact I].
Qed.

(* ------------------------------------------------------------------ action tables *)
Lemma lookupN_In {A} k (t : list (N * A)) v : lookupN k t = Some v -> In (k, v) t.
Proof.
  induction t as [|[k' w] t IH]; simpl; [discriminate|].
  destruct (k =? k')%N eqn:E.
  - intros H. inversion H; subst. apply N.eqb_eq in E. subst. left; reflexivity.
  - intros H. right. apply IH. exact H.
Qed.

Lemma lookupN_notin {A} k (t : list (N * A)) : ~ In k (map fst t) -> lookupN k t = None.
Proof.
  induction t as [|[k' w] t IH]; simpl; [reflexivity|]. intros H.
  destruct (k =? k')%N eqn:E.
  - apply N.eqb_eq in E. subst. exfalso. apply H. left; reflexivity.
  - apply IH. intros Hin. apply H. right; exact Hin.
Qed.

Lemma lookupN_unique {A} k (t : list (N * A)) v : NoDup (map fst t) -> In (k, v) t -> lookupN k t = Some v.
Proof.
  induction t as [|[k' w] t IH]; simpl; intros Hnd Hin; [destruct Hin|].
  inversion Hnd as [|? ? Hn Hnd']; subst. destruct Hin as [Hin|Hin].
  - inversion Hin; subst. rewrite N.eqb_refl. reflexivity.
  - destruct (k =? k')%N eqn:E.
    + apply N.eqb_eq in E. subst. exfalso. apply Hn. apply in_map_iff. exists (k', v). split; auto.
    + apply IH; assumption.
Qed.

Lemma map_actions_ids q l k : In k (map fst (map_actions q l)) -> In k (map fst l).
Proof.
  induction l as [|[i a] l IH]; simpl; [tauto|]. unfold map_actions in *. simpl.
  rewrite map_app, in_app_iff. intros [H|H]; [|right; apply IH; exact H].
  destruct (q a); simpl in H; [|destruct H]. destruct H as [<-|[]]. left; reflexivity.
Qed.

Lemma lookup_map_actions q l k : NoDup (map fst l) ->
  lookupN k (map_actions q l) = match lookupN k l with Some a => q a | None => None end.
Proof.
  induction l as [|[i a] l IH]; intros Hnd; [reflexivity|].
  inversion Hnd as [|? ? Hn Hnd']; subst. unfold map_actions in *. simpl.
  destruct (k =? i)%N eqn:E.
  - apply N.eqb_eq in E. subst i. destruct (q a) as [a'|]; simpl.
    + rewrite N.eqb_refl. reflexivity.
    + apply lookupN_notin. intros H. apply Hn. apply (map_actions_ids q l k). exact H.
  - destruct (q a) as [a'|]; simpl; [rewrite E|]; apply IH; exact Hnd'.
Qed.

(* ------------------------------------------------------------------ Boolean fluents hold Booleans *)
Lemma spec_succ_bool P s acts : bool_state P s -> bool_state P (spec_succ P s acts).
Proof.
  intros H f args Hf. unfold spec_succ, spec_fluent. cbn [fst snd]. rewrite Hf.
  destruct (avals (f, args) acts) as [|a A], (deltas (f, args) acts) as [|d D]; cbn [combine]; try apply H; try exact Hf.
  - destruct (H f args Hf) as [->|[b ->]]; [left; reflexivity | right; exists b; reflexivity].
  - right. eexists. reflexivity.
Qed.

Lemma spec_step_bool sc P s a args t : bool_state P s -> spec_step sc P s a args = Some t -> bool_state P t.
Proof.
  intros H. unfold spec_step.
  destruct (negb (all_hold sc _ (a_pre a))); [discriminate|].
  destruct (fired sc _ (a_effs a)) as [acts|]; [|discriminate].
  destruct (negb (spec_effects_ok P s acts)); [discriminate|].
  destruct (invariants_ok sc P (spec_succ P s acts)); [|discriminate].
  intros E. inversion E; subst. apply spec_succ_bool. exact H.
Qed.

(* ------------------------------------------------------------------ two problems over the same signature *)
Lemma spec_step_cong P P' s a a' args :
  p_objs P' = p_objs P -> p_ifun P' = p_ifun P -> p_fluents P' = p_fluents P -> a_params a' = a_params a ->
  let I := mk_interp P s (zip_params (a_params a) args) in
  all_hold false I (a_pre a') = all_hold false I (a_pre a) ->
  fired false I (a_effs a') = fired false I (a_effs a) ->
  (forall acts, fired false I (a_effs a) = Some acts ->
                invariants_ok false P' (spec_succ P s acts) = invariants_ok false P (spec_succ P s acts)) ->
  spec_step false P' s a' args = spec_step false P s a args.
Proof.
  intros Ho Hi Hf Hp I Hpre Hfi Hinv. unfold spec_step. rewrite Hp.
  assert (EI : mk_interp P' s (zip_params (a_params a) args) = I).
  { unfold I, mk_interp, objs_of. rewrite Ho, Hi. reflexivity. }
  rewrite EI. fold I. rewrite Hpre, Hfi.
  destruct (negb (all_hold false I (a_pre a))); [reflexivity|].
  destruct (fired false I (a_effs a)) as [acts|] eqn:EF; [|reflexivity].
  assert (E1 : spec_effects_ok P' s acts = spec_effects_ok P s acts).
  { unfold spec_effects_ok, spec_fluent, is_bool_fluent. rewrite Hf. reflexivity. }
  assert (E2 : spec_succ P' s acts = spec_succ P s acts).
  { unfold spec_succ, spec_fluent, is_bool_fluent. rewrite Hf. reflexivity. }
  rewrite E1, E2, (Hinv acts eq_refl). reflexivity.
Qed.

(* [collect_res] does not see skipped effect instances *)
Definition is_skip (r : eres) : bool := match r with ESkip => true | _ => false end.
Definition strip (L : list eres) : list eres := filter (fun r => negb (is_skip r)) L.

Lemma collect_res_strip L : collect_res L = collect_res (strip L).
Proof.
  induction L as [|r L IH]; [reflexivity|]. destruct r; simpl; [reflexivity | exact IH | rewrite IH; reflexivity].
Qed.

Lemma strip_app L1 L2 : strip (L1 ++ L2) = strip L1 ++ strip L2.
Proof. unfold strip. apply filter_app. Qed.

Lemma strip_flat_map {A} (f g : A -> list eres) l :
  (forall x, In x l -> strip (f x) = strip (g x)) -> strip (flat_map f l) = strip (flat_map g l).
Proof.
  induction l as [|x l IH]; intros H; [reflexivity|]. simpl. rewrite !strip_app.
  rewrite (H x (or_introl eq_refl)), IH; [reflexivity|]. intros y Hy. apply H. right; exact Hy.
Qed.

(* dropping the constant TRUE and duplicates does not change a conjunction *)
Lemma holds_true sc I e : is_true e = true -> holds sc I e = true.
Proof. destruct e; try discriminate. destruct b; [reflexivity | discriminate]. Qed.

Lemma all_hold_In sc I l e : all_hold sc I l = true -> In e l -> holds sc I e = true.
Proof. unfold all_hold. rewrite forallb_forall. auto. Qed.

(* bounded types only depend on the objects and the fluent declarations *)
Lemma arg_tuples_objs P P' sig : p_objs P' = p_objs P -> arg_tuples P' sig = arg_tuples P sig.
Proof.
  intros H. induction sig as [|t sig IH]; [reflexivity|]. cbn [arg_tuples]. unfold objs_of. rewrite H, IH. reflexivity.
Qed.

Lemma bound_invs_sig P P' : p_objs P' = p_objs P -> p_fluents P' = p_fluents P -> bound_invs P' = bound_invs P.
Proof.
  intros Ho Hf. unfold bound_invs. rewrite Hf. apply flat_map_ext. intros fd.
  destruct (fd_ty fd); try reflexivity. rewrite (arg_tuples_objs P P' _ Ho). reflexivity.
Qed.

Lemma spec_step_eq sc P s a args :
  spec_step sc P s a args =
  if negb (all_hold sc (mk_interp P s (zip_params (a_params a) args)) (a_pre a)) then None
  else match fired sc (mk_interp P s (zip_params (a_params a) args)) (a_effs a) with
       | None => None
       | Some acts =>
           if negb (spec_effects_ok P s acts) then None
           else if invariants_ok sc P (spec_succ P s acts) then Some (spec_succ P s acts) else None
       end.
Proof. reflexivity. Qed.

(* ------------------------------------------------------------------ problems that differ only in their actions *)
Section SameSig.
  Variables P P' : problem.
  Hypothesis Ho : p_objs P' = p_objs P.
  Hypothesis Hi : p_ifun P' = p_ifun P.
  Hypothesis Hf : p_fluents P' = p_fluents P.
  Hypothesis Hv : p_invs P' = p_invs P.

  Lemma mk_interp_same s pars : mk_interp P' s pars = mk_interp P s pars.
  Proof. unfold mk_interp, objs_of. rewrite Ho, Hi. reflexivity. Qed.

  Lemma invariants_ok_same s : invariants_ok false P' s = invariants_ok false P s.
  Proof. unfold invariants_ok. rewrite mk_interp_same, Hv, (bound_invs_sig P P' Ho Hf). reflexivity. Qed.

  Lemma spec_step_same s a args : spec_step false P' s a args = spec_step false P s a args.
  Proof. apply spec_step_cong; auto. intros acts _. apply invariants_ok_same. Qed.

  Lemma goals_hold_same s : p_goals P' = p_goals P -> goals_hold false P' s = goals_hold false P s.
  Proof. intros Hg. unfold goals_hold. rewrite mk_interp_same, Hg. reflexivity. Qed.
End SameSig.

(* two actions with different parameter lists / arguments that evaluate alike (grounding) *)
Lemma spec_step_cong2 P P' s a a' args args' :
  p_objs P' = p_objs P -> p_ifun P' = p_ifun P -> p_fluents P' = p_fluents P ->
  let I := mk_interp P s (zip_params (a_params a) args) in
  let I' := mk_interp P s (zip_params (a_params a') args') in
  all_hold false I' (a_pre a') = all_hold false I (a_pre a) ->
  fired false I' (a_effs a') = fired false I (a_effs a) ->
  (forall acts, fired false I (a_effs a) = Some acts ->
                invariants_ok false P' (spec_succ P s acts) = invariants_ok false P (spec_succ P s acts)) ->
  spec_step false P' s a' args' = spec_step false P s a args.
Proof.
  intros Ho Hi Hf I I' Hpre Hfi Hinv. rewrite !spec_step_eq.
  assert (EI : mk_interp P' s (zip_params (a_params a') args') = I').
  { unfold I', mk_interp, objs_of. rewrite Ho, Hi. reflexivity. }
  rewrite EI. fold I. rewrite Hpre, Hfi.
  destruct (negb (all_hold false I (a_pre a))); [reflexivity|].
  destruct (fired false I (a_effs a)) as [acts|] eqn:EF; [|reflexivity].
  assert (E1 : spec_effects_ok P' s acts = spec_effects_ok P s acts).
  { unfold spec_effects_ok, spec_fluent, is_bool_fluent. rewrite Hf. reflexivity. }
  assert (E2 : spec_succ P' s acts = spec_succ P s acts).
  { unfold spec_succ, spec_fluent, is_bool_fluent. rewrite Hf. reflexivity. }
  rewrite E1, E2, (Hinv acts eq_refl). reflexivity.
Qed.
