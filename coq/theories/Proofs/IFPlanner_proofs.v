(* Proofs about the refinement loop of the interpreted-functions planner (Model/IFPlanner.v). *)
From Coq Require Import List Arith Bool Lia.
Import ListNotations.
Require Import UPV.Model.Oversub UPV.Model.IFPlanner.

Section Sound.
  Variable plan K Obs : Type.
  Variable planner : K -> status * option plan.
  Variable validate : plan -> bool * Obs.
  Variable update : K -> Obs -> K.
  Variable size : K -> nat.

  Notation loop := (ifp_loop plan K Obs planner validate update size).

  (* whatever the engine, the compiler and the knowledge do: a returned plan passed the validation of the ORIGINAL
     problem, it comes with a positive status, and a non-positive status comes without a plan *)
  Lemma ifp_sound_any : forall fuel k st p,
      loop fuel k = Returned st (Some p) -> fst (validate p) = true /\ positive st = true.
  Proof.
    induction fuel as [|fuel IH]; intros k st p H; simpl in H; [discriminate|].
    destruct (planner k) as [st0 pl] eqn:Hp.
    destruct (positive st0) eqn:Hpos.
    - destruct pl as [p0|]; [|discriminate].
      destruct (validate p0) as [ok o] eqn:Hv.
      destruct ok.
      + inversion H; subst. rewrite Hv. auto.
      + destruct (size k <? size (update k o)); [eauto|discriminate].
    - discriminate.
  Qed.

  Lemma ifp_no_plan_status : forall fuel k st,
      loop fuel k = Returned st None -> positive st = false.
  Proof.
    induction fuel as [|fuel IH]; intros k st H; simpl in H; [discriminate|].
    destruct (planner k) as [st0 pl] eqn:Hp.
    destruct (positive st0) eqn:Hpos.
    - destruct pl as [p0|]; [|discriminate].
      destruct (validate p0) as [ok o] eqn:Hv.
      destruct ok; [discriminate|].
      destruct (size k <? size (update k o)); [eauto|discriminate].
    - inversion H; subst; auto.
  Qed.
End Sound.

Section Complete.
  Variable plan K Obs : Type.
  Variable planner : K -> status * option plan.
  Variable validate : plan -> bool * Obs.
  Variable update : K -> Obs -> K.
  Variable size : K -> nat.

  Notation loop := (ifp_loop plan K Obs planner validate update size).

  Variable valid : plan -> bool.              (* validity for the ORIGINAL problem *)
  Variable validC : K -> plan -> bool.        (* validity (after mapping back) for the problem compiled with knowledge k *)
  Variable consistent : K -> Prop.            (* every entry of k is a true value of its interpreted function *)
  Variable bound : nat.                       (* number of interpreted-function applications *)

  (* the validator decides validity for the original problem (C03) *)
  Hypothesis validate_exact : forall p, fst (validate p) = valid p.
  (* the underlying engine returns only valid plans ... *)
  Hypothesis engine_sound : forall k st pl, planner k = (st, pl) -> positive st = true ->
      exists p, pl = Some p /\ validC k p = true.
  (* ... and is complete *)
  Hypothesis engine_complete : forall k, (exists p, validC k p = true) -> positive (fst (planner k)) = true.
  (* H1: with consistent knowledge the compiled problem is a relaxation of the original *)
  Hypothesis relaxation : forall k p, consistent k -> valid p = true -> validC k p = true.
  (* H2: a plan of the compiled problem that fails validation teaches something new and true *)
  Hypothesis growth : forall k p, consistent k -> validC k p = true -> valid p = false ->
      consistent (update k (snd (validate p))) /\ size k < size (update k (snd (validate p))).
  (* ... and there are only [bound] function applications to learn *)
  Hypothesis finite : forall k, consistent k -> size k <= bound.

  Inductive good : outcome plan -> Prop :=
  | good_plan : forall st p, positive st = true -> valid p = true -> good (Returned st (Some p))
  | good_none : forall st, positive st = false -> (forall p, valid p = false) -> good (Returned st None).

  (* termination and correctness of the abstract refinement loop *)
  Lemma ifp_loop_good : forall n k fuel, consistent k -> bound - size k < n -> n <= fuel -> good (loop fuel k).
  Proof.
    induction n as [|n IH]; intros k fuel Hc Hn Hf; [lia|].
    destruct fuel as [|fuel]; [lia|].
    simpl.
    destruct (planner k) as [st pl] eqn:Hp.
    destruct (positive st) eqn:Hpos.
    - destruct (engine_sound k st pl Hp Hpos) as [p [-> Hvc]].
      destruct (validate p) as [ok o] eqn:Hv.
      pose proof (validate_exact p) as Hex. rewrite Hv in Hex. simpl in Hex.
      destruct ok.
      + constructor; auto.
      + destruct (growth k p Hc Hvc (eq_sym Hex)) as [Hc' Hlt]. rewrite Hv in Hc', Hlt. simpl in Hc', Hlt.
        destruct (size k <? size (update k o)) eqn:Hs; [|apply Nat.ltb_ge in Hs; lia].
        apply IH; auto.
        pose proof (finite _ Hc'). lia. lia.
    - constructor; auto.
      intro p. destruct (valid p) eqn:Hvp; auto.
      assert (positive (fst (planner k)) = true) as Habs
          by (apply engine_complete; exists p; apply relaxation; auto).
      rewrite Hp in Habs. simpl in Habs. congruence.
  Qed.

  Variable k0 : K.
  Hypothesis k0_consistent : consistent k0.

  Lemma ifp_complete_lemma : forall fuel, bound < fuel ->
      (exists p, valid p = true) ->
      exists st p, loop fuel k0 = Returned st (Some p) /\ positive st = true /\ valid p = true.
  Proof.
    intros fuel Hf [p0 Hp0].
    pose proof (ifp_loop_good (S bound) k0 fuel k0_consistent ltac:(lia) ltac:(lia)) as Hg.
    inversion Hg as [st p Hpos Hv Heq | st Hpos Hno Heq].
    - exists st, p. auto.
    - rewrite Hno in Hp0. discriminate.
  Qed.

  Lemma ifp_terminates_lemma : forall fuel, bound < fuel ->
      exists st pl, loop fuel k0 = Returned st pl.
  Proof.
    intros fuel Hf.
    pose proof (ifp_loop_good (S bound) k0 fuel k0_consistent ltac:(lia) ltac:(lia)) as Hg.
    inversion Hg; eauto.
  Qed.

  (* a negative answer is truthful: without a plan, the original problem has none *)
  Lemma ifp_negative_truthful : forall fuel st, bound < fuel ->
      loop fuel k0 = Returned st None -> forall p, valid p = false.
  Proof.
    intros fuel st Hf H.
    pose proof (ifp_loop_good (S bound) k0 fuel k0_consistent ltac:(lia) ltac:(lia)) as Hg.
    rewrite H in Hg. inversion Hg; auto.
  Qed.
End Complete.

(* Without the relaxation hypothesis completeness does not follow from a sound and complete engine: a compiled problem
   that is NOT a relaxation (here: no compiled plan at all, as InterpretedFunctionsRemover produces for the open findings
   C31-IF-EFFECT-CONDITION-READS-UNKNOWN / C31-IF-BOUNDED-STALE-VALUE) makes the loop answer UNSOLVABLE_PROVEN although
   the original problem has a valid plan (plan 0). *)
Lemma ifp_complete_needs_relaxation :
  exists (planner : nat -> status * option nat) (validate : nat -> bool * unit) (update : nat -> unit -> nat)
         (size : nat -> nat) (valid : nat -> bool) (validC : nat -> nat -> bool),
    (forall p, fst (validate p) = valid p) /\
    (forall k st pl, planner k = (st, pl) -> positive st = true -> exists p, pl = Some p /\ validC k p = true) /\
    (forall k, (exists p, validC k p = true) -> positive (fst (planner k)) = true) /\
    (forall k p, validC k p = true -> valid p = false -> size k < size (update k (snd (validate p)))) /\
    (exists p, valid p = true) /\
    forall fuel, ifp_loop nat nat unit planner validate update size (S fuel) 0 = Returned UnsolvProven None.
Proof.
  exists (fun _ => (UnsolvProven, None)), (fun p => (Nat.eqb p 0, tt)), (fun k _ => S k), (fun k => k),
         (fun p => Nat.eqb p 0), (fun _ _ => false).
  split; [reflexivity|]. split.
  { intros k st pl H Hpos. inversion H; subst. discriminate. }
  split. { intros k [p Hp]. discriminate. }
  split. { intros; discriminate. }
  split. { exists 0. reflexivity. }
  intro fuel. reflexivity.
Qed.
