(* C06 / C07, Layer A — UndefinedInitialNumericRemover: proofs about Compilers/LayerA_Uinr.v.
   Invariant [uinr_rel]: the companion of a tracked fluent says whether the original fluent has a value, and where it
   has one the compiled state holds the same value.
   1. [eval_guarded]: for related interpretations and an expression that reads tracked fluents only outside quantifiers,
      if all guards of the expression hold the compiled value is the original value, and if one guard fails the original
      is UNDEFINED (strict evaluation) - so `guards and e` holds exactly when `e` holds, wherever the read sits.
   2. [uinr_step]: the compiled action takes the original step (successors related again) under [action_ok].
   3. [uinr_valid_plan]: the two problems accept the same plans from related states.
   4. witnesses that [action_ok] cannot be dropped: [uinr_cond_read_incomplete]; [uinr_cond_assign_ok]: the former
      unsoundness witness (conditional assignment) is inside the fragment since fix c019d78. *)
From Coq Require Import List ZArith NArith QArith Qcanon Bool Lia.
Import ListNotations.
Require Import UPV.Core.Expr UPV.Core.Eval UPV.Core.Interp UPV.Planning.Problem UPV.Planning.Sem.
Require Import UPV.Proofs.Eval_lemmas UPV.Proofs.Sem_proofs UPV.Proofs.Step_proofs.
Require Import UPV.Walkers.Subst UPV.Proofs.Subst_proofs UPV.Proofs.Variants_proofs.
Require Import UPV.Compilers.Variants UPV.Compilers.LayerA_Defs UPV.Compilers.LayerA_Quant UPV.Compilers.LayerA_Uinr.
Require Import UPV.Proofs.LayerA_base UPV.Proofs.LayerA_Quant_proofs.
Local Open Scope nat_scope.

Lemma is_nil_eq {A} (l : list A) : is_nil l = true -> l = [].
Proof. destruct l; [reflexivity | discriminate]. Qed.

Lemma evals_l_is_evals sc I l : evals_l sc I l = evals sc I l.
Proof. induction l as [|x l IH]; [reflexivity|]. cbn [evals_l evals]. rewrite IH. reflexivity. Qed.

Lemma F2_map_eq {A B} (R : A -> A -> Prop) (f g : A -> B) l l' :
  Forall2 R l l' -> (forall x y, R x y -> f x = g y) -> map f l = map g l'.
Proof. induction 1; intros H'; simpl; [reflexivity|]. f_equal; auto. Qed.

(* ================================================================== 1. expressions *)
Section UinrEval.
  Variable umap : list (N * N).
  Notation uc := (ucomp umap).
  Notation isc := (is_ucomp umap).
  Notation rd := (reads umap).
  Notation urel := (urel_interp umap).

  Definition guards_hold (I' : interp) (rs : list fexp) : bool := forallb (fun r => holds false I' (gexp umap r)) rs.

  Lemma guards_app I' a b : guards_hold I' (a ++ b) = guards_hold I' a && guards_hold I' b.
  Proof. apply forallb_app. Qed.

  Lemma urel_bind I I' v o : urel I I' -> urel (bind_var I v o) (bind_var I' v o).
  Proof.
    intros (H1 & H2 & H3 & H4 & H5). repeat split; simpl; auto; try apply H5. intros w. destruct (w =? v)%N; auto.
  Qed.

  Lemma urel_instances vs : forall I I', urel I I' -> Forall2 urel (instances I vs) (instances I' vs).
  Proof.
    induction vs as [|[v t] vs IH]; intros I I' H; simpl.
    - constructor; [exact H | constructor].
    - assert (HH := H). destruct H as (H1 & H2 & H3 & H4 & H5). rewrite H4.
      induction (objs I t) as [|o os IHo]; simpl; [constructor|].
      apply Forall2_app; [apply IH, urel_bind, HH | exact IHo].
  Qed.

  (* the statement proved by induction *)
  Definition guarded (e : expr) : Prop :=
    forall I I', urel I I' -> uq umap e = true ->
      (guards_hold I' (rd e) = true -> eval false e I' = eval false e I) /\
      (guards_hold I' (rd e) = false -> eval false e I = None).

  (* argument lists *)
  Lemma guarded_list l I I' : Forall guarded l -> urel I I' -> forallb (uq umap) l = true ->
    (guards_hold I' (flat_map rd l) = true -> Forall (fun x => eval false x I' = eval false x I) l) /\
    (guards_hold I' (flat_map rd l) = false -> Exists (fun x => eval false x I = None) l).
  Proof.
    intros HF HR. induction HF as [|x l Hx _ IH]; intros Hq.
    - split; [constructor | discriminate].
    - cbn [forallb] in Hq. apply andb_true_iff in Hq. destruct Hq as [Hq1 Hq2].
      cbn [flat_map]. rewrite guards_app. destruct (Hx I I' HR Hq1) as [X1 X2]. destruct (IH Hq2) as [L1 L2].
      split.
      + intros H. apply andb_true_iff in H. destruct H as [G1 G2]. constructor; auto.
      + intros H. apply andb_false_iff in H. destruct H as [G|G]; [left; auto | right; auto].
  Qed.

  Lemma evals_eq_of l I I' : Forall (fun x => eval false x I' = eval false x I) l ->
    evals false I' l = evals false I l /\ ebools false I' l = ebools false I l /\ enums false I' l = enums false I l.
  Proof.
    induction 1 as [|x l Hx _ IH]; [repeat split|]. destruct IH as (A & B & C).
    cbn [evals ebools enums]. rewrite Hx, A, B, C. repeat split.
  Qed.

  Lemma evals_none_of l I : Exists (fun x => eval false x I = None) l ->
    evals false I l = None /\ ebools false I l = None /\ enums false I l = None.
  Proof.
    induction 1 as [x l Hx | x l _ IH].
    - cbn [evals ebools enums]. rewrite Hx. repeat split.
    - destruct IH as (A & B & C). cbn [evals ebools enums]. rewrite A, B, C.
      repeat split; [destruct (eval false x I) | destruct (as_bool (eval false x I)) | destruct (as_num (eval false x I))];
        reflexivity.
  Qed.

  Lemma ucomp_isc f d : uc f = Some d -> isc d = true.
  Proof.
    intros H. apply lookupN_In in H. unfold is_ucomp. apply existsb_exists. exists (f, d). split; [exact H | apply N.eqb_refl].
  Qed.

  Ltac list_case HF HR Hq l :=
    let L1 := fresh "L1" in let L2 := fresh "L2" in
    destruct (guarded_list l _ _ HF HR Hq) as [L1 L2]; split; intros G;
    [ destruct (evals_eq_of l _ _ (L1 G)) as (EA & EB & EC) | destruct (evals_none_of l _ (L2 G)) as (EA & EB & EC) ].

  Ltac bin_case IH1 IH2 HR Hq :=
    cbn [uq] in Hq; apply andb_true_iff in Hq; destruct Hq as [Hq1 Hq2];
    destruct (IH1 _ _ HR Hq1) as [A1 A2]; destruct (IH2 _ _ HR Hq2) as [B1 B2];
    cbn [reads]; rewrite guards_app; split; intros G;
    [ apply andb_true_iff in G; destruct G as [G1 G2]
    | apply andb_false_iff in G; destruct G as [G|G] ].

  Lemma eval_guarded e : guarded e.
  Proof.
    induction e using expr_ind'; intros I I' HR Hq; pose proof HR as (Hp & Hv & Hi & Ho & Hf1 & Hf2);
      try (split; [reflexivity | cbn; discriminate]).
    - (* EParam *) split; [intros _; cbn [eval]; apply Hp | cbn; discriminate].
    - (* EVar *) split; [intros _; cbn [eval]; apply Hv | cbn; discriminate].
    - (* EFluent *)
      cbn [uq] in Hq. apply andb_true_iff in Hq. destruct Hq as [Hc Hq]. apply negb_true_iff in Hc.
      cbn [reads]. rewrite !eval_EFluent.
      destruct (guarded_list args I I' H HR Hq) as [L1 L2].
      destruct (guards_hold I' (flat_map rd args)) eqn:GA.
      + destruct (evals_eq_of args _ _ (L1 eq_refl)) as (EA & _ & _). rewrite guards_app, GA. cbn [andb].
        rewrite EA. destruct (evals false I args) as [vs|] eqn:Ev.
        * destruct (uc f) as [d|] eqn:Ed.
          -- unfold guards_hold. cbn [forallb]. unfold gexp. cbn [fst snd]. rewrite Ed. unfold holds.
             rewrite eval_EFluent, EA, andb_true_r. specialize (Hf2 f d vs Ed).
             destruct (fl I f vs) as [v|].
             ++ destruct Hf2 as [Y1 Y2]. rewrite Y1, Y2. split; [reflexivity | discriminate].
             ++ rewrite Hf2. split; [discriminate | reflexivity].
          -- split; [intros _; apply Hf1; assumption | cbn; discriminate].
        * split; [reflexivity | reflexivity].
      + destruct (evals_none_of args _ (L2 eq_refl)) as (EA & _ & _). rewrite guards_app, GA. cbn [andb].
        rewrite EA. split; [discriminate | reflexivity].
    - (* EIFun *) cbn [uq] in Hq. cbn [reads]. rewrite !eval_EIFun. list_case H HR Hq args.
      + rewrite EA. destruct (evals false I args); [apply Hi | reflexivity].
      + rewrite EA. reflexivity.
    - (* EAnd *) cbn [uq] in Hq. cbn [reads]. rewrite !eval_EAnd. list_case H HR Hq l; rewrite EB; reflexivity.
    - (* EOr *) cbn [uq] in Hq. cbn [reads]. rewrite !eval_EOr. list_case H HR Hq l; rewrite EB; reflexivity.
    - (* ENot *) cbn [uq] in Hq. cbn [reads]. rewrite !eval_ENot. destruct (IHe I I' HR Hq) as [A1 A2].
      split; intros G; [rewrite (A1 G) | rewrite (A2 G)]; reflexivity.
    - (* EImplies *) rewrite !eval_EImplies. bin_case IHe1 IHe2 HR Hq.
      + rewrite (A1 G1), (B1 G2). reflexivity.
      + rewrite (A2 G). reflexivity.
      + rewrite (B2 G). destruct (as_bool (eval false e1 I)); reflexivity.
    - (* EIff *) rewrite !eval_EIff. bin_case IHe1 IHe2 HR Hq.
      + rewrite (A1 G1), (B1 G2). reflexivity.
      + rewrite (A2 G). reflexivity.
      + rewrite (B2 G). destruct (as_bool (eval false e1 I)); reflexivity.
    - (* EExists *) cbn [uq] in Hq. apply andb_true_iff in Hq. destruct Hq as [Hq Hn]. apply is_nil_eq in Hn.
      cbn [reads]. rewrite Hn. split; [intros _ | cbn; discriminate]. rewrite !eval_EExists. f_equal.
      rewrite (F2_map_eq urel (fun J => as_bool (eval false e J)) (fun J => as_bool (eval false e J))
                 _ _ (urel_instances vs I I' HR)); [reflexivity|].
      intros x y Hxy. destruct (IHe x y Hxy Hq) as [A1 _]. rewrite Hn in A1. rewrite (A1 eq_refl). reflexivity.
    - (* EForall *) cbn [uq] in Hq. apply andb_true_iff in Hq. destruct Hq as [Hq Hn]. apply is_nil_eq in Hn.
      cbn [reads]. rewrite Hn. split; [intros _ | cbn; discriminate]. rewrite !eval_EForall. f_equal.
      rewrite (F2_map_eq urel (fun J => as_bool (eval false e J)) (fun J => as_bool (eval false e J))
                 _ _ (urel_instances vs I I' HR)); [reflexivity|].
      intros x y Hxy. destruct (IHe x y Hxy Hq) as [A1 _]. rewrite Hn in A1. rewrite (A1 eq_refl). reflexivity.
    - (* EPlus *) cbn [uq] in Hq. cbn [reads]. rewrite !eval_EPlus. list_case H HR Hq l; rewrite EC; reflexivity.
    - (* EMinus *) rewrite !eval_EMinus. bin_case IHe1 IHe2 HR Hq.
      + rewrite (A1 G1), (B1 G2). reflexivity.
      + rewrite (A2 G). reflexivity.
      + rewrite (B2 G). destruct (as_num (eval false e1 I)); reflexivity.
    - (* ETimes *) cbn [uq] in Hq. cbn [reads]. rewrite !eval_ETimes. list_case H HR Hq l; rewrite EC; reflexivity.
    - (* EDiv *) rewrite !eval_EDiv. bin_case IHe1 IHe2 HR Hq.
      + rewrite (A1 G1), (B1 G2). reflexivity.
      + rewrite (A2 G). reflexivity.
      + rewrite (B2 G). destruct (as_num (eval false e1 I)); reflexivity.
    - (* ELe *) rewrite !eval_ELe. bin_case IHe1 IHe2 HR Hq.
      + rewrite (A1 G1), (B1 G2). reflexivity.
      + rewrite (A2 G). reflexivity.
      + rewrite (B2 G). destruct (as_num (eval false e1 I)); reflexivity.
    - (* ELt *) rewrite !eval_ELt. bin_case IHe1 IHe2 HR Hq.
      + rewrite (A1 G1), (B1 G2). reflexivity.
      + rewrite (A2 G). reflexivity.
      + rewrite (B2 G). destruct (as_num (eval false e1 I)); reflexivity.
    - (* EEquals *) rewrite !eval_EEquals. bin_case IHe1 IHe2 HR Hq.
      + rewrite (A1 G1), (B1 G2). reflexivity.
      + rewrite (A2 G). reflexivity.
      + rewrite (B2 G). destruct (eval false e1 I) as [[| |]|]; reflexivity.
    - (* EAlways *) split; intros _; reflexivity.
    - split; intros _; reflexivity.
    - split; intros _; reflexivity.
    - split; intros _; reflexivity.
    - split; intros _; reflexivity.
  Qed.
End UinrEval.

(* ================================================================== 2. small list facts *)
Lemma fexp_eqb_eq (a b : fexp) : fexp_eqb a b = true <-> a = b.
Proof.
  destruct a as [f l], b as [g m]. unfold fexp_eqb. cbn [fst snd]. rewrite andb_true_iff, N.eqb_eq, lexpr_eqb_eq.
  split; [intros [-> ->]; reflexivity | intros H; inversion H; auto].
Qed.

Lemma In_dedup_f x l : In x (dedup_f l) <-> In x l.
Proof.
  induction l as [|y l IH]; [tauto|]. cbn [dedup_f]. split.
  - intros [H|H]; [left; exact H|]. apply filter_In in H. right. apply IH. tauto.
  - intros [H|H]; [left; exact H|]. destruct (fexp_eqb y x) eqn:E.
    + apply fexp_eqb_eq in E. left; exact E.
    + right. apply filter_In. split; [apply IH; exact H | rewrite E; reflexivity].
Qed.

Lemma forallb_same_elems {A} (p : A -> bool) l l' : (forall x, In x l <-> In x l') -> forallb p l = forallb p l'.
Proof.
  intros H. destruct (forallb p l) eqn:E1, (forallb p l') eqn:E2; try reflexivity; exfalso.
  - rewrite forallb_forall in E1. assert (forallb p l' = true) by (apply forallb_forall; intros x Hx; apply E1, H, Hx). congruence.
  - rewrite forallb_forall in E2. assert (forallb p l = true) by (apply forallb_forall; intros x Hx; apply E2, H, Hx). congruence.
Qed.

Lemma all_hold_fold_add_pre sc I l : forall acc,
  all_hold sc I (fold_left add_pre l acc) = all_hold sc I acc && all_hold sc I l.
Proof.
  induction l as [|p l IH]; intros acc; cbn [fold_left].
  - cbn [all_hold forallb]. rewrite andb_true_r. reflexivity.
  - rewrite IH. unfold add_pre. change (all_hold sc I (p :: l)) with (holds sc I p && all_hold sc I l).
    destruct (is_true p) eqn:Et; cbn [orb].
    + rewrite (holds_true sc I p Et). reflexivity.
    + destruct (existsb (expr_eqb p) acc) eqn:Em.
      * destruct (all_hold sc I acc) eqn:Ea; [|reflexivity].
        apply existsb_exists in Em. destruct Em as [q [Hq Eq]]. apply expr_eqb_eq in Eq. subst q.
        rewrite (all_hold_In sc I acc p Ea Hq). reflexivity.
      * rewrite all_hold_app'. change (all_hold sc I [p]) with (holds sc I p && true). rewrite andb_true_r.
        rewrite andb_assoc. reflexivity.
Qed.

Lemma flat_map_nil {A B} (f : A -> list B) l : (forall x, In x l -> f x = []) -> flat_map f l = [].
Proof. induction l as [|x l IH]; intros H; [reflexivity|]. simpl. rewrite (H x (or_introl eq_refl)), IH; auto. intros y Hy. apply H. right; exact Hy. Qed.

Lemma flat_map_ext_in' {A B} (f g : A -> list B) l : (forall x, In x l -> f x = g x) -> flat_map f l = flat_map g l.
Proof. induction l as [|x l IH]; intros H; [reflexivity|]. simpl. rewrite (H x (or_introl eq_refl)), IH; auto. intros y Hy. apply H. right; exact Hy. Qed.

Lemma combine_all_true isb old A : Forall (fun v => v = VBool true) A ->
  combine isb old A [] = match A with [] => CUnchanged | _ => CVal (VBool true) end.
Proof.
  intros H. destruct A as [|a rest]; [reflexivity|]. inversion H as [|? ? Ha Hr]; subst. cbn [combine].
  destruct isb; [reflexivity|].
  assert (E : forallb (value_eqb (VBool true)) rest = true).
  { apply forallb_forall. intros v Hv. rewrite Forall_forall in Hr. rewrite (Hr v Hv). reflexivity. }
  rewrite E. reflexivity.
Qed.

Lemma combine_old_irrelevant isb o1 o2 A D : (D <> [] -> A = [] -> o1 = o2) -> combine isb o1 A D = combine isb o2 A D.
Proof.
  intros H. destruct A as [|a A], D as [|d D]; try reflexivity. rewrite (H ltac:(discriminate) eq_refl). reflexivity.
Qed.

Lemma avals_app k l1 l2 : avals k (l1 ++ l2) = avals k l1 ++ avals k l2.
Proof. unfold avals. rewrite filter_app, map_app. reflexivity. Qed.
Lemma deltas_app k l1 l2 : deltas k (l1 ++ l2) = deltas k l1 ++ deltas k l2.
Proof. unfold deltas. rewrite filter_app, map_app. reflexivity. Qed.

Lemma no_key_nil k l : (forall x, In x l -> gfl_eqb (ae_key x) k = false) -> avals k l = [] /\ deltas k l = [].
Proof.
  intros H. unfold avals, deltas. induction l as [|x l IH]; [split; reflexivity|].
  cbn [filter]. rewrite (H x (or_introl eq_refl)). cbn [andb]. apply IH. intros y Hy. apply H. right; exact Hy.
Qed.

Lemma in_deltas_ex k l : deltas k l <> [] -> exists y, In y l /\ ae_key y = k /\ is_assign y = false.
Proof.
  unfold deltas. induction l as [|x l IH]; [intros H; exfalso; apply H; reflexivity|]. cbn [filter].
  destruct (gfl_eqb (ae_key x) k && negb (is_assign x)) eqn:E.
  - intros _. apply andb_true_iff in E. destruct E as [E1 E2]. apply gfl_eqb_eq in E1. apply negb_true_iff in E2.
    exists x. repeat split; auto. left; reflexivity.
  - intros H. destruct (IH H) as [y [Hy Hk]]. exists y. split; [right; exact Hy | exact Hk].
Qed.

Lemma in_key_ex k l : (avals k l <> [] \/ deltas k l <> []) -> exists y, In y l /\ ae_key y = k.
Proof.
  intros [H|H].
  - destruct (avals k l) as [|v A] eqn:E; [exfalso; apply H; reflexivity|].
    assert (Hv : In v (avals k l)) by (rewrite E; left; reflexivity). apply in_avals in Hv.
    destruct Hv as [y [Hy [Hk _]]]. apply gfl_eqb_eq in Hk. exists y. split; assumption.
  - destruct (in_deltas_ex k l H) as [y [Hy [Hk _]]]. exists y. split; assumption.
Qed.

Lemma key_in_nonempty k l y : In y l -> ae_key y = k -> avals k l <> [] \/ deltas k l <> [].
Proof.
  intros Hy Hk. destruct (is_assign y) eqn:Ea.
  - left. intros E. assert (Hv : In (ae_val y) (avals k l)).
    { apply in_avals. exists y. repeat split; auto. rewrite Hk. apply gfl_eqb_refl. }
    rewrite E in Hv. destruct Hv.
  - right. unfold deltas. intros E.
    assert (Hin : In y (filter (fun a => gfl_eqb (ae_key a) k && negb (is_assign a)) l)).
    { apply filter_In. split; [exact Hy|]. rewrite Hk, gfl_eqb_refl, Ea. reflexivity. }
    destruct (filter (fun a => gfl_eqb (ae_key a) k && negb (is_assign a)) l); [destruct Hin | discriminate].
Qed.

Lemma nodupN_NoDup' l : nodupN l = true -> NoDup l.
Proof.
  induction l as [|x l IH]; intros H; [constructor|]. apply nodupN_cons in H. destruct H as [H1 H2].
  constructor; [exact H1 | apply IH; exact H2].
Qed.

Lemma forallb_map_comp {A B} (f : B -> bool) (g : A -> B) l : forallb f (map g l) = forallb (fun x => f (g x)) l.
Proof. induction l as [|x l IH]; [reflexivity|]. simpl. rewrite IH. reflexivity. Qed.

Lemma forallb_ext_in' {A} (f g : A -> bool) l : (forall x, In x l -> f x = g x) -> forallb f l = forallb g l.
Proof. induction l as [|x l IH]; intros H; [reflexivity|]. simpl. rewrite (H x (or_introl eq_refl)), IH; auto. intros y Hy. apply H. right; exact Hy. Qed.

Lemma combine_unchanged isb old A D : combine isb old A D = CUnchanged -> A = [] /\ D = [].
Proof.
  destruct A as [|a A], D as [|d D]; cbn [combine]; try discriminate; auto.
  - destruct old as [[| |]|]; try discriminate. destruct (sum_deltas q (d :: D)); discriminate.
  - destruct isb; [discriminate|]. destruct (forallb (value_eqb a) A); discriminate.
Qed.

Lemma deltas_all_assign k l : (forall x, In x l -> is_assign x = true) -> deltas k l = [].
Proof.
  intros H. unfold deltas. induction l as [|x l IH]; [reflexivity|]. cbn [filter].
  rewrite (H x (or_introl eq_refl)). cbn [negb]. rewrite andb_false_r. apply IH. intros y Hy. apply H. right; exact Hy.
Qed.

Lemma effect_eqb_eq (a b : effect) : effect_eqb a b = true -> a = b.
Proof.
  destruct a as [f1 a1 v1 c1 k1 w1 b1], b as [f2 a2 v2 c2 k2 w2 b2]. unfold effect_eqb. cbn [e_fl e_args e_val e_cond e_kind e_vars e_isbool].
  intros H. nfsplit.
  repeat match goal with
         | Hq : (_ =? _)%N = true |- _ => apply N.eqb_eq in Hq
         | Hq : list_expr_eqb _ _ = true |- _ => apply lexpr_eqb_eq in Hq
         | Hq : expr_eqb _ _ = true |- _ => apply expr_eqb_eq in Hq
         | Hq : vars_eqb _ _ = true |- _ => apply vars_eqb_eq in Hq
         | Hq : Bool.eqb _ _ = true |- _ => apply Bool.eqb_prop in Hq
         end.
  subst. destruct k1, k2; try discriminate; reflexivity.
Qed.

Lemma In_dedup_e x l : In x (dedup_e l) <-> In x l.
Proof.
  induction l as [|y l IH]; [tauto|]. cbn [dedup_e]. split.
  - intros [H|H]; [left; exact H|]. apply filter_In in H. right. apply IH. tauto.
  - intros [H|H]; [left; exact H|]. destruct (effect_eqb y x) eqn:E.
    + apply effect_eqb_eq in E. left; exact E.
    + right. apply filter_In. split; [apply IH; exact H | rewrite E; reflexivity].
Qed.

Lemma in_eres_of I r effs : In r (eres_of I effs) <-> exists e, In e effs /\ In r (piece I e).
Proof. unfold eres_of. rewrite in_flat_map. reflexivity. Qed.

(* ================================================================== 3. the step *)
Section UinrStep.
  Variable umap : list (N * N).
  Variable P : problem.
  Notation uc := (ucomp umap).
  Notation isc := (is_ucomp umap).
  Notation rd := (reads umap).
  Notation urel := (urel_interp umap).
  Notation P' := (uinr_compile umap P).
  Hypothesis Hmap : umap_ok umap P = true.

  (* ---- facts about the table *)
  Lemma umap_facts :
    NoDup (map snd umap) /\ (forall f d, uc f = Some d -> isc f = false) /\
    (forall fd, In fd (p_fluents P) -> isc (fd_id fd) = false) /\
    (forall fd d, In fd (p_fluents P) -> uc (fd_id fd) = Some d -> fd_ty fd = FNum None None).
  Proof.
    unfold umap_ok in Hmap. nfsplit. repeat split.
    - apply nodupN_NoDup'. assumption.
    - intros f d Hf. apply lookupN_In in Hf.
      match goal with Hq : forallb (fun p => negb (is_ucomp umap (fst p))) umap = true |- _ =>
        rewrite forallb_forall in Hq; specialize (Hq _ Hf); apply negb_true_iff in Hq; exact Hq end.
    - intros fd Hfd.
      match goal with Hq : forallb (fun fd => negb (is_ucomp umap (fd_id fd))) _ = true |- _ =>
        rewrite forallb_forall in Hq; specialize (Hq _ Hfd); apply negb_true_iff in Hq; exact Hq end.
    - intros fd d Hfd Hn.
      match goal with Hq : forallb (fun fd => match ucomp umap (fd_id fd) with Some _ => _ | None => true end) _ = true |- _ =>
        rewrite forallb_forall in Hq; specialize (Hq _ Hfd); rewrite Hn in Hq;
        destruct (fd_ty fd) as [|[?|] [?|]|]; try discriminate; reflexivity end.
  Qed.

  Lemma uc_inj f1 f2 d : uc f1 = Some d -> uc f2 = Some d -> f1 = f2.
  Proof.
    intros H1 H2. apply lookupN_In in H1. apply lookupN_In in H2. destruct umap_facts as [Hnd _].
    clear -H1 H2 Hnd. induction umap as [|[a b] l IH]; [destruct H1|]. cbn [map snd] in Hnd.
    inversion Hnd as [|? ? Hn Hnd']; subst. destruct H1 as [H1|H1], H2 as [H2|H2].
    - inversion H1; inversion H2; subst. reflexivity.
    - inversion H1; subst. exfalso. apply Hn. apply in_map_iff. exists (f2, d). split; [reflexivity | exact H2].
    - inversion H2; subst. exfalso. apply Hn. apply in_map_iff. exists (f1, d). split; [reflexivity | exact H1].
    - apply IH; assumption.
  Qed.

  Lemma isc_ex g : isc g = true -> exists f, uc f = Some g.
  Proof.
    unfold is_ucomp. rewrite existsb_exists. intros [[f d] [Hin E]]. cbn [snd] in E. apply N.eqb_eq in E. subst d.
    exists f. unfold ucomp. apply lookupN_unique; [|exact Hin]. apply nodupN_NoDup'.
    unfold umap_ok in Hmap. nfsplit. assumption.
  Qed.

  (* ---- interpretations, pure expressions, conditions *)
  Lemma urel_mk s s' pars : uinr_rel umap s s' -> urel (mk_interp P s pars) (mk_interp P' s' pars).
  Proof. intros H. repeat split; try apply H. Qed.

  Lemma pure_eval e J J' : urel J J' -> upure umap e = true -> eval false e J' = eval false e J.
  Proof.
    intros HR Hp. unfold upure in Hp. apply andb_true_iff in Hp. destruct Hp as [Hq Hn]. apply is_nil_eq in Hn.
    destruct (eval_guarded umap e J J' HR Hq) as [A _]. rewrite Hn in A. apply A. reflexivity.
  Qed.

  Lemma pure_evals_l l J J' : urel J J' -> forallb (upure umap) l = true -> evals_l false J' l = evals_l false J l.
  Proof.
    intros HR. induction l as [|x l IH]; intros H; [reflexivity|]. cbn [forallb] in H. apply andb_true_iff in H.
    destruct H as [H1 H2]. cbn [evals_l]. rewrite (pure_eval x J J' HR H1), (IH H2). reflexivity.
  Qed.

  Lemma pure_holds e J J' : urel J J' -> upure umap e = true -> holds false J' e = holds false J e.
  Proof. intros HR Hp. unfold holds. rewrite (pure_eval e J J' HR Hp). reflexivity. Qed.

  (* the condition-level statement: the guards as extra conjuncts reproduce "an undefined read is not satisfied" *)
  Lemma guarded_cond e J J' : urel J J' -> uq umap e = true ->
    holds false J' e && guards_hold umap J' (rd e) = holds false J e.
  Proof.
    intros HR Hq. destruct (eval_guarded umap e J J' HR Hq) as [A B]. destruct (guards_hold umap J' (rd e)).
    - rewrite andb_true_r. unfold holds. rewrite (A eq_refl). reflexivity.
    - rewrite andb_false_r. unfold holds. rewrite (B eq_refl). reflexivity.
  Qed.

  Lemma guards_in J' l x : guards_hold umap J' (flat_map rd l) = true -> In x l -> guards_hold umap J' (rd x) = true.
  Proof.
    unfold guards_hold. rewrite !forallb_forall. intros H Hx r Hr. apply H. apply in_flat_map. exists x. split; assumption.
  Qed.

  Lemma guards_false_ex J' l : guards_hold umap J' (flat_map rd l) = false ->
    exists x, In x l /\ guards_hold umap J' (rd x) = false.
  Proof.
    induction l as [|x l IH]; [discriminate|]. cbn [flat_map]. rewrite guards_app. intros H.
    apply andb_false_iff in H. destruct H as [H|H].
    - exists x. split; [left; reflexivity | exact H].
    - destruct (IH H) as [y [Hy Gy]]. exists y. split; [right; exact Hy | exact Gy].
  Qed.

  Lemma conds_guarded J J' l : urel J J' -> forallb (uq umap) l = true ->
    all_hold false J' l && guards_hold umap J' (flat_map rd l) = all_hold false J l.
  Proof.
    intros HR. induction l as [|x l IH]; intros Hq; [reflexivity|]. cbn [forallb] in Hq. apply andb_true_iff in Hq.
    destruct Hq as [H1 H2]. cbn [flat_map]. rewrite guards_app.
    change (all_hold false J' (x :: l)) with (holds false J' x && all_hold false J' l).
    change (all_hold false J (x :: l)) with (holds false J x && all_hold false J l).
    rewrite <- (guarded_cond x J J' HR H1), <- (IH H2).
    destruct (holds false J' x), (all_hold false J' l), (guards_hold umap J' (rd x)), (guards_hold umap J' (flat_map rd l)); reflexivity.
  Qed.

  Lemma guards_as_conds J' rs : all_hold false J' (map (gexp umap) (dedup_f rs)) = guards_hold umap J' rs.
  Proof.
    unfold all_hold, guards_hold. rewrite forallb_map_comp. apply forallb_same_elems. intros x. apply In_dedup_f.
  Qed.

  (* a guard that holds: the companion is true, hence the original fluent has the value of the compiled one *)
  Lemma guard_true J J' f d l vs rs : urel J J' -> uc f = Some d -> In (f, l) rs -> guards_hold umap J' rs = true ->
    evals false J' l = Some vs ->
    fl J' d vs = Some (VBool true) /\ exists v, fl J f vs = Some v /\ fl J' f vs = Some v.
  Proof.
    intros HR Hd Hin HG Ev. unfold guards_hold in HG. rewrite forallb_forall in HG. specialize (HG _ Hin).
    unfold gexp in HG. cbn [fst snd] in HG. rewrite Hd in HG. unfold holds in HG. rewrite eval_EFluent, Ev in HG.
    destruct HR as (_ & _ & _ & _ & _ & H2). specialize (H2 f d vs Hd).
    destruct (fl J' d vs) as [[[|]| |]|] eqn:Ed; try discriminate. split; [reflexivity|].
    destruct (fl J f vs) as [v|]; [exists v; split; [reflexivity | apply H2] | congruence].
  Qed.

  (* ---- effects *)
  Lemma eff_shape e : effect_ok umap e = true ->
    isc (e_fl e) = false /\ forallb (upure umap) (e_args e) = true /\ uq umap (e_val e) = true /\
    uq umap (e_cond e) = true /\
    ((e_cond e = EBool true /\ e_vars e = []) \/
     (upure umap (e_val e) = true /\
      ((e_vars e = [] /\ (uc (e_fl e) = None \/ e_kind e = KAssign)) \/
       (uc (e_fl e) = None /\ upure umap (e_cond e) = true)))).
  Proof.
    unfold effect_ok. intros H. apply andb_true_iff in H. destruct H as [H H5]. apply andb_true_iff in H. destruct H as [H H4].
    apply andb_true_iff in H. destruct H as [H H3]. apply andb_true_iff in H. destruct H as [H1 H2].
    apply negb_true_iff in H1. repeat split; try assumption.
    destruct (is_uncond e && is_nil (e_vars e)) eqn:E.
    - left. apply andb_true_iff in E. destruct E as [E1 E2]. split; [apply is_true_eq; exact E1 | apply is_nil_eq; exact E2].
    - right. apply andb_true_iff in H5. destruct H5 as [H5 H6]. split; [exact H5|].
      destruct (is_nil (e_vars e)) eqn:En.
      + left. split; [apply is_nil_eq; exact En|]. destruct (uc (e_fl e)); [right | left; reflexivity].
        unfold is_kassign in H6. destruct (e_kind e); [reflexivity | discriminate | discriminate].
      + right. apply andb_true_iff in H6. destruct H6 as [H6 H7]. split; [|exact H7].
        destruct (uc (e_fl e)); [discriminate | reflexivity].
  Qed.

  Lemma eval_effect_eq J J' e : urel J J' -> forallb (upure umap) (e_args e) = true ->
    eval false (e_cond e) J' = eval false (e_cond e) J -> eval false (e_val e) J' = eval false (e_val e) J ->
    eval_effect false J' e = eval_effect false J e.
  Proof. intros HRJ Ha Hc Hv. unfold eval_effect. rewrite (pure_evals_l _ J J' HRJ Ha), Hc, Hv. reflexivity. Qed.

  Lemma eval_effect_act J e y : eval_effect false J e = EAct y ->
    fst (ae_key y) = e_fl e /\ ae_kind y = e_kind e /\ evals_l false J (e_args e) = Some (snd (ae_key y)) /\
    eval false (e_cond e) J = Some (VBool true).
  Proof.
    unfold eval_effect. destruct (evals_l false J (e_args e)); [|discriminate].
    destruct (eval false (e_cond e) J) as [[[|]| |]|]; try discriminate.
    destruct (eval false (e_val e) J); [|discriminate]. intros E. inversion E; subst. cbn. auto.
  Qed.

  Variables (s s' : state) (a : action) (args : list value).
  Hypothesis HRs : uinr_rel umap s s'.
  Hypothesis Hok : action_ok umap a = true.
  Notation pars := (zip_params (a_params a) args).
  Notation I := (mk_interp P s pars).
  Notation I' := (mk_interp P' s' pars).
  Notation effs := (a_effs a).
  Notation acts := (acts_of (eres_of I effs)).

  Lemma HR : urel I I'.
  Proof. apply urel_mk, HRs. Qed.

  Lemma Hpre : forallb (uq umap) (a_pre a) = true.
  Proof. unfold action_ok in Hok. apply andb_true_iff in Hok. tauto. Qed.

  Lemma Heff e : In e effs -> effect_ok umap e = true.
  Proof. unfold action_ok in Hok. apply andb_true_iff in Hok. destruct Hok as [_ H]. rewrite forallb_forall in H. apply H. Qed.

  Lemma in_exprs_pre x : In x (a_pre a) -> In x (a_exprs a).
  Proof. intros H. unfold a_exprs. apply in_or_app. left; exact H. Qed.
  Lemma in_exprs_val e : In e effs -> In (e_val e) (a_exprs a).
  Proof. intros H. unfold a_exprs. apply in_or_app. right. apply in_or_app. left. apply in_map. exact H. Qed.
  Lemma in_exprs_cond e : In e effs -> In (e_cond e) (a_exprs a).
  Proof. intros H. unfold a_exprs. apply in_or_app. right. apply in_or_app. right. apply in_or_app. right. apply in_map. exact H. Qed.
  Lemma in_exprs_tgt e : In e effs -> e_kind e <> KAssign -> In (EFluent (e_fl e) (e_args e)) (a_exprs a).
  Proof.
    intros H Hk. unfold a_exprs. apply in_or_app. right. apply in_or_app. right. apply in_or_app. left.
    unfold inc_targets. apply in_flat_map. exists e. split; [exact H|]. destruct (e_kind e); [congruence | left; reflexivity | left; reflexivity].
  Qed.

  Lemma exprs_uq x : In x (a_exprs a) -> uq umap x = true.
  Proof.
    unfold a_exprs. rewrite !in_app_iff. intros [H|[H|[H|H]]].
    - pose proof Hpre as Hp. rewrite forallb_forall in Hp. apply Hp, H.
    - apply in_map_iff in H. destruct H as [e [<- He]]. apply (eff_shape e (Heff e He)).
    - unfold inc_targets in H. apply in_flat_map in H. destruct H as [e [He H]].
      destruct (eff_shape e (Heff e He)) as (Hc & Ha & _).
      assert (Hx : x = EFluent (e_fl e) (e_args e)) by (destruct (e_kind e); [destruct H | destruct H as [H|[]]; auto | destruct H as [H|[]]; auto]).
      subst x. cbn [uq]. rewrite Hc. cbn [negb andb]. apply forallb_forall. intros z Hz. rewrite forallb_forall in Ha.
      specialize (Ha z Hz). unfold upure in Ha. apply andb_true_iff in Ha. tauto.
    - apply in_map_iff in H. destruct H as [e [<- He]]. apply (eff_shape e (Heff e He)).
  Qed.

  (* an effect on a tracked fluent has no forall variables: it yields exactly one instance *)
  Lemma tracked_vars e d : In e effs -> uc (e_fl e) = Some d -> e_vars e = [].
  Proof.
    intros He Hd. destruct (eff_shape e (Heff e He)) as (_ & _ & _ & _ & [[_ Hn]|(_ & [[Hn _]|[Hu _]])]); [assumption | assumption | congruence].
  Qed.

  Lemma tracked_piece e d : In e effs -> uc (e_fl e) = Some d -> piece I e = [eval_effect false I e].
  Proof. intros He Hd. unfold piece. rewrite (tracked_vars e d He Hd). reflexivity. Qed.

  Lemma act_origin y : In y acts ->
    exists e J, In e effs /\ In J (instances I (e_vars e)) /\ eval_effect false J e = EAct y.
  Proof.
    intros H. apply in_acts_of in H. unfold eres_of in H. apply in_flat_map in H. destruct H as [e [He H]].
    apply in_map_iff in H. destruct H as [J [E HJ]]. exists e, J. auto.
  Qed.

  Lemma act_noncomp y : In y acts -> isc (fst (ae_key y)) = false.
  Proof.
    intros H. destruct (act_origin y H) as [e [J (He & _ & E)]]. destruct (eval_effect_act J e y E) as [-> _].
    apply (eff_shape e (Heff e He)).
  Qed.

  Lemma tracked_act y d : In y acts -> uc (fst (ae_key y)) = Some d ->
    exists e, In e effs /\ e_fl e = fst (ae_key y) /\ ae_kind y = e_kind e /\
              evals_l false I (e_args e) = Some (snd (ae_key y)) /\ eval false (e_cond e) I = Some (VBool true).
  Proof.
    intros H Hd. destruct (act_origin y H) as [e [J (He & HJ & E)]]. destruct (eval_effect_act J e y E) as (E1 & E2 & E3 & E4).
    exists e. rewrite E1 in Hd. rewrite (tracked_vars e d He Hd) in HJ. cbn [instances] in HJ. destruct HJ as [<-|[]]. auto.
  Qed.

  (* ---- the added effects *)
  Definition tres (d : N) (e : effect) : Sem.eres :=
    match evals_l false I' (e_args e) with
    | Some vs => match eval false (e_cond e) I' with
                 | Some (VBool true) => EAct {| ae_key := (d, vs); ae_kind := KAssign; ae_val := VBool true |}
                 | Some _ => ESkip
                 | None => EErr
                 end
    | None => EErr
    end.

  Notation X := (dedup_e (flat_map (track_effect umap a) effs)).
  Notation xl := (eres_of I' X).
  Notation xacts := (acts_of xl).

  Lemma in_X t : In t X <->
    exists e d, In e effs /\ uc (e_fl e) = Some d /\
                existsb (fexp_eqb (e_fl e, e_args e)) (a_reads umap a) = false /\ t = mk_tracker d e.
  Proof.
    rewrite In_dedup_e, in_flat_map. unfold track_effect. split.
    - intros [e [He H]]. destruct (uc (e_fl e)) as [d|] eqn:Ed; [|destruct H].
      destruct (existsb (fexp_eqb (e_fl e, e_args e)) (a_reads umap a)) eqn:Ex; [destruct H|].
      destruct H as [<-|[]]. exists e, d. auto.
    - intros [e [d (He & Ed & Ex & ->)]]. exists e. split; [exact He|]. rewrite Ed, Ex. left; reflexivity.
  Qed.

  Lemma tracker_piece e d : In e effs -> uc (e_fl e) = Some d -> piece I' (mk_tracker d e) = [tres d e].
  Proof.
    intros He Ed. unfold piece. cbn [mk_tracker e_vars]. rewrite (tracked_vars e d He Ed). cbn [instances map]. f_equal.
    all: unfold eval_effect, tres; cbn [mk_tracker e_args e_cond e_val e_fl e_kind eval];
      destruct (evals_l false I' (e_args e)); [|reflexivity];
      destruct (eval false (e_cond e) I') as [[[|]| |]|]; reflexivity.
  Qed.

  Lemma in_xl r : In r xl <->
    exists e d, In e effs /\ uc (e_fl e) = Some d /\
                existsb (fexp_eqb (e_fl e, e_args e)) (a_reads umap a) = false /\ r = tres d e.
  Proof.
    rewrite in_eres_of. split.
    - intros [t [Ht Hr]]. apply in_X in Ht. destruct Ht as [e [d (He & Ed & Ex & ->)]].
      rewrite (tracker_piece e d He Ed) in Hr. destruct Hr as [<-|[]]. exists e, d. auto.
    - intros [e [d (He & Ed & Ex & ->)]]. exists (mk_tracker d e). split.
      + apply in_X. exists e, d. auto.
      + rewrite (tracker_piece e d He Ed). left; reflexivity.
  Qed.

  Lemma args_same e : In e effs -> evals_l false I' (e_args e) = evals_l false I (e_args e).
  Proof. intros He. apply (pure_evals_l _ I I' HR). apply (eff_shape e (Heff e He)). Qed.

  Lemma xacts_in x : In x xacts ->
    exists e d vs, In e effs /\ uc (e_fl e) = Some d /\ evals_l false I (e_args e) = Some vs /\
                   eval false (e_cond e) I' = Some (VBool true) /\
                   x = {| ae_key := (d, vs); ae_kind := KAssign; ae_val := VBool true |}.
  Proof.
    intros H. apply in_acts_of in H. apply in_xl in H. destruct H as [e [d (He & Ed & _ & H)]].
    unfold tres in H. rewrite (args_same e He) in H.
    destruct (evals_l false I (e_args e)) as [vs|] eqn:Ev; [|discriminate].
    destruct (eval false (e_cond e) I') as [[[|]| |]|] eqn:Ec; try discriminate. inversion H. exists e, d, vs. auto.
  Qed.

  Section NoError.
    Hypothesis Hne : has_err (eres_of I effs) = false.

    Lemma tracked_ok e d : In e effs -> uc (e_fl e) = Some d ->
      exists vs, evals_l false I (e_args e) = Some vs /\ eval false (e_cond e) I <> None /\
                 (eval false (e_cond e) I = Some (VBool true) ->
                  exists y, In y acts /\ ae_key y = (e_fl e, vs) /\ ae_kind y = e_kind e).
    Proof.
      intros He Hd. assert (Hin : In (eval_effect false I e) (eres_of I effs)).
      { apply in_eres_of. exists e. split; [exact He|]. rewrite (tracked_piece e d He Hd). left; reflexivity. }
      unfold eval_effect in Hin. destruct (evals_l false I (e_args e)) as [vs|].
      - exists vs. split; [reflexivity|]. destruct (eval false (e_cond e) I) as [[[|]| |]|].
        + split; [discriminate|]. intros _. destruct (eval false (e_val e) I) as [v|].
          * eexists. split; [apply in_acts_of; exact Hin|]. split; reflexivity.
          * apply has_err_in in Hin. congruence.
        + split; [discriminate | discriminate].
        + split; [discriminate | discriminate].
        + split; [discriminate | discriminate].
        + apply has_err_in in Hin. congruence.
      - apply has_err_in in Hin. congruence.
    Qed.
  End NoError.

  (* ---- all guards hold: the compiled action evaluates everything as the original does *)
  Section GuardsHold.
    Hypothesis Gall : guards_hold umap I' (a_reads umap a) = true.

    Lemma expr_eq x : In x (a_exprs a) -> eval false x I' = eval false x I.
    Proof.
      intros Hx. destruct (eval_guarded umap x I I' HR (exprs_uq x Hx)) as [A _]. apply A.
      apply (guards_in I' (a_exprs a)); [exact Gall | exact Hx].
    Qed.

    Lemma pre_eq : all_hold false I' (a_pre a) = all_hold false I (a_pre a).
    Proof. unfold all_hold. apply forallb_ext_in'. intros x Hx. unfold holds. rewrite (expr_eq x (in_exprs_pre x Hx)). reflexivity. Qed.

    Lemma piece_eq e : In e effs -> piece I' e = piece I e.
    Proof.
      intros He. destruct (eff_shape e (Heff e He)) as (_ & Ha & Hv & Hc & Hs).
      assert (Hcase : e_vars e = [] \/ (upure umap (e_val e) = true /\ upure umap (e_cond e) = true)).
      { destruct Hs as [[_ Hn]|(Hpv & [[Hn _]|[_ Hpc]])]; auto. }
      destruct Hcase as [Hn|[Hpv Hpc]].
      - unfold piece. rewrite Hn. cbn [instances map]. f_equal.
        apply (eval_effect_eq I I' e HR Ha); apply expr_eq; [apply in_exprs_cond | apply in_exprs_val]; exact He.
      - unfold piece. symmetry. apply (F2_map_eq urel _ _ _ _ (urel_instances umap (e_vars e) I I' HR)).
        intros J J' HJ. symmetry. apply (eval_effect_eq J J' e HJ Ha); apply pure_eval; assumption.
    Qed.

    Lemma eres_eq : eres_of I' effs = eres_of I effs.
    Proof. unfold eres_of. apply flat_map_ext_in'. intros e He. apply (piece_eq e He). Qed.

    Lemma cond_same e : In e effs -> eval false (e_cond e) I' = eval false (e_cond e) I.
    Proof. intros He. apply expr_eq, in_exprs_cond, He. Qed.

    (* the tracker of an assignment that fires fires too (same condition), unless the target is among the reads *)
    Lemma xacts_cover e d vs : In e effs -> uc (e_fl e) = Some d -> evals_l false I (e_args e) = Some vs ->
      eval false (e_cond e) I = Some (VBool true) ->
      (exists x, In x xacts /\ ae_key x = (d, vs)) \/ existsb (fexp_eqb (e_fl e, e_args e)) (a_reads umap a) = true.
    Proof.
      intros He Ed Ev Ec. destruct (existsb (fexp_eqb (e_fl e, e_args e)) (a_reads umap a)) eqn:Ex; [right; reflexivity|].
      left. exists {| ae_key := (d, vs); ae_kind := KAssign; ae_val := VBool true |}. split; [|reflexivity].
      apply in_acts_of. apply in_xl. exists e, d. repeat split; auto.
      unfold tres. rewrite (args_same e He), Ev, (cond_same e He), Ec. reflexivity.
    Qed.

    Section Fluents.
      Hypothesis Hne : has_err (eres_of I effs) = false.

      Lemma xacts_noerr : has_err xl = false.
      Proof.
        destruct (has_err xl) eqn:E; [|reflexivity]. exfalso. apply has_err_in in E. apply in_xl in E.
        destruct E as [e [d (He & Ed & _ & H)]]. unfold tres in H. rewrite (args_same e He), (cond_same e He) in H.
        destruct (tracked_ok Hne e d He Ed) as [vs (Ev & Hc & _)]. rewrite Ev in H.
        destruct (eval false (e_cond e) I) as [[[|]| |]|]; try discriminate. apply Hc; reflexivity.
      Qed.

      Lemma xact_key x : In x xacts -> isc (fst (ae_key x)) = true /\ is_assign x = true /\ ae_val x = VBool true.
      Proof.
        intros H. destruct (xacts_in x H) as [e [d [vs (He & Ed & Ev & _ & ->)]]]. cbn.
        split; [apply (ucomp_isc umap _ _ Ed) | auto].
      Qed.

      Lemma old_same y d : In y acts -> is_assign y = false -> uc (fst (ae_key y)) = Some d ->
        s' (fst (ae_key y)) (snd (ae_key y)) = s (fst (ae_key y)) (snd (ae_key y)).
      Proof.
        intros Hy Hna Hd. destruct (tracked_act y d Hy Hd) as [e (He & Ef & Ek & Ev & _)].
        assert (Hk : e_kind e <> KAssign).
        { intros E. unfold is_assign in Hna. rewrite Ek, E in Hna. discriminate. }
        pose proof (in_exprs_tgt e He Hk) as Hin.
        assert (HG : guards_hold umap I' (rd (EFluent (e_fl e) (e_args e))) = true)
          by (apply (guards_in I' (a_exprs a)); assumption).
        rewrite <- Ef in Hd.
        assert (Hm : In (e_fl e, e_args e) (rd (EFluent (e_fl e) (e_args e)))).
        { cbn [reads]. rewrite Hd. apply in_or_app. right. left. reflexivity. }
        assert (Ev' : evals false I' (e_args e) = Some (snd (ae_key y))).
        { rewrite <- evals_l_is_evals, (args_same e He). exact Ev. }
        destruct (guard_true I I' (e_fl e) d (e_args e) _ _ HR Hd Hm HG Ev') as [_ [v [E1 E2]]].
        rewrite <- Ef. cbn [mk_interp fl] in E1, E2. rewrite E1, E2. reflexivity.
      Qed.

      Lemma sf_noncomp k : isc (fst k) = false -> spec_fluent P' s' (acts ++ xacts) k = spec_fluent P s acts k.
      Proof.
        intros Hk. unfold spec_fluent. rewrite avals_app, deltas_app.
        destruct (no_key_nil k xacts) as [-> ->].
        { intros x Hx. destruct (xact_key x Hx) as [Hc _]. destruct (gfl_eqb (ae_key x) k) eqn:E; [|reflexivity].
          apply gfl_eqb_eq in E. subst k. congruence. }
        rewrite !app_nil_r.
        replace (is_bool_fluent P' (fst k)) with (is_bool_fluent P (fst k)).
        2:{ unfold is_bool_fluent. cbn [p_fluents uinr_compile]. unfold u_fluents. rewrite existsb_app.
            match goal with |- _ = _ || ?b => assert (Eb : b = false) end.
            { match goal with |- ?b = false => destruct b eqn:E; [|reflexivity] end. exfalso.
              apply existsb_exists in E. destruct E as [fd [Hfd E]]. apply in_map_iff in Hfd. destruct Hfd as [p [<- Hp]].
              cbn [fd_id fd_ty] in E. apply andb_true_iff in E. destruct E as [E _].
              assert (isc (fst k) = true) by (unfold is_ucomp; apply existsb_exists; exists p; split; assumption).
              congruence. }
            rewrite Eb, orb_false_r. reflexivity. }
        apply combine_old_irrelevant. intros HD HA.
        destruct (in_deltas_ex k acts HD) as [y (Hy & Hky & Hna)].
        destruct (uc (fst k)) as [d|] eqn:Ed.
        - subst k. apply (old_same y d Hy Hna Ed).
        - destruct HRs as [H1 _]. apply H1; assumption.
      Qed.

      Lemma sf_comp k : isc (fst k) = true ->
        spec_fluent P' s' (acts ++ xacts) k = match avals k xacts with [] => CUnchanged | _ => CVal (VBool true) end.
      Proof.
        intros Hk. unfold spec_fluent. rewrite avals_app, deltas_app.
        destruct (no_key_nil k acts) as [-> ->].
        { intros y Hy. pose proof (act_noncomp y Hy) as Hn. destruct (gfl_eqb (ae_key y) k) eqn:E; [|reflexivity].
          apply gfl_eqb_eq in E. subst k. congruence. }
        rewrite (deltas_all_assign k xacts) by (intros x Hx; apply (xact_key x Hx)).
        cbn [app]. apply combine_all_true. apply Forall_forall. intros v Hv. apply in_avals in Hv.
        destruct Hv as [x (Hx & _ & _ & <-)]. apply (xact_key x Hx).
      Qed.

      Lemma sf_comp_some k x : In x xacts -> ae_key x = k -> spec_fluent P' s' (acts ++ xacts) k = CVal (VBool true).
      Proof.
        intros Hx Hk. rewrite sf_comp by (subst k; apply (xact_key x Hx)).
        destruct (avals k xacts) eqn:E; [|reflexivity]. exfalso.
        assert (Hv : In (ae_val x) (avals k xacts)).
        { apply in_avals. exists x. repeat split; [exact Hx | rewrite Hk; apply gfl_eqb_refl | apply (xact_key x Hx)]. }
        rewrite E in Hv. destruct Hv.
      Qed.

      Lemma sf_comp_cases k : isc (fst k) = true ->
        spec_fluent P' s' (acts ++ xacts) k = CVal (VBool true) \/
        (spec_fluent P' s' (acts ++ xacts) k = CUnchanged /\ forall x, In x xacts -> ae_key x <> k).
      Proof.
        intros Hk. rewrite (sf_comp k Hk). destruct (avals k xacts) eqn:E; [right | left; reflexivity].
        split; [reflexivity|]. intros x Hx Hkx.
        assert (Hv : In (ae_val x) (avals k xacts)).
        { apply in_avals. exists x. repeat split; [exact Hx | rewrite Hkx; apply gfl_eqb_refl | apply (xact_key x Hx)]. }
        rewrite E in Hv. destruct Hv.
      Qed.

      Lemma effects_ok_eq : spec_effects_ok P' s' (acts ++ xacts) = spec_effects_ok P s acts.
      Proof.
        unfold spec_effects_ok. rewrite forallb_app.
        rewrite (forallb_ext_in' _ (fun a0 => match spec_fluent P s acts (ae_key a0) with CFail => false | _ => true end) acts).
        2:{ intros y Hy. rewrite (sf_noncomp _ (act_noncomp y Hy)). reflexivity. }
        match goal with |- _ && ?b = _ => assert (E : b = true) end.
        { apply forallb_forall. intros x Hx. rewrite (sf_comp_some (ae_key x) x Hx eq_refl). reflexivity. }
        rewrite E, andb_true_r. reflexivity.
      Qed.

      Lemma succ_rel : spec_effects_ok P s acts = true ->
        uinr_rel umap (spec_succ P s acts) (spec_succ P' s' (acts ++ xacts)).
      Proof.
        intros Hok2. split.
        - intros g vs Hg Hc. unfold spec_succ. rewrite (sf_noncomp (g, vs) Hc). destruct HRs as [H1 _].
          rewrite (H1 g vs Hg Hc). reflexivity.
        - intros f d vs Hd. pose proof umap_facts as (_ & Ftr & _). pose proof (Ftr f d Hd) as Hfc.
          pose proof (ucomp_isc umap f d Hd) as Hdc.
          unfold spec_succ. rewrite (sf_noncomp (f, vs) Hfc).
          destruct HRs as [_ H2]. specialize (H2 f d vs Hd).
          destruct (spec_fluent P s acts (f, vs)) as [|v|] eqn:Esf.
          + (* untouched *)
            unfold spec_fluent in Esf. apply combine_unchanged in Esf. destruct Esf as [EA ED].
            assert (Hno : forall y, In y acts -> ae_key y <> (f, vs)).
            { intros y Hy Hk. destruct (key_in_nonempty (f, vs) acts y Hy Hk) as [H|H]; [apply H, EA | apply H, ED]. }
            destruct (sf_comp_cases (d, vs) Hdc) as [Ec|[Ec Hnx]].
            * exfalso. rewrite (sf_comp (d, vs) Hdc) in Ec. destruct (avals (d, vs) xacts) as [|v0 A0] eqn:E; [discriminate|].
              assert (Hv : In v0 (avals (d, vs) xacts)) by (rewrite E; left; reflexivity).
              apply in_avals in Hv. destruct Hv as [x (Hx & Hkx & _)]. apply gfl_eqb_eq in Hkx.
              destruct (xacts_in x Hx) as [e [d0 [vs0 (He & Ed0 & Ev0 & Ec0 & ->)]]]. cbn [ae_key] in Hkx. inversion Hkx; subst d0 vs0.
              pose proof (uc_inj _ _ _ Ed0 Hd) as Ef.
              destruct (tracked_ok Hne e d He Ed0) as [vs1 (Ev1 & _ & Hy1)].
              rewrite (cond_same e He) in Ec0. destruct (Hy1 Ec0) as [y (Hy & Hky & _)].
              rewrite Ev0 in Ev1. inversion Ev1; subst vs1. rewrite Ef in Hky. exact (Hno y Hy Hky).
            * rewrite Ec. exact H2.
          + (* assigned or increased *)
            split; [reflexivity|].
            assert (Hex : exists y, In y acts /\ ae_key y = (f, vs)).
            { apply in_key_ex. unfold spec_fluent in Esf. destruct (avals (f, vs) acts); [|left; discriminate].
              destruct (deltas (f, vs) acts); [discriminate | right; discriminate]. }
            destruct Hex as [y [Hy Hky]].
            assert (Hd' : uc (fst (ae_key y)) = Some d) by (rewrite Hky; exact Hd).
            destruct (tracked_act y d Hy Hd') as [e (He & Ef & _ & Ev & Ec)]. rewrite Hky in Ef, Ev. cbn [fst snd] in Ef, Ev.
            rewrite <- Ef in Hd.
            destruct (xacts_cover e d vs He Hd Ev Ec) as [[x [Hx Hkx]]|Hread].
            * rewrite (sf_comp_some (d, vs) x Hx Hkx). reflexivity.
            * apply existsb_exists in Hread. destruct Hread as [r [Hr Er]]. apply fexp_eqb_eq in Er. subst r.
              assert (Ev' : evals false I' (e_args e) = Some vs) by (rewrite <- evals_l_is_evals, (args_same e He); exact Ev).
              destruct (guard_true I I' (e_fl e) d (e_args e) vs _ HR Hd Hr Gall Ev') as [Et _]. cbn [mk_interp fl] in Et.
              destruct (sf_comp_cases (d, vs) Hdc) as [Ec2|[Ec2 _]]; rewrite Ec2; [reflexivity | exact Et].
          + (* conflict: excluded by spec_effects_ok *)
            exfalso.
            assert (Hex : exists y, In y acts /\ ae_key y = (f, vs)).
            { apply in_key_ex. unfold spec_fluent in Esf. destruct (avals (f, vs) acts); [|left; discriminate].
              destruct (deltas (f, vs) acts); [discriminate | right; discriminate]. }
            destruct Hex as [y [Hy Hky]]. unfold spec_effects_ok in Hok2. rewrite forallb_forall in Hok2.
            specialize (Hok2 y Hy). rewrite Hky, Esf in Hok2. discriminate.
      Qed.
    End Fluents.
  End GuardsHold.

  (* ---- some guard fails: the original step is not executable either *)
  Lemma pure_args_reads l : forallb (upure umap) l = true -> flat_map rd l = [].
  Proof.
    intros H. apply flat_map_nil. intros x Hx. rewrite forallb_forall in H. specialize (H x Hx). unfold upure in H.
    apply andb_true_iff in H. apply is_nil_eq. tauto.
  Qed.

  Lemma err_in_effs e : In e effs -> e_vars e = [] -> eval_effect false I e = EErr -> has_err (eres_of I effs) = true.
  Proof.
    intros He Hn E. apply has_err_in. unfold eres_of. apply in_flat_map. exists e. split; [exact He|].
    rewrite Hn. cbn [instances map]. left. exact E.
  Qed.

  Lemma finish_err : has_err (eres_of I effs) = true -> finish_step P s (eres_of I effs) = None.
  Proof. intros H. unfold finish_step. rewrite collect_res_spec, H. reflexivity. Qed.

  Lemma guards_fail_orig : guards_hold umap I' (a_reads umap a) = false -> spec_step false P s a args = None.
  Proof.
    intros G. unfold a_reads in G. destruct (guards_false_ex I' _ G) as [x [Hx Gx]].
    destruct (eval_guarded umap x I I' HR (exprs_uq x Hx)) as [_ B]. specialize (B Gx).
    rewrite spec_step_unfold. cbv zeta.
    unfold a_exprs in Hx. rewrite !in_app_iff in Hx. destruct Hx as [Hx|[Hx|[Hx|Hx]]].
    - (* a precondition *)
      assert (E : all_hold false I (a_pre a) = false).
      { destruct (all_hold false I (a_pre a)) eqn:E; [|reflexivity]. pose proof (all_hold_In false I _ x E Hx) as Hh.
        unfold holds in Hh. rewrite B in Hh. discriminate. }
      rewrite E. reflexivity.
    - (* an effect value *)
      apply in_map_iff in Hx. destruct Hx as [e [<- He]].
      destruct (all_hold false I (a_pre a)); [|reflexivity]. cbn [negb]. apply finish_err.
      destruct (eff_shape e (Heff e He)) as (_ & _ & _ & _ & [[Hc Hn]|(Hpv & _)]).
      + apply (err_in_effs e He Hn). unfold eval_effect. destruct (evals_l false I (e_args e)); [|reflexivity].
        rewrite Hc. cbn [eval]. rewrite B. reflexivity.
      + unfold upure in Hpv. apply andb_true_iff in Hpv. destruct Hpv as [_ Hn]. apply is_nil_eq in Hn.
        rewrite Hn in Gx. discriminate.
    - (* the target of an increase / decrease *)
      unfold inc_targets in Hx. apply in_flat_map in Hx. destruct Hx as [e [He Hx]].
      assert (Hk : x = EFluent (e_fl e) (e_args e) /\ e_kind e <> KAssign).
      { destruct (e_kind e); [destruct Hx | |]; (destruct Hx as [Hx|[]]; split; [auto | discriminate]). }
      destruct Hk as [-> Hk].
      destruct (all_hold false I (a_pre a)); [|reflexivity]. cbn [negb].
      destruct (eff_shape e (Heff e He)) as (_ & Ha & _ & _ & Hs).
      destruct (uc (e_fl e)) as [d|] eqn:Ed.
      + destruct Hs as [[Hc Hn]|(_ & [[_ [Hu|Hka]]|[Hu _]])]; [|congruence|congruence|congruence].
        destruct (has_err (eres_of I effs)) eqn:Hne; [apply finish_err; exact Hne|].
        destruct (tracked_ok Hne e d He Ed) as [vs (Ev & _ & Hy1)].
        assert (Ect : eval false (e_cond e) I = Some (VBool true)) by (rewrite Hc; reflexivity).
        destruct (Hy1 Ect) as [y (Hy & Hky & Hkk)].
        rewrite eval_EFluent, <- evals_l_is_evals, Ev in B. cbn [mk_interp fl] in B.
        unfold finish_step. rewrite collect_res_spec, Hne.
        assert (Ef : spec_effects_ok P s acts = false).
        { destruct (spec_effects_ok P s acts) eqn:E; [|reflexivity]. exfalso. unfold spec_effects_ok in E.
          rewrite forallb_forall in E. specialize (E y Hy). rewrite Hky in E. unfold spec_fluent in E. cbn [fst snd] in E.
          rewrite B in E.
          assert (HD : deltas (e_fl e, vs) acts <> []).
          { assert (Ea : is_assign y = false)
              by (unfold is_assign; rewrite Hkk; destruct (e_kind e); [congruence | reflexivity | reflexivity]).
            unfold deltas. intros E0.
            assert (Hin : In y (filter (fun a0 => gfl_eqb (ae_key a0) (e_fl e, vs) && negb (is_assign a0)) acts)).
            { apply filter_In. split; [exact Hy|]. rewrite Hky, gfl_eqb_refl, Ea. reflexivity. }
            destruct (filter (fun a0 => gfl_eqb (ae_key a0) (e_fl e, vs) && negb (is_assign a0)) acts);
              [destruct Hin | discriminate]. }
          destruct (avals (e_fl e, vs) acts), (deltas (e_fl e, vs) acts); cbn [combine] in E; try discriminate.
          all: apply HD; reflexivity. }
        rewrite Ef. reflexivity.
      + exfalso. cbn [reads] in Gx. rewrite Ed, (pure_args_reads _ Ha) in Gx. discriminate.
    - (* an effect condition *)
      apply in_map_iff in Hx. destruct Hx as [e [<- He]].
      destruct (all_hold false I (a_pre a)); [|reflexivity]. cbn [negb]. apply finish_err.
      destruct (eff_shape e (Heff e He)) as (_ & _ & _ & _ & [[Hc Hn]|(_ & [[Hn _]|[_ Hpc]])]).
      + rewrite Hc in B. discriminate.
      + apply (err_in_effs e He Hn). unfold eval_effect. destruct (evals_l false I (e_args e)); [|reflexivity].
        rewrite B. reflexivity.
      + unfold upure in Hpc. apply andb_true_iff in Hpc. destruct Hpc as [_ Hn]. apply is_nil_eq in Hn.
        rewrite Hn in Gx. discriminate.
  Qed.

  (* ---- state invariants and bounded types *)
  Lemma num_node_pure q : upure umap (num_node q) = true.
  Proof. unfold num_node. destruct (Z.pos (Qden (this q)) =? 1)%Z; reflexivity. Qed.
  Lemma value_expr_pure v : upure umap (value_expr v) = true.
  Proof. destruct v; try reflexivity. apply num_node_pure. Qed.

  Lemma upure_split e : upure umap e = true -> uq umap e = true /\ rd e = [].
  Proof. unfold upure. intros H. apply andb_true_iff in H. destruct H as [H1 H2]. split; [exact H1 | apply is_nil_eq, H2]. Qed.

  Lemma upure_ELe x y : upure umap x = true -> upure umap y = true -> upure umap (ELe x y) = true.
  Proof.
    intros Hx Hy. apply upure_split in Hx. apply upure_split in Hy. destruct Hx as [X1 X2], Hy as [Y1 Y2].
    unfold upure. cbn [uq reads]. rewrite X1, X2, Y1, Y2. reflexivity.
  Qed.

  Lemma bound_inv_pure x : In x (bound_invs P) -> upure umap x = true.
  Proof.
    unfold bound_invs. intros H. apply in_flat_map in H. destruct H as [fd [Hfd H]].
    destruct umap_facts as (_ & _ & Ffl & Fub).
    destruct (fd_ty fd) as [|lo hi|] eqn:Et; try destruct H.
    apply in_flat_map in H. destruct H as [tup [_ H]].
    destruct (uc (fd_id fd)) as [d|] eqn:Ed.
    { rewrite (Fub fd d Hfd Ed) in Et. inversion Et; subst lo hi. destruct H. }
    assert (Hfl : upure umap (EFluent (fd_id fd) (map value_expr tup)) = true).
    { unfold upure. cbn [uq reads]. rewrite (Ffl fd Hfd), Ed. cbn [negb andb]. rewrite app_nil_r.
      assert (Hq : forallb (uq umap) (map value_expr tup) = true).
      { apply forallb_forall. intros z Hz. apply in_map_iff in Hz. destruct Hz as [v [<- _]]. apply (upure_split _ (value_expr_pure v)). }
      rewrite Hq. rewrite flat_map_nil; [reflexivity|]. intros z Hz. apply in_map_iff in Hz. destruct Hz as [v [<- _]].
      apply (upure_split _ (value_expr_pure v)). }
    apply in_app_or in H. destruct H as [H|H].
    - destruct lo as [l|]; [|destruct H]. destruct H as [<-|[]]. apply upure_ELe; [apply num_node_pure | exact Hfl].
    - destruct hi as [h|]; [|destruct H]. destruct H as [<-|[]]. apply upure_ELe; [exact Hfl | apply num_node_pure].
  Qed.

  Lemma bound_invs_same : bound_invs P' = bound_invs P.
  Proof.
    unfold bound_invs. cbn [p_fluents uinr_compile]. unfold u_fluents. rewrite flat_map_app.
    rewrite (flat_map_nil _ (map _ umap)).
    2:{ intros fd H. apply in_map_iff in H. destruct H as [p [<- _]]. reflexivity. }
    rewrite app_nil_r. apply flat_map_ext. intros fd. destruct (fd_ty fd); try reflexivity.
    rewrite (arg_tuples_objs P P' _ eq_refl). reflexivity.
  Qed.

  Lemma uinr_invariants t t' : uinr_rel umap t t' -> forallb (upure umap) (p_invs P) = true ->
    invariants_ok false P' t' = invariants_ok false P t.
  Proof.
    intros HRt Hinv. unfold invariants_ok. cbn [p_invs uinr_compile]. rewrite bound_invs_same.
    unfold all_hold. apply forallb_ext_in'. intros x Hx. apply (pure_holds x _ _ (urel_mk t t' [] HRt)).
    apply in_app_or in Hx. destruct Hx as [Hx|Hx]; [rewrite forallb_forall in Hinv; apply Hinv, Hx | apply bound_inv_pure, Hx].
  Qed.

  (* ---- the step *)
  Definition orel (o o' : option state) : Prop :=
    match o, o' with Some t, Some t' => uinr_rel umap t t' | None, None => True | _, _ => False end.

  Theorem uinr_step : forallb (upure umap) (p_invs P) = true ->
    orel (spec_step false P s a args) (spec_step false P' s' (u_action umap a) args).
  Proof.
    intros Hinv. destruct (guards_hold umap I' (a_reads umap a)) eqn:G.
    - rewrite !spec_step_unfold. cbv zeta. cbn [a_params a_pre a_effs u_action].
      rewrite all_hold_fold_add_pre, guards_as_conds, G, andb_true_r, (pre_eq G).
      destruct (all_hold false I (a_pre a)); [|exact Logic.I]. cbn [negb].
      rewrite eres_of_app, (eres_eq G).
      unfold finish_step. rewrite !collect_res_spec, has_err_app, acts_of_app.
      destruct (has_err (eres_of I effs)) eqn:Hne; [exact Logic.I|]. rewrite (xacts_noerr G Hne). cbn [orb].
      rewrite (effects_ok_eq G). destruct (spec_effects_ok P s acts) eqn:Eok; [|exact Logic.I]. cbn [negb].
      pose proof (succ_rel G Hne Eok) as Hrel. rewrite (uinr_invariants _ _ Hrel Hinv).
      destruct (invariants_ok false P (spec_succ P s acts)); [exact Hrel | exact Logic.I].
    - rewrite (guards_fail_orig G). rewrite spec_step_unfold. cbv zeta. cbn [a_params a_pre a_effs u_action].
      rewrite all_hold_fold_add_pre, guards_as_conds, G, andb_false_r. exact Logic.I.
  Qed.
End UinrStep.

(* ================================================================== 4. plans *)
Section UinrPlan.
  Variable umap : list (N * N).
  Variable P : problem.
  Notation P' := (uinr_compile umap P).
  Hypothesis Hok : uinr_ok umap P = true.

  Lemma uinr_ok_parts :
    umap_ok umap P = true /\ (forall i a, In (i, a) (p_actions P) -> action_ok umap a = true) /\
    forallb (uq umap) (p_goals P) = true /\ forallb (upure umap) (p_invs P) = true.
  Proof.
    unfold uinr_ok in Hok. apply andb_true_iff in Hok. destruct Hok as [H H4]. apply andb_true_iff in H. destruct H as [H H3].
    apply andb_true_iff in H. destruct H as [H1 H2]. repeat split; try assumption.
    intros i a Hin. rewrite forallb_forall in H2. apply (H2 (i, a) Hin).
  Qed.

  Lemma lookup_u aid : lookup_action P' aid = option_map (u_action umap) (lookup_action P aid).
  Proof.
    unfold lookup_action. cbn [p_actions uinr_compile]. induction (p_actions P) as [|[i a] l IH]; [reflexivity|].
    cbn [map lookupN fst snd]. destruct (aid =? i)%N; [reflexivity | exact IH].
  Qed.

  Lemma uinr_goals t t' : uinr_rel umap t t' -> goals_hold false P' t' = goals_hold false P t.
  Proof.
    intros HR. destruct uinr_ok_parts as (Hm & _ & Hg & _). unfold goals_hold. cbn [p_goals uinr_compile]. unfold u_goals.
    rewrite all_hold_app', (guards_as_conds umap).
    apply (conds_guarded umap _ _ (p_goals P) (urel_mk umap P t t' [] HR) Hg).
  Qed.

  Theorem uinr_run pi : forall s s', uinr_rel umap s s' ->
    orel umap (run P (spec_step false P) s pi) (run P' (spec_step false P') s' pi).
  Proof.
    destruct uinr_ok_parts as (Hm & Ha & _ & Hi).
    induction pi as [|[aid args] pi IH]; intros s s' HR; cbn [run]; [exact HR|].
    rewrite lookup_u. destruct (lookup_action P aid) as [a|] eqn:El; cbn [option_map]; [|exact I].
    assert (Hok_a : action_ok umap a = true) by (apply (Ha aid a), lookupN_In, El).
    pose proof (uinr_step umap P Hm s s' a args HR Hok_a Hi) as St.
    destruct (spec_step false P s a args) as [t|], (spec_step false P' s' (u_action umap a) args) as [t'|];
      cbn [orel] in St; try contradiction; [apply IH; exact St | exact I].
  Qed.

  (* the two problems accept exactly the same plans (the map back of a plan is the plan itself: replace_action with
     the name-preserving dictionary) *)
  Theorem uinr_valid_plan s s' pi : uinr_rel umap s s' -> valid_plan false P' s' pi = valid_plan false P s pi.
  Proof.
    intros HR. unfold valid_plan. pose proof (uinr_run pi s s' HR) as H.
    destruct (run P (spec_step false P) s pi) as [t|], (run P' (spec_step false P') s' pi) as [t'|];
      cbn [orel] in H; try contradiction; [apply uinr_goals; exact H | reflexivity].
  Qed.

  Corollary uinr_sound s s' pi : uinr_rel umap s s' -> valid_plan false P' s' pi = true -> valid_plan false P s pi = true.
  Proof. intros HR H. rewrite <- (uinr_valid_plan s s' pi HR). exact H. Qed.

  Corollary uinr_complete s s' pi : uinr_rel umap s s' -> valid_plan false P s pi = true -> valid_plan false P' s' pi = true.
  Proof. intros HR H. rewrite (uinr_valid_plan s s' pi HR). exact H. Qed.
End UinrPlan.

(* the compiled initial state: default values for the tracked fluents without value, companions accordingly *)
Definition uinr_init (umap : list (N * N)) (dflt : N -> Qc) (s : state) : state :=
  fun g args =>
    match find (fun p => (snd p =? g)%N) umap with
    | Some p => Some (VBool (match s (fst p) args with Some _ => true | None => false end))
    | None => match ucomp umap g, s g args with
              | Some _, None => Some (VNum (dflt g))
              | _, v => v
              end
    end.

Lemma uinr_init_rel umap dflt P s : umap_ok umap P = true -> uinr_rel umap s (uinr_init umap dflt s).
Proof.
  intros Hm. pose proof (umap_facts umap P Hm) as (Hnd & Ftr & _).
  assert (Hfind : forall g, is_ucomp umap g = false -> find (fun p => (snd p =? g)%N) umap = None).
  { intros g Hg. destruct (find (fun p => (snd p =? g)%N) umap) as [p|] eqn:E; [|reflexivity]. exfalso.
    apply find_some in E. destruct E as [Hin E]. assert (is_ucomp umap g = true) by (apply existsb_exists; exists p; auto). congruence. }
  split.
  - intros g args Hg Hc. unfold uinr_init. rewrite (Hfind g Hc), Hg. reflexivity.
  - intros f d args Hd. unfold uinr_init.
    assert (Ed : find (fun p => (snd p =? d)%N) umap = Some (f, d)).
    { destruct (find (fun p => (snd p =? d)%N) umap) as [p|] eqn:E.
      - apply find_some in E. destruct E as [Hin E]. apply N.eqb_eq in E. destruct p as [f0 d0]. cbn [snd] in E. subst d0.
        assert (uc0 : ucomp umap f0 = Some d).
        { unfold ucomp. apply lookupN_unique; [|exact Hin]. apply nodupN_NoDup'. unfold umap_ok in Hm. nfsplit. assumption. }
        rewrite (uc_inj umap P Hm f0 f d uc0 Hd). reflexivity.
      - exfalso. apply lookupN_In in Hd. apply (find_none _ _ E) in Hd. cbn [snd] in Hd. rewrite N.eqb_refl in Hd. discriminate. }
    rewrite (Hfind f (Ftr f d Hd)), Hd, Ed. cbn [fst]. destruct (s f args); [split; reflexivity | reflexivity].
Qed.

(* ================================================================== 5. witnesses: [action_ok] cannot be dropped *)
Module UinrW.
  Definition eff (f : N) (v c : expr) (k : ekind) (isb : bool) : effect :=
    {| e_fl := f; e_args := []; e_val := v; e_cond := c; e_kind := k; e_vars := []; e_isbool := isb |}.
  Definition fl0 (f : N) : expr := EFluent f [].
  Definition bfd (f : N) : fdecl := {| fd_id := f; fd_sig := []; fd_ty := FBool |}.
  Definition nfd (f : N) : fdecl := {| fd_id := f; fd_sig := []; fd_ty := FNum None None |}.
  Definition um : list (N * N) := [(0%N, 9%N)].        (* x = fluent 0 is tracked, its companion is fluent 9 *)
  (* fluents: 0 = x (no initial value), 1 = c (false), 2 = g (false), 3 = y (0) *)
  Definition s0 : state := fun f a => match f with 0%N => None | 3%N => Some (VNum (zq 0)) | _ => Some (VBool false) end.
  Definition s0c : state := fun f a => match f with 1%N => Some (VBool true) | _ => s0 f a end.

  (* (1) conditional assignment: a = [if c then x := 5], b = [pre x = 5; g := true], goal g *)
  Definition P1 : problem :=
    {| p_objs := []; p_ifun := []; p_fluents := [nfd 0; bfd 1; bfd 2];
       p_actions := [(0%N, {| a_params := []; a_pre := []; a_effs := [eff 0 (EInt 5) (fl0 1) KAssign false] |});
                     (1%N, {| a_params := []; a_pre := [EEquals (fl0 0) (EInt 5)];
                              a_effs := [eff 2 (EBool true) (EBool true) KAssign true] |})];
       p_goals := [fl0 2]; p_invs := [] |}.
  Definition plan1 : list (N * list value) := [(0%N, []); (1%N, [])].

  (* (2) conditional read: a = [if c then y := x + 1; g := true], goal g *)
  Definition P2 : problem :=
    {| p_objs := []; p_ifun := []; p_fluents := [nfd 0; bfd 1; bfd 2; nfd 3];
       p_actions := [(0%N, {| a_params := []; a_pre := [];
                              a_effs := [eff 3 (EPlus [fl0 0; EInt 1]) (fl0 1) KAssign false;
                                         eff 2 (EBool true) (EBool true) KAssign true] |})];
       p_goals := [fl0 2]; p_invs := [] |}.
  (* (2') conditional increase of the tracked fluent itself *)
  Definition P2' : problem :=
    {| p_objs := []; p_ifun := []; p_fluents := [nfd 0; bfd 1; bfd 2];
       p_actions := [(0%N, {| a_params := []; a_pre := [];
                              a_effs := [eff 0 (EInt 1) (fl0 1) KInc false;
                                         eff 2 (EBool true) (EBool true) KAssign true] |})];
       p_goals := [fl0 2]; p_invs := [] |}.
  Definition plan2 : list (N * list value) := [(0%N, [])].

  (* (3) a problem inside the fragment: a = [x := 2], b = [pre x <= 3; y := x + 1; g := true], c = [if g then y += 1] *)
  Definition P3 : problem :=
    {| p_objs := []; p_ifun := []; p_fluents := [nfd 0; bfd 1; bfd 2; nfd 3];
       p_actions := [(0%N, {| a_params := []; a_pre := []; a_effs := [eff 0 (EInt 2) (EBool true) KAssign false] |});
                     (1%N, {| a_params := []; a_pre := [ELe (fl0 0) (EInt 3)];
                              a_effs := [eff 3 (EPlus [fl0 0; EInt 1]) (EBool true) KAssign false;
                                         eff 2 (EBool true) (EBool true) KAssign true] |});
                     (2%N, {| a_params := []; a_pre := []; a_effs := [eff 3 (EInt 1) (fl0 2) KInc false] |})];
       p_goals := [fl0 2; EEquals (fl0 3) (EInt 4)]; p_invs := [] |}.
  Definition plan3 : list (N * list value) := [(0%N, []); (1%N, []); (2%N, [])].
  Definition plan3bad : list (N * list value) := [(1%N, []); (2%N, [])].
  Definition dflt (f : N) : Qc := zq 5.
End UinrW.

(* former finding C06-uinr-conditional-assignment-marks-defined (fixed in /repo by c019d78: the tracker effect carries the
   condition of the assignment): the problem is now INSIDE the proved fragment, and both problems agree on [a; b]
   whether c is false (x stays undefined: b is not applicable) or true *)
Lemma uinr_cond_assign_ok :
  uinr_ok UinrW.um UinrW.P1 = true /\
  uinr_rel UinrW.um UinrW.s0 (uinr_init UinrW.um UinrW.dflt UinrW.s0) /\
  valid_plan false (uinr_compile UinrW.um UinrW.P1) (uinr_init UinrW.um UinrW.dflt UinrW.s0) UinrW.plan1 = false /\
  valid_plan false UinrW.P1 UinrW.s0 UinrW.plan1 = false /\
  valid_plan false (uinr_compile UinrW.um UinrW.P1) (uinr_init UinrW.um UinrW.dflt UinrW.s0c) UinrW.plan1 = true /\
  valid_plan false UinrW.P1 UinrW.s0c UinrW.plan1 = true.
Proof.
  split; [vm_compute; reflexivity|].
  split; [apply (uinr_init_rel UinrW.um UinrW.dflt UinrW.P1); vm_compute; reflexivity|].
  repeat split; vm_compute; reflexivity.
Qed.

(* finding C07-uinr-guard-on-conditional-read: the guard is required although the effect does not fire *)
Lemma uinr_cond_read_incomplete :
  umap_ok UinrW.um UinrW.P2 = true /\ uinr_ok UinrW.um UinrW.P2 = false /\
  uinr_rel UinrW.um UinrW.s0 (uinr_init UinrW.um UinrW.dflt UinrW.s0) /\
  valid_plan false UinrW.P2 UinrW.s0 UinrW.plan2 = true /\
  valid_plan false (uinr_compile UinrW.um UinrW.P2) (uinr_init UinrW.um UinrW.dflt UinrW.s0) UinrW.plan2 = false /\
  uinr_ok UinrW.um UinrW.P2' = false /\
  valid_plan false UinrW.P2' UinrW.s0 UinrW.plan2 = true /\
  valid_plan false (uinr_compile UinrW.um UinrW.P2') (uinr_init UinrW.um UinrW.dflt UinrW.s0) UinrW.plan2 = false.
Proof.
  split; [vm_compute; reflexivity|]. split; [vm_compute; reflexivity|].
  split; [apply (uinr_init_rel UinrW.um UinrW.dflt UinrW.P2); vm_compute; reflexivity|].
  repeat split; vm_compute; reflexivity.
Qed.

Lemma uinr_nonvacuous :
  uinr_ok UinrW.um UinrW.P3 = true /\
  uinr_rel UinrW.um UinrW.s0 (uinr_init UinrW.um UinrW.dflt UinrW.s0) /\
  valid_plan false UinrW.P3 UinrW.s0 UinrW.plan3 = true /\
  valid_plan false (uinr_compile UinrW.um UinrW.P3) (uinr_init UinrW.um UinrW.dflt UinrW.s0) UinrW.plan3 = true /\
  valid_plan false UinrW.P3 UinrW.s0 UinrW.plan3bad = false /\
  valid_plan false (uinr_compile UinrW.um UinrW.P3) (uinr_init UinrW.um UinrW.dflt UinrW.s0) UinrW.plan3bad = false.
Proof.
  split; [vm_compute; reflexivity|].
  split; [apply (uinr_init_rel UinrW.um UinrW.dflt UinrW.P3); vm_compute; reflexivity|].
  repeat split; vm_compute; reflexivity.
Qed.
