(* Soundness of the bisimulation checker of Compilers/BisimCheck.v (C18, C19, C21). *)
From Coq Require Import List ZArith NArith QArith Qcanon Bool Lia.
Import ListNotations.
Require Import UPV.Core.Expr UPV.Core.Eval UPV.Core.Interp UPV.Planning.Problem UPV.Planning.Sem UPV.Planning.SeqValidate.
Require Import UPV.Proofs.Eval_lemmas UPV.Proofs.Sem_proofs UPV.Proofs.Step_proofs.
Require Import UPV.Compilers.BisimCheck.

(* ------------------------------------------------------------------ association lists as states *)
Lemma values_eqb_refl a : values_eqb a a = true.
Proof. apply values_eqb_eq; reflexivity. Qed.

Lemma lookup_app_app f a u l :
  lookup_app f a (u ++ l) = match lookup_app f a u with Some v => Some v | None => lookup_app f a l end.
Proof.
  induction u as [|[[g b] v] u IH]; simpl; [reflexivity|].
  destruct ((f =? g)%N && values_eqb a b); [reflexivity | exact IH].
Qed.

Lemma lookup_app_some_in f a l v : lookup_app f a l = Some v -> In (f, a, v) l.
Proof.
  induction l as [|[[g b] w] l IH]; simpl; [discriminate|].
  destruct ((f =? g)%N && values_eqb a b) eqn:E.
  - intros H; inversion H; subst. apply andb_true_iff in E. destruct E as [E1 E2].
    apply N.eqb_eq in E1. apply values_eqb_eq in E2. subst. left; reflexivity.
  - intros H; right; auto.
Qed.

Lemma state_eq_refl s : state_eq s s.
Proof. intros f a; reflexivity. Qed.
Lemma state_eq_sym s t : state_eq s t -> state_eq t s.
Proof. intros H f a; symmetry; apply H. Qed.
Lemma state_eq_trans s t u : state_eq s t -> state_eq t u -> state_eq s u.
Proof. intros H1 H2 f a; rewrite H1; apply H2. Qed.

Lemma state_list_eqb_sound l1 l2 : state_list_eqb l1 l2 = true -> state_eq (st_of l1) (st_of l2).
Proof.
  intros H f a. unfold st_of. unfold state_list_eqb in H. rewrite forallb_forall in H.
  destruct (lookup_app f a l1) as [v1|] eqn:E1.
  - pose proof (H _ (in_or_app _ _ _ (or_introl (lookup_app_some_in _ _ _ _ E1)))) as H1. simpl in H1.
    rewrite E1 in H1. destruct (lookup_app f a l2) as [v2|]; simpl in H1; [|discriminate].
    apply value_eqb_eq in H1. subst; reflexivity.
  - destruct (lookup_app f a l2) as [v2|] eqn:E2; [|reflexivity].
    pose proof (H _ (in_or_app _ _ _ (or_intror (lookup_app_some_in _ _ _ _ E2)))) as H1. simpl in H1.
    rewrite E1, E2 in H1. discriminate.
Qed.

(* ------------------------------------------------------------------ the documented step is a congruence *)
Lemma spec_fluent_ext P s t acts k : state_eq s t -> spec_fluent P s acts k = spec_fluent P t acts k.
Proof. intros H. unfold spec_fluent. rewrite (H (fst k) (snd k)). reflexivity. Qed.

Lemma spec_effects_ok_ext P s t acts : state_eq s t -> spec_effects_ok P s acts = spec_effects_ok P t acts.
Proof.
  intros H. unfold spec_effects_ok.
  assert (E : forall l, forallb (fun a => match spec_fluent P s acts (ae_key a) with CFail => false | _ => true end) l =
                        forallb (fun a => match spec_fluent P t acts (ae_key a) with CFail => false | _ => true end) l).
  { induction l as [|a l IH]; simpl; [reflexivity|].
    rewrite (spec_fluent_ext P s t acts (ae_key a) H), IH. reflexivity. }
  apply E.
Qed.

Lemma spec_succ_ext P s t acts : state_eq s t -> state_eq (spec_succ P s acts) (spec_succ P t acts).
Proof.
  intros H f a. unfold spec_succ. rewrite (spec_fluent_ext P s t acts (f, a) H), (H f a). reflexivity.
Qed.

Lemma spec_step_ext sc P s t a args : state_eq s t -> ostate_eq (spec_step sc P s a args) (spec_step sc P t a args).
Proof.
  intros H. unfold spec_step.
  pose proof (mk_interp_ext P s t (zip_params (a_params a) args) H) as HI.
  rewrite (all_hold_ext sc _ _ (a_pre a) HI), (fired_ext sc (a_effs a) _ _ HI).
  destruct (negb (all_hold sc (mk_interp P t (zip_params (a_params a) args)) (a_pre a))); [exact I|].
  destruct (fired sc (mk_interp P t (zip_params (a_params a) args)) (a_effs a)) as [acts|]; [|exact I].
  rewrite (spec_effects_ok_ext P s t acts H).
  destruct (negb (spec_effects_ok P t acts)); [exact I|].
  rewrite (invariants_ok_ext sc P _ _ (spec_succ_ext P s t acts H)).
  destruct (invariants_ok sc P (spec_succ P t acts)); [|exact I].
  apply spec_succ_ext, H.
Qed.

Lemma step_of_ext P s t i : state_eq s t -> ostate_eq (step_of P s i) (step_of P t i).
Proof. intros H. unfold step_of. destruct (lookup_action P (fst i)); [apply spec_step_ext, H | exact I]. Qed.

Lemma goals_hold_ext' sc P s t : state_eq s t -> goals_hold sc P s = goals_hold sc P t.
Proof. intros H. unfold goals_hold. apply all_hold_ext, mk_interp_ext, H. Qed.

(* ------------------------------------------------------------------ the list successor denotes spec_succ *)
Section Upd.
  Variable P : problem.
  Variable s : state.
  Variable acts : list aeff.

  Let entry (x : aeff) : fstate :=
    match spec_fluent P s acts (ae_key x) with
    | CVal v => [(fst (ae_key x), snd (ae_key x), v)]
    | _ => []
    end.

  Lemma upd_lookup acts' f a :
    lookup_app f a (flat_map entry acts') =
    if existsb (fun x => gfl_eqb (f, a) (ae_key x)) acts'
    then match spec_fluent P s acts (f, a) with CVal v => Some v | _ => None end
    else None.
  Proof.
    induction acts' as [|x acts' IH]; [reflexivity|].
    cbn [flat_map existsb]. rewrite lookup_app_app.
    destruct (gfl_eqb (f, a) (ae_key x)) eqn:E.
    - pose proof E as E'. apply gfl_eqb_eq in E'. unfold entry at 1. rewrite <- E'. cbn [fst snd orb].
      destruct (spec_fluent P s acts (f, a)) as [|v|] eqn:SF.
      + cbn [lookup_app]. rewrite IH. destruct (existsb _ acts'); reflexivity.
      + cbn [lookup_app]. rewrite N.eqb_refl, values_eqb_refl. reflexivity.
      + cbn [lookup_app]. rewrite IH. destruct (existsb _ acts'); reflexivity.
    - cbn [orb]. unfold entry at 1.
      destruct (spec_fluent P s acts (ae_key x)) as [|v|]; cbn [lookup_app]; try exact IH.
      unfold gfl_eqb in E. cbn [fst snd] in E. rewrite E. exact IH.
  Qed.

  Lemma no_effect_unchanged k :
    existsb (fun x => gfl_eqb k (ae_key x)) acts = false -> spec_fluent P s acts k = CUnchanged.
  Proof.
    intros H. unfold spec_fluent, avals, deltas.
    assert (F : forall g, filter (fun a0 => gfl_eqb (ae_key a0) k && g a0) acts = []).
    { intros g. induction acts as [|x l IH]; [reflexivity|].
      cbn [existsb] in H. apply orb_false_iff in H. destruct H as [H1 H2].
      cbn [filter]. rewrite gfl_eqb_sym, H1. cbn [andb]. apply IH, H2. }
    rewrite (F is_assign), (F (fun a0 => negb (is_assign a0))). reflexivity.
  Qed.

  Lemma upd_of_lookup f a :
    lookup_app f a (upd_of P s acts) = match spec_fluent P s acts (f, a) with CVal v => Some v | _ => None end.
  Proof.
    unfold upd_of. fold entry. change (flat_map (fun a0 => entry a0) acts) with (flat_map entry acts).
    rewrite upd_lookup.
    destruct (existsb (fun x => gfl_eqb (f, a) (ae_key x)) acts) eqn:E; [reflexivity|].
    rewrite (no_effect_unchanged _ E). reflexivity.
  Qed.
End Upd.

Lemma upd_of_spec P l acts : state_eq (st_of (upd_of P (st_of l) acts ++ l)) (spec_succ P (st_of l) acts).
Proof.
  intros f a. unfold st_of at 1. rewrite lookup_app_app, upd_of_lookup. unfold spec_succ.
  destruct (spec_fluent P (st_of l) acts (f, a)); reflexivity.
Qed.

Definition rel_ls (a : option fstate) (b : option state) : Prop :=
  match a, b with
  | Some l, Some s => state_eq s (st_of l)
  | None, None => True
  | _, _ => False
  end.

Lemma fstep_a_spec P l a args : rel_ls (fstep_a P l a args) (spec_step false P (st_of l) a args).
Proof.
  unfold fstep_a, spec_step. cbv zeta.
  destruct (negb (all_hold false (mk_interp P (st_of l) (zip_params (a_params a) args)) (a_pre a))); [exact I|].
  destruct (fired false (mk_interp P (st_of l) (zip_params (a_params a) args)) (a_effs a)) as [acts|]; [|exact I].
  destruct (negb (spec_effects_ok P (st_of l) acts)); [exact I|].
  rewrite (invariants_ok_ext false P _ _ (upd_of_spec P l acts)).
  destruct (invariants_ok false P (spec_succ P (st_of l) acts)); [|exact I].
  simpl. apply state_eq_sym, upd_of_spec.
Qed.

Lemma fstep_spec P l i s : state_eq s (st_of l) -> rel_ls (fstep P l i) (step_of P s i).
Proof.
  intros H. unfold fstep, step_of.
  destruct (lookup_action P (fst i)) as [a|]; [|exact I].
  pose proof (fstep_a_spec P l a (snd i)) as F.
  pose proof (spec_step_ext false P s (st_of l) a (snd i) H) as E.
  destruct (fstep_a P l a (snd i)) as [l'|], (spec_step false P (st_of l) a (snd i)) as [s1|],
           (spec_step false P s a (snd i)) as [s2|]; simpl in *; try contradiction; try exact I.
  eapply state_eq_trans; eauto.
Qed.

(* ------------------------------------------------------------------ metrics *)
Lemma zq0' : zq 0 = 0%Qc.
Proof. apply Qc_is_canon. reflexivity. Qed.
Lemma zq1' : zq 1 = 1%Qc.
Proof. apply Qc_is_canon. reflexivity. Qed.

Lemma step_metric_ext sc P M s t aid a args acc :
  state_eq s t -> step_metric sc P M s aid a args acc = step_metric sc P M t aid a args acc.
Proof.
  intros H. unfold step_metric. destruct M; try reflexivity.
  destruct (cost_expr (MCosts costs dflt) aid) as [e|]; [|reflexivity].
  rewrite (eval_ext sc e _ _ (mk_interp_ext P s t (zip_params (a_params a) args) H)). reflexivity.
Qed.

Lemma gains_ext sc I J gs : interp_eq I J -> gains sc I gs = gains sc J gs.
Proof.
  intros H. induction gs as [|[g w] gs IH]; simpl; [reflexivity|].
  rewrite (eval_ext sc g I J H), IH. reflexivity.
Qed.

Lemma final_metric_ext sc P M s t acc : state_eq s t -> final_metric sc P M s acc = final_metric sc P M t acc.
Proof.
  intros H. unfold final_metric. destruct M; try reflexivity.
  - rewrite (eval_ext sc e _ _ (mk_interp_ext P s t [] H)). reflexivity.
  - rewrite (gains_ext sc _ _ goals (mk_interp_ext P s t [] H)). reflexivity.
Qed.

Lemma step_metric_acc sc P M s aid a args acc :
  step_metric sc P M s aid a args acc =
  match step_metric sc P M s aid a args (zq 0) with Some d => Some (Qcplus d acc) | None => None end.
Proof.
  unfold step_metric. destruct M.
  - f_equal. rewrite zq0'. ring.
  - destruct (cost_expr (MCosts costs dflt) aid) as [e|]; [|reflexivity].
    destruct (eval sc e (mk_interp P s (zip_params (a_params a) args))) as [[b|c|o]|]; try reflexivity.
    f_equal. rewrite zq0'. ring.
  - f_equal. rewrite zq0'. ring.
  - f_equal. rewrite zq0'. ring.
  - f_equal. rewrite zq0'. ring.
Qed.

Lemma final_metric_acc sc P Q M1 M2 s acc :
  mclass M1 = mclass M2 ->
  final_metric sc P M1 s (zq 0) = final_metric sc Q M2 s (zq 0) ->
  final_metric sc P M1 s acc = final_metric sc Q M2 s acc.
Proof.
  destruct M1, M2; simpl; intros C H; try discriminate C; try reflexivity; exact H.
Qed.

Lemma oqc_eqb_eq a b : oqc_eqb a b = true -> a = b.
Proof. destruct a, b; simpl; try discriminate; try reflexivity. intros H. apply qc_eqb_eq in H. subst; reflexivity. Qed.
Lemma ooqc_eqb_eq a b : ooqc_eqb a b = true -> a = b.
Proof. destruct a, b; simpl; try discriminate; try reflexivity. intros H. apply oqc_eqb_eq in H. subst; reflexivity. Qed.

(* step contribution on arbitrary states *)
Definition sdelta (P : problem) (M : metric) (s : state) (i : inst) : option Qc :=
  match lookup_action P (fst i) with
  | None => None
  | Some a => step_metric false P M s (fst i) a (snd i) (zq 0)
  end.

Lemma sdelta_ext P M s t i : state_eq s t -> sdelta P M s i = sdelta P M t i.
Proof. intros H. unfold sdelta. destruct (lookup_action P (fst i)); [apply step_metric_ext, H | reflexivity]. Qed.

Lemma vplan_nil P M s acc :
  vplan P M s acc [] =
  if goals_hold false P s then match final_metric false P M s acc with Some m => Valid m | None => Invalid end else Invalid.
Proof. reflexivity. Qed.

Lemma vplan_cons P M s acc i plan :
  vplan P M s acc (i :: plan) =
  match step_of P s i with
  | None => Invalid
  | Some s' => match sdelta P M s i with
               | None => Invalid
               | Some d => vplan P M s' (Qcplus d acc) plan
               end
  end.
Proof.
  destruct i as [aid args]. unfold vplan, step_of, sdelta. cbn [validate_from fst snd].
  destruct (lookup_action P aid) as [a|]; [|reflexivity].
  destruct (spec_step false P s a args) as [s'|]; [|reflexivity].
  rewrite step_metric_acc. destruct (step_metric false P M s aid a args (zq 0)); reflexivity.
Qed.

Lemma run_cons P s i plan :
  run P (spec_step false P) s (i :: plan) =
  match step_of P s i with None => None | Some s' => run P (spec_step false P) s' plan end.
Proof.
  destruct i as [aid args]. unfold step_of. cbn [run fst snd].
  destruct (lookup_action P aid) as [a|]; reflexivity.
Qed.

(* ------------------------------------------------------------------ certificates *)
Local Open Scope nat_scope.
Section Cert.
  Variables P Q : problem.
  Variables MP MQ : metric.
  Variable insts : list inst.
  Variable V : list node.
  Variable b : nat.

  Definition Inv (k : nat) (s : state) : Prop :=
    exists nd, In nd V /\ n_rank nd <= k /\ state_eq s (st_of (n_st nd)).

  Lemma Inv_mono k k' s : k <= k' -> Inv k s -> Inv k' s.
  Proof. intros H (nd & H1 & H2 & H3). exists nd. repeat split; auto. lia. Qed.

  Lemma in_cert_sound r l : in_cert V r l = true -> Inv r (st_of l).
  Proof.
    unfold in_cert. rewrite existsb_exists. intros (nd & H1 & H2).
    apply andb_true_iff in H2. destruct H2 as [H2 H3]. apply Nat.leb_le in H2.
    exists nd. repeat split; auto. apply state_list_eqb_sound, H3.
  Qed.

  Hypothesis nodes_ok : forallb (node_ok P Q MP MQ insts V b) V = true.

  Lemma node_state nd s : In nd V -> state_eq s (st_of (n_st nd)) ->
    goals_hold false P s = goals_hold false Q s /\
    final_metric false P MP s (zq 0) = final_metric false Q MQ s (zq 0).
  Proof.
    intros HIn HS. rewrite forallb_forall in nodes_ok. pose proof (nodes_ok nd HIn) as H.
    unfold node_ok in H. apply andb_true_iff in H. destruct H as [H _].
    unfold state_code in H.
    rewrite (goals_hold_ext' false P _ _ HS), (goals_hold_ext' false Q _ _ HS).
    rewrite (final_metric_ext false P MP _ _ (zq 0) HS), (final_metric_ext false Q MQ _ _ (zq 0) HS).
    destruct (Bool.eqb (goals_hold false P (st_of (n_st nd))) (goals_hold false Q (st_of (n_st nd)))) eqn:E1;
      cbn [negb] in H; [|discriminate H].
    destruct (ooqc_eqb (final_metric false P MP (st_of (n_st nd)) (zq 0))
                       (final_metric false Q MQ (st_of (n_st nd)) (zq 0))) eqn:E2; cbn [negb] in H; [|discriminate H].
    split; [apply eqb_prop, E1 | apply ooqc_eqb_eq, E2].
  Qed.

  Lemma node_step nd s i : In nd V -> n_rank nd < b -> In i insts -> state_eq s (st_of (n_st nd)) ->
    match step_of P s i, step_of Q s i with
    | Some s1, Some s2 => state_eq s1 s2 /\ Inv (S (n_rank nd)) s1 /\ sdelta P MP s i = sdelta Q MQ s i
    | None, None => True
    | _, _ => False
    end.
  Proof.
    intros HIn Hr Hi HS. rewrite forallb_forall in nodes_ok. pose proof (nodes_ok nd HIn) as H.
    unfold node_ok in H. apply andb_true_iff in H. destruct H as [_ H].
    apply Nat.ltb_lt in Hr. rewrite Hr in H. rewrite forallb_forall in H. pose proof (H i Hi) as C. clear H.
    apply N.eqb_eq in C. unfold inst_code in C.
    pose proof (fstep_spec P (n_st nd) i s HS) as FP.
    pose proof (fstep_spec Q (n_st nd) i s HS) as FQ.
    rewrite (sdelta_ext P MP s _ i HS), (sdelta_ext Q MQ s _ i HS).
    destruct (fstep P (n_st nd) i) as [l1|], (fstep Q (n_st nd) i) as [l2|],
             (step_of P s i) as [s1|], (step_of Q s i) as [s2|]; simpl in FP, FQ; try contradiction; try exact I;
      try discriminate C.
    destruct (state_list_eqb l1 l2) eqn:E1; cbn [negb] in C; [|discriminate C].
    destruct (oqc_eqb (step_delta P MP (n_st nd) i) (step_delta Q MQ (n_st nd) i)) eqn:E2; cbn [negb] in C; [|discriminate C].
    destruct (in_cert V (S (n_rank nd)) l1) eqn:E3; cbn [negb] in C; [|discriminate C].
    apply state_list_eqb_sound in E1. apply oqc_eqb_eq in E2. apply in_cert_sound in E3.
    split; [|split].
    - eapply state_eq_trans; [exact FP|]. eapply state_eq_trans; [exact E1|]. apply state_eq_sym, FQ.
    - destruct E3 as (nd' & A1 & A2 & A3). exists nd'. repeat split; auto.
      eapply state_eq_trans; [exact FP | exact A3].
    - exact E2.
  Qed.

  Hypothesis same_class : mclass MP = mclass MQ.

  Lemma cert_plans : forall plan k sP sQ acc,
    (cert_closed V b = true \/ k + length plan <= b) ->
    Inv k sP -> state_eq sP sQ -> Forall (fun i => In i insts) plan ->
    vplan P MP sP acc plan = vplan Q MQ sQ acc plan /\
    ostate_eq (run P (spec_step false P) sP plan) (run Q (spec_step false Q) sQ plan) /\
    valid_plan false P sP plan = valid_plan false Q sQ plan.
  Proof.
    induction plan as [|i plan IH]; intros k sP sQ acc HB HI HS HF.
    - destruct HI as (nd & H1 & H2 & H3).
      destruct (node_state nd sP H1 H3) as [G F].
      rewrite !vplan_nil. unfold valid_plan. cbn [run].
      rewrite <- (goals_hold_ext' false Q _ _ HS), <- (final_metric_ext false Q MQ _ _ acc HS).
      rewrite (final_metric_acc false P Q MP MQ sP acc same_class F), G.
      repeat split; auto.
    - inversion HF as [|x l Hi HF']; subst.
      destruct HI as (nd & H1 & H2 & H3).
      assert (Hr : n_rank nd < b).
      { destruct HB as [HB|HB].
        - unfold cert_closed in HB. rewrite forallb_forall in HB. apply Nat.ltb_lt, HB, H1.
        - cbn [length] in HB. lia. }
      pose proof (node_step nd sP i H1 Hr Hi H3) as ST.
      pose proof (step_of_ext Q sP sQ i HS) as EQ.
      rewrite !vplan_cons. unfold valid_plan. rewrite !run_cons.
      rewrite <- (sdelta_ext Q MQ sP sQ i HS).
      destruct (step_of P sP i) as [s1|], (step_of Q sP i) as [s2|], (step_of Q sQ i) as [s3|];
        simpl in EQ; try contradiction; try (repeat split; auto; exact I).
      destruct ST as (A1 & A2 & A3). rewrite A3.
      assert (HB' : cert_closed V b = true \/ S k + length plan <= b).
      { destruct HB as [HB|HB]; [left; exact HB | right; cbn [length] in HB; lia]. }
      assert (HI' : Inv (S k) s1) by (apply (Inv_mono (S (n_rank nd))); [lia | exact A2]).
      assert (HS' : state_eq s1 s3) by (eapply state_eq_trans; eauto).
      destruct (sdelta Q MQ sP i) as [d|].
      + destruct (IH (S k) s1 s3 (Qcplus d acc) HB' HI' HS' HF') as (R1 & R2 & R3).
        repeat split; auto.
      + destruct (IH (S k) s1 s3 acc HB' HI' HS' HF') as (R1 & R2 & R3).
        repeat split; auto.
  Qed.
End Cert.

(* ------------------------------------------------------------------ ground instances *)
Lemma memN_In x l : memN x l = true <-> In x l.
Proof.
  unfold memN. rewrite existsb_exists. split.
  - intros (y & H1 & H2). apply N.eqb_eq in H2. subst; exact H1.
  - intros H. exists x. split; [exact H | apply N.eqb_refl].
Qed.

Lemma seteqN_spec a b : seteqN a b = true -> forall x, In x a <-> In x b.
Proof.
  unfold seteqN, subsetN. rewrite andb_true_iff, !forallb_forall. intros [H1 H2] x.
  split; intros H; [apply memN_In, H1, H | apply memN_In, H2, H].
Qed.

Lemma lookupN_in {A} k (t : list (N * A)) v : lookupN k t = Some v -> In (k, v) t.
Proof.
  induction t as [|[k' w] t IH]; simpl; [discriminate|].
  destruct (k =? k')%N eqn:E; [|intros H; right; auto].
  intros H; inversion H; subst. apply N.eqb_eq in E; subst. left; reflexivity.
Qed.

(* the same objects in every type *)
Lemma objs_agree_spec P Q : objs_agree P Q = true -> forall t o, In o (objs_of P t) <-> In o (objs_of Q t).
Proof.
  unfold objs_agree. rewrite andb_true_iff, !forallb_forall. intros [H1 H2] t o.
  unfold objs_of at 1. destruct (lookupN t (p_objs P)) as [os|] eqn:E1.
  - apply lookupN_in in E1. apply (seteqN_spec _ _ (H1 _ E1)).
  - unfold objs_of. destruct (lookupN t (p_objs Q)) as [os|] eqn:E2; [|tauto].
    apply lookupN_in in E2. pose proof (seteqN_spec _ _ (H2 _ E2) o) as H. cbn [fst snd] in H.
    unfold objs_of in H. rewrite E1 in H. symmetry; exact H.
Qed.

Lemma in_arg_tuples P sig : forall args,
  In args (arg_tuples P sig) <-> Forall2 (fun t v => exists o, v = VObj o /\ In o (objs_of P t)) sig args.
Proof.
  induction sig as [|t sig IH]; intros args; simpl.
  - split; [intros [<-|[]]; constructor | intros H; inversion H; left; reflexivity].
  - rewrite in_flat_map. split.
    + intros (o & Ho & H). apply in_map_iff in H. destruct H as (tl & <- & Htl).
      constructor; [exists o; auto | apply IH, Htl].
    + intros H. inversion H as [|t' v sig' tl (o & -> & Ho) Htl]; subst.
      exists o. split; [exact Ho|]. apply in_map, IH, Htl.
Qed.

Lemma in_all_insts P sigs aid args :
  In (aid, args) (all_insts P sigs) <-> exists sig, In (aid, sig) sigs /\ In args (arg_tuples P sig).
Proof.
  unfold all_insts. rewrite in_flat_map. split.
  - intros ([a sig] & H1 & H2). apply in_map_iff in H2. destruct H2 as (x & E & Hx). inversion E; subst.
    exists sig. auto.
  - intros (sig & H1 & H2). exists (aid, sig). split; [exact H1|]. cbn [fst snd]. apply in_map, H2.
Qed.

(* with the same objects per type both problems have the same well-typed ground instances *)
Lemma all_insts_agree P Q sigs : objs_agree P Q = true ->
  forall i, In i (all_insts P sigs) <-> In i (all_insts Q sigs).
Proof.
  intros H [aid args]. rewrite !in_all_insts.
  assert (E : forall sig, In args (arg_tuples P sig) <-> In args (arg_tuples Q sig)).
  { intros sig. rewrite !in_arg_tuples. revert args. induction sig as [|t sig IH]; intros args.
    - split; intros F; inversion F; constructor.
    - split; intros F; inversion F as [|t' v sig' tl (o & -> & Ho) Htl]; subst; constructor;
        try (exists o; split; [reflexivity | apply (objs_agree_spec P Q H), Ho]); apply IH, Htl. }
  split; intros (sig & H1 & H2); exists sig; (split; [exact H1 | apply E, H2]).
Qed.

(* ------------------------------------------------------------------ the checker *)
Definition plan_over (insts : list inst) (plan : list inst) : Prop := Forall (fun i => In i insts) plan.

Definition agree_on (P Q : problem) (MP MQ : metric) (l0P l0Q : fstate) (plan : list inst) : Prop :=
  vplan P MP (st_of l0P) (zq 0) plan = vplan Q MQ (st_of l0Q) (zq 0) plan /\
  ostate_eq (run P (spec_step false P) (st_of l0P) plan) (run Q (spec_step false Q) (st_of l0Q) plan) /\
  valid_plan false P (st_of l0P) plan = valid_plan false Q (st_of l0Q) plan.

Lemma bisim_check_with_inv vb P Q MP MQ sigsP sigsQ l0P l0Q :
  (forall w tr i, bisim_check_with vb P Q MP MQ sigsP sigsQ l0P l0Q <> BFail w tr i) ->
  objs_agree P Q = true /\ sigs_agree sigsP sigsQ = true /\ metric_kind_eqb MP MQ = true /\
  state_list_eqb l0P l0Q = true /\
  exists V b, cert_ok P Q (qm_m MP) (qm_m MQ) (all_insts P sigsP) V b l0P = true /\
              bisim_check_with vb P Q MP MQ sigsP sigsQ l0P l0Q = (if cert_closed V b then BClosed else BBounded b).
Proof.
  unfold bisim_check_with. intros H.
  destruct (objs_agree P Q); cbn [negb] in *; [|exfalso; eapply H; reflexivity].
  destruct (sigs_agree sigsP sigsQ); cbn [negb] in *; [|exfalso; eapply H; reflexivity].
  destruct (metric_kind_eqb MP MQ); cbn [negb] in *; [|exfalso; eapply H; reflexivity].
  destruct (state_list_eqb l0P l0Q); cbn [negb] in *; [|exfalso; eapply H; reflexivity].
  cbv zeta in *.
  destruct (cert_ok P Q (qm_m MP) (qm_m MQ) (all_insts P sigsP) (fst vb) (snd vb) l0P) eqn:C.
  - repeat split; auto. exists (fst vb), (snd vb). split; [exact C | reflexivity].
  - exfalso. destruct (first_bad P Q (qm_m MP) (qm_m MQ) (all_insts P sigsP) (fst vb) (snd vb)) as [[[w tr] i]|];
      eapply H; reflexivity.
Qed.

Lemma bisim_check_inv P Q MP MQ sigsP sigsQ l0P l0Q n cap :
  (forall w tr i, bisim_check P Q MP MQ sigsP sigsQ l0P l0Q n cap <> BFail w tr i) ->
  objs_agree P Q = true /\ sigs_agree sigsP sigsQ = true /\ metric_kind_eqb MP MQ = true /\
  state_list_eqb l0P l0Q = true /\
  exists V b, cert_ok P Q (qm_m MP) (qm_m MQ) (all_insts P sigsP) V b l0P = true /\
              bisim_check P Q MP MQ sigsP sigsQ l0P l0Q n cap = (if cert_closed V b then BClosed else BBounded b).
Proof. apply bisim_check_with_inv. Qed.

Lemma metric_kind_class MP MQ : metric_kind_eqb MP MQ = true -> mclass (qm_m MP) = mclass (qm_m MQ).
Proof. unfold metric_kind_eqb. rewrite andb_true_iff. intros [_ H]. apply N.eqb_eq, H. Qed.

Lemma cert_ok_agree P Q MP MQ insts V b l0P l0Q plan :
  cert_ok P Q MP MQ insts V b l0P = true -> mclass MP = mclass MQ -> state_list_eqb l0P l0Q = true ->
  (cert_closed V b = true \/ length plan <= b) -> plan_over insts plan ->
  agree_on P Q MP MQ l0P l0Q plan.
Proof.
  unfold cert_ok. rewrite andb_true_iff. intros [C1 C2] HC HS HB HP.
  apply (cert_plans P Q MP MQ insts V b C2 HC plan 0).
  - destruct HB; [left; assumption | right; lia].
  - apply in_cert_sound, C1.
  - apply state_list_eqb_sound, HS.
  - exact HP.
Qed.

(* closed product graph: all plans over the well-typed ground instances *)
Theorem bisim_check_closed_sound P Q MP MQ sigsP sigsQ l0P l0Q n cap :
  bisim_check P Q MP MQ sigsP sigsQ l0P l0Q n cap = BClosed ->
  forall plan, plan_over (all_insts P sigsP) plan -> agree_on P Q (qm_m MP) (qm_m MQ) l0P l0Q plan.
Proof.
  intros H plan HP.
  destruct (bisim_check_inv P Q MP MQ sigsP sigsQ l0P l0Q n cap) as (_ & _ & HK & HS & V & b & C & E).
  { intros w tr i. rewrite H. discriminate. }
  rewrite H in E. destruct (cert_closed V b) eqn:CL; [|discriminate E].
  eapply cert_ok_agree; eauto using metric_kind_class.
Qed.

(* otherwise: all plans up to the explored depth *)
Theorem bisim_check_bounded_sound P Q MP MQ sigsP sigsQ l0P l0Q n cap b :
  bisim_check P Q MP MQ sigsP sigsQ l0P l0Q n cap = BBounded b ->
  forall plan, length plan <= b -> plan_over (all_insts P sigsP) plan -> agree_on P Q (qm_m MP) (qm_m MQ) l0P l0Q plan.
Proof.
  intros H plan HL HP.
  destruct (bisim_check_inv P Q MP MQ sigsP sigsQ l0P l0Q n cap) as (_ & _ & HK & HS & V & b' & C & E).
  { intros w tr i. rewrite H. discriminate. }
  rewrite H in E. destruct (cert_closed V b') eqn:CL; [discriminate E|]. inversion E; subst b'.
  eapply cert_ok_agree; eauto using metric_kind_class.
Qed.

(* the static part of a passed check *)
Theorem bisim_check_static P Q MP MQ sigsP sigsQ l0P l0Q n cap :
  (forall w tr i, bisim_check P Q MP MQ sigsP sigsQ l0P l0Q n cap <> BFail w tr i) ->
  (forall t o, In o (objs_of P t) <-> In o (objs_of Q t)) /\
  (forall i, In i (all_insts P sigsP) <-> In i (all_insts Q sigsP)) /\
  state_eq (st_of l0P) (st_of l0Q) /\
  qm_max MP = qm_max MQ /\ mclass (qm_m MP) = mclass (qm_m MQ).
Proof.
  intros H. destruct (bisim_check_inv _ _ _ _ _ _ _ _ _ _ H) as (HO & _ & HK & HS & _).
  repeat split; try (apply (objs_agree_spec P Q HO)); try (apply (all_insts_agree P Q sigsP HO)).
  - apply state_list_eqb_sound, HS.
  - unfold metric_kind_eqb in HK. apply andb_true_iff in HK. destruct HK as [HK _]. apply eqb_prop, HK.
  - apply metric_kind_class, HK.
Qed.

(* ------------------------------------------------------------------ statements in the form used by Props/C18, C19 *)
Lemma ground_instances_spec P sigs aid args :
  In (aid, args) (all_insts P sigs) <->
  exists sig, In (aid, sig) sigs /\ Forall2 (fun t v => exists o, v = VObj o /\ In o (objs_of P t)) sig args.
Proof.
  rewrite in_all_insts.
  split; intros (sig & H1 & H2); exists sig; (split; [exact H1 | apply in_arg_tuples, H2]).
Qed.

Lemma bisim_check_closed_sound_runs P Q MP MQ sigsP sigsQ l0P l0Q n cap :
  bisim_check P Q MP MQ sigsP sigsQ l0P l0Q n cap = BClosed ->
  forall plan, Forall (fun i => In i (all_insts P sigsP)) plan ->
    ostate_eq (run P (spec_step false P) (st_of l0P) plan) (run Q (spec_step false Q) (st_of l0Q) plan) /\
    valid_plan false P (st_of l0P) plan = valid_plan false Q (st_of l0Q) plan.
Proof.
  intros H plan HP.
  destruct (bisim_check_closed_sound P Q MP MQ sigsP sigsQ l0P l0Q n cap H plan HP) as (_ & A & B). split; assumption.
Qed.

Lemma bisim_check_bounded_sound_runs P Q MP MQ sigsP sigsQ l0P l0Q n cap b :
  bisim_check P Q MP MQ sigsP sigsQ l0P l0Q n cap = BBounded b ->
  forall plan, (length plan <= b)%nat -> Forall (fun i => In i (all_insts P sigsP)) plan ->
    ostate_eq (run P (spec_step false P) (st_of l0P) plan) (run Q (spec_step false Q) (st_of l0Q) plan) /\
    valid_plan false P (st_of l0P) plan = valid_plan false Q (st_of l0Q) plan.
Proof.
  intros H plan HL HP.
  destruct (bisim_check_bounded_sound P Q MP MQ sigsP sigsQ l0P l0Q n cap b H plan HL HP) as (_ & A & B). split; assumption.
Qed.

Lemma bisim_check_static_objects P Q MP MQ sigsP sigsQ l0P l0Q n cap :
  (forall w tr i, bisim_check P Q MP MQ sigsP sigsQ l0P l0Q n cap <> BFail w tr i) ->
  (forall t o, In o (objs_of P t) <-> In o (objs_of Q t)) /\
  (forall i, In i (all_insts P sigsP) <-> In i (all_insts Q sigsP)) /\
  state_eq (st_of l0P) (st_of l0Q).
Proof.
  intros H. destruct (bisim_check_static P Q MP MQ sigsP sigsQ l0P l0Q n cap H) as (A & B & C & _).
  repeat split; auto; apply A || apply B.
Qed.

Lemma plan_eqb_eq a : forall b, plan_eqb a b = true -> a = b.
Proof.
  induction a as [|[x u] a IH]; intros [|[y v] b]; simpl; try discriminate; [reflexivity|].
  rewrite !andb_true_iff. intros [[H1 H2] H3]. apply N.eqb_eq in H1. apply values_eqb_eq in H2.
  rewrite (IH _ H3). subst; reflexivity.
Qed.

(* ------------------------------------------------------------------ structural metric equality *)
Lemma oexpr_eqb_eq a b : oexpr_eqb a b = true -> a = b.
Proof. destruct a, b; simpl; try discriminate; try reflexivity. intros H. apply expr_eqb_eq in H. subst; reflexivity. Qed.

Lemma gains_eqb_eq a : forall b, gains_eqb a b = true -> a = b.
Proof.
  induction a as [|[g w] a IH]; intros [|[h v] b]; simpl; try discriminate; [reflexivity|].
  rewrite !andb_true_iff. intros [[H1 H2] H3]. apply expr_eqb_eq in H1. apply qc_eqb_eq in H2.
  rewrite (IH _ H3). subst; reflexivity.
Qed.

Theorem metric_eqb_sound acts a b : metric_eqb acts a b = true ->
  qm_max a = qm_max b /\ mclass (qm_m a) = mclass (qm_m b) /\
  (forall aid, In aid acts -> cost_of (qm_m a) aid = cost_of (qm_m b) aid) /\
  (forall e, qm_m a = MFinal e -> qm_m b = MFinal e) /\
  (forall g, qm_m a = MOversub g -> qm_m b = MOversub g).
Proof.
  unfold metric_eqb. rewrite !andb_true_iff. intros [[H1 H2] H3].
  pose proof (metric_kind_class a b H1) as HC.
  unfold metric_kind_eqb in H1. apply andb_true_iff in H1. destruct H1 as [H1 _]. apply eqb_prop in H1.
  rewrite forallb_forall in H2.
  repeat split; auto.
  - intros aid Hin. apply oexpr_eqb_eq, H2, Hin.
  - intros e E. rewrite E in H3. destruct (qm_m b); simpl in H3; try discriminate H3.
    apply expr_eqb_eq in H3. subst; reflexivity.
  - intros g E. rewrite E in H3. destruct (qm_m b); simpl in H3; try discriminate H3.
    apply gains_eqb_eq in H3. subst; reflexivity.
Qed.

(* ------------------------------------------------------------------ temporal structure *)
Lemma timing_eqb_eq a b : timing_eqb a b = true -> a = b.
Proof.
  destruct a, b. unfold timing_eqb; simpl. rewrite andb_true_iff, N.eqb_eq, qc_eqb_eq. intros [-> ->]; reflexivity.
Qed.

Lemma tinterval_eqb_eq a b : tinterval_eqb a b = true -> a = b.
Proof.
  destruct a, b. unfold tinterval_eqb; simpl. rewrite !andb_true_iff. intros [[[H1 H2] H3] H4].
  apply timing_eqb_eq in H1, H2. apply eqb_prop in H3, H4. subst; reflexivity.
Qed.

Lemma ekind_eqb_eq a b : ekind_eqb a b = true -> a = b.
Proof. destruct a, b; simpl; try discriminate; reflexivity. Qed.

Lemma list_expr_eqb_eq' l l' : list_expr_eqb l l' = true -> l = l'.
Proof.
  apply list_expr_eqb_eq. apply Forall_forall. intros x _ y. apply expr_eqb_eq.
Qed.

Lemma effect_eqb_eq a b : effect_eqb a b = true -> a = b.
Proof.
  destruct a, b. unfold effect_eqb; simpl. rewrite !andb_true_iff. intros [[[[[[H1 H2] H3] H4] H5] H6] H7].
  apply N.eqb_eq in H1. apply list_expr_eqb_eq' in H2. apply expr_eqb_eq in H3, H4. apply ekind_eqb_eq in H5.
  apply vars_eqb_eq in H6. apply eqb_prop in H7. subst; reflexivity.
Qed.

Lemma cond_eqb_eq a b : cond_eqb a b = true -> a = b.
Proof.
  destruct a, b. unfold cond_eqb; simpl. rewrite andb_true_iff. intros [H1 H2].
  apply tinterval_eqb_eq in H1. apply expr_eqb_eq in H2. subst; reflexivity.
Qed.

Lemma teff_eqb_eq a b : teff_eqb a b = true -> a = b.
Proof.
  destruct a, b. unfold teff_eqb; simpl. rewrite andb_true_iff. intros [H1 H2].
  apply timing_eqb_eq in H1. apply effect_eqb_eq in H2. subst; reflexivity.
Qed.

Lemma listN_eqb_eq a : forall b, listN_eqb a b = true -> a = b.
Proof.
  induction a as [|x a IH]; intros [|y b]; simpl; try discriminate; [reflexivity|].
  rewrite andb_true_iff, N.eqb_eq. intros [-> H]. rewrite (IH _ H). reflexivity.
Qed.

Lemma seteq_b_spec {A} (eqb : A -> A -> bool) (Heq : forall x y, eqb x y = true -> x = y) a b :
  seteq_b eqb a b = true -> forall x, In x a <-> In x b.
Proof.
  unfold seteq_b, incl_b. rewrite andb_true_iff, !forallb_forall. intros [H1 H2] x. split; intros H.
  - apply H1 in H. apply existsb_exists in H. destruct H as (y & Hy & E). apply Heq in E. subst; exact Hy.
  - apply H2 in H. apply existsb_exists in H. destruct H as (y & Hy & E). apply Heq in E. subst; exact Hy.
Qed.

Definition daction_same (a b : daction) : Prop :=
  da_sig a = da_sig b /\ da_dlo a = da_dlo b /\ da_dhi a = da_dhi b /\
  da_dlopen a = da_dlopen b /\ da_dropen a = da_dropen b /\
  (forall c, In c (da_conds a) <-> In c (da_conds b)) /\
  (forall e, In e (da_effs a) <-> In e (da_effs b)).

Lemma daction_eqb_sound a b : daction_eqb a b = true -> daction_same a b.
Proof.
  unfold daction_eqb. rewrite !andb_true_iff. intros [[[[[[H1 H2] H3] H4] H5] H6] H7].
  apply listN_eqb_eq in H1. apply expr_eqb_eq in H2, H3. apply eqb_prop in H4, H5.
  unfold daction_same. repeat split; auto;
    try (apply (seteq_b_spec cond_eqb cond_eqb_eq _ _ H6)); try (apply (seteq_b_spec teff_eqb teff_eqb_eq _ _ H7)).
Qed.

Lemma dactions_sub_sound a b : dactions_sub a b = true ->
  forall aid x, lookupN aid a = Some x -> exists y, lookupN aid b = Some y /\ daction_same x y.
Proof.
  unfold dactions_sub. rewrite forallb_forall. intros H aid x L.
  pose proof (H _ (lookupN_in _ _ _ L)) as C. cbn [fst snd] in C.
  destruct (lookupN aid b) as [y|]; [|discriminate C]. exists y. split; [reflexivity | apply daction_eqb_sound, C].
Qed.

(* structural equality => equal fields: the same durative actions (durations, timed conditions and effects as sets),
   the same timed initial effects and timed goals *)
Theorem temporal_structure_eqb_sound a b : temporal_structure_eqb a b = true ->
  (forall aid x, lookupN aid (ts_actions a) = Some x -> exists y, lookupN aid (ts_actions b) = Some y /\ daction_same x y) /\
  (forall aid y, lookupN aid (ts_actions b) = Some y -> exists x, lookupN aid (ts_actions a) = Some x /\ daction_same y x) /\
  (forall e, In e (ts_teffs a) <-> In e (ts_teffs b)) /\
  (forall g, In g (ts_tgoals a) <-> In g (ts_tgoals b)).
Proof.
  unfold temporal_structure_eqb. rewrite !andb_true_iff. intros [[[H1 H2] H3] H4].
  repeat split; try (apply (dactions_sub_sound _ _ H1)); try (apply (dactions_sub_sound _ _ H2));
    try (apply (seteq_b_spec teff_eqb teff_eqb_eq _ _ H3)); try (apply (seteq_b_spec cond_eqb cond_eqb_eq _ _ H4)).
Qed.
