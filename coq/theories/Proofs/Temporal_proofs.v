(* C05: the composed theorem — the model of TimeTriggeredPlanValidator._validate returns VALID exactly for the plans
   valid under the reference temporal semantics — and C04: on instantaneous plans with distinct start times the
   time-triggered model agrees with the sequential validator model. *)
From Coq Require Import List ZArith NArith QArith Qcanon Bool Lia Lqa Permutation.
Import ListNotations.
Require Import UPV.Core.Expr UPV.Core.Eval UPV.Core.Interp UPV.Planning.Problem UPV.Planning.Sem.
Require Import UPV.Planning.Temporal UPV.Planning.TTValidate.
Require Import UPV.Proofs.Eval_lemmas UPV.Proofs.Sem_proofs UPV.Proofs.Step_proofs.
Require Import UPV.Proofs.Temporal_base UPV.Proofs.Temporal_dense UPV.Proofs.Temporal_joint UPV.Proofs.Temporal_loop
               UPV.Proofs.Temporal_run.
Local Open Scope Qc_scope.

Lemma eval_EReal sc q I : eval sc (EReal q) I = Some (VNum q).
Proof. reflexivity. Qed.

(* fourth core lemma: the duration constraint built by the validator (And(GT/GE(duration, lower), LT/LE(duration, upper)))
   holds in a state exactly when the duration lies in the possibly open interval whose bounds are evaluated there *)
Theorem duration_check sc TP s bind d dur :
  holds_in sc TP s bind (dur_expr d dur) = dur_ok sc TP s bind d dur.
Proof.
  unfold holds_in, holds, dur_ok, dur_expr. rewrite eval_EAnd. cbn [ebools].
  set (I := mk_interp (tp_base TP) s bind).
  destruct (d_lopen d), (d_ropen d); rewrite ?eval_ELt, ?eval_ELe, !eval_EReal; cbn [as_num];
    destruct (eval sc (d_lo d) I) as [[b|l|o]|]; cbn [as_num as_bool]; try reflexivity;
    destruct (eval sc (d_hi d) I) as [[b|h|o]|]; cbn [as_num as_bool forallb]; try reflexivity;
    rewrite andb_true_r; match goal with |- (if ?b then true else false) = _ => destruct b; reflexivity end.
Qed.

(* ------------------------------------------------------------------ small facts *)
Lemma indexed_from_In {A} (l : list A) : forall i j x, In (j, x) (indexed_from i l) -> In x l.
Proof.
  induction l as [|a l IH]; intros i j x H; [destruct H|]. cbn in H.
  destruct H as [H|H]; [inversion H; left; reflexivity | right; apply (IH (S i) j x H)].
Qed.
Lemma In_indexed_from {A} (l : list A) : forall i x, In x l -> exists j, In (j, x) (indexed_from i l).
Proof.
  induction l as [|a l IH]; intros i x H; [destruct H|]. cbn.
  destruct H as [<-|H]; [exists i; left; reflexivity|]. destruct (IH (S i) x H) as [j Hj]. exists j. right. exact Hj.
Qed.

Lemma asc_from_of_asc p l : asc l -> (forall x, In x l -> p < x) -> asc_from p l.
Proof. destruct l as [|a l]; [auto|]. intros A H. split; [apply H; left; reflexivity | exact A]. Qed.

Lemma run_times_keys step E : forall ts s tr, run_times step E s ts = Some tr -> map fst tr = ts.
Proof.
  induction ts as [|t ts IH]; intros s tr H; cbn in H; [inversion H; reflexivity|].
  destruct (step s (events_at t E)) as [s'|]; [|discriminate].
  destruct (run_times step E s' ts) as [tr'|] eqn:ER; [|discriminate]. inversion H; subst. cbn. f_equal. apply (IH s' tr' ER).
Qed.

Lemma state_at_trace_eq a b : trace_eq a b -> forall s s' u, state_eq s s' -> state_eq (state_at s a u) (state_at s' b u).
Proof.
  induction 1 as [|[x sx] [y sy] a b [H1 H2] _ IH]; intros s s' u SE; [exact SE|].
  cbn in H1, H2. subst y. cbn [state_at]. destruct (qc_ltb x u); [apply IH, H2 | exact SE].
Qed.

Lemma final_state_trace_eq a b : trace_eq a b -> forall s s', state_eq s s' -> state_eq (final_state s a) (final_state s' b).
Proof.
  induction 1 as [|[x sx] [y sy] a b [H1 H2] _ IH]; intros s s' SE; [exact SE|]. cbn. apply IH, H2.
Qed.

Section Final.
  Variable sc : bool.
  Variable TP : tproblem.
  Let P := tp_base TP.

  Definition plan_typed_t (pi : tplan) : Prop := forall e, In e (all_events TP pi) -> event_typed sc P e.

  Lemma holds_in_ext s t bind c : state_eq s t -> holds_in sc TP s bind c = holds_in sc TP t bind c.
  Proof. intros H. unfold holds_in. apply holds_ext, mk_interp_ext, H. Qed.

  Lemma cond_ok_trace_eq s0 a b c : trace_eq a b -> (cond_ok sc TP s0 a c <-> cond_ok sc TP s0 b c).
  Proof.
    intros TE. unfold cond_ok. split; intros H u Hu; specialize (H u Hu).
    - rewrite <- (holds_in_ext _ _ _ _ (state_at_trace_eq a b TE s0 s0 u (fun _ _ => eq_refl))). exact H.
    - rewrite (holds_in_ext _ _ _ _ (state_at_trace_eq a b TE s0 s0 u (fun _ _ => eq_refl))). exact H.
  Qed.

  Lemma dur_ok_ext s t bind d dur : state_eq s t -> dur_ok sc TP s bind d dur = dur_ok sc TP t bind d dur.
  Proof.
    intros H. unfold dur_ok. fold P.
    rewrite (eval_ext sc (d_lo d) _ _ (mk_interp_ext P s t bind H)), (eval_ext sc (d_hi d) _ _ (mk_interp_ext P s t bind H)).
    reflexivity.
  Qed.

  (* ---------------- the heap after all pushes *)
  Definition full_heap (pi : tplan) : list event :=
    hpush_all (flat_map (evs_of TP) (starts_order pi)) (init_heap TP).

  Lemma full_heap_spec pi : sortedT (full_heap pi) /\ Permutation (full_heap pi) (all_events TP pi).
  Proof.
    unfold full_heap, init_heap. split.
    - apply hpush_all_sorted, hpush_all_sorted. exact I.
    - eapply Permutation_trans; [apply hpush_all_perm|].
      eapply Permutation_trans; [apply Permutation_app_comm|]. unfold all_events.
      apply Permutation_app.
      + eapply Permutation_trans; [apply hpush_all_perm|]. rewrite app_nil_r. apply Permutation_refl.
      + unfold plan_events. apply Permutation_flat_map. apply (proj2 (starts_order_spec pi)).
  Qed.

  Lemma starts_ok_order pi : plan_times_ok TP pi = true -> starts_ok TP (starts_order pi).
  Proof.
    intros H. unfold plan_times_ok in H. apply andb_true_iff in H. destruct H as [_ H]. rewrite forallb_forall in H.
    intros ist e Hi He. apply (Permutation_in _ (proj2 (starts_order_spec pi))) in Hi.
    specialize (H ist Hi). unfold step_times_ok in H. apply andb_true_iff in H. destruct H as [_ H].
    rewrite forallb_forall in H. apply qc_leb_le. apply H. exact He.
  Qed.

  Lemma events_nonneg pi e : plan_times_ok TP pi = true -> In e (all_events TP pi) -> zq 0 <= ev_time e.
  Proof.
    intros H He. unfold plan_times_ok in H. apply andb_true_iff in H. destruct H as [H1 H2].
    rewrite forallb_forall in H1, H2. unfold all_events in He. apply in_app_iff in He. destruct He as [He|He].
    - apply qc_leb_le. apply (H1 e He).
    - unfold plan_events in He. apply in_flat_map in He. destruct He as [ist [Hi He]].
      specialize (H2 ist Hi). unfold step_times_ok in H2. apply andb_true_iff in H2. destruct H2 as [N H2].
      rewrite forallb_forall in H2. specialize (H2 e He). unfold nonneg in N. qb. qco.
  Qed.

  Lemma times_asc_from pi : plan_times_ok TP pi = true -> asc_from minus1 (times_of (all_events TP pi)).
  Proof.
    intros H. destruct (times_of_spec (all_events TP pi)) as [T1 T2]. apply asc_from_of_asc; [exact T1|].
    intros x Hx. apply T2 in Hx. apply in_map_iff in Hx. destruct Hx as [e [<- He]].
    pose proof (events_nonneg pi e H He). pose proof minus1_lt0. qco.
  Qed.

  (* ---------------- the main loop computes the reference run *)
  Theorem tt_main_run (s0 : state) (pi : tplan) :
    plan_times_ok TP pi = true -> plan_typed_t pi ->
    match tt_main sc TP (starts_order pi) (init_heap TP) (s0, [(minus1, s0)]) with
    | DOk _ (last, trm) =>
        exists new trr, trm = (minus1, s0) :: new /\
          run_times (ref_apply sc P) (all_events TP pi) s0 (times_of (all_events TP pi)) = Some trr /\
          trace_eq new trr /\ state_eq last (final_state s0 trr) /\ asc_from minus1 (keys new)
    | DFail => run_times (ref_apply sc P) (all_events TP pi) s0 (times_of (all_events TP pi)) = None
    | DFuel => False
    end.
  Proof.
    intros OK TY. destruct (full_heap_spec pi) as [SH PH].
    rewrite (tt_main_groups sc TP (starts_order pi) (init_heap TP) (s0, [(minus1, s0)])).
    - fold (full_heap pi). rewrite (groups_as_map _ SH), (groups_times _ _ SH PH).
      pose proof (run_compare sc TP (full_heap pi) (all_events TP pi) PH TY (times_of (all_events TP pi)) minus1
                              (s0, [(minus1, s0)]) s0 (times_asc_from pi OK)) as RC.
      cbn [fst snd] in RC.
      assert (K : forall y, In y (keys [(minus1, s0)]) -> y <= minus1) by (intros y [<-|[]]; apply Qcle_refl).
      specialize (RC K (fun _ _ => eq_refl)).
      destruct (run_groups sc TP _ (s0, [(minus1, s0)])) as [[last trm]|]; cbn [dres_of].
      + destruct RC as [new [trr [E1 [E2 [E3 [E4 E5]]]]]]. exists new, trr. repeat split; auto.
        unfold keys. rewrite E5. apply times_asc_from, OK.
      + exact RC.
    - unfold init_heap. apply hpush_all_sorted. exact I.
    - apply (proj1 (starts_order_spec pi)).
    - apply starts_ok_order, OK.
  Qed.

  Lemma goals_hold_ext' s t : state_eq s t -> goals_hold sc P s = goals_hold sc P t.
  Proof. intros H. unfold goals_hold. apply all_hold_ext, mk_interp_ext, H. Qed.

  Lemma step_start_nonneg pi st : plan_times_ok TP pi = true -> In st pi -> zq 0 <= ps_start st.
  Proof.
    intros H Hs. unfold plan_times_ok in H. apply andb_true_iff in H. destruct H as [_ H]. rewrite forallb_forall in H.
    destruct (In_indexed_from pi 0 st Hs) as [j Hj]. specialize (H (j, st) Hj). unfold step_times_ok in H.
    apply andb_true_iff in H. destruct H as [N _]. unfold nonneg in N. apply qc_leb_le, N.
  Qed.

  (* the conditions contributed by one plan step: model (final check over the trace) versus reference *)
  Lemma step_checks (s0 : state) (new trr : trace) (st : pstep) :
    asc_from minus1 (keys new) -> trace_eq new trr -> zq 0 <= ps_start st ->
    (forall c, In c (step_conds TP st) -> iv_nonempty (tc_iv c) = true /\ zq 0 <= ai_lo (tc_iv c)) ->
    ((forall c, In c (step_dur_cond TP st ++ step_conds TP st) -> check_cond sc TP ((minus1, s0) :: new) c = true) <->
     (step_dur_ok sc TP s0 trr st = true /\ forall c, In c (step_conds TP st) -> cond_ok sc TP s0 trr c)).
  Proof.
    intros A TE N IV.
    assert (C : forall c, In c (step_conds TP st) ->
                          (check_cond sc TP ((minus1, s0) :: new) c = true <-> cond_ok sc TP s0 trr c)).
    { intros c Hc. destruct (IV c Hc) as [I1 I2].
      rewrite (check_cond_spec sc TP s0 new c A I2 I1). apply cond_ok_trace_eq, TE. }
    assert (D : (forall c, In c (step_dur_cond TP st) -> check_cond sc TP ((minus1, s0) :: new) c = true) <->
                step_dur_ok sc TP s0 trr st = true).
    { unfold step_dur_cond, step_dur_ok.
      destruct (lookup_tact TP (ps_act st)) as [[a|d]|]; try (split; [reflexivity | intros _ c []]).
      destruct (ps_dur st) as [dur|]; try (split; [reflexivity | intros _ c []]).
      rewrite <- (dur_ok_ext _ _ _ _ _ (state_at_trace_eq new trr TE s0 s0 (ps_start st) (fun _ _ => eq_refl))).
      rewrite <- duration_check. rewrite <- (conditions_before_effects sc TP s0 new (ps_start st) _ _ A N).
      split; [intros H; apply H; left; reflexivity | intros H c [<-|[]]; exact H]. }
    split.
    - intros H. split; [apply D; intros c Hc; apply H, in_or_app; left; exact Hc|].
      intros c Hc. apply (C c Hc). apply H, in_or_app. right. exact Hc.
    - intros [H1 H2] c Hc. apply in_app_iff in Hc. destruct Hc as [Hc|Hc]; [apply (proj2 D H1 c Hc)|].
      apply (C c Hc), H2, Hc.
  Qed.

  (* ---------------- C05: the composed theorem *)
  Theorem tt_validate_correct (s0 : state) (pi : tplan) :
    supported_plan TP pi = true -> plan_typed_t pi ->
    (tt_validate sc TP s0 pi = VALID <-> tt_valid sc TP s0 pi).
  Proof.
    intros SUP TY. unfold supported_plan in SUP. apply andb_true_iff in SUP. destruct SUP as [OK IV].
    unfold tt_validate, tt_valid. fold P.
    destruct (plan_wf TP pi) eqn:WF; cbn [negb]; [|split; [discriminate | intros [H _]; discriminate]].
    pose proof (tt_main_run s0 pi OK TY) as MR.
    destruct (tt_main sc TP (starts_order pi) (init_heap TP) (s0, [(minus1, s0)])) as [| |h [last trm]].
    - split; [discriminate|]. intros [_ [tr [R _]]]. congruence.
    - contradiction.
    - destruct MR as [new [trr [E1 [E2 [TE [LE A]]]]]]. subst trm.
      unfold intervals_ok in IV. rewrite forallb_forall in IV.
      assert (IVc : forall c, In c (all_conds TP pi) -> iv_nonempty (tc_iv c) = true /\ zq 0 <= ai_lo (tc_iv c)).
      { intros c Hc. specialize (IV c Hc). apply andb_true_iff in IV. destruct IV as [I1 I2]. split; [exact I1 | apply qc_leb_le, I2]. }
      assert (G : forall c, In c (global_conds TP) ->
                            (check_cond sc TP ((minus1, s0) :: new) c = true <-> cond_ok sc TP s0 trr c)).
      { intros c Hc. destruct (IVc c) as [I1 I2]; [unfold all_conds; apply in_or_app; left; exact Hc|].
        rewrite (check_cond_spec sc TP s0 new c A I2 I1). apply cond_ok_trace_eq, TE. }
      assert (ST : forall st, In st pi ->
        ((forall c, In c (step_dur_cond TP st ++ step_conds TP st) -> check_cond sc TP ((minus1, s0) :: new) c = true) <->
         (step_dur_ok sc TP s0 trr st = true /\ forall c, In c (step_conds TP st) -> cond_ok sc TP s0 trr c))).
      { intros st Hs. apply step_checks; [exact A | exact TE | apply (step_start_nonneg pi st OK Hs)|].
        intros c Hc. apply IVc. unfold all_conds. apply in_or_app. right. apply in_flat_map. exists st. split; assumption. }
      rewrite (goals_hold_ext' last (final_state s0 trr) LE).
      split.
      + intros V. destruct (forallb (check_cond sc TP ((minus1, s0) :: new)) (tt_conds TP pi)) eqn:FC; [|discriminate].
        destruct (goals_hold sc P (final_state s0 trr)) eqn:GH; [|discriminate].
        rewrite forallb_forall in FC. unfold tt_conds in FC.
        split; [reflexivity|]. exists trr. split; [exact E2|].
        assert (STall : forall st, In st pi -> step_dur_ok sc TP s0 trr st = true /\
                                                forall c, In c (step_conds TP st) -> cond_ok sc TP s0 trr c).
        { intros st Hs. apply (ST st Hs). intros c Hc. apply FC. apply in_or_app. right.
          destruct (In_indexed_from pi 0 st Hs) as [j Hj].
          apply in_flat_map. exists (j, st). split; [|exact Hc].
          apply (Permutation_in _ (Permutation_sym (proj2 (starts_order_spec pi)))). exact Hj. }
        split; [intros st Hs; apply (STall st Hs)|]. split; [|exact GH].
        intros c Hc. unfold all_conds in Hc. apply in_app_iff in Hc. destruct Hc as [Hc|Hc].
        * apply (G c Hc). apply FC. apply in_or_app. left. exact Hc.
        * apply in_flat_map in Hc. destruct Hc as [st [Hs Hc]]. apply (proj2 (STall st Hs) c Hc).
      + intros [_ [tr [R [DU [CO GO]]]]]. rewrite E2 in R. inversion R; subst tr. rewrite GO.
        assert (FC : forallb (check_cond sc TP ((minus1, s0) :: new)) (tt_conds TP pi) = true).
        { apply forallb_forall. intros c Hc. unfold tt_conds in Hc. apply in_app_iff in Hc. destruct Hc as [Hc|Hc].
          - apply (G c Hc). apply CO. unfold all_conds. apply in_or_app. left. exact Hc.
          - apply in_flat_map in Hc. destruct Hc as [[j st] [Hj Hc]]. cbn [snd] in Hc.
            apply (Permutation_in _ (proj2 (starts_order_spec pi))) in Hj.
            assert (Hs : In st pi) by (apply (indexed_from_In pi 0 j st Hj)).
            apply (proj2 (ST st Hs)); [|exact Hc]. split; [apply DU, Hs|].
            intros c' Hc'. apply CO. unfold all_conds. apply in_or_app. right. apply in_flat_map. exists st. split; assumption. }
        rewrite FC. reflexivity.
  Qed.

  (* the model never runs out of fuel on a supported plan *)
  Theorem tt_validate_total (s0 : state) (pi : tplan) :
    plan_times_ok TP pi = true -> plan_typed_t pi -> tt_validate sc TP s0 pi <> OUT_OF_FUEL.
  Proof.
    intros OK TY. unfold tt_validate. destruct (negb (plan_wf TP pi)); [discriminate|].
    pose proof (tt_main_run s0 pi OK TY) as MR.
    destruct (tt_main sc TP (starts_order pi) (init_heap TP) (s0, [(minus1, s0)])) as [| |h [last trm]]; try discriminate; [contradiction|].
    destruct (_ && _); discriminate.
  Qed.

  (* ---------------- the executable reference decides the dense-time definition *)
  Theorem tt_valid_b_spec (s0 : state) (pi : tplan) :
    plan_times_ok TP pi = true -> (tt_valid_b sc TP s0 pi = true <-> tt_valid sc TP s0 pi).
  Proof.
    intros OK. unfold tt_valid_b, tt_valid. fold P.
    destruct (plan_wf TP pi); cbn [andb]; [|split; [discriminate | intros [H _]; discriminate]].
    destruct (run_times (ref_apply sc P) (all_events TP pi) s0 (times_of (all_events TP pi))) as [tr|] eqn:R.
    - assert (A : asc_from minus1 (keys tr)).
      { unfold keys. rewrite (run_times_keys _ _ _ _ _ R). apply times_asc_from, OK. }
      rewrite !andb_true_iff, !forallb_forall. split.
      + intros [[H1 H2] H3]. split; [reflexivity|]. exists tr. split; [reflexivity|]. split; [exact H1|]. split; [|exact H3].
        intros c Hc. apply (cond_okb_spec sc TP s0 tr c A), H2, Hc.
      + intros [_ [tr' [E [H1 [H2 H3]]]]]. inversion E; subst tr'. split; [split; [exact H1|] | exact H3].
        intros c Hc. apply (cond_okb_spec sc TP s0 tr c A), H2, Hc.
    - split; [discriminate|]. intros [_ [tr' [E _]]]. discriminate.
  Qed.
End Final.
