(* Proofs about Model/PddlEffect.v. *)
From Coq Require Import List ZArith NArith QArith Qcanon Bool String Ascii Lia Permutation.
Import ListNotations.
Require Import UPV.Core.Expr UPV.Core.Eval UPV.Proofs.Eval_lemmas UPV.Planning.Problem UPV.Planning.Sem
  UPV.Model.PddlExpr UPV.Model.PddlLex UPV.Model.PddlEffect UPV.Proofs.PddlExpr_proofs.

Ltac ands H := repeat (apply andb_true_iff in H; let H' := fresh H in destruct H as [H H']).

(* ================================================================== semantics: norm_effs fires the same assignments *)
Lemma is_true_eq c : is_true c = true -> c = EBool true.
Proof. destruct c as [[|]| | | | | | | | | | | | | | | | | | | | | | | | | |]; cbn; congruence. Qed.
Lemma is_false_eq c : is_false c = true -> c = EBool false.
Proof. destruct c as [[|]| | | | | | | | | | | | | | | | | | | | | | | | | |]; cbn; congruence. Qed.

Section Sem.
  Variable simp : expr -> expr.
  Variable isb : N -> bool.
  Variable sc : bool.

  Lemma evals_l_norm J vs l : forallb (pddl_ok vs) l = true -> evals_l sc J (map norm l) = evals_l sc J l.
  Proof.
    induction l as [|x l IH]; cbn [forallb map evals_l]; [reflexivity|]. intro H. ands H.
    rewrite (norm_sem sc x vs J H), (IH H0). reflexivity.
  Qed.

  Lemma eff_ok_parts e : pddl_eff_ok simp isb e = true ->
    (if e_isbool e then (is_true (e_val e) || is_false (e_val e)) && match e_kind e with KAssign => true | _ => false end
     else negb (is_true (e_val e)) && negb (is_false (e_val e)) && pddl_ok (e_vars e) (e_val e)) = true
    /\ (is_true (e_cond e) || is_false (e_cond e) || (pddl_ok (e_vars e) (e_cond e) && negb (is_false (norm (e_cond e))))) = true
    /\ pddl_ok (e_vars e) (target e) = true.
  Proof.
    unfold pddl_eff_ok. intro H. repeat (apply andb_true_iff in H; destruct H as [H ?]). repeat split; assumption.
  Qed.

  Lemma eval_effect_norm J e : pddl_eff_ok simp isb e = true -> eval_effect sc J (norm_eff e) = eval_effect sc J e.
  Proof.
    intro H. destruct (eff_ok_parts e H) as (Hv0 & Hc0 & Ht). clear H.
    unfold eval_effect, norm_eff. cbn [e_args e_cond e_val Problem.e_fl e_kind].
    cbn [pddl_ok target] in Ht. rewrite (evals_l_norm J _ _ Ht).
    assert (eval sc (norm (e_cond e)) J = eval sc (e_cond e) J) as Hc.
    { apply orb_true_iff in Hc0 as [H5|H5]; [apply orb_true_iff in H5 as [H5|H5]|].
      - apply is_true_eq in H5. rewrite H5. reflexivity.
      - apply is_false_eq in H5. rewrite H5. reflexivity.
      - apply andb_true_iff in H5 as [H5 _]. apply (norm_sem sc _ _ J H5). }
    assert (eval sc (norm (e_val e)) J = eval sc (e_val e) J) as Hv.
    { destruct (e_isbool e).
      - apply andb_true_iff in Hv0 as [H6 _].
        apply orb_true_iff in H6 as [H6|H6]; [apply is_true_eq in H6|apply is_false_eq in H6]; rewrite H6; reflexivity.
      - apply andb_true_iff in Hv0 as [_ H6]. apply (norm_sem sc _ _ J H6). }
    rewrite Hc, Hv. reflexivity.
  Qed.

  Lemma fired_map_norm I effs : Forall (fun e => pddl_eff_ok simp isb e = true) effs ->
    fired sc I (map norm_eff effs) = fired sc I effs.
  Proof.
    unfold fired. intro F. f_equal. induction F as [|e l He Hl IH]; [reflexivity|]. cbn [map flat_map]. rewrite IH.
    f_equal. cbn [norm_eff e_vars]. apply map_ext. intro J. apply eval_effect_norm. exact He.
  Qed.

  Lemma collect_app a b :
    collect_res (a ++ b) = match collect_res a, collect_res b with Some x, Some y => Some (x ++ y) | _, _ => None end.
  Proof.
    induction a as [|[| |x] a IH]; cbn [app collect_res].
    - destruct (collect_res b); reflexivity.
    - reflexivity.
    - exact IH.
    - rewrite IH. destruct (collect_res a), (collect_res b); reflexivity.
  Qed.

  Lemma collect_perm l l' : Permutation l l' -> forall a, collect_res l = Some a ->
    exists a', collect_res l' = Some a' /\ Permutation a a'.
  Proof.
    induction 1 as [|x l l' HP IH|x y l|l l' l'' HP1 IH1 HP2 IH2]; intros a Ha.
    - exists a. split; [exact Ha|apply Permutation_refl].
    - destruct x as [| |x]; cbn [collect_res] in *; [discriminate|apply IH; exact Ha|].
      destruct (collect_res l) as [b|]; [|discriminate]. inversion Ha. subst a.
      destruct (IH b eq_refl) as (b' & B1 & B2). rewrite B1. eexists; split; [reflexivity|]. apply perm_skip. exact B2.
    - destruct x as [| |x]; destruct y as [| |y]; cbn [collect_res] in *; try discriminate;
        try (exists a; split; [exact Ha|apply Permutation_refl]).
      destruct (collect_res l) as [b|]; [|discriminate]. inversion Ha. eexists; split; [reflexivity|]. apply perm_swap.
    - destruct (IH1 a Ha) as (b & B1 & B2). destruct (IH2 b B1) as (c & C1 & C2). exists c. split; [exact C1|].
      eapply Permutation_trans; eauto.
  Qed.

  Lemma depth_le2 e : depth e = 0%nat \/ depth e = 1%nat \/ depth e = 2%nat.
  Proof. unfold depth. destruct (is_true (e_cond e)); destruct (e_vars e); cbn; auto. Qed.

  Lemma bylevel_perm l : Permutation l (bylevel l).
  Proof.
    unfold bylevel. induction l as [|e l IH]; [apply Permutation_refl|]. cbn [filter].
    destruct (depth_le2 e) as [H|[H|H]]; rewrite H; cbn [Nat.eqb].
    - cbn [app]. apply perm_skip. exact IH.
    - eapply Permutation_trans; [apply perm_skip; exact IH|]. apply Permutation_middle.
    - eapply Permutation_trans; [apply perm_skip; exact IH|].
      rewrite app_assoc. eapply Permutation_trans; [apply Permutation_middle|]. rewrite <- app_assoc. apply Permutation_refl.
  Qed.

  Lemma row_false I e a : e_cond e = EBool false ->
    collect_res (map (fun J => eval_effect sc J e) (instances I (e_vars e))) = Some a -> a = [].
  Proof.
    intro Hc. revert a. induction (instances I (e_vars e)) as [|J l IH]; intros a H; cbn [map collect_res] in H.
    - congruence.
    - unfold eval_effect at 1 in H. rewrite Hc in H. destruct (evals_l sc J (e_args e)); [|discriminate].
      cbn [eval] in H. apply IH. exact H.
  Qed.

  Lemma fired_drop I effs : forall acts, fired sc I effs = Some acts ->
    fired sc I (filter (fun e => negb (is_false (e_cond e))) effs) = Some acts.
  Proof.
    unfold fired. induction effs as [|e l IH]; intros acts H; [exact H|]. cbn [flat_map] in H. rewrite collect_app in H.
    destruct (collect_res (map (fun J => eval_effect sc J e) (instances I (e_vars e)))) as [x|] eqn:Hx; [|discriminate].
    destruct (collect_res (flat_map (fun e0 => map (fun J => eval_effect sc J e0) (instances I (e_vars e0))) l)) as [y|] eqn:Hy;
      [|discriminate]. inversion H. subst acts. cbn [filter]. destruct (is_false (e_cond e)) eqn:Hf; cbn [negb].
    - apply is_false_eq in Hf. rewrite (row_false I e x Hf Hx). cbn [app]. apply IH. reflexivity.
    - cbn [flat_map]. rewrite collect_app, Hx. rewrite (IH y eq_refl). reflexivity.
  Qed.

  (* the re-read effect list fires exactly the assignments of the written one (as a multiset: the reader's breadth-first
     order moves conditional and universally quantified effects behind the plain ones) whenever the written one is
     defined *)
  Theorem norm_effs_fired I effs acts :
    Forall (fun e => pddl_eff_ok simp isb e = true) effs ->
    fired sc I effs = Some acts ->
    exists acts', fired sc I (norm_effs effs) = Some acts' /\ Permutation acts acts'.
  Proof.
    intros F H. unfold norm_effs. set (K := filter (fun e => negb (is_false (e_cond e))) effs).
    assert (Forall (fun e => pddl_eff_ok simp isb e = true) (bylevel K)) as FK.
    { apply Forall_forall. intros e He. rewrite Forall_forall in F. apply F.
      apply (Permutation_in _ (Permutation_sym (bylevel_perm K))) in He. apply filter_In in He. tauto. }
    rewrite (fired_map_norm I _ FK). apply fired_drop in H. fold K in H. unfold fired in *.
    eapply collect_perm; [|exact H]. apply Permutation_flat_map. apply bylevel_perm.
  Qed.
End Sem.
