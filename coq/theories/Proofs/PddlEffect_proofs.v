(* Proofs about Model/PddlEffect.v. *)
From Coq Require Import List ZArith NArith QArith Qcanon Bool String Ascii Lia Permutation.
Import ListNotations.
Require Import UPV.Core.Expr UPV.Core.Eval UPV.Proofs.Eval_lemmas UPV.Planning.Problem UPV.Planning.Sem
  UPV.Model.PddlExpr UPV.Model.PddlLex UPV.Model.PddlEffect UPV.Proofs.PddlExpr_proofs UPV.Proofs.PddlLex_proofs.

Ltac ands H := repeat (apply andb_true_iff in H; let H' := fresh H in destruct H as [H H']).

(* ================================================================== semantics: norm_effs fires the same assignments *)
Lemma is_true_eq c : is_true c = true -> c = EBool true.
Proof. destruct c as [[|]| | | | | | | | | | | | | | | | | | | | | | | | | |]; cbn; congruence. Qed.
Lemma is_false_eq c : is_false c = true -> c = EBool false.
Proof. destruct c as [[|]| | | | | | | | | | | | | | | | | | | | | | | | | |]; cbn; congruence. Qed.

Section Sem.
  Variable simp : expr -> expr.
  Variable isb : N -> bool.
  Variable sc : bool.

  Lemma evals_l_norm J vs l : forallb (pddl_ok vs) l = true -> evals_l sc J (map norm l) = evals_l sc J l.
  Proof.
    induction l as [|x l IH]; cbn [forallb map evals_l]; [reflexivity|]. intro H. ands H.
    rewrite (norm_sem sc x vs J H), (IH H0). reflexivity.
  Qed.

  Lemma eff_ok_parts e : pddl_eff_ok simp isb e = true ->
    (if e_isbool e then (is_true (e_val e) || is_false (e_val e)) && match e_kind e with KAssign => true | _ => false end
     else negb (is_true (e_val e)) && negb (is_false (e_val e)) && pddl_ok (e_vars e) (e_val e)) = true
    /\ (is_true (e_cond e) || is_false (e_cond e) || (pddl_ok (e_vars e) (e_cond e) && negb (is_false (norm (e_cond e))))) = true
    /\ pddl_ok (e_vars e) (target e) = true.
  Proof.
    unfold pddl_eff_ok. intro H. repeat (apply andb_true_iff in H; destruct H as [H ?]). repeat split; assumption.
  Qed.

  Lemma eval_effect_norm J e : pddl_eff_ok simp isb e = true -> eval_effect sc J (norm_eff e) = eval_effect sc J e.
  Proof.
    intro H. destruct (eff_ok_parts e H) as (Hv0 & Hc0 & Ht). clear H.
    unfold eval_effect, norm_eff. cbn [e_args e_cond e_val Problem.e_fl e_kind].
    cbn [pddl_ok target] in Ht. rewrite (evals_l_norm J _ _ Ht).
    assert (eval sc (norm (e_cond e)) J = eval sc (e_cond e) J) as Hc.
    { apply orb_true_iff in Hc0 as [H5|H5]; [apply orb_true_iff in H5 as [H5|H5]|].
      - apply is_true_eq in H5. rewrite H5. reflexivity.
      - apply is_false_eq in H5. rewrite H5. reflexivity.
      - apply andb_true_iff in H5 as [H5 _]. apply (norm_sem sc _ _ J H5). }
    assert (eval sc (norm (e_val e)) J = eval sc (e_val e) J) as Hv.
    { destruct (e_isbool e).
      - apply andb_true_iff in Hv0 as [H6 _].
        apply orb_true_iff in H6 as [H6|H6]; [apply is_true_eq in H6|apply is_false_eq in H6]; rewrite H6; reflexivity.
      - apply andb_true_iff in Hv0 as [_ H6]. apply (norm_sem sc _ _ J H6). }
    rewrite Hc, Hv. reflexivity.
  Qed.

  Lemma fired_map_norm I effs : Forall (fun e => pddl_eff_ok simp isb e = true) effs ->
    fired sc I (map norm_eff effs) = fired sc I effs.
  Proof.
    unfold fired. intro F. f_equal. induction F as [|e l He Hl IH]; [reflexivity|]. cbn [map flat_map]. rewrite IH.
    f_equal. cbn [norm_eff e_vars]. apply map_ext. intro J. apply eval_effect_norm. exact He.
  Qed.

  Lemma collect_app a b :
    collect_res (a ++ b) = match collect_res a, collect_res b with Some x, Some y => Some (x ++ y) | _, _ => None end.
  Proof.
    induction a as [|[| |x] a IH]; cbn [app collect_res].
    - destruct (collect_res b); reflexivity.
    - reflexivity.
    - exact IH.
    - rewrite IH. destruct (collect_res a), (collect_res b); reflexivity.
  Qed.

  Lemma collect_perm l l' : Permutation l l' -> forall a, collect_res l = Some a ->
    exists a', collect_res l' = Some a' /\ Permutation a a'.
  Proof.
    induction 1 as [|x l l' HP IH|x y l|l l' l'' HP1 IH1 HP2 IH2]; intros a Ha.
    - exists a. split; [exact Ha|apply Permutation_refl].
    - destruct x as [| |x]; cbn [collect_res] in *; [discriminate|apply IH; exact Ha|].
      destruct (collect_res l) as [b|]; [|discriminate]. inversion Ha. subst a.
      destruct (IH b eq_refl) as (b' & B1 & B2). rewrite B1. eexists; split; [reflexivity|]. apply perm_skip. exact B2.
    - destruct x as [| |x]; destruct y as [| |y]; cbn [collect_res] in *; try discriminate;
        try (exists a; split; [exact Ha|apply Permutation_refl]).
      destruct (collect_res l) as [b|]; [|discriminate]. inversion Ha. eexists; split; [reflexivity|]. apply perm_swap.
    - destruct (IH1 a Ha) as (b & B1 & B2). destruct (IH2 b B1) as (c & C1 & C2). exists c. split; [exact C1|].
      eapply Permutation_trans; eauto.
  Qed.

  Lemma depth_le2 e : depth e = 0%nat \/ depth e = 1%nat \/ depth e = 2%nat.
  Proof. unfold depth. destruct (is_true (e_cond e)); destruct (e_vars e); cbn; auto. Qed.

  Lemma bylevel_perm l : Permutation l (bylevel l).
  Proof.
    unfold bylevel. induction l as [|e l IH]; [apply Permutation_refl|]. cbn [filter].
    destruct (depth_le2 e) as [H|[H|H]]; rewrite H; cbn [Nat.eqb].
    - cbn [app]. apply perm_skip. exact IH.
    - eapply Permutation_trans; [apply perm_skip; exact IH|]. apply Permutation_middle.
    - eapply Permutation_trans; [apply perm_skip; exact IH|].
      rewrite app_assoc. eapply Permutation_trans; [apply Permutation_middle|]. rewrite <- app_assoc. apply Permutation_refl.
  Qed.

  Lemma row_false I e a : e_cond e = EBool false ->
    collect_res (map (fun J => eval_effect sc J e) (instances I (e_vars e))) = Some a -> a = [].
  Proof.
    intro Hc. revert a. induction (instances I (e_vars e)) as [|J l IH]; intros a H; cbn [map collect_res] in H.
    - congruence.
    - unfold eval_effect at 1 in H. rewrite Hc in H. destruct (evals_l sc J (e_args e)); [|discriminate].
      cbn [eval] in H. apply IH. exact H.
  Qed.

  Lemma fired_drop I effs : forall acts, fired sc I effs = Some acts ->
    fired sc I (filter (fun e => negb (is_false (e_cond e))) effs) = Some acts.
  Proof.
    unfold fired. induction effs as [|e l IH]; intros acts H; [exact H|]. cbn [flat_map] in H. rewrite collect_app in H.
    destruct (collect_res (map (fun J => eval_effect sc J e) (instances I (e_vars e)))) as [x|] eqn:Hx; [|discriminate].
    destruct (collect_res (flat_map (fun e0 => map (fun J => eval_effect sc J e0) (instances I (e_vars e0))) l)) as [y|] eqn:Hy;
      [|discriminate]. inversion H. subst acts. cbn [filter]. destruct (is_false (e_cond e)) eqn:Hf; cbn [negb].
    - apply is_false_eq in Hf. rewrite (row_false I e x Hf Hx). cbn [app]. apply IH. reflexivity.
    - cbn [flat_map]. rewrite collect_app, Hx. rewrite (IH y eq_refl). reflexivity.
  Qed.

  (* the re-read effect list fires exactly the assignments of the written one (as a multiset: the reader's breadth-first
     order moves conditional and universally quantified effects behind the plain ones) whenever the written one is
     defined *)
  Theorem norm_effs_fired I effs acts :
    Forall (fun e => pddl_eff_ok simp isb e = true) effs ->
    fired sc I effs = Some acts ->
    exists acts', fired sc I (norm_effs effs) = Some acts' /\ Permutation acts acts'.
  Proof.
    intros F H. unfold norm_effs. set (K := filter (fun e => negb (is_false (e_cond e))) effs).
    assert (Forall (fun e => pddl_eff_ok simp isb e = true) (bylevel K)) as FK.
    { apply Forall_forall. intros e He. rewrite Forall_forall in F. apply F.
      apply (Permutation_in _ (Permutation_sym (bylevel_perm K))) in He. apply filter_In in He. tauto. }
    rewrite (fired_map_norm I _ FK). apply fired_drop in H. fold K in H. unfold fired in *.
    eapply collect_perm; [|exact H]. apply Permutation_flat_map. apply bylevel_perm.
  Qed.
End Sem.

(* ================================================================== the syntactic round trip of effect lists *)
Local Open Scope string_scope.

Lemma effkw_parts h : is_eff_kw h = false ->
  (h =? "and") = false /\ (h =? "when") = false /\ (h =? "not") = false /\ (h =? "assign") = false
  /\ (h =? "increase") = false /\ (h =? "decrease") = false /\ (h =? "forall") = false.
Proof. unfold is_eff_kw. intro H. repeat (apply orb_false_iff in H; destruct H as [H ?]). repeat split; assumption. Qed.

Lemma ssize_pos s : (1 <= ssize s)%nat.
Proof. destruct s; cbn [ssize]; lia. Qed.

Section EffRoundTrip.
  Variable simp : expr -> expr.
  Variable isb : N -> bool.
  Variable nm : naming.
  Variable E : env.
  Hypothesis H_fl : forall f, PddlExpr.e_fl E (nm_fl nm f) = Some f.
  Hypothesis H_flkw : forall f, is_kw (nm_fl nm f) = false.
  Hypothesis H_obj : forall o, e_obj E (nm_obj nm o) = Some o.
  Hypothesis H_obj_fl : forall o, PddlExpr.e_fl E (nm_obj nm o) = None.
  Hypothesis H_obj_q : forall o, starts_q (nm_obj nm o) = false.
  Hypothesis H_par : forall p, e_par E (nm_par nm p) = Some p.
  Hypothesis H_var : forall v, e_var E (nm_var nm v) = Some v.
  Hypothesis H_par_var : forall p v, nm_par nm p <> nm_var nm v.
  Hypothesis H_ty : forall t, e_ty E (nm_ty nm t) = Some t.
  Hypothesis H_ty_q : forall t, starts_q (nm_ty nm t) = false.
  Hypothesis H_num : forall s q, parse_number s = Some q -> PddlExpr.e_fl E s = None /\ e_obj E s = None.
  Hypothesis H_effkw : forall f, is_eff_kw (nm_fl nm f) = false.       (* no fluent is named like an effect keyword *)
  (* the token "#t" (continuous change) does not occur in a printed expression *)
  Hypothesis no_hash : forall x s, print nm x = Some s -> contains_tok "#t" s = false.

  Notation PQ := (parse_q simp E isb).
  Definition RTX := roundtrip_sc nm E H_fl H_flkw H_obj H_obj_fl H_obj_q H_par H_var H_par_var H_ty H_ty_q H_num.

  (* the printed form of an expression of the fragment (any default outside it) *)
  Definition psx (x : expr) : sexp := match print nm x with Some s => s | None => Atom "" end.

  Lemma psx_ok sc x : pddl_ok sc x = true ->
    print nm x = Some (psx x) /\ parse E (scope_names nm sc) (psx x) = Some (norm x).
  Proof. intro H. destruct (RTX x sc H) as (s & P1 & P2). unfold psx. rewrite P1. auto. Qed.

  Definition OKE (e : effect) : Prop := pddl_eff_ok simp isb e = true.

  Lemma sfix_eq x : sfix simp x = true -> simp x = x.
  Proof. unfold sfix. intro H. apply expr_eqb_eq in H. exact H. Qed.

  Lemma oke_all e : OKE e ->
    simp (e_cond e) = e_cond e /\ simp (norm (e_cond e)) = norm (e_cond e) /\ simp (e_val e) = e_val e
    /\ simp (target e) = target e /\ e_isbool e = isb (Problem.e_fl e)
    /\ (if e_isbool e then (is_true (e_val e) || is_false (e_val e)) && match e_kind e with KAssign => true | _ => false end
        else negb (is_true (e_val e)) && negb (is_false (e_val e)) && pddl_ok (e_vars e) (e_val e)) = true
    /\ (is_true (e_cond e) || is_false (e_cond e) || (pddl_ok (e_vars e) (e_cond e) && negb (is_false (norm (e_cond e))))) = true
    /\ pddl_ok (e_vars e) (target e) = true
    /\ nodupN (map fst (e_vars e)) = true
    /\ forallb (fun v => memN v (map fst (e_vars e))) (eff_fv e) = true
    /\ forallb (fun p => memN (fst p) (eff_fv e)) (e_vars e) = true.
  Proof.
    unfold OKE, pddl_eff_ok. intro H. repeat (apply andb_true_iff in H; destruct H as [H ?]).
    repeat match goal with H : sfix simp _ = true |- _ => apply sfix_eq in H end.
    match goal with H : Bool.eqb _ _ = true |- _ => apply Bool.eqb_prop in H end.
    repeat split; assumption.
  Qed.

  Lemma filter_all {A} (p : A -> bool) l : forallb p l = true -> filter p l = l.
  Proof.
    induction l as [|x l IH]; cbn [forallb filter]; [reflexivity|]. intro H. apply andb_true_iff in H as [H1 H2].
    rewrite H1, (IH H2). reflexivity.
  Qed.

  (* add_effect on the re-read target, value and condition builds the normalised effect *)
  Lemma mk_effect_ok e : OKE e ->
    mk_effect E isb (norm (target e)) (norm (e_val e)) (norm (e_cond e)) (e_kind e) (scope_names nm (e_vars e))
    = Some (norm_eff e).
  Proof.
    intro H. destruct (oke_all e H) as (_ & _ & _ & _ & Hb & _ & _ & _ & _ & Hfv & Huse).
    unfold mk_effect. cbn [target norm]. rewrite (seq_scope nm E H_var). fold (target e).
    change (free_vars (EFluent (Problem.e_fl e) (map norm (e_args e)))) with (free_vars (norm (target e))).
    fold (eff_fv e). rewrite Hfv, (filter_all _ _ Huse), <- Hb. reflexivity.
  Qed.

  (* ---- unfolding equations of the work-list loop ---- *)
  Definition ADD (t v : option expr) (c : expr) (k : ekind) (vars : list (string * N)) f q acc :=
    match t, v with
    | Some t', Some v' => match mk_effect E isb t' v' c k vars with Some e => PQ f q (e :: acc) | None => None end
    | _, _ => None
    end.

  Lemma step_and rest c vars f q acc :
    PQ (S f) ((SList (Atom "and" :: rest), c, vars) :: q) acc = PQ f (q ++ map (fun y => (y, c, vars)) rest) acc.
  Proof. reflexivity. Qed.
  Lemma step_when cs body r c vars f q acc :
    PQ (S f) ((SList (Atom "when" :: cs :: body :: r), c, vars) :: q) acc =
    match parse E vars cs with
    | Some c' => if is_false (simp c') then PQ f q acc else PQ f (q ++ [(body, simp c', vars)]) acc
    | None => None end.
  Proof. reflexivity. Qed.
  Lemma step_not y r c vars f q acc :
    PQ (S f) ((SList (Atom "not" :: y :: r), c, vars) :: q) acc = ADD (parse E vars y) (Some (EBool false)) c KAssign vars f q acc.
  Proof. reflexivity. Qed.
  Lemma step_assign y v r c vars f q acc :
    PQ (S f) ((SList (Atom "assign" :: y :: v :: r), c, vars) :: q) acc =
    ADD (parse E vars y) (parse E vars v) c KAssign vars f q acc.
  Proof. reflexivity. Qed.
  Lemma step_inc y v r c vars f q acc :
    PQ (S f) ((SList (Atom "increase" :: y :: v :: r), c, vars) :: q) acc =
    if contains_tok "#t" (SList (Atom "increase" :: y :: v :: r)) then None
    else ADD (parse E vars y) (parse E vars v) c KInc vars f q acc.
  Proof. reflexivity. Qed.
  Lemma step_dec y v r c vars f q acc :
    PQ (S f) ((SList (Atom "decrease" :: y :: v :: r), c, vars) :: q) acc =
    if contains_tok "#t" (SList (Atom "decrease" :: y :: v :: r)) then None
    else ADD (parse E vars y) (parse E vars v) c KDec vars f q acc.
  Proof. reflexivity. Qed.
  Lemma step_forall vl body r c f q acc :
    PQ (S f) ((SList (Atom "forall" :: SList vl :: body :: r), c, []) :: q) acc =
    if forallb is_atom vl then
      match parse_vars E [] vl with
      | Some nv => if nodup_s (map fst nv) then PQ f (q ++ [(body, c, nv)]) acc else None
      | None => None end
    else None.
  Proof. reflexivity. Qed.
  Lemma step_lit fn ss c vars f q acc : is_eff_kw fn = false ->
    PQ (S f) ((SList (Atom fn :: ss), c, vars) :: q) acc =
    ADD (parse E vars (SList (Atom fn :: ss))) (Some (EBool true)) c KAssign vars f q acc.
  Proof.
    intro H. destruct (effkw_parts _ H) as (A1 & A2 & A3 & A4 & A5 & A6 & A7). cbn [parse_q].
    rewrite A1, A2, A3, A4, A5, A6, A7. reflexivity.
  Qed.

  (* ---- the printed pieces of one effect ---- *)
  Definition fl_s (e : effect) : sexp := psx (target e).
  Definition leaf_s (e : effect) : sexp :=
    if is_true (e_val e) then fl_s e
    else if is_false (e_val e) then SList [Atom "not"; fl_s e]
    else SList [Atom (kind_kw (e_kind e)); fl_s e; psx (e_val e)].
  Definition sc_of (e : effect) : list (string * N) := scope_names nm (e_vars e).

  Lemma fl_shape e : OKE e ->
    print nm (target e) = Some (fl_s e) /\ parse E (sc_of e) (fl_s e) = Some (norm (target e))
    /\ exists ss, fl_s e = SList (Atom (nm_fl nm (Problem.e_fl e)) :: ss).
  Proof.
    intro H. destruct (oke_all e H) as (_ & _ & _ & _ & _ & _ & _ & Ht & _).
    destruct (psx_ok _ _ Ht) as [P1 P2]. fold (fl_s e) in P1, P2. split; [exact P1|]. split; [exact P2|].
    unfold target in P1. cbn [print] in P1. destruct (sequence (map (print nm) (e_args e))) as [ss|]; [|discriminate].
    exists ss. congruence.
  Qed.

  Lemma leaf_step e : OKE e -> forall f q acc,
    PQ (S f) ((leaf_s e, norm (e_cond e), sc_of e) :: q) acc = PQ f q (norm_eff e :: acc).
  Proof.
    intros H f q acc. pose proof (mk_effect_ok e H) as M. fold (sc_of e) in M.
    destruct (fl_shape e H) as (P1 & P2 & ss & Hs).
    destruct (oke_all e H) as (_ & _ & _ & _ & _ & Hv & _).
    unfold leaf_s. destruct (e_isbool e).
    - apply andb_true_iff in Hv as [Hv Hk]. destruct (e_kind e); try discriminate Hk.
      destruct (is_true (e_val e)) eqn:Ht.
      + apply is_true_eq in Ht. rewrite Ht in M. cbn [norm] in M.
        rewrite Hs in *. rewrite step_lit by apply H_effkw. rewrite P2. unfold ADD. rewrite M. reflexivity.
      + cbn [orb] in Hv. rewrite Hv. apply is_false_eq in Hv. rewrite Hv in M. cbn [norm] in M.
        rewrite step_not, P2. unfold ADD. rewrite M. reflexivity.
    - apply andb_true_iff in Hv as [Hv Hp]. apply andb_true_iff in Hv as [Hv1 Hv2].
      apply negb_true_iff in Hv1. apply negb_true_iff in Hv2. rewrite Hv1, Hv2.
      destruct (psx_ok _ _ Hp) as [V1 V2]. fold (sc_of e) in V2.
      assert (contains_tok "#t" (SList [Atom (kind_kw (e_kind e)); fl_s e; psx (e_val e)]) = false) as NH.
      { cbn [contains_tok existsb]. rewrite (no_hash _ _ P1), (no_hash _ _ V1). destruct (e_kind e); reflexivity. }
      destruct (e_kind e); cbn [kind_kw] in *.
      + rewrite step_assign, P2, V2. unfold ADD. rewrite M. reflexivity.
      + rewrite step_inc, NH, P2, V2. unfold ADD. rewrite M. reflexivity.
      + rewrite step_dec, NH, P2, V2. unfold ADD. rewrite M. reflexivity.
  Qed.

  (* ---- one round of the work list ---- *)
  Definition StepOK (it : qitem) (o : effect + qitem) : Prop :=
    forall f q acc, PQ (S f) (it :: q) acc =
                    match o with inl x => PQ f q (x :: acc) | inr ch => PQ f (q ++ [ch]) acc end.
  Definition leafs (out : effect -> effect + qitem) (l : list effect) : list effect :=
    flat_map (fun e => match out e with inl x => [x] | inr _ => [] end) l.
  Definition childs (out : effect -> effect + qitem) (l : list effect) : list qitem :=
    flat_map (fun e => match out e with inl _ => [] | inr c => [c] end) l.

  Lemma level (ent : effect -> qitem) out l : (forall e, In e l -> StepOK (ent e) (out e)) ->
    forall f q2 acc, PQ (List.length l + f) (map ent l ++ q2) acc = PQ f (q2 ++ childs out l) (rev (leafs out l) ++ acc).
  Proof.
    induction l as [|a l IH]; intros Hs f q2 acc.
    - cbn. rewrite app_nil_r. reflexivity.
    - cbn [List.length map app plus]. rewrite (Hs a (or_introl eq_refl)).
      assert (forall e, In e l -> StepOK (ent e) (out e)) as Hs' by (intros; apply Hs; right; assumption).
      unfold leafs, childs. cbn [flat_map]. fold (leafs out l) (childs out l). destruct (out a) as [x|ch].
      + rewrite (IH Hs'). cbn [app rev]. rewrite <- app_assoc. reflexivity.
      + rewrite <- app_assoc. rewrite (IH Hs'). cbn [app]. rewrite <- app_assoc. reflexivity.
  Qed.

  Lemma leafs_if (p : effect -> bool) g h l :
    leafs (fun e => if p e then inl (g e) else inr (h e)) l = map g (filter p l)
    /\ childs (fun e => if p e then inl (g e) else inr (h e)) l = map h (filter (fun e => negb (p e)) l).
  Proof.
    unfold leafs, childs. induction l as [|e l [IH1 IH2]]; [split; reflexivity|]. cbn [flat_map filter].
    rewrite IH1, IH2. destruct (p e); split; reflexivity.
  Qed.

  (* ---- the trajectory of one effect through the rounds ---- *)
  Definition TT : expr := EBool true.
  Definition when_s (e : effect) : sexp := SList [Atom "when"; psx (e_cond e); leaf_s e].
  Definition body_s (e : effect) : sexp := if is_true (e_cond e) then leaf_s e else when_s e.
  Definition item0 (e : effect) : sexp := wrap_forall nm (e_vars e) (body_s e).
  Definition ent0 (e : effect) : qitem := (item0 e, TT, []).
  Definition child1 (e : effect) : qitem :=
    match e_vars e with [] => (leaf_s e, norm (e_cond e), []) | _ => (body_s e, TT, sc_of e) end.
  Definition child2 (e : effect) : qitem := (leaf_s e, norm (e_cond e), sc_of e).
  Definition out0 (e : effect) : effect + qitem := if Nat.eqb (depth e) 0 then inl (norm_eff e) else inr (child1 e).
  Definition out1 (e : effect) : effect + qitem := if Nat.eqb (depth e) 1 then inl (norm_eff e) else inr (child2 e).

  Definition LIVE (e : effect) : Prop := OKE e /\ is_false (e_cond e) = false.

  Lemma cond_parse e : LIVE e -> is_true (e_cond e) = false ->
    print nm (e_cond e) = Some (psx (e_cond e)) /\ parse E (sc_of e) (psx (e_cond e)) = Some (norm (e_cond e))
    /\ simp (norm (e_cond e)) = norm (e_cond e) /\ is_false (norm (e_cond e)) = false.
  Proof.
    intros [H Hf] Ht. destruct (oke_all e H) as (_ & Hs & _ & _ & _ & _ & Hc & _). rewrite Ht, Hf in Hc. cbn [orb] in Hc.
    apply andb_true_iff in Hc as [Hc1 Hc2]. apply negb_true_iff in Hc2. destruct (psx_ok _ _ Hc1) as [P1 P2]. auto.
  Qed.

  Lemma when_step e vars : LIVE e -> is_true (e_cond e) = false -> vars = sc_of e -> forall c0,
    StepOK (when_s e, c0, vars) (inr (leaf_s e, norm (e_cond e), vars)).
  Proof.
    intros HL Ht -> c0 f q acc. destruct (cond_parse e HL Ht) as (_ & P2 & P3 & P4). unfold when_s.
    rewrite step_when, P2, P3, P4. reflexivity.
  Qed.

  Lemma step0 e : LIVE e -> StepOK (ent0 e) (out0 e).
  Proof.
    intros HL. pose proof HL as [H Hf]. unfold ent0, out0, item0, child1, depth, body_s.
    destruct (oke_all e H) as (_ & _ & _ & _ & _ & _ & _ & _ & Hnd & _).
    destruct (e_vars e) as [|p vs] eqn:Hv; cbn [wrap_forall].
    - destruct (is_true (e_cond e)) eqn:Ht; cbn [plus Nat.eqb].
      + intros f q acc. pose proof (leaf_step e H f q acc) as L. unfold sc_of in L. rewrite Hv in L. cbn [scope_names map] in L.
        apply is_true_eq in Ht. rewrite Ht in L. cbn [norm] in L. exact L.
      + apply (when_step e [] HL Ht). unfold sc_of. rewrite Hv. reflexivity.
    - replace (Nat.eqb ((if is_true (e_cond e) then 0 else 1) + 1) 0) with false by (destruct (is_true (e_cond e)); reflexivity).
      intros f q acc. rewrite step_forall, print_vars_atoms, (parse_print_vars nm E H_ty H_ty_q).
      rewrite (nodup_scope nm E H_var), Hnd. unfold sc_of. rewrite Hv. reflexivity.
  Qed.

  Lemma step1 e : LIVE e -> Nat.eqb (depth e) 0 = false -> StepOK (child1 e) (out1 e).
  Proof.
    intros HL. pose proof HL as [H Hf]. unfold child1, out1, child2, depth, body_s.
    destruct (e_vars e) as [|p vs] eqn:Hv.
    - destruct (is_true (e_cond e)) eqn:Ht; cbn [plus Nat.eqb]; [discriminate|]. intros _ f q acc.
      pose proof (leaf_step e H f q acc) as L. unfold sc_of in *. rewrite Hv in *. exact L.
    - intros _. destruct (is_true (e_cond e)) eqn:Ht; cbn [plus Nat.eqb].
      + intros f q acc. pose proof (leaf_step e H f q acc) as L. apply is_true_eq in Ht. rewrite Ht in L. cbn [norm] in L. exact L.
      + apply (when_step e (sc_of e) HL Ht eq_refl).
  Qed.

  Lemma step2 e : LIVE e -> StepOK (child2 e) (inl (norm_eff e)).
  Proof. intros [H _] f q acc. apply leaf_step. exact H. Qed.

  (* ---- what the writer prints for an effect of the fragment ---- *)
  Lemma print_item rw e : OKE e ->
    print_effect simp nm rw e = Some (if is_false (e_cond e) then [] else [item0 e]).
  Proof.
    intro H. destruct (oke_all e H) as (S1 & _ & S3 & S4 & _ & Hv & _).
    destruct (fl_shape e H) as (P1 & _ & _).
    unfold print_effect, convert. rewrite S1, S3, S4, P1.
    assert (e_isbool e && negb (is_true (e_val e)) && negb (is_false (e_val e)) = false) as NC.
    { destruct (e_isbool e); [|reflexivity]. apply andb_true_iff in Hv as [Hv _].
      destruct (is_true (e_val e)); [reflexivity|]. cbn [orb] in Hv. rewrite Hv. reflexivity. }
    rewrite NC. destruct (is_false (e_cond e)) eqn:Hf; [reflexivity|].
    unfold item0, body_s, when_s, leaf_s.
    assert ((if is_true (e_val e) then Some (fl_s e)
             else if is_false (e_val e) then Some (SList [Atom "not"; fl_s e])
             else option_map (fun v => SList [Atom (kind_kw (e_kind e)); fl_s e; v]) (print nm (simp (e_val e))))
            = Some (if is_true (e_val e) then fl_s e else if is_false (e_val e) then SList [Atom "not"; fl_s e]
                    else SList [Atom (kind_kw (e_kind e)); fl_s e; psx (e_val e)])) as LF.
    { destruct (is_true (e_val e)) eqn:T1; [reflexivity|]. destruct (is_false (e_val e)) eqn:T2; [reflexivity|].
      destruct (e_isbool e).
      - apply andb_true_iff in Hv as [Hv _]. cbn in Hv. discriminate Hv.
      - apply andb_true_iff in Hv as [_ Hp]. destruct (psx_ok _ _ Hp) as [V1 _]. rewrite S3, V1. reflexivity. }
    destruct (is_true (e_cond e)) eqn:Ht.
    - rewrite LF. reflexivity.
    - destruct (cond_parse e (conj H Hf) Ht) as (C1 & _). rewrite C1. cbn [option_map]. rewrite LF. reflexivity.
  Qed.

  Lemma print_all rw effs : Forall OKE effs ->
    print_effects simp nm rw effs =
    Some (SList (Atom "and" :: map item0 (filter (fun e => negb (is_false (e_cond e))) effs))).
  Proof.
    intro F. unfold print_effects.
    assert (sequence (map (print_effect simp nm rw) effs)
            = Some (map (fun e => if is_false (e_cond e) then [] else [item0 e]) effs)) as Q.
    { induction F as [|e l He Hl IH]; [reflexivity|]. cbn [map sequence]. rewrite (print_item rw e He), IH. reflexivity. }
    rewrite Q. do 3 f_equal. clear. induction effs as [|e l IH]; [reflexivity|]. cbn [map List.concat filter].
    rewrite IH. destruct (is_false (e_cond e)); reflexivity.
  Qed.

  (* ---- bookkeeping of the three levels ---- *)
  Notation nd0 := (fun e : effect => negb (Nat.eqb (depth e) 0)).
  Notation nd1 := (fun e : effect => negb (Nat.eqb (depth e) 1)).

  Lemma filter_d1 l : filter (fun e => Nat.eqb (depth e) 1) (filter nd0 l) = filter (fun e => Nat.eqb (depth e) 1) l.
  Proof.
    induction l as [|e l IH]; [reflexivity|]. cbn [filter].
    destruct (depth_le2 e) as [D|[D|D]]; rewrite D; cbn [Nat.eqb negb filter]; rewrite ?D; cbn [Nat.eqb]; rewrite IH; reflexivity.
  Qed.
  Lemma filter_d2 l : filter nd1 (filter nd0 l) = filter (fun e => Nat.eqb (depth e) 2) l.
  Proof.
    induction l as [|e l IH]; [reflexivity|]. cbn [filter].
    destruct (depth_le2 e) as [D|[D|D]]; rewrite D; cbn [Nat.eqb negb filter]; rewrite ?D; cbn [Nat.eqb negb]; rewrite IH; reflexivity.
  Qed.

  Definition wgt (e : effect) : nat :=
    (1 + (if Nat.eqb (depth e) 0 then 0 else 1 + (if Nat.eqb (depth e) 1 then 0 else 1)))%nat.

  Lemma count_levels l :
    (List.length l + (List.length (filter nd0 l) + List.length (filter nd1 (filter nd0 l))))%nat
    = fold_right (fun e n => (wgt e + n)%nat) 0%nat l.
  Proof.
    induction l as [|e l IH]; [reflexivity|]. cbn [filter fold_right List.length]. unfold wgt at 1.
    destruct (Nat.eqb (depth e) 0); cbn [negb filter List.length].
    - lia.
    - destruct (Nat.eqb (depth e) 1); cbn [negb List.length]; lia.
  Qed.

  Lemma item_weight e : (wgt e <= ssize (item0 e))%nat.
  Proof.
    unfold wgt, item0, depth, body_s, when_s. pose proof (ssize_pos (leaf_s e)) as L.
    destruct (e_vars e) as [|p vs]; cbn [wrap_forall].
    - destruct (is_true (e_cond e)); cbn [plus Nat.eqb ssize fold_right]; lia.
    - assert (forall b : sexp, (3 <= ssize (SList [Atom "forall"; SList (print_vars nm (p :: vs)); b]))%nat) as B.
      { intro b. cbn [ssize fold_right]. pose proof (ssize_pos b). lia. }
      specialize (B (if is_true (e_cond e) then leaf_s e else SList [Atom "when"; psx (e_cond e); leaf_s e])).
      destruct (Nat.eqb ((if is_true (e_cond e) then 0 else 1) + 1) 0); [lia|].
      destruct (Nat.eqb ((if is_true (e_cond e) then 0 else 1) + 1) 1); lia.
  Qed.

  Lemma items_weight l : (fold_right (fun e n => (wgt e + n)%nat) 0%nat l
                          <= fold_right (fun x n => (ssize x + n)%nat) 0%nat (map item0 l))%nat.
  Proof. induction l as [|e l IH]; [reflexivity|]. cbn [map fold_right]. pose proof (item_weight e). lia. Qed.

  Theorem effects_roundtrip rw effs : Forall OKE effs ->
    exists s, print_effects simp nm rw effs = Some s /\ parse_effects simp E isb s = Some (norm_effs effs).
  Proof.
    intro F. rewrite (print_all rw effs F). eexists; split; [reflexivity|].
    set (K := filter (fun e => negb (is_false (e_cond e))) effs).
    assert (forall e, In e K -> LIVE e) as HK.
    { intros e He. apply filter_In in He as [He1 He2]. split; [rewrite Forall_forall in F; apply F; exact He1|].
      apply negb_true_iff in He2. exact He2. }
    set (L1 := filter nd0 K). set (L2 := filter nd1 L1).
    assert (exists r, ssize (SList (Atom "and" :: map item0 K))
                      = (List.length K + (List.length L1 + (List.length L2 + r)))%nat) as [r Hr].
    { pose proof (count_levels K) as C. pose proof (items_weight K) as W. fold L1 in C. fold L2 in C.
      cbn [ssize fold_right].
      exists (S (1 + fold_right (fun x n => (ssize x + n)%nat) 0%nat (map item0 K))
              - (List.length K + (List.length L1 + List.length L2)))%nat. lia. }
    unfold parse_effects. rewrite step_and, Hr. cbn [app]. rewrite map_map. fold TT.
    change (map (fun x => (item0 x, TT, @nil (string * N))) K) with (map ent0 K).
    rewrite <- (app_nil_r (map ent0 K)).
    rewrite (level ent0 out0 K) by (intros e He; apply step0, HK, He).
    destruct (leafs_if (fun e => Nat.eqb (depth e) 0) norm_eff child1 K) as [A1 A2].
    change (fun e => if Nat.eqb (depth e) 0 then inl (norm_eff e) else inr (child1 e)) with out0 in A1, A2.
    rewrite A1, A2. fold L1. cbn [app]. rewrite <- (app_nil_r (map child1 L1)).
    rewrite (level child1 out1 L1).
    2:{ intros e He. apply filter_In in He as [He1 He2]. apply negb_true_iff in He2. apply step1; [apply HK, He1|exact He2]. }
    destruct (leafs_if (fun e => Nat.eqb (depth e) 1) norm_eff child2 L1) as [B1 B2].
    change (fun e => if Nat.eqb (depth e) 1 then inl (norm_eff e) else inr (child2 e)) with out1 in B1, B2.
    rewrite B1, B2. fold L2. cbn [app]. rewrite <- (app_nil_r (map child2 L2)).
    rewrite (level child2 (fun e => inl (norm_eff e)) L2).
    2:{ intros e He. apply filter_In in He as [He1 _]. apply filter_In in He1 as [He1 _]. apply step2, HK, He1. }
    assert (childs (fun e : effect => inl (norm_eff e)) L2 = [] /\ leafs (fun e : effect => inl (norm_eff e)) L2 = map norm_eff L2)
      as [C1 C2].
    { unfold childs, leafs. clear. induction L2 as [|e l [I1 I2]]; [split; reflexivity|]. cbn [flat_map map]. rewrite I1, I2.
      split; reflexivity. }
    rewrite C1, C2. cbn [app]. destruct r; cbn [parse_q]; f_equal;
      rewrite !app_nil_r, !rev_app_distr, !rev_involutive; unfold norm_effs, bylevel; fold K;
      rewrite !map_app; unfold L2, L1; rewrite filter_d1, filter_d2; rewrite <- app_assoc; reflexivity.
  Qed.
  (* ---------------------------------------------------------------- text level: the writer's layout *)
  Hypothesis N_fl : forall f, name_ok (nm_fl nm f) = true.
  Hypothesis N_obj : forall o, name_ok (nm_obj nm o) = true.
  Hypothesis N_par : forall p, name_ok (nm_par nm p) = true.
  Hypothesis N_var : forall v, name_ok (nm_var nm v) = true.
  Hypothesis N_ty : forall t, name_ok (nm_ty nm t) = true.

  Definition ptx (x : expr) : string := match print_text nm x with Some t => t | None => "" end.

  Lemma ptx_ok x : print nm x = Some (psx x) -> print_text nm x = Some (ptx x) /\ PT (ptx x) (psx x).
  Proof.
    intro H. destruct (text_of_print nm N_fl N_obj N_par N_var N_ty x _ H) as (t & T1 & T2). unfold ptx. rewrite T1. auto.
  Qed.

  Definition fl_t (e : effect) : string := ptx (target e).
  Definition leaf_t (e : effect) : string :=
    if is_true (e_val e) then fl_t e
    else if is_false (e_val e) then tlist ["not"; fl_t e]
    else tlist [kind_kw (e_kind e); fl_t e; ptx (e_val e)].
  Definition body_t (e : effect) : string :=
    if is_true (e_cond e) then leaf_t e else tlist ["when"; ptx (e_cond e); leaf_t e].

  Ltac f2 := repeat (first [apply Forall2_nil | apply Forall2_cons | apply Forall_nil | apply Forall_cons]).

  Lemma val_print e : OKE e -> e_isbool e = false ->
    print nm (e_val e) = Some (psx (e_val e)).
  Proof.
    intros H Hb. destruct (oke_all e H) as (_ & _ & _ & _ & _ & Hv & _). rewrite Hb in Hv.
    apply andb_true_iff in Hv as [_ Hp]. destruct (psx_ok _ _ Hp) as [V1 _]. exact V1.
  Qed.

  Lemma leaf_PT e : OKE e -> PT (leaf_t e) (leaf_s e).
  Proof.
    intro H. destruct (fl_shape e H) as (P1 & _ & _). destruct (ptx_ok _ P1) as [_ F]. fold (fl_t e) in F. fold (fl_s e) in F.
    unfold leaf_t, leaf_s. destruct (is_true (e_val e)) eqn:T1; [exact F|]. destruct (is_false (e_val e)) eqn:T2.
    - apply PT_tlist. f2; [apply PT_atom; reflexivity|exact F].
    - assert (e_isbool e = false) as Hb.
      { destruct (oke_all e H) as (_ & _ & _ & _ & _ & Hv & _). destruct (e_isbool e); [|reflexivity].
        apply andb_true_iff in Hv as [Hv _]. rewrite T1, T2 in Hv. discriminate. }
      destruct (ptx_ok _ (val_print e H Hb)) as [_ V]. apply PT_tlist.
      f2; [apply PT_atom; destruct (e_kind e); reflexivity|exact F|exact V].
  Qed.

  Lemma body_PT e : LIVE e -> PT (body_t e) (body_s e).
  Proof.
    intros HL. pose proof HL as [H _]. unfold body_t, body_s, when_s. destruct (is_true (e_cond e)) eqn:Ht; [apply leaf_PT, H|].
    destruct (cond_parse e HL Ht) as (C1 & _). destruct (ptx_ok _ C1) as [_ C].
    apply PT_tlist. f2; [apply PT_atom; reflexivity|exact C|apply leaf_PT, H].
  Qed.

  Lemma print_item_text rw e : OKE e ->
    print_effect_text simp nm rw e = Some (if is_false (e_cond e) then [] else [item_text nm (e_vars e) (body_t e)]).
  Proof.
    intro H. destruct (oke_all e H) as (S1 & _ & S3 & S4 & _ & Hv & _).
    destruct (fl_shape e H) as (P1 & _ & _). destruct (ptx_ok _ P1) as [F1 _]. fold (fl_t e) in F1.
    unfold print_effect_text, convert_text. rewrite S1, S3, S4, F1.
    assert (e_isbool e && negb (is_true (e_val e)) && negb (is_false (e_val e)) = false) as NC.
    { destruct (e_isbool e); [|reflexivity]. apply andb_true_iff in Hv as [Hv _].
      destruct (is_true (e_val e)); [reflexivity|]. cbn [orb] in Hv. rewrite Hv. reflexivity. }
    rewrite NC. destruct (is_false (e_cond e)) eqn:Hf; [reflexivity|].
    unfold body_t, leaf_t.
    assert ((if is_true (e_val e) then Some (fl_t e)
             else if is_false (e_val e) then Some (tlist ["not"; fl_t e])
             else option_map (fun v => tlist [kind_kw (e_kind e); fl_t e; v]) (print_text nm (simp (e_val e))))
            = Some (if is_true (e_val e) then fl_t e else if is_false (e_val e) then tlist ["not"; fl_t e]
                    else tlist [kind_kw (e_kind e); fl_t e; ptx (e_val e)])) as LF.
    { destruct (is_true (e_val e)) eqn:T1; [reflexivity|]. destruct (is_false (e_val e)) eqn:T2; [reflexivity|].
      destruct (e_isbool e) eqn:Hb.
      - apply andb_true_iff in Hv as [Hv _]. cbn in Hv. discriminate Hv.
      - destruct (ptx_ok _ (val_print e H Hb)) as [V1 _]. rewrite S3, V1. reflexivity. }
    destruct (is_true (e_cond e)) eqn:Ht.
    - rewrite LF. reflexivity.
    - destruct (cond_parse e (conj H Hf) Ht) as (C1 & _). destruct (ptx_ok _ C1) as [C2 _]. rewrite C2. cbn [option_map].
      rewrite LF. reflexivity.
  Qed.

  (* item = prefix ("" or one blank) + a parenthesised group read as item0 *)
  Definition pre_t (e : effect) : string := match e_vars e with [] => " " | _ => "" end.
  Definition unit_t (e : effect) : string :=
    match e_vars e with [] => body_t e | vs => tlist ["forall"; tlist (var_toks nm vs); body_t e] end.

  Lemma item_split e : item_text nm (e_vars e) (body_t e) = pre_t e ++ unit_t e.
  Proof. unfold item_text, pre_t, unit_t. destruct (e_vars e); reflexivity. Qed.

  Lemma unit_PT e : LIVE e -> PT (unit_t e) (item0 e).
  Proof.
    intro HL. unfold unit_t, item0. destruct (e_vars e) as [|p vs] eqn:Hv; cbn [wrap_forall]; [apply body_PT, HL|].
    apply PT_tlist. f2; [apply PT_atom; reflexivity| |apply body_PT, HL].
    apply PT_tlist. apply (tx_vars nm N_var N_ty).
  Qed.

  Lemma unit_paren e : e_vars e <> [] -> exists r, unit_t e = String "(" r.
  Proof. unfold unit_t. destruct (e_vars e); [congruence|]. intros _. eexists. reflexivity. Qed.

  Fixpoint shiftl (t : string) (l : list (string * string)) : list (string * string) :=
    match l with [] => [(t, "")] | (pre, u) :: r => (t, pre) :: shiftl u r end.

  Lemma shift_cat l : forall t, cat (shiftl t l) = t ++ concat_s (map (fun p => fst p ++ snd p) l).
  Proof.
    induction l as [|[pre u] r IH]; intro t; cbn [shiftl cat map concat_s fst snd].
    - reflexivity.
    - rewrite IH. rewrite !app_assoc_s. reflexivity.
  Qed.

  Lemma shift_F2 l : forall ss t s, LX t s -> Forall2 (fun p x => LX (snd p) x) l ss ->
    Forall2 (fun it x => LX (fst it) x) (shiftl t l) (s :: ss).
  Proof.
    induction l as [|[pre u] r IH]; intros ss t s Ht F; inversion F; subst; cbn [shiftl].
    - constructor; [exact Ht|constructor].
    - constructor; [exact Ht|]. apply IH; assumption.
  Qed.

  Lemma shift_ok l : Forall (fun p => fst p = " " \/ (fst p = "" /\ exists r, snd p = String "(" r)) l ->
    forall t, seps_ok2 (shiftl t l).
  Proof.
    induction 1 as [|[pre u] r Hp Hr IH]; intro t; cbn [shiftl seps_ok2].
    - split; [reflexivity|]. split; [|exact I]. intros x Hx. exact Hx.
    - cbn [fst snd] in Hp. split; [destruct Hp as [->|[-> _]]; reflexivity|]. split; [|apply IH].
      intros x Hx. destruct Hp as [->|[-> [r' Hu]]]; [reflexivity|]. cbn [append].
      destruct r as [|[pre' u'] r'']; cbn [shiftl cat]; rewrite Hu; reflexivity.
  Qed.

  Lemma shift_clean l : Forall (fun p => clean (fst p) /\ clean (snd p)) l -> forall t, clean t ->
    Forall (fun it => clean (fst it) /\ clean (snd it)) (shiftl t l).
  Proof.
    induction 1 as [|[pre u] r [H1 H2] Hr IH]; intros t Ht; cbn [shiftl].
    - constructor; [split; [exact Ht|reflexivity]|constructor].
    - constructor; [split; [exact Ht|exact H1]|]. apply IH. exact H2.
  Qed.

  Lemma units_F2 l : (forall e, In e l -> LIVE e) ->
    Forall2 (fun p x => LX (snd p) x) (map (fun e => (pre_t e, unit_t e)) l) (map item0 l).
  Proof.
    induction l as [|e l IH]; intro HK; [constructor|]. cbn [map]. constructor; [cbn [snd]; apply unit_PT, HK; left; reflexivity|].
    apply IH. intros e' He'. apply HK. right. exact He'.
  Qed.
  Lemma units_ok l :
    Forall (fun p => fst p = " " \/ (fst p = "" /\ exists r, snd p = String "(" r)) (map (fun e => (pre_t e, unit_t e)) l).
  Proof.
    induction l as [|e l IH]; [constructor|]. cbn [map]. constructor; [|exact IH].
    cbn [fst snd]. unfold pre_t. destruct (e_vars e) eqn:Hv; [left; reflexivity|right]. split; [reflexivity|].
    apply unit_paren. rewrite Hv. discriminate.
  Qed.
  Lemma units_clean l : (forall e, In e l -> LIVE e) ->
    Forall (fun p => clean (fst p) /\ clean (snd p)) (map (fun e => (pre_t e, unit_t e)) l).
  Proof.
    induction l as [|e l IH]; intro HK; [constructor|]. cbn [map]. constructor.
    - cbn [fst snd]. split; [unfold pre_t; destruct (e_vars e); reflexivity|]. apply (unit_PT e). apply HK. left. reflexivity.
    - apply IH. intros e' He'. apply HK. right. exact He'.
  Qed.

  Theorem effects_text_roundtrip rw effs : Forall OKE effs ->
    exists t, print_effects_text simp nm rw effs = Some t /\ parse_effects_text simp E isb t = Some (norm_effs effs).
  Proof.
    intro F. destruct (effects_roundtrip rw effs F) as (s & P1 & P2). rewrite (print_all rw effs F) in P1.
    set (K := filter (fun e => negb (is_false (e_cond e))) effs) in *.
    assert (forall e, In e K -> LIVE e) as HK.
    { intros e He. apply filter_In in He as [He1 He2]. split; [rewrite Forall_forall in F; apply F; exact He1|].
      apply negb_true_iff in He2. exact He2. }
    unfold print_effects_text.
    assert (sequence (map (print_effect_text simp nm rw) effs)
            = Some (map (fun e => if is_false (e_cond e) then [] else [item_text nm (e_vars e) (body_t e)]) effs)) as Q.
    { clear P1 P2 HK. induction F as [|e l He Hl IH]; [reflexivity|]. cbn [map sequence]. rewrite (print_item_text rw e He), IH. reflexivity. }
    rewrite Q.
    assert (concat_s (List.concat (map (fun e => if is_false (e_cond e) then [] else [item_text nm (e_vars e) (body_t e)]) effs))
            = concat_s (map (fun p => fst p ++ snd p) (map (fun e => (pre_t e, unit_t e)) K))) as C.
    { unfold K. clear. induction effs as [|e l IH]; [reflexivity|]. cbn [map List.concat filter].
      destruct (is_false (e_cond e)); cbn [negb app map concat_s fst snd]; rewrite ?IH; [reflexivity|].
      cbn [concat_s app]. rewrite item_split, <- IH. reflexivity. }
    eexists; split; [reflexivity|]. rewrite C.
    set (pairs := map (fun e => (pre_t e, unit_t e)) K).
    assert (("(and" ++ concat_s (map (fun p => fst p ++ snd p) pairs) ++ ")") = tl (shiftl "and" pairs)) as TL.
    { unfold tl. rewrite shift_cat. cbn [append]. rewrite ?app_assoc_s. reflexivity. }
    rewrite TL.
    assert (PT (tl (shiftl "and" pairs)) (SList (Atom "and" :: map item0 K))) as [L C'].
    { split.
      - apply LX_tl2; [apply shift_F2; [apply LX_atom; reflexivity|apply units_F2, HK]|apply shift_ok, units_ok].
      - apply clean_tl, shift_clean; [apply units_clean, HK|reflexivity]. }
    unfold parse_effects_text. rewrite C', (lex_of_LX _ _ L). inversion P1 as [P1e]. rewrite P1e. exact P2.
  Qed.
End EffRoundTrip.

(* ================================================================== "#t" never occurs in a printed expression *)
Section NoHash.
  Variable nm : naming.
  Hypothesis X_fl : forall f, (nm_fl nm f =? "#t") = false.      (* no fluent, object or type is called "#t" *)
  Hypothesis X_obj : forall o, (nm_obj nm o =? "#t") = false.
  Hypothesis X_ty : forall t, (nm_ty nm t =? "#t") = false.

  Definition NH (s : sexp) : Prop := contains_tok "#t" s = false.

  Lemma num_not_hash t q : parse_number t = Some q -> (t =? "#t") = false.
  Proof. intro H. destruct (String.eqb_spec t "#t") as [->|]; [vm_compute in H; discriminate H|reflexivity]. Qed.

  Lemma nh_list l : Forall (fun e => forall s, print nm e = Some s -> NH s) l ->
    forall ss, sequence (map (print nm) l) = Some ss -> existsb (contains_tok "#t") ss = false.
  Proof.
    induction 1 as [|x l Hx Hl IH]; intros ss Hs; cbn [map sequence] in Hs.
    - inversion Hs. reflexivity.
    - destruct (print nm x) as [s|]; [|discriminate]. destruct (sequence (map (print nm) l)) as [ss'|]; [|discriminate].
      inversion Hs. cbn [existsb]. rewrite (Hx s eq_refl), (IH ss' eq_refl). reflexivity.
  Qed.

  Lemma nh_vars vs : existsb (contains_tok "#t") (print_vars nm vs) = false.
  Proof.
    induction vs as [|[v t] vs IH]; [reflexivity|]. cbn [print_vars flat_map app fst snd existsb contains_tok].
    fold (print_vars nm vs). rewrite X_ty, IH. reflexivity.
  Qed.

  Lemma nh_chain op : (op =? "#t") = false -> forall r a, NH a -> existsb (contains_tok "#t") r = false ->
    NH (fold_left (fun x y => SList [Atom op; y; x]) r a).
  Proof.
    intro Hop. induction r as [|y r IH]; intros a Ha Hr; [exact Ha|]. cbn [existsb] in Hr.
    apply orb_false_iff in Hr as [Hy Hr]. cbn [fold_left]. apply IH; [|exact Hr]. unfold NH.
    cbn [contains_tok existsb]. rewrite Hop, Hy, Ha. reflexivity.
  Qed.

  Lemma print_no_hash : forall e s, print nm e = Some s -> NH s.
  Proof.
    unfold NH.
    induction e using expr_ind'; intros s Hp; cbn [print] in Hp; try discriminate Hp;
      try (destruct (print nm e) as [x|]; [|discriminate Hp]; inversion Hp; cbn; rewrite ?nh_vars, (IHe x eq_refl); reflexivity);
      try (destruct (print nm e1) as [x|]; [|discriminate Hp]; destruct (print nm e2) as [y|]; [|discriminate Hp];
           inversion Hp; cbn; rewrite (IHe1 x eq_refl), (IHe2 y eq_refl); reflexivity).
    - inversion Hp. cbn [contains_tok]. eapply num_not_hash, parse_number_show_Z.
    - destruct (show_real q) as [t|] eqn:Hq; [|discriminate]. inversion Hp. cbn [contains_tok].
      eapply num_not_hash, parse_number_show_real, Hq.
    - inversion Hp. cbn [contains_tok]. apply X_obj.
    - inversion Hp. reflexivity.
    - inversion Hp. reflexivity.
    - destruct (sequence (map (print nm) args)) as [ss|] eqn:Q; [|discriminate]. inversion Hp.
      cbn [contains_tok existsb]. rewrite X_fl, (nh_list _ H ss Q). reflexivity.
    - destruct (sequence (map (print nm) l)) as [ss|] eqn:Q; [|discriminate]. unfold nary in Hp.
      destruct ss as [|a [|b r]]; try discriminate Hp. inversion Hp. pose proof (nh_list _ H _ Q) as N. cbn [contains_tok existsb] in *. rewrite N. reflexivity.
    - destruct (sequence (map (print nm) l)) as [ss|] eqn:Q; [|discriminate]. unfold nary in Hp.
      destruct ss as [|a [|b r]]; try discriminate Hp. inversion Hp. pose proof (nh_list _ H _ Q) as N. cbn [contains_tok existsb] in *. rewrite N. reflexivity.
    - destruct (sequence (map (print nm) l)) as [ss|] eqn:Q; [|discriminate]. unfold chain in Hp.
      destruct ss as [|a [|b r]]; try discriminate Hp. inversion Hp. pose proof (nh_list _ H _ Q) as N. cbn [existsb] in N.
      apply orb_false_iff in N as [Na N]. apply (nh_chain "+" eq_refl (b :: r) a Na N).
    - destruct (sequence (map (print nm) l)) as [ss|] eqn:Q; [|discriminate]. unfold chain in Hp.
      destruct ss as [|a [|b r]]; try discriminate Hp. inversion Hp. pose proof (nh_list _ H _ Q) as N. cbn [existsb] in N.
      apply orb_false_iff in N as [Na N]. apply (nh_chain "*" eq_refl (b :: r) a Na N).
  Qed.
End NoHash.

Theorem effects_roundtrip_full (simp : expr -> expr) (isb : N -> bool) (nm : naming) (E : env) :
  (forall f, PddlExpr.e_fl E (nm_fl nm f) = Some f) -> (forall f, is_kw (nm_fl nm f) = false) ->
  (forall o, e_obj E (nm_obj nm o) = Some o) -> (forall o, PddlExpr.e_fl E (nm_obj nm o) = None) ->
  (forall o, starts_q (nm_obj nm o) = false) -> (forall p, e_par E (nm_par nm p) = Some p) ->
  (forall v, e_var E (nm_var nm v) = Some v) -> (forall p v, nm_par nm p <> nm_var nm v) ->
  (forall t, e_ty E (nm_ty nm t) = Some t) -> (forall t, starts_q (nm_ty nm t) = false) ->
  (forall s q, parse_number s = Some q -> PddlExpr.e_fl E s = None /\ e_obj E s = None) ->
  (forall f, is_eff_kw (nm_fl nm f) = false) ->
  (forall f, (nm_fl nm f =? "#t") = false) -> (forall o, (nm_obj nm o =? "#t") = false) ->
  (forall t, (nm_ty nm t =? "#t") = false) ->
  forall (rewrite : bool) (effs : list effect),
    forallb (pddl_eff_ok simp isb) effs = true ->
    exists s, print_effects simp nm rewrite effs = Some s /\ parse_effects simp E isb s = Some (norm_effs effs).
Proof.
  intros H1 H2 H3 H4 H5 H6 H7 H8 H9 H10 H11 HK X1 X2 X3 rw effs Hok.
  apply (effects_roundtrip simp isb nm E H1 H2 H3 H4 H5 H6 H7 H8 H9 H10 H11 HK (print_no_hash nm X1 X2 X3)).
  apply Forall_forall. intros e He. rewrite forallb_forall in Hok. apply Hok. exact He.
Qed.

Definition ex_effects_roundtrip (simp : expr -> expr) (isb : N -> bool) :=
  effects_roundtrip_full simp isb ex_nm ex_env (pref_ok "x") (fun f => eq_refl) (pref_ok "b") (fun o => eq_refl) (fun o => eq_refl)
    (pref_ok "p") (pref_ok "v") (fun p v (H : pref_nm "p" p = pref_nm "v" v) => ltac:(discriminate H))
    (pref_ok "t") (fun t => eq_refl) ex_num (fun f => eq_refl) (fun f => eq_refl) (fun o => eq_refl) (fun t => eq_refl).

(* ================================================================== the successor state depends on the fired assignments
   only as a multiset (Planning/Sem.v: per ground fluent, [combine] of the assigned values and of the deltas) *)
Section SameSuccessor.
  Lemma filter_perm {A} (p : A -> bool) l l' : Permutation l l' -> Permutation (filter p l) (filter p l').
  Proof.
    induction 1 as [|x l l' HP IH|x y l|l l' l'' _ IH1 _ IH2]; cbn [filter].
    - apply Permutation_refl.
    - destruct (p x); [apply perm_skip|]; exact IH.
    - destruct (p x), (p y); try apply Permutation_refl. apply perm_swap.
    - eapply Permutation_trans; eauto.
  Qed.

  Lemma existsb_perm {A} (p : A -> bool) l l' : Permutation l l' -> existsb p l = existsb p l'.
  Proof.
    induction 1 as [|x l l' HP IH|x y l|l l' l'' _ IH1 _ IH2]; cbn [existsb]; try congruence.
    destruct (p x), (p y); reflexivity.
  Qed.
  Lemma forallb_perm {A} (p : A -> bool) l l' : Permutation l l' -> forallb p l = forallb p l'.
  Proof.
    induction 1 as [|x l l' HP IH|x y l|l l' l'' _ IH1 _ IH2]; cbn [forallb]; try congruence.
    destruct (p x), (p y); reflexivity.
  Qed.

  Lemma sum_perm D D' : Permutation D D' -> forall c, sum_deltas c D = sum_deltas c D'.
  Proof.
    induction 1 as [|x l l' HP IH|x y l|l l' l'' _ IH1 _ IH2]; intro c; cbn [sum_deltas].
    - reflexivity.
    - destruct x; [apply IH|reflexivity].
    - destruct x as [x|], y as [y|]; try reflexivity. f_equal. ring.
    - rewrite IH1. apply IH2.
  Qed.

  Lemma alleq_perm (A A' : list value) a r a' r' : A = a :: r -> A' = a' :: r' -> Permutation A A' ->
    (if forallb (value_eqb a) r then CVal a else CFail) = (if forallb (value_eqb a') r' then CVal a' else CFail).
  Proof.
    intros EA EA' HP.
    assert (forall (B B' : list value) b s b' s', B = b :: s -> B' = b' :: s' -> Permutation B B' ->
            forallb (value_eqb b) s = true -> forallb (value_eqb b') s' = true /\ b' = b) as K.
    { intros B B' b s b' s' EB EB' HPB Hall. rewrite forallb_forall in Hall.
      assert (forall x, In x B -> x = b) as All.
      { intros x Hx. rewrite EB in Hx. destruct Hx as [<-|Hx]; [reflexivity|]. apply Hall in Hx. apply value_eqb_eq in Hx. congruence. }
      assert (b' = b) as Eb by (apply All; apply (Permutation_in _ (Permutation_sym HPB)); rewrite EB'; left; reflexivity).
      split; [|exact Eb]. apply forallb_forall. intros x Hx. apply value_eqb_eq. rewrite Eb. symmetry. apply All.
      apply (Permutation_in _ (Permutation_sym HPB)). rewrite EB'. right. exact Hx. }
    destruct (forallb (value_eqb a) r) eqn:H1.
    - destruct (K A A' a r a' r' EA EA' HP H1) as [H2 ->]. rewrite H2. reflexivity.
    - destruct (forallb (value_eqb a') r') eqn:H2; [|reflexivity].
      destruct (K A' A a' r' a r EA' EA (Permutation_sym HP) H2) as [H3 _]. congruence.
  Qed.

  Lemma combine_perm isb old A A' D D' : Permutation A A' -> Permutation D D' ->
    combine isb old A D = combine isb old A' D'.
  Proof.
    intros HA HD. unfold combine.
    destruct A as [|a r]; [apply Permutation_nil in HA; subst A'|];
      (destruct D as [|d ds]; [apply Permutation_nil in HD; subst D'|]).
    - reflexivity.
    - destruct D' as [|d' ds']; [apply Permutation_sym, Permutation_nil in HD; discriminate|].
      destruct old as [[| c |]|]; try reflexivity. rewrite (sum_perm _ _ HD c). reflexivity.
    - destruct A' as [|a' r']; [apply Permutation_sym, Permutation_nil in HA; discriminate|].
      destruct isb; [rewrite (existsb_perm is_vtrue _ _ HA); reflexivity|].
      apply (alleq_perm (a :: r) (a' :: r') a r a' r' eq_refl eq_refl HA).
    - destruct A' as [|a' r']; [apply Permutation_sym, Permutation_nil in HA; discriminate|].
      destruct D' as [|d' ds']; [apply Permutation_sym, Permutation_nil in HD; discriminate|]. reflexivity.
  Qed.

  Lemma spec_fluent_perm P s acts acts' k : Permutation acts acts' -> spec_fluent P s acts k = spec_fluent P s acts' k.
  Proof.
    intro HP. unfold spec_fluent, avals, deltas. apply combine_perm; apply Permutation_map, filter_perm, HP.
  Qed.

  Theorem same_successor P s acts acts' : Permutation acts acts' ->
    spec_effects_ok P s acts = spec_effects_ok P s acts'
    /\ forall f args, spec_succ P s acts f args = spec_succ P s acts' f args.
  Proof.
    intro HP. split.
    - unfold spec_effects_ok. rewrite (forallb_perm _ _ _ HP). generalize acts' at 1 3. intro l.
      induction l as [|a l IH]; cbn [forallb]; [reflexivity|].
      rewrite (spec_fluent_perm P s acts acts' (ae_key a) HP), IH. reflexivity.
    - intros f args. unfold spec_succ. rewrite (spec_fluent_perm P s acts acts' (f, args) HP). reflexivity.
  Qed.
End SameSuccessor.

Theorem roundtrip_same_successor (simp : expr -> expr) (isb : N -> bool) (sc : bool) (I : interp) (P : problem) (s : state)
  (effs : list effect) (acts : list aeff) :
  Forall (fun e => pddl_eff_ok simp isb e = true) effs ->
  fired sc I effs = Some acts ->
  exists acts', fired sc I (norm_effs effs) = Some acts'
                /\ spec_effects_ok P s acts' = spec_effects_ok P s acts
                /\ forall f args, spec_succ P s acts' f args = spec_succ P s acts f args.
Proof.
  intros F H. destruct (norm_effs_fired simp isb sc I effs acts F H) as (acts' & A1 & A2).
  exists acts'. split; [exact A1|]. destruct (same_successor P s acts acts' A2) as [B1 B2].
  split; [symmetry; exact B1|]. intros f args. symmetry. apply B2.
Qed.

Theorem effects_text_roundtrip_full (simp : expr -> expr) (isb : N -> bool) (nm : naming) (E : env) :
  (forall f, PddlExpr.e_fl E (nm_fl nm f) = Some f) -> (forall f, is_kw (nm_fl nm f) = false) ->
  (forall o, e_obj E (nm_obj nm o) = Some o) -> (forall o, PddlExpr.e_fl E (nm_obj nm o) = None) ->
  (forall o, starts_q (nm_obj nm o) = false) -> (forall p, e_par E (nm_par nm p) = Some p) ->
  (forall v, e_var E (nm_var nm v) = Some v) -> (forall p v, nm_par nm p <> nm_var nm v) ->
  (forall t, e_ty E (nm_ty nm t) = Some t) -> (forall t, starts_q (nm_ty nm t) = false) ->
  (forall s q, parse_number s = Some q -> PddlExpr.e_fl E s = None /\ e_obj E s = None) ->
  (forall f, is_eff_kw (nm_fl nm f) = false) ->
  (forall f, (nm_fl nm f =? "#t") = false) -> (forall o, (nm_obj nm o =? "#t") = false) ->
  (forall t, (nm_ty nm t =? "#t") = false) ->
  (forall f, name_ok (nm_fl nm f) = true) -> (forall o, name_ok (nm_obj nm o) = true) ->
  (forall p, name_ok (nm_par nm p) = true) -> (forall v, name_ok (nm_var nm v) = true) ->
  (forall t, name_ok (nm_ty nm t) = true) ->
  forall (rewrite : bool) (effs : list effect),
    forallb (pddl_eff_ok simp isb) effs = true ->
    exists t, print_effects_text simp nm rewrite effs = Some t
              /\ parse_effects_text simp E isb t = Some (norm_effs effs).
Proof.
  intros H1 H2 H3 H4 H5 H6 H7 H8 H9 H10 H11 HK X1 X2 X3 N1 N2 N3 N4 N5 rw effs Hok.
  apply (effects_text_roundtrip simp isb nm E H1 H2 H3 H4 H5 H6 H7 H8 H9 H10 H11 HK (print_no_hash nm X1 X2 X3) N1 N2 N3 N4 N5).
  apply Forall_forall. intros e He. rewrite forallb_forall in Hok. apply Hok. exact He.
Qed.

Definition ex_effects_text_roundtrip (simp : expr -> expr) (isb : N -> bool) :=
  effects_text_roundtrip_full simp isb ex_nm ex_env (pref_ok "x") (fun f => eq_refl) (pref_ok "b") (fun o => eq_refl)
    (fun o => eq_refl) (pref_ok "p") (pref_ok "v") (fun p v (H : pref_nm "p" p = pref_nm "v" v) => ltac:(discriminate H))
    (pref_ok "t") (fun t => eq_refl) ex_num (fun f => eq_refl) (fun f => eq_refl) (fun o => eq_refl) (fun t => eq_refl)
    (fun f => pref_name_ok "x" f eq_refl) (fun o => pref_name_ok "b" o eq_refl)
    (fun p => pref_name_ok "p" p eq_refl) (fun v => pref_name_ok "v" v eq_refl) (fun t => pref_name_ok "t" t eq_refl).

(* ================================================================== the typed parameter list of an action *)
Lemma params_roundtrip (nm : naming) (E : env) :
  (forall p, e_par E (nm_par nm p) = Some p) -> (forall t, e_ty E (nm_ty nm t) = Some t) ->
  (forall t, starts_q (nm_ty nm t) = false) ->
  forall ps, forallb is_atom (print_pars nm ps) = true
             /\ exists nps, parse_vars E [] (print_pars nm ps) = Some nps
                            /\ sequence (map (fun p => option_map (fun i => (i, snd p)) (e_par E (fst p))) nps) = Some ps.
Proof.
  intros Hp Ht Hq ps.
  set (nm' := {| nm_fl := nm_fl nm; nm_obj := nm_obj nm; nm_par := nm_par nm; nm_var := nm_par nm; nm_ty := nm_ty nm |}).
  set (E' := {| PddlExpr.e_fl := PddlExpr.e_fl E; e_obj := e_obj E; e_par := e_par E; e_var := e_par E; e_ty := e_ty E |}).
  split; [exact (print_vars_atoms nm' ps)|]. exists (scope_names nm' ps). split.
  - exact (parse_print_vars nm' E Ht Hq ps).
  - exact (seq_scope nm' E' Hp ps).
Qed.

(* ================================================================== one instantaneous action, structural level *)
Section ActionRoundTrip.
  Variable simp : expr -> expr.
  Variable isb : N -> bool.
  Variable nm : naming.
  Variable E : env.
  Hypothesis H_fl : forall f, PddlExpr.e_fl E (nm_fl nm f) = Some f.
  Hypothesis H_flkw : forall f, is_kw (nm_fl nm f) = false.
  Hypothesis H_obj : forall o, e_obj E (nm_obj nm o) = Some o.
  Hypothesis H_obj_fl : forall o, PddlExpr.e_fl E (nm_obj nm o) = None.
  Hypothesis H_obj_q : forall o, starts_q (nm_obj nm o) = false.
  Hypothesis H_par : forall p, e_par E (nm_par nm p) = Some p.
  Hypothesis H_var : forall v, e_var E (nm_var nm v) = Some v.
  Hypothesis H_par_var : forall p v, nm_par nm p <> nm_var nm v.
  Hypothesis H_ty : forall t, e_ty E (nm_ty nm t) = Some t.
  Hypothesis H_ty_q : forall t, starts_q (nm_ty nm t) = false.
  Hypothesis H_num : forall s q, parse_number s = Some q -> PddlExpr.e_fl E s = None /\ e_obj E s = None.
  Hypothesis H_effkw : forall f, is_eff_kw (nm_fl nm f) = false.
  Hypothesis X_fl : forall f, (nm_fl nm f =? "#t") = false.
  Hypothesis X_obj : forall o, (nm_obj nm o =? "#t") = false.
  Hypothesis X_ty : forall t, (nm_ty nm t =? "#t") = false.

  (* the "(and c1 .. cn)" precondition group, for 0, 1 or n conjuncts *)
  Lemma pre_group cs : forallb (fun c => sfix simp c && pddl_ok [] c) cs = true ->
    exists ss, sequence (map (fun c => print nm (simp c)) cs) = Some ss
               /\ parse E [] (SList (Atom "and" :: ss)) = Some (mkAnd (map norm cs)).
  Proof.
    intro H.
    assert (forallb (pddl_ok []) cs = true /\ map (fun c => print nm (simp c)) cs = map (print nm) cs) as [Hok Hm].
    { induction cs as [|c cs IH]; [split; reflexivity|]. cbn [forallb map] in *. apply andb_true_iff in H as [Hc H].
      apply andb_true_iff in Hc as [Hs Hp]. destruct (IH H) as [I1 I2]. unfold sfix in Hs. apply expr_eqb_eq in Hs.
      rewrite Hp, I1, I2, Hs. split; reflexivity. }
    assert (Forall (RT nm E) cs) as F.
    { apply Forall_forall. intros c _.
      exact (roundtrip_sc nm E H_fl H_flkw H_obj H_obj_fl H_obj_q H_par H_var H_par_var H_ty H_ty_q H_num c). }
    destruct (rt_list nm E cs F [] Hok) as (ss & Q1 & Q2 & _). exists ss. rewrite Hm. split; [exact Q1|].
    rewrite (parse_op E "and" OAnd) by reflexivity. cbn [scope_names map] in Q2. rewrite Q2. reflexivity.
  Qed.

  Theorem action_roundtrip (rw ep : bool) (a : paction) : pddl_action_ok simp isb a = true ->
    exists x, print_action simp nm rw ep a = Some (Some x) /\ parse_action simp E isb x = Some (norm_action simp a).
  Proof.
    unfold pddl_action_ok. intro H. apply andb_true_iff in H as [H Hnd]. apply andb_true_iff in H as [H Heff].
    apply andb_true_iff in H as [Hnf Hpre]. apply negb_true_iff in Hnf.
    destruct (pre_group _ Hpre) as (ss & S1 & S2).
    destruct (effects_roundtrip_full simp isb nm E H_fl H_flkw H_obj H_obj_fl H_obj_q H_par H_var H_par_var H_ty H_ty_q
                H_num H_effkw X_fl X_obj X_ty rw (pa_effs a) Heff) as (es & E1 & E2).
    destruct (params_roundtrip nm E H_par H_ty H_ty_q (pa_params a)) as (PA & nps & P1 & P2).
    assert (parse_effects simp E isb (SList [Atom "and"]) = Some []) as Enil by reflexivity.
    destruct (pa_pre a) as [|p0 pre] eqn:Hp; destruct (pa_effs a) as [|e0 effs] eqn:He;
      unfold print_action, parse_action, norm_action; rewrite Hp, He, Hnf, ?S1, ?E1; cbn [option_map];
      try destruct ep; (eexists; split; [reflexivity|]); cbn [ax_params ax_pre ax_eff];
      rewrite PA, P1, P2, ?S2, ?E2; reflexivity.
  Qed.
End ActionRoundTrip.

(* ================================================================== the re-read action behaves like the written one *)
Section ActionSem.
  Variable simp : expr -> expr.
  Variable isb : N -> bool.
  Variable sc : bool.
  Variable I : interp.
  (* soundness of the Simplifier on conditions (C11's theorem, a hypothesis here): it preserves "holds" *)
  Hypothesis simp_holds : forall x, holds sc I (simp x) = holds sc I x.

  Lemma ebools_holds l :
    match ebools sc I l with Some bs => forallb (fun b => b) bs | None => false end = forallb (holds sc I) l.
  Proof.
    induction l as [|x l IH]; [reflexivity|]. cbn [ebools forallb]. rewrite <- IH. unfold holds.
    destruct (eval sc x I) as [[[|]|q|o]|]; cbn [as_bool]; destruct (ebools sc I l); reflexivity.
  Qed.

  Lemma holds_EAnd l : holds sc I (EAnd l) = forallb (holds sc I) l.
  Proof.
    rewrite <- ebools_holds. unfold holds. rewrite eval_EAnd.
    destruct (ebools sc I l) as [bs|]; [destruct (forallb (fun b => b) bs); reflexivity|reflexivity].
  Qed.

  Lemma holds_mkAnd l : holds sc I (mkAnd l) = forallb (holds sc I) l.
  Proof.
    destruct l as [|x [|y r]]; cbn [mkAnd]; [reflexivity| |apply holds_EAnd]. cbn [forallb]. rewrite andb_true_r. reflexivity.
  Qed.

  Lemma holds_conjuncts pre : forallb (holds sc I) (pre_conjuncts simp pre) = forallb (holds sc I) pre.
  Proof.
    induction pre as [|p pre IH]; [reflexivity|]. cbn [pre_conjuncts flat_map forallb]. fold (pre_conjuncts simp pre).
    rewrite forallb_app, IH, <- (simp_holds p). f_equal.
    destruct (is_true (simp p)) eqn:Ht; [apply is_true_eq in Ht; rewrite Ht; reflexivity|].
    destruct (simp p); cbn [forallb]; rewrite ?andb_true_r; try reflexivity. symmetry. apply holds_EAnd.
  Qed.

  Lemma holds_norm cs : forallb (fun c => sfix simp c && pddl_ok [] c) cs = true ->
    forallb (holds sc I) (map norm cs) = forallb (holds sc I) cs.
  Proof.
    induction cs as [|c cs IH]; [reflexivity|]. cbn [forallb map]. intro H. apply andb_true_iff in H as [Hc H].
    apply andb_true_iff in Hc as [_ Hp]. rewrite (IH H). f_equal. unfold holds. rewrite (norm_sem sc c [] I Hp). reflexivity.
  Qed.

  Theorem action_same_behaviour (P : problem) (s : state) (a : paction) : pddl_action_ok simp isb a = true ->
    forallb (holds sc I) (pa_pre (norm_action simp a)) = forallb (holds sc I) (pa_pre a)
    /\ forall acts, fired sc I (pa_effs a) = Some acts ->
         exists acts', fired sc I (pa_effs (norm_action simp a)) = Some acts'
                       /\ spec_effects_ok P s acts' = spec_effects_ok P s acts
                       /\ forall f args, spec_succ P s acts' f args = spec_succ P s acts f args.
  Proof.
    unfold pddl_action_ok. intro H. apply andb_true_iff in H as [H _]. apply andb_true_iff in H as [H Heff].
    apply andb_true_iff in H as [_ Hpre]. split.
    - assert (holds sc I (mkAnd (map norm (pre_conjuncts simp (pa_pre a)))) = forallb (holds sc I) (pa_pre a)) as HC
        by (rewrite holds_mkAnd, (holds_norm _ Hpre), holds_conjuncts; reflexivity).
      unfold norm_action. cbn [pa_pre]. destruct (pa_pre a) as [|p0 pre]; [reflexivity|]. cbv zeta.
      destruct (is_true (mkAnd (map norm (pre_conjuncts simp (p0 :: pre))))) eqn:Ht; rewrite <- HC; cbn [forallb].
      + apply is_true_eq in Ht. rewrite Ht. reflexivity.
      + apply andb_true_r.
    - intros acts Hf. cbn [norm_action pa_effs]. apply (roundtrip_same_successor simp isb sc I P s); [|exact Hf].
      apply Forall_forall. intros e He. rewrite forallb_forall in Heff. apply Heff. exact He.
  Qed.
End ActionSem.
