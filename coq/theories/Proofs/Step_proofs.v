(* Extensionality of evaluation, strict-vs-short-circuit refinement, and the step-level theorems for C01/C02. *)
From Coq Require Import List ZArith NArith QArith Qcanon Bool Lia.
Import ListNotations.
Require Import UPV.Core.Expr UPV.Core.Eval UPV.Core.Interp UPV.Planning.Problem UPV.Planning.Sem.
Require Import UPV.Proofs.Eval_lemmas UPV.Proofs.Sem_proofs.

Definition interp_eq (I J : interp) : Prop :=
  (forall f a, fl I f a = fl J f a) /\ (forall p, par I p = par J p) /\ (forall v, var I v = var J v) /\
  (forall f a, ifun I f a = ifun J f a) /\ (forall t, objs I t = objs J t).

Lemma interp_eq_bind I J v o : interp_eq I J -> interp_eq (bind_var I v o) (bind_var J v o).
Proof.
  intros (H1 & H2 & H3 & H4 & H5). repeat split; simpl; auto.
  intros w. destruct (w =? v)%N; auto.
Qed.

Lemma instances_ext vs : forall I J, interp_eq I J -> Forall2 interp_eq (instances I vs) (instances J vs).
Proof.
  induction vs as [|[v t] vs IH]; intros I J H; simpl.
  - constructor; [exact H | constructor].
  - destruct H as (H1 & H2 & H3 & H4 & H5). rewrite <- H5.
    assert (HH : interp_eq I J) by (repeat split; auto).
    induction (objs I t) as [|o os IHo]; simpl; [constructor|].
    apply Forall2_app; [apply IH, interp_eq_bind, HH | exact IHo].
Qed.

Lemma map_ext_Forall2 {A B} (f : A -> B) l1 l2 (R : A -> A -> Prop) :
  Forall2 R l1 l2 -> (forall x y, R x y -> f x = f y) -> map f l1 = map f l2.
Proof. induction 1; intros H'; simpl; [reflexivity|]. f_equal; auto. Qed.

Lemma eval_ext sc e : forall I J, interp_eq I J -> eval sc e I = eval sc e J.
Proof.
  induction e using expr_ind'; intros I J HIJ;
    try (destruct HIJ as (H1 & H2 & H3 & H4 & H5); simpl; auto; fail).
  - (* fluent *) rewrite !eval_EFluent.
    assert (E : evals sc I args = evals sc J args).
    { induction H as [|x l Hx _ IHl]; [reflexivity|]. cbn [evals]. rewrite (Hx I J HIJ), IHl. reflexivity. }
    rewrite E. destruct HIJ as (H1 & _). destruct (evals sc J args); auto.
  - rewrite !eval_EIFun.
    assert (E : evals sc I args = evals sc J args).
    { induction H as [|x l Hx _ IHl]; [reflexivity|]. cbn [evals]. rewrite (Hx I J HIJ), IHl. reflexivity. }
    rewrite E. destruct HIJ as (_ & _ & _ & H4 & _). destruct (evals sc J args); auto.
  - rewrite !eval_EAnd.
    assert (E : ebools sc I l = ebools sc J l).
    { induction H as [|x l Hx _ IHl]; [reflexivity|]. cbn [ebools]. rewrite (Hx I J HIJ), IHl. reflexivity. }
    rewrite E. reflexivity.
  - rewrite !eval_EOr.
    assert (E : ebools sc I l = ebools sc J l).
    { induction H as [|x l Hx _ IHl]; [reflexivity|]. cbn [ebools]. rewrite (Hx I J HIJ), IHl. reflexivity. }
    rewrite E. reflexivity.
  - rewrite !eval_ENot, (IHe I J HIJ). reflexivity.
  - rewrite !eval_EImplies, (IHe1 I J HIJ), (IHe2 I J HIJ). reflexivity.
  - rewrite !eval_EIff, (IHe1 I J HIJ), (IHe2 I J HIJ). reflexivity.
  - rewrite !eval_EExists.
    rewrite (map_ext_Forall2 (fun K => as_bool (eval sc e K)) _ _ interp_eq (instances_ext vs I J HIJ)); [reflexivity|].
    intros x y Hxy. rewrite (IHe x y Hxy). reflexivity.
  - rewrite !eval_EForall.
    rewrite (map_ext_Forall2 (fun K => as_bool (eval sc e K)) _ _ interp_eq (instances_ext vs I J HIJ)); [reflexivity|].
    intros x y Hxy. rewrite (IHe x y Hxy). reflexivity.
  - rewrite !eval_EPlus.
    assert (E : enums sc I l = enums sc J l).
    { induction H as [|x l Hx _ IHl]; [reflexivity|]. cbn [enums]. rewrite (Hx I J HIJ), IHl. reflexivity. }
    rewrite E. reflexivity.
  - rewrite !eval_EMinus, (IHe1 I J HIJ), (IHe2 I J HIJ). reflexivity.
  - rewrite !eval_ETimes.
    assert (E : enums sc I l = enums sc J l).
    { induction H as [|x l Hx _ IHl]; [reflexivity|]. cbn [enums]. rewrite (Hx I J HIJ), IHl. reflexivity. }
    rewrite E. reflexivity.
  - rewrite !eval_EDiv, (IHe1 I J HIJ), (IHe2 I J HIJ). reflexivity.
  - rewrite !eval_ELe, (IHe1 I J HIJ), (IHe2 I J HIJ). reflexivity.
  - rewrite !eval_ELt, (IHe1 I J HIJ), (IHe2 I J HIJ). reflexivity.
  - rewrite !eval_EEquals, (IHe1 I J HIJ), (IHe2 I J HIJ). reflexivity.
Qed.

(* ---------------- strict quantifiers refine to short-circuit quantifiers ---------------- *)
Lemma q_fold_refines stop rs b : q_fold false stop rs = Some b -> q_fold true stop rs = Some b.
Proof.
  revert b; induction rs as [|[r|] rs IH]; intros b; simpl; auto; try discriminate.
  destruct (Bool.eqb r stop).
  - destruct (q_fold false stop rs); [auto | discriminate].
  - apply IH.
Qed.

Lemma as_bool_some v b : as_bool v = Some b -> v = Some (VBool b).
Proof. destruct v as [[x| |]|]; simpl; try discriminate. intros H; inversion H; reflexivity. Qed.
Lemma as_num_some v q : as_num v = Some q -> v = Some (VNum q).
Proof. destruct v as [[| x |]|]; simpl; try discriminate. intros H; inversion H; reflexivity. Qed.

(* whenever the strict reading gives a value, Python's short-circuit evaluation gives the same value *)
Lemma eval_sc_refines e : forall I v, eval false e I = Some v -> eval true e I = Some v.
Proof.
  induction e using expr_ind'; intros I val; try (simpl; auto; fail).
  - rewrite !eval_EFluent.
    assert (E : forall vs, evals false I args = Some vs -> evals true I args = Some vs).
    { induction H as [|x l Hx _ IHl]; intros vs; cbn [evals]; [auto|].
      destruct (eval false x I) as [vx|] eqn:Ex; [|discriminate]. rewrite (Hx I vx Ex).
      destruct (evals false I l) as [vl|]; [|discriminate]. rewrite (IHl vl eq_refl). auto. }
    destruct (evals false I args) as [vs|]; [|discriminate]. rewrite (E vs eq_refl). auto.
  - rewrite !eval_EIFun.
    assert (E : forall vs, evals false I args = Some vs -> evals true I args = Some vs).
    { induction H as [|x l Hx _ IHl]; intros vs; cbn [evals]; [auto|].
      destruct (eval false x I) as [vx|] eqn:Ex; [|discriminate]. rewrite (Hx I vx Ex).
      destruct (evals false I l) as [vl|]; [|discriminate]. rewrite (IHl vl eq_refl). auto. }
    destruct (evals false I args) as [vs|]; [|discriminate]. rewrite (E vs eq_refl). auto.
  - rewrite !eval_EAnd.
    assert (E : forall vs, ebools false I l = Some vs -> ebools true I l = Some vs).
    { induction H as [|x l Hx _ IHl]; intros vs; cbn [ebools]; [auto|].
      destruct (as_bool (eval false x I)) as [vx|] eqn:Ex; [|discriminate].
      apply as_bool_some in Ex. rewrite (Hx I _ Ex). simpl.
      destruct (ebools false I l) as [vl|]; [|discriminate]. rewrite (IHl vl eq_refl). auto. }
    destruct (ebools false I l) as [vs|]; [|discriminate]. rewrite (E vs eq_refl). auto.
  - rewrite !eval_EOr.
    assert (E : forall vs, ebools false I l = Some vs -> ebools true I l = Some vs).
    { induction H as [|x l Hx _ IHl]; intros vs; cbn [ebools]; [auto|].
      destruct (as_bool (eval false x I)) as [vx|] eqn:Ex; [|discriminate].
      apply as_bool_some in Ex. rewrite (Hx I _ Ex). simpl.
      destruct (ebools false I l) as [vl|]; [|discriminate]. rewrite (IHl vl eq_refl). auto. }
    destruct (ebools false I l) as [vs|]; [|discriminate]. rewrite (E vs eq_refl). auto.
  - rewrite !eval_ENot. destruct (as_bool (eval false e I)) eqn:E; [|discriminate].
    apply as_bool_some in E. rewrite (IHe I _ E). auto.
  - rewrite !eval_EImplies.
    destruct (as_bool (eval false e1 I)) eqn:E1; [|discriminate].
    destruct (as_bool (eval false e2 I)) eqn:E2; [|discriminate].
    apply as_bool_some in E1, E2. rewrite (IHe1 I _ E1), (IHe2 I _ E2). auto.
  - rewrite !eval_EIff.
    destruct (as_bool (eval false e1 I)) eqn:E1; [|discriminate].
    destruct (as_bool (eval false e2 I)) eqn:E2; [|discriminate].
    apply as_bool_some in E1, E2. rewrite (IHe1 I _ E1), (IHe2 I _ E2). auto.
  - rewrite !eval_EExists.
    destruct (q_fold false true (map (fun J => as_bool (eval false e J)) (instances I vs))) as [b|] eqn:EQ; [|discriminate].
    assert (EQ' : q_fold true true (map (fun J => as_bool (eval true e J)) (instances I vs)) = Some b).
    { apply q_fold_refines.
      revert b EQ. induction (instances I vs) as [|J Js IHJ]; intros b; simpl; [auto|].
      destruct (as_bool (eval false e J)) as [r|] eqn:Er; [|discriminate].
      apply as_bool_some in Er. rewrite (IHe J _ Er). simpl.
      destruct (Bool.eqb r true).
      - destruct (q_fold false true (map (fun J0 => as_bool (eval false e J0)) Js)) eqn:E2; [|discriminate].
        rewrite (IHJ _ eq_refl). auto.
      - apply IHJ. }
    rewrite EQ'. auto.
  - rewrite !eval_EForall.
    destruct (q_fold false false (map (fun J => as_bool (eval false e J)) (instances I vs))) as [b|] eqn:EQ; [|discriminate].
    assert (EQ' : q_fold true false (map (fun J => as_bool (eval true e J)) (instances I vs)) = Some b).
    { apply q_fold_refines.
      revert b EQ. induction (instances I vs) as [|J Js IHJ]; intros b; simpl; [auto|].
      destruct (as_bool (eval false e J)) as [r|] eqn:Er; [|discriminate].
      apply as_bool_some in Er. rewrite (IHe J _ Er). simpl.
      destruct (Bool.eqb r false).
      - destruct (q_fold false false (map (fun J0 => as_bool (eval false e J0)) Js)) eqn:E2; [|discriminate].
        rewrite (IHJ _ eq_refl). auto.
      - apply IHJ. }
    rewrite EQ'. auto.
  - rewrite !eval_EPlus.
    assert (E : forall vs, enums false I l = Some vs -> enums true I l = Some vs).
    { induction H as [|x l Hx _ IHl]; intros vs; cbn [enums]; [auto|].
      destruct (as_num (eval false x I)) as [vx|] eqn:Ex; [|discriminate].
      apply as_num_some in Ex. rewrite (Hx I _ Ex). simpl.
      destruct (enums false I l) as [vl|]; [|discriminate]. rewrite (IHl vl eq_refl). auto. }
    destruct (enums false I l) as [vs|]; [|discriminate]. rewrite (E vs eq_refl). auto.
  - rewrite !eval_EMinus.
    destruct (as_num (eval false e1 I)) eqn:E1; [|discriminate].
    destruct (as_num (eval false e2 I)) eqn:E2; [|discriminate].
    apply as_num_some in E1, E2. rewrite (IHe1 I _ E1), (IHe2 I _ E2). auto.
  - rewrite !eval_ETimes.
    assert (E : forall vs, enums false I l = Some vs -> enums true I l = Some vs).
    { induction H as [|x l Hx _ IHl]; intros vs; cbn [enums]; [auto|].
      destruct (as_num (eval false x I)) as [vx|] eqn:Ex; [|discriminate].
      apply as_num_some in Ex. rewrite (Hx I _ Ex). simpl.
      destruct (enums false I l) as [vl|]; [|discriminate]. rewrite (IHl vl eq_refl). auto. }
    destruct (enums false I l) as [vs|]; [|discriminate]. rewrite (E vs eq_refl). auto.
  - rewrite !eval_EDiv.
    destruct (as_num (eval false e1 I)) eqn:E1; [|discriminate].
    destruct (as_num (eval false e2 I)) eqn:E2; [|discriminate].
    apply as_num_some in E1, E2. rewrite (IHe1 I _ E1), (IHe2 I _ E2). auto.
  - rewrite !eval_ELe.
    destruct (as_num (eval false e1 I)) eqn:E1; [|discriminate].
    destruct (as_num (eval false e2 I)) eqn:E2; [|discriminate].
    apply as_num_some in E1, E2. rewrite (IHe1 I _ E1), (IHe2 I _ E2). auto.
  - rewrite !eval_ELt.
    destruct (as_num (eval false e1 I)) eqn:E1; [|discriminate].
    destruct (as_num (eval false e2 I)) eqn:E2; [|discriminate].
    apply as_num_some in E1, E2. rewrite (IHe1 I _ E1), (IHe2 I _ E2). auto.
  - rewrite !eval_EEquals.
    destruct (eval false e1 I) as [v1|] eqn:E1; [|discriminate].
    rewrite (IHe1 I _ E1).
    destruct (eval false e2 I) as [v2|] eqn:E2; [|destruct v1; discriminate].
    rewrite (IHe2 I _ E2). auto.
Qed.

(* ---------------- states are compared extensionally ---------------- *)
Definition state_eq (s t : state) : Prop := forall f a, s f a = t f a.
Definition ostate_eq (a b : option state) : Prop :=
  match a, b with Some s, Some t => state_eq s t | None, None => True | _, _ => False end.

Lemma mk_interp_ext P s t pars : state_eq s t -> interp_eq (mk_interp P s pars) (mk_interp P t pars).
Proof. intros H. repeat split; simpl; auto. Qed.

Lemma holds_ext sc I J e : interp_eq I J -> holds sc I e = holds sc J e.
Proof. intros H. unfold holds. rewrite (eval_ext sc e I J H). reflexivity. Qed.

Lemma all_hold_ext sc I J cs : interp_eq I J -> all_hold sc I cs = all_hold sc J cs.
Proof.
  intros H. unfold all_hold. induction cs as [|c cs IH]; simpl; [reflexivity|].
  rewrite (holds_ext sc I J c H), IH. reflexivity.
Qed.

Lemma invariants_ok_ext sc P s t : state_eq s t -> invariants_ok sc P s = invariants_ok sc P t.
Proof. intros H. unfold invariants_ok. apply all_hold_ext, mk_interp_ext, H. Qed.

Lemma evals_l_ext sc l I J : interp_eq I J -> evals_l sc I l = evals_l sc J l.
Proof.
  intros H. induction l as [|x l IH]; simpl; [reflexivity|]. rewrite (eval_ext sc x I J H), IH. reflexivity.
Qed.

Lemma eval_effect_ext sc e I J : interp_eq I J -> eval_effect sc I e = eval_effect sc J e.
Proof.
  intros H. unfold eval_effect.
  rewrite (evals_l_ext sc _ I J H), (eval_ext sc (e_cond e) I J H), (eval_ext sc (e_val e) I J H). reflexivity.
Qed.

Lemma fired_ext sc effs I J : interp_eq I J -> fired sc I effs = fired sc J effs.
Proof.
  intros H. unfold fired. f_equal.
  induction effs as [|e effs IH]; simpl; [reflexivity|]. rewrite IH. f_equal.
  apply (map_ext_Forall2 _ _ _ interp_eq (instances_ext (e_vars e) I J H)).
  intros x y Hxy. apply eval_effect_ext, Hxy.
Qed.

Lemma sim_step_ext P s t st a : state_eq s t -> sim_step P s st a = sim_step P t st a.
Proof. intros H. unfold sim_step. destruct st as [upd asg]. rewrite (H (fst (ae_key a)) (snd (ae_key a))). reflexivity. Qed.

Lemma sim_loop_ext P s t l : state_eq s t -> forall st, sim_loop P s st l = sim_loop P t st l.
Proof.
  intros H. induction l as [|a l IH]; intros st; simpl; [reflexivity|].
  rewrite (sim_step_ext P s t st a H). destruct (sim_step P t st a); [apply IH | reflexivity].
Qed.

Lemma apply_upd_ext s t u : state_eq s t -> state_eq (apply_upd s u) (apply_upd t u).
Proof. intros H f a. unfold apply_upd. destruct (alookup (f, a) u); [reflexivity | apply H]. Qed.

(* the simulator's apply is a congruence for extensional state equality *)
Lemma sim_apply_ext sc P s t a args : state_eq s t -> ostate_eq (sim_apply sc P s a args) (sim_apply sc P t a args).
Proof.
  intros H. unfold sim_apply.
  pose proof (mk_interp_ext P s t (zip_params (a_params a) args) H) as HI.
  rewrite (all_hold_ext sc _ _ (a_pre a) HI), (fired_ext sc (a_effs a) _ _ HI).
  destruct (negb (all_hold sc (mk_interp P t (zip_params (a_params a) args)) (a_pre a))); [exact I|].
  destruct (fired sc (mk_interp P t (zip_params (a_params a) args)) (a_effs a)) as [acts|]; [|exact I].
  rewrite (sim_loop_ext P s t acts H).
  destruct (sim_loop P t ([], []) acts) as [[upd asg]|]; [|exact I].
  rewrite (invariants_ok_ext sc P _ _ (apply_upd_ext s t upd H)).
  destruct (invariants_ok sc P (apply_upd t upd)); [|exact I].
  apply apply_upd_ext, H.
Qed.

(* ---------------- C01: the simulator's step is the documented step ---------------- *)
Definition effects_typed (sc : bool) (P : problem) (s : state) (a : action) (args : list value) : Prop :=
  forall acts, fired sc (mk_interp P s (zip_params (a_params a) args)) (a_effs a) = Some acts ->
               forallb (wt_aeff P) acts = true.

Theorem sim_apply_refines_spec sc P s a args :
  effects_typed sc P s a args ->
  ostate_eq (sim_apply sc P s a args) (spec_step sc P s a args).
Proof.
  intros WT. unfold sim_apply, spec_step.
  destruct (negb (all_hold sc (mk_interp P s (zip_params (a_params a) args)) (a_pre a))); [exact I|].
  destruct (fired sc (mk_interp P s (zip_params (a_params a) args)) (a_effs a)) as [acts|] eqn:EF; [|exact I].
  pose proof (sim_loop_spec P s acts (WT acts EF)) as L.
  destruct (sim_loop P s ([], []) acts) as [[upd asg]|].
  - destruct L as [L1 L2]. rewrite L1. simpl.
    assert (SE : state_eq (apply_upd s upd) (spec_succ P s acts)) by (intros f x; apply L2).
    rewrite (invariants_ok_ext sc P _ _ SE).
    destruct (invariants_ok sc P (spec_succ P s acts)); [exact SE | exact I].
  - rewrite L. simpl. exact I.
Qed.

(* ---------------- C02: is_applicable answers exactly "apply returns a state" ---------------- *)
Theorem is_applicable_iff_apply sc P s a args :
  sim_is_applicable sc P s a args = match sim_apply sc P s a args with Some _ => true | None => false end.
Proof.
  unfold sim_is_applicable, sim_apply.
  destruct (all_hold sc (mk_interp P s (zip_params (a_params a) args)) (a_pre a)); simpl; [|reflexivity].
  destruct (fired sc (mk_interp P s (zip_params (a_params a) args)) (a_effs a)) as [acts|]; [|reflexivity].
  destruct (sim_loop P s ([], []) acts) as [[upd asg]|]; [|reflexivity].
  destruct (invariants_ok sc P (apply_upd s upd)); reflexivity.
Qed.

Theorem is_goal_iff_no_unsat sc P s :
  sim_is_goal sc P s = match sim_unsat_goals sc P s with [] => true | _ :: _ => false end.
Proof.
  unfold sim_is_goal, goals_hold, sim_unsat_goals, all_hold.
  induction (p_goals P) as [|g gs IH]; simpl; [reflexivity|].
  destruct (holds sc (mk_interp P s []) g); simpl; [exact IH | reflexivity].
Qed.

(* a condition whose strict evaluation is undefined (it reads a fluent with no value) is never satisfied *)
Theorem undefined_never_satisfied I c : eval false c I = None -> holds false I c = false.
Proof. intros H. unfold holds. rewrite H. reflexivity. Qed.

(* ---------------- histories: running a plan through the simulator = running it through the specification ----- *)
Definition plan_typed (sc : bool) (P : problem) : Prop :=
  forall s aid a args, lookup_action P aid = Some a -> effects_typed sc P s a args.

Theorem sim_run_refines_spec sc P plan : plan_typed sc P -> forall s t, state_eq s t ->
  ostate_eq (run P (sim_apply sc P) s plan) (run P (spec_step sc P) t plan).
Proof.
  intros WT. induction plan as [|[aid args] plan IH]; intros s t H; simpl; [exact H|].
  destruct (lookup_action P aid) as [a|] eqn:EA; [|exact I].
  pose proof (sim_apply_ext sc P s t a args H) as E1.
  pose proof (sim_apply_refines_spec sc P t a args (WT t aid a args EA)) as E2.
  destruct (sim_apply sc P s a args) as [s1|], (sim_apply sc P t a args) as [t1|],
           (spec_step sc P t a args) as [t2|]; simpl in *; try contradiction; try exact I.
  apply IH. intros f x. rewrite E1. apply E2.
Qed.

(* with every fluent read being defined the code's short-circuit evaluation and the strict reading coincide *)
Theorem holds_sc_of_strict I c : holds false I c = true -> holds true I c = true.
Proof.
  unfold holds. destruct (eval false c I) as [[[|]| |]|] eqn:E; try discriminate.
  intros _. rewrite (eval_sc_refines c I _ E). reflexivity.
Qed.

(* ---------------- C02: get_applicable_actions and query purity ---------------- *)
Definition sim_applicable_actions (sc : bool) (P : problem) (s : state) (insts : list (N * list value)) : list (N * list value) :=
  filter (fun ai => match lookup_action P (fst ai) with
                    | Some a => sim_is_applicable sc P s a (snd ai)
                    | None => false end) insts.

Theorem applicable_actions_exact sc P s insts ai :
  In ai (sim_applicable_actions sc P s insts) <->
  In ai insts /\ exists a, lookup_action P (fst ai) = Some a /\ exists t, sim_apply sc P s a (snd ai) = Some t.
Proof.
  unfold sim_applicable_actions. rewrite filter_In. split.
  - intros [H1 H2]. split; [exact H1|].
    destruct (lookup_action P (fst ai)) as [a|]; [|discriminate]. exists a. split; [reflexivity|].
    rewrite is_applicable_iff_apply in H2. destruct (sim_apply sc P s a (snd ai)) as [t|]; [eauto | discriminate].
  - intros [H1 [a [Ha [t Ht]]]]. split; [exact H1|]. rewrite Ha, is_applicable_iff_apply, Ht. reflexivity.
Qed.

(* a simulator query is a function of (problem, state, query) only: any interleaving of queries gives each query the
   answer it would get alone, and the state passed in is not an output of any query *)
Inductive query := QApplicable (aid : N) (args : list value) | QApply (aid : N) (args : list value) | QGoal | QUnsatGoals.
Inductive answer := ABool (b : bool) | AState (o : option (list (option value))) | ANat (n : nat).

Definition answer_of (sc : bool) (P : problem) (keys : list (N * list value)) (s : state) (q : query) : answer :=
  match q with
  | QApplicable aid args =>
      ABool (match lookup_action P aid with Some a => sim_is_applicable sc P s a args | None => false end)
  | QApply aid args =>
      AState (match lookup_action P aid with
              | Some a => option_map (fun t => map (fun k => t (fst k) (snd k)) keys) (sim_apply sc P s a args)
              | None => None end)
  | QGoal => ABool (sim_is_goal sc P s)
  | QUnsatGoals => ANat (length (sim_unsat_goals sc P s))
  end.

Definition run_queries (sc : bool) (P : problem) (keys : list (N * list value)) (qs : list (state * query)) : list answer :=
  map (fun sq => answer_of sc P keys (fst sq) (snd sq)) qs.

Theorem queries_pure sc P keys qs1 sq qs2 :
  nth_error (run_queries sc P keys (qs1 ++ sq :: qs2)) (length qs1) = Some (answer_of sc P keys (fst sq) (snd sq)).
Proof.
  unfold run_queries. rewrite map_app. simpl.
  rewrite nth_error_app2 by (rewrite map_length; apply le_n).
  rewrite map_length, Nat.sub_diag. reflexivity.
Qed.
