(* C08, Layer A — well-formedness PRESERVATION by the Layer A compiler models, for all problems.
   Definitions: Compilers/LayerA_Wf.v; statements: Props/C08_la.v.
   Sections: generic lemmas about [wfx] (weakening, the manager's constructors, substitution of variables by objects,
   quantifier expansion, parameter substitution); then one block per compiler, in the order state-invariants remover,
   bounded-types remover, quantifiers remover, (names of split / ground actions), conditional-effects remover,
   disjunctive-conditions remover, grounder, negative-conditions remover. *)
From Coq Require Import List ZArith NArith QArith Qcanon Bool Lia.
Import ListNotations.
Require Import UPV.Core.Expr UPV.Core.Eval UPV.Core.Interp UPV.Planning.Problem UPV.Planning.Sem UPV.Planning.Ground.
Require Import UPV.Walkers.Subst.
Require Import UPV.Proofs.Eval_lemmas UPV.Proofs.Simplify_base.
Require Import UPV.Compilers.Variants UPV.Compilers.LayerA_Defs UPV.Compilers.LayerA_Quant UPV.Compilers.LayerA_Inv
  UPV.Compilers.LayerA_Variants UPV.Compilers.LayerA_Ground UPV.Compilers.LayerA_Neg UPV.Compilers.LayerA_Wf.

(* ------------------------------------------------------------------ lists, lookups *)
Lemma lookupN_app {A} k (l1 l2 : list (N * A)) :
  lookupN k (l1 ++ l2) = match lookupN k l1 with Some v => Some v | None => lookupN k l2 end.
Proof.
  induction l1 as [|[k' v] l1 IH]; [reflexivity|]. cbn [app lookupN]. destruct (k =? k')%N; [reflexivity|exact IH].
Qed.

Lemma lookupN_none_mem {A} k (l : list (N * A)) : lookupN k l = None -> memN k (map fst l) = false.
Proof.
  induction l as [|[k' v] l IH]; [reflexivity|]. cbn [lookupN map fst]. unfold memN. cbn [existsb].
  destruct (k =? k')%N; [discriminate|]. intros H. apply IH in H. exact H.
Qed.

Lemma nodupN_iff l : nodupN l = true <-> NoDup l.
Proof.
  induction l as [|x l IH]; [split; [constructor|reflexivity]|]. cbn [nodupN]. rewrite andb_true_iff, negb_true_iff, IH.
  rewrite memN_false. split; [intros [H1 H2]; constructor; assumption | intros H; inversion H; auto].
Qed.

Lemma forallb_imp {A} (p q : A -> bool) l : (forall x, In x l -> p x = true -> q x = true) -> forallb p l = true -> forallb q l = true.
Proof. intros H. rewrite !forallb_forall. intros Hp x Hx. apply H; auto. Qed.

(* ------------------------------------------------------------------ weakening *)
Definition dle (D D' : denv) : Prop :=
  (forall f n, d_fl D f n = true -> d_fl D' f n = true) /\ (forall o, d_obj D o = true -> d_obj D' o = true) /\
  (forall t, d_ty D t = true -> d_ty D' t = true).

Lemma dle_refl D : dle D D. Proof. repeat split; auto. Qed.

Ltac splitb := repeat match goal with
  | H : _ && _ = true |- _ => apply andb_true_iff in H; destruct H
  | |- _ && _ = true => apply andb_true_iff; split end.

Lemma wfx_weaken D D' ps ps' : dle D D' -> (forall p, memN p ps = true -> memN p ps' = true) ->
  forall e B B', wfx D ps B e = true -> (forall v ty, In v (free_vars e) -> lookupN v B = Some ty -> lookupN v B' = Some ty) ->
  wfx D' ps' B' e = true.
Proof.
  intros [Hf [Ho Ht]] Hp.
  assert (HL : forall l B B', Forall (fun e => forall B B', wfx D ps B e = true ->
                 (forall v ty, In v (free_vars e) -> lookupN v B = Some ty -> lookupN v B' = Some ty) -> wfx D' ps' B' e = true) l ->
               forallb (wfx D ps B) l = true -> (forall v ty, In v (fvl l) -> lookupN v B = Some ty -> lookupN v B' = Some ty) ->
               forallb (wfx D' ps' B') l = true).
  { intros l B B' IH H Hv. rewrite forallb_forall in *. rewrite Forall_forall in IH. intros x Hx.
    apply (IH x Hx B B'); [apply H; exact Hx|]. intros v ty Hi. apply Hv. apply in_fvl. eauto. }
  assert (HQ : forall vs a B B', (forall B B', wfx D ps B a = true ->
                 (forall v ty, In v (free_vars a) -> lookupN v B = Some ty -> lookupN v B' = Some ty) -> wfx D' ps' B' a = true) ->
               forallb (fun vt => d_ty D (snd vt)) vs && wfx D ps (vs ++ B) a = true ->
               (forall v ty, In v (filter (fun v => negb (memN v (map fst vs))) (free_vars a)) -> lookupN v B = Some ty -> lookupN v B' = Some ty) ->
               forallb (fun vt => d_ty D' (snd vt)) vs && wfx D' ps' (vs ++ B') a = true).
  { intros vs a B B' IH H Hv. splitb.
    - revert H. apply forallb_imp. intros x _. apply Ht.
    - apply (IH (vs ++ B)); [assumption|]. intros v ty Hi. rewrite !lookupN_app.
      destruct (lookupN v vs) eqn:E; [auto|]. apply Hv. apply filter_In. split; [exact Hi|].
      rewrite (lookupN_none_mem _ _ E). reflexivity. }
  induction e using expr_ind'; intros B B' Hw Hv;
    try rewrite fv_EFluent in Hv; try rewrite fv_EIFun in Hv; try rewrite fv_EAnd in Hv; try rewrite fv_EOr in Hv;
    try rewrite fv_EPlus in Hv; try rewrite fv_ETimes in Hv;
    cbn [wfx] in *; try reflexivity; auto;
    try (splitb; eauto using in_or_app; fail).
  all: try (eapply HL; eauto; fail).
  all: try (eapply HQ; eauto; fail).
  - (* EVar *) splitb; [auto|]. destruct (lookupN v B) eqn:E; [|discriminate].
    rewrite (Hv v n); [assumption | left; reflexivity | exact E].
Qed.

Lemma wfx_mono D ps B B' e : wfx D ps B e = true ->
  (forall v ty, lookupN v B = Some ty -> lookupN v B' = Some ty) -> wfx D ps B' e = true.
Proof. intros H Hv. eapply wfx_weaken; eauto using dle_refl. Qed.

Lemma wfx_dle D D' ps B e : dle D D' -> wfx D ps B e = true -> wfx D' ps B e = true.
Proof. intros H Hw. eapply wfx_weaken; eauto. Qed.

(* ------------------------------------------------------------------ the manager's constructors *)
Lemma wfx_mkAnd D ps B l : forallb (wfx D ps B) l = true -> wfx D ps B (mkAnd l) = true.
Proof. destruct l as [|x [|y l]]; cbn [mkAnd forallb wfx]; intros H; auto. rewrite andb_true_r in H. exact H. Qed.
Lemma wfx_mkOr D ps B l : forallb (wfx D ps B) l = true -> wfx D ps B (mkOr l) = true.
Proof. destruct l as [|x [|y l]]; cbn [mkOr forallb wfx]; intros H; auto. rewrite andb_true_r in H. exact H. Qed.
Lemma wfx_mkPlus D ps B l : forallb (wfx D ps B) l = true -> wfx D ps B (mkPlus l) = true.
Proof. destruct l as [|x [|y l]]; cbn [mkPlus forallb wfx]; intros H; auto. rewrite andb_true_r in H. exact H. Qed.
Lemma wfx_mkTimes D ps B l : forallb (wfx D ps B) l = true -> wfx D ps B (mkTimes l) = true.
Proof. destruct l as [|x [|y l]]; cbn [mkTimes forallb wfx]; intros H; auto. rewrite andb_true_r in H. exact H. Qed.
Lemma wfx_mkNot D ps B e : wfx D ps B e = true -> wfx D ps B (mkNot e) = true.
Proof. destruct e; cbn [mkNot wfx]; auto. Qed.
Lemma wfx_mkAnd_inv D ps B l : wfx D ps B (mkAnd l) = true -> forallb (wfx D ps B) l = true.
Proof. destruct l as [|x [|y l]]; cbn [mkAnd forallb wfx]; intros H; auto. rewrite H. reflexivity. Qed.

Lemma forallb_map {A B} (p : B -> bool) (g : A -> B) l : forallb p (map g l) = forallb (fun x => p (g x)) l.
Proof. induction l as [|x l IH]; [reflexivity|]. cbn [map forallb]. rewrite IH. reflexivity. Qed.

(* ------------------------------------------------------------------ substitution of variables by objects *)
Definition omap_ok (D : denv) (s : smap) : Prop := forall k v, In (k, v) s -> exists o, v = EObj o /\ d_obj D o = true.

Definition covered (s : smap) (B B' : list (N * N)) : Prop :=
  forall v ty, lookupN v B = Some ty -> lookup s (EVar v ty) <> None \/ lookupN v B' = Some ty.

Lemma lookup_In s e v : lookup s e = Some v -> In (e, v) s.
Proof.
  induction s as [|[k w] s IH]; [discriminate|]. cbn [lookup]. destruct (expr_eqb k e) eqn:E.
  - intros H. inversion H; subst. apply expr_eqb_eq in E. subst. left; reflexivity.
  - intros H. right. auto.
Qed.

Lemma lookup_filter s e x (p : expr * expr -> bool) :
  lookup s e = Some x -> (forall v, p (e, v) = true) -> lookup (filter p s) e = Some x.
Proof.
  induction s as [|[k w] s IH]; [discriminate|]. cbn [lookup filter]. intros H Hp. destruct (expr_eqb k e) eqn:E.
  - apply expr_eqb_eq in E. subst. rewrite Hp. cbn [lookup]. rewrite expr_eqb_refl. exact H.
  - destruct (p (k, w)); [cbn [lookup]; rewrite E|]; auto.
Qed.

Lemma omap_filter D s vs : omap_ok D s -> omap_ok D (filter_map s vs).
Proof. intros H k v Hi. apply filter_In in Hi. apply (H k v). apply Hi. Qed.

Lemma covered_under s B B' vs : covered s B B' -> covered (filter_map s vs) (vs ++ B) (vs ++ B').
Proof.
  intros H v ty. rewrite !lookupN_app. destruct (lookupN v vs) eqn:E; [auto|]. intros HB.
  destruct (H v ty HB) as [Hl|Hr]; [left|right; exact Hr].
  destruct (lookup s (EVar v ty)) eqn:EL; [|congruence].
  unfold filter_map. erewrite lookup_filter; [discriminate|exact EL|].
  intros w. unfold key_kept. cbn [fst free_vars forallb]. rewrite (lookupN_none_mem _ _ E). reflexivity.
Qed.

Lemma covered_nil B B' : covered [] B B' -> forall v ty, lookupN v B = Some ty -> lookupN v B' = Some ty.
Proof. intros H v ty Hv. destruct (H v ty Hv) as [Hl|Hr]; [exfalso; apply Hl; reflexivity|exact Hr]. Qed.

Lemma wfx_walk D ps : forall e s B B', omap_ok D s -> covered s B B' -> wfx D ps B e = true ->
  wfx D ps B' (walk s e) = true.
Proof.
  assert (HL : forall l s B B', Forall (fun e => forall s B B', omap_ok D s -> covered s B B' -> wfx D ps B e = true ->
                   wfx D ps B' (walk s e) = true) l -> omap_ok D s -> covered s B B' ->
                 forallb (wfx D ps B) l = true -> forallb (wfx D ps B') (map (walk s) l) = true).
  { intros l s B B' IH Hs Hc H. rewrite forallb_map. rewrite forallb_forall in *. rewrite Forall_forall in IH.
    intros x Hx. apply (IH x Hx s B B'); auto. }
  assert (HQ : forall vs a s B B', (forall s B B', omap_ok D s -> covered s B B' -> wfx D ps B a = true ->
                   wfx D ps B' (walk s a) = true) -> omap_ok D s -> covered s B B' ->
                 wfx D ps (vs ++ B) a = true ->
                 wfx D ps (vs ++ B') (match filter_map s vs with [] => a | s' => walk s' a end) = true).
  { intros vs a s B B' IH Hs Hc H. pose proof (covered_under s B B' vs Hc) as Hc'.
    pose proof (omap_filter D s vs Hs) as Hs'. destruct (filter_map s vs) eqn:E.
    - eapply wfx_mono; [exact H|]. apply covered_nil. exact Hc'.
    - apply (IH _ (vs ++ B)); assumption. }
  induction e using expr_ind'; intros s B B' Hs Hc Hw; cbn [walk]; unfold replace_or_identity;
    match goal with |- context [lookup s ?x] => destruct (lookup s x) eqn:EL end;
    try (apply lookup_In in EL; destruct (Hs _ _ EL) as [oo [-> Ho]]; cbn [wfx]; exact Ho);
    cbn [wfx] in *; try reflexivity; auto;
    try (splitb; eauto; fail).
  all: try (first [apply wfx_mkAnd | apply wfx_mkOr | apply wfx_mkPlus | apply wfx_mkTimes | apply wfx_mkNot]; eauto; fail).
  all: try (splitb; [rewrite ?map_length; auto | eauto]; fail).
  all: try (splitb; [auto | eapply HQ; eauto]; fail).
  - (* EVar *) splitb; [auto|]. destruct (lookupN v B) eqn:E; [|discriminate]. apply N.eqb_eq in H0. subst n.
    destruct (Hc v t E) as [Hl|Hr]; [congruence|]. rewrite Hr. apply N.eqb_refl.
Qed.

Lemma wfx_substitute D ps s B B' e : omap_ok D s -> covered s B B' -> wfx D ps B e = true ->
  wfx D ps B' (substitute s e) = true.
Proof.
  intros Hs Hc H. destruct s as [|p s]; cbn [substitute].
  - eapply wfx_mono; [exact H|]. apply covered_nil. exact Hc.
  - apply wfx_walk with (B := B); assumption.
Qed.

Lemma obj_tuples_len ob vs : forall os, In os (obj_tuples ob vs) -> List.length os = List.length vs.
Proof.
  induction vs as [|[v t] vs IH]; cbn [obj_tuples]; intros os H.
  - destruct H as [<-|[]]. reflexivity.
  - apply in_flat_map in H. destruct H as [o [_ H]]. apply in_map_iff in H. destruct H as [os' [<- H]].
    cbn [List.length]. f_equal. auto.
Qed.

Lemma zip_subs_omap D ob vs : objs_declared D ob -> forall os, In os (obj_tuples ob vs) -> omap_ok D (zip_subs vs os).
Proof.
  intros Hob. induction vs as [|[v t] vs IH]; cbn [obj_tuples]; intros os H.
  - destruct H as [<-|[]]. intros k w [].
  - apply in_flat_map in H. destruct H as [o [Ho H]]. apply in_map_iff in H. destruct H as [os' [<- H]].
    cbn [zip_subs]. intros k w [E|Hi].
    + inversion E; subst. exists o. split; [reflexivity|]. eapply Hob; eauto.
    + eapply IH; eauto.
Qed.

Lemma zip_subs_covered vs : forall os B, List.length os = List.length vs -> covered (zip_subs vs os) (vs ++ B) B.
Proof.
  induction vs as [|[w t] vs IH]; intros [|o os] B Hl; try discriminate.
  - intros v ty H. right. exact H.
  - cbn [List.length] in Hl. injection Hl as Hl. intros v ty. cbn [app lookupN zip_subs lookup expr_eqb].
    rewrite (N.eqb_sym w v). destruct (v =? w)%N eqn:E.
    + intros H. inversion H; subst. rewrite N.eqb_refl. left. cbn. discriminate.
    + cbn [andb]. apply IH. exact Hl.
Qed.

(* ------------------------------------------------------------------ the quantifier expansion *)
Lemma wfx_expand D ps ob : objs_declared D ob -> forall e B, wfx D ps B e = true -> wfx D ps B (expand ob e) = true.
Proof.
  intros Hob.
  assert (HL : forall l B, Forall (fun e => forall B, wfx D ps B e = true -> wfx D ps B (expand ob e) = true) l ->
                 forallb (wfx D ps B) l = true -> forallb (wfx D ps B) (map (expand ob) l) = true).
  { intros l B IH H. rewrite forallb_map. rewrite forallb_forall in *. rewrite Forall_forall in IH. auto. }
  assert (HQ : forall vs a B, (forall B, wfx D ps B a = true -> wfx D ps B (expand ob a) = true) ->
                 wfx D ps (vs ++ B) a = true ->
                 forallb (wfx D ps B) (map (fun os => substitute (zip_subs vs os) (expand ob a)) (obj_tuples ob vs)) = true).
  { intros vs a B IH H. rewrite forallb_map. apply forallb_forall. intros os Hos.
    apply wfx_substitute with (B := vs ++ B); [eapply zip_subs_omap; eauto | | auto].
    apply zip_subs_covered. eapply obj_tuples_len; eauto. }
  induction e using expr_ind'; intros B Hw; cbn [expand]; cbn [wfx] in *; try reflexivity; auto;
    try (splitb; eauto; fail).
  all: try (first [apply wfx_mkAnd | apply wfx_mkOr | apply wfx_mkPlus | apply wfx_mkTimes | apply wfx_mkNot]; eauto; fail).
  all: try (splitb; [rewrite ?map_length; auto | eauto]; fail).
  all: try (splitb; first [apply wfx_mkOr | apply wfx_mkAnd]; eauto; fail).
Qed.

(* no quantifier after the expansion, without any side condition *)
Lemma qf_mkAnd' l : forallb qf l = true -> qf (mkAnd l) = true.
Proof. destruct l as [|x [|y l]]; cbn [mkAnd forallb qf]; intros H; auto. rewrite andb_true_r in H. exact H. Qed.
Lemma qf_mkOr' l : forallb qf l = true -> qf (mkOr l) = true.
Proof. destruct l as [|x [|y l]]; cbn [mkOr forallb qf]; intros H; auto. rewrite andb_true_r in H. exact H. Qed.
Lemma qf_mkPlus' l : forallb qf l = true -> qf (mkPlus l) = true.
Proof. destruct l as [|x [|y l]]; cbn [mkPlus forallb qf]; intros H; auto. rewrite andb_true_r in H. exact H. Qed.
Lemma qf_mkTimes' l : forallb qf l = true -> qf (mkTimes l) = true.
Proof. destruct l as [|x [|y l]]; cbn [mkTimes forallb qf]; intros H; auto. rewrite andb_true_r in H. exact H. Qed.
Lemma qf_mkNot' e : qf e = true -> qf (mkNot e) = true.
Proof. destruct e; cbn [mkNot qf]; auto. Qed.

Definition objvals (s : smap) : Prop := forall k v, In (k, v) s -> exists o, v = EObj o.

Lemma qf_walk : forall e s, objvals s -> qf e = true -> qf (walk s e) = true.
Proof.
  assert (HL : forall l s, Forall (fun e => forall s, objvals s -> qf e = true -> qf (walk s e) = true) l -> objvals s ->
                 forallb qf l = true -> forallb qf (map (walk s) l) = true).
  { intros l s IH Hs H. rewrite forallb_map. rewrite forallb_forall in *. rewrite Forall_forall in IH. auto. }
  induction e using expr_ind'; intros s Hs Hw; cbn [walk]; unfold replace_or_identity;
    match goal with |- context [lookup s ?x] => destruct (lookup s x) eqn:EL end;
    try (apply lookup_In in EL; destruct (Hs _ _ EL) as [oo ->]; reflexivity);
    cbn [qf] in *; try reflexivity; try discriminate; auto;
    try (splitb; eauto; fail).
  all: try (first [apply qf_mkAnd' | apply qf_mkOr' | apply qf_mkPlus' | apply qf_mkTimes' | apply qf_mkNot']; eauto; fail).
Qed.

Lemma qf_substitute s e : objvals s -> qf e = true -> qf (substitute s e) = true.
Proof. intros Hs H. destruct s; [exact H|]. apply qf_walk; assumption. Qed.

Lemma zip_subs_objvals vs : forall os, objvals (zip_subs vs os).
Proof.
  induction vs as [|[v t] vs IH]; intros [|o os] k w H; cbn [zip_subs] in H; try (destruct H; fail).
  destruct H as [E|H]; [inversion E; eauto | eapply IH; eauto].
Qed.

Lemma qf_expand' ob : forall e, qf (expand ob e) = true.
Proof.
  assert (HL : forall l, Forall (fun e => qf (expand ob e) = true) l -> forallb qf (map (expand ob) l) = true).
  { intros l IH. rewrite forallb_map. rewrite forallb_forall. rewrite Forall_forall in IH. auto. }
  assert (HQ : forall vs a, qf (expand ob a) = true ->
                 forallb qf (map (fun os => substitute (zip_subs vs os) (expand ob a)) (obj_tuples ob vs)) = true).
  { intros vs a IH. rewrite forallb_map. apply forallb_forall. intros os _. apply qf_substitute; [apply zip_subs_objvals|exact IH]. }
  induction e using expr_ind'; cbn [expand]; cbn [qf]; try reflexivity; auto;
    try (splitb; eauto; fail).
  all: try (first [apply qf_mkAnd' | apply qf_mkOr' | apply qf_mkPlus' | apply qf_mkTimes' | apply qf_mkNot']; eauto; fail).
Qed.

(* ------------------------------------------------------------------ substitution of parameters by values *)
Definition val_ok (D : denv) (v : value) : bool := match v with VObj o => d_obj D o | _ => true end.

Definition sg_ok (D : denv) (ps : list N) (sg : list (N * value)) : Prop :=
  forall p, memN p ps = true -> exists v, lookupN p sg = Some v /\ val_ok D v = true.

Lemma wfx_value_expr D ps B v : val_ok D v = true -> wfx D ps B (value_expr v) = true.
Proof. destruct v; cbn [value_expr val_ok wfx]; auto. unfold num_node. destruct (_ =? _)%Z; reflexivity. Qed.

Lemma wfx_psubst D ps sg : sg_ok D ps sg -> forall e B, wfx D ps B e = true -> wfx D [] B (psubst sg e) = true.
Proof.
  intros Hsg.
  assert (HL : forall l B, Forall (fun e => forall B, wfx D ps B e = true -> wfx D [] B (psubst sg e) = true) l ->
                 forallb (wfx D ps B) l = true -> forallb (wfx D [] B) (map (psubst sg) l) = true).
  { intros l B IH H. rewrite forallb_map. rewrite forallb_forall in *. rewrite Forall_forall in IH. auto. }
  induction e using expr_ind'; intros B Hw; cbn [psubst]; cbn [wfx] in *; try reflexivity; auto;
    try (splitb; eauto; fail).
  all: try (splitb; [rewrite ?map_length; auto | eauto]; fail).
  - destruct (Hsg p Hw) as [v [-> Hv]]. apply wfx_value_expr. exact Hv.
Qed.

(* ================================================================== problem level: shared *)
Lemma wf_problem_iff P : wf_problem P = true <->
  wf_ids P = true /\ wf_fluents P = true /\ wf_actions P = true /\ wf_top P = true.
Proof. unfold wf_problem. rewrite !andb_true_iff. tauto. Qed.

Lemma wf_la_code_zero P : wf_la_code P = 0%N <-> wf_problem P = true.
Proof.
  unfold wf_la_code, wf_problem.
  destruct (wf_ids P), (wf_fluents P), (wf_actions P), (wf_top P); cbn; split; intros H; try reflexivity; discriminate.
Qed.

Lemma in_map_actions q l i a' : In (i, a') (map_actions q l) -> exists a, In (i, a) l /\ q a = Some a'.
Proof.
  unfold map_actions. rewrite in_flat_map. intros [[j a] [Hin H]]. cbn [fst snd] in H.
  destruct (q a) eqn:E; [|destruct H]. destruct H as [H|[]]. inversion H; subst. eauto.
Qed.

Lemma map_actions_nodup q l : NoDup (map fst l) -> NoDup (map fst (map_actions q l)).
Proof.
  induction l as [|[i a] l IH]; [constructor|]. cbn [map fst]. intros H. inversion H as [|? ? Hn Hd]; subst.
  unfold map_actions. cbn [flat_map fst snd]. fold (map_actions q l). destruct (q a); cbn [app map fst]; [|auto].
  constructor; [|auto]. intros Hi. apply Hn. apply in_map_iff in Hi. destruct Hi as [[j b] [E Hi]]. cbn [fst] in E. subst j.
  apply in_map_actions in Hi. destruct Hi as [a1 [Hi _]]. apply in_map_iff. exists (i, a1). auto.
Qed.

Lemma fold_add_pre_in l : forall acc x, In x (fold_left add_pre l acc) -> In x acc \/ In x l.
Proof.
  induction l as [|p l IH]; intros acc x H; cbn [fold_left] in H; [left; exact H|].
  apply IH in H. destruct H as [H|H]; [|right; right; exact H]. unfold add_pre in H.
  destruct (is_true p || existsb (expr_eqb p) acc); [left; exact H|]. apply in_app_or in H.
  destruct H as [H|[H|[]]]; [left; exact H|right; left; exact H].
Qed.

Lemma add_pres_in l x : In x (add_pres l) -> In x l.
Proof. intros H. apply fold_add_pre_in in H. destruct H as [[]|H]. exact H. Qed.

Lemma forallb_add_pres (q : expr -> bool) l : forallb q l = true -> forallb q (add_pres l) = true.
Proof. rewrite !forallb_forall. intros H x Hx. apply H. apply add_pres_in. exact Hx. Qed.

Lemma forallb_add_goals (q : expr -> bool) l : forallb q l = true -> forallb q (add_goals l) = true.
Proof. rewrite !forallb_forall. intros H x Hx. apply H. unfold add_goals in Hx. apply filter_In in Hx. apply Hx. Qed.

Lemma forallb_filter {A} (q p : A -> bool) l : forallb q l = true -> forallb q (filter p l) = true.
Proof. rewrite !forallb_forall. intros H x Hx. apply H. apply filter_In in Hx. apply Hx. Qed.

Lemma wfx_conj_parts D ps B c : wfx D ps B c = true -> forallb (wfx D ps B) (conj_parts c) = true.
Proof. destruct c; cbn [conj_parts forallb]; intros H; rewrite ?H; auto. Qed.

Lemma forallb_app_iff {A} (q : A -> bool) l1 l2 : forallb q (l1 ++ l2) = true <-> forallb q l1 = true /\ forallb q l2 = true.
Proof. rewrite forallb_app, andb_true_iff. tauto. Qed.

Lemma wfx_open D ps e : wfx D [] [] e = true -> wfx D ps [] e = true.
Proof. intros H. apply (wfx_weaken D D [] ps (dle_refl D)) with (B := []); [intros p Hp; discriminate | exact H | auto]. Qed.

(* the objects listed for a type are declared *)
Lemma objs_of_declared P : objs_declared (denv_of P) (objs_of P).
Proof.
  intros t o H. unfold objs_of in H. destruct (lookupN t (p_objs P)) eqn:E; [|destruct H].
  cbn [denv_of d_obj]. unfold decl_obj. apply existsb_exists. exists (t, l). split.
  - clear H. induction (p_objs P) as [|[k v] r IH]; [discriminate|]. cbn [lookupN] in E.
    destruct (t =? k)%N eqn:Ek; [apply N.eqb_eq in Ek; inversion E; subst; left; reflexivity | right; auto].
  - cbn [snd]. apply memN_In. exact H.
Qed.

Lemma decl_fl_in fls fd : In fd fls -> decl_fl fls (fd_id fd) (List.length (fd_sig fd)) = true.
Proof. intros H. unfold decl_fl. apply existsb_exists. exists fd. rewrite N.eqb_refl, Nat.eqb_refl. auto. Qed.

Lemma wf_effect_dle D D' ps e : dle D D' -> wf_effect D ps e = true -> wf_effect D' ps e = true.
Proof.
  intros Hd. pose proof Hd as [Hf [Ho Ht]]. unfold wf_effect. rewrite !andb_true_iff. intros [[[[H1 H2] H3] H4] H5].
  repeat split.
  - auto.
  - revert H2. apply forallb_imp. intros x _. apply Ht.
  - revert H3. apply forallb_imp. intros x _. apply wfx_dle. exact Hd.
  - eapply wfx_dle; eauto.
  - eapply wfx_dle; eauto.
Qed.

Lemma wf_action_dle D D' a : dle D D' -> wf_action D a = true -> wf_action D' a = true.
Proof.
  intros Hd. unfold wf_action. rewrite !andb_true_iff. intros [[H1 H2] H3]. repeat split.
  - exact H1.
  - revert H2. apply forallb_imp. intros x _. apply wfx_dle. exact Hd.
  - revert H3. apply forallb_imp. intros x _. apply wf_effect_dle. exact Hd.
Qed.

(* ================================================================== StateInvariantsRemover / BoundedTypesRemover *)
Section Inv.
  Variable smp : expr -> expr.
  Variable D : denv.
  Hypothesis Hsmp : keeps_wf D smp.

  Lemma inv_action_wf cond a a' : wfx D [] [] cond = true -> wf_action D a = true ->
    inv_action smp cond a = Some a' -> wf_action D a' = true.
  Proof.
    intros Hc Ha. unfold inv_action. destruct (is_false _); [discriminate|]. intros E. inversion E; subst; clear E.
    unfold wf_action in *. cbn [a_params a_pre a_effs]. splitb; auto.
    apply forallb_add_pres. apply wfx_conj_parts. apply Hsmp. apply wfx_mkAnd. apply forallb_app_iff. split; [assumption|].
    cbn [forallb]. rewrite wfx_open by exact Hc. reflexivity.
  Qed.

  Lemma inv_goals_wf cond goals : wfx D [] [] cond = true -> forallb (wfx D [] []) goals = true ->
    forallb (wfx D [] []) (inv_goals smp cond goals) = true.
  Proof.
    intros Hc Hg. unfold inv_goals. apply forallb_add_goals. apply wfx_conj_parts. apply Hsmp. apply wfx_mkAnd.
    apply forallb_app_iff. split; [assumption|]. cbn [forallb]. rewrite Hc. reflexivity.
  Qed.

  Lemma inv_actions_wf cond l : wfx D [] [] cond = true ->
    forallb (fun ia => wf_action D (snd ia)) l = true ->
    forallb (fun ia => wf_action D (snd ia)) (map_actions (inv_action smp cond) l) = true.
  Proof.
    intros Hc. rewrite !forallb_forall. intros H [i a'] Hi. apply in_map_actions in Hi. destruct Hi as [a [Hi E]].
    cbn [snd]. eapply inv_action_wf; [exact Hc | exact (H (i, a) Hi) | exact E].
  Qed.
End Inv.

Theorem sir_wf smp P : keeps_wf (denv_of P) smp -> wf_problem P = true ->
  wf_problem (sir_compile smp P) = true /\ no_invariants (sir_compile smp P) = true.
Proof.
  intros Hs H. split; [|reflexivity]. apply wf_problem_iff in H. destruct H as [Hi [Hf [Ha Ht]]]. apply wf_problem_iff.
  unfold wf_ids, wf_fluents, wf_actions, wf_top in *. change (denv_of (sir_compile smp P)) with (denv_of P).
  cbn [sir_compile p_actions p_fluents p_objs p_goals p_invs]. splitb; auto.
  assert (Hc : wfx (denv_of P) [] [] (sir_cond smp P) = true) by (apply Hs; apply wfx_mkAnd; assumption).
  repeat split; auto.
  - splitb; auto. apply nodupN_iff. apply map_actions_nodup. apply nodupN_iff. assumption.
  - apply inv_actions_wf; auto.
  - splitb; auto. apply inv_goals_wf; auto.
Qed.

(* ---- BoundedTypesRemover *)
Lemma arg_tuples_ok P sig : forall a, In a (arg_tuples P sig) ->
  List.length a = List.length sig /\ forallb (wfx (denv_of P) [] []) (map value_expr a) = true.
Proof.
  induction sig as [|t sig IH]; cbn [arg_tuples]; intros a H.
  - destruct H as [<-|[]]. split; reflexivity.
  - apply in_flat_map in H. destruct H as [o [Ho H]]. apply in_map_iff in H. destruct H as [tl [<- H]].
    destruct (IH tl H) as [Hl Hw]. split; [cbn [List.length]; congruence|]. cbn [map forallb value_expr wfx].
    rewrite (objs_of_declared P t o Ho). exact Hw.
Qed.

Lemma wfx_num_node D ps B q : wfx D ps B (num_node q) = true.
Proof. unfold num_node. destruct (_ =? _)%Z; reflexivity. Qed.

Lemma bound_invs_wf P : forallb (wfx (denv_of P) [] []) (bound_invs P) = true.
Proof.
  apply forallb_forall. intros x Hx. unfold bound_invs in Hx. apply in_flat_map in Hx. destruct Hx as [fd [Hfd Hx]].
  destruct (fd_ty fd) as [|lo hi|]; try destruct Hx. apply in_flat_map in Hx. destruct Hx as [a [Ha Hx]].
  destruct (arg_tuples_ok P _ a Ha) as [Hl Hw].
  assert (Hfe : wfx (denv_of P) [] [] (EFluent (fd_id fd) (map value_expr a)) = true).
  { cbn [wfx]. rewrite map_length, Hl. cbn [denv_of d_fl]. rewrite (decl_fl_in _ _ Hfd). exact Hw. }
  apply in_app_or in Hx. destruct Hx as [Hx|Hx]; [destruct lo|destruct hi]; try destruct Hx as [<-|[]]; try destruct Hx;
    cbn [wfx] in Hfe |- *; rewrite wfx_num_node; rewrite Hfe; reflexivity.
Qed.

Lemma decl_fl_unbound fls f n : decl_fl (map unbound fls) f n = decl_fl fls f n.
Proof. unfold decl_fl. induction fls as [|fd fls IH]; [reflexivity|]. cbn [map existsb]. rewrite IH. reflexivity. Qed.

Lemma btr_dle smp P : dle (denv_of P) (denv_of (btr_compile smp P)).
Proof. repeat split; auto. intros f n. cbn [denv_of d_fl btr_compile p_fluents]. rewrite decl_fl_unbound. auto. Qed.

Theorem btr_wf smp P : keeps_wf (denv_of P) smp -> wf_problem P = true ->
  wf_problem (btr_compile smp P) = true /\ no_bounded (btr_compile smp P) = true.
Proof.
  intros Hs H. split.
  2:{ unfold no_bounded. cbn [btr_compile p_fluents]. rewrite forallb_map. apply forallb_forall. intros fd _.
      unfold unbound. cbn [fd_ty]. destruct (fd_ty fd); reflexivity. }
  apply wf_problem_iff in H. destruct H as [Hi [Hf [Ha Ht]]]. apply wf_problem_iff.
  pose proof (btr_dle smp P) as Hd.
  assert (Hc : wfx (denv_of P) [] [] (btr_cond P) = true) by (apply wfx_mkAnd; apply bound_invs_wf).
  unfold wf_ids, wf_fluents, wf_actions, wf_top in *.
  repeat split.
  - cbn [btr_compile p_actions p_fluents p_objs]. splitb; auto.
    + apply nodupN_iff. apply map_actions_nodup. apply nodupN_iff. assumption.
    + rewrite map_map. cbn [unbound fd_id]. assumption.
  - cbn [btr_compile p_fluents]. rewrite forallb_map. revert Hf. apply forallb_imp. intros fd _ Hfd.
    unfold wf_fdecl in *. cbn [unbound fd_sig fd_ty]. cbn [denv_of d_ty btr_compile p_objs] in *.
    destruct (fd_ty fd); auto.
  - cbn [btr_compile p_actions].
    assert (H1 : forallb (fun ia => wf_action (denv_of P) (snd ia)) (map_actions (inv_action smp (btr_cond P)) (p_actions P)) = true)
      by (apply inv_actions_wf; auto).
    revert H1. apply forallb_imp. intros [i a] _. cbn [snd]. apply wf_action_dle. exact Hd.
  - cbn [btr_compile p_goals p_invs]. apply andb_true_iff in Ht. destruct Ht as [Hg Hv]. apply andb_true_iff. split.
    + assert (H1 : forallb (wfx (denv_of P) [] []) (inv_goals smp (btr_cond P) (p_goals P)) = true) by (apply inv_goals_wf; auto).
      revert H1. apply forallb_imp. intros x _. apply wfx_dle. exact Hd.
    + revert Hv. apply forallb_imp. intros x _. apply wfx_dle. exact Hd.
Qed.

(* ================================================================== QuantifiersRemover *)
Lemma is_true_eq e : is_true e = true -> e = EBool true.
Proof. destruct e; try discriminate. destruct b; [reflexivity|discriminate]. Qed.

Section Quant.
  Variable smp : expr -> expr.
  Variable P : problem.
  Let D := denv_of P.
  Hypothesis Hsmp : keeps_wf D smp.

  Lemma expand_effect_wf ps e e' : wf_effect D ps e = true -> In e' (expand_effect P e) ->
    wf_effect D ps e' = true /\ e_vars e' = [].
  Proof.
    intros Hw Hi. unfold expand_effect in Hi. destruct (e_vars e) as [|vt vs0] eqn:Ev.
    - destruct Hi as [<-|[]]. auto.
    - rewrite <- Ev in Hi. apply in_map_iff in Hi. destruct Hi as [os [<- Hos]]. split; [|reflexivity].
      unfold wf_effect in *. apply andb_true_iff in Hw. destruct Hw as [Hw H5]. apply andb_true_iff in Hw. destruct Hw as [Hw H4].
      apply andb_true_iff in Hw. destruct Hw as [Hw H3]. apply andb_true_iff in Hw. destruct Hw as [H1 H2].
      assert (Hsub : forall x, wfx D ps (e_vars e) x = true -> wfx D ps [] (substitute (zip_subs (e_vars e) os) x) = true).
      { intros x Hx. apply wfx_substitute with (B := e_vars e ++ []).
        - eapply zip_subs_omap; [apply objs_of_declared|exact Hos].
        - apply zip_subs_covered. eapply obj_tuples_len; eauto.
        - rewrite app_nil_r. exact Hx. }
      cbn [set_cv e_fl e_args e_val e_cond e_vars forallb]. rewrite map_length, H1. cbn [andb].
      rewrite forallb_map. rewrite (Hsub _ H4), (Hsub _ H5), !andb_true_r.
      revert H3. apply forallb_imp. intros x _. apply Hsub.
  Qed.

  Lemma q_effect1_wf ps e e' : wf_effect D ps e = true -> In e' (q_effect1 smp P e) ->
    wf_effect D ps e' = true /\ e_vars e' = e_vars e /\ (keeps qf smp -> qf (e_cond e') = true) /\ qf (e_val e') = true.
  Proof.
    intros Hw Hi. unfold q_effect1 in Hi.
    set (c := if is_uncond e then e_cond e else smp (expand (objs_of P) (e_cond e))) in *.
    destruct (is_false c); [destruct Hi|]. destruct Hi as [<-|[]].
    unfold wf_effect in *. apply andb_true_iff in Hw. destruct Hw as [Hw H5]. apply andb_true_iff in Hw. destruct Hw as [Hw H4].
    apply andb_true_iff in Hw. destruct Hw as [Hw H3]. apply andb_true_iff in Hw. destruct Hw as [H1 H2].
    cbn [set_cv e_fl e_args e_val e_cond e_vars].
    assert (Hc : wfx D ps (e_vars e) c = true).
    { subst c. destruct (is_uncond e); [exact H5|]. apply Hsmp. apply wfx_expand; [apply objs_of_declared|exact H5]. }
    repeat split.
    - rewrite H1, H2, H3, Hc. rewrite (wfx_expand D ps (objs_of P) (objs_of_declared P) _ _ H4). reflexivity.
    - intros Hq. subst c. destruct (is_uncond e) eqn:Eu.
      + unfold is_uncond in Eu. apply is_true_eq in Eu. rewrite Eu. reflexivity.
      + apply Hq. apply qf_expand'.
    - apply qf_expand'.
  Qed.

  Lemma q_effects_wf ps effs e' : forallb (wf_effect D ps) effs = true -> In e' (q_effects smp P effs) ->
    wf_effect D ps e' = true /\ e_vars e' = [] /\ (keeps qf smp -> qf (e_cond e') = true) /\ qf (e_val e') = true.
  Proof.
    intros Hw Hi. unfold q_effects in Hi. apply in_flat_map in Hi. destruct Hi as [e [He Hi]].
    apply in_flat_map in Hi. destruct Hi as [e1 [He1 Hi]]. rewrite forallb_forall in Hw.
    destruct (expand_effect_wf ps e e1 (Hw e He) He1) as [Hw1 Hv1].
    destruct (q_effect1_wf ps e1 e' Hw1 Hi) as [Hw2 [Hv2 [Hc2 Hq2]]]. rewrite Hv1 in Hv2. auto.
  Qed.

  Lemma q_action_wf a a' : wf_action D a = true -> q_action smp P a = Some a' ->
    wf_action D a' = true /\ forallb qf (a_pre a') = true /\
    forallb (fun e => is_nil (e_vars e)) (a_effs a') = true /\
    (keeps qf smp -> forallb (fun e => qf (e_cond e) && qf (e_val e)) (a_effs a') = true).
  Proof.
    unfold wf_action, q_action. rewrite !andb_true_iff. intros [[H1 H2] H3]. destruct (add_effs_ok _ _ _); [|discriminate].
    intros E. inversion E; subst; clear E. cbn [a_params a_pre a_effs]. repeat split.
    - exact H1.
    - apply forallb_add_pres. rewrite forallb_map. revert H2. apply forallb_imp. intros x _.
      apply wfx_expand. apply objs_of_declared.
    - apply forallb_forall. intros e He. eapply q_effects_wf; eauto.
    - apply forallb_add_pres. rewrite forallb_map. apply forallb_forall. intros x _. apply qf_expand'.
    - apply forallb_forall. intros e He. destruct (q_effects_wf _ _ _ H3 He) as [_ [Hv _]]. rewrite Hv. reflexivity.
    - intros Hq. apply forallb_forall. intros e He. destruct (q_effects_wf _ _ _ H3 He) as [_ [_ [Hc Hv]]].
      rewrite (Hc Hq), Hv. reflexivity.
  Qed.

  Theorem quant_wf : wf_problem P = true ->
    wf_problem (quant_compile smp P) = true /\ (keeps qf smp -> quantifier_free (quant_compile smp P) = true).
  Proof.
    intros H. apply wf_problem_iff in H. destruct H as [Hi [Hf [Ha Ht]]].
    unfold wf_ids, wf_fluents, wf_actions, wf_top in *. fold D in Hf, Ha, Ht.
    apply andb_true_iff in Ht. destruct Ht as [Hg Hv].
    apply andb_true_iff in Hi. destruct Hi as [Hi Hi3]. apply andb_true_iff in Hi. destruct Hi as [Hi1 Hi2].
    assert (HA : forall i a', In (i, a') (map_actions (q_action smp P) (p_actions P)) ->
                   exists a, wf_action D a = true /\ q_action smp P a = Some a').
    { intros i a' Hin. apply in_map_actions in Hin. destruct Hin as [a [Hin E]]. exists a. split; [|exact E].
      rewrite forallb_forall in Ha. apply (Ha (i, a) Hin). }
    split.
    - apply wf_problem_iff. unfold wf_ids, wf_fluents, wf_actions, wf_top.
      change (denv_of (quant_compile smp P)) with D. cbn [quant_compile p_actions p_fluents p_objs p_goals p_invs].
      repeat split.
      + rewrite Hi2, Hi3, !andb_true_r. apply nodupN_iff. apply map_actions_nodup. apply nodupN_iff. exact Hi1.
      + exact Hf.
      + apply forallb_forall. intros [i a'] Hin. destruct (HA i a' Hin) as [a [Hw E]]. cbn [snd].
        eapply q_action_wf; eauto.
      + apply andb_true_iff. split.
        * apply forallb_add_goals. rewrite forallb_map. revert Hg. apply forallb_imp. intros x _.
          apply wfx_expand. apply objs_of_declared.
        * unfold q_invs. apply forallb_filter. rewrite forallb_map. revert Hv. apply forallb_imp. intros x _ Hx.
          apply Hsmp. apply wfx_expand; [apply objs_of_declared|exact Hx].
    - intros Hq. unfold quantifier_free, conds_all, no_forall_effects.
      cbn [quant_compile p_actions p_goals p_invs]. repeat (apply andb_true_iff; split).
      + apply forallb_forall. intros [i a'] Hin. destruct (HA i a' Hin) as [a [Hw E]]. cbn [snd].
        destruct (q_action_wf a a' Hw E) as [_ [Hp [_ Hc]]]. rewrite Hp, (Hc Hq). reflexivity.
      + apply forallb_add_goals. rewrite forallb_map. apply forallb_forall. intros x _. apply qf_expand'.
      + unfold q_invs. apply forallb_filter. rewrite forallb_map. apply forallb_forall. intros x _. apply Hq. apply qf_expand'.
      + apply forallb_forall. intros [i a'] Hin. destruct (HA i a' Hin) as [a [Hw E]]. cbn [snd].
        destruct (q_action_wf a a' Hw E) as [_ [_ [Hn _]]]. exact Hn.
  Qed.
End Quant.

(* ================================================================== names of split / ground actions *)
Lemma NoDup_app_intro {A} (a b : list A) : NoDup a -> NoDup b -> (forall x, In x a -> ~ In x b) -> NoDup (a ++ b).
Proof.
  induction a as [|x a IH]; intros Ha Hb Hd; [exact Hb|]. inversion Ha; subst. cbn [app]. constructor.
  - intros Hi. apply in_app_or in Hi. destruct Hi as [Hi|Hi]; [contradiction|]. apply (Hd x); [left; reflexivity|exact Hi].
  - apply IH; auto. intros y Hy. apply Hd. right; exact Hy.
Qed.

Lemma nodup_flat_map_keys {A} (g : N * A -> list N) (l : list (N * A)) :
  NoDup (map fst l) -> (forall x, In x l -> NoDup (g x)) ->
  (forall x y n, In x l -> In y l -> In n (g x) -> In n (g y) -> fst x = fst y) ->
  NoDup (flat_map g l).
Proof.
  induction l as [|x l IH]; intros Hn Hg Hd; [constructor|]. cbn [flat_map]. cbn [map] in Hn. inversion Hn; subst.
  apply NoDup_app_intro.
  - apply Hg. left; reflexivity.
  - apply IH; auto. { intros y Hy. apply Hg. right; exact Hy. } intros y z n Hy Hz. apply Hd; right; assumption.
  - intros n Hx Hi. apply in_flat_map in Hi. destruct Hi as [y [Hy Hi]]. apply H1.
    rewrite (Hd x y n); [apply in_map; exact Hy|left; reflexivity|right; exact Hy|exact Hx|exact Hi].
Qed.

Lemma number_from_ge {A} (l : list A) : forall k kv, In kv (number_from k l) -> (k <= fst kv)%nat.
Proof.
  induction l as [|x l IH]; intros k kv H; [destruct H|]. cbn [number_from] in H. destruct H as [<-|H]; [cbn; lia|].
  apply IH in H. lia.
Qed.

Lemma number_from_snd {A} (l : list A) : forall k kv, In kv (number_from k l) -> In (snd kv) l.
Proof.
  induction l as [|x l IH]; intros k kv H; [destruct H|]. cbn [number_from] in H. destruct H as [<-|H]; [left; reflexivity|].
  right. eapply IH; eauto.
Qed.

(* fresh names: pairwise different, and different from every action id of the original problem
   (utils.get_fresh_name: C08_fresh_name_is_fresh / C08_fresh_names_nodup) *)
Definition nm_inj (nm : N -> nat -> N) : Prop := forall i k i' k', nm i k = nm i' k' -> i = i' /\ k = k'.
Definition nm_fresh (nm : N -> nat -> N) (P : problem) : Prop := forall i k, ~ In (nm i k) (map fst (p_actions P)).

Lemma nodup_numbered {B} (nm : N -> nat -> N) (i : N) (c : nat * B -> list N) : nm_inj nm ->
  (forall kt n, In n (c kt) -> n = nm i (fst kt)) -> (forall kt, NoDup (c kt)) ->
  forall ts k, NoDup (flat_map c (number_from k ts)).
Proof.
  intros Hinj Hc Hn. induction ts as [|t ts IH]; intros k; [constructor|]. cbn [number_from flat_map].
  apply NoDup_app_intro; auto. intros n H1 H2. apply Hc in H1. cbn [fst] in H1. apply in_flat_map in H2.
  destruct H2 as [kt [Hkt H2]]. apply Hc in H2. apply number_from_ge in Hkt. subst n. apply Hinj in H2. lia.
Qed.

Lemma map_flat_map {A B C} (f : B -> C) (g : A -> list B) l : map f (flat_map g l) = flat_map (fun x => map f (g x)) l.
Proof. induction l as [|x l IH]; [reflexivity|]. cbn [flat_map]. rewrite map_app, IH. reflexivity. Qed.

Lemma flat_map_single {A B} (f : A -> B) l : flat_map (fun x => [f x]) l = map f l.
Proof. induction l as [|x l IH]; [reflexivity|]. cbn [flat_map map app]. rewrite IH. reflexivity. Qed.

Lemma flat_map_ext_in {A B} (g h : A -> list B) l : (forall x, In x l -> g x = h x) -> flat_map g l = flat_map h l.
Proof. induction l as [|x l IH]; intros H; [reflexivity|]. cbn [flat_map]. rewrite H by (left; reflexivity). rewrite IH; auto. intros y Hy. apply H. right; exact Hy. Qed.

(* the generic shape of a table of named variants: an action either keeps its id or is replaced by numbered variants,
   some of which are left out *)
Lemma nodup_table {A B} (nm : N -> nat -> N) (P : problem) (l : list (N * A)) (keep : N * A -> bool)
      (vars : N * A -> list B) (sel : N * A -> nat * B -> bool) :
  map fst l = map fst (p_actions P) -> nm_inj nm -> nm_fresh nm P -> NoDup (map fst l) ->
  NoDup (flat_map (fun ia => if keep ia then [fst ia]
                             else flat_map (fun kt => if sel ia kt then [nm (fst ia) (fst kt)] else [])
                                           (number_from 0 (vars ia))) l).
Proof.
  intros Hids Hinj Hfr Hnd.
  assert (Hin : forall (ia : N * A) n, In n (flat_map (fun kt => if sel ia kt then [nm (fst ia) (fst kt)] else [])
                                             (number_from 0 (vars ia))) -> exists k, n = nm (fst ia) k).
  { intros ia n H. apply in_flat_map in H. destruct H as [kt [_ H]]. destruct (sel ia kt); [|destruct H].
    destruct H as [<-|[]]. eauto. }
  apply nodup_flat_map_keys; [exact Hnd| |].
  - intros ia _. destruct (keep ia); [repeat constructor; intros []|]. apply nodup_numbered with (nm := nm) (i := fst ia); auto.
    + intros kt n H. destruct (sel ia kt); [|destruct H]. destruct H as [<-|[]]. reflexivity.
    + intros kt. destruct (sel ia kt); repeat constructor. intros [].
  - intros x y n Hx Hy H1 H2.
    assert (Hxi : In (fst x) (map fst (p_actions P))) by (rewrite <- Hids; apply in_map; exact Hx).
    assert (Hyi : In (fst y) (map fst (p_actions P))) by (rewrite <- Hids; apply in_map; exact Hy).
    destruct (keep x), (keep y).
    + destruct H1 as [E1|[]]. destruct H2 as [E2|[]]. congruence.
    + destruct H1 as [E1|[]]. apply Hin in H2. destruct H2 as [k E2]. exfalso. apply (Hfr (fst y) k). rewrite <- E2, <- E1. exact Hxi.
    + destruct H2 as [E2|[]]. apply Hin in H1. destruct H1 as [k E1]. exfalso. apply (Hfr (fst x) k). rewrite <- E1, <- E2. exact Hyi.
    + apply Hin in H1. apply Hin in H2. destruct H1 as [k ->]. destruct H2 as [k' E]. apply Hinj in E. apply E.
Qed.

(* ================================================================== ConditionalEffectsRemover *)
Lemma wf_effect_strip D ps e : wf_effect D ps e = true -> wf_effect D ps (strip_cond e) = true.
Proof.
  unfold wf_effect, strip_cond, set_cond. cbn [e_fl e_args e_val e_cond e_vars wfx]. rewrite !andb_true_iff.
  intros [[[[H1 H2] H3] H4] H5]. auto.
Qed.

Lemma sel_effs_in ces : forall sel e', In e' (sel_effs ces sel) -> exists e, In e ces /\ e' = strip_cond e.
Proof.
  induction ces as [|e ces IH]; intros [|b sel] e' H; cbn [sel_effs] in H; try destruct H.
  apply in_app_or in H. destruct H as [H|H].
  - destruct b; [|destruct H]. destruct H as [<-|[]]. exists e. split; [left|]; reflexivity.
  - apply IH in H. destruct H as [e0 [H1 H2]]. exists e0. split; [right|]; assumption.
Qed.

Lemma sel_pre_in ces : forall sel c, In c (sel_pre ces sel) -> exists e, In e ces /\ (c = e_cond e \/ c = mkNot (e_cond e)).
Proof.
  induction ces as [|e ces IH]; intros [|b sel] c H; cbn [sel_pre] in H; try destruct H.
  - exists e. split; [left; reflexivity|]. destruct b; subst; auto.
  - apply IH in H. destruct H as [e0 [H1 H2]]. exists e0. split; [right|]; assumption.
Qed.

(* the side condition of the ConditionalEffectsRemover: the condition of a conditional effect does not mention the
   effect's forall variables (it becomes a PRECONDITION of the variants).  Where it fails the real compiler raises
   UPUnboundedVariablesError (finding C08-cer-forall-condition). *)
Definition cer_side (P : problem) : bool :=
  forallb (fun ia => forallb (fun e => is_uncond e || wfx (denv_of P) (a_params (snd ia)) [] (e_cond e))
                             (a_effs (snd ia))) (p_actions P).

Definition simp_pre_wf (D : denv) (simp_pre : list expr -> option (list expr)) : Prop :=
  forall ps l l', forallb (wfx D ps []) l = true -> simp_pre l = Some l' -> forallb (wfx D ps []) l' = true.

Section Cer.
  Variable simp_pre : list expr -> option (list expr).
  Variable nm : N -> nat -> N.
  Variable P : problem.
  Let D := denv_of P.
  Hypothesis Hsp : simp_pre_wf D simp_pre.

  Lemma ce_variant_wf a sel : wf_action D a = true ->
    forallb (fun e => is_uncond e || wfx D (a_params a) [] (e_cond e)) (a_effs a) = true ->
    wf_action D (ce_variant a sel) = true /\ forallb is_uncond (a_effs (ce_variant a sel)) = true.
  Proof.
    unfold wf_action. rewrite !andb_true_iff. intros [[H1 H2] H3] Hs. cbn [ce_variant a_params a_pre a_effs].
    rewrite forallb_forall in H3, Hs. repeat split.
    - exact H1.
    - apply forallb_app_iff. split; [exact H2|]. apply forallb_forall. intros c Hc. apply sel_pre_in in Hc.
      destruct Hc as [e [He Hc]]. unfold cond_effs in He. apply filter_In in He. destruct He as [He Hne].
      pose proof (Hs e He) as Hse. apply negb_true_iff in Hne. rewrite Hne in Hse. cbn [orb] in Hse.
      destruct Hc as [->| ->]; [exact Hse|apply wfx_mkNot; exact Hse].
    - apply forallb_app_iff. split.
      + apply forallb_forall. intros e He. unfold uncond_effs in He. apply filter_In in He. apply H3. apply He.
      + apply forallb_forall. intros e' He. apply sel_effs_in in He. destruct He as [e [He ->]]. apply wf_effect_strip.
        apply H3. unfold cond_effs in He. apply filter_In in He. apply He.
    - apply forallb_app_iff. split.
      + apply forallb_forall. intros e He. unfold uncond_effs in He. apply filter_In in He. apply He.
      + apply forallb_forall. intros e' He. apply sel_effs_in in He. destruct He as [e [He ->]]. reflexivity.
  Qed.

  Lemma cer_variants_wf a v : wf_action D a = true ->
    forallb (fun e => is_uncond e || wfx D (a_params a) [] (e_cond e)) (a_effs a) = true ->
    In v (cer_variants simp_pre a) -> wf_action D v = true /\ forallb is_uncond (a_effs v) = true.
  Proof.
    intros Hw Hs Hi. unfold cer_variants in Hi. apply in_flat_map in Hi. destruct Hi as [sel [_ Hi]].
    destruct (simp_pre (a_pre (ce_variant a sel))) as [pre'|] eqn:E; [|destruct Hi]. destruct Hi as [<-|[]].
    destruct (ce_variant_wf a sel Hw Hs) as [Hv Hu]. split; [|exact Hu].
    unfold wf_action in *. cbn [set_pre a_params a_pre a_effs]. apply andb_true_iff in Hv. destruct Hv as [Hv H3].
    apply andb_true_iff in Hv. destruct Hv as [H1 H2]. rewrite H1, H3, andb_true_r. cbn [andb].
    eapply Hsp; eauto.
  Qed.

  Lemma cond_effs_nil effs : cond_effs effs = [] -> forallb is_uncond effs = true.
  Proof.
    induction effs as [|e effs IH]; [reflexivity|]. unfold cond_effs. cbn [filter forallb]. destruct (is_uncond e); cbn [negb andb].
    - exact IH. - discriminate.
  Qed.

  Lemma cer_table_in i' i v : In (i', i, v) (cer_table simp_pre nm P) ->
    exists a, In (i, a) (p_actions P) /\
      ((is_cond_action a = false /\ v = a) \/ (is_cond_action a = true /\ In v (cer_variants simp_pre a))).
  Proof.
    unfold cer_table. rewrite in_flat_map. intros [[j a] [Hin H]]. cbn [fst snd] in H. exists a.
    destruct (is_cond_action a) eqn:Ec.
    - apply in_map_iff in H. destruct H as [kv [E H]]. inversion E; subst. split; [exact Hin|]. right. split; [reflexivity|].
      eapply number_from_snd; eauto.
    - destruct H as [E|[]]. inversion E; subst. auto.
  Qed.

  Theorem cer_wf : nm_inj nm -> nm_fresh nm P -> cer_side P = true -> wf_problem P = true ->
    wf_problem (cer_compile simp_pre nm P) = true /\ no_cond_effects (cer_compile simp_pre nm P) = true.
  Proof.
    intros Hinj Hfr Hside H. apply wf_problem_iff in H. destruct H as [Hi [Hf [Ha Ht]]].
    unfold wf_ids, wf_fluents, wf_actions, wf_top, cer_side in *. fold D in Hf, Ha, Ht, Hside.
    apply andb_true_iff in Hi. destruct Hi as [Hi Hi3]. apply andb_true_iff in Hi. destruct Hi as [Hi1 Hi2].
    rewrite forallb_forall in Ha, Hside.
    assert (HV : forall iv, In iv (vt_actions (cer_table simp_pre nm P)) ->
                   wf_action D (snd iv) = true /\ forallb is_uncond (a_effs (snd iv)) = true).
    { intros iv Hiv. unfold vt_actions in Hiv. apply in_map_iff in Hiv. destruct Hiv as [[[i' i] v] [<- Hin]]. cbn [fst snd].
      apply cer_table_in in Hin. destruct Hin as [a [Hin [[Hc ->]|[Hc Hv]]]].
      - split; [apply (Ha (i, a) Hin)|]. apply cond_effs_nil. unfold is_cond_action in Hc. apply negb_false_iff in Hc.
        destruct (cond_effs (a_effs a)); [reflexivity|discriminate].
      - apply (cer_variants_wf a v (Ha (i, a) Hin) (Hside (i, a) Hin) Hv). }
    split.
    - apply wf_problem_iff. unfold wf_ids, wf_fluents, wf_actions, wf_top.
      change (denv_of (cer_compile simp_pre nm P)) with D. cbn [cer_compile p_actions p_fluents p_objs p_goals p_invs].
      repeat split; auto.
      + rewrite Hi2, Hi3, !andb_true_r. apply nodupN_iff. unfold vt_actions, cer_table. rewrite map_map. cbn [fst].
        rewrite map_flat_map.
        erewrite flat_map_ext_in; [apply (nodup_table nm P (p_actions P) (fun ia => negb (is_cond_action (snd ia)))
                                            (fun ia => cer_variants simp_pre (snd ia)) (fun _ _ => true)); auto|].
        * apply nodupN_iff. exact Hi1.
        * intros [i a] _. cbn [fst snd]. destruct (is_cond_action a); cbn [negb]; [|reflexivity].
          rewrite map_map. cbn [fst]. rewrite flat_map_single. reflexivity.
      + apply forallb_forall. intros iv Hiv. apply HV. exact Hiv.
    - unfold no_cond_effects. cbn [cer_compile p_actions]. apply forallb_forall. intros iv Hiv. apply HV. exact Hiv.
  Qed.
End Cer.

(* ================================================================== DisjunctiveConditionsRemover (goals kept) *)
(* the DNF walker returns disjuncts / literals built from the condition's own atoms: nothing undeclared appears *)
Definition cdnf_wf (D : denv) (cdnf : expr -> list expr) : Prop :=
  forall ps B c d, wfx D ps B c = true -> In d (cdnf c) -> wfx D ps B d = true.
Definition pre_dnf_wf (D : denv) (pre_dnf : action -> list (list expr)) : Prop :=
  forall a d x, wf_action D a = true -> In d (pre_dnf a) -> In x d -> wfx D (a_params a) [] x = true.

Section Dcr.
  Variable cdnf : expr -> list expr.
  Variable pre_dnf : action -> list (list expr).
  Variable nm : N -> nat -> N.
  Variable P : problem.
  Let D := denv_of P.
  Hypothesis Hc : cdnf_wf D cdnf.
  Hypothesis Hp : pre_dnf_wf D pre_dnf.

  Lemma split_effect_wf ps e e' : wf_effect D ps e = true -> In e' (split_effect cdnf e) -> wf_effect D ps e' = true.
  Proof.
    intros Hw Hi. unfold split_effect in Hi. destruct (is_uncond e); [destruct Hi as [<-|[]]; exact Hw|].
    apply in_map_iff in Hi. destruct Hi as [d [<- Hd]]. unfold wf_effect in *. cbn [set_cond e_fl e_args e_val e_cond e_vars].
    rewrite !andb_true_iff in *. destruct Hw as [[[[H1 H2] H3] H4] H5]. repeat split; auto. eapply Hc; eauto.
  Qed.

  Lemma dnf_variants_wf a v : wf_action D a = true -> In v (dnf_variants cdnf a (pre_dnf a)) -> wf_action D v = true.
  Proof.
    intros Hw Hi. unfold dnf_variants in Hi. apply filter_In in Hi. destruct Hi as [Hi _]. apply in_map_iff in Hi.
    destruct Hi as [d [<- Hd]]. pose proof Hw as Hw'. unfold wf_action in Hw |- *. cbn [dnf_variant a_params a_pre a_effs].
    rewrite !andb_true_iff in *. destruct Hw as [[H1 H2] H3]. repeat split; auto.
    - apply forallb_forall. intros x Hx. eapply Hp; eauto.
    - apply forallb_forall. intros e' He. apply in_flat_map in He. destruct He as [e [He He']]. rewrite forallb_forall in H3.
      eapply split_effect_wf; eauto.
  Qed.

  Theorem dcr_wf goals' : nm_inj nm -> nm_fresh nm P -> forallb (wfx D [] []) goals' = true -> wf_problem P = true ->
    wf_problem (dcr_compile cdnf pre_dnf nm P goals') = true.
  Proof.
    intros Hinj Hfr Hg H. apply wf_problem_iff in H. destruct H as [Hi [Hf [Ha Ht]]].
    unfold wf_ids, wf_fluents, wf_actions, wf_top in *. fold D in Hf, Ha, Ht.
    apply andb_true_iff in Hi. destruct Hi as [Hi Hi3]. apply andb_true_iff in Hi. destruct Hi as [Hi1 Hi2].
    apply andb_true_iff in Ht. destruct Ht as [_ Hv]. rewrite forallb_forall in Ha.
    apply wf_problem_iff. unfold wf_ids, wf_fluents, wf_actions, wf_top.
    change (denv_of (dcr_compile cdnf pre_dnf nm P goals')) with D. cbn [dcr_compile p_actions p_fluents p_objs p_goals p_invs].
    repeat split; auto.
    - rewrite Hi2, Hi3, !andb_true_r. apply nodupN_iff. unfold vt_actions, dcr_table. rewrite map_map. cbn [fst].
      rewrite map_flat_map.
      erewrite flat_map_ext_in; [apply (nodup_table nm P (p_actions P) (fun _ => false)
                                          (fun ia => dnf_variants cdnf (snd ia) (pre_dnf (snd ia))) (fun _ _ => true)); auto|].
      + apply nodupN_iff. exact Hi1.
      + intros [i a] _. cbn [fst snd]. rewrite map_map. cbn [fst]. rewrite flat_map_single. reflexivity.
    - apply forallb_forall. intros iv Hiv. unfold vt_actions in Hiv. apply in_map_iff in Hiv.
      destruct Hiv as [[[i' i] v] [<- Hin]]. cbn [fst snd]. unfold dcr_table in Hin. apply in_flat_map in Hin.
      destruct Hin as [[j a] [Hja Hin]]. cbn [fst snd] in Hin. apply in_map_iff in Hin. destruct Hin as [kv [E Hkv]].
      inversion E; subst. apply number_from_snd in Hkv. apply (dnf_variants_wf a (snd kv) (Ha (i, a) Hja) Hkv).
    - rewrite Hg, Hv. reflexivity.
  Qed.
End Dcr.

(* ================================================================== Grounder *)
Lemma keep_vars_in fv : forall vs seen p, In p (keep_vars fv seen vs) -> In p vs.
Proof.
  induction vs as [|q vs IH]; intros seen p H; cbn [keep_vars] in H; [destruct H|].
  destruct (memN (fst q) fv && negb (memN (fst q) seen)); [destruct H as [<-|H]; [left; reflexivity|]|]; right; eauto.
Qed.

Lemma keep_vars_lookup fv v : memN v fv = true -> forall vs seen, memN v seen = false ->
  lookupN v (keep_vars fv seen vs) = lookupN v vs.
Proof.
  intros Hfv. induction vs as [|[w t] vs IH]; intros seen Hs; [reflexivity|]. cbn [keep_vars fst lookupN].
  destruct (v =? w)%N eqn:E.
  - apply N.eqb_eq in E. subst w. rewrite Hfv, Hs. cbn [andb negb lookupN]. rewrite N.eqb_refl. reflexivity.
  - destruct (memN w fv && negb (memN w seen)).
    + cbn [lookupN]. rewrite E. apply IH. unfold memN. cbn [existsb]. rewrite E. exact Hs.
    + apply IH. exact Hs.
Qed.

Lemma zip_params_sg_ok D : forall ps args, List.length args = List.length ps -> forallb (val_ok D) args = true ->
  sg_ok D ps (zip_params ps args).
Proof.
  induction ps as [|q ps IH]; intros [|v args] Hl Hv p Hp; try discriminate.
  cbn [List.length] in Hl. injection Hl as Hl. cbn [forallb] in Hv. apply andb_true_iff in Hv. destruct Hv as [Hv1 Hv2].
  cbn [zip_params lookupN]. unfold memN in Hp. cbn [existsb] in Hp. destruct (p =? q)%N eqn:E.
  - exists v. auto.
  - cbn [orb] in Hp. apply IH; auto.
Qed.

(* the enumerated parameter tuples have the action's arity and consist of declared objects / constants
   (GrounderHelper.get_possible_parameters: products of problem.objects(type) / domain items) *)
Definition tuples_ok (P : problem) (tuples : N -> list (list value)) : Prop :=
  forall i a args, In (i, a) (p_actions P) -> In args (tuples i) ->
    List.length args = List.length (a_params a) /\ forallb (val_ok (denv_of P)) args = true.

Section Ground.
  Variable smp : expr -> expr.
  Variable tuples : N -> list (list value).
  Variable nm : N -> nat -> N.
  Variable P : problem.
  Let D := denv_of P.
  Hypothesis Hsmp : keeps_wf D smp.

  Lemma g_effect_wf ps sg e ge : sg_ok D ps sg -> wf_effect D ps e = true -> g_effect smp sg e = Some ge ->
    wf_effect D [] ge = true.
  Proof.
    intros Hsg Hw. unfold g_effect. destruct (is_false _); [discriminate|]. intros E. inversion E; subst; clear E.
    unfold wf_effect in *. rewrite !andb_true_iff in Hw. destruct Hw as [[[[H1 H2] H3] H4] H5].
    cbn [e_fl e_args e_val e_cond e_vars].
    set (args := map (fun x => smp (psubst sg x)) (e_args e)).
    set (v := smp (psubst sg (e_val e))). set (c := smp (psubst sg (e_cond e))).
    assert (Hx : forall x, wfx D ps (e_vars e) x = true -> wfx D [] (e_vars e) (smp (psubst sg x)) = true).
    { intros x Hx. apply Hsmp. eapply wfx_psubst; eauto. }
    assert (Hk : forall y, wfx D [] (e_vars e) y = true -> incl (free_vars y) (effect_free_vars args v c) ->
                   wfx D [] (keep_vars (effect_free_vars args v c) [] (e_vars e)) y = true).
    { intros y Hy Hin. apply (wfx_weaken D D [] [] (dle_refl D) (fun p H => H) y (e_vars e)); [exact Hy|]. intros w ty Hw Hl.
      rewrite keep_vars_lookup; [exact Hl| |reflexivity]. apply memN_In. apply Hin. exact Hw. }
    rewrite !andb_true_iff. repeat split.
    - unfold args. rewrite map_length. exact H1.
    - apply forallb_forall. intros p Hp. apply keep_vars_in in Hp. rewrite forallb_forall in H2. auto.
    - apply forallb_forall. intros y Hy. apply Hk.
      + unfold args in Hy. apply in_map_iff in Hy. destruct Hy as [x [<- Hxin]]. apply Hx. rewrite forallb_forall in H3. auto.
      + intros w Hw. unfold effect_free_vars. apply in_or_app. left. apply in_flat_map. eauto.
    - apply Hk; [apply Hx; exact H4|]. intros w Hw. unfold effect_free_vars. apply in_or_app. right. apply in_or_app. left. exact Hw.
    - apply Hk; [apply Hx; exact H5|]. intros w Hw. unfold effect_free_vars. apply in_or_app. right. apply in_or_app. right. exact Hw.
  Qed.

  Lemma g_pre_wf ps sg pre pre' : sg_ok D ps sg -> forallb (wfx D ps []) pre = true -> g_pre smp sg pre = Some pre' ->
    forallb (wfx D [] []) pre' = true.
  Proof.
    intros Hsg Hw. unfold g_pre. destruct pre as [|p0 pre0]; [intros E; inversion E; reflexivity|].
    assert (Hx : wfx D [] [] (smp (mkAnd (map (psubst sg) (p0 :: pre0)))) = true).
    { apply Hsmp. apply wfx_mkAnd. rewrite forallb_map. revert Hw. apply forallb_imp. intros x _. apply wfx_psubst. exact Hsg. }
    destruct (smp (mkAnd (map (psubst sg) (p0 :: pre0)))) eqn:Es; try (intros E; inversion E; subst; cbn [forallb]; rewrite Hx; reflexivity).
    - destruct b; intros E; inversion E; reflexivity.
    - intros E. inversion E; subst. exact Hx.
  Qed.

  Lemma g_action_wf a args g : wf_action D a = true -> sg_ok D (a_params a) (zip_params (a_params a) args) ->
    g_action smp a args = Some g -> wf_action D g = true /\ a_params g = [].
  Proof.
    unfold wf_action, g_action. rewrite !andb_true_iff. intros [[H1 H2] H3] Hsg. destruct (add_effs_ok _ _ _); [|discriminate].
    destruct (g_pre smp _ (a_pre a)) as [pre'|] eqn:Ep; [|discriminate]. intros E. inversion E; subst; clear E.
    cbn [a_params a_pre a_effs nodupN]. split; [|reflexivity]. rewrite ?andb_true_iff. repeat split.
    - eapply g_pre_wf; eauto.
    - apply forallb_forall. intros ge Hge. unfold g_effects in Hge. apply in_flat_map in Hge. destruct Hge as [e [He Hge]].
      destruct (g_effect smp _ e) eqn:Ee; [|destruct Hge]. destruct Hge as [<-|[]]. rewrite forallb_forall in H3.
      eapply g_effect_wf; eauto.
  Qed.

  Theorem ground_wf : nm_inj nm -> nm_fresh nm P -> tuples_ok P tuples -> wf_problem P = true ->
    wf_problem (ground_compile smp tuples nm P) = true /\ ground_problem (ground_compile smp tuples nm P) = true.
  Proof.
    intros Hinj Hfr Htu H. apply wf_problem_iff in H. destruct H as [Hi [Hf [Ha Ht]]].
    unfold wf_ids, wf_fluents, wf_actions, wf_top in *. fold D in Hf, Ha, Ht.
    apply andb_true_iff in Hi. destruct Hi as [Hi Hi3]. apply andb_true_iff in Hi. destruct Hi as [Hi1 Hi2].
    rewrite forallb_forall in Ha.
    assert (HV : forall iv, In iv (gt_actions (ground_table smp tuples nm P)) ->
                   wf_action D (snd iv) = true /\ a_params (snd iv) = []).
    { intros iv Hiv. unfold gt_actions in Hiv. apply in_map_iff in Hiv. destruct Hiv as [[[i' ia] g] [<- Hin]]. cbn [fst snd].
      unfold ground_table in Hin. apply in_flat_map in Hin. destruct Hin as [[i a] [Hia Hin]]. cbn [fst snd] in Hin.
      apply in_flat_map in Hin. destruct Hin as [kt [Hkt Hin]]. destruct (g_action smp a (snd kt)) eqn:Eg; [|destruct Hin].
      destruct Hin as [E|[]]. inversion E; subst. apply number_from_snd in Hkt.
      destruct (Htu i a (snd kt) Hia Hkt) as [Hl Hv].
      eapply g_action_wf; [apply (Ha (i, a) Hia) | apply zip_params_sg_ok; [exact Hl|exact Hv] | exact Eg]. }
    split.
    - apply wf_problem_iff. unfold wf_ids, wf_fluents, wf_actions, wf_top.
      change (denv_of (ground_compile smp tuples nm P)) with D. cbn [ground_compile p_actions p_fluents p_objs p_goals p_invs].
      repeat split; auto.
      + rewrite Hi2, Hi3, !andb_true_r. apply nodupN_iff. unfold gt_actions, ground_table. rewrite map_map. cbn [fst].
        rewrite map_flat_map.
        erewrite flat_map_ext_in; [apply (nodup_table nm P (p_actions P) (fun _ => false)
                                            (fun ia => tuples (fst ia))
                                            (fun ia kt => match g_action smp (snd ia) (snd kt) with Some _ => true | None => false end)); auto|].
        * apply nodupN_iff. exact Hi1.
        * intros [i a] _. cbn [fst snd]. rewrite map_flat_map. apply flat_map_ext_in. intros kt _.
          destruct (g_action smp a (snd kt)); reflexivity.
      + apply forallb_forall. intros iv Hiv. apply HV. exact Hiv.
    - unfold ground_problem. cbn [ground_compile p_actions]. apply forallb_forall. intros iv Hiv.
      destruct (HV iv Hiv) as [_ ->]. reflexivity.
  Qed.
End Ground.

(* a well-formed action without parameters mentions no parameter *)
Lemma wfx_param_free D B e : wfx D [] B e = true -> param_free e = true.
Proof.
  revert B. induction e using expr_ind'; intros B Hw; cbn [wfx param_free] in *; try reflexivity; try discriminate; auto;
    try (splitb; eauto; fail).
  all: try (splitb; rewrite forallb_forall in *; rewrite Forall_forall in H; eauto; fail).
  all: rewrite forallb_forall in *; rewrite Forall_forall in H; eauto.
Qed.

(* ================================================================== NegativeConditionsRemover *)
Lemma lookupN_In' {A} k (t : list (N * A)) v : lookupN k t = Some v -> In (k, v) t.
Proof.
  induction t as [|[k' v'] t IH]; [discriminate|]. cbn [lookupN]. destruct (k =? k')%N eqn:E.
  - intros H. inversion H; subst. apply N.eqb_eq in E. subst. left; reflexivity.
  - intros H. right. auto.
Qed.

Lemma nodup_snd_inj {A} (l : list (A * N)) a b n : NoDup (map snd l) -> In (a, n) l -> In (b, n) l -> a = b.
Proof.
  induction l as [|[x m] l IH]; intros Hn Ha Hb; [destruct Ha|]. cbn [map snd] in Hn. inversion Hn; subst.
  destruct Ha as [Ea|Ha], Hb as [Eb|Hb].
  - congruence.
  - inversion Ea; subst. exfalso. apply H1. apply in_map_iff. exists (b, n). auto.
  - inversion Eb; subst. exfalso. apply H1. apply in_map_iff. exists (a, n). auto.
  - auto.
Qed.

Lemma flat_map_map' {A B C} (g : B -> list C) (h : A -> B) l : flat_map g (map h l) = flat_map (fun x => g (h x)) l.
Proof. induction l as [|x l IH]; [reflexivity|]. cbn [map flat_map]. rewrite IH. reflexivity. Qed.

(* what the theorem needs of the table of negation fluents (part of LayerA_Neg.nmap_ok): the negation fluents are
   pairwise different and none of them is a fluent of the original problem (get_fresh_name, fix fe1c555) *)
Definition nmap_fresh (nmap : list (N * N)) (P : problem) : bool :=
  nodupN (map snd nmap) && forallb (fun fd => negb (is_negb nmap (fd_id fd))) (p_fluents P).

Section Neg.
  Variable nmap : list (N * N).
  Variable rw smp : expr -> expr.
  Variable P : problem.
  Let D := denv_of P.
  Let P' := neg_compile nmap rw smp P.
  Let D' := denv_of P'.
  (* the rewriting introduces only negation fluents that the compiler declares, with the arity of the original *)
  Hypothesis Hrw : forall ps B e, wfx D ps B e = true -> wfx D' ps B (rw e) = true.
  Hypothesis Hsmp : keeps_wf D' smp.

  Lemma decl_fl_n_fluents fls f n : decl_fl fls f n = true -> decl_fl (n_fluents nmap fls) f n = true.
  Proof.
    unfold decl_fl. rewrite !existsb_exists. intros [fd [Hin H]]. exists fd. split; [|exact H].
    unfold n_fluents. apply in_flat_map. exists fd. split; [exact Hin|left; reflexivity].
  Qed.

  Lemma decl_fl_neg fls f nf n : decl_fl fls f n = true -> ng nmap f = Some nf -> decl_fl (n_fluents nmap fls) nf n = true.
  Proof.
    unfold decl_fl. rewrite !existsb_exists. intros [fd [Hin H]] Hng. apply andb_true_iff in H. destruct H as [H1 H2].
    apply N.eqb_eq in H1. subst f. exists {| fd_id := nf; fd_sig := fd_sig fd; fd_ty := fd_ty fd |}. split.
    - unfold n_fluents. apply in_flat_map. exists fd. split; [exact Hin|]. rewrite Hng. right. left. reflexivity.
    - cbn [fd_id fd_sig]. rewrite N.eqb_refl, H2. reflexivity.
  Qed.

  Lemma neg_dle : dle D D'.
  Proof. repeat split; auto. intros f n. cbn [D D' denv_of d_fl P' neg_compile p_fluents]. apply decl_fl_n_fluents. Qed.

  Lemma n_effect_wf ps e : wf_effect D ps e = true -> wf_effect D' ps (n_effect rw e) = true.
  Proof.
    intros Hw. unfold n_effect. destruct (is_uncond e); [eapply wf_effect_dle; [apply neg_dle|exact Hw]|].
    pose proof (wf_effect_dle D D' ps e neg_dle Hw) as Hw'. unfold wf_effect in *.
    cbn [set_cond e_fl e_args e_val e_cond e_vars]. rewrite !andb_true_iff in *.
    destruct Hw as [_ H5]. destruct Hw' as [[[[H1 H2] H3] H4] _]. repeat split; auto.
  Qed.

  Lemma mirror_wf ps e0 m : wf_effect D ps e0 = true -> In m (mirror nmap smp (n_effect rw e0)) -> wf_effect D' ps m = true.
  Proof.
    intros Hw Hm. pose proof (n_effect_wf ps e0 Hw) as Hn. set (e := n_effect rw e0) in *.
    assert (Hfl : e_fl e = e_fl e0 /\ e_args e = e_args e0).
    { unfold e, n_effect. destruct (is_uncond e0); split; reflexivity. }
    unfold mirror in Hm. destruct (ng nmap (e_fl e)) as [nf|] eqn:Eng; [|destruct Hm]. destruct Hm as [<-|[]].
    unfold wf_effect in *. cbn [e_fl e_args e_val e_cond e_vars]. rewrite !andb_true_iff in *.
    destruct Hn as [[[[H1 H2] H3] H4] H5]. destruct Hw as [[[[G1 _] _] _] _]. destruct Hfl as [F1 F2]. repeat split; auto.
    - rewrite F1 in Eng. rewrite F2. exact (decl_fl_neg (p_fluents P) (e_fl e0) nf _ G1 Eng).
    - apply Hsmp. apply wfx_mkNot. exact H4.
  Qed.

  Lemma n_action_wf a : wf_action D a = true -> wf_action D' (n_action nmap rw smp a) = true.
  Proof.
    unfold wf_action. rewrite !andb_true_iff. intros [[H1 H2] H3]. cbn [n_action a_params a_pre a_effs]. repeat split.
    - exact H1.
    - apply forallb_add_pres. rewrite forallb_map. revert H2. apply forallb_imp. intros x _. apply Hrw.
    - unfold n_effects. rewrite forallb_forall in H3. apply forallb_app_iff. split.
      + rewrite forallb_map. apply forallb_forall. intros e He. apply n_effect_wf. auto.
      + apply forallb_forall. intros m Hm. apply in_flat_map in Hm. destruct Hm as [e [He Hm]]. apply in_map_iff in He.
        destruct He as [e0 [<- He0]]. eapply mirror_wf; eauto.
  Qed.

  Lemma n_fluents_ids fls : (forall fd, In fd fls -> is_negb nmap (fd_id fd) = false) -> NoDup (map snd nmap) ->
    NoDup (map fd_id fls) -> NoDup (map fd_id (n_fluents nmap fls)).
  Proof.
    intros Hneg Hnd Hids. unfold n_fluents. rewrite map_flat_map.
    set (g := fun x : N * fdecl => fst x :: match ng nmap (fst x) with Some nf => [nf] | None => [] end).
    rewrite (flat_map_ext_in _ (fun fd => g (fd_id fd, fd))).
    2:{ intros fd _. unfold g. cbn [fst map fd_id]. destruct (ng nmap (fd_id fd)); reflexivity. }
    rewrite <- (flat_map_map' g (fun fd => (fd_id fd, fd))).
    assert (Hisneg : forall f nf, ng nmap f = Some nf -> is_negb nmap nf = true).
    { intros f nf H. apply lookupN_In' in H. unfold is_negb. apply existsb_exists. exists (f, nf). split; [exact H|apply N.eqb_refl]. }
    assert (Hin : forall x, In x (map (fun fd => (fd_id fd, fd)) fls) -> is_negb nmap (fst x) = false).
    { intros x Hx. apply in_map_iff in Hx. destruct Hx as [fd [<- Hfd]]. cbn [fst]. auto. }
    apply nodup_flat_map_keys.
    - rewrite map_map. cbn [fst]. exact Hids.
    - intros x Hx. unfold g. destruct (ng nmap (fst x)) as [nf|] eqn:E.
      + constructor; [|constructor; [intros []|constructor]].
        intros [Hq|[]]. apply Hisneg in E. rewrite Hq, (Hin x Hx) in E. discriminate.
      + constructor; [intros []|constructor].
    - intros x y n Hx Hy H1 H2. unfold g in H1, H2. destruct H1 as [E1|H1], H2 as [E2|H2].
      + congruence.
      + destruct (ng nmap (fst y)) as [nf|] eqn:E; [|destruct H2]. destruct H2 as [<-|[]]. apply Hisneg in E.
        rewrite <- E1, (Hin x Hx) in E. discriminate.
      + destruct (ng nmap (fst x)) as [nf|] eqn:E; [|destruct H1]. destruct H1 as [<-|[]]. apply Hisneg in E.
        rewrite <- E2, (Hin y Hy) in E. discriminate.
      + destruct (ng nmap (fst x)) as [nf|] eqn:Ex; [|destruct H1]. destruct H1 as [<-|[]].
        destruct (ng nmap (fst y)) as [nf'|] eqn:Ey; [|destruct H2]. destruct H2 as [<-|[]].
        apply lookupN_In' in Ex. apply lookupN_In' in Ey. eapply nodup_snd_inj; eauto.
  Qed.

  Theorem neg_wf : nmap_fresh nmap P = true -> wf_problem P = true -> wf_problem P' = true.
  Proof.
    intros Hfr H. apply wf_problem_iff in H. destruct H as [Hi [Hf [Ha Ht]]].
    unfold wf_ids, wf_fluents, wf_actions, wf_top, nmap_fresh in *. fold D in Hf, Ha, Ht.
    apply andb_true_iff in Hi. destruct Hi as [Hi Hi3]. apply andb_true_iff in Hi. destruct Hi as [Hi1 Hi2].
    apply andb_true_iff in Ht. destruct Ht as [Hg Hv]. apply andb_true_iff in Hfr. destruct Hfr as [Hfr1 Hfr2].
    apply wf_problem_iff. unfold wf_ids, wf_fluents, wf_actions, wf_top. fold D'.
    unfold P'. cbn [neg_compile p_actions p_fluents p_objs p_goals p_invs]. repeat split.
    - rewrite map_map. cbn [fst]. repeat (apply andb_true_iff; split); [exact Hi1| |exact Hi3]. apply nodupN_iff. apply n_fluents_ids.
      + intros fd Hfd. rewrite forallb_forall in Hfr2. apply negb_true_iff. auto.
      + apply nodupN_iff. exact Hfr1.
      + apply nodupN_iff. exact Hi2.
    - apply forallb_forall. intros fd' Hfd'. unfold n_fluents in Hfd'. apply in_flat_map in Hfd'. destruct Hfd' as [fd [Hfd Hin]].
      rewrite forallb_forall in Hf. pose proof (Hf fd Hfd) as Hw.
      assert (Hw' : wf_fdecl D' fd = true) by exact Hw.
      destruct Hin as [<-|Hin]; [exact Hw'|]. destruct (ng nmap (fd_id fd)); [|destruct Hin]. destruct Hin as [<-|[]]. exact Hw'.
    - rewrite forallb_map. revert Ha. apply forallb_imp. intros [i a] _. cbn [snd]. apply n_action_wf.
    - apply andb_true_iff. split.
      + apply forallb_add_goals. rewrite forallb_map. revert Hg. apply forallb_imp. intros x _. apply Hrw.
      + apply forallb_filter. rewrite forallb_map. revert Hv. apply forallb_imp. intros x _ Hx. apply Hsmp. apply Hrw. exact Hx.
  Qed.

  (* the promised shape, from what the rewriting promises *)
  Theorem neg_shape : (forall e, neg_free (rw e) = true) -> keeps neg_free smp -> negation_free P' = true.
  Proof.
    intros Hr Hs. unfold negation_free, P'. cbn [neg_compile p_actions p_goals p_invs]. repeat (apply andb_true_iff; split).
    - rewrite forallb_map. apply forallb_forall. intros [i a] _. cbn [snd n_action a_pre a_effs]. apply andb_true_iff. split.
      + apply forallb_add_pres. rewrite forallb_map. apply forallb_forall. intros x _. apply Hr.
      + assert (Hn : forall e, neg_free (e_cond (n_effect rw e)) = true).
        { intros e. unfold n_effect. destruct (is_uncond e) eqn:Eu; [|apply Hr]. unfold is_uncond in Eu.
          apply is_true_eq in Eu. rewrite Eu. reflexivity. }
        unfold n_effects. apply forallb_app_iff. split.
        * rewrite forallb_map. apply forallb_forall. intros e _. apply Hn.
        * apply forallb_forall. intros m Hm. apply in_flat_map in Hm. destruct Hm as [e [He Hm]]. apply in_map_iff in He.
          destruct He as [e0 [<- _]]. unfold mirror in Hm. destruct (ng nmap _); [|destruct Hm]. destruct Hm as [<-|[]].
          cbn [e_cond]. apply Hn.
    - apply forallb_add_goals. rewrite forallb_map. apply forallb_forall. intros x _. apply Hr.
    - apply forallb_filter. rewrite forallb_map. apply forallb_forall. intros x _. apply Hs. apply Hr.
  Qed.
End Neg.

(* ================================================================== totality: why the conflict exceptions cannot escape *)
(* _add_effect_instance raising UPConflictingEffectsException is caught by the compilers and the action / variant is
   left out: every action the models keep has a conflict-free effect list (so re-adding its effects cannot raise) *)
Lemma q_action_conflict_free smp P a a' : q_action smp P a = Some a' -> add_effs_ok [] [] (a_effs a') = true.
Proof. unfold q_action. destruct (add_effs_ok _ _ _) eqn:E; [|discriminate]. intros H. inversion H; subst. exact E. Qed.

Lemma g_action_conflict_free smp a args g : g_action smp a args = Some g -> add_effs_ok [] [] (a_effs g) = true.
Proof.
  unfold g_action. destruct (add_effs_ok _ _ _) eqn:E; [|discriminate]. destruct (g_pre _ _ _); [|discriminate].
  intros H. inversion H; subst. exact E.
Qed.

Lemma cer_variants_conflict_free simp_pre a v : In v (cer_variants simp_pre a) ->
  add_effs_ok [] [] (a_effs v) = true /\ a_effs v <> [].
Proof.
  unfold cer_variants. rewrite in_flat_map. intros [sel [Hs H]]. destruct (simp_pre _); [|destruct H]. destruct H as [<-|[]].
  unfold ce_kept_sels in Hs. apply filter_In in Hs. destruct Hs as [_ Hk]. unfold ce_kept in Hk. apply andb_true_iff in Hk.
  destruct Hk as [H1 H2]. cbn [set_pre a_effs]. split; [exact H1|]. destruct (a_effs (ce_variant a sel)); [discriminate|discriminate].
Qed.

Lemma dnf_variants_conflict_free cdnf a pd v : In v (dnf_variants cdnf a pd) ->
  add_effs_ok [] [] (a_effs v) = true /\ a_effs v <> [].
Proof.
  unfold dnf_variants. rewrite filter_In. intros [_ Hk]. unfold dnf_kept in Hk. apply andb_true_iff in Hk. destruct Hk as [H1 H2].
  split; [exact H1|]. destruct (a_effs v); discriminate.
Qed.

(* ================================================================== DisjunctiveConditionsRemover: the promised shape *)
(* no precondition and no effect condition of the compiled actions is a disjunction, provided the DNF walker's
   disjuncts / literals are not (C12: a DNF's disjuncts are conjunctions of literals) *)
Definition dcr_shape (P : problem) : bool :=
  forallb (fun ia => forallb (fun x => negb (is_or x)) (a_pre (snd ia)) &&
                     forallb (fun e => negb (is_or (e_cond e))) (a_effs (snd ia))) (p_actions P) &&
  forallb (fun g => negb (is_or g)) (p_goals P).

Theorem dcr_shape_ok cdnf pre_dnf nm P goals' :
  (forall c d, In d (cdnf c) -> is_or d = false) ->
  (forall a d x, In d (pre_dnf a) -> In x d -> is_or x = false) ->
  forallb (fun g => negb (is_or g)) goals' = true ->
  dcr_shape (dcr_compile cdnf pre_dnf nm P goals') = true.
Proof.
  intros Hc Hp Hg. unfold dcr_shape. cbn [dcr_compile p_actions p_goals]. rewrite Hg, andb_true_r.
  apply forallb_forall. intros iv Hiv. unfold vt_actions in Hiv. apply in_map_iff in Hiv.
  destruct Hiv as [[[i' i] v] [<- Hin]]. cbn [fst snd]. unfold dcr_table in Hin. apply in_flat_map in Hin.
  destruct Hin as [[j a] [_ Hin]]. cbn [fst snd] in Hin. apply in_map_iff in Hin. destruct Hin as [kv [E Hkv]].
  inversion E; subst. apply number_from_snd in Hkv. unfold dnf_variants in Hkv. apply filter_In in Hkv.
  destruct Hkv as [Hkv _]. apply in_map_iff in Hkv. destruct Hkv as [d [<- Hd]]. cbn [dnf_variant a_pre a_effs].
  apply andb_true_iff. split.
  - apply forallb_forall. intros x Hx. rewrite (Hp a d x Hd Hx). reflexivity.
  - apply forallb_forall. intros e' He. apply in_flat_map in He. destruct He as [e [_ He]]. unfold split_effect in He.
    destruct (is_uncond e) eqn:Eu.
    + destruct He as [<-|[]]. unfold is_uncond in Eu. apply is_true_eq in Eu. rewrite Eu. reflexivity.
    + apply in_map_iff in He. destruct He as [c [<- Hcin]]. cbn [set_cond e_cond]. rewrite (Hc _ _ Hcin). reflexivity.
Qed.
