(* Proofs about the UPState model (C36): refinement to a finite map with defaults. *)
From Coq Require Import List ZArith NArith Bool Lia Permutation.
Import ListNotations.
Require Import UPV.Model.State.

Lemma gf_eqb_eq a b : gf_eqb a b = true <-> a = b.
Proof.
  unfold gf_eqb; destruct a as [a1 a2], b as [b1 b2]; simpl.
  rewrite andb_true_iff, !N.eqb_eq. split; [intros [-> ->]; reflexivity | intros H; inversion H; auto].
Qed.
Lemma gf_eqb_refl a : gf_eqb a a = true.
Proof. apply gf_eqb_eq; reflexivity. Qed.
Lemma gf_eqb_neq a b : gf_eqb a b = false <-> a <> b.
Proof.
  split; intros H.
  - intros E. apply gf_eqb_eq in E. congruence.
  - destruct (gf_eqb a b) eqn:E; [apply gf_eqb_eq in E; contradiction | reflexivity].
Qed.

Definition keys (d : dict) : list gf := map fst d.
Definition ndk (d : dict) : Prop := NoDup (keys d).

Lemma lookup_app k a b :
  lookup k (a ++ b) = match lookup k a with Some v => Some v | None => lookup k b end.
Proof.
  induction a as [|[k' v] a IH]; simpl; [reflexivity|].
  destruct (gf_eqb k k'); [reflexivity | exact IH].
Qed.

Lemma lookup_none_notin k d : lookup k d = None <-> ~ In k (keys d).
Proof.
  induction d as [|[k' v] d IH]; simpl; [tauto|].
  destruct (gf_eqb k k') eqn:E.
  - apply gf_eqb_eq in E; subst. split; [discriminate | intros H; exfalso; apply H; auto].
  - apply gf_eqb_neq in E. rewrite IH. split; [intros H [H1|H1]; [congruence|auto] | tauto].
Qed.

Lemma lookup_in k v d : lookup k d = Some v -> In (k, v) d.
Proof.
  induction d as [|[k' v'] d IH]; simpl; [discriminate|].
  destruct (gf_eqb k k') eqn:E.
  - apply gf_eqb_eq in E; subst. intros H; inversion H; auto.
  - auto.
Qed.

Lemma in_lookup k v d : ndk d -> In (k, v) d -> lookup k d = Some v.
Proof.
  unfold ndk, keys. induction d as [|[k' v'] d IH]; simpl; intros ND HI; [tauto|].
  inversion ND as [|? ? Hn ND']; subst.
  destruct HI as [HI|HI].
  - inversion HI; subst. rewrite gf_eqb_refl; reflexivity.
  - destruct (gf_eqb k k') eqn:E.
    + apply gf_eqb_eq in E; subst. exfalso; apply Hn. change k' with (fst (k', v)). apply in_map; exact HI.
    + auto.
Qed.

Lemma lookup_setdefaults k d : forall acc,
  lookup k (setdefaults acc d) = match lookup k acc with Some v => Some v | None => lookup k d end.
Proof.
  induction d as [|[k' v'] d IH]; intros acc; simpl.
  - destruct (lookup k acc); reflexivity.
  - destruct (lookup k' acc) eqn:E.
    + rewrite IH. destruct (lookup k acc) eqn:E2; [reflexivity|].
      destruct (gf_eqb k k') eqn:E3; [apply gf_eqb_eq in E3; subst; congruence | reflexivity].
    + rewrite IH, lookup_app. destruct (lookup k acc); [reflexivity|]. simpl.
      destruct (gf_eqb k k'); reflexivity.
Qed.

Lemma NoDup_snoc {A} (l : list A) x : NoDup l -> ~ In x l -> NoDup (l ++ [x]).
Proof.
  induction l as [|a l IH]; simpl; intros ND HN; [constructor; [tauto|constructor]|].
  inversion ND as [|? ? Ha ND']; subst. constructor.
  - rewrite in_app_iff; simpl. intros [H|[H|[]]]; [tauto | subst; tauto].
  - apply IH; tauto.
Qed.

Lemma ndk_app_single acc k v : ndk acc -> lookup k acc = None -> ndk (acc ++ [(k, v)]).
Proof.
  unfold ndk, keys. intros ND HN. rewrite map_app; simpl.
  apply NoDup_snoc; [exact ND | apply lookup_none_notin; exact HN].
Qed.

Lemma ndk_setdefaults d : forall acc, ndk acc -> ndk (setdefaults acc d).
Proof.
  induction d as [|[k v] d IH]; intros acc ND; simpl; [exact ND|].
  destruct (lookup k acc) eqn:E; [apply IH; exact ND | apply IH, ndk_app_single; assumption].
Qed.

Lemma ndk_nil : ndk [].
Proof. constructor. Qed.

Lemma ndk_filter p d : ndk d -> ndk (filter p d).
Proof.
  unfold ndk, keys. induction d as [|[k v] d IH]; simpl; intros ND; [constructor|].
  inversion ND as [|? ? Hn ND']; subst.
  destruct (p (k, v)); simpl; [constructor|]; auto.
  intros HI. apply Hn. apply in_map_iff in HI. destruct HI as [[k2 v2] [E HI]]. simpl in E; subst.
  apply filter_In in HI. destruct HI as [HI _]. change k with (fst (k, v2)). apply in_map; exact HI.
Qed.

Lemma lookup_filter p k d : ndk d ->
  lookup k (filter p d) = match lookup k d with Some v => if p (k, v) then Some v else None | None => None end.
Proof.
  unfold ndk, keys. induction d as [|[k' v'] d IH]; simpl; intros ND; [reflexivity|].
  inversion ND as [|? ? Hn ND']; subst.
  destruct (gf_eqb k k') eqn:E.
  - apply gf_eqb_eq in E; subst. destruct (p (k', v')) eqn:Ep; simpl.
    + rewrite gf_eqb_refl; reflexivity.
    + rewrite IH by exact ND'. apply lookup_none_notin in Hn. rewrite Hn. reflexivity.
  - destruct (p (k', v')); simpl; [rewrite E|]; apply IH; exact ND'.
Qed.

Lemma lookup_collect k s : forall acc,
  lookup k (collect acc s) = match lookup k acc with Some v => Some v | None => get_chain s k end.
Proof.
  induction s as [vs | vs f IH]; intros acc; simpl.
  - apply lookup_setdefaults.
  - rewrite IH, lookup_setdefaults. destruct (lookup k acc); [reflexivity|]. destruct (lookup k vs); reflexivity.
Qed.

Lemma ndk_collect s : forall acc, ndk acc -> ndk (collect acc s).
Proof.
  induction s as [vs | vs f IH]; intros acc ND; simpl; [apply ndk_setdefaults; exact ND|].
  apply IH, ndk_setdefaults; exact ND.
Qed.

(* a value that was filtered out because it equals the default is still what get_value returns *)
Lemma filtered_default D k (o : option Z) :
  match (match o with Some v => if nondefault D (k, v) then Some v else None | None => None end) with
  | Some v => Some v
  | None => lookup_sym (fst k) D
  end = match o with Some v => Some v | None => lookup_sym (fst k) D end.
Proof.
  destruct o as [v|]; [|reflexivity]. unfold nondefault; simpl.
  destruct (lookup_sym (fst k) D) as [d|] eqn:E; [|reflexivity].
  destruct (d =? v)%Z eqn:E2; simpl; [apply Z.eqb_eq in E2; subst; reflexivity | reflexivity].
Qed.

Lemma get_value_root D vs k :
  get_value D (mk_root D vs) k = match lookup k vs with Some v => Some v | None => lookup_sym (fst k) D end.
Proof.
  unfold get_value, mk_root; simpl.
  rewrite lookup_filter by (apply ndk_setdefaults, ndk_nil).
  rewrite lookup_setdefaults; simpl. apply filtered_default.
Qed.

(* make_child: the child answers with the update when it has one, with the parent otherwise; for EVERY ancestor limit *)
Theorem get_value_make_child D limit s upd k :
  get_value D (make_child D limit s upd) k =
  match lookup k upd with Some v => Some v | None => get_value D s k end.
Proof.
  unfold make_child. destruct (must_condense limit s).
  - unfold get_value at 1; simpl.
    rewrite lookup_filter by (apply ndk_collect, ndk_setdefaults, ndk_nil).
    rewrite lookup_collect, lookup_setdefaults; simpl.
    rewrite filtered_default. unfold get_value. destruct (lookup k upd); [reflexivity|].
    destruct (get_chain s k); reflexivity.
  - unfold get_value; simpl. rewrite lookup_setdefaults; simpl.
    destruct (lookup k upd); reflexivity.
Qed.

(* _condense_state (run by hash()/repr(), in place) never changes any answer *)
Theorem get_value_condense D s k : get_value D (condense D s) k = get_value D s k.
Proof.
  destruct s as [vs | vs f]; [reflexivity|].
  unfold condense, get_value at 1. cbn [get_chain].
  rewrite lookup_filter by (apply ndk_collect, ndk_nil).
  rewrite lookup_collect; cbn [lookup].
  rewrite filtered_default. reflexivity.
Qed.

(* a child only depends on what its father ANSWERS, not on how the father is represented: hashing or printing
   an ancestor (which condenses it in place) cannot change the child *)
Theorem child_father_ext D vs f f' :
  (forall k, get_value D f k = get_value D f' k) ->
  forall k, get_value D (Child vs f) k = get_value D (Child vs f') k.
Proof.
  intros H k. specialize (H k). unfold get_value in *; simpl.
  destruct (lookup k vs); [reflexivity | exact H].
Qed.

Inductive reach (D : defaults) : ustate -> dict -> list dict -> Prop :=
| reach_root vs : reach D (mk_root D vs) vs []
| reach_child limit s r h upd : reach D s r h -> reach D (make_child D limit s upd) r (h ++ [upd])
| reach_condense s r h : reach D s r h -> reach D (condense D s) r h.

Lemma spec_get_snoc D r h upd k :
  spec_get D r (h ++ [upd]) k = match lookup k upd with Some v => Some v | None => spec_get D r h k end.
Proof.
  unfold spec_get. rewrite fold_left_app; simpl.
  destruct (lookup k upd); reflexivity.
Qed.

(* every state produced by any history of constructor / make_child (any limit, limits may even change along the way)
   / in-place condensations answers like the finite map "latest update, else root value, else default" *)
Theorem reach_refines_map D s r h : reach D s r h -> forall k, get_value D s k = spec_get D r h k.
Proof.
  induction 1 as [vs | limit s r h upd _ IH | s r h _ IH]; intros k.
  - rewrite get_value_root. reflexivity.
  - rewrite get_value_make_child, spec_get_snoc, IH. reflexivity.
  - rewrite get_value_condense. apply IH.
Qed.

Corollary history_refines_map D limit vs (h : list dict) k :
  get_value D (fold_left (make_child D limit) h (mk_root D vs)) k = spec_get D vs h k.
Proof.
  apply reach_refines_map.
  assert (G : forall h0 s r h1, reach D s r h1 -> reach D (fold_left (make_child D limit) h0 s) r (h1 ++ h0)).
  { induction h0 as [|u h0 IH]; intros s r h1 H; simpl; [rewrite app_nil_r; exact H|].
    replace (h1 ++ u :: h0) with ((h1 ++ [u]) ++ h0) by (rewrite <- app_assoc; reflexivity).
    apply IH. constructor. exact H. }
  apply (G h _ vs []). constructor.
Qed.

(* "raises for a fluent with neither": get_value is None exactly when the map has neither value nor default *)
Corollary missing_iff D s r h k : reach D s r h ->
  (get_value D s k = None <-> spec_get D r h k = None).
Proof. intros H. rewrite (reach_refines_map D s r h H k). tauto. Qed.

(* ------------------------------------------------------------------ equality and hash *)
Definition canonical (D : defaults) (d : dict) : Prop :=
  ndk d /\ forall kv, In kv d -> nondefault D kv = true.

Lemma values_of_canonical_child D vs f : canonical D (values_of D (Child vs f)).
Proof.
  unfold values_of, condense. split.
  - apply ndk_filter, ndk_collect, ndk_nil.
  - intros kv HI. apply filter_In in HI. tauto.
Qed.

(* well-formed: root dictionaries are canonical (established by the constructor and by make_child) *)
Fixpoint wf (D : defaults) (s : ustate) : Prop :=
  match s with
  | Root vs => canonical D vs
  | Child _ f => wf D f
  end.

Lemma wf_mk_root D vs : wf D (mk_root D vs).
Proof.
  simpl. split; [apply ndk_filter, ndk_setdefaults, ndk_nil | intros kv HI; apply filter_In in HI; tauto].
Qed.
Lemma wf_make_child D limit s upd : wf D s -> wf D (make_child D limit s upd).
Proof.
  intros H. unfold make_child. destruct (must_condense limit s); simpl; [|exact H].
  split; [apply ndk_filter, ndk_collect, ndk_setdefaults, ndk_nil | intros kv HI; apply filter_In in HI; tauto].
Qed.
Lemma wf_condense D s : wf D s -> wf D (condense D s).
Proof.
  destruct s as [vs|vs f]; [simpl; auto|]. intros _. unfold condense, wf.
  split; [apply ndk_filter, ndk_collect, ndk_nil | intros kv HI; apply filter_In in HI; tauto].
Qed.
Lemma reach_wf D s r h : reach D s r h -> wf D s.
Proof. induction 1; [apply wf_mk_root | apply wf_make_child; assumption | apply wf_condense; assumption]. Qed.

Lemma values_of_canonical D s : wf D s -> canonical D (values_of D s).
Proof. destruct s as [vs|vs f]; [simpl; auto | intros _; apply values_of_canonical_child]. Qed.

Lemma get_value_values_of D s k :
  match lookup k (values_of D s) with Some v => Some v | None => lookup_sym (fst k) D end = get_value D s k.
Proof.
  rewrite <- (get_value_condense D s k). unfold values_of, get_value.
  destruct (condense D s) as [vs|vs f] eqn:E; [reflexivity|].
  destruct s; simpl in E; discriminate.
Qed.

(* on canonical dictionaries, "same answers (with defaults)" is the same as "same bindings" *)
Lemma canonical_same_lookup D a b : canonical D a -> canonical D b ->
  (forall k, match lookup k a with Some v => Some v | None => lookup_sym (fst k) D end
           = match lookup k b with Some v => Some v | None => lookup_sym (fst k) D end) ->
  forall k, lookup k a = lookup k b.
Proof.
  intros [Na Ca] [Nb Cb] H k. specialize (H k).
  assert (X : forall d, (forall kv, In kv d -> nondefault D kv = true) -> forall v, lookup k d = Some v ->
              lookup_sym (fst k) D <> Some v).
  { intros d Cd v Hl Hs. apply lookup_in in Hl. apply Cd in Hl. unfold nondefault in Hl; simpl in Hl.
    rewrite Hs in Hl. rewrite Z.eqb_refl in Hl. discriminate. }
  destruct (lookup k a) as [va|] eqn:Ea, (lookup k b) as [vb|] eqn:Eb; try congruence.
  - exfalso. apply (X a Ca va Ea). congruence.
  - exfalso. apply (X b Cb vb Eb). congruence.
Qed.

Lemma dict_incl_spec a b :
  dict_incl a b = true <-> (forall k v, In (k, v) a -> lookup k b = Some v).
Proof.
  unfold dict_incl. rewrite forallb_forall. split.
  - intros H k v HI. specialize (H (k, v) HI). simpl in H.
    destruct (lookup k b) as [v'|]; [|discriminate]. apply Z.eqb_eq in H. congruence.
  - intros H [k v] HI. simpl. rewrite (H k v HI). apply Z.eqb_refl.
Qed.

Lemma same_lookup_perm a b : ndk a -> ndk b -> (forall k, lookup k a = lookup k b) -> Permutation a b.
Proof.
  intros Na Nb H. apply NoDup_Permutation.
  - unfold ndk, keys in Na. eapply NoDup_map_inv; exact Na.
  - unfold ndk, keys in Nb. eapply NoDup_map_inv; exact Nb.
  - intros [k v]. split; intros HI.
    + apply lookup_in. rewrite <- H. apply in_lookup; assumption.
    + apply lookup_in. rewrite H. apply in_lookup; assumption.
Qed.

Lemma dict_eqb_spec a b : ndk a -> ndk b ->
  (dict_eqb a b = true <-> forall k, lookup k a = lookup k b).
Proof.
  intros Na Nb. unfold dict_eqb. rewrite !andb_true_iff, !dict_incl_spec, Nat.eqb_eq. split.
  - intros [[_ Hab] Hba] k.
    destruct (lookup k a) as [v|] eqn:E.
    + symmetry. apply Hab. apply lookup_in; exact E.
    + destruct (lookup k b) as [v|] eqn:E2; [|reflexivity].
      apply lookup_in, Hba in E2. congruence.
  - intros H. split; [split|].
    + apply Permutation_length, same_lookup_perm; assumption.
    + intros k v HI. rewrite <- H. apply in_lookup; assumption.
    + intros k v HI. rewrite H. apply in_lookup; assumption.
Qed.

Lemma fold_xor_perm (h : gf * Z -> Z) a b : Permutation a b ->
  fold_right (fun kv acc => Z.lxor (h kv) acc) 0%Z a = fold_right (fun kv acc => Z.lxor (h kv) acc) 0%Z b.
Proof.
  induction 1 as [| x l l' _ IH | x y l | l l' l'' _ IH1 _ IH2]; simpl.
  - reflexivity.
  - rewrite IH; reflexivity.
  - rewrite <- (Z.lxor_assoc (h y)), <- (Z.lxor_assoc (h x)), (Z.lxor_comm (h y) (h x)). reflexivity.
  - congruence.
Qed.

Definition same_map (D : defaults) (s t : ustate) : Prop := forall k, get_value D s k = get_value D t k.

Lemma same_map_lookup D s t : wf D s -> wf D t -> same_map D s t ->
  forall k, lookup k (values_of D s) = lookup k (values_of D t).
Proof.
  intros Ws Wt H. apply (canonical_same_lookup D); try (apply values_of_canonical; assumption).
  intros k. rewrite !get_value_values_of. apply H.
Qed.

(* two states that give every fluent the same value have the same hash, whatever Python's item hash is *)
Theorem same_map_same_hash h D s t : wf D s -> wf D t -> same_map D s t -> state_hash h D s = state_hash h D t.
Proof.
  intros Ws Wt H. unfold state_hash. apply fold_xor_perm.
  apply same_lookup_perm; try (apply values_of_canonical; assumption).
  apply same_map_lookup; assumption.
Qed.

(* == holds iff every fluent has the same value (or is missing) in both states *)
Theorem state_eq_iff_same_map h D s t : wf D s -> wf D t -> (state_eq h D s t = true <-> same_map D s t).
Proof.
  intros Ws Wt. unfold state_eq. rewrite andb_true_iff.
  pose proof (values_of_canonical D s Ws) as [Ns _]. pose proof (values_of_canonical D t Wt) as [Nt _].
  rewrite (dict_eqb_spec _ _ Ns Nt). split.
  - intros [_ H] k. rewrite <- !get_value_values_of, H. reflexivity.
  - intros H. split; [apply Z.eqb_eq, same_map_same_hash; assumption | apply same_map_lookup; assumption].
Qed.
