(* The side conditions of the soundness theorem and their preservation by the simplifier.

   [wfx tau QT S e]  (a boolean, computable check):
     - every variable occurrence [EVar x ty] has ty = tau x and x is in the scope S (so free_vars e is inside S),
     - every quantifier binds pairwise distinct variables, each with type tau x, of a quantifiable type (QT: the
       types that have at least one object), none of them already in scope (no shadowing),
     - arguments of fluents and interpreted functions contain no quantifier.
   These are exactly what makes FNode.substitute capture-free where walk_exists uses it. *)
From Coq Require Import List ZArith NArith QArith Qcanon Bool Lia.
Import ListNotations.
Require Import UPV.Core.Expr UPV.Core.Eval UPV.Proofs.Eval_lemmas UPV.Walkers.Simplify UPV.Proofs.Simplify_base
  UPV.Proofs.Simplify_fv UPV.Proofs.Simplify_sem.
Local Open Scope nat_scope.

Fixpoint qfree (e : expr) : bool :=
  match e with
  | EBool _ | EInt _ | EReal _ | EObj _ | EParam _ | EVar _ _ => true
  | EFluent _ l | EIFun _ l | EAnd l | EOr l | EPlus l | ETimes l => forallb qfree l
  | ENot a | EAlways a | ESometime a | EAtMostOnce a => qfree a
  | EExists _ _ | EForall _ _ => false
  | EImplies a b | EIff a b | EMinus a b | EDiv a b | ELe a b | ELt a b | EEquals a b
  | ESometimeBefore a b | ESometimeAfter a b => qfree a && qfree b
  end.

Fixpoint nodupb (l : list N) : bool :=
  match l with [] => true | x :: r => negb (memN x r) && nodupb r end.

Definition binders_ok (tau : N -> N) (QT : N -> bool) (S : list N) (vs : list (N * N)) : bool :=
  forallb (fun p => (snd p =? tau (fst p))%N && QT (snd p) && negb (memN (fst p) S)) vs && nodupb (map fst vs).

Fixpoint wfx (tau : N -> N) (QT : N -> bool) (S : list N) (e : expr) {struct e} : bool :=
  match e with
  | EBool _ | EInt _ | EReal _ | EObj _ | EParam _ => true
  | EVar x ty => (ty =? tau x)%N && memN x S
  | EFluent _ l | EIFun _ l => forallb (fun a => qfree a && wfx tau QT S a) l
  | EAnd l | EOr l | EPlus l | ETimes l => forallb (wfx tau QT S) l
  | ENot a | EAlways a | ESometime a | EAtMostOnce a => wfx tau QT S a
  | EExists vs a | EForall vs a => binders_ok tau QT S vs && wfx tau QT (map fst vs ++ S) a
  | EImplies a b | EIff a b | EMinus a b | EDiv a b | ELe a b | ELt a b | EEquals a b
  | ESometimeBefore a b | ESometimeAfter a b => wfx tau QT S a && wfx tau QT S b
  end.

Lemma nodupb_NoDup l : nodupb l = true <-> NoDup l.
Proof.
  induction l as [|x l IH]; simpl; [split; [constructor|reflexivity]|].
  rewrite andb_true_iff, negb_true_iff, memN_false, IH. split.
  - intros [A B]. constructor; assumption.
  - intros H. inversion H; auto.
Qed.

Lemma binders_ok_spec tau QT S vs :
  binders_ok tau QT S vs = true <->
  (forall p, In p vs -> snd p = tau (fst p) /\ QT (snd p) = true /\ ~ In (fst p) S) /\ NoDup (map fst vs).
Proof.
  unfold binders_ok. rewrite andb_true_iff, forallb_forall, nodupb_NoDup. split; intros [A B]; (split; [|exact B]).
  - intros p Hp. specialize (A p Hp). rewrite !andb_true_iff, N.eqb_eq, negb_true_iff, memN_false in A. tauto.
  - intros p Hp. specialize (A p Hp). rewrite !andb_true_iff, N.eqb_eq, negb_true_iff, memN_false. tauto.
Qed.

Section WF.
  Variables (tau : N -> N) (QT : N -> bool).
  Notation wf := (wfx tau QT).

  Lemma bvl_nil l : Forall (fun e => qfree e = true -> bvars e = []) l -> forallb qfree l = true -> bvl l = [].
  Proof.
    induction 1 as [|x l Hx _ IH]; intros Q; [reflexivity|]. cbn [forallb] in Q. apply andb_true_iff in Q.
    cbn [bvl flat_map]. rewrite (Hx (proj1 Q)). apply IH. tauto.
  Qed.

  Lemma qfree_bvars e : qfree e = true -> bvars e = [].
  Proof.
    induction e using expr_ind'; cbn [qfree]; intros Q; try reflexivity; try discriminate;
      try (apply andb_true_iff in Q; destruct Q as [Q1 Q2]; cbn [bvars]; rewrite IHe1, IHe2; auto; fail);
      try (cbn [bvars]; auto; fail).
    - rewrite bv_EFluent. apply bvl_nil; assumption.
    - rewrite bv_EIFun. apply bvl_nil; assumption.
    - rewrite bv_EAnd. apply bvl_nil; assumption.
    - rewrite bv_EOr. apply bvl_nil; assumption.
    - rewrite bv_EPlus. apply bvl_nil; assumption.
    - rewrite bv_ETimes. apply bvl_nil; assumption.
  Qed.

  (* variables in scope are not rebound *)
  Lemma wf_bvars e : forall S, wf S e = true -> forall w, In w (bvars e) -> ~ In w S.
  Proof.
    induction e using expr_ind'; intros S W w Hb; cbn [bvars] in Hb; try (destruct Hb; fail); cbn [wfx] in W;
      try (apply andb_true_iff in W; destruct W as [W1 W2]; apply in_app_or in Hb; destruct Hb; eauto; fail);
      try (eauto; fail).
    - rewrite bv_fix in Hb. apply in_bvl in Hb. destruct Hb as [y [Hy Hw]].
      rewrite forallb_forall in W. specialize (W y Hy). apply andb_true_iff in W.
      rewrite Forall_forall in H. apply (H y Hy S); tauto.
    - rewrite bv_fix in Hb. apply in_bvl in Hb. destruct Hb as [y [Hy Hw]].
      rewrite forallb_forall in W. specialize (W y Hy). apply andb_true_iff in W.
      rewrite Forall_forall in H. apply (H y Hy S); tauto.
    - rewrite bv_fix in Hb. apply in_bvl in Hb. destruct Hb as [y [Hy Hw]].
      rewrite forallb_forall in W. rewrite Forall_forall in H. apply (H y Hy S); auto.
    - rewrite bv_fix in Hb. apply in_bvl in Hb. destruct Hb as [y [Hy Hw]].
      rewrite forallb_forall in W. rewrite Forall_forall in H. apply (H y Hy S); auto.
    - apply andb_true_iff in W. destruct W as [W1 W2]. apply binders_ok_spec in W1. destruct W1 as [W1 _].
      apply in_app_or in Hb. destruct Hb as [Hb|Hb].
      + apply in_map_iff in Hb. destruct Hb as [p [<- Hp]]. apply W1. exact Hp.
      + intros Hs. apply (IHe _ W2 w Hb). apply in_or_app. right. exact Hs.
    - apply andb_true_iff in W. destruct W as [W1 W2]. apply binders_ok_spec in W1. destruct W1 as [W1 _].
      apply in_app_or in Hb. destruct Hb as [Hb|Hb].
      + apply in_map_iff in Hb. destruct Hb as [p [<- Hp]]. apply W1. exact Hp.
      + intros Hs. apply (IHe _ W2 w Hb). apply in_or_app. right. exact Hs.
    - rewrite bv_fix in Hb. apply in_bvl in Hb. destruct Hb as [y [Hy Hw]].
      rewrite forallb_forall in W. rewrite Forall_forall in H. apply (H y Hy S); auto.
    - rewrite bv_fix in Hb. apply in_bvl in Hb. destruct Hb as [y [Hy Hw]].
      rewrite forallb_forall in W. rewrite Forall_forall in H. apply (H y Hy S); auto.
  Qed.

  (* free variables are in scope *)
  Lemma wf_fv e : forall S, wf S e = true -> forall w, In w (free_vars e) -> In w S.
  Proof.
    induction e using expr_ind'; intros S W w Hf; cbn [wfx] in W;
      try (cbn [free_vars] in Hf; destruct Hf; fail);
      try (cbn [free_vars] in Hf; apply andb_true_iff in W; destruct W as [W1 W2]; apply in_app_or in Hf; destruct Hf; eauto; fail);
      try (cbn [free_vars] in Hf; eauto; fail).
    - cbn [free_vars] in Hf. destruct Hf as [<-|[]]. apply andb_true_iff in W. apply memN_In. tauto.
    - rewrite fv_EFluent in Hf. apply in_fvl in Hf. destruct Hf as [y [Hy Hw]].
      rewrite forallb_forall in W. specialize (W y Hy). apply andb_true_iff in W.
      rewrite Forall_forall in H. apply (H y Hy S); tauto.
    - rewrite fv_EIFun in Hf. apply in_fvl in Hf. destruct Hf as [y [Hy Hw]].
      rewrite forallb_forall in W. specialize (W y Hy). apply andb_true_iff in W.
      rewrite Forall_forall in H. apply (H y Hy S); tauto.
    - rewrite fv_EAnd in Hf. apply in_fvl in Hf. destruct Hf as [y [Hy Hw]].
      rewrite forallb_forall in W. rewrite Forall_forall in H. apply (H y Hy S); auto.
    - rewrite fv_EOr in Hf. apply in_fvl in Hf. destruct Hf as [y [Hy Hw]].
      rewrite forallb_forall in W. rewrite Forall_forall in H. apply (H y Hy S); auto.
    - rewrite fv_EExists in Hf. apply in_fv_quant in Hf. apply andb_true_iff in W. destruct W as [_ W2].
      destruct Hf as [Hf Hn]. apply (IHe _ W2) in Hf. apply in_app_or in Hf. tauto.
    - rewrite fv_EForall in Hf. apply in_fv_quant in Hf. apply andb_true_iff in W. destruct W as [_ W2].
      destruct Hf as [Hf Hn]. apply (IHe _ W2) in Hf. apply in_app_or in Hf. tauto.
    - rewrite fv_EPlus in Hf. apply in_fvl in Hf. destruct Hf as [y [Hy Hw]].
      rewrite forallb_forall in W. rewrite Forall_forall in H. apply (H y Hy S); auto.
    - rewrite fv_ETimes in Hf. apply in_fvl in Hf. destruct Hf as [y [Hy Hw]].
      rewrite forallb_forall in W. rewrite Forall_forall in H. apply (H y Hy S); auto.
  Qed.

  (* change of scope: the new scope must contain the free variables and avoid the bound ones *)
  Lemma wf_rescope e : forall S S', wf S e = true ->
    (forall w, In w (free_vars e) -> In w S') -> (forall w, In w (bvars e) -> ~ In w S') -> wf S' e = true.
  Proof.
    induction e using expr_ind'; intros S S' W HF HB; cbn [wfx] in *; try reflexivity;
      try (apply andb_true_iff in W; destruct W as [W1 W2]; apply andb_true_iff; split;
           [eapply IHe1; [exact W1| |]|eapply IHe2; [exact W2| |]];
           intros w Hw; [apply HF|apply HB|apply HF|apply HB]; cbn [free_vars bvars]; apply in_or_app; auto; fail);
      try (eapply IHe; [exact W| |]; intros w Hw; [apply HF|apply HB]; cbn [free_vars bvars]; exact Hw; fail).
    - apply andb_true_iff in W. destruct W as [W1 W2]. rewrite W1. apply memN_In. apply HF. left. reflexivity.
    - rewrite forallb_forall in *. intros y Hy. specialize (W y Hy). apply andb_true_iff in W. destruct W as [W1 W2].
      rewrite W1. rewrite Forall_forall in H. apply (H y Hy S S' W2).
      + intros w Hw. apply HF. rewrite fv_EFluent. apply in_fvl. eauto.
      + intros w Hw. apply HB. rewrite bv_EFluent. apply in_bvl. eauto.
    - rewrite forallb_forall in *. intros y Hy. specialize (W y Hy). apply andb_true_iff in W. destruct W as [W1 W2].
      rewrite W1. rewrite Forall_forall in H. apply (H y Hy S S' W2).
      + intros w Hw. apply HF. rewrite fv_EIFun. apply in_fvl. eauto.
      + intros w Hw. apply HB. rewrite bv_EIFun. apply in_bvl. eauto.
    - rewrite forallb_forall in *. intros y Hy. rewrite Forall_forall in H. apply (H y Hy S S' (W y Hy)).
      + intros w Hw. apply HF. rewrite fv_EAnd. apply in_fvl. eauto.
      + intros w Hw. apply HB. rewrite bv_EAnd. apply in_bvl. eauto.
    - rewrite forallb_forall in *. intros y Hy. rewrite Forall_forall in H. apply (H y Hy S S' (W y Hy)).
      + intros w Hw. apply HF. rewrite fv_EOr. apply in_fvl. eauto.
      + intros w Hw. apply HB. rewrite bv_EOr. apply in_bvl. eauto.
    - apply andb_true_iff in W. destruct W as [W1 W2]. apply andb_true_iff. split.
      + apply binders_ok_spec in W1. apply binders_ok_spec. destruct W1 as [A B]. split; [|exact B].
        intros p Hp. destruct (A p Hp) as (A1 & A2 & A3). repeat split; auto.
        apply HB. cbn [bvars]. apply in_or_app. left. apply in_map. exact Hp.
      + eapply IHe; [exact W2| |].
        * intros w Hw. apply in_or_app. destruct (in_dec N.eq_dec w (map fst vs)); [left; assumption|right].
          apply HF. rewrite fv_EExists. apply in_fv_quant. tauto.
        * intros w Hw Hin. apply in_app_or in Hin. destruct Hin as [Hin|Hin].
          -- apply (wf_bvars _ _ W2 w Hw). apply in_or_app. left. exact Hin.
          -- apply (HB w); [cbn [bvars]; apply in_or_app; right; exact Hw|exact Hin].
    - apply andb_true_iff in W. destruct W as [W1 W2]. apply andb_true_iff. split.
      + apply binders_ok_spec in W1. apply binders_ok_spec. destruct W1 as [A B]. split; [|exact B].
        intros p Hp. destruct (A p Hp) as (A1 & A2 & A3). repeat split; auto.
        apply HB. cbn [bvars]. apply in_or_app. left. apply in_map. exact Hp.
      + eapply IHe; [exact W2| |].
        * intros w Hw. apply in_or_app. destruct (in_dec N.eq_dec w (map fst vs)); [left; assumption|right].
          apply HF. rewrite fv_EForall. apply in_fv_quant. tauto.
        * intros w Hw Hin. apply in_app_or in Hin. destruct Hin as [Hin|Hin].
          -- apply (wf_bvars _ _ W2 w Hw). apply in_or_app. left. exact Hin.
          -- apply (HB w); [cbn [bvars]; apply in_or_app; right; exact Hw|exact Hin].
    - rewrite forallb_forall in *. intros y Hy. rewrite Forall_forall in H. apply (H y Hy S S' (W y Hy)).
      + intros w Hw. apply HF. rewrite fv_EPlus. apply in_fvl. eauto.
      + intros w Hw. apply HB. rewrite bv_EPlus. apply in_bvl. eauto.
    - rewrite forallb_forall in *. intros y Hy. rewrite Forall_forall in H. apply (H y Hy S S' (W y Hy)).
      + intros w Hw. apply HF. rewrite fv_ETimes. apply in_fvl. eauto.
      + intros w Hw. apply HB. rewrite bv_ETimes. apply in_bvl. eauto.
  Qed.

  Lemma wf_incl_qfree t S S' : qfree t = true -> wf S t = true -> (forall w, In w S -> In w S') -> wf S' t = true.
  Proof.
    intros Q W HS. eapply wf_rescope; [exact W| |].
    - intros w Hw. apply HS. eapply wf_fv; eauto.
    - rewrite (qfree_bvars _ Q). intros w [].
  Qed.
End WF.
