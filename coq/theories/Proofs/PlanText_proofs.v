(* Proofs about Model/PlanText.v (C18, plans): the decimal codec and the plan text codec round trips. *)
From Coq Require Import List NArith ZArith QArith Qcanon Ascii Bool Lia NArithRing.
From Coq Require String.
Import ListNotations.
Require Import UPV.Model.PlanText.
Open Scope N_scope.

(* ------------------------------------------------------------------ characters *)

Ltac all_chars c := destruct c as [[] [] [] [] [] [] [] []]; vm_compute; intros; try reflexivity; try discriminate; auto.

(* a name character is not white space, not a line break, not a closing parenthesis *)
Lemma name_not_space c : is_name c = true -> is_space c = false.
Proof. all_chars c. Qed.
Lemma name_not_break c : is_name c = true -> is_break c = false.
Proof. all_chars c. Qed.
Lemma name_not_close c : is_name c = true -> (code c =? 41) = false.
Proof. all_chars c. Qed.
Lemma space_not_close c : is_space c = true -> (code c =? 41) = false.
Proof. all_chars c. Qed.

(* digit-or-point characters (what print_dec emits) *)
Definition numch (c : ascii) : bool := is_digit c || (code c =? 46).
Lemma numch_not_space c : numch c = true -> is_space c = false.
Proof. all_chars c. Qed.
Lemma numch_not_break c : numch c = true -> is_break c = false.
Proof. all_chars c. Qed.
Lemma numch_low c : numch c = true -> low_ok c = true.
Proof. all_chars c. Qed.
Lemma numch_not_open c : numch c = true -> (code c =? 40) = false.
Proof. all_chars c. Qed.
Lemma numch_not_semi c : numch c = true -> (code c =? 59) = false.
Proof. all_chars c. Qed.

Lemma low_ok_lower c : low_ok c = true -> lower c = c.
Proof. unfold low_ok. apply Ascii.eqb_eq. Qed.

Lemma map_lower_id l : forallb low_ok l = true -> map lower l = l.
Proof.
  induction l as [|c l IH]; simpl; [reflexivity|].
  intros H. apply andb_true_iff in H as [H1 H2]. rewrite (low_ok_lower _ H1), (IH H2). reflexivity.
Qed.

Lemma small_cases d : d < 10 -> d = 0 \/ d = 1 \/ d = 2 \/ d = 3 \/ d = 4 \/ d = 5 \/ d = 6 \/ d = 7 \/ d = 8 \/ d = 9.
Proof. lia. Qed.

Lemma dchar_digit d : d < 10 -> is_digit (dchar d) = true.
Proof. intros H. destruct (small_cases d H) as [E|[E|[E|[E|[E|[E|[E|[E|[E|E]]]]]]]]]; subst; reflexivity. Qed.
Lemma dchar_code d : d < 10 -> code (dchar d) - 48 = d.
Proof. intros H. destruct (small_cases d H) as [E|[E|[E|[E|[E|[E|[E|[E|[E|E]]]]]]]]]; subst; reflexivity. Qed.

(* ------------------------------------------------------------------ span / skip_ws / split_on *)

Definition head_sat (p : ascii -> bool) (l : str) : Prop :=
  match l with [] => True | c :: _ => p c = false end.

Lemma span_app p a rest :
  forallb p a = true -> head_sat p rest -> span p (a ++ rest) = (a, rest).
Proof.
  induction a as [|c a IH]; simpl; intros Ha Hr.
  - destruct rest as [|c r]; [reflexivity|]. simpl in *. rewrite Hr. reflexivity.
  - apply andb_true_iff in Ha as [H1 H2]. rewrite H1, (IH H2 Hr). reflexivity.
Qed.

Lemma skip_ws_id l : head_sat is_space l -> skip_ws l = l.
Proof. destruct l as [|c r]; simpl; [reflexivity|]. intros ->. reflexivity. Qed.

Lemma skip_ws_app a rest :
  forallb (fun c => negb (is_space c)) a = true -> head_sat is_space rest -> skip_ws (a ++ rest) = a ++ rest.
Proof.
  destruct a as [|c a]; simpl; intros Ha Hr; [apply skip_ws_id; exact Hr|].
  apply andb_true_iff in Ha as [H1 _]. apply negb_true_iff in H1. rewrite H1. reflexivity.
Qed.

Lemma split_on_ne p l : split_on p l <> [].
Proof.
  induction l as [|c l IH]; simpl; [discriminate|].
  destruct (p c); [discriminate|]. destruct (split_on p l); discriminate.
Qed.

Lemma split_on_none p tok :
  forallb (fun c => negb (p c)) tok = true -> split_on p tok = [tok].
Proof.
  induction tok as [|c t IH]; simpl; [reflexivity|].
  intros H. apply andb_true_iff in H as [H1 H2]. apply negb_true_iff in H1. rewrite H1, (IH H2). reflexivity.
Qed.

Lemma split_on_app p tok sep rest :
  forallb (fun c => negb (p c)) tok = true -> p sep = true ->
  split_on p (tok ++ sep :: rest) = tok :: split_on p rest.
Proof.
  induction tok as [|c t IH]; simpl; intros H Hs.
  - rewrite Hs. reflexivity.
  - apply andb_true_iff in H as [H1 H2]. apply negb_true_iff in H1. rewrite H1, (IH H2 Hs). reflexivity.
Qed.

Lemma forallb_app' {A} (f : A -> bool) a b : forallb f (a ++ b) = forallb f a && forallb f b.
Proof. induction a; simpl; [reflexivity|]. rewrite IHa, andb_assoc. reflexivity. Qed.

Lemma forallb_impl {A} (f g : A -> bool) l :
  (forall x, f x = true -> g x = true) -> forallb f l = true -> forallb g l = true.
Proof.
  intros H. induction l; simpl; [reflexivity|]. intros E. apply andb_true_iff in E as [E1 E2].
  rewrite (H _ E1), (IHl E2). reflexivity.
Qed.

(* ------------------------------------------------------------------ digits *)

Definition val_digits (ds : list N) : N := fold_left (fun a d => 10 * a + d) ds 0.

Lemma val_digits_snoc l d : val_digits (l ++ [d]) = 10 * val_digits l + d.
Proof. unfold val_digits. rewrite fold_left_app. reflexivity. Qed.

Lemma digits_fuel_app f : forall n acc, digits_fuel f n acc = digits_fuel f n [] ++ acc.
Proof.
  induction f as [|f IH]; intros n acc; simpl; [reflexivity|].
  destruct (n <? 10); [reflexivity|].
  rewrite (IH (n / 10) (n mod 10 :: acc)), (IH (n / 10) [n mod 10]), <- app_assoc. reflexivity.
Qed.

(* int(str(n)) = n, whatever the fuel *)
Lemma val_digits_fuel f : forall n, val_digits (digits_fuel f n []) = n.
Proof.
  induction f as [|f IH]; intros n; simpl.
  - unfold val_digits; simpl. lia.
  - destruct (n <? 10) eqn:E.
    + unfold val_digits; simpl. lia.
    + rewrite digits_fuel_app, val_digits_snoc, IH.
      pose proof (N.div_mod' n 10). lia.
Qed.

Lemma val_digits_digits n : val_digits (digits n) = n.
Proof. apply val_digits_fuel. Qed.

(* every element is a decimal digit when the fuel is the bit size *)
Lemma digits_fuel_small f : forall n acc,
  n < 2 ^ N.of_nat f -> Forall (fun d => d < 10) acc -> Forall (fun d => d < 10) (digits_fuel f n acc).
Proof.
  induction f as [|f IH]; intros n acc Hn Hacc.
  - simpl in *. constructor; [lia|exact Hacc].
  - cbn [digits_fuel]. destruct (n <? 10) eqn:E.
    + apply N.ltb_lt in E. constructor; assumption.
    + apply IH.
      * rewrite Nat2N.inj_succ, N.pow_succ_r' in Hn.
        apply N.div_lt_upper_bound; [lia|]. lia.
      * constructor; [|exact Hacc]. apply N.mod_lt. lia.
Qed.

Lemma digits_small n : Forall (fun d => d < 10) (digits n).
Proof.
  unfold digits. apply digits_fuel_small; [|constructor].
  rewrite N2Nat.id. apply N.size_gt.
Qed.

Lemma digits_fuel_ne f n acc : digits_fuel f n acc <> [].
Proof.
  revert n acc. induction f as [|f IH]; intros n acc; simpl; [discriminate|].
  destruct (n <? 10); [discriminate|apply IH].
Qed.

(* reading digit characters *)
Lemma val_chars_acc l : forall a,
  Forall (fun d => d < 10) l ->
  fold_left (fun a c => 10 * a + (code c - 48)) (map dchar l) a = fold_left (fun a d => 10 * a + d) l a.
Proof.
  induction l as [|d l IH]; intros a H; simpl; [reflexivity|].
  inversion H; subst. rewrite dchar_code by assumption. apply IH. assumption.
Qed.

Lemma val_chars_digits l : Forall (fun d => d < 10) l -> val_chars (map dchar l) = val_digits l.
Proof. apply val_chars_acc. Qed.

Lemma forallb_digit l : Forall (fun d => d < 10) l -> forallb is_digit (map dchar l) = true.
Proof.
  induction 1; simpl; [reflexivity|]. rewrite dchar_digit by assumption. assumption.
Qed.

Lemma val_digits_zeros j ds : val_digits (repeat 0 j ++ ds) = val_digits ds.
Proof.
  unfold val_digits. rewrite fold_left_app.
  replace (fold_left (fun a d : N => 10 * a + d) (repeat 0 j) 0) with 0; [reflexivity|].
  induction j; simpl; [reflexivity|assumption].
Qed.

Lemma Forall_repeat0 j : Forall (fun d => d < 10) (repeat 0 j).
Proof. induction j; simpl; constructor; [lia|assumption]. Qed.

(* ------------------------------------------------------------------ numbers *)

(* what may follow a number in the line grammar: nothing, or a character that is neither a digit nor a point *)
Definition num_end (rest : str) : Prop := head_sat numch rest.

Lemma num_end_digit rest : num_end rest -> head_sat is_digit rest.
Proof.
  destruct rest as [|c r]; simpl; [auto|]. unfold numch. intros H. apply orb_false_iff in H. tauto.
Qed.

Lemma parse_num_int n rest :
  num_end rest -> parse_num (digit_chars n ++ rest) = Some (Qred (Z.of_N n # 1), rest).
Proof.
  intros Hr. unfold parse_num, digit_chars.
  rewrite span_app; [|apply forallb_digit, digits_small|apply num_end_digit, Hr].
  assert (Hne : is_nil (map dchar (digits n)) = false).
  { unfold digits. destruct (digits_fuel (N.to_nat (N.size n)) n []) eqn:E; [|reflexivity].
    exfalso. eapply digits_fuel_ne; eauto. }
  rewrite Hne.
  assert (Hv : mkdec (map dchar (digits n)) [] = Qred (Z.of_N n # 1)).
  { unfold mkdec. rewrite app_nil_r, val_chars_digits by apply digits_small. rewrite val_digits_digits. reflexivity. }
  destruct rest as [|c r]; [rewrite Hv; reflexivity|].
  simpl in Hr. unfold numch in Hr. apply orb_false_iff in Hr as [_ Hp]. rewrite Hp, Hv. reflexivity.
Qed.

Lemma firstn_skipn_len {A} (l : list A) j : (j <= List.length l)%nat -> List.length (skipn j l) = (List.length l - j)%nat.
Proof. intros. apply skipn_length. Qed.

Lemma firstn_map_ne {A B} (f : A -> B) j (l : list A) :
  (1 <= j)%nat -> (1 <= List.length l)%nat -> is_nil (map f (firstn j l)) = false.
Proof. destruct j; [lia|]. destruct l; simpl; [lia|reflexivity]. Qed.

Lemma parse_num_format ds k rest :
  Forall (fun d => d < 10) ds -> num_end rest ->
  parse_num (format_f ds k ++ rest) = Some (Qred (Z.of_N (val_digits ds) # pow10 k), rest).
Proof.
  intros Hds Hr. unfold format_f.
  set (pad := repeat 0 (S k - List.length ds) ++ ds).
  assert (Hlen : (S k <= List.length pad)%nat).
  { unfold pad. rewrite app_length, repeat_length. lia. }
  set (j := (List.length pad - k)%nat).
  assert (Hpad : Forall (fun d => d < 10) pad).
  { unfold pad. apply Forall_app. split; [apply Forall_repeat0|exact Hds]. }
  assert (Hip : Forall (fun d => d < 10) (firstn j pad)).
  { rewrite <- (firstn_skipn j pad) in Hpad. apply Forall_app in Hpad. tauto. }
  assert (Hfp : Forall (fun d => d < 10) (skipn j pad)).
  { rewrite <- (firstn_skipn j pad) in Hpad. apply Forall_app in Hpad. tauto. }
  unfold parse_num. rewrite <- app_assoc. cbn [app].
  rewrite span_app; [|apply forallb_digit, Hip|reflexivity].
  assert (Hne : is_nil (map dchar (firstn j pad)) = false).
  { apply firstn_map_ne; [unfold j; lia|lia]. }
  rewrite Hne. change (code "."%char =? 46) with true. cbn iota.
  rewrite span_app; [|apply forallb_digit, Hfp|apply num_end_digit, Hr].
  f_equal. f_equal. unfold mkdec.
  rewrite <- map_app, firstn_skipn, map_length, skipn_length.
  rewrite val_chars_digits by exact Hpad.
  unfold pad at 1. rewrite val_digits_zeros.
  replace (List.length pad - j)%nat with k by (unfold j; lia). reflexivity.
Qed.

Lemma find_k_sound f : forall d k k', find_k f d k = Some k' -> Npos (pow10 k') mod d = 0.
Proof.
  induction f as [|f IH]; intros d k k'; simpl.
  - destruct (N.pos (pow10 k) mod d =? 0) eqn:E; [|discriminate]. intros [= <-]. apply N.eqb_eq, E.
  - destruct (N.pos (pow10 k) mod d =? 0) eqn:E; [intros [= <-]; apply N.eqb_eq, E|apply IH].
Qed.

Lemma q_eqb_eq a b : q_eqb a b = true -> a = b.
Proof.
  destruct a, b. unfold q_eqb; simpl. intros H. apply andb_true_iff in H as [H1 H2].
  apply Z.eqb_eq in H1. apply Pos.eqb_eq in H2. subst. reflexivity.
Qed.

(* the heart of theorem 1: reading back what print_dec wrote, with any admissible continuation *)
Lemma print_dec_parse q s rest :
  q_reduced q = true -> print_dec q = Some s -> num_end rest -> parse_num (s ++ rest) = Some (q, rest).
Proof.
  intros Hred Hp Hr. apply q_eqb_eq in Hred.
  unfold print_dec in Hp.
  destruct (Qnum q <? 0)%Z eqn:Eneg; [discriminate|]. apply Z.ltb_ge in Eneg.
  destruct (N.pos (Qden q) =? 1) eqn:Eden.
  - injection Hp as <-. rewrite parse_num_int by exact Hr.
    apply N.eqb_eq in Eden. injection Eden as Eden.
    rewrite Z2N.id by exact Eneg.
    rewrite <- Hred at 2. destruct q as [qn qd]. simpl in *. subst qd. reflexivity.
  - destruct (find_k (N.to_nat (N.size (N.pos (Qden q)))) (N.pos (Qden q)) 0) as [k|] eqn:Ek; [|discriminate].
    apply find_k_sound in Ek.
    set (m := Z.to_N (Qnum q) * (N.pos (pow10 k) / N.pos (Qden q))) in *.
    destruct (List.length (digits m) <=? 50)%nat; [|discriminate].
    injection Hp as <-.
    rewrite parse_num_format; [|apply digits_small|exact Hr].
    rewrite val_digits_digits. f_equal. f_equal.
    rewrite <- Hred. apply Qred_complete.
    unfold Qeq. cbn [Qnum Qden].
    apply N.div_exact in Ek; [|discriminate].
    assert (Hm : m * N.pos (Qden q) = Z.to_N (Qnum q) * N.pos (pow10 k)).
    { unfold m. rewrite Ek at 2. lia. }
    apply (f_equal Z.of_N) in Hm. rewrite !N2Z.inj_mul, Z2N.id in Hm by exact Eneg.
    exact Hm.
Qed.

Lemma parse_dec_print_dec q s :
  q_reduced q = true -> print_dec q = Some s -> parse_dec s = Some q.
Proof.
  intros Hred Hp. unfold parse_dec.
  rewrite <- (app_nil_r s). rewrite (print_dec_parse q s [] Hred Hp I). reflexivity.
Qed.

(* the characters print_dec emits *)
Lemma forallb_numch_digits l : Forall (fun d => d < 10) l -> forallb numch (map dchar l) = true.
Proof.
  intros H. eapply forallb_impl; [|apply forallb_digit, H].
  intros c Hc. unfold numch. rewrite Hc. reflexivity.
Qed.

Lemma print_dec_chars q s : print_dec q = Some s -> forallb numch s = true.
Proof.
  unfold print_dec.
  destruct (Qnum q <? 0)%Z; [discriminate|].
  destruct (N.pos (Qden q) =? 1).
  - intros [= <-]. apply forallb_numch_digits, digits_small.
  - destruct (find_k _ _ _) as [k|]; [|discriminate].
    destruct (_ <=? 50)%nat; [|discriminate]. intros [= <-].
    unfold format_f.
    set (pad := repeat 0 _ ++ _).
    assert (Hpad : Forall (fun d => d < 10) pad).
    { unfold pad. apply Forall_app. split; [apply Forall_repeat0|apply digits_small]. }
    set (j := (List.length pad - k)%nat).
    rewrite <- (firstn_skipn j pad) in Hpad. apply Forall_app in Hpad as [H1 H2].
    rewrite forallb_app'. cbn [forallb]. rewrite !forallb_numch_digits by assumption. reflexivity.
Qed.

(* ------------------------------------------------------------------ steps *)

Lemma wf_name_split s :
  wf_name s = true -> is_nil s = false /\ forallb is_name s = true /\ forallb low_ok s = true.
Proof.
  unfold wf_name. intros H. apply andb_true_iff in H as [H1 H2]. apply negb_true_iff in H1.
  split; [exact H1|].
  split; (eapply forallb_impl; [|exact H2]); intros x Hx; apply andb_true_iff in Hx; tauto.
Qed.

Lemma wf_args_split args :
  forallb wf_name args = true ->
  forallb (fun a => negb (is_nil a)) args = true /\ forallb (forallb is_name) args = true
  /\ forallb (forallb low_ok) args = true.
Proof.
  induction args as [|a r IH]; simpl; [auto|].
  intros H. apply andb_true_iff in H as [H1 H2].
  destruct (wf_name_split _ H1) as (A & B & C). destruct (IH H2) as (A' & B' & C').
  rewrite A, B, C, A', B', C'. auto.
Qed.

Lemma name_nospace s : forallb is_name s = true -> forallb (fun c => negb (is_space c)) s = true.
Proof. apply forallb_impl. intros x Hx. rewrite name_not_space by exact Hx. reflexivity. Qed.

Lemma split_flat : forall args name,
  forallb is_name name = true -> forallb (forallb is_name) args = true ->
  split_on is_space (name ++ flat_args args) = name :: args.
Proof.
  induction args as [|a r IH]; intros name Hn Ha.
  - cbn [flat_args]. rewrite app_nil_r. apply split_on_none, name_nospace, Hn.
  - cbn [flat_args forallb] in *. apply andb_true_iff in Ha as [Ha1 Ha2].
    rewrite split_on_app; [|apply name_nospace, Hn|reflexivity].
    rewrite IH by assumption. reflexivity.
Qed.

Lemma filter_all {A} (f : A -> bool) l : forallb f l = true -> filter f l = l.
Proof.
  induction l as [|x l IH]; simpl; [reflexivity|].
  intros H. apply andb_true_iff in H as [H1 H2]. rewrite H1, (IH H2). reflexivity.
Qed.

Lemma inner_chars (p : ascii -> bool) : forall args name,
  p " "%char = true -> (forall c, is_name c = true -> p c = true) ->
  forallb is_name name = true -> forallb (forallb is_name) args = true ->
  forallb p (name ++ flat_args args) = true.
Proof.
  induction args as [|a r IH]; intros name Hsp Hnm Hn Ha.
  - cbn [flat_args]. rewrite app_nil_r. eapply forallb_impl; [exact Hnm|exact Hn].
  - cbn [flat_args forallb] in *. apply andb_true_iff in Ha as [Ha1 Ha2].
    rewrite forallb_app'. cbn [forallb]. rewrite Hsp, (IH a) by assumption.
    rewrite (forallb_impl is_name p name Hnm Hn). reflexivity.
Qed.

Lemma inner_low : forall args name,
  forallb low_ok name = true -> forallb (forallb low_ok) args = true ->
  forallb low_ok (name ++ flat_args args) = true.
Proof.
  induction args as [|a r IH]; intros name Hn Ha.
  - cbn [flat_args]. rewrite app_nil_r. exact Hn.
  - cbn [flat_args forallb] in *. apply andb_true_iff in Ha as [Ha1 Ha2].
    rewrite forallb_app'. cbn [forallb]. rewrite Hn, (IH a) by assumption. reflexivity.
Qed.

Definition inner (s : step) : str := s_name s ++ flat_args (s_args s).

Lemma print_step_app s tail : print_step s ++ tail = "("%char :: inner s ++ ")"%char :: tail.
Proof. unfold print_step, inner. cbn [app]. rewrite <- !app_assoc. reflexivity. Qed.

Lemma print_step_eq s : print_step s = "("%char :: inner s ++ [")"%char].
Proof. rewrite <- (app_nil_r (print_step s)). apply print_step_app. Qed.

Lemma parse_call_open c r :
  (code c =? 40) = true ->
  parse_call (c :: r) =
  let (inner, rest) := span (fun c => negb (code c =? 41)) r in
  match rest with
  | _ :: rest' =>
      if forallb (fun c => is_space c || is_name c) inner then
        match words inner with
        | name :: args => Some (mkStep name args, rest')
        | [] => None
        end
      else None
  | [] => None
  end.
Proof. intros H. unfold parse_call. rewrite H. reflexivity. Qed.

Lemma parse_call_print s tail : wf_step s = true -> parse_call (print_step s ++ tail) = Some (s, tail).
Proof.
  intros Hwf. unfold wf_step in Hwf. apply andb_true_iff in Hwf as [Hn Ha].
  destruct (wf_name_split _ Hn) as (Hne & Hnm & _).
  destruct (wf_args_split _ Ha) as (Hane & Hanm & _).
  rewrite print_step_app, parse_call_open by reflexivity.
  assert (Hin : forallb (fun c => is_space c || is_name c) (inner s) = true).
  { apply inner_chars; auto. intros c Hc. rewrite Hc. apply orb_true_r. }
  rewrite span_app; [| |reflexivity].
  2:{ eapply forallb_impl; [|exact Hin]. intros c Hc. apply orb_true_iff in Hc as [Hc|Hc].
      - rewrite space_not_close by exact Hc. reflexivity.
      - rewrite name_not_close by exact Hc. reflexivity. }
  rewrite Hin. unfold words, inner. rewrite split_flat by assumption.
  rewrite filter_all; [destruct s; reflexivity|].
  cbn [forallb]. rewrite Hne, Hane. reflexivity.
Qed.

Lemma step_low s : wf_step s = true -> forallb low_ok (print_step s) = true.
Proof.
  intros Hwf. unfold wf_step in Hwf. apply andb_true_iff in Hwf as [Hn Ha].
  destruct (wf_name_split _ Hn) as (_ & _ & Hl). destruct (wf_args_split _ Ha) as (_ & _ & Hal).
  rewrite print_step_eq. cbn [forallb]. rewrite forallb_app'. unfold inner.
  rewrite inner_low by assumption. reflexivity.
Qed.

Lemma step_nobreak s : wf_step s = true -> forallb (fun c => negb (is_break c)) (print_step s) = true.
Proof.
  intros Hwf. unfold wf_step in Hwf. apply andb_true_iff in Hwf as [Hn Ha].
  destruct (wf_name_split _ Hn) as (_ & Hnm & _). destruct (wf_args_split _ Ha) as (_ & Hanm & _).
  rewrite print_step_eq. cbn [forallb]. rewrite forallb_app'. unfold inner.
  rewrite inner_chars; auto.
  intros c Hc. rewrite name_not_break by exact Hc. reflexivity.
Qed.

(* ------------------------------------------------------------------ sequential lines and plans *)

Lemma parse_line_seq s : wf_step s = true -> parse_line (print_step s) = LSeq s.
Proof.
  intros Hwf. unfold parse_line.
  assert (Hb : is_blank_line (print_step s) = false).
  { rewrite print_step_eq. reflexivity. }
  rewrite Hb, map_lower_id by (apply step_low, Hwf).
  unfold parse_seq_line. rewrite skip_ws_id by (rewrite print_step_eq; reflexivity).
  rewrite <- (app_nil_r (print_step s)), parse_call_print by exact Hwf. reflexivity.
Qed.

Lemma parse_line_nil : parse_line [] = LBlank.
Proof. reflexivity. Qed.

Lemma nl_break : is_break nl = true.
Proof. reflexivity. Qed.

Lemma lines_seq l :
  forallb wf_step l = true ->
  map parse_line (split_on is_break (print_seq l)) = map LSeq l ++ [LBlank].
Proof.
  induction l as [|s r IH]; intros H.
  - reflexivity.
  - cbn [forallb] in H. apply andb_true_iff in H as [H1 H2].
    unfold print_seq. cbn [map concat]. rewrite <- app_assoc. cbn [app].
    rewrite split_on_app; [|apply step_nobreak, H1|apply nl_break].
    cbn [map]. rewrite parse_line_seq by exact H1.
    fold (print_seq r). rewrite IH by exact H2. reflexivity.
Qed.

Lemma all_seq_lines l : all_seq (map LSeq l ++ [LBlank]) = Some l.
Proof. induction l as [|s r IH]; [reflexivity|]. cbn [map app all_seq]. rewrite IH. reflexivity. Qed.

Lemma assemble_seq l : assemble (map LSeq l ++ [LBlank]) = Some (PSeq l).
Proof.
  destruct l as [|s r]; [reflexivity|].
  change (assemble (map LSeq (s :: r) ++ [LBlank])) with
    (match all_seq (map LSeq (s :: r) ++ [LBlank]) with Some l => Some (PSeq l) | None => None end).
  rewrite all_seq_lines. reflexivity.
Qed.

Theorem parse_print_seq l : forallb wf_step l = true -> parse_plan (print_seq l) = Some (PSeq l).
Proof. intros H. unfold parse_plan. rewrite lines_seq by exact H. apply assemble_seq. Qed.

(* ------------------------------------------------------------------ time-triggered lines and plans *)

Lemma dec_ok_split q : dec_ok q = true -> q_reduced q = true /\ exists s, print_dec q = Some s.
Proof.
  unfold dec_ok. intros H. apply andb_true_iff in H as [H1 H2]. split; [exact H1|].
  destruct (print_dec q) as [s|]; [exists s; reflexivity|discriminate].
Qed.

(* the text of a duration: nothing, or "[" number "]" *)
Definition dur_text (b : str) (d : option Q) : Prop :=
  match d with
  | None => b = []
  | Some q => exists s, print_dec q = Some s /\ q_reduced q = true /\ b = "["%char :: s ++ ["]"%char]
  end.

Lemma print_dur_text d b :
  match d with Some q => dec_ok q = true | None => True end -> print_dur d = Some b -> dur_text b d.
Proof.
  destruct d as [q|]; simpl; intros Hok H.
  - destruct (dec_ok_split _ Hok) as (Hr & s & Hs). rewrite Hs in H. injection H as <-.
    exists s. auto.
  - injection H as <-. reflexivity.
Qed.

Lemma parse_dur_tail_text b d : dur_text b d -> parse_dur_tail (skip_ws b) = Some d.
Proof.
  destruct d as [q|]; simpl.
  - intros (s & Hs & Hr & ->).
    rewrite skip_ws_id by reflexivity.
    unfold parse_dur_tail. change (code "["%char =? 91) with true. cbv iota.
    pose proof (print_dec_chars _ _ Hs) as Hc.
    rewrite skip_ws_app; [| |reflexivity].
    2:{ eapply forallb_impl; [|exact Hc]. intros c H. rewrite numch_not_space by exact H. reflexivity. }
    rewrite (print_dec_parse q s ["]"%char] Hr Hs) by reflexivity.
    reflexivity.
  - intros ->. reflexivity.
Qed.

Lemma dur_low b d : dur_text b d -> forallb low_ok b = true.
Proof.
  destruct d as [q|]; simpl; [|intros ->; reflexivity].
  intros (s & Hs & _ & ->). cbn [forallb]. rewrite forallb_app'.
  rewrite (forallb_impl numch low_ok s numch_low (print_dec_chars _ _ Hs)). reflexivity.
Qed.

Lemma dur_nobreak b d : dur_text b d -> forallb (fun c => negb (is_break c)) b = true.
Proof.
  destruct d as [q|]; simpl; [|intros ->; reflexivity].
  intros (s & Hs & _ & ->). cbn [forallb]. rewrite forallb_app'.
  rewrite (forallb_impl numch _ s (fun c H => eq_trans (f_equal negb (numch_not_break c H)) eq_refl)
             (print_dec_chars _ _ Hs)).
  reflexivity.
Qed.

Lemma dur_head b d : dur_text b d -> head_sat is_space b.
Proof.
  destruct d as [q|]; simpl; [|intros ->; exact I].
  intros (s & _ & _ & ->). reflexivity.
Qed.

(* a written time-triggered line, without its newline *)
Definition tline (a : str) (st : step) (b : str) : str := a ++ ":"%char :: " "%char :: print_step st ++ b.

Section TLine.
  Variables (q : Q) (a : str) (st : step) (b : str) (d : option Q).
  Hypothesis Hred : q_reduced q = true.
  Hypothesis Ha : print_dec q = Some a.
  Hypothesis Hst : wf_step st = true.
  Hypothesis Hb : dur_text b d.

  Let Hac : forallb numch a = true := print_dec_chars _ _ Ha.

  Lemma tline_head : exists c r, tline a st b = c :: r /\ (numch c = true \/ c = ":"%char).
  Proof.
    unfold tline. destruct a as [|c a'] eqn:E.
    - eexists _, _. split; [reflexivity|right; reflexivity].
    - eexists _, _. split; [reflexivity|left].
      cbn [forallb] in Hac. apply andb_true_iff in Hac. tauto.
  Qed.

  Lemma tline_not_blank : is_blank_line (tline a st b) = false.
  Proof.
    destruct tline_head as (c & r & -> & [H| ->]); [|reflexivity].
    unfold is_blank_line. cbn [skip_ws]. rewrite numch_not_space by exact H. apply numch_not_semi, H.
  Qed.

  Lemma tline_not_seq : parse_seq_line (tline a st b) = None.
  Proof.
    destruct tline_head as (c & r & -> & [H| ->]); [|reflexivity].
    unfold parse_seq_line. cbn [skip_ws]. rewrite numch_not_space by exact H.
    unfold parse_call. rewrite numch_not_open by exact H. reflexivity.
  Qed.

  Lemma tline_low : forallb low_ok (tline a st b) = true.
  Proof.
    unfold tline. rewrite forallb_app'. cbn [forallb]. rewrite forallb_app'.
    rewrite (forallb_impl numch low_ok a numch_low Hac), step_low by exact Hst.
    rewrite (dur_low _ _ Hb). reflexivity.
  Qed.

  Lemma tline_nobreak : forallb (fun c => negb (is_break c)) (tline a st b) = true.
  Proof.
    unfold tline. rewrite forallb_app'. cbn [forallb]. rewrite forallb_app'.
    rewrite step_nobreak by exact Hst. rewrite (dur_nobreak _ _ Hb).
    rewrite (forallb_impl numch _ a (fun c H => eq_trans (f_equal negb (numch_not_break c H)) eq_refl) Hac).
    reflexivity.
  Qed.

  Lemma tline_parse : parse_tt_line (tline a st b) = Some (mkTStep q st d).
  Proof.
    unfold parse_tt_line, tline.
    rewrite skip_ws_app; [| |reflexivity].
    2:{ eapply forallb_impl; [|exact Hac]. intros c H. rewrite numch_not_space by exact H. reflexivity. }
    rewrite (print_dec_parse q a _ Hred Ha) by reflexivity.
    rewrite skip_ws_id by reflexivity. cbv iota.
    change (code ":"%char =? 58) with true. cbv iota.
    change (skip_ws (" "%char :: print_step st ++ b)) with (skip_ws (print_step st ++ b)).
    rewrite skip_ws_id by (rewrite print_step_app; reflexivity).
    rewrite parse_call_print by exact Hst.
    rewrite (parse_dur_tail_text _ _ Hb). reflexivity.
  Qed.

  Lemma parse_line_tline : parse_line (tline a st b) = LTT (mkTStep q st d).
  Proof.
    unfold parse_line. rewrite tline_not_blank, map_lower_id by apply tline_low.
    rewrite tline_not_seq, tline_parse. reflexivity.
  Qed.
End TLine.

Lemma tline_nl a st b : a ++ ":"%char :: " "%char :: print_step st ++ b ++ [nl] = tline a st b ++ [nl].
Proof.
  unfold tline. generalize (print_step st) as P; intros P.
  rewrite <- app_assoc. cbn [app]. rewrite <- app_assoc. reflexivity.
Qed.

Lemma print_tstep_line t txt :
  wf_tstep t = true -> print_tstep t = Some txt ->
  exists L, txt = L ++ [nl] /\ forallb (fun c => negb (is_break c)) L = true /\ parse_line L = LTT t.
Proof.
  intros Hwf Hp. unfold wf_tstep in Hwf.
  apply andb_true_iff in Hwf as [Hwf Hd]. apply andb_true_iff in Hwf as [Hs Hst].
  destruct (dec_ok_split _ Hs) as (Hred & a & Ha).
  unfold print_tstep in Hp. rewrite Ha in Hp.
  destruct (print_dur (t_dur t)) as [b|] eqn:Eb; [|discriminate].
  injection Hp as <-.
  assert (Hb : dur_text b (t_dur t)).
  { apply print_dur_text; [|exact Eb]. destruct (t_dur t); [exact Hd|exact I]. }
  exists (tline a (t_step t) b). split; [|split].
  - exact (tline_nl a (t_step t) b).
  - apply (tline_nobreak (t_start t) a (t_step t) b (t_dur t)); assumption.
  - rewrite (parse_line_tline (t_start t) a (t_step t) b (t_dur t)) by assumption.
    destruct t; reflexivity.
Qed.

Lemma lines_tt : forall l txt,
  forallb wf_tstep l = true -> print_tt l = Some txt ->
  map parse_line (split_on is_break txt) = map LTT l ++ [LBlank].
Proof.
  induction l as [|t r IH]; intros txt H Hp.
  - injection Hp as <-. reflexivity.
  - cbn [forallb] in H. apply andb_true_iff in H as [H1 H2].
    cbn [print_tt] in Hp.
    destruct (print_tstep t) as [x|] eqn:Ex; [|discriminate].
    destruct (print_tt r) as [y|] eqn:Ey; [|discriminate].
    injection Hp as <-.
    destruct (print_tstep_line t x H1 Ex) as (L & -> & Hnb & HL).
    rewrite <- app_assoc. cbn [app].
    rewrite split_on_app; [|exact Hnb|apply nl_break].
    cbn [map]. rewrite HL, (IH y H2 eq_refl). reflexivity.
Qed.

Lemma all_tt_lines l : all_tt (map LTT l ++ [LBlank]) = Some l.
Proof. induction l as [|s r IH]; [reflexivity|]. cbn [map app all_tt]. rewrite IH. reflexivity. Qed.

Theorem parse_print_tt l txt :
  forallb wf_tstep l = true -> print_tt l = Some txt ->
  parse_plan txt = Some (match l with [] => PSeq [] | _ => PTT l end).
Proof.
  intros H Hp. unfold parse_plan. rewrite (lines_tt l txt H Hp).
  destruct l as [|t r]; [reflexivity|].
  change (assemble (map LTT (t :: r) ++ [LBlank])) with
    (match all_tt (map LTT (t :: r) ++ [LBlank]) with Some l => Some (PTT l) | None => None end).
  rewrite all_tt_lines. reflexivity.
Qed.

(* ------------------------------------------------------------------ names <-> items *)
Section ResolveProofs.
  Variables A O : Type.
  Variable act : str -> option A.
  Variable obj : str -> option O.
  Variable inst_ok : A -> list O -> bool.
  (* the writer's names (otn_renamings) *)
  Variable aname : A -> str.
  Variable oname : O -> str.

  Definition inst_names (x : A * list O) : step := mkStep (aname (fst x)) (map oname (snd x)).

  (* get_item_named inverts the renaming on the items of the plan, and the instances are well formed *)
  Definition inst_good (x : A * list O) : Prop :=
    act (aname (fst x)) = Some (fst x) /\ Forall (fun o => obj (oname o) = Some o) (snd x)
    /\ inst_ok (fst x) (snd x) = true.

  Lemma resolve_objs_names os :
    Forall (fun o => obj (oname o) = Some o) os -> resolve_objs O obj (map oname os) = Some os.
  Proof. induction 1 as [|o os Ho _ IH]; simpl; [reflexivity|]. rewrite Ho, IH. reflexivity. Qed.

  Lemma resolve_step_names x : inst_good x -> resolve_step A O act obj inst_ok (inst_names x) = Some x.
  Proof.
    intros (Ha & Ho & Hk). unfold resolve_step, inst_names. cbn [s_name s_args].
    rewrite Ha, (resolve_objs_names _ Ho), Hk. destruct x; reflexivity.
  Qed.

  Lemma resolve_seq_names l :
    Forall inst_good l -> resolve_seq A O act obj inst_ok (map inst_names l) = Some l.
  Proof.
    induction 1 as [|x l Hx _ IH]; simpl; [reflexivity|].
    rewrite (resolve_step_names _ Hx), IH. reflexivity.
  Qed.

  Definition trow_names (r : Q * (A * list O) * option Q) : tstep :=
    mkTStep (fst (fst r)) (inst_names (snd (fst r))) (snd r).

  Lemma resolve_tt_names l :
    Forall (fun r => inst_good (snd (fst r))) l -> resolve_tt A O act obj inst_ok (map trow_names l) = Some l.
  Proof.
    induction 1 as [|x l Hx _ IH]; simpl; [reflexivity|].
    rewrite (resolve_step_names _ Hx), IH. destruct x as [[s i] d]. reflexivity.
  Qed.
End ResolveProofs.

(* ------------------------------------------------------------------ packaging *)

(* what the reader makes of a written plan: an empty time-triggered plan has no line, so it comes back as the empty
   sequential plan (is_tt is never set) *)
Definition plan_norm (p : plan) : plan := match p with PTT [] => PSeq [] | _ => p end.

Lemma print_tstep_total t : wf_tstep t = true -> exists x, print_tstep t = Some x.
Proof.
  unfold wf_tstep. intros H. apply andb_true_iff in H as [H Hd]. apply andb_true_iff in H as [Hs _].
  destruct (dec_ok_split _ Hs) as (_ & a & Ha). unfold print_tstep, print_dur. rewrite Ha.
  destruct (t_dur t) as [d|]; [|eexists; reflexivity].
  destruct (dec_ok_split _ Hd) as (_ & b & Hb). rewrite Hb. eexists; reflexivity.
Qed.

Lemma print_tt_total l : forallb wf_tstep l = true -> exists x, print_tt l = Some x.
Proof.
  induction l as [|t r IH]; intros H; [exists []; reflexivity|].
  cbn [forallb] in H. apply andb_true_iff in H as [H1 H2].
  destruct (print_tstep_total t H1) as (x & Hx). destruct (IH H2) as (y & Hy).
  cbn [print_tt]. rewrite Hx, Hy. eexists; reflexivity.
Qed.

Lemma print_plan_total p : wf_plan p = true -> exists t, print_plan p = Some t.
Proof. destruct p as [l|l]; simpl; intros H; [eexists; reflexivity|apply print_tt_total, H]. Qed.

Theorem parse_print_plan p t : wf_plan p = true -> print_plan p = Some t -> parse_plan t = Some (plan_norm p).
Proof.
  destruct p as [l|l]; simpl; intros H Hp.
  - injection Hp as <-. apply parse_print_seq, H.
  - rewrite (parse_print_tt l t H Hp). destruct l; reflexivity.
Qed.

Theorem parse_print_plan_string p s :
  wf_plan p = true -> print_plan_string p = Some s -> parse_plan_string s = Some (plan_norm p).
Proof.
  unfold print_plan_string, parse_plan_string. intros H Hp.
  destruct (print_plan p) as [t|] eqn:E; [|discriminate]. injection Hp as <-.
  rewrite String.list_ascii_of_string_of_list_ascii. apply parse_print_plan; assumption.
Qed.

Theorem parse_print_dec_string q s :
  q_reduced q = true -> print_dec_string q = Some s -> parse_dec_string s = Some q.
Proof.
  unfold print_dec_string, parse_dec_string. intros H Hp.
  destruct (print_dec q) as [t|] eqn:E; [|discriminate]. injection Hp as <-.
  rewrite String.list_ascii_of_string_of_list_ascii. apply parse_dec_print_dec; assumption.
Qed.

(* the fragment of print_dec is inside "non-negative, denominator divides a power of ten, at most 50 digits" *)
Theorem print_dec_fragment q s :
  print_dec q = Some s ->
  (0 <= Qnum q)%Z /\ exists k, N.pos (pow10 k) mod N.pos (Qden q) = 0.
Proof.
  unfold print_dec. destruct (Qnum q <? 0)%Z eqn:E; [discriminate|]. apply Z.ltb_ge in E.
  intros H. split; [exact E|].
  destruct (N.pos (Qden q) =? 1) eqn:E1.
  - apply N.eqb_eq in E1. exists O. rewrite E1. reflexivity.
  - destruct (find_k _ _ _) as [k|] eqn:Ek; [|discriminate]. exists k. eapply find_k_sound, Ek.
Qed.

(* ------------------------------------------------------------------ round trip at the level of items *)
Section ItemsRoundTrip.
  Variables A O : Type.
  Variable act : str -> option A.
  Variable obj : str -> option O.
  Variable inst_ok : A -> list O -> bool.
  Variable aname : A -> str.
  Variable oname : O -> str.

  Theorem items_seq_round_trip (l : list (A * list O)) :
    Forall (inst_good A O act obj inst_ok aname oname) l ->
    forallb wf_step (map (inst_names A O aname oname) l) = true ->
    exists raw, parse_plan (print_seq (map (inst_names A O aname oname) l)) = Some (PSeq raw)
                /\ resolve_seq A O act obj inst_ok raw = Some l.
  Proof.
    intros Hg Hwf. eexists. split; [apply parse_print_seq, Hwf|]. apply resolve_seq_names, Hg.
  Qed.

  Theorem items_tt_round_trip (l : list (Q * (A * list O) * option Q)) :
    l <> [] ->
    Forall (fun r => inst_good A O act obj inst_ok aname oname (snd (fst r))) l ->
    forallb wf_tstep (map (trow_names A O aname oname) l) = true ->
    exists txt raw, print_tt (map (trow_names A O aname oname) l) = Some txt
                    /\ parse_plan txt = Some (PTT raw)
                    /\ resolve_tt A O act obj inst_ok raw = Some l.
  Proof.
    intros Hne Hg Hwf. destruct (print_tt_total _ Hwf) as (txt & Ht).
    exists txt, (map (trow_names A O aname oname) l). split; [exact Ht|]. split.
    - rewrite (parse_print_tt _ _ Hwf Ht). destruct l; [congruence|reflexivity].
    - apply resolve_tt_names, Hg.
  Qed.
End ItemsRoundTrip.

(* ------------------------------------------------------------------ the exact fragment of print_dec, completely *)

Lemma pow10N_S k : pow10N (S k) = 10 * pow10N k.
Proof. reflexivity. Qed.

Lemma pow10N_pos k : pow10N k <> 0.
Proof. unfold pow10N. discriminate. Qed.

Lemma coprime_pow10 d : N.gcd d 10 = 1 -> forall k, (d | pow10N k) -> d = 1.
Proof.
  intros Hg. induction k as [|k IH]; intros H.
  - apply N.divide_1_r in H. exact H.
  - rewrite pow10N_S in H. apply N.gauss in H; [auto|exact Hg].
Qed.

Lemma div_pow10_bound : forall j k d,
  d <> 0 -> (d | pow10N k) -> d < 2 ^ N.of_nat (S j) -> (d | pow10N j).
Proof.
  induction j as [|j IH]; intros k d Hd Hk Hlt.
  - change (2 ^ N.of_nat 1) with 2 in Hlt. assert (d = 1) by lia. subst. apply N.divide_1_l.
  - destruct (N.eq_dec d 1) as [->|Hd1]; [apply N.divide_1_l|].
    set (g := N.gcd d 10).
    assert (Hg0 : g <> 0). { intros E. apply N.gcd_eq_0_l in E. contradiction. }
    assert (Hg1 : g <> 1). { intros E. apply Hd1. eapply coprime_pow10; eauto. }
    destruct (N.gcd_divide_l d 10) as [d' Hd']. fold g in Hd'.
    destruct (N.gcd_divide_r d 10) as [t Ht]. fold g in Ht.
    destruct k as [|k]; [apply N.divide_1_r in Hk; contradiction|].
    rewrite pow10N_S, Ht, Hd' in Hk.
    rewrite <- N.mul_assoc, (N.mul_comm g), N.mul_assoc in Hk.
    apply N.mul_divide_cancel_r in Hk; [|exact Hg0].
    assert (Hcop : N.gcd d' t = 1).
    { pose proof (N.gcd_div_gcd d 10 g Hg0 eq_refl) as H.
      assert (E1 : d / g = d') by (symmetry; apply N.div_unique_exact; [exact Hg0|rewrite N.mul_comm; exact Hd']).
      assert (E2 : 10 / g = t) by (symmetry; apply N.div_unique_exact; [exact Hg0|rewrite N.mul_comm; exact Ht]).
      rewrite E1, E2 in H. exact H. }
    apply N.gauss in Hk; [|exact Hcop].
    assert (Hd'0 : d' <> 0). { intros E. subst d'. lia. }
    assert (Hlt' : d' < 2 ^ N.of_nat (S j)).
    { rewrite (Nat2N.inj_succ (S j)), N.pow_succ_r' in Hlt. nia. }
    specialize (IH k d' Hd'0 Hk Hlt').
    destruct IH as [x Hx]. exists (x * t).
    rewrite pow10N_S, Hx. clearbody g. rewrite Hd'. rewrite Ht at 1. ring.
Qed.

Lemma find_k_complete d : forall f k j,
  (k <= j <= k + f)%nat -> pow10N j mod d = 0 -> exists k', find_k f d k = Some k'.
Proof.
  induction f as [|f IH]; intros k j Hj Hm; cbn [find_k]; fold (pow10N k).
  - assert (j = k) by lia. subst. rewrite Hm. eexists; reflexivity.
  - destruct (pow10N k mod d =? 0) eqn:E; [eexists; reflexivity|].
    apply (IH (S k) j); [|exact Hm].
    assert (j <> k) by (intros ->; rewrite Hm in E; discriminate). lia.
Qed.

Lemma find_k_total d k :
  d <> 0 -> pow10N k mod d = 0 -> exists k', find_k (N.to_nat (N.size d)) d 0 = Some k'.
Proof.
  intros Hd Hm.
  assert (Hs : N.size d <> 0). { destruct d; [contradiction|discriminate]. }
  set (j := pred (N.to_nat (N.size d))).
  assert (Hj : N.of_nat (S j) = N.size d). { unfold j. lia. }
  apply (find_k_complete d _ 0%nat j); [unfold j; lia|].
  apply N.mod_divide; [exact Hd|].
  apply (div_pow10_bound j k d Hd); [apply N.mod_divide; assumption|].
  rewrite Hj. apply N.size_gt.
Qed.

(* print_dec q = None exactly for: negative, denominator not dividing a power of ten, more than 50 digits *)
Theorem print_dec_none q :
  print_dec q = None ->
  (Qnum q < 0)%Z
  \/ (forall k, pow10N k mod N.pos (Qden q) <> 0)
  \/ exists k, pow10N k mod N.pos (Qden q) = 0 /\
       (50 < List.length (digits (Z.to_N (Qnum q) * (pow10N k / N.pos (Qden q)))))%nat.
Proof.
  unfold print_dec. destruct (Qnum q <? 0)%Z eqn:E; [intros _; left; apply Z.ltb_lt, E|].
  destruct (N.pos (Qden q) =? 1); [discriminate|].
  destruct (find_k _ _ _) as [k|] eqn:Ek.
  - destruct (_ <=? 50)%nat eqn:El; [discriminate|]. intros _. right. right.
    exists k. split; [eapply find_k_sound, Ek|]. apply Nat.leb_gt in El. exact El.
  - intros _. right. left. intros k Hk.
    destruct (find_k_total (N.pos (Qden q)) k) as [k' Hk']; [discriminate|exact Hk|]. congruence.
Qed.

(* ------------------------------------------------------------------ print_dec_real: agreement on the exact fragment *)

Lemma pow10N_pow k : pow10N k = 10 ^ N.of_nat k.
Proof. induction k; [reflexivity|]. rewrite pow10N_S, IHk, Nat2N.inj_succ, N.pow_succ_r'. reflexivity. Qed.

Lemma pow10N_add a b : pow10N (a + b) = pow10N a * pow10N b.
Proof. rewrite !pow10N_pow, Nat2N.inj_add, N.pow_add_r. reflexivity. Qed.

Lemma pow10N_lt_inv a b : pow10N a < pow10N b -> (a < b)%nat.
Proof. rewrite !pow10N_pow. intros H. apply N.pow_lt_mono_r_iff in H; lia. Qed.

Lemma pow10N_le_mono a b : (a <= b)%nat -> pow10N a <= pow10N b.
Proof. intros H. rewrite !pow10N_pow. apply N.pow_le_mono_r; lia. Qed.

Lemma fold_digits_acc l : forall a,
  fold_left (fun a d => 10 * a + d) l a = a * pow10N (List.length l) + val_digits l.
Proof.
  induction l as [|d l IH]; intros a.
  - unfold val_digits. simpl. change (pow10N 0) with 1. lia.
  - unfold val_digits at 1. cbn [fold_left List.length]. rewrite (IH (10 * a + d)), (IH (10 * 0 + d)), pow10N_S. ring.
Qed.

Lemma val_digits_cons d l : val_digits (d :: l) = d * pow10N (List.length l) + val_digits l.
Proof. unfold val_digits at 1. cbn [fold_left]. rewrite fold_digits_acc. ring. Qed.

Lemma val_digits_upper l : Forall (fun d => d < 10) l -> val_digits l < pow10N (List.length l).
Proof.
  induction 1 as [|d l Hd _ IH].
  - reflexivity.
  - rewrite val_digits_cons. cbn [List.length]. rewrite pow10N_S. nia.
Qed.

Lemma digits_fuel_head f : forall n acc, n <> 0 -> exists h t, digits_fuel f n acc = h :: t /\ h <> 0.
Proof.
  induction f as [|f IH]; intros n acc Hn; cbn [digits_fuel].
  - eauto.
  - destruct (n <? 10) eqn:E; [eauto|]. apply IH. apply N.ltb_ge in E.
    intros H0. apply N.div_small_iff in H0; lia.
Qed.

Lemma digits_upper n : n < pow10N (List.length (digits n)).
Proof. rewrite <- (val_digits_digits n) at 1. apply val_digits_upper, digits_small. Qed.

Lemma digits_lower n : n <> 0 -> pow10N (pred (List.length (digits n))) <= n.
Proof.
  intros Hn. rewrite <- (val_digits_digits n) at 2.
  unfold digits. destruct (digits_fuel_head (N.to_nat (N.size n)) n [] Hn) as (h & t & -> & Hh).
  rewrite val_digits_cons. cbn [List.length pred]. nia.
Qed.

Lemma digits_len_pos n : (1 <= List.length (digits n))%nat.
Proof.
  unfold digits. destruct (digits_fuel _ n []) eqn:E; [exfalso; eapply digits_fuel_ne; eauto|simpl; lia].
Qed.

Lemma find_k_min d : forall f k0 k, find_k f d k0 = Some k ->
  (k0 <= k)%nat /\ forall j, (k0 <= j < k)%nat -> pow10N j mod d <> 0.
Proof.
  induction f as [|f IH]; intros k0 k; cbn [find_k]; fold (pow10N k0).
  - destruct (pow10N k0 mod d =? 0); [|discriminate]. intros [= <-]. split; [lia|]. intros; lia.
  - destruct (pow10N k0 mod d =? 0) eqn:E.
    + intros [= <-]. split; [lia|]. intros; lia.
    + intros H. apply IH in H as [H1 H2]. split; [lia|]. intros j Hj.
      destruct (Nat.eq_dec j k0) as [->|]; [apply N.eqb_neq, E|apply H2; lia].
Qed.

Lemma div_eucl_eq a b : N.div_eucl a b = (a / b, a mod b).
Proof. unfold N.div, N.modulo. destruct (N.div_eucl a b). reflexivity. Qed.

Lemma m_not_mult10 n d k :
  Z.gcd (Z.of_N n) (Z.of_N d) = 1%Z -> d <> 0 ->
  pow10N (S k) mod d = 0 -> pow10N k mod d <> 0 -> (n * (pow10N (S k) / d)) mod 10 <> 0.
Proof.
  intros Hg Hd Hk Hk' H10.
  apply N.div_exact in Hk; [|exact Hd]. set (c := pow10N (S k) / d) in *.
  apply N.mod_divide in H10; [|discriminate]. destruct H10 as [x Hx].
  apply Hk'. 
  assert (E : n * pow10N k = x * d).
  { assert (E10 : n * pow10N k * 10 = x * d * 10).
    { replace (n * pow10N k * 10) with (n * pow10N (S k)) by (rewrite pow10N_S; ring).
      rewrite Hk. replace (n * (d * c)) with (n * c * d) by ring. rewrite Hx. ring. }
    lia. }
  assert (Hz : (Z.of_N d | Z.of_N (pow10N k))%Z).
  { apply (Z.gauss _ (Z.of_N n)); [|rewrite Z.gcd_comm; exact Hg].
    exists (Z.of_N x). rewrite <- !N2Z.inj_mul. f_equal. exact E. }
  destruct Hz as [z Hz].
  apply N.mod_divide; [exact Hd|].
  exists (Z.to_N z).
  assert (0 <= z)%Z by nia.
  apply N2Z.inj. rewrite N2Z.inj_mul, Z2N.id by assumption. exact Hz.
Qed.

Lemma strip_zeros_pow : forall j fuel m e,
  (j <= fuel)%nat -> (e < 0)%Z -> m mod 10 <> 0 ->
  strip_zeros fuel (m * pow10N j) (e - Z.of_nat j) = (m, e).
Proof.
  induction j as [|j IH]; intros fuel m e Hf He Hm.
  - change (pow10N 0) with 1. rewrite N.mul_1_r, Z.sub_0_r.
    destruct fuel; cbn [strip_zeros]; [reflexivity|].
    apply N.eqb_neq in Hm. rewrite Hm, andb_false_r. reflexivity.
  - destruct fuel as [|fuel]; [lia|]. cbn [strip_zeros].
    assert (E1 : (m * pow10N (S j)) mod 10 = 0).
    { rewrite pow10N_S. replace (m * (10 * pow10N j)) with (m * pow10N j * 10) by ring. apply N.mod_mul. discriminate. }
    assert (E2 : (m * pow10N (S j)) / 10 = m * pow10N j).
    { rewrite pow10N_S. replace (m * (10 * pow10N j)) with (m * pow10N j * 10) by ring. apply N.div_mul. discriminate. }
    rewrite E1, E2.
    replace (e - Z.of_nat (S j) <? 0)%Z with true by (symmetry; apply Z.ltb_lt; lia).
    cbn [andb N.eqb].
    replace (e - Z.of_nat (S j) + 1)%Z with (e - Z.of_nat j)%Z by lia.
    apply IH; [lia|exact He|exact Hm].
Qed.

Lemma dec_div50_exact n d k :
  n <> 0 -> d <> 0 -> Z.gcd (Z.of_N n) (Z.of_N d) = 1%Z ->
  pow10N (S k) mod d = 0 -> pow10N k mod d <> 0 ->
  (List.length (digits (n * (pow10N (S k) / d))) <= 50)%nat ->
  dec_div50 n d = (n * (pow10N (S k) / d), (- Z.of_nat (S k))%Z).
Proof.
  intros Hn Hd Hg Hk Hk' Hlen.
  pose proof (m_not_mult10 n d k Hg Hd Hk Hk') as Hm10.
  set (m := n * (pow10N (S k) / d)) in *.
  assert (Hmd : m * d = n * pow10N (S k)).
  { unfold m. apply N.div_exact in Hk; [|exact Hd]. rewrite Hk at 2. ring. }
  assert (Hm50 : m < pow10N 50).
  { eapply N.lt_le_trans; [apply digits_upper|]. apply pow10N_le_mono, Hlen. }
  pose proof (digits_lower n Hn) as Hnl. pose proof (digits_upper d) as Hdu.
  pose proof (digits_len_pos n) as Hln.
  set (ln := List.length (digits n)) in *. set (ld := List.length (digits d)) in *.
  assert (Hsh : (pred ln + S k < 50 + ld)%nat).
  { apply pow10N_lt_inv. rewrite !pow10N_add.
    apply N.le_lt_trans with (n * pow10N (S k)).
    - apply N.mul_le_mono_r. exact Hnl.
    - rewrite <- Hmd. apply N.mul_lt_mono; assumption. }
  unfold dec_div50. unfold ndigits. fold ln ld.
  set (shift := (Z.of_nat ld - Z.of_nat ln + 51)%Z).
  assert (Hs0 : (0 <= shift)%Z) by (unfold shift; lia).
  replace (0 <=? shift)%Z with true by (symmetry; apply Z.leb_le; exact Hs0).
  set (S' := Z.to_nat shift).
  assert (HkS : (S k <= S')%nat) by (unfold S', shift; lia).
  assert (HA : n * pow10N S' = m * pow10N (S' - S k) * d).
  { replace S' with (S k + (S' - S k))%nat at 1 by lia. rewrite pow10N_add.
    replace (n * (pow10N (S k) * pow10N (S' - S k))) with (n * pow10N (S k) * pow10N (S' - S k)) by ring.
    rewrite <- Hmd. ring. }
  rewrite div_eucl_eq, HA, N.div_mul, N.mod_mul by exact Hd.
  cbn [N.eqb].
  replace (- shift)%Z with (- Z.of_nat (S k) - Z.of_nat (S' - S k))%Z by (unfold S'; lia).
  rewrite strip_zeros_pow; [|lia|lia|exact Hm10].
  unfold fix50, ndigits.
  replace (Z.of_nat (List.length (digits m)) <=? 50)%Z with true by (symmetry; apply Z.leb_le; lia).
  reflexivity.
Qed.

Theorem print_dec_real_agrees q s :
  q_reduced q = true -> print_dec q = Some s -> print_dec_real q = s.
Proof.
  intros Hred Hp. apply q_eqb_eq in Hred. apply Qred_identity2 in Hred.
  unfold print_dec in Hp. unfold print_dec_real.
  destruct (Qnum q <? 0)%Z eqn:Eneg; [discriminate|]. apply Z.ltb_ge in Eneg.
  rewrite Z.abs_eq by exact Eneg.
  destruct (N.pos (Qden q) =? 1) eqn:Eden; [congruence|].
  destruct (find_k _ _ _) as [k|] eqn:Ek; [|discriminate].
  destruct (_ <=? 50)%nat eqn:El; [|discriminate]. injection Hp as <-.
  apply Nat.leb_le in El.
  pose proof (find_k_sound _ _ _ _ Ek) as Hk. fold (pow10N k) in Hk.
  destruct (find_k_min _ _ _ _ Ek) as [_ Hmin].
  apply N.eqb_neq in Eden.
  assert (Hd1 : 1 < N.pos (Qden q)) by lia.
  destruct k as [|k].
  { exfalso. change (pow10N 0) with 1 in Hk. rewrite N.mod_1_l in Hk by exact Hd1. discriminate. }
  assert (Hg : Z.gcd (Z.of_N (Z.to_N (Qnum q))) (Z.of_N (N.pos (Qden q))) = 1%Z).
  { rewrite Z2N.id by exact Eneg. exact Hred. }
  assert (Hn : Z.to_N (Qnum q) <> 0).
  { intros E. rewrite E in Hg. simpl in Hg. lia. }
  fold (pow10N (S k)) in El |- *.
  rewrite (dec_div50_exact _ _ k Hn); [| discriminate | exact Hg | exact Hk | apply Hmin; lia | exact El].
  unfold format_dec.
  replace (0 <=? - Z.of_nat (S k))%Z with false by (symmetry; apply Z.leb_gt; lia).
  rewrite Z.opp_involutive, Nat2Z.id. reflexivity.
Qed.

(* ------------------------------------------------------------------ outside the exact fragment *)

Lemma parse_num_digits l rest :
  l <> [] -> Forall (fun d => d < 10) l -> num_end rest ->
  parse_num (map dchar l ++ rest) = Some (Qred (Z.of_N (val_digits l) # 1), rest).
Proof.
  intros Hne Hl Hr. unfold parse_num.
  rewrite span_app; [|apply forallb_digit, Hl|apply num_end_digit, Hr].
  assert (Hn : is_nil (map dchar l) = false) by (destruct l; [congruence|reflexivity]).
  rewrite Hn.
  assert (Hv : mkdec (map dchar l) [] = Qred (Z.of_N (val_digits l) # 1)).
  { unfold mkdec. rewrite app_nil_r, val_chars_digits by exact Hl. reflexivity. }
  destruct rest as [|c r]; [rewrite Hv; reflexivity|].
  simpl in Hr. unfold numch in Hr. apply orb_false_iff in Hr as [_ Hp]. rewrite Hp, Hv. reflexivity.
Qed.

Lemma val_digits_app_zeros l e : val_digits (l ++ repeat 0 e) = val_digits l * pow10N e.
Proof.
  unfold val_digits at 1. rewrite fold_left_app. fold (val_digits l).
  rewrite fold_digits_acc, repeat_length.
  rewrite <- (app_nil_r (repeat 0 e)), val_digits_zeros. unfold val_digits at 2. simpl. lia.
Qed.

Lemma map_repeat' {A B} (f : A -> B) x n : map f (repeat x n) = repeat (f x) n.
Proof. induction n; simpl; [reflexivity|]. rewrite IHn. reflexivity. Qed.

Theorem parse_format_dec c e : parse_dec (format_dec c e) = Some (dec_val c e).
Proof.
  unfold parse_dec, format_dec, dec_val.
  destruct (0 <=? e)%Z eqn:Ee.
  - destruct (c =? 0) eqn:Ec.
    + apply N.eqb_eq in Ec. subst c. reflexivity.
    + assert (Hs : digit_chars c ++ repeat "0"%char (Z.to_nat e) = map dchar (digits c ++ repeat 0 (Z.to_nat e)) ++ []).
      { rewrite app_nil_r, map_app, map_repeat'. reflexivity. }
      rewrite Hs, parse_num_digits; [| |apply Forall_app; split; [apply digits_small|apply Forall_repeat0]|exact I].
      * rewrite val_digits_app_zeros, val_digits_digits. reflexivity.
      * pose proof (digits_len_pos c). destruct (digits c); [simpl in *; lia|discriminate].
  - rewrite <- (app_nil_r (format_f _ _)), parse_num_format; [|apply digits_small|exact I].
    rewrite val_digits_digits. reflexivity.
Qed.

(* what the reader gets back from the text the writer prints for ANY non-negative q *)
Theorem parse_print_dec_real q :
  (0 <= Qnum q)%Z -> parse_dec (print_dec_real q) = Some (dec_rounded q).
Proof.
  intros H. unfold print_dec_real, dec_rounded.
  replace (Qnum q <? 0)%Z with false by (symmetry; apply Z.ltb_ge; exact H).
  destruct (N.pos (Qden q) =? 1).
  - unfold parse_dec. rewrite <- (app_nil_r (digit_chars _)), parse_num_int by exact I. reflexivity.
  - destruct (dec_div50 _ _) as [c e]. apply parse_format_dec.
Qed.

Lemma parse_num_shape l q r : parse_num l = Some (q, r) -> exists v j, q = Qred (Z.of_N v # pow10 j).
Proof.
  unfold parse_num. destruct (span is_digit l) as [ip r1]. destruct (is_nil ip); [discriminate|].
  destruct r1 as [|c r2].
  - intros [= <- _]. eexists _, _. reflexivity.
  - destruct (code c =? 46).
    + destruct (span is_digit r2) as [fp r3]. intros [= <- _]. eexists _, _. reflexivity.
    + intros [= <- _]. eexists _, _. reflexivity.
Qed.

Lemma Zdivide_N_mod d p : d <> 0 -> (Z.of_N d | Z.of_N p)%Z -> p mod d = 0.
Proof.
  intros Hd [z Hz]. apply N.mod_divide; [exact Hd|]. exists (Z.to_N z).
  assert (0 <= z)%Z by nia.
  apply N2Z.inj. rewrite N2Z.inj_mul, Z2N.id by assumption. exact Hz.
Qed.

(* a Fraction whose denominator divides no power of ten is denoted by NO decimal string *)
Theorem no_decimal_denotes q s :
  q_reduced q = true -> (forall k, pow10N k mod N.pos (Qden q) <> 0) -> parse_dec s <> Some q.
Proof.
  intros Hred Hnd Hp. apply q_eqb_eq in Hred. pose proof (Qred_identity2 _ Hred) as Hg.
  unfold parse_dec in Hp. destruct (parse_num s) as [[q' r]|] eqn:E; [|discriminate].
  destruct r; [|discriminate]. injection Hp as ->.
  destruct (parse_num_shape _ _ _ E) as (v & j & Hq).
  assert (Heq : q == Z.of_N v # pow10 j) by (rewrite Hq at 1; apply Qred_correct).
  unfold Qeq in Heq. cbn [Qnum Qden] in Heq.
  apply (Hnd j). apply Zdivide_N_mod; [discriminate|].
  change (Z.of_N (N.pos (Qden q))) with (Z.pos (Qden q)). change (Z.of_N (pow10N j)) with (Z.pos (pow10 j)).
  apply (Z.gauss _ (Qnum q)); [|rewrite Z.gcd_comm; exact Hg].
  exists (Z.of_N v). rewrite Heq. reflexivity.
Qed.

Theorem dec_rounds_outside_nondecimal q :
  q_reduced q = true -> (0 <= Qnum q)%Z -> (forall k, pow10N k mod N.pos (Qden q) <> 0) ->
  parse_dec (print_dec_real q) = Some (dec_rounded q) /\ dec_rounded q <> q.
Proof.
  intros Hred Hpos Hnd. pose proof (parse_print_dec_real q Hpos) as Hp. split; [exact Hp|].
  intros E. rewrite E in Hp. exact (no_decimal_denotes q _ Hred Hnd Hp).
Qed.

(* ------------------------------------------------------------------ plan level: print_plan_real *)
Lemma print_tstep_real_agrees t x : wf_tstep t = true -> print_tstep t = Some x -> print_tstep_real t = x.
Proof.
  unfold wf_tstep. intros H. apply andb_true_iff in H as [H Hd]. apply andb_true_iff in H as [Hs _].
  destruct (dec_ok_split _ Hs) as (Hr & a & Ha).
  unfold print_tstep, print_tstep_real, print_dur. rewrite Ha, (print_dec_real_agrees _ _ Hr Ha).
  destruct (t_dur t) as [d|].
  - destruct (dec_ok_split _ Hd) as (Hrd & b & Hb). rewrite Hb, (print_dec_real_agrees _ _ Hrd Hb).
    intros [= <-]. reflexivity.
  - intros [= <-]. reflexivity.
Qed.

Lemma print_tt_real_agrees l : forall x,
  forallb wf_tstep l = true -> print_tt l = Some x -> concat (map print_tstep_real l) = x.
Proof.
  induction l as [|t r IH]; intros x H Hp.
  - injection Hp as <-. reflexivity.
  - cbn [forallb] in H. apply andb_true_iff in H as [H1 H2]. cbn [print_tt] in Hp.
    destruct (print_tstep t) as [a|] eqn:Ea; [|discriminate].
    destruct (print_tt r) as [b|] eqn:Eb; [|discriminate]. injection Hp as <-.
    cbn [map concat]. rewrite (print_tstep_real_agrees t a H1 Ea), (IH b H2 eq_refl). reflexivity.
Qed.

Theorem print_plan_real_agrees p t : wf_plan p = true -> print_plan p = Some t -> print_plan_real p = t.
Proof.
  destruct p as [l|l]; simpl; intros H Hp; [congruence|]. apply print_tt_real_agrees; assumption.
Qed.

Theorem parse_print_plan_real p : wf_plan p = true -> parse_plan (print_plan_real p) = Some (plan_norm p).
Proof.
  intros H. destruct (print_plan_total p H) as (t & Ht).
  rewrite (print_plan_real_agrees p t H Ht). apply parse_print_plan; assumption.
Qed.

Theorem parse_print_dec_real_exact q :
  q_reduced q = true -> (exists s, print_dec q = Some s) -> parse_dec (print_dec_real q) = Some q.
Proof.
  intros Hr (s & Hs). rewrite (print_dec_real_agrees q s Hr Hs). apply parse_dec_print_dec; assumption.
Qed.

(* ------------------------------------------------------------------ the loss outside the exact fragment *)

Lemma fix50_bound c e : fst (fix50 c e) < pow10N 50.
Proof.
  unfold fix50, ndigits.
  destruct (Z.of_nat (List.length (digits c)) <=? 50)%Z eqn:E.
  - apply Z.leb_le in E. cbn [fst]. eapply N.lt_le_trans; [apply digits_upper|]. apply pow10N_le_mono. lia.
  - apply Z.leb_gt in E.
    set (len := List.length (digits c)) in *.
    set (drop := Z.to_nat (Z.of_nat len - 50)).
    set (q := c / pow10N drop).
    assert (Hq : q < pow10N 50).
    { unfold q. apply N.div_lt_upper_bound; [apply pow10N_pos|].
      rewrite <- pow10N_add. replace (drop + 50)%nat with len by (unfold drop; lia). apply digits_upper. }
    set (q' := if _ : bool then q + 1 else q).
    assert (Hq' : q' <= pow10N 50) by (unfold q'; destruct (_ || _); lia).
    destruct (Z.of_nat (List.length (digits q')) <=? 50)%Z eqn:E2; cbn [fst].
    + apply Z.leb_le in E2. eapply N.lt_le_trans; [apply digits_upper|]. apply pow10N_le_mono. lia.
    + apply N.div_lt_upper_bound; [discriminate|]. pose proof (pow10N_pos 50). lia.
Qed.

Lemma dec_div50_bound n d : fst (dec_div50 n d) < pow10N 50.
Proof.
  unfold dec_div50.
  destruct (if (0 <=? _)%Z then _ else _) as [c r].
  destruct (if r =? 0 then _ else _) as [c1 e1]. apply fix50_bound.
Qed.

Theorem dec_rounded_neq q :
  q_reduced q = true -> (0 <= Qnum q)%Z -> print_dec q = None -> dec_rounded q <> q.
Proof.
  intros Hred Hpos Hp.
  pose proof Hred as Hred'. apply q_eqb_eq in Hred'. pose proof (Qred_identity2 _ Hred') as Hgc.
  unfold print_dec in Hp.
  replace (Qnum q <? 0)%Z with false in Hp by (symmetry; apply Z.ltb_ge; exact Hpos).
  destruct (N.pos (Qden q) =? 1) eqn:Eden; [discriminate|].
  destruct (find_k _ _ _) as [k|] eqn:Ek.
  2:{ apply dec_rounds_outside_nondecimal; [exact Hred|exact Hpos|].
      intros k Hk. destruct (find_k_total (N.pos (Qden q)) k) as [k' Hk']; [discriminate|exact Hk|]. congruence. }
  destruct (_ <=? 50)%nat eqn:El; [discriminate|]. clear Hp. apply Nat.leb_gt in El.
  pose proof (find_k_sound _ _ _ _ Ek) as Hk. fold (pow10N k) in Hk, El.
  destruct (find_k_min _ _ _ _ Ek) as [_ Hmin].
  pose proof Eden as Eden'. apply N.eqb_neq in Eden'.
  assert (Hd1 : 1 < N.pos (Qden q)) by lia.
  destruct k as [|k].
  { exfalso. change (pow10N 0) with 1 in Hk. rewrite N.mod_1_l in Hk by exact Hd1. discriminate. }
  assert (Hg : Z.gcd (Z.of_N (Z.to_N (Qnum q))) (Z.of_N (N.pos (Qden q))) = 1%Z).
  { rewrite Z2N.id by exact Hpos. exact Hgc. }
  set (n := Z.to_N (Qnum q)) in *. set (d := N.pos (Qden q)) in *.
  assert (Hd : d <> 0) by discriminate.
  pose proof (m_not_mult10 n d k Hg Hd Hk (Hmin k ltac:(lia))) as Hm10.
  set (m := n * (pow10N (S k) / d)) in *.
  assert (Hmd : m * d = n * pow10N (S k)).
  { unfold m. apply N.div_exact in Hk; [|exact Hd]. rewrite Hk at 2. ring. }
  assert (Hm0 : m <> 0) by (intros E; rewrite E in Hm10; apply Hm10; reflexivity).
  assert (Hm50 : pow10N 50 <= m).
  { eapply N.le_trans; [|apply digits_lower, Hm0]. apply pow10N_le_mono. lia. }
  unfold dec_rounded. rewrite Z.abs_eq by exact Hpos. fold n d. rewrite Eden.
  pose proof (dec_div50_bound n d) as Hc. destruct (dec_div50 n d) as [c e]. cbn [fst] in Hc.
  unfold dec_val. intros Heq.
  destruct (0 <=? e)%Z.
  - (* an integer: impossible, the denominator is not 1 *)
    assert (Hq : q == Z.of_N (c * pow10N (Z.to_nat e)) # 1) by (rewrite <- Heq at 1; apply Qred_correct).
    unfold Qeq in Hq. cbn [Qnum Qden] in Hq.
    assert (Hdiv : (Z.pos (Qden q) | Z.gcd (Qnum q) (Z.pos (Qden q)))%Z).
    { apply Z.gcd_greatest; [|apply Z.divide_refl]. exists (Z.of_N (c * pow10N (Z.to_nat e))). lia. }
    rewrite Hgc in Hdiv. apply Z.divide_1_r_nonneg in Hdiv; [|lia]. unfold d in Eden'. congruence.
  - set (j := Z.to_nat (- e)) in *.
    assert (Hq : q == Z.of_N c # pow10 j) by (rewrite <- Heq at 1; apply Qred_correct).
    unfold Qeq in Hq. cbn [Qnum Qden] in Hq.
    assert (Hc1 : c * d = n * pow10N j).
    { apply N2Z.inj. rewrite !N2Z.inj_mul. unfold n. rewrite Z2N.id by exact Hpos.
      change (Z.of_N d) with (Z.pos (Qden q)). change (Z.of_N (pow10N j)) with (Z.pos (pow10 j)). lia. }
    assert (Hx : c * pow10N (S k) = m * pow10N j).
    { apply (N.mul_cancel_r _ _ d Hd).
      replace (c * pow10N (S k) * d) with (c * d * pow10N (S k)) by ring.
      replace (m * pow10N j * d) with (m * d * pow10N j) by ring.
      rewrite Hc1, Hmd. ring. }
    assert (Hcm : c < m) by lia.
    pose proof (pow10N_pos j) as Hpj. pose proof (pow10N_pos (S k)) as Hpk.
    assert (Hjk : pow10N j < pow10N (S k)) by nia.
    apply pow10N_lt_inv in Hjk.
    replace (S k) with (j + S (k - j))%nat in Hx by lia.
    rewrite pow10N_add, pow10N_S in Hx.
    assert (Hm' : m = c * pow10N (k - j) * 10).
    { apply (N.mul_cancel_r _ _ (pow10N j) Hpj). rewrite <- Hx. ring. }
    apply Hm10. rewrite Hm'. apply N.mod_mul. discriminate.
Qed.

(* (2): the precise loss outside the exact fragment *)
Theorem dec_rounds_outside_fragment q :
  q_reduced q = true -> (0 <= Qnum q)%Z -> print_dec q = None ->
  parse_dec (print_dec_real q) = Some (dec_rounded q) /\ dec_rounded q <> q.
Proof.
  intros Hred Hpos Hp. split; [apply parse_print_dec_real, Hpos|apply dec_rounded_neq; assumption].
Qed.

(* what is read back is always a decimal of at most 50 significant digits *)
Theorem dec_rounded_shape q :
  N.pos (Qden q) <> 1 -> exists c e, dec_rounded q = dec_val c e /\ c < pow10N 50.
Proof.
  intros Hd. unfold dec_rounded. apply N.eqb_neq in Hd. rewrite Hd.
  pose proof (dec_div50_bound (Z.to_N (Z.abs (Qnum q))) (N.pos (Qden q))) as Hb.
  destruct (dec_div50 _ _) as [c e]. exists c, e. split; [reflexivity|exact Hb].
Qed.
