(* Proofs about the ANML expression codec model (Model/AnmlExpr.v).
   [Parses s sc b ts a t r]: with any fuel >= b the parser in state s turns ts into (a, t) and leaves r.
   Compositional lemmas: one per precedence level / loop step (lemmas P_xxx), lifting through the looser levels when no
   operator of those levels follows (lemmas up_xxx, imp_of_xxx), name resolution under [names_ok] (lemmas res_xxx), the generic
   left-associative chain "x sep y sep ... )" (chain_parses).  Main results: parse_print_atomic. *)
From Coq Require Import List ZArith NArith QArith Qcanon Bool Lia.
Import ListNotations.
Require Import UPV.Core.Expr UPV.Model.AnmlExpr.
Local Open Scope nat_scope.

Record names_ok (W : wnames) (R : rtables) (arity : N -> nat) : Prop := {
  h_ty : forall t, tyOf R (nmT W t) = Some t;
  h_par : forall p, parOf R (nmP W p) = Some p;
  h_flu : forall f, fluOf R (nmF W f) = Some (f, arity f);
  h_obj : forall o, objOf R (nmO W o) = Some o;
  h_var : forall v, varOf R (nmV W v) = v;
  h_pv : forall p v, nmP W p <> nmV W v;
  h_fv : forall f v, nmF W f <> nmV W v;
  h_ov : forall o v, nmO W o <> nmV W v;
  h_fp : forall f, parOf R (nmF W f) = None;
  h_op : forall o, parOf R (nmO W o) = None;
  h_of : forall o, fluOf R (nmO W o) = None }.

Definition lv (t : token) : nat :=
  match t with
  | TImplies => 1 | TAnd | TOr | TXor => 2
  | TLe | TLt | TGe | TGt | TEq | TNeq => 5
  | TPlus | TMinus => 6 | TTimes | TDiv => 7 | _ => 0
  end.
Definition hd (r : list token) : token := match r with [] => TRp | t :: _ => t end.
Definition start_ok (ts : list token) : bool :=
  match ts with (TLp | TName _ | TNum _ | TTrue | TFalse | TMinus) :: _ => true | _ => false end.
Definition nolp (r : list token) : bool := match r with TLp :: _ => false | _ => true end.

Section P.
  Variable R : rtables.
  Definition Parses (s : st) (sc : list (N * N)) (b : nat) (ts : list token) (a : expr) (t : tier) (r : list token) :=
    forall n, b <= n -> go R n s sc ts = Ok a t r.
  Definition ParsesL (s : st) (sc : list (N * N)) (b : nat) (ts : list token) (l : list expr) (r : list token) :=
    forall n, b <= n -> go R n s sc ts = OkL l r.

  Lemma Parses_mono s sc b b' ts a t r : Parses s sc b ts a t r -> b <= b' -> Parses s sc b' ts a t r.
  Proof. intros H L n Hn. apply H. lia. Qed.

  Ltac st := let n := fresh "n" in let Hn := fresh "Hn" in
    intros n Hn; destruct n as [|n]; [exfalso; lia|]; cbn [go].

  Lemma P_stop_mul sc a t r : lv (hd r) <> 7 -> Parses (SMulL a t) sc 1 r a t r.
  Proof. intros H; st. destruct r as [|[] r]; cbn in H; try reflexivity; lia. Qed.
  Lemma P_stop_add sc a t r : lv (hd r) <> 6 -> Parses (SAddL a t) sc 1 r a t r.
  Proof. intros H; st. destruct r as [|[] r]; cbn in H; try reflexivity; lia. Qed.
  Lemma P_stop_rel sc a t r : lv (hd r) <> 5 -> Parses (SRelL a t) sc 1 r a t r.
  Proof. intros H; st. destruct r as [|[] r]; cbn in H; try reflexivity; lia. Qed.
  Lemma P_stop_andor sc a t r : lv (hd r) <> 2 -> Parses (SAndOrL a t) sc 1 r a t r.
  Proof. intros H; st. destruct r as [|[] r]; cbn in H; try reflexivity; lia. Qed.

  Lemma P_mul sc b1 b2 ts a ta r x tx r' :
    Parses SUn sc b1 ts a ta r -> Parses (SMulL a ta) sc b2 r x tx r' -> Parses SMul sc (S (b1 + b2)) ts x tx r'.
  Proof. intros H1 H2; st. rewrite H1 by lia. apply H2; lia. Qed.
  Lemma P_add sc b1 b2 ts a ta r x tx r' :
    Parses SMul sc b1 ts a ta r -> Parses (SAddL a ta) sc b2 r x tx r' -> Parses SAdd sc (S (b1 + b2)) ts x tx r'.
  Proof. intros H1 H2; st. rewrite H1 by lia. apply H2; lia. Qed.
  Lemma P_rel sc b1 b2 ts a ta r x tx r' : start_ok ts = true ->
    Parses SAdd sc b1 ts a ta r -> Parses (SRelL a ta) sc b2 r x tx r' -> Parses SRel sc (S (b1 + b2)) ts x tx r'.
  Proof.
    intros Hs H1 H2; st.
    destruct ts as [|[] ts]; cbn in Hs; try discriminate; rewrite H1 by lia; apply H2; lia.
  Qed.
  Lemma P_not_skip sc b ts a ta r : start_ok ts = true -> Parses SRel sc b ts a ta r -> Parses SNot sc (S b) ts a ta r.
  Proof. intros Hs H; st. destruct ts as [|[] ts]; cbn in Hs; try discriminate; apply H; lia. Qed.
  Lemma P_andor sc b1 b2 ts a ta r x tx r' :
    Parses SNot sc b1 ts a ta r -> Parses (SAndOrL a ta) sc b2 r x tx r' -> Parses SAndOr sc (S (b1 + b2)) ts x tx r'.
  Proof. intros H1 H2; st. rewrite H1 by lia. apply H2; lia. Qed.
  Lemma P_imp_skip sc b ts a ta r : lv (hd r) <> 1 -> Parses SAndOr sc b ts a ta r -> Parses SImp sc (S b) ts a ta r.
  Proof. intros Hf H; st. rewrite H by lia. destruct r as [|[] r]; cbn in Hf; try reflexivity; lia. Qed.

  (* lifting a parse at the unary level through the looser levels when no operator of those levels follows *)
  Lemma up_mul sc b ts a t r : Parses SUn sc b ts a t r -> lv (hd r) < 7 -> Parses SMul sc (b + 2) ts a t r.
  Proof. intros H L. eapply Parses_mono. eapply P_mul; [exact H|apply P_stop_mul; lia]. lia. Qed.
  Lemma up_add sc b ts a t r : Parses SUn sc b ts a t r -> lv (hd r) < 6 -> Parses SAdd sc (b + 4) ts a t r.
  Proof. intros H L. eapply Parses_mono. eapply P_add; [apply up_mul; [exact H|lia]|apply P_stop_add; lia]. lia. Qed.
  Lemma up_not sc b ts a t r : start_ok ts = true ->
    Parses SUn sc b ts a t r -> lv (hd r) < 5 -> Parses SNot sc (b + 7) ts a t r.
  Proof.
    intros Hs H L. eapply Parses_mono. apply P_not_skip; [exact Hs|].
    eapply P_rel; [exact Hs|apply up_add; [exact H|lia]|apply P_stop_rel; lia]. lia.
  Qed.
  Lemma up_andor sc b ts a t r : start_ok ts = true ->
    Parses SUn sc b ts a t r -> lv (hd r) < 2 -> Parses SAndOr sc (b + 9) ts a t r.
  Proof.
    intros Hs H L. eapply Parses_mono. eapply P_andor; [apply up_not; [exact Hs|exact H|lia]|apply P_stop_andor; lia]. lia.
  Qed.
  Lemma up_imp sc b ts a t r : start_ok ts = true ->
    Parses SUn sc b ts a t r -> lv (hd r) = 0 -> Parses SImp sc (b + 10) ts a t r.
  Proof.
    intros Hs H L. eapply Parses_mono. apply P_imp_skip; [lia|]. apply up_andor; [exact Hs|exact H|lia]. lia.
  Qed.

  (* ---- one step of each loop ---- *)
  Lemma P_mulL_times sc b1 b2 a r b r' x tx r'' :
    Parses SUn sc b1 r b TA r' -> Parses (SMulL (ETimes [a; b]) TA) sc b2 r' x tx r'' ->
    Parses (SMulL a TA) sc (S (b1 + b2)) (TTimes :: r) x tx r''.
  Proof. intros H1 H2; st. rewrite H1 by lia. cbn. apply H2; lia. Qed.
  Lemma P_mulL_div sc b1 b2 a r b r' x tx r'' :
    Parses SUn sc b1 r b TA r' -> Parses (SMulL (EDiv a b) TA) sc b2 r' x tx r'' ->
    Parses (SMulL a TA) sc (S (b1 + b2)) (TDiv :: r) x tx r''.
  Proof. intros H1 H2; st. rewrite H1 by lia. cbn. apply H2; lia. Qed.
  Lemma P_addL_plus sc b1 b2 a r b r' x tx r'' :
    Parses SMul sc b1 r b TA r' -> Parses (SAddL (EPlus [a; b]) TA) sc b2 r' x tx r'' ->
    Parses (SAddL a TA) sc (S (b1 + b2)) (TPlus :: r) x tx r''.
  Proof. intros H1 H2; st. rewrite H1 by lia. cbn. apply H2; lia. Qed.
  Lemma P_addL_minus sc b1 b2 a r b r' x tx r'' :
    Parses SMul sc b1 r b TA r' -> Parses (SAddL (EMinus a b) TA) sc b2 r' x tx r'' ->
    Parses (SAddL a TA) sc (S (b1 + b2)) (TMinus :: r) x tx r''.
  Proof. intros H1 H2; st. rewrite H1 by lia. cbn. apply H2; lia. Qed.
  Lemma P_relL_le sc b1 b2 a r b r' x tx r'' :
    Parses SAdd sc b1 r b TA r' -> Parses (SRelL (ELe a b) TR) sc b2 r' x tx r'' ->
    Parses (SRelL a TA) sc (S (b1 + b2)) (TLe :: r) x tx r''.
  Proof. intros H1 H2; st. rewrite H1 by lia. cbn. apply H2; lia. Qed.
  Lemma P_relL_lt sc b1 b2 a r b r' x tx r'' :
    Parses SAdd sc b1 r b TA r' -> Parses (SRelL (ELt a b) TR) sc b2 r' x tx r'' ->
    Parses (SRelL a TA) sc (S (b1 + b2)) (TLt :: r) x tx r''.
  Proof. intros H1 H2; st. rewrite H1 by lia. cbn. apply H2; lia. Qed.
  Lemma P_relL_eq sc b1 b2 a r b r' x tx r'' : is_bool R a = false ->
    Parses SAdd sc b1 r b TA r' -> Parses (SRelL (EEquals a b) TR) sc b2 r' x tx r'' ->
    Parses (SRelL a TA) sc (S (b1 + b2)) (TEq :: r) x tx r''.
  Proof. intros Hb H1 H2; st. rewrite H1 by lia. cbn. rewrite Hb. apply H2; lia. Qed.
  Lemma P_andorL_and sc b1 b2 a ta r b tb r' x tx r'' :
    Parses SNot sc b1 r b tb r' -> Parses (SAndOrL (EAnd [a; b]) TB) sc b2 r' x tx r'' ->
    Parses (SAndOrL a ta) sc (S (b1 + b2)) (TAnd :: r) x tx r''.
  Proof. intros H1 H2; st. rewrite H1 by lia. apply H2; lia. Qed.
  Lemma P_andorL_or sc b1 b2 a ta r b tb r' x tx r'' :
    Parses SNot sc b1 r b tb r' -> Parses (SAndOrL (EOr [a; b]) TB) sc b2 r' x tx r'' ->
    Parses (SAndOrL a ta) sc (S (b1 + b2)) (TOr :: r) x tx r''.
  Proof. intros H1 H2; st. rewrite H1 by lia. apply H2; lia. Qed.
  Lemma P_imp sc b1 b2 ts a ta r b tb r' :
    Parses SAndOr sc b1 ts a ta (TImplies :: r) -> Parses SImp sc b2 r b tb r' ->
    Parses SImp sc (S (b1 + b2)) ts (EImplies a b) TB r'.
  Proof. intros H1 H2; st. rewrite H1 by lia. rewrite H2 by lia. reflexivity. Qed.
  Lemma P_not sc b r a ta r' : Parses SNot sc b r a ta r' -> Parses SNot sc (S b) (TNot :: r) (mkNot a) TB r'.
  Proof. intros H; st. rewrite H by lia. reflexivity. Qed.
  Lemma P_paren sc b r a ta r' : Parses SImp sc b r a ta (TRp :: r') -> Parses SUn sc (b + 2) (TLp :: r) a ta r'.
  Proof. intros H; st. destruct n as [|n]; [exfalso; lia|]. cbn [go]. rewrite H by lia. reflexivity. Qed.
End P.

Section Q.
  Variable W : wnames.
  Variable R : rtables.
  Variable arity : N -> nat.
  Hypothesis HN : names_ok W R arity.

  Ltac st := let n := fresh "n" in let Hn := fresh "Hn" in
    intros n Hn; destruct n as [|n]; [exfalso; lia|]; cbn [go].

  Lemma P_true sc r : Parses R SUn sc 2 (TTrue :: r) (EBool true) TA r.
  Proof. st. destruct n as [|n]; [exfalso; lia|]. reflexivity. Qed.
  Lemma P_false sc r : Parses R SUn sc 2 (TFalse :: r) (EBool false) TA r.
  Proof. st. destruct n as [|n]; [exfalso; lia|]. reflexivity. Qed.
  Lemma P_num sc k r : Parses R SUn sc 2 (TNum k :: r) (EInt (Z.of_N k)) TA r.
  Proof. st. destruct n as [|n]; [exfalso; lia|]. reflexivity. Qed.
  Lemma P_neg sc k r : Parses R SUn sc 3 (TMinus :: TNum k :: r) (ETimes [EInt (-1); EInt (Z.of_N k)]) TA r.
  Proof. st. rewrite (P_num sc k r) by lia. reflexivity. Qed.
  Lemma P_name0 sc s r a : nolp r = true -> resolve R sc s [] r = Ok a TA r -> Parses R SUn sc 2 (TName s :: r) a TA r.
  Proof.
    intros Hl Hr; st. destruct n as [|n]; [exfalso; lia|]. cbn [go].
    destruct r as [|[] r]; cbn in Hl; try discriminate; exact Hr.
  Qed.
  Lemma P_nameargs sc s b r es r' a : start_ok r = true ->
    ParsesL R (SArgs []) sc b r es r' -> resolve R sc s es r' = Ok a TA r' ->
    Parses R SUn sc (b + 2) (TName s :: TLp :: r) a TA r'.
  Proof.
    intros Hs H Hr; st. destruct n as [|n]; [exfalso; lia|]. cbn [go].
    destruct r as [|[] r]; cbn in Hs; try discriminate; rewrite H by lia; exact Hr.
  Qed.
  Lemma P_args_comma sc b1 b2 ts a ta r acc l r' :
    Parses R SImp sc b1 ts a ta (TComma :: r) -> ParsesL R (SArgs (a :: acc)) sc b2 r l r' ->
    ParsesL R (SArgs acc) sc (S (b1 + b2)) ts l r'.
  Proof. intros H1 H2; st. rewrite H1 by lia. apply H2; lia. Qed.
  Lemma P_args_end sc b ts a ta r acc :
    Parses R SImp sc b ts a ta (TRp :: r) -> ParsesL R (SArgs acc) sc (S b) ts (rev (a :: acc)) r.
  Proof. intros H1; st. rewrite H1 by lia. reflexivity. Qed.

  (* ---- names ---- *)
  Lemma lookup_rscope_none bs s : (forall v, s <> nmV W v) -> lookup (rscope W bs) s = None.
  Proof.
    intros H. induction bs as [|[v t] bs IH]; [reflexivity|]. cbn.
    destruct (N.eqb_spec s (nmV W v)); [exfalso; eapply H; eauto|exact IH].
  Qed.
  Lemma nmV_inj v v' : nmV W v = nmV W v' -> v = v'.
  Proof. intros E. rewrite <- (h_var _ _ _ HN v), <- (h_var _ _ _ HN v'). now rewrite E. Qed.
  Lemma lookup_rscope_var bs v : lookup (rscope W bs) (nmV W v) = lookup bs v.
  Proof.
    induction bs as [|[v' t] bs IH]; [reflexivity|]. cbn.
    destruct (N.eqb_spec (nmV W v) (nmV W v')) as [E|E].
    - apply nmV_inj in E. subst. now rewrite N.eqb_refl.
    - destruct (N.eqb_spec v v'); [subst; congruence|exact IH].
  Qed.

  Lemma res_obj bs o r : resolve R (rscope W bs) (nmO W o) [] r = Ok (EObj o) TA r.
  Proof.
    unfold resolve. rewrite lookup_rscope_none by (intros v; apply (h_ov _ _ _ HN)).
    now rewrite (h_op _ _ _ HN), (h_of _ _ _ HN), (h_obj _ _ _ HN).
  Qed.
  Lemma res_par bs p r : resolve R (rscope W bs) (nmP W p) [] r = Ok (EParam p) TA r.
  Proof.
    unfold resolve. rewrite lookup_rscope_none by (intros v; apply (h_pv _ _ _ HN)).
    now rewrite (h_par _ _ _ HN).
  Qed.
  Lemma res_var bs v ty r : lookup bs v = Some ty -> resolve R (rscope W bs) (nmV W v) [] r = Ok (EVar v ty) TA r.
  Proof. intros H. unfold resolve. rewrite lookup_rscope_var, H. now rewrite (h_var _ _ _ HN). Qed.
  Lemma res_flu bs f es r : length es = arity f -> resolve R (rscope W bs) (nmF W f) es r = Ok (EFluent f es) TA r.
  Proof.
    intros H. unfold resolve. rewrite lookup_rscope_none by (intros v; apply (h_fv _ _ _ HN)).
    rewrite (h_fp _ _ _ HN), (h_flu _ _ _ HN), H, Nat.eqb_refl. reflexivity.
  Qed.

  Lemma join_cons sep x l : join sep (x :: l) = x ++ concat (map (fun y => sep :: y) l).
  Proof.
    revert x; induction l as [|y l IH]; intros x; [cbn; now rewrite app_nil_r|].
    change (join sep (x :: y :: l)) with (x ++ sep :: join sep (y :: l)). rewrite IH. reflexivity.
  Qed.

  Lemma start_pr e bs rest : anml_ok R arity bs e = true -> start_ok (pr W e ++ rest) = true.
  Proof.
    destruct e; cbn; try discriminate; try reflexivity; intros _.
    - destruct b; reflexivity.
    - unfold pr_int. destruct (z <? 0)%Z; reflexivity.
    - destruct args; reflexivity.
  Qed.

  Definition IH (sc : list (N * N)) (bs : list (N * N)) (x : expr) : Prop :=
    anml_ok R arity bs x = true /\
    forall rest, nolp rest = true ->
      Parses R SUn sc (20 * length (pr W x)) (pr W x ++ rest) (norm x) (tier_of x) rest.

  Section Chain.
    Variables (sc bs : list (N * N)) (SL : expr -> tier -> st) (so : st) (sep : token) (mk : expr -> expr -> expr)
              (okT : tier -> Prop) (T' : tier) (up : nat).
    Hypothesis Hstop : forall a t r, hd r = TRp -> Parses R (SL a t) sc 1 r a t r.
    Hypothesis Hstep : forall b1 b2 a ta r b tb r' x tx r'', okT ta -> okT tb ->
      Parses R so sc b1 r b tb r' -> Parses R (SL (mk a b) T') sc b2 r' x tx r'' ->
      Parses R (SL a ta) sc (S (b1 + b2)) (sep :: r) x tx r''.
    Hypothesis HT' : okT T'.
    Hypothesis Hup : forall b ts a t r, start_ok ts = true -> Parses R SUn sc b ts a t r ->
      (hd r = sep \/ hd r = TRp) -> Parses R so sc (b + up) ts a t r.
    Hypothesis Hsep : forall r, nolp (sep :: r) = true.

    Definition cost (l : list expr) : nat := fold_right (fun x s => 20 * length (pr W x) + up + 2 + s) 1 l.

    Lemma chain_parses : forall l acc ta rest, okT ta ->
      Forall (fun x => okT (tier_of x) /\ IH sc bs x) l ->
      Parses R (SL acc ta) sc (cost l) (concat (map (fun y => sep :: y) (map (pr W) l)) ++ TRp :: rest)
             (fold_left mk (map norm l) acc) (match l with [] => ta | _ => T' end) (TRp :: rest).
    Proof.
      induction l as [|x l IHl]; intros acc ta rest Hta HF.
      - cbn. apply Hstop. reflexivity.
      - inversion HF as [|? ? [Hx [Hok Hp]] HF']; subst.
        replace (concat (map (fun y => sep :: y) (map (pr W) (x :: l))) ++ TRp :: rest)
          with (sep :: (pr W x ++ (concat (map (fun y => sep :: y) (map (pr W) l)) ++ TRp :: rest)))
          by (cbn; now rewrite <- app_assoc).
        change (cost (x :: l)) with (20 * length (pr W x) + up + 2 + cost l).
        change (fold_left mk (map norm (x :: l)) acc) with (fold_left mk (map norm l) (mk acc (norm x))).
        eapply Parses_mono.
        + eapply Hstep; [exact Hta|exact Hx| |].
          * eapply Hup; [eapply start_pr; exact Hok| |].
            -- apply Hp. destruct l as [|y l0]; [reflexivity|].
               exact (Hsep ((pr W y ++ concat (map (fun y => sep :: y) (map (pr W) l0))) ++ TRp :: rest)).
            -- destruct l; cbn; [right|left]; reflexivity.
          * specialize (IHl (mk acc (norm x)) T' rest HT' HF').
            destruct l; exact IHl.
        + lia.
    Qed.
  End Chain.
End Q.

Section M.
  Variable W : wnames.
  Variable R : rtables.
  Variable arity : N -> nat.
  Hypothesis HN : names_ok W R arity.

  Lemma imp_of_andor sc b ts a t r : Parses R SAndOr sc b ts a t (TRp :: r) -> Parses R SImp sc (b + 1) ts a t (TRp :: r).
  Proof. intros H. eapply Parses_mono; [apply P_imp_skip; [cbn; lia|exact H]|lia]. Qed.
  Lemma imp_of_not sc b ts a t r : Parses R SNot sc b ts a t (TRp :: r) -> Parses R SImp sc (b + 3) ts a t (TRp :: r).
  Proof.
    intros H. eapply Parses_mono; [apply imp_of_andor; eapply P_andor; [exact H|apply P_stop_andor; cbn; lia]|lia].
  Qed.
  Lemma imp_of_rel sc b ts a t r : start_ok ts = true ->
    Parses R SRel sc b ts a t (TRp :: r) -> Parses R SImp sc (b + 4) ts a t (TRp :: r).
  Proof. intros Hs H. eapply Parses_mono; [apply imp_of_not; apply P_not_skip; [exact Hs|exact H]|lia]. Qed.
  Lemma imp_of_add sc b ts a t r : start_ok ts = true ->
    Parses R SAdd sc b ts a t (TRp :: r) -> Parses R SImp sc (b + 6) ts a t (TRp :: r).
  Proof.
    intros Hs H. eapply Parses_mono; [apply imp_of_rel; [exact Hs|eapply P_rel; [exact Hs|exact H|apply P_stop_rel; cbn; lia]]|lia].
  Qed.
  Lemma imp_of_mul sc b ts a t r : start_ok ts = true ->
    Parses R SMul sc b ts a t (TRp :: r) -> Parses R SImp sc (b + 8) ts a t (TRp :: r).
  Proof.
    intros Hs H. eapply Parses_mono; [apply imp_of_add; [exact Hs|eapply P_add; [exact H|apply P_stop_add; cbn; lia]]|lia].
  Qed.


  (* ---- from a parse at the unary level to [parse] with the fuel [fuel_of] ---- *)
  Lemma parse_of_Parses sc b ts a t :
    start_ok ts = true -> Parses R SUn sc b ts a t [] -> b + 10 <= fuel_of ts -> parse R sc ts = Some a.
  Proof.
    intros Hs H L. unfold parse.
    rewrite (up_imp R sc b ts a t [] Hs H eq_refl (fuel_of ts)) by lia. reflexivity.
  Qed.

  (* the atomic part of the fragment *)
  Definition atomic (e : expr) : bool :=
    match e with
    | EBool _ | EInt _ | EObj _ | EParam _ | EVar _ _ | EFluent _ [] => true
    | _ => false
    end.

  Theorem parse_print_atomic e bs :
    atomic e = true -> anml_ok R arity bs e = true -> parse R (rscope W bs) (pr W e) = Some (norm e).
  Proof.
    intros Ha Hok.
    destruct e; cbn in Ha; try discriminate.
    - eapply parse_of_Parses with (b := 2) (t := TA); [destruct b; reflexivity| |cbn; destruct b; cbn; lia].
      destruct b; [apply P_true|apply P_false].
    - cbn [pr norm]. unfold pr_int, norm_int. destruct (z <? 0)%Z eqn:E.
      + eapply parse_of_Parses with (b := 3) (t := TA); [reflexivity| |cbn; lia].
        replace (- z)%Z with (Z.of_N (Z.to_N (- z))) at 2 by (apply Z2N.id; lia). apply P_neg.
      + eapply parse_of_Parses with (b := 2) (t := TA); [reflexivity| |cbn; lia].
        replace z with (Z.of_N (Z.to_N z)) at 2 by (apply Z2N.id; lia). apply P_num.
    - eapply parse_of_Parses with (b := 2) (t := TA); [reflexivity| |cbn; lia].
      apply P_name0; [reflexivity|apply (res_obj W R arity HN)].
    - eapply parse_of_Parses with (b := 2) (t := TA); [reflexivity| |cbn; lia].
      apply P_name0; [reflexivity|apply (res_par W R arity HN)].
    - cbn in Hok. destruct (lookup bs v) as [t|] eqn:E; [|discriminate].
      apply N.eqb_eq in Hok. subst t.
      eapply parse_of_Parses with (b := 2) (t := TA); [reflexivity| |cbn; lia].
      apply P_name0; [reflexivity|apply (res_var W R arity HN); exact E].
    - destruct args; [|discriminate]. cbn in Hok. destruct (arity f) eqn:Ea; [|discriminate].
      eapply parse_of_Parses with (b := 2) (t := TA); [reflexivity| |cbn; lia].
      apply P_name0; [reflexivity|apply (res_flu W R arity HN); cbn; symmetry; exact Ea].
  Qed.
End M.

(* ================================================================================================================
   The four left-associative levels inside parentheses and the induction over the fragment. *)
Definition isA (t : tier) : Prop := t = TA.
Definition anyT (t : tier) : Prop := True.

Section L.
  Variable W : wnames.
  Variable R : rtables.
  Variable arity : N -> nat.
  Variables sc bs : list (N * N).
  Notation IHx := (IH W R arity sc bs).

  Definition ctoks (sep : token) (l : list expr) : list token :=
    concat (map (fun y => sep :: y) (map (pr W) l)).
  Definition tl (l : list expr) : nat := fold_right (fun x s => S (length (pr W x)) + s) 0 l.
  Lemma len_ctoks sep l : length (ctoks sep l) = tl l.
  Proof. unfold ctoks. induction l as [|x l IHl]; cbn; [reflexivity|]. rewrite app_length, IHl. reflexivity. Qed.
  Lemma cost_le up l : up <= 16 -> cost W up l <= 20 * tl l + 1.
  Proof.
    intros Hu. induction l as [|x l IHl]; [cbn; lia|].
    change (cost W up (x :: l)) with (20 * length (pr W x) + up + 2 + cost W up l).
    change (tl (x :: l)) with (S (length (pr W x)) + tl l). lia.
  Qed.

  (* the loops of the arithmetic levels *)
  Lemma chain_mulA sep mk l acc rest :
    (sep = TTimes /\ mk = (fun a b => ETimes [a; b])) \/ (sep = TDiv /\ mk = (fun a b => EDiv a b)) ->
    Forall (fun x => isA (tier_of x) /\ IHx x) l ->
    Parses R (SMulL acc TA) sc (cost W 0 l) (ctoks sep l ++ TRp :: rest) (fold_left mk (map norm l) acc) TA (TRp :: rest).
  Proof.
    intros Hs HF.
    pose proof (chain_parses W R arity sc bs SMulL SUn sep mk isA TA 0) as C.
    assert (E : match l with [] => TA | _ :: _ => TA end = TA) by (destruct l; reflexivity).
    rewrite <- E at 2. apply C; clear C; try reflexivity; try exact HF.
    - intros a t r H. apply P_stop_mul. rewrite H. cbn. lia.
    - intros b1 b2 a ta r b tb r' x tx r'' Ha Hb. unfold isA in *. subst.
      destruct Hs as [[-> ->]|[-> ->]]; [apply P_mulL_times|apply P_mulL_div].
    - intros b ts a t r _ H _. eapply Parses_mono; [exact H|lia].
    - destruct Hs as [[-> _]|[-> _]]; reflexivity.
  Qed.
  Lemma chain_addA sep mk l acc rest :
    (sep = TPlus /\ mk = (fun a b => EPlus [a; b])) \/ (sep = TMinus /\ mk = (fun a b => EMinus a b)) ->
    Forall (fun x => isA (tier_of x) /\ IHx x) l ->
    Parses R (SAddL acc TA) sc (cost W 2 l) (ctoks sep l ++ TRp :: rest) (fold_left mk (map norm l) acc) TA (TRp :: rest).
  Proof.
    intros Hs HF.
    pose proof (chain_parses W R arity sc bs SAddL SMul sep mk isA TA 2) as C.
    assert (E : match l with [] => TA | _ :: _ => TA end = TA) by (destruct l; reflexivity).
    rewrite <- E at 2. apply C; clear C; try reflexivity; try exact HF.
    - intros a t r H. apply P_stop_add. rewrite H. cbn. lia.
    - intros b1 b2 a ta r b tb r' x tx r'' Ha Hb. unfold isA in *. subst.
      destruct Hs as [[-> ->]|[-> ->]]; [apply P_addL_plus|apply P_addL_minus].
    - intros b ts a t r _ H Hh. apply up_mul; [exact H|].
      destruct Hs as [[-> _]|[-> _]]; destruct Hh as [-> | ->]; cbn; lia.
    - destruct Hs as [[-> _]|[-> _]]; reflexivity.
  Qed.
  Lemma chain_andorA sep mk l acc ta rest :
    (sep = TAnd /\ mk = (fun a b => EAnd [a; b])) \/ (sep = TOr /\ mk = (fun a b => EOr [a; b])) ->
    Forall (fun x => anyT (tier_of x) /\ IHx x) l ->
    Parses R (SAndOrL acc ta) sc (cost W 7 l) (ctoks sep l ++ TRp :: rest) (fold_left mk (map norm l) acc)
           (match l with [] => ta | _ => TB end) (TRp :: rest).
  Proof.
    intros Hs HF.
    pose proof (chain_parses W R arity sc bs SAndOrL SNot sep mk anyT TB 7) as C.
    apply C; clear C; try exact I; try exact HF.
    - intros a t r H. apply P_stop_andor. rewrite H. cbn. lia.
    - intros b1 b2 a ta' r b tb r' x tx r'' _ _.
      destruct Hs as [[-> ->]|[-> ->]]; [apply P_andorL_and|apply P_andorL_or].
    - intros b ts a t r Hst H Hh. apply up_not; [exact Hst|exact H|].
      destruct Hs as [[-> _]|[-> _]]; destruct Hh as [-> | ->]; cbn; lia.
    - destruct Hs as [[-> _]|[-> _]]; reflexivity.
  Qed.

  (* "(" x chain ")" at each level *)
  Lemma paren_mul b1 b2 x r1 y ty rest : start_ok (pr W x ++ r1) = true ->
    Parses R SUn sc b1 (pr W x ++ r1) (norm x) TA r1 ->
    Parses R (SMulL (norm x) TA) sc b2 r1 y ty (TRp :: rest) ->
    Parses R SUn sc (b1 + b2 + 11) (TLp :: pr W x ++ r1) y ty rest.
  Proof.
    intros Hs H1 H2. eapply Parses_mono; [apply P_paren; apply imp_of_mul; [exact Hs|eapply P_mul; [exact H1|exact H2]]|lia].
  Qed.
  Lemma paren_add b1 b2 x r1 y ty rest : start_ok (pr W x ++ r1) = true -> lv (hd r1) < 7 ->
    Parses R SUn sc b1 (pr W x ++ r1) (norm x) TA r1 ->
    Parses R (SAddL (norm x) TA) sc b2 r1 y ty (TRp :: rest) ->
    Parses R SUn sc (b1 + b2 + 11) (TLp :: pr W x ++ r1) y ty rest.
  Proof.
    intros Hs Hl H1 H2. eapply Parses_mono;
      [apply P_paren; apply imp_of_add; [exact Hs|eapply P_add; [apply up_mul; [exact H1|exact Hl]|exact H2]]|lia].
  Qed.
  Lemma paren_rel b1 b2 x r1 y ty rest : start_ok (pr W x ++ r1) = true -> lv (hd r1) < 6 ->
    Parses R SUn sc b1 (pr W x ++ r1) (norm x) TA r1 ->
    Parses R (SRelL (norm x) TA) sc b2 r1 y ty (TRp :: rest) ->
    Parses R SUn sc (b1 + b2 + 11) (TLp :: pr W x ++ r1) y ty rest.
  Proof.
    intros Hs Hl H1 H2. eapply Parses_mono;
      [apply P_paren; apply imp_of_rel; [exact Hs|eapply P_rel; [exact Hs|apply up_add; [exact H1|exact Hl]|exact H2]]|lia].
  Qed.
  Lemma paren_andor b1 b2 x tx r1 y ty rest : start_ok (pr W x ++ r1) = true -> lv (hd r1) < 5 ->
    Parses R SUn sc b1 (pr W x ++ r1) (norm x) tx r1 ->
    Parses R (SAndOrL (norm x) tx) sc b2 r1 y ty (TRp :: rest) ->
    Parses R SUn sc (b1 + b2 + 11) (TLp :: pr W x ++ r1) y ty rest.
  Proof.
    intros Hs Hl H1 H2. eapply Parses_mono;
      [apply P_paren; apply imp_of_andor; eapply P_andor; [apply up_not; [exact Hs|exact H1|exact Hl]|exact H2]|lia].
  Qed.
End L.

Section Main.
  Variable W : wnames.
  Variable R : rtables.
  Variable arity : N -> nat.
  Hypothesis HN : names_ok W R arity.
  Variable allowq : bool.

  Fixpoint frag (e : expr) : bool :=
    match e with
    | EExists _ a | EForall _ a => allowq && frag a
    | EFluent _ l | EAnd l | EOr l | EPlus l | ETimes l => forallb frag l
    | ENot a => frag a
    | EImplies a b | EIff a b | EMinus a b | EDiv a b | ELe a b | ELt a b | EEquals a b => frag a && frag b
    | _ => true
    end.

  Definition PU (bs : list (N * N)) (e : expr) : Prop :=
    forall rest, nolp rest = true ->
      Parses R SUn (rscope W bs) (20 * length (pr W e)) (pr W e ++ rest) (norm e) (tier_of e) rest.
  Definition M (e : expr) : Prop :=
    forall bs, frag e = true -> anml_ok R arity bs e = true -> PU bs e.

  Definition qnode (ex : bool) (vs : list (N * N)) (a : expr) : expr := if ex then EExists vs a else EForall vs a.
  Hypothesis HQ : allowq = true -> forall ex vs a bs,
    anml_ok R arity bs (qnode ex vs a) = true -> PU (vs ++ bs) a -> PU bs (qnode ex vs a).

  Lemma int_parses sc z r :
    Parses R SUn sc 3 (pr_int z ++ r) (norm_int z) TA r.
  Proof.
    unfold pr_int, norm_int. destruct (z <? 0)%Z eqn:E; cbn [app].
    - replace (- z)%Z with (Z.of_N (Z.to_N (- z))) at 2 by (apply Z2N.id; lia). apply P_neg.
    - replace z with (Z.of_N (Z.to_N z)) at 2 by (apply Z2N.id; lia). eapply Parses_mono; [apply P_num|lia].
  Qed.
  Lemma len_pr_int z : 1 <= length (pr_int z) <= 2.
  Proof. unfold pr_int. destruct (z <? 0)%Z; cbn; lia. Qed.
  Lemma start_int z r : start_ok (pr_int z ++ r) = true.
  Proof. unfold pr_int. destruct (z <? 0)%Z; reflexivity. Qed.

  Lemma mkF bs (okT : tier -> Prop) l :
    Forall M l -> forallb frag l = true -> forallb (anml_ok R arity bs) l = true ->
    (forall x, In x l -> okT (tier_of x)) ->
    Forall (fun x => okT (tier_of x) /\ IH W R arity (rscope W bs) bs x) l.
  Proof.
    intros HM Hf Ho Ht. rewrite forallb_forall in Hf, Ho. rewrite Forall_forall in *.
    intros x Hx. split; [apply Ht; exact Hx|]. split; [apply Ho; exact Hx|].
    apply HM; [exact Hx|apply Hf; exact Hx|apply Ho; exact Hx].
  Qed.
  Lemma arith_isA l : forallb arith l = true -> forall x, In x l -> isA (tier_of x).
  Proof.
    intros H x Hx. rewrite forallb_forall in H. specialize (H x Hx). unfold arith in H. unfold isA.
    destruct (tier_of x); cbn in H; congruence.
  Qed.
  Lemma arith_TA x : arith x = true -> tier_of x = TA.
  Proof. unfold arith. destruct (tier_of x); cbn; congruence. Qed.

  Lemma nary_eq sep x l rest :
    (TLp :: join sep (map (pr W) (x :: l)) ++ [TRp]) ++ rest = TLp :: pr W x ++ (ctoks W sep l ++ TRp :: rest).
  Proof. cbn [map]. rewrite join_cons. unfold ctoks. cbn [app]. rewrite <- !app_assoc. reflexivity. Qed.
  Lemma nary_len sep x l : length (TLp :: join sep (map (pr W) (x :: l)) ++ [TRp]) = 2 + length (pr W x) + tl W l.
  Proof.
    cbn [map]. rewrite join_cons. cbn [length]. rewrite !app_length. fold (ctoks W sep l). rewrite len_ctoks. cbn. lia.
  Qed.
  Lemma bin_eq sep a b rest :
    (TLp :: pr W a ++ sep :: pr W b ++ [TRp]) ++ rest = TLp :: pr W a ++ (ctoks W sep [b] ++ TRp :: rest).
  Proof.
    unfold ctoks. cbn [map concat]. rewrite app_nil_r. cbn [app]. f_equal.
    repeat (rewrite <- app_assoc; cbn [app]). reflexivity.
  Qed.
  Lemma hd_ctoks sep y l r : hd (ctoks W sep (y :: l) ++ r) = sep.
  Proof. reflexivity. Qed.

  (* "(a implies b)" *)
  Lemma paren_imp bs a b rest :
    anml_ok R arity bs a = true -> anml_ok R arity bs b = true -> PU bs a -> PU bs b -> nolp rest = true ->
    Parses R SUn (rscope W bs) (20 * length (pr W a) + 20 * length (pr W b) + 23)
      (TLp :: pr W a ++ TImplies :: pr W b ++ TRp :: rest) (EImplies (norm a) (norm b)) TB rest.
  Proof.
    intros Ha Hb Pa Pb Hr.
    eapply Parses_mono; [apply P_paren; eapply P_imp;
      [apply up_andor; [eapply start_pr; exact Ha|apply Pa; reflexivity|cbn; lia]
      |apply up_imp; [eapply start_pr; exact Hb|apply Pb; reflexivity|reflexivity]]|lia].
  Qed.

  (* expression_list of a fluent reference *)
  Definition acost (l : list expr) : nat := fold_right (fun x s => 20 * length (pr W x) + 12 + s) 0 l.
  Lemma args_parses bs : forall l acc rest, l <> [] ->
    Forall (fun x => anml_ok R arity bs x = true /\ PU bs x) l ->
    ParsesL R (SArgs acc) (rscope W bs) (acost l) (join TComma (map (pr W) l) ++ TRp :: rest)
      (rev acc ++ map norm l) rest.
  Proof.
    induction l as [|x l IHl]; intros acc rest Hne HF; [congruence|].
    inversion HF as [|? ? [Hok Hp] HF']; subst.
    destruct l as [|y l].
    - cbn [map join]. change (rev acc ++ [norm x]) with (rev (norm x :: acc)).
      intros n Hn. eapply P_args_end with (b := 20 * length (pr W x) + 10); [|cbn in Hn; lia].
      apply up_imp; [eapply start_pr; exact Hok|apply Hp; reflexivity|reflexivity].
    - change (join TComma (map (pr W) (x :: y :: l))) with (pr W x ++ TComma :: join TComma (map (pr W) (y :: l))).
      rewrite <- app_assoc. cbn [app].
      change (map norm (x :: y :: l)) with (norm x :: map norm (y :: l)).
      replace (rev acc ++ norm x :: map norm (y :: l)) with (rev (norm x :: acc) ++ map norm (y :: l))
        by (cbn [rev]; rewrite <- app_assoc; reflexivity).
      intros n Hn.
      eapply P_args_comma with (b1 := 20 * length (pr W x) + 10) (b2 := acost (y :: l)).
      + apply up_imp; [eapply start_pr; exact Hok|apply Hp; reflexivity|reflexivity].
      + apply IHl; [congruence|exact HF'].
      + change (acost (x :: y :: l)) with (20 * length (pr W x) + 12 + acost (y :: l)) in Hn. lia.
  Qed.
  Lemma len_join_args l : l <> [] -> S (length (join TComma (map (pr W) l))) = tl W l.
  Proof.
    induction l as [|x l IHl]; [congruence|]. intros _. destruct l as [|y l].
    - cbn. lia.
    - change (join TComma (map (pr W) (x :: y :: l))) with (pr W x ++ TComma :: join TComma (map (pr W) (y :: l))).
      change (tl W (x :: y :: l)) with (S (length (pr W x)) + tl W (y :: l)).
      rewrite app_length. cbn [length]. rewrite <- IHl by congruence. lia.
  Qed.
  Lemma acost_le l : acost l <= 20 * tl W l.
  Proof.
    induction l as [|x l IHl]; [cbn; lia|].
    change (acost (x :: l)) with (20 * length (pr W x) + 12 + acost l).
    change (tl W (x :: l)) with (S (length (pr W x)) + tl W l). lia.
  Qed.

  Ltac ands H := repeat (apply andb_prop in H; let H' := fresh H in destruct H as [H H']).

  Lemma two_plus (l : list expr) : Nat.leb 2 (length l) = true -> exists x y l', l = x :: y :: l'.
  Proof. destruct l as [|x [|y l']]; cbn; try discriminate. eauto. Qed.

  Lemma fold_nb (mk : expr -> expr -> expr) : (forall a b, is_bool R (mk a b) = false) ->
    forall l acc, l <> [] -> is_bool R (fold_left mk l acc) = false.
  Proof.
    intros Hmk. induction l as [|y l IHl]; intros acc Hne; [congruence|]. cbn [fold_left].
    destruct l as [|z l]; [apply Hmk|apply IHl; congruence].
  Qed.
  Lemma norm_is_bool e bs : anml_ok R arity bs e = true -> arith e = true -> is_bool R (norm e) = is_bool R e.
  Proof.
    destruct e; cbn [anml_ok arith tier_of tier_is_A]; try reflexivity; try discriminate; intros Hok _.
    - cbn. unfold norm_int. destruct (z <? 0)%Z; reflexivity.
    - apply andb_prop in Hok. destruct Hok as [_ Hlen]. destruct (two_plus l Hlen) as (x & y & l' & ->).
      cbn [norm map chain]. apply fold_nb; [reflexivity|discriminate].
    - apply andb_prop in Hok. destruct Hok as [_ Hlen]. destruct (two_plus l Hlen) as (x & y & l' & ->).
      cbn [norm map chain]. apply fold_nb; [reflexivity|discriminate].
  Qed.

  Theorem main : forall e, M e.
  Proof.
    induction e using expr_ind'; intros bs Hq Hok rest Hr; cbn [frag] in Hq; cbn [anml_ok] in Hok; try discriminate.
    - (* EBool *) destruct b; cbn [pr app norm tier_of]; eapply Parses_mono; [apply P_true|cbn; lia|apply P_false|cbn; lia].
    - (* EInt *) cbn [pr norm tier_of]. eapply Parses_mono; [apply int_parses|pose proof (len_pr_int z); lia].
    - (* EReal *) cbn [pr norm tier_of]. cbn [app]. rewrite <- app_assoc. cbn [app].
      eapply Parses_mono.
      + apply P_paren. apply imp_of_mul; [apply start_int|].
        eapply P_mul; [apply int_parses|].
        eapply P_mulL_div; [apply P_num|apply P_stop_mul; cbn; lia].
      + cbn [length]. rewrite app_length. cbn [length]. pose proof (len_pr_int (Qnum (this q))). lia.
    - (* EObj *) cbn [pr app norm tier_of]. eapply Parses_mono; [apply P_name0; [exact Hr|apply (res_obj W R arity HN)]|cbn; lia].
    - (* EParam *) cbn [pr app norm tier_of]. eapply Parses_mono; [apply P_name0; [exact Hr|apply (res_par W R arity HN)]|cbn; lia].
    - (* EVar *) destruct (lookup bs v) as [t'|] eqn:E; [|discriminate]. apply N.eqb_eq in Hok. subst t'.
      cbn [pr app norm tier_of]. eapply Parses_mono; [apply P_name0; [exact Hr|apply (res_var W R arity HN); exact E]|cbn; lia].
    - (* EFluent *) ands Hok. apply Nat.eqb_eq in Hok0.
      destruct args as [|x l].
      + cbn [pr app norm tier_of map]. eapply Parses_mono; [apply P_name0; [exact Hr|apply (res_flu W R arity HN); exact Hok0]|cbn; lia].
      + change (pr W (EFluent f (x :: l))) with (TName (nmF W f) :: TLp :: join TComma (map (pr W) (x :: l)) ++ [TRp]).
        cbn [norm tier_of]. cbn [app]. rewrite <- app_assoc. cbn [app].
        assert (HF : Forall (fun y => anml_ok R arity bs y = true /\ PU bs y) (x :: l)).
        { rewrite forallb_forall in Hq, Hok. rewrite Forall_forall in *. intros y Hy. split; [apply Hok; exact Hy|].
          apply H; [exact Hy|apply Hq; exact Hy|apply Hok; exact Hy]. }
        eapply Parses_mono.
        * eapply P_nameargs.
          -- cbn [map]. rewrite join_cons. rewrite <- app_assoc. eapply start_pr. inversion HF as [|? ? [Hx _] _]. exact Hx.
          -- apply (args_parses bs (x :: l) [] rest); [congruence|exact HF].
          -- cbn [rev app]. apply (res_flu W R arity HN). rewrite map_length. exact Hok0.
        * pose proof (acost_le (x :: l)). pose proof (len_join_args (x :: l) ltac:(congruence)).
          cbn [length]. rewrite app_length. cbn [length]. lia.
    - (* EAnd *) apply andb_prop in Hok. destruct Hok as [Hok Hlen]. destruct (two_plus l Hlen) as (x & y & l' & ->).
      cbn [forallb] in Hq, Hok. destruct (andb_prop _ _ Hq) as [Hqx Hql]. destruct (andb_prop _ _ Hok) as [Hokx Hokl].
      inversion H as [|? ? Hx HF']; subst.
      change (pr W (EAnd (x :: y :: l'))) with (TLp :: join TAnd (map (pr W) (x :: y :: l')) ++ [TRp]).
      rewrite nary_eq, nary_len.
      change (norm (EAnd (x :: y :: l'))) with (fold_left (fun a b => EAnd [a; b]) (map norm (y :: l')) (norm x)).
      eapply Parses_mono.
      + eapply paren_andor with (tx := tier_of x);
          [eapply start_pr; exact Hokx|rewrite hd_ctoks; cbn; lia|apply (Hx bs Hqx Hokx); reflexivity|].
        apply (chain_andorA W R arity (rscope W bs) bs TAnd _ (y :: l') (norm x) (tier_of x) rest); [left; split; reflexivity|].
        apply mkF; [exact HF'|exact Hql|exact Hokl|intros; exact I].
      + pose proof (cost_le W 7 (y :: l') ltac:(lia)). lia.
    - (* EOr *) apply andb_prop in Hok. destruct Hok as [Hok Hlen]. destruct (two_plus l Hlen) as (x & y & l' & ->).
      cbn [forallb] in Hq, Hok. destruct (andb_prop _ _ Hq) as [Hqx Hql]. destruct (andb_prop _ _ Hok) as [Hokx Hokl].
      inversion H as [|? ? Hx HF']; subst.
      change (pr W (EOr (x :: y :: l'))) with (TLp :: join TOr (map (pr W) (x :: y :: l')) ++ [TRp]).
      rewrite nary_eq, nary_len.
      change (norm (EOr (x :: y :: l'))) with (fold_left (fun a b => EOr [a; b]) (map norm (y :: l')) (norm x)).
      eapply Parses_mono.
      + eapply paren_andor with (tx := tier_of x);
          [eapply start_pr; exact Hokx|rewrite hd_ctoks; cbn; lia|apply (Hx bs Hqx Hokx); reflexivity|].
        apply (chain_andorA W R arity (rscope W bs) bs TOr _ (y :: l') (norm x) (tier_of x) rest); [right; split; reflexivity|].
        apply mkF; [exact HF'|exact Hql|exact Hokl|intros; exact I].
      + pose proof (cost_le W 7 (y :: l') ltac:(lia)). lia.
    - (* ENot *) change (pr W (ENot e)) with (TLp :: TNot :: pr W e ++ [TRp]). cbn [norm tier_of]. cbn [app].
      rewrite <- app_assoc. cbn [app].
      eapply Parses_mono.
      + apply P_paren. apply imp_of_not. eapply P_not.
        apply up_not; [eapply start_pr; exact Hok|apply (IHe bs Hq Hok); reflexivity|cbn; lia].
      + cbn [length]. rewrite app_length. cbn [length]. lia.
    - (* EImplies *) apply andb_prop in Hok. destruct Hok as [Hoka Hokb]. apply andb_prop in Hq. destruct Hq as [Hqa Hqb].
      change (pr W (EImplies e1 e2)) with (TLp :: pr W e1 ++ TImplies :: pr W e2 ++ [TRp]). cbn [norm tier_of].
      replace ((TLp :: pr W e1 ++ TImplies :: pr W e2 ++ [TRp]) ++ rest)
        with (TLp :: pr W e1 ++ TImplies :: pr W e2 ++ TRp :: rest)
        by (cbn [app]; f_equal; repeat (rewrite <- app_assoc; cbn [app]); reflexivity).
      eapply Parses_mono; [apply paren_imp; [exact Hoka|exact Hokb|apply (IHe1 bs Hqa Hoka)|apply (IHe2 bs Hqb Hokb)|exact Hr]|].
      cbn [length]. rewrite !app_length. cbn [length]. rewrite app_length. cbn [length]. lia.
    - (* EIff *) apply andb_prop in Hok. destruct Hok as [Hoka Hokb]. apply andb_prop in Hq. destruct Hq as [Hqa Hqb].
      change (pr W (EIff e1 e2)) with
        (TLp :: TLp :: pr W e1 ++ TImplies :: pr W e2 ++ [TRp; TAnd; TLp] ++ pr W e2 ++ TImplies :: pr W e1 ++ [TRp; TRp]).
      cbn [norm tier_of].
      replace ((TLp :: TLp :: pr W e1 ++ TImplies :: pr W e2 ++ [TRp; TAnd; TLp] ++ pr W e2 ++ TImplies :: pr W e1 ++ [TRp; TRp]) ++ rest)
        with (TLp :: (TLp :: pr W e1 ++ TImplies :: pr W e2 ++ TRp :: (TAnd :: (TLp :: pr W e2 ++ TImplies :: pr W e1 ++ TRp :: (TRp :: rest)))))
        by (cbn [app]; do 2 f_equal; repeat (rewrite <- app_assoc; cbn [app]); reflexivity).
      pose proof (IHe1 bs Hqa Hoka) as Pa. pose proof (IHe2 bs Hqb Hokb) as Pb.
      eapply Parses_mono.
      + apply P_paren. apply imp_of_andor. eapply P_andor.
        * apply up_not; [reflexivity|apply paren_imp; [exact Hoka|exact Hokb|exact Pa|exact Pb|reflexivity]|cbn; lia].
        * eapply P_andorL_and.
          -- apply up_not; [reflexivity|apply paren_imp; [exact Hokb|exact Hoka|exact Pb|exact Pa|reflexivity]|cbn; lia].
          -- apply P_stop_andor. cbn. lia.
      + cbn [length]. rewrite !app_length. cbn [length]. rewrite !app_length. cbn [length]. rewrite !app_length. cbn [length]. lia.
    - (* EExists *) apply andb_prop in Hq. destruct Hq as [Haq Hq].
      apply (HQ Haq true vs e bs); [exact Hok| |exact Hr].
      apply andb_prop in Hok. destruct Hok as [_ Hok]. exact (IHe (vs ++ bs) Hq Hok).
    - (* EForall *) apply andb_prop in Hq. destruct Hq as [Haq Hq].
      apply (HQ Haq false vs e bs); [exact Hok| |exact Hr].
      apply andb_prop in Hok. destruct Hok as [_ Hok]. exact (IHe (vs ++ bs) Hq Hok).
    - (* EPlus *) apply andb_prop in Hok. destruct Hok as [Hok Hlen]. apply andb_prop in Hok. destruct Hok as [Hok Har].
      destruct (two_plus l Hlen) as (x & y & l' & ->).
      cbn [forallb] in Hq, Hok, Har. destruct (andb_prop _ _ Hq) as [Hqx Hql]. destruct (andb_prop _ _ Hok) as [Hokx Hokl].
      destruct (andb_prop _ _ Har) as [Harx Harl].
      inversion H as [|? ? Hx HF']; subst.
      change (pr W (EPlus (x :: y :: l'))) with (TLp :: join TPlus (map (pr W) (x :: y :: l')) ++ [TRp]).
      rewrite nary_eq, nary_len.
      change (norm (EPlus (x :: y :: l'))) with (fold_left (fun a b => EPlus [a; b]) (map norm (y :: l')) (norm x)).
      cbn [tier_of].
      eapply Parses_mono.
      + eapply paren_add;
          [eapply start_pr; exact Hokx|rewrite hd_ctoks; cbn; lia|rewrite <- (arith_TA x Harx); apply (Hx bs Hqx Hokx); reflexivity|].
        apply (chain_addA W R arity (rscope W bs) bs TPlus _ (y :: l') (norm x) rest); [left; split; reflexivity|].
        apply mkF; [exact HF'|exact Hql|exact Hokl|apply arith_isA; exact Harl].
      + pose proof (cost_le W 2 (y :: l') ltac:(lia)). lia.
    - (* EMinus *) apply andb_prop in Hok. destruct Hok as [Hok Harb]. apply andb_prop in Hok. destruct Hok as [Hok Hara].
      apply andb_prop in Hok. destruct Hok as [Hoka Hokb]. apply andb_prop in Hq. destruct Hq as [Hqa Hqb].
      change (pr W (EMinus e1 e2)) with (TLp :: pr W e1 ++ TMinus :: pr W e2 ++ [TRp]).
      replace (length (TLp :: pr W e1 ++ TMinus :: pr W e2 ++ [TRp])) with (2 + length (pr W e1) + tl W [e2])
        by (cbn [length tl fold_right]; rewrite !app_length; cbn [length]; rewrite app_length; cbn; lia).
      rewrite bin_eq.
      change (norm (EMinus e1 e2)) with (fold_left (fun a b => EMinus a b) (map norm [e2]) (norm e1)).
      cbn [tier_of].
      eapply Parses_mono.
      + eapply paren_add;
          [eapply start_pr; exact Hoka|rewrite hd_ctoks; cbn; lia|rewrite <- (arith_TA e1 Hara); apply (IHe1 bs Hqa Hoka); reflexivity|].
        apply (chain_addA W R arity (rscope W bs) bs TMinus _ [e2] (norm e1) rest); [right; split; reflexivity|].
        constructor; [|constructor]. split; [apply arith_TA; exact Harb|]. split; [exact Hokb|apply (IHe2 bs Hqb Hokb)].
      + pose proof (cost_le W 2 [e2] ltac:(lia)). lia.
    - (* ETimes *) apply andb_prop in Hok. destruct Hok as [Hok Hlen]. apply andb_prop in Hok. destruct Hok as [Hok Har].
      destruct (two_plus l Hlen) as (x & y & l' & ->).
      cbn [forallb] in Hq, Hok, Har. destruct (andb_prop _ _ Hq) as [Hqx Hql]. destruct (andb_prop _ _ Hok) as [Hokx Hokl].
      destruct (andb_prop _ _ Har) as [Harx Harl].
      inversion H as [|? ? Hx HF']; subst.
      change (pr W (ETimes (x :: y :: l'))) with (TLp :: join TTimes (map (pr W) (x :: y :: l')) ++ [TRp]).
      rewrite nary_eq, nary_len.
      change (norm (ETimes (x :: y :: l'))) with (fold_left (fun a b => ETimes [a; b]) (map norm (y :: l')) (norm x)).
      cbn [tier_of].
      eapply Parses_mono.
      + eapply paren_mul;
          [eapply start_pr; exact Hokx|rewrite <- (arith_TA x Harx); apply (Hx bs Hqx Hokx); reflexivity|].
        apply (chain_mulA W R arity (rscope W bs) bs TTimes _ (y :: l') (norm x) rest); [left; split; reflexivity|].
        apply mkF; [exact HF'|exact Hql|exact Hokl|apply arith_isA; exact Harl].
      + pose proof (cost_le W 0 (y :: l') ltac:(lia)). lia.
    - (* EDiv *) apply andb_prop in Hok. destruct Hok as [Hok Harb]. apply andb_prop in Hok. destruct Hok as [Hok Hara].
      apply andb_prop in Hok. destruct Hok as [Hoka Hokb]. apply andb_prop in Hq. destruct Hq as [Hqa Hqb].
      change (pr W (EDiv e1 e2)) with (TLp :: pr W e1 ++ TDiv :: pr W e2 ++ [TRp]).
      replace (length (TLp :: pr W e1 ++ TDiv :: pr W e2 ++ [TRp])) with (2 + length (pr W e1) + tl W [e2])
        by (cbn [length tl fold_right]; rewrite !app_length; cbn [length]; rewrite app_length; cbn; lia).
      rewrite bin_eq.
      change (norm (EDiv e1 e2)) with (fold_left (fun a b => EDiv a b) (map norm [e2]) (norm e1)).
      cbn [tier_of].
      eapply Parses_mono.
      + eapply paren_mul;
          [eapply start_pr; exact Hoka|rewrite <- (arith_TA e1 Hara); apply (IHe1 bs Hqa Hoka); reflexivity|].
        apply (chain_mulA W R arity (rscope W bs) bs TDiv _ [e2] (norm e1) rest); [right; split; reflexivity|].
        constructor; [|constructor]. split; [apply arith_TA; exact Harb|]. split; [exact Hokb|apply (IHe2 bs Hqb Hokb)].
      + pose proof (cost_le W 0 [e2] ltac:(lia)). lia.
    - (* ELe *) apply andb_prop in Hok. destruct Hok as [Hok Harb]. apply andb_prop in Hok. destruct Hok as [Hok Hara].
      apply andb_prop in Hok. destruct Hok as [Hoka Hokb]. apply andb_prop in Hq. destruct Hq as [Hqa Hqb].
      change (pr W (ELe e1 e2)) with (TLp :: pr W e1 ++ TLe :: pr W e2 ++ [TRp]).
      change (norm (ELe e1 e2)) with (ELe (norm e1) (norm e2)). cbn [tier_of].
      replace ((TLp :: pr W e1 ++ TLe :: pr W e2 ++ [TRp]) ++ rest)
        with (TLp :: pr W e1 ++ (TLe :: pr W e2 ++ TRp :: rest))
        by (cbn [app]; f_equal; repeat (rewrite <- app_assoc; cbn [app]); reflexivity).
      eapply Parses_mono.
      + eapply paren_rel;
          [eapply start_pr; exact Hoka|cbn; lia|rewrite <- (arith_TA e1 Hara); apply (IHe1 bs Hqa Hoka); reflexivity|].
        eapply P_relL_le.
        * apply up_add; [rewrite <- (arith_TA e2 Harb); apply (IHe2 bs Hqb Hokb); reflexivity|cbn; lia].
        * apply P_stop_rel. cbn. lia.
      + cbn [length]. rewrite !app_length. cbn [length]. rewrite app_length. cbn [length]. lia.
    - (* ELt *) apply andb_prop in Hok. destruct Hok as [Hok Harb]. apply andb_prop in Hok. destruct Hok as [Hok Hara].
      apply andb_prop in Hok. destruct Hok as [Hoka Hokb]. apply andb_prop in Hq. destruct Hq as [Hqa Hqb].
      change (pr W (ELt e1 e2)) with (TLp :: pr W e1 ++ TLt :: pr W e2 ++ [TRp]).
      change (norm (ELt e1 e2)) with (ELt (norm e1) (norm e2)). cbn [tier_of].
      replace ((TLp :: pr W e1 ++ TLt :: pr W e2 ++ [TRp]) ++ rest)
        with (TLp :: pr W e1 ++ (TLt :: pr W e2 ++ TRp :: rest))
        by (cbn [app]; f_equal; repeat (rewrite <- app_assoc; cbn [app]); reflexivity).
      eapply Parses_mono.
      + eapply paren_rel;
          [eapply start_pr; exact Hoka|cbn; lia|rewrite <- (arith_TA e1 Hara); apply (IHe1 bs Hqa Hoka); reflexivity|].
        eapply P_relL_lt.
        * apply up_add; [rewrite <- (arith_TA e2 Harb); apply (IHe2 bs Hqb Hokb); reflexivity|cbn; lia].
        * apply P_stop_rel. cbn. lia.
      + cbn [length]. rewrite !app_length. cbn [length]. rewrite app_length. cbn [length]. lia.
    - (* EEquals *) apply andb_prop in Hok. destruct Hok as [Hok Hnb]. apply negb_true_iff in Hnb.
      apply andb_prop in Hok. destruct Hok as [Hok Harb]. apply andb_prop in Hok. destruct Hok as [Hok Hara].
      apply andb_prop in Hok. destruct Hok as [Hoka Hokb]. apply andb_prop in Hq. destruct Hq as [Hqa Hqb].
      change (pr W (EEquals e1 e2)) with (TLp :: pr W e1 ++ TEq :: pr W e2 ++ [TRp]).
      change (norm (EEquals e1 e2)) with (EEquals (norm e1) (norm e2)). cbn [tier_of].
      replace ((TLp :: pr W e1 ++ TEq :: pr W e2 ++ [TRp]) ++ rest)
        with (TLp :: pr W e1 ++ (TEq :: pr W e2 ++ TRp :: rest))
        by (cbn [app]; f_equal; repeat (rewrite <- app_assoc; cbn [app]); reflexivity).
      eapply Parses_mono.
      + eapply paren_rel;
          [eapply start_pr; exact Hoka|cbn; lia|rewrite <- (arith_TA e1 Hara); apply (IHe1 bs Hqa Hoka); reflexivity|].
        eapply P_relL_eq; [rewrite (norm_is_bool e1 bs Hoka Hara); exact Hnb| |].
        * apply up_add; [rewrite <- (arith_TA e2 Harb); apply (IHe2 bs Hqb Hokb); reflexivity|cbn; lia].
        * apply P_stop_rel. cbn. lia.
      + cbn [length]. rewrite !app_length. cbn [length]. rewrite app_length. cbn [length]. lia.
  Qed.
End Main.

(* quantifier-free part: [frag false] *)
Theorem parse_print_qf W R arity (HN : names_ok W R arity) e bs :
  frag false e = true -> anml_ok R arity bs e = true -> parse R (rscope W bs) (pr W e) = Some (norm e).
Proof.
  intros Hq Hok.
  assert (P := main W R arity HN false (fun H => ltac:(discriminate H)) e bs Hq Hok [] eq_refl).
  rewrite app_nil_r in P.
  eapply parse_of_Parses; [|exact P|unfold fuel_of; lia].
  pose proof (start_pr W R arity e bs [] Hok) as S. now rewrite app_nil_r in S.
Qed.

(* ================================================================================================================
   Quantifiers: the case left open in [main]. *)
From Coq Require Import FinFun.
Section Quant.
  Variable W : wnames.
  Variable R : rtables.
  Variable arity : N -> nat.
  Hypothesis HN : names_ok W R arity.

  Definition decls_of (vs : list (N * N)) : list (N * N) := map (fun p => (nmT W (snd p), nmV W (fst p))) vs.

  Lemma pvars_pr : forall vs r, vs <> [] -> pvars (pr_vars W vs ++ TRp :: r) = Some (decls_of vs, r).
  Proof.
    unfold pr_vars. induction vs as [|[v t] vs IHvs]; intros r Hne; [congruence|].
    destruct vs as [|[v' t'] vs].
    - reflexivity.
    - change (join TComma (map (fun p => [TName (nmT W (snd p)); TName (nmV W (fst p))]) ((v, t) :: (v', t') :: vs)))
        with ([TName (nmT W t); TName (nmV W v)] ++ TComma ::
              join TComma (map (fun p => [TName (nmT W (snd p)); TName (nmV W (fst p))]) ((v', t') :: vs))).
      cbn [app].
      cbn [pvars]. rewrite IHvs by congruence. reflexivity.
  Qed.

  Lemma decl_types_of vs : decl_types R (decls_of vs) = Some (rscope W vs).
  Proof.
    induction vs as [|[v t] vs IHvs]; [reflexivity|]. cbn [decls_of map decl_types fst snd].
    fold (decls_of vs). rewrite (h_ty _ _ _ HN), IHvs. reflexivity.
  Qed.

  Lemma dict_set_fresh d k v : ~ In k (map fst d) -> dict_set d k v = d ++ [(k, v)].
  Proof.
    induction d as [|[k' v'] d IHd]; intros Hni; [reflexivity|]. cbn [dict_set].
    destruct (N.eqb_spec k k') as [->|Hne]; [exfalso; apply Hni; left; reflexivity|].
    rewrite IHd; [reflexivity|]. intros Hin. apply Hni. right. exact Hin.
  Qed.
  Lemma dict_fold l : forall acc, NoDup (map fst acc ++ map fst l) ->
    fold_left (fun d p => dict_set d (fst p) (snd p)) l acc = acc ++ l.
  Proof.
    induction l as [|[k v] l IHl]; intros acc Hnd; [now rewrite app_nil_r|].
    cbn [fold_left fst snd]. rewrite dict_set_fresh.
    - rewrite IHl; [now rewrite <- app_assoc|].
      rewrite map_app. cbn [map fst]. rewrite <- app_assoc. exact Hnd.
    - cbn [map fst] in Hnd. apply NoDup_remove_2 in Hnd. intros Hin. apply Hnd. apply in_or_app. left. exact Hin.
  Qed.
  Lemma nodupN_NoDup l : nodupN l = true -> NoDup l.
  Proof.
    induction l as [|x l IHl]; [constructor|]. cbn [nodupN]. intros H. apply andb_prop in H. destruct H as [H1 H2].
    constructor; [|apply IHl; exact H2].
    intros Hin. apply negb_true_iff in H1. unfold memN in H1.
    assert (existsb (N.eqb x) l = true) by (apply existsb_exists; exists x; split; [exact Hin|apply N.eqb_refl]). congruence.
  Qed.
  Lemma dict_of_rscope vs : nodupN (map fst vs) = true -> dict_of (rscope W vs) = rscope W vs.
  Proof.
    intros H. unfold dict_of. rewrite dict_fold; [reflexivity|]. cbn [map app].
    unfold rscope. rewrite map_map. cbn [fst].
    apply nodupN_NoDup in H. rewrite <- (map_map fst (nmV W)).
    apply FinFun.Injective_map_NoDup; [|exact H]. intros a b. apply (nmV_inj W R arity HN).
  Qed.
  Lemma quant_vars vs : map (fun p => (varOf R (fst p), snd p)) (rscope W vs) = vs.
  Proof.
    unfold rscope. rewrite map_map. cbn [fst snd]. induction vs as [|[v t] vs IHvs]; [reflexivity|].
    cbn [map fst snd]. rewrite (h_var _ _ _ HN), IHvs. reflexivity.
  Qed.

  Ltac st := let n := fresh "n" in let Hn := fresh "Hn" in
    intros n Hn; destruct n as [|n]; [exfalso; lia|]; cbn [go].

  Lemma P_body_end sc b ts a ta r acc :
    Parses R SImp sc b ts a ta (TSemi :: TRb :: r) -> ParsesL R (SBody acc) sc (S b) ts (rev (a :: acc)) r.
  Proof. intros H1; st. rewrite H1 by lia. reflexivity. Qed.
  Lemma P_quant sc (ex : bool) b r decls r1 d body r2 :
    pvars r = Some (decls, TLb :: r1) -> decl_types R decls = Some d ->
    ParsesL R (SBody []) (dict_of d ++ sc) b r1 body r2 ->
    Parses R SRel sc (S b) ((if ex then TExists else TForall) :: TLp :: r) (quant R ex (dict_of d) body) TB r2.
  Proof. intros Hp Hd H; st. destruct ex; rewrite Hp, Hd, H by lia; reflexivity. Qed.
  Lemma P_not_skip_q sc (ex : bool) b ts a ta r :
    Parses R SRel sc b ((if ex then TExists else TForall) :: ts) a ta r ->
    Parses R SNot sc (S b) ((if ex then TExists else TForall) :: ts) a ta r.
  Proof. intros H; st. destruct ex; apply H; lia. Qed.

  Lemma quant_case (ex : bool) vs a bs :
    anml_ok R arity bs (qnode ex vs a) = true -> PU W R (vs ++ bs) a -> PU W R bs (qnode ex vs a).
  Proof.
    intros Hok Pa rest Hr.
    assert (Hok' : negb (match vs with [] => true | _ => false end) && nodupN (map fst vs) && anml_ok R arity (vs ++ bs) a = true)
      by (destruct ex; exact Hok).
    apply andb_prop in Hok'. destruct Hok' as [Hok' Hoka]. apply andb_prop in Hok'. destruct Hok' as [Hne Hnd].
    assert (Hvs : vs <> []) by (destruct vs; [discriminate|congruence]).
    assert (E : pr W (qnode ex vs a) ++ rest =
                TLp :: (if ex then TExists else TForall) :: TLp :: (pr_vars W vs ++ TRp :: TLb :: (pr W a ++ TSemi :: TRb :: TRp :: rest))).
    { destruct ex; cbn [qnode pr app]; do 3 f_equal; repeat (rewrite <- app_assoc; cbn [app]); reflexivity. }
    assert (L : length (pr W (qnode ex vs a)) = 8 + length (pr_vars W vs) + length (pr W a)).
    { destruct ex; cbn [qnode pr length]; rewrite !app_length; cbn [length]; lia. }
    assert (Nn : norm (qnode ex vs a) = quant R ex (dict_of (rscope W vs)) [norm a]).
    { unfold quant. rewrite (dict_of_rscope vs Hnd), quant_vars. destruct ex; reflexivity. }
    assert (T : tier_of (qnode ex vs a) = TB) by (destruct ex; reflexivity).
    rewrite E, L, Nn, T.
    eapply Parses_mono.
    - apply P_paren. apply imp_of_not. apply P_not_skip_q.
      eapply P_quant; [apply pvars_pr; exact Hvs|apply decl_types_of|].
      change [norm a] with (rev [norm a]).
      apply P_body_end with (ta := tier_of a).
      rewrite (dict_of_rscope vs Hnd). unfold rscope in *. rewrite <- map_app.
      apply up_imp; [eapply start_pr; exact Hoka|apply Pa; reflexivity|reflexivity].
    - lia.
  Qed.
End Quant.

Lemma frag_true : forall e, frag true e = true.
Proof.
  induction e using expr_ind'; cbn [frag andb]; try reflexivity;
    try (apply forallb_forall; rewrite Forall_forall in H; exact H);
    try assumption; try (rewrite IHe1, IHe2; reflexivity).
Qed.

(* the whole fragment *)
Theorem parse_print W R arity (HN : names_ok W R arity) e bs :
  anml_ok R arity bs e = true -> parse R (rscope W bs) (pr W e) = Some (norm e).
Proof.
  intros Hok.
  assert (P := main W R arity HN true (fun _ => quant_case W R arity HN) e bs (frag_true e) Hok [] eq_refl).
  rewrite app_nil_r in P.
  eapply parse_of_Parses; [|exact P|unfold fuel_of; lia].
  pose proof (start_pr W R arity e bs [] Hok) as S. now rewrite app_nil_r in S.
Qed.

(* ================================================================================================================
   The normal form has the value of the original. *)
Require Import UPV.Core.Eval UPV.Proofs.Eval_lemmas UPV.Proofs.Simplify_sound.
Section EvalNorm.
  Variable R : rtables.
  Variable arity : N -> nat.

  Lemma q0r (q : Qc) : (q + zq 0 = q)%Qc. Proof. change (zq 0) with 0%Qc. ring. Qed.
  Lemma q1r (q : Qc) : (q * zq 1 = q)%Qc. Proof. change (zq 1) with 1%Qc. ring. Qed.

  Lemma and_chain sc I : forall l acc,
    as_bool (eval sc (fold_left (fun a b => EAnd [a; b]) l acc) I) =
    match as_bool (eval sc acc I), ebools sc I l with
    | Some x, Some xs => Some (x && forallb (fun b => b) xs)
    | _, _ => None
    end.
  Proof.
    induction l as [|y l IHl]; intros acc.
    - cbn. destruct (as_bool (eval sc acc I)); [f_equal; symmetry; apply andb_true_r|reflexivity].
    - cbn [fold_left]. rewrite IHl. rewrite eval_EAnd. cbn [ebools].
      destruct (as_bool (eval sc acc I)); [|reflexivity].
      destruct (as_bool (eval sc y I)); [|reflexivity].
      destruct (ebools sc I l); [|reflexivity]. cbn. f_equal. cbn. rewrite ?andb_true_r. now rewrite andb_assoc.
  Qed.
  Lemma and_head : forall l acc, l <> [] -> exists a b, fold_left (fun a b => EAnd [a; b]) l acc = EAnd [a; b].
  Proof.
    induction l as [|y l IHl]; intros acc Hne; [congruence|]. cbn [fold_left].
    destruct l as [|z l]; [cbn; eauto|apply IHl; congruence].
  Qed.

  Lemma or_chain sc I : forall l acc,
    as_bool (eval sc (fold_left (fun a b => EOr [a; b]) l acc) I) =
    match as_bool (eval sc acc I), ebools sc I l with
    | Some x, Some xs => Some (x || existsb (fun b => b) xs)
    | _, _ => None
    end.
  Proof.
    induction l as [|y l IHl]; intros acc.
    - cbn. destruct (as_bool (eval sc acc I)); [f_equal; symmetry; apply orb_false_r|reflexivity].
    - cbn [fold_left]. rewrite IHl. rewrite eval_EOr. cbn [ebools].
      destruct (as_bool (eval sc acc I)); [|reflexivity].
      destruct (as_bool (eval sc y I)); [|reflexivity].
      destruct (ebools sc I l); [|reflexivity]. cbn. f_equal. cbn. rewrite ?orb_false_r. now rewrite orb_assoc.
  Qed.
  Lemma or_head : forall l acc, l <> [] -> exists a b, fold_left (fun a b => EOr [a; b]) l acc = EOr [a; b].
  Proof.
    induction l as [|y l IHl]; intros acc Hne; [congruence|]. cbn [fold_left].
    destruct l as [|z l]; [cbn; eauto|apply IHl; congruence].
  Qed.

  Lemma plus_chain sc I : forall l acc,
    as_num (eval sc (fold_left (fun a b => EPlus [a; b]) l acc) I) =
    match as_num (eval sc acc I), enums sc I l with
    | Some x, Some xs => Some ((x + fold_right Qcplus (zq 0) xs)%Qc)
    | _, _ => None
    end.
  Proof.
    induction l as [|y l IHl]; intros acc.
    - cbn. destruct (as_num (eval sc acc I)); [f_equal; symmetry; apply q0r|reflexivity].
    - cbn [fold_left]. rewrite IHl. rewrite eval_EPlus. cbn [enums].
      destruct (as_num (eval sc acc I)); [|reflexivity].
      destruct (as_num (eval sc y I)); [|reflexivity].
      destruct (enums sc I l); [|reflexivity]. cbn. f_equal. change (zq 0) with 0%Qc. ring.
  Qed.
  Lemma plus_head : forall l acc, l <> [] -> exists a b, fold_left (fun a b => EPlus [a; b]) l acc = EPlus [a; b].
  Proof.
    induction l as [|y l IHl]; intros acc Hne; [congruence|]. cbn [fold_left].
    destruct l as [|z l]; [cbn; eauto|apply IHl; congruence].
  Qed.

  Lemma times_chain sc I : forall l acc,
    as_num (eval sc (fold_left (fun a b => ETimes [a; b]) l acc) I) =
    match as_num (eval sc acc I), enums sc I l with
    | Some x, Some xs => Some ((x * fold_right Qcmult (zq 1) xs)%Qc)
    | _, _ => None
    end.
  Proof.
    induction l as [|y l IHl]; intros acc.
    - cbn. destruct (as_num (eval sc acc I)); [f_equal; symmetry; apply q1r|reflexivity].
    - cbn [fold_left]. rewrite IHl. rewrite eval_ETimes. cbn [enums].
      destruct (as_num (eval sc acc I)); [|reflexivity].
      destruct (as_num (eval sc y I)); [|reflexivity].
      destruct (enums sc I l); [|reflexivity]. cbn. f_equal. change (zq 1) with 1%Qc. ring.
  Qed.
  Lemma times_head : forall l acc, l <> [] -> exists a b, fold_left (fun a b => ETimes [a; b]) l acc = ETimes [a; b].
  Proof.
    induction l as [|y l IHl]; intros acc Hne; [congruence|]. cbn [fold_left].
    destruct l as [|z l]; [cbn; eauto|apply IHl; congruence].
  Qed.

  Lemma eval_norm_int sc z I : eval sc (norm_int z) I = Some (VNum (zq z)).
  Proof.
    unfold norm_int. destruct (z <? 0)%Z; [|reflexivity].
    rewrite eval_ETimes. cbn. f_equal. f_equal. rewrite q1r, <- zq_mul. f_equal. lia.
  Qed.

  Lemma qc_num_den (q : Qc) : (zq (Qnum (this q)) / zq (Zpos (Qden (this q))) = q)%Qc.
  Proof.
    apply Qc_is_canon. destruct q as [[n d] Hc]. unfold Qcdiv, Qcmult, Qcinv, zq, Q2Qc. cbn [this Qnum Qden].
    rewrite !Qred_correct. unfold Qeq, Qmult, Qinv, inject_Z. cbn. lia.
  Qed.
  Lemma zq_pos_not0 d : qc_is0 (zq (Zpos d)) = false.
  Proof.
    destruct (qc_is0 (zq (Zpos d))) eqn:E; [|reflexivity].
    apply qc_is0_spec in E. apply zq_inj in E. discriminate.
  Qed.

  Definition notnot (a : expr) : bool := match a with ENot _ => true | _ => false end.
  Lemma two_plus' (l : list expr) : Nat.leb 2 (length l) = true -> exists x y l', l = x :: y :: l'.
  Proof. destruct l as [|x [|y l']]; cbn; try discriminate. eauto. Qed.
  Lemma norm_notnot a bs : anml_ok R arity bs a = true -> notnot a = false -> notnot (norm a) = false.
  Proof.
    destruct a; cbn [anml_ok notnot norm]; try reflexivity; try discriminate; intros Hok _.
    - unfold norm_int. destruct (z <? 0)%Z; reflexivity.
    - apply andb_prop in Hok. destruct Hok as [_ Hl]. destruct (two_plus' l Hl) as (x & y & l' & ->).
      cbn [map chain]. destruct (and_head (norm y :: map norm l') (norm x) ltac:(discriminate)) as (a & b & ->). reflexivity.
    - apply andb_prop in Hok. destruct Hok as [_ Hl]. destruct (two_plus' l Hl) as (x & y & l' & ->).
      cbn [map chain]. destruct (or_head (norm y :: map norm l') (norm x) ltac:(discriminate)) as (a & b & ->). reflexivity.
    - apply andb_prop in Hok. destruct Hok as [_ Hl]. destruct (two_plus' l Hl) as (x & y & l' & ->).
      cbn [map chain]. destruct (plus_head (norm y :: map norm l') (norm x) ltac:(discriminate)) as (a & b & ->). reflexivity.
    - apply andb_prop in Hok. destruct Hok as [_ Hl]. destruct (two_plus' l Hl) as (x & y & l' & ->).
      cbn [map chain]. destruct (times_head (norm y :: map norm l') (norm x) ltac:(discriminate)) as (a & b & ->). reflexivity.
  Qed.

  Definition EV (e : expr) : Prop :=
    forall sc bs I, anml_ok R arity bs e = true -> nodneg e = true -> eval sc (norm e) I = eval sc e I.

  Lemma ebools_norm sc bs I l : Forall EV l -> forallb (anml_ok R arity bs) l = true -> forallb nodneg l = true ->
    ebools sc I (map norm l) = ebools sc I l.
  Proof.
    induction 1 as [|x l Hx _ IHl]; intros Ho Hn; [reflexivity|]. cbn [forallb] in Ho, Hn.
    apply andb_prop in Ho. destruct Ho as [Hox Hol]. apply andb_prop in Hn. destruct Hn as [Hnx Hnl].
    cbn [map ebools]. rewrite (Hx sc bs I Hox Hnx), IHl by assumption. reflexivity.
  Qed.
  Lemma enums_norm sc bs I l : Forall EV l -> forallb (anml_ok R arity bs) l = true -> forallb nodneg l = true ->
    enums sc I (map norm l) = enums sc I l.
  Proof.
    induction 1 as [|x l Hx _ IHl]; intros Ho Hn; [reflexivity|]. cbn [forallb] in Ho, Hn.
    apply andb_prop in Ho. destruct Ho as [Hox Hol]. apply andb_prop in Hn. destruct Hn as [Hnx Hnl].
    cbn [map enums]. rewrite (Hx sc bs I Hox Hnx), IHl by assumption. reflexivity.
  Qed.
  Lemma evals_norm sc bs I l : Forall EV l -> forallb (anml_ok R arity bs) l = true -> forallb nodneg l = true ->
    evals sc I (map norm l) = evals sc I l.
  Proof.
    induction 1 as [|x l Hx _ IHl]; intros Ho Hn; [reflexivity|]. cbn [forallb] in Ho, Hn.
    apply andb_prop in Ho. destruct Ho as [Hox Hol]. apply andb_prop in Hn. destruct Hn as [Hnx Hnl].
    cbn [map evals]. rewrite (Hx sc bs I Hox Hnx), IHl by assumption. reflexivity.
  Qed.

  Theorem norm_eval : forall e, EV e.
  Proof.
    induction e using expr_ind'; intros sc bs I Hok Hn; cbn [anml_ok] in Hok; cbn [nodneg] in Hn; try discriminate;
      try reflexivity.
    - (* EInt *) apply eval_norm_int.
    - (* EReal *) cbn [norm]. rewrite eval_EDiv, eval_norm_int. cbn [as_num eval]. rewrite zq_pos_not0, qc_num_den. reflexivity.
    - (* EFluent *) apply andb_prop in Hok. destruct Hok as [Hok _]. cbn [norm]. rewrite !eval_EFluent.
      rewrite (evals_norm sc bs I args H Hok Hn). reflexivity.
    - (* EAnd *) apply andb_prop in Hok. destruct Hok as [Hok Hl]. destruct (two_plus' l Hl) as (x & y & l' & ->).
      cbn [norm map chain].
      destruct (and_head (norm y :: map norm l') (norm x) ltac:(discriminate)) as (a & b & E).
      assert (F : forall X, eval sc (EAnd X) I = match as_bool (eval sc (EAnd X) I) with Some v => Some (VBool v) | None => None end)
        by (intros X; rewrite eval_EAnd; destruct (ebools sc I X); reflexivity).
      rewrite E, F, <- E, and_chain, (F (x :: y :: l')), eval_EAnd.
      rewrite <- (ebools_norm sc bs I (x :: y :: l') H Hok Hn). cbn [map ebools].
      destruct (as_bool (eval sc (norm x) I)); [|reflexivity].
      destruct (as_bool (eval sc (norm y) I)); [|reflexivity].
      destruct (ebools sc I (map norm l')); reflexivity.
    - (* EOr *) apply andb_prop in Hok. destruct Hok as [Hok Hl]. destruct (two_plus' l Hl) as (x & y & l' & ->).
      cbn [norm map chain].
      destruct (or_head (norm y :: map norm l') (norm x) ltac:(discriminate)) as (a & b & E).
      assert (F : forall X, eval sc (EOr X) I = match as_bool (eval sc (EOr X) I) with Some v => Some (VBool v) | None => None end)
        by (intros X; rewrite eval_EOr; destruct (ebools sc I X); reflexivity).
      rewrite E, F, <- E, or_chain, (F (x :: y :: l')), eval_EOr.
      rewrite <- (ebools_norm sc bs I (x :: y :: l') H Hok Hn). cbn [map ebools].
      destruct (as_bool (eval sc (norm x) I)); [|reflexivity].
      destruct (as_bool (eval sc (norm y) I)); [|reflexivity].
      destruct (ebools sc I (map norm l')); reflexivity.
    - (* ENot *) apply andb_prop in Hn. destruct Hn as [Hnn Hn]. cbn [norm].
      assert (N0 : notnot (norm e) = false) by (apply (norm_notnot e bs Hok); destruct e; cbn in *; congruence).
      replace (mkNot (norm e)) with (ENot (norm e)) by (destruct (norm e); cbn in N0; try reflexivity; discriminate).
      rewrite !eval_ENot, (IHe sc bs I Hok Hn). reflexivity.
    - (* EImplies *) apply andb_prop in Hok. destruct Hok as [Ha Hb]. apply andb_prop in Hn. destruct Hn as [Na Nb].
      cbn [norm]. rewrite !eval_EImplies, (IHe1 sc bs I Ha Na), (IHe2 sc bs I Hb Nb). reflexivity.
    - (* EIff *) apply andb_prop in Hok. destruct Hok as [Ha Hb]. apply andb_prop in Hn. destruct Hn as [Na Nb].
      cbn [norm]. rewrite eval_EAnd, eval_EIff. cbn [ebools]. rewrite !eval_EImplies, (IHe1 sc bs I Ha Na), (IHe2 sc bs I Hb Nb).
      destruct (as_bool (eval sc e1 I)) as [[]|]; destruct (as_bool (eval sc e2 I)) as [[]|]; reflexivity.
    - (* EExists *) apply andb_prop in Hok. destruct Hok as [_ Hok]. cbn [norm]. rewrite !eval_EExists.
      rewrite (map_ext _ _ (fun J => f_equal as_bool (IHe sc (vs ++ bs) J Hok Hn))). reflexivity.
    - (* EForall *) apply andb_prop in Hok. destruct Hok as [_ Hok]. cbn [norm]. rewrite !eval_EForall.
      rewrite (map_ext _ _ (fun J => f_equal as_bool (IHe sc (vs ++ bs) J Hok Hn))). reflexivity.
    - (* EPlus *) apply andb_prop in Hok. destruct Hok as [Hok Hl]. apply andb_prop in Hok. destruct Hok as [Hok _].
      destruct (two_plus' l Hl) as (x & y & l' & ->). cbn [norm map chain].
      destruct (plus_head (norm y :: map norm l') (norm x) ltac:(discriminate)) as (a & b & E).
      assert (F : forall X, eval sc (EPlus X) I = match as_num (eval sc (EPlus X) I) with Some v => Some (VNum v) | None => None end)
        by (intros X; rewrite eval_EPlus; destruct (enums sc I X); reflexivity).
      rewrite E, F, <- E, plus_chain, (F (x :: y :: l')), eval_EPlus.
      rewrite <- (enums_norm sc bs I (x :: y :: l') H Hok Hn). cbn [map enums].
      destruct (as_num (eval sc (norm x) I)); [|reflexivity].
      destruct (as_num (eval sc (norm y) I)); [|reflexivity].
      destruct (enums sc I (map norm l')); reflexivity.
    - (* EMinus *) apply andb_prop in Hok. destruct Hok as [Hok _]. apply andb_prop in Hok. destruct Hok as [Hok _].
      apply andb_prop in Hok. destruct Hok as [Ha Hb].
      apply andb_prop in Hn. destruct Hn as [Na Nb].
      cbn [norm]. rewrite !eval_EMinus, (IHe1 sc bs I Ha Na), (IHe2 sc bs I Hb Nb). reflexivity.
    - (* ETimes *) apply andb_prop in Hok. destruct Hok as [Hok Hl]. apply andb_prop in Hok. destruct Hok as [Hok _].
      destruct (two_plus' l Hl) as (x & y & l' & ->). cbn [norm map chain].
      destruct (times_head (norm y :: map norm l') (norm x) ltac:(discriminate)) as (a & b & E).
      assert (F : forall X, eval sc (ETimes X) I = match as_num (eval sc (ETimes X) I) with Some v => Some (VNum v) | None => None end)
        by (intros X; rewrite eval_ETimes; destruct (enums sc I X); reflexivity).
      rewrite E, F, <- E, times_chain, (F (x :: y :: l')), eval_ETimes.
      rewrite <- (enums_norm sc bs I (x :: y :: l') H Hok Hn). cbn [map enums].
      destruct (as_num (eval sc (norm x) I)); [|reflexivity].
      destruct (as_num (eval sc (norm y) I)); [|reflexivity].
      destruct (enums sc I (map norm l')); reflexivity.
    - (* EDiv *) apply andb_prop in Hok. destruct Hok as [Hok _]. apply andb_prop in Hok. destruct Hok as [Hok _].
      apply andb_prop in Hok. destruct Hok as [Ha Hb]. apply andb_prop in Hn. destruct Hn as [Na Nb].
      cbn [norm]. rewrite !eval_EDiv, (IHe1 sc bs I Ha Na), (IHe2 sc bs I Hb Nb). reflexivity.
    - (* ELe *) apply andb_prop in Hok. destruct Hok as [Hok _]. apply andb_prop in Hok. destruct Hok as [Hok _].
      apply andb_prop in Hok. destruct Hok as [Ha Hb]. apply andb_prop in Hn. destruct Hn as [Na Nb].
      cbn [norm]. rewrite !eval_ELe, (IHe1 sc bs I Ha Na), (IHe2 sc bs I Hb Nb). reflexivity.
    - (* ELt *) apply andb_prop in Hok. destruct Hok as [Hok _]. apply andb_prop in Hok. destruct Hok as [Hok _].
      apply andb_prop in Hok. destruct Hok as [Ha Hb]. apply andb_prop in Hn. destruct Hn as [Na Nb].
      cbn [norm]. rewrite !eval_ELt, (IHe1 sc bs I Ha Na), (IHe2 sc bs I Hb Nb). reflexivity.
    - (* EEquals *) apply andb_prop in Hok. destruct Hok as [Hok _]. apply andb_prop in Hok. destruct Hok as [Hok _].
      apply andb_prop in Hok. destruct Hok as [Hok _].
      apply andb_prop in Hok. destruct Hok as [Ha Hb]. apply andb_prop in Hn. destruct Hn as [Na Nb].
      cbn [norm]. rewrite !eval_EEquals, (IHe1 sc bs I Ha Na), (IHe2 sc bs I Hb Nb). reflexivity.
  Qed.
End EvalNorm.

(* ================================================================================================================
   A concrete naming that satisfies [names_ok]: identifiers 4k (fluents), 4k+1 (parameters), 4k+2 (objects),
   4k+3 (variables), k (types). *)
Definition exW : wnames :=
  {| nmF := fun f => (4 * f)%N; nmP := fun p => (4 * p + 1)%N; nmO := fun o => (4 * o + 2)%N;
     nmV := fun v => (4 * v + 3)%N; nmT := fun t => t |}.
Definition ex_arity (f : N) : nat := match f with 0%N => 0 | 1%N => 2 | _ => 0 end.
Definition exR : rtables :=
  {| tyOf := fun s => Some s;
     parOf := fun s => if (s mod 4 =? 1)%N then Some (s / 4)%N else None;
     fluOf := fun s => if (s mod 4 =? 0)%N then Some ((s / 4)%N, ex_arity (s / 4)%N) else None;
     objOf := fun s => if (s mod 4 =? 2)%N then Some (s / 4)%N else None;
     varOf := fun s => (s / 4)%N;
     fbool := fun f => (f =? 0)%N || (f =? 1)%N;
     pbool := fun _ => false |}.
Lemma m4 k r : (r < 4)%N -> ((4 * k + r) mod 4 = r)%N.
Proof. intros H. symmetry. apply (N.mod_unique _ 4 k r H). reflexivity. Qed.
Lemma d4 k r : (r < 4)%N -> ((4 * k + r) / 4 = k)%N.
Proof. intros H. symmetry. apply (N.div_unique _ 4 k r H). reflexivity. Qed.
Lemma ex_names_ok : names_ok exW exR ex_arity.
Proof.
  constructor; cbn [exW exR nmF nmP nmO nmV nmT tyOf parOf fluOf objOf varOf]; intros.
  - reflexivity.
  - rewrite m4, d4 by lia. reflexivity.
  - replace (4 * f)%N with (4 * f + 0)%N by lia. rewrite m4, d4 by lia. reflexivity.
  - rewrite m4, d4 by lia. reflexivity.
  - apply d4. lia.
  - lia.
  - lia.
  - lia.
  - replace (4 * f)%N with (4 * f + 0)%N by lia. rewrite m4 by lia. reflexivity.
  - rewrite m4 by lia. reflexivity.
  - rewrite m4 by lia. reflexivity.
Qed.
