(* C10, the other problem classes: proofs about Model/KindOfClasses.v.
   Main results: [covers_contingent], [covers_ma], [covers_hier], [covers_sched] - the proved specification of each class
   is inside the mirror of its `kind`.  The common features are obtained by REUSING the per-clause lemmas of
   KindOf_proofs.v on the flattened view ([spec_in_raw]: spec_features P is inside the raw set of set_* calls M.raw P)
   and then relating M.raw of the flattened view with the class's own set of calls:
     - contingent: the kind IS kind_model of the base plus CONTINGENT;
     - hierarchical: the factory's calls are M.raw of the flattened view minus ACTION_BASED ([hier_raw_keeps]);
     - multi-agent: every call of M.raw whose feature is in [ma_mask] has a counterpart in kind_ma ([raw_sub]);
     - scheduling: every call of M.raw has a counterpart in sched_raw after [unstatic] ([raw_unstatic]). *)
From Coq Require Import List ZArith NArith Bool Lia.
Import ListNotations.
Require Import UPV.Core.Expr UPV.Model.Kind UPV.Gen.Gen_Kind UPV.Model.KindOf UPV.Proofs.KindOf_proofs UPV.Model.KindOfClasses.

(* ------------------------------------------------------------------------------------------------ generalities *)
Lemma clause_inv f g b : In f (clause g b) -> f = g /\ b = true.
Proof. destruct b; simpl; [intros [<-|[]]; auto | intros []]. Qed.

(* the extractor's features are inside the raw set of set_* calls (the first half of KindOf_proofs.covers) *)
Lemma spec_in_raw P : wf P -> incl (spec_features P) (M.raw P).
Proof.
  intros WF. unfold spec_features, Spec.spec_features.
  repeat apply incl_app; (apply clause_incl; intro E).
  all: first
    [ exact (covers_FLAT P WF E) | exact (covers_HIERARCHICAL P WF E)
    | exact (covers_INT_FLUENTS P E) | exact (covers_REAL_FLUENTS P E) | exact (covers_OBJECT_FLUENTS P E)
    | exact (covers_BOOL_FLUENT_PARAMETERS P E) | exact (covers_BOUNDED_INT_FLUENT_PARAMETERS P E)
    | exact (covers_BOOL_ACTION_PARAMETERS P E) | exact (covers_BOUNDED_INT_ACTION_PARAMETERS P E)
    | exact (covers_UNBOUNDED_INT_ACTION_PARAMETERS P E) | exact (covers_REAL_ACTION_PARAMETERS P E)
    | exact (covers_BOUNDED_TYPES P E)
    | exact (covers_NEGATIVE P WF E) | exact (covers_DISJUNCTIVE P WF E) | exact (covers_EQUALITIES P WF E)
    | exact (covers_EXISTENTIAL P WF E) | exact (covers_UNIVERSAL P WF E) | exact (covers_IFUN_COND P WF E)
    | exact (covers_CONDITIONAL P WF E) | exact (covers_FORALL_EFFECTS P WF E) | exact (covers_INCREASE P WF E)
    | exact (covers_DECREASE P WF E) | exact (covers_INCREASE_CONTINUOUS P E) | exact (covers_DECREASE_CONTINUOUS P E)
    | exact (covers_BOOLEAN_ASSIGN P WF true E) | exact (covers_NUMERIC_ASSIGN P WF true E)
    | exact (covers_OBJECT_ASSIGN P WF true E)
    | exact (covers_BOOLEAN_ASSIGN P WF false E) | exact (covers_NUMERIC_ASSIGN P WF false E)
    | exact (covers_OBJECT_ASSIGN P WF false E)
    | exact (covers_FLUENTS_IN_DURATIONS P WF true E) | exact (covers_FLUENTS_IN_DURATIONS P WF false E)
    | exact (covers_IFUN_DURATIONS P E) | exact (covers_INT_TYPE_DURATIONS P E) | exact (covers_REAL_TYPE_DURATIONS P E)
    | exact (covers_DURATION_INEQUALITIES P E)
    | exact (raw_teffs_flag P E) | exact (raw_tgoals_flag P E) | exact (raw_processes_flag P E) | exact (raw_events_flag P E)
    | exact (covers_STATE_INVARIANTS P E) | exact (covers_TRAJECTORY_CONSTRAINTS P E)
    | exact (covers_ACTIONS_COST P E) | exact (covers_FINAL_VALUE P E) | exact (covers_MAKESPAN P E)
    | exact (covers_PLAN_LENGTH P E) | exact (covers_OVERSUBSCRIPTION P E) | exact (covers_TEMPORAL_OVERSUBSCRIPTION P E)
    | exact (covers_FLUENTS_IN_ACTIONS_COST P WF true E) | exact (covers_FLUENTS_IN_ACTIONS_COST P WF false E)
    | exact (covers_INT_COST P E) | exact (covers_REAL_COST P E)
    | exact (covers_INT_OVERSUB P E) | exact (covers_REAL_OVERSUB P E)
    | exact (covers_UNDEFINED_NUMERIC P WF E) | exact (covers_UNDEFINED_SYMBOLIC P WF E) ].
Qed.

Lemma spec_in_list P : forall f, In f (spec_features P) -> memN f spec_feature_list = true.
Proof.
  assert (H : incl (spec_features P) spec_feature_list).
  { unfold spec_features, Spec.spec_features.
    repeat apply incl_app; (apply clause_incl; intros _; apply memN_In; vm_compute; reflexivity). }
  intros f Hf. apply memN_In. apply H. exact Hf.
Qed.

Lemma listed_ne f : memN f spec_feature_list = true -> f <> f_ACTION_BASED /\ f <> f_CONTINUOUS_TIME.
Proof. intro H. split; intro E; subst f; vm_compute in H; discriminate H. Qed.

(* ================================================================================================ CONTINGENT *)
Theorem covers_contingent C : wf_contingent C -> incl (spec_contingent C) (kind_contingent C).
Proof.
  intros W f Hf. unfold spec_contingent in Hf. apply in_app_or in Hf. destruct Hf as [Hf|[<-|[]]].
  - right. apply covers; [exact W | exact Hf].
  - left. reflexivity.
Qed.

(* ============================================================================================== HIERARCHICAL *)
Lemma fold_max_ge l : forall a x, In x (a :: l) -> (x <= fold_left N.max l a)%N.
Proof.
  induction l as [|b l IH]; intros a x Hx; simpl.
  - destruct Hx as [<-|[]]. lia.
  - destruct Hx as [<-|[<-|Hx]].
    + etransitivity; [|apply IH; left; reflexivity]. lia.
    + etransitivity; [|apply IH; left; reflexivity]. lia.
    + apply IH. right. exact Hx.
Qed.
Lemma fold_max_in l : forall a, In (fold_left N.max l a) (a :: l).
Proof.
  induction l as [|b l IH]; intros a; simpl; [auto|].
  destruct (IH (N.max a b)) as [E|Hin]; [|auto].
  rewrite <- E. destruct (N.max_spec a b) as [[_ ->]|[_ ->]]; auto.
Qed.

Lemma hier_raw_keeps H f : In f (M.raw (flat_hier H)) -> f <> f_ACTION_BASED -> In f (hier_raw H).
Proof.
  intros Hf Hne. unfold hier_raw. right. apply in_or_app. left. apply filter_In. split; [exact Hf|].
  apply negb_true_iff. apply N.eqb_neq. exact Hne.
Qed.
Lemma hier_class_in H f : In f (hier_class_feats0 H) -> In f (hier_raw H).
Proof. intro Hf. unfold hier_raw. right. apply in_or_app. right. unfold hier_class_feats. apply in_or_app. right. exact Hf. Qed.
Lemma hier_type_in H f : In f (hier_type_feats H) -> In f (hier_raw H).
Proof. intro Hf. unfold hier_raw. right. apply in_or_app. right. unfold hier_class_feats. apply in_or_app. left. exact Hf. Qed.
Lemma spec_type_sub t : incl (spec_type_features t) (M.type_feats t).
Proof. destruct t as [| | |u hf]; simpl; try (intros x []). destruct hf; intros x [<-|[]]; simpl; auto. Qed.

Lemma hier_lvl_max H : In (hier_max_lvl H) (hier_lvls H) /\ forall l, In l (hier_lvls H) -> (l <= hier_max_lvl H)%N.
Proof. unfold hier_max_lvl, hier_lvls. split; [apply fold_max_in | intros l Hl; apply fold_max_ge; exact Hl]. Qed.

Ltac fne := let E := fresh "E" in intro E; vm_compute in E; discriminate E.

Theorem covers_hier H : wf_hier H -> incl (spec_hier H) (kind_hier H).
Proof.
  intros W f Hf. unfold spec_hier in Hf. apply in_app_or in Hf. destruct Hf as [Hf|Hf].
  - pose proof (spec_in_list _ _ Hf) as L. destruct (listed_ne _ L) as [N1 N2].
    apply finalize_keeps; [|exact N2]. apply hier_raw_keeps; [|exact N1]. apply spec_in_raw; assumption.
  - unfold spec_hier_class in Hf. rewrite !in_app_iff in Hf.
    destruct Hf as [[<-|[]] | [Hf | [Hf | [Hf | [Hf | [Hf | Hf]]]]]]; try (apply clause_inv in Hf; destruct Hf as [-> E]).
    + apply finalize_keeps; [left; reflexivity | fne].
    + apply finalize_keeps; [|fne]. apply hier_class_in. apply existsb_exists in E. destruct E as (m & Hm & E).
      unfold hier_class_feats0. rewrite !in_app_iff. right. right. left. eapply fm_in; [exact Hm|].
      apply in_or_app. left. apply in_clause. exact E.
    + apply finalize_keeps; [|fne]. apply hier_class_in. apply orb_true_iff in E. unfold hier_class_feats0. rewrite !in_app_iff.
      destruct E as [E|E].
      * right. left. apply in_clause. exact E.
      * apply existsb_exists in E. destruct E as (m & Hm & E). right. right. left. eapply fm_in; [exact Hm|].
        apply in_or_app. right. apply in_clause. exact E.
    + apply finalize_keeps; [|fne]. apply hier_class_in. unfold hier_class_feats0. rewrite !in_app_iff. left.
      apply in_clause. exact E.
    + apply finalize_keeps; [|fne]. apply hier_class_in. unfold hier_class_feats0. rewrite !in_app_iff. do 3 right.
      apply existsb_exists in E. destruct E as (l & Hl & E). apply N.leb_le in E.
      destruct (hier_lvl_max H) as [_ Hmax]. specialize (Hmax l Hl).
      destruct (hier_max_lvl H) as [|[p|p|]]; try lia; left; reflexivity.
    + apply finalize_keeps; [|fne]. apply hier_class_in. unfold hier_class_feats0. rewrite !in_app_iff. do 3 right.
      apply andb_true_iff in E. destruct E as [E1 E2]. apply negb_true_iff in E1.
      apply existsb_exists in E2. destruct E2 as (l & Hl & E2). apply N.eqb_eq in E2. subst l.
      destruct (hier_lvl_max H) as [Hin Hmax]. specialize (Hmax 1%N Hl).
      assert (X : (2 <=? hier_max_lvl H)%N = false).
      { destruct (2 <=? hier_max_lvl H)%N eqn:X; [|reflexivity]. rewrite <- E1. symmetry. apply existsb_exists.
        exists (hier_max_lvl H). auto. }
      apply N.leb_gt in X. destruct (hier_max_lvl H) as [|[p|p|]]; try lia. left. reflexivity.
    + apply finalize_keeps; [|fne]. apply hier_class_in. unfold hier_class_feats0. rewrite !in_app_iff. do 3 right.
      destruct (hier_lvl_max H) as [Hin _]. rewrite forallb_forall in E. specialize (E _ Hin). apply N.eqb_eq in E.
      rewrite E. left. reflexivity.
Qed.
Theorem covers_hier_full H : wf_hier H -> incl (spec_hier_full H) (kind_hier H).
Proof.
  intros W f Hf. unfold spec_hier_full in Hf. apply in_app_or in Hf. destruct Hf as [Hf|Hf]; [apply covers_hier; assumption|].
  unfold spec_hier_params in Hf. apply in_flat_map in Hf. destruct Hf as (t & Ht & Hf).
  assert (Hne : f <> f_CONTINUOUS_TIME).
  { destruct t as [| | |u hf]; simpl in Hf; try (destruct Hf; fail). destruct hf; destruct Hf as [<-|[]]; fne. }
  apply spec_type_sub in Hf. apply finalize_keeps; [|exact Hne]. apply hier_type_in.
  unfold hier_param_types in Ht. unfold hier_type_feats. rewrite !in_app_iff in *. destruct Ht as [Ht|[Ht|Ht]].
  - left. eapply fm_in; eauto.
  - right. right. apply in_flat_map in Ht. destruct Ht as (m & Hm & Ht). apply in_flat_map. exists m. split; [exact Hm|].
    eapply fm_in; eauto.
  - right. left. eapply fm_in; eauto.
Qed.

(* =============================================================================================== MULTI-AGENT *)
Ltac out Hm := exfalso; subst; vm_compute in Hm; discriminate Hm.

Lemma fl_out P fs A B f : In f (M.fl_feats P fs A B) -> f = A \/ f = B.
Proof. unfold M.fl_feats. intro H. apply in_app_or in H. destruct H as [H|H]; apply clause_inv in H; destruct H; auto. Qed.
Lemma tm_out t f : In f (M.tm_feats t) -> f = f_INTERMEDIATE_CONDITIONS_AND_EFFECTS \/ f = f_EXTERNAL_CONDITIONS_AND_EFFECTS.
Proof. unfold M.tm_feats. destruct (_ || _); intros [<-|[]]; auto. Qed.
Lemma interval_out i f : In f (M.interval_feats i) -> f = f_INTERMEDIATE_CONDITIONS_AND_EFFECTS \/ f = f_EXTERNAL_CONDITIONS_AND_EFFECTS.
Proof. unfold M.interval_feats. destruct (_ || _); [|intros []]. intro H. apply in_app_or in H. destruct H as [H|H]; eapply tm_out; eauto. Qed.

Lemma cond_sub c f : In f (M.expr_feats c) -> memN f ma_mask = true -> In f (ma_cond_feats c).
Proof.
  unfold M.expr_feats, ma_cond_feats. cbv zeta. rewrite !in_app_iff. intros [H|[H|[H|[H|[H|H]]]]] Hm; try tauto.
  apply clause_inv in H. destruct H as [-> _]. out Hm.
Qed.

Lemma eff_sub P e f :
  In f (M.effect_feats P e) -> memN f ma_mask = true ->
  In f (ma_effect_feats e) \/ exists v, In v (ef_forall e) /\ In f (M.type_feats (snd v)).
Proof.
  unfold M.effect_feats, ma_effect_feats. cbv zeta. rewrite !in_app_iff. intros [H|[H|H]] Hm.
  - destruct (is_conditional e); [|destruct H]. apply in_app_or in H. left. left. apply in_or_app.
    destruct H as [H|H]; [left; apply cond_sub; auto | right; exact H].
  - destruct (nonempty (ef_forall e)) eqn:NE; [|destruct H]. destruct H as [<-|H].
    + left. right. left. left. reflexivity.
    + right. apply in_flat_map in H. destruct H as (v & Hv & H). eauto.
  - left. right. right. destruct (ef_kind e).
    + destruct (ef_vcls e); apply in_app_or in H; destruct H as [H|H];
        try (apply clause_inv in H; destruct H as [-> _]; out Hm); apply fl_out in H; destruct H; out Hm.
    + destruct H as [<-|H]; [left; reflexivity|]. apply in_app_or in H. destruct H as [H|H].
      * apply clause_inv in H. destruct H as [-> _]. out Hm.
      * destruct (is_num_const (ef_val e)); [destruct H|]. apply fl_out in H. destruct H; out Hm.
    + destruct H as [<-|H]; [left; reflexivity|]. apply in_app_or in H. destruct H as [H|H].
      * apply clause_inv in H. destruct H as [-> _]. out Hm.
      * destruct (is_num_const (ef_val e)); [destruct H|]. apply fl_out in H. destruct H; out Hm.
    + apply clause_inv in H. destruct H as [-> _]. out Hm.
    + apply clause_inv in H. destruct H as [-> _]. out Hm.
Qed.

Lemma param_sub t f : In f (M.param_feats t) -> memN f ma_mask = true -> In f (M.type_feats t).
Proof.
  unfold M.param_feats. intros H Hm. apply in_app_or in H. destruct H as [H|H]; [exact H|].
  destruct t as [|lo hi|lo hi|]; simpl in H.
  - destruct H as [<-|[]]. out Hm.
  - destruct (negb lo || negb hi); destruct H as [<-|[]]; out Hm.
  - destruct H as [<-|[]]. out Hm.
  - destruct H.
Qed.

Lemma fluent_sub P fd f : In f (M.fluent_feats P fd) -> memN f ma_mask = true -> In f (ma_fluent_feats fd).
Proof.
  unfold M.fluent_feats, ma_fluent_feats. cbv zeta. rewrite !in_app_iff. intros [H|[H|H]] Hm.
  - left. destruct (_ || _); [exact H | destruct H].
  - right. left. destruct (fd_ty fd) as [|lo hi|lo hi|]; simpl in *; try exact H.
    + apply in_app_or in H. apply in_or_app. destruct H as [H|H]; [left; exact H | right].
      destruct (_ || _); [exact H | destruct H].
    + apply in_app_or in H. apply in_or_app. destruct H as [H|H]; [left; exact H | right].
      destruct (_ || _); [exact H | destruct H].
  - right. right. apply in_flat_map in H. destruct H as (pt & Hpt & H). apply in_app_or in H. destruct H as [H|H].
    + apply in_flat_map. exists pt. auto.
    + destruct pt; simpl in H; try (destruct H; fail); destruct H as [<-|[]]; out Hm.
Qed.

Section MA.
  Variable Mm : ma_desc.
  Let F := flat_ma Mm.

  Ltac kin := unfold kind_ma; rewrite !in_app_iff.

  Lemma ma_in_fluent fd : In fd (ma_all_fluents Mm) -> incl (ma_fluent_feats fd) (kind_ma Mm).
  Proof.
    unfold ma_all_fluents. intros H f Hf. apply in_app_or in H. kin. destruct H as [H|H].
    - apply in_flat_map in H. destruct H as (ag & Hag & H). right. left. apply in_flat_map. exists ag. split; [exact Hag|].
      eapply fm_in; eauto.
    - right. right. left. eapply fm_in; eauto.
  Qed.
  Lemma ma_in_objty t : In t (ma_objtys Mm) -> incl (M.type_feats t) (kind_ma Mm).
  Proof. intros H f Hf. kin. do 3 right. left. eapply fm_in; eauto. Qed.
  Lemma ma_in_action a : In a (ma_all_actions Mm) -> incl (ma_action_feats a) (kind_ma Mm).
  Proof.
    unfold ma_all_actions. intros H f Hf. apply in_flat_map in H. destruct H as (ag & Hag & H). kin. do 4 right. left.
    apply in_flat_map. exists ag. split; [exact Hag|]. apply in_or_app. right. eapply fm_in; eauto.
  Qed.
  Lemma ma_in_goal g : In g (ma_all_goals Mm) -> incl (ma_cond_feats g) (kind_ma Mm).
  Proof.
    unfold ma_all_goals. intros H f Hf. apply in_app_or in H. kin. destruct H as [H|H].
    - apply in_flat_map in H. destruct H as (ag & Hag & H). do 4 right. left. apply in_flat_map. exists ag.
      split; [exact Hag|]. apply in_or_app. left. unfold ma_agent_goal_feats. rewrite !in_app_iff. right. right.
      eapply fm_in; eauto.
    - do 5 right. eapply fm_in; eauto.
  Qed.

  Lemma decl_type_in_kind t : In t (ma_decl_types Mm) -> incl (M.type_feats t) (kind_ma Mm).
  Proof.
    unfold ma_decl_types. rewrite !in_app_iff. intros [H|[H|H]] f Hf.
    - eapply ma_in_objty; eauto.
    - apply in_flat_map in H. destruct H as (fd & Hfd & H). apply (ma_in_fluent fd Hfd). unfold ma_fluent_feats.
      rewrite !in_app_iff. destruct H as [<-|H]; [left; exact Hf | right; right; eapply fm_in; eauto].
    - apply in_flat_map in H. destruct H as (a & Ha & H). apply (ma_in_action a Ha).
      destruct a as [i|d]; simpl in *; rewrite !in_app_iff; left; eapply fm_in; eauto.
  Qed.

  Hypothesis WF : wf_ma Mm.

  Lemma wf_ma_parts : wf F /\ forallb wf_process_eff (ma_ceffs Mm) = true /\ ma_var_types_okb Mm = true.
  Proof.
    pose proof WF as W. unfold wf_ma, wf_mab in W. apply andb_true_iff in W. destruct W as [W W3].
    apply andb_true_iff in W. destruct W as [W1 W2]. auto.
  Qed.

  Lemma var_type_in_kind e v f :
    In e (Spec.all_effects F) -> In v (ef_forall e) -> In f (M.type_feats (snd v)) -> In f (kind_ma Mm).
  Proof.
    intros He Hv Hf. destruct wf_ma_parts as (_ & _ & W). unfold ma_var_types_okb in W. rewrite forallb_forall in W.
    assert (X : In (snd v) (ma_var_types Mm)).
    { unfold ma_var_types. apply in_flat_map. exists e. split; [exact He|]. apply in_map. exact Hv. }
    specialize (W _ X). rewrite forallb_forall in W. specialize (W _ Hf). apply memN_In in W.
    apply in_flat_map in W. destruct W as (t & Ht & Hft). eapply decl_type_in_kind; eauto.
  Qed.

  Lemma action_effect_in a e : In a (ma_all_actions Mm) -> In e (Spec.action_effects a) -> In e (Spec.all_effects F).
  Proof.
    intros Ha He. unfold Spec.all_effects. apply in_or_app. left. apply in_flat_map. exists a. split; [exact Ha | exact He].
  Qed.

  Lemma action_sub a f :
    In a (ma_all_actions Mm) -> In f (M.action_feats F a) -> memN f ma_mask = true -> In f (kind_ma Mm).
  Proof.
    intros Ha Hf Hm. destruct a as [i|d]; simpl in Hf.
    - unfold M.iaction_feats in Hf. rewrite !in_app_iff in Hf. destruct Hf as [H|[H|[H|[H|[H|H]]]]].
      + apply in_flat_map in H. destruct H as (t & Ht & H). apply param_sub in H; [|exact Hm].
        apply (ma_in_action _ Ha). simpl. rewrite !in_app_iff. left. eapply fm_in; eauto.
      + apply clause_inv in H. destruct H as [-> _]. out Hm.
      + apply clause_inv in H. destruct H as [-> _]. out Hm.
      + apply in_flat_map in H. destruct H as (c & Hc & H). apply cond_sub in H; [|exact Hm].
        apply (ma_in_action _ Ha). simpl. rewrite !in_app_iff. right. left. eapply fm_in; eauto.
      + apply in_flat_map in H. destruct H as (e & He & H). apply eff_sub in H; [|exact Hm]. destruct H as [H|(v & Hv & H)].
        * apply (ma_in_action _ Ha). simpl. rewrite !in_app_iff. right. right. eapply fm_in; eauto.
        * eapply var_type_in_kind; [|exact Hv|exact H]. apply (action_effect_in _ _ Ha). exact He.
      + apply clause_inv in H. destruct H as [-> _]. out Hm.
    - unfold M.daction_feats in Hf. rewrite !in_app_iff in Hf. destruct Hf as [H|[H|[H|[H|[H|[H|[H|[H|H]]]]]]]].
      + apply in_flat_map in H. destruct H as (t & Ht & H). apply param_sub in H; [|exact Hm].
        apply (ma_in_action _ Ha). cbn [ma_action_feats]. rewrite !in_app_iff. left. eapply fm_in; eauto.
      + apply clause_inv in H. destruct H as [-> _]. out Hm.
      + unfold M.duration_feats, M.bound_feats in H. rewrite !in_app_iff in H. destruct H as [H|[H|[H|[H|H]]]].
        * destruct (de_cls (da_lo d)); destruct H as [<-|[]]; out Hm.
        * destruct (de_cls (da_hi d)); destruct H as [<-|[]]; out Hm.
        * apply clause_inv in H. destruct H as [-> _]. out Hm.
        * apply clause_inv in H. destruct H as [-> _]. out Hm.
        * apply fl_out in H. destruct H; out Hm.
      + apply in_flat_map in H. destruct H as (x & Hx & H). unfold M.timed_condition_feats in H. apply in_app_or in H.
        destruct H as [H|H]; [apply interval_out in H; destruct H; out Hm|]. apply cond_sub in H; [|exact Hm].
        apply (ma_in_action _ Ha). cbn [ma_action_feats]. rewrite !in_app_iff. right. right. left.
        apply in_flat_map. exists x. auto.
      + apply in_flat_map in H. destruct H as (x & Hx & H). unfold M.timed_effect_feats in H. apply in_app_or in H.
        destruct H as [H|H]; [destruct (negb _); [apply tm_out in H; destruct H; out Hm | destruct H]|].
        apply eff_sub in H; [|exact Hm]. destruct H as [H|(v & Hv & H)].
        * apply (ma_in_action _ Ha). cbn [ma_action_feats]. rewrite !in_app_iff. right. right. right. apply in_flat_map. exists x. auto.
        * eapply var_type_in_kind; [|exact Hv|exact H]. apply (action_effect_in _ _ Ha). simpl. apply in_or_app. left.
          apply in_map. exact Hx.
      + apply in_flat_map in H. destruct H as (x & Hx & H). unfold M.timed_ceffect_feats in H. apply in_app_or in H.
        destruct H as [H|H]; [apply interval_out in H; destruct H; out Hm|].
        (* a plain continuous effect has no feature of the mask *)
        destruct wf_ma_parts as (_ & W & _). rewrite forallb_forall in W.
        assert (X : In (snd x) (ma_ceffs Mm)).
        { unfold ma_ceffs. apply in_flat_map. exists (ADur d). split; [exact Ha|]. apply in_map. exact Hx. }
        specialize (W _ X). unfold wf_process_eff in W. apply andb_true_iff in W. destruct W as [W K].
        apply andb_true_iff in W. destruct W as [T NV]. apply negb_true_iff in NV.
        apply eff_sub in H; [|exact Hm]. destruct H as [H|(v & Hv & H)].
        * exfalso. unfold ma_effect_feats, is_conditional in H. rewrite T, NV in H. simpl in H.
          destruct (ef_kind (snd x)); try discriminate; destruct H.
        * rewrite (nonempty_in _ _ Hv) in NV. discriminate.
      + apply clause_inv in H. destruct H as [-> _]. out Hm.
      + destruct H as [<-|[]]. out Hm.
      + unfold M.continuous_feats in H. apply in_app_or in H. destruct H as [H|H].
        * apply in_flat_map in H. destruct H as (e & He & H). destruct (ef_kind e); try (destruct H; fail);
            destruct H as [<-|[]]; out Hm.
        * apply clause_inv in H. destruct H as [-> _]. out Hm.
  Qed.

  Lemma raw_sub f : In f (M.raw F) -> memN f ma_mask = true -> In f (kind_ma Mm).
  Proof.
    intros Hf Hm. unfold M.raw in Hf. simpl in Hf.
    destruct Hf as [<-|Hf]; [out Hm|]. rewrite !in_app_iff in Hf.
    destruct Hf as [H|[H|[H|[H|[H|[]]]]]].
    - apply in_flat_map in H. destruct H as (fd & Hfd & H). apply fluent_sub in H; [|exact Hm]. eapply ma_in_fluent; eauto.
    - apply in_flat_map in H. destruct H as (t & Ht & H). eapply ma_in_objty; eauto.
    - apply in_flat_map in H. destruct H as (a & Ha & H). eapply action_sub; eauto.
    - apply in_flat_map in H. destruct H as (g & Hg & H). apply cond_sub in H; [|exact Hm]. eapply ma_in_goal; eauto.
    - apply in_flat_map in H. destruct H as (fd & Hfd & H). unfold M.initial_feats in H.
      destruct (fd_default fd); [destruct H|]. destruct (negb _); [|destruct H].
      destruct (cnum _); destruct H as [<-|[]]; out Hm.
  Qed.

  Theorem covers_ma_section : incl (spec_ma Mm) (kind_ma Mm).
  Proof.
    intros f Hf. unfold spec_ma in Hf. apply in_app_or in Hf. destruct Hf as [Hf|Hf].
    - apply filter_In in Hf. destruct Hf as [Hf Hm]. apply raw_sub; [|exact Hm].
      apply spec_in_raw; [|exact Hf]. apply wf_ma_parts.
    - unfold spec_ma_class in Hf. rewrite !in_app_iff in Hf. destruct Hf as [[<-|[]]|[Hf|Hf]].
      + left. reflexivity.
      + apply clause_inv in Hf. destruct Hf as [-> E]. apply existsb_exists in E. destruct E as (ag & Hag & E).
        kin. do 4 right. left. apply in_flat_map. exists ag. split; [exact Hag|]. apply in_or_app. left.
        unfold ma_agent_goal_feats. rewrite !in_app_iff. left. apply in_clause. exact E.
      + apply clause_inv in Hf. destruct Hf as [-> E]. apply existsb_exists in E. destruct E as (ag & Hag & E).
        kin. do 4 right. left. apply in_flat_map. exists ag. split; [exact Hag|]. apply in_or_app. left.
        unfold ma_agent_goal_feats. rewrite !in_app_iff. right. left. apply in_clause. exact E.
  Qed.
End MA.

Theorem covers_ma M : wf_ma M -> incl (spec_ma M) (kind_ma M).
Proof. intro W. apply covers_ma_section. exact W. Qed.
(* ================================================================================================ SCHEDULING *)
Lemma static_no_sets g : M.static no_sets g = false.
Proof. reflexivity. Qed.
Lemma unused_no_sets g : M.unused no_sets g = false.
Proof. reflexivity. Qed.

Lemma in_clause_u g b : unstatic g = g -> b = true -> In (unstatic g) (clause g b).
Proof. intros -> ->. left. reflexivity. Qed.

Lemma fl_unstatic P fs A B f :
  unstatic A = B -> unstatic B = B -> In f (M.fl_feats P fs A B) -> In (unstatic f) (M.fl_feats no_sets fs A B).
Proof.
  intros UA UB H. unfold M.fl_feats in *. apply in_app_or in H. apply in_or_app. right.
  assert (X : exists g, In g fs /\ (f = A \/ f = B)).
  { destruct H as [H|H]; apply clause_inv in H; destruct H as [-> E]; apply existsb_exists in E; destruct E as (g & Hg & _); eauto. }
  destruct X as (g & Hg & E).
  assert (U : unstatic f = B) by (destruct E as [->| ->]; assumption). rewrite U.
  apply in_clause. apply existsb_exists. exists g. split; [exact Hg | reflexivity].
Qed.

Lemma expr_unstatic c f : In f (M.expr_feats c) -> unstatic f = f.
Proof.
  unfold M.expr_feats. cbv zeta. rewrite !in_app_iff. intros [H|[H|[H|[H|[H|H]]]]]; apply clause_inv in H; destruct H as [-> _]; reflexivity.
Qed.
Lemma type_unstatic t f : In f (M.type_feats t) -> unstatic f = f.
Proof. destruct t as [| | |u hf]; simpl; try tauto. destruct hf; simpl; intros [<-|[<-|[]]] || intros [<-|[]]; reflexivity. Qed.
Lemma param_unstatic t f : In f (M.param_feats t) -> unstatic f = f.
Proof.
  unfold M.param_feats. intro H. apply in_app_or in H. destruct H as [H|H]; [eapply type_unstatic; eauto|].
  destruct t as [|lo hi|lo hi|]; simpl in H.
  - destruct H as [<-|[]]. reflexivity.
  - destruct (negb lo || negb hi); destruct H as [<-|[]]; reflexivity.
  - destruct H as [<-|[]]. reflexivity.
  - destruct H.
Qed.
Lemma tm_unstatic t f : In f (M.tm_feats t) -> unstatic f = f.
Proof. intro H. apply tm_out in H. destruct H; subst; reflexivity. Qed.
Lemma interval_unstatic i f : In f (M.interval_feats i) -> unstatic f = f.
Proof. intro H. apply interval_out in H. destruct H; subst; reflexivity. Qed.

Lemma keep_in f X : unstatic f = f -> In f X -> In (unstatic f) X.
Proof. intros ->. auto. Qed.

Lemma effect_unstatic P e f : In f (M.effect_feats P e) -> In (unstatic f) (M.effect_feats no_sets e).
Proof.
  unfold M.effect_feats. cbv zeta. rewrite !in_app_iff. intros [H|[H|H]].
  - left. destruct (is_conditional e); [|destruct H]. apply in_app_or in H. apply in_or_app. destruct H as [H|H].
    + left. apply keep_in; [eapply expr_unstatic; eauto | exact H].
    + right. destruct H as [<-|[]]. left. reflexivity.
  - right. left. destruct (nonempty (ef_forall e)); [|destruct H]. destruct H as [<-|H]; [left; reflexivity | right].
    apply in_flat_map in H. destruct H as (v & Hv & H). apply keep_in; [eapply type_unstatic; eauto|]. eapply fm_in; eauto.
  - right. right. destruct (ef_kind e).
    + destruct (ef_vcls e); apply in_app_or in H; apply in_or_app; (destruct H as [H|H];
        [ left; apply clause_inv in H; destruct H as [-> E]; apply in_clause_u; [reflexivity | exact E]
        | right; apply (fl_unstatic P); [reflexivity | reflexivity | exact H] ]).
    + destruct H as [<-|H]; [left; reflexivity | right]. apply in_app_or in H. apply in_or_app. destruct H as [H|H].
      * left. apply clause_inv in H. destruct H as [-> E]. apply in_clause_u; [reflexivity | exact E].
      * right. destruct (is_num_const (ef_val e)); [destruct H|]. apply (fl_unstatic P); [reflexivity | reflexivity | exact H].
    + destruct H as [<-|H]; [left; reflexivity | right]. apply in_app_or in H. apply in_or_app. destruct H as [H|H].
      * left. apply clause_inv in H. destruct H as [-> E]. apply in_clause_u; [reflexivity | exact E].
      * right. destruct (is_num_const (ef_val e)); [destruct H|]. apply (fl_unstatic P); [reflexivity | reflexivity | exact H].
    + apply clause_inv in H. destruct H as [-> E]. apply in_clause_u; [reflexivity | exact E].
    + apply clause_inv in H. destruct H as [-> E]. apply in_clause_u; [reflexivity | exact E].
Qed.

Lemma duration_unstatic P lo hi f : In f (M.duration_feats P lo hi) -> In (unstatic f) (M.duration_feats no_sets lo hi).
Proof.
  unfold M.duration_feats, M.bound_feats. rewrite !in_app_iff. intros [H|[H|[H|[H|H]]]].
  - left. destruct (de_cls lo); destruct H as [<-|[]]; left; reflexivity.
  - right. left. destruct (de_cls hi); destruct H as [<-|[]]; left; reflexivity.
  - right. right. left. apply clause_inv in H. destruct H as [-> E]. apply in_clause_u; [reflexivity | exact E].
  - right. right. right. left. apply clause_inv in H. destruct H as [-> E]. apply in_clause_u; [reflexivity | exact E].
  - right. right. right. right. apply (fl_unstatic P); [reflexivity | reflexivity | exact H].
Qed.

Lemma gains_unstatic w f : In f (M.gains_feats w) -> unstatic f = f.
Proof.
  unfold M.gains_feats. intro H. apply in_flat_map in H. destruct H as (b & _ & H). destruct b; destruct H as [<-|[]]; reflexivity.
Qed.

Lemma metric_unstatic P m f : In f (M.metric_feats P m) -> In (unstatic f) (M.metric_feats no_sets m).
Proof.
  destruct m; simpl.
  - intros [<-|H]; [left; reflexivity | right]. apply keep_in; [eapply expr_unstatic; eauto | exact H].
  - intros [<-|H]; [left; reflexivity | right]. apply keep_in; [eapply expr_unstatic; eauto | exact H].
  - intros [<-|H]; [left; reflexivity | right]. apply in_flat_map in H. destruct H as (c & Hc & H).
    apply in_flat_map. exists c. split; [exact Hc|]. rewrite !in_app_iff in *. destruct H as [H|[H|H]].
    + left. apply keep_in; [eapply expr_unstatic; eauto | exact H].
    + right. left. destruct (snd c); try (destruct H; fail); destruct H as [<-|[]]; left; reflexivity.
    + right. right. apply in_flat_map in H. destruct H as (g & Hg & H). apply in_flat_map. exists g. split; [exact Hg|].
      try rewrite static_no_sets. destruct (M.static P g); destruct H as [<-|[]]; left; reflexivity.
  - intros [<-|[]]. left. reflexivity.
  - intros [<-|[]]. left. reflexivity.
  - intros [<-|H]; [left; reflexivity | right]. apply in_app_or in H. apply in_or_app. destruct H as [H|H].
    + left. apply in_flat_map in H. destruct H as (c & Hc & H). apply keep_in; [eapply expr_unstatic; eauto|]. eapply fm_in; eauto.
    + right. apply keep_in; [eapply gains_unstatic; eauto | exact H].
  - intros [<-|H]; [left; reflexivity | right]. apply in_app_or in H. apply in_or_app. destruct H as [H|H].
    + left. apply in_flat_map in H. destruct H as (c & Hc & H). apply keep_in; [eapply expr_unstatic; eauto|]. eapply fm_in; eauto.
    + right. apply keep_in; [eapply gains_unstatic; eauto | exact H].
Qed.

Lemma fluent_unstatic P fd f : In f (M.fluent_feats P fd) -> In (unstatic f) (M.fluent_feats no_sets fd).
Proof.
  unfold M.fluent_feats. cbv zeta. rewrite unused_no_sets. simpl negb. simpl orb. rewrite !in_app_iff. intros [H|[H|H]].
  - left. destruct (_ || _); [|destruct H]. apply keep_in; [eapply type_unstatic; eauto | exact H].
  - right. left. destruct (fd_ty fd) as [|lo hi|lo hi|]; simpl in *.
    + destruct H.
    + apply in_app_or in H. apply in_or_app. destruct H as [H|H].
      * left. apply clause_inv in H. destruct H as [-> E]. apply in_clause_u; [reflexivity | exact E].
      * right. destruct (_ || _); [|destruct H]. destruct H as [<-|[]]. left. reflexivity.
    + apply in_app_or in H. apply in_or_app. destruct H as [H|H].
      * left. apply clause_inv in H. destruct H as [-> E]. apply in_clause_u; [reflexivity | exact E].
      * right. destruct (_ || _); [|destruct H]. destruct H as [<-|[]]. left. reflexivity.
    + destruct H as [<-|[]]. left. reflexivity.
  - right. right. apply in_flat_map in H. destruct H as (pt & Hpt & H). apply in_flat_map. exists pt. split; [exact Hpt|].
    apply in_app_or in H. apply in_or_app. destruct H as [H|H].
    + left. apply keep_in; [eapply type_unstatic; eauto | exact H].
    + right. destruct pt; simpl in *; try (destruct H; fail); destruct H as [<-|[]]; left; reflexivity.
Qed.

Lemma initial_unstatic fd f : In f (M.initial_feats fd) -> unstatic f = f.
Proof.
  unfold M.initial_feats. destruct (fd_default fd); [intros []|]. destruct (negb _); [|intros []].
  destruct (cnum _); intros [<-|[]]; reflexivity.
Qed.

Lemma unstatic_not_ct f : memN f spec_feature_list = true -> unstatic f <> f_CONTINUOUS_TIME.
Proof.
  intro L. unfold unstatic.
  repeat match goal with |- context [if ?c then _ else _] => destruct c end; try (intro E; vm_compute in E; discriminate E).
  apply listed_ne. exact L.
Qed.

Section Sched.
  Variable S : sched_desc.
  Let F := flat_sched S.

  Ltac yin := unfold sched_raw; rewrite !in_app_iff.

  Lemma activity_unstatic a f :
    In f (M.action_feats F (activity_as_action a)) -> memN f spec_feature_list = true -> In (unstatic f) (activity_feats a).
  Proof.
    intros H L. simpl in H. unfold M.daction_feats in H. cbn [da_params da_lo da_hi da_conds da_effs da_ceffs da_sims da_motion] in H.
    unfold activity_feats. rewrite !in_app_iff in *.
    destruct H as [H|[H|[H|[H|[H|[H|[H|[H|H]]]]]]]].
    - right. right. left. apply in_flat_map in H. destruct H as (t & Ht & H).
      apply keep_in; [eapply param_unstatic; eauto|]. eapply fm_in; eauto.
    - destruct H.
    - right. left. eapply duration_unstatic; eauto.
    - do 4 right. left. apply in_flat_map in H. destruct H as (x & Hx & H). apply in_flat_map. exists x. split; [exact Hx|].
      unfold M.timed_condition_feats in *. apply in_app_or in H. apply in_or_app. destruct H as [H|H].
      + left. apply keep_in; [eapply interval_unstatic; eauto | exact H].
      + right. apply keep_in; [eapply expr_unstatic; eauto | exact H].
    - do 3 right. left. apply in_flat_map in H. destruct H as (x & Hx & H). apply in_flat_map. exists x. split; [exact Hx|].
      unfold M.timed_effect_feats in *. apply in_app_or in H. apply in_or_app. destruct H as [H|H].
      + left. destruct (negb _); [|destruct H]. apply keep_in; [eapply tm_unstatic; eauto | exact H].
      + right. eapply effect_unstatic; eauto.
    - destruct H.
    - destruct H.
    - destruct H as [<-|[]]. vm_compute in L. discriminate L.
    - destruct H.
  Qed.

  Lemma nonempty_map {A B} (g : A -> B) l : nonempty (map g l) = nonempty l.
  Proof. destruct l; reflexivity. Qed.

  Lemma raw_unstatic f : In f (M.raw F) -> memN f spec_feature_list = true -> In (unstatic f) (sched_raw S).
  Proof.
    intros Hf L. unfold M.raw in Hf. simpl in Hf. rewrite !nonempty_map in Hf.
    destruct Hf as [<-|Hf]; [vm_compute in L; discriminate L|]. rewrite !in_app_iff in Hf.
    destruct Hf as [H|[H|[H|[H|[H|[H|[H|[H|[H|[H|[]]]]]]]]]]]; yin.
    - right. left. apply in_flat_map in H. destruct H as (m & Hm & H). apply in_flat_map. exists m. split; [exact Hm|].
      eapply metric_unstatic; eauto.
    - right. right. left. apply in_flat_map in H. destruct H as (fd & Hfd & H). apply in_flat_map. exists fd. split; [exact Hfd|].
      eapply fluent_unstatic; eauto.
    - do 3 right. left. apply in_flat_map in H. destruct H as (t & Ht & H).
      apply keep_in; [eapply type_unstatic; eauto|]. eapply fm_in; eauto.
    - do 11 right. left. apply in_flat_map in H. destruct H as (a' & Ha & H). apply in_map_iff in Ha.
      destruct Ha as (a & <- & Ha). apply in_flat_map. exists a. split; [exact Ha|]. apply activity_unstatic; assumption.
    - destruct (nonempty (sp_effs S)) eqn:NE; [|destruct H]. destruct H as [<-|[<-|[]]]; [vm_compute in L; discriminate L|].
      do 6 right. left. left. reflexivity.
    - do 9 right. left. apply in_flat_map in H. destruct H as (te & Hte & H). apply in_map_iff in Hte.
      destruct Hte as (x & <- & Hx). simpl in H. rewrite app_nil_r in H. apply in_flat_map. exists x. split; [exact Hx|].
      eapply effect_unstatic; eauto.
    - destruct (nonempty (sp_conds S)) eqn:NE; [|destruct H]. destruct H as [<-|[<-|[]]]; [|vm_compute in L; discriminate L].
      do 5 right. left. left. reflexivity.
    - do 7 right. left. apply in_flat_map in H. destruct H as (tg & Htg & H). apply in_map_iff in Htg.
      destruct Htg as (x & <- & Hx). simpl in H. rewrite app_nil_r in H.
      apply keep_in; [eapply expr_unstatic; eauto|]. apply in_flat_map. exists x. split; [|exact H].
      apply in_or_app. left. exact Hx.
    - apply in_flat_map in H. destruct H as (c' & Hc & H). apply in_map_iff in Hc. destruct Hc as (c & <- & Hc).
      pose proof (expr_unstatic _ _ H) as U. rewrite U. unfold sched_constraints in Hc. apply in_app_or in Hc.
      destruct Hc as [Hc|Hc].
      + do 8 right. left. apply in_flat_map. exists c. split; [exact Hc|]. unfold constraint_feats. apply in_or_app. left. exact H.
      + do 11 right. left. apply in_flat_map in Hc. destruct Hc as (a & Ha & Hc). apply in_flat_map. exists a. split; [exact Ha|].
        unfold activity_feats. rewrite !in_app_iff. do 5 right. apply in_flat_map. exists c. split; [exact Hc|].
        unfold constraint_feats. apply in_or_app. left. exact H.
    - do 12 right. apply in_flat_map in H. destruct H as (fd & Hfd & H).
      apply keep_in; [eapply initial_unstatic; eauto|]. eapply fm_in; eauto.
  Qed.

  Theorem covers_sched_section : wf_sched S -> incl (spec_sched S) (kind_sched S).
  Proof.
    intros W f Hf. unfold spec_sched in Hf. apply in_app_or in Hf. destruct Hf as [Hf|Hf].
    - apply in_map_iff in Hf. destruct Hf as (g & <- & Hg). pose proof (spec_in_list _ _ Hg) as L.
      apply finalize_keeps; [|apply unstatic_not_ct; exact L]. apply raw_unstatic; [|exact L]. apply spec_in_raw; assumption.
    - unfold spec_sched_class in Hf. rewrite !in_app_iff in Hf. destruct Hf as [[<-|[]]|[Hf|Hf]].
      + apply finalize_keeps; [left; reflexivity | fne].
      + apply clause_inv in Hf. destruct Hf as [-> E]. apply finalize_keeps; [|fne]. apply existsb_exists in E.
        destruct E as (a & Ha & E). yin. do 11 right. left. apply in_flat_map. exists a. split; [exact Ha|].
        unfold activity_feats. rewrite !in_app_iff. left. apply in_clause. exact E.
      + apply clause_inv in Hf. destruct Hf as [-> E]. apply finalize_keeps; [|fne]. apply existsb_exists in E.
        destruct E as (c & Hc & E). unfold sched_constraints in Hc. apply in_app_or in Hc. yin. destruct Hc as [Hc|Hc].
        * do 8 right. left. apply in_flat_map. exists c. split; [exact Hc|]. unfold constraint_feats. apply in_or_app. right.
          apply in_clause. exact E.
        * do 11 right. left. apply in_flat_map in Hc. destruct Hc as (a & Ha & Hc). apply in_flat_map. exists a. split; [exact Ha|].
          unfold activity_feats. rewrite !in_app_iff. do 5 right. apply in_flat_map. exists c. split; [exact Hc|].
          unfold constraint_feats. apply in_or_app. right. apply in_clause. exact E.
  Qed.
  Lemma spec_param_sub t : incl (spec_param_features t) (M.param_feats t).
  Proof.
    unfold M.param_feats. destruct t as [|lo hi|lo hi|u hf]; simpl.
    - intros x [<-|[]]. left. reflexivity.
    - destruct lo, hi; simpl; intros x [<-|[]]; left; reflexivity.
    - intros x [<-|[]]. left. reflexivity.
    - destruct hf; intros x [<-|[]]; simpl; auto.
  Qed.

  Theorem covers_sched_full_section : wf_sched S -> incl (spec_sched_full S) (kind_sched S).
  Proof.
    intros W f Hf. unfold spec_sched_full in Hf. apply in_app_or in Hf. destruct Hf as [Hf|Hf]; [apply covers_sched_section; assumption|].
    unfold spec_sched_vars in Hf. apply in_flat_map in Hf. destruct Hf as (t & Ht & Hf).
    assert (Hne : f <> f_CONTINUOUS_TIME).
    { destruct t as [|lo hi|lo hi|u hf]; simpl in Hf.
      - destruct Hf as [<-|[]]; fne.
      - destruct (lo && hi); destruct Hf as [<-|[]]; fne.
      - destruct Hf as [<-|[]]; fne.
      - destruct hf; destruct Hf as [<-|[]]; fne. }
    apply spec_param_sub in Hf. apply finalize_keeps; [|exact Hne]. yin. do 10 right. left. eapply fm_in; eauto.
  Qed.
End Sched.

Theorem covers_sched_full S : wf_sched S -> incl (spec_sched_full S) (kind_sched S).
Proof. apply covers_sched_full_section. Qed.

Theorem covers_sched S : wf_sched S -> incl (spec_sched S) (kind_sched S).
Proof. apply covers_sched_section. Qed.
