(* "The state in force at an instant" versus the validator's trace: the final check of a condition by the model of the
   code ([check_cond], through _states_in_interval) and the executable reference ([cond_okb], through sample instants)
   both decide the dense-time statement [cond_ok]. *)
From Coq Require Import List ZArith NArith QArith Qcanon Bool Lia Lqa.
Import ListNotations.
Require Import UPV.Core.Expr UPV.Core.Eval UPV.Core.Interp UPV.Planning.Problem UPV.Planning.Sem.
Require Import UPV.Planning.Temporal UPV.Planning.TTValidate.
Require Import UPV.Proofs.Eval_lemmas UPV.Proofs.Temporal_base.
Local Open Scope Qc_scope.

(* strictly increasing keys, all after p *)
Fixpoint asc_from (p : Qc) (ks : list Qc) : Prop :=
  match ks with [] => True | k :: r => p < k /\ asc_from k r end.

Lemma asc_from_gt p ks : asc_from p ks -> forall y, In y ks -> p < y.
Proof.
  revert p; induction ks as [|k ks IH]; intros p H y Hy; [destruct Hy|].
  destruct H as [H1 H2]. destruct Hy as [<-|Hy]; [exact H1|]. specialize (IH k H2 y Hy). qco.
Qed.

Lemma asc_from_weaken p q ks : q <= p -> asc_from p ks -> asc_from q ks.
Proof. destruct ks as [|k ks]; [auto|]. intros H [A B]. split; [qco | exact B]. Qed.

Lemma asc_from_NoDup p ks : asc_from p ks -> NoDup (p :: ks).
Proof.
  revert p; induction ks as [|k ks IH]; intros p H; [constructor; [intros [] | constructor]|].
  destruct H as [H1 H2]. constructor; [|apply IH, H2].
  intros Hin. pose proof (asc_from_gt p (k :: ks) (conj H1 H2) p Hin). qco.
Qed.

Lemma asc_from_filter p ks f : asc_from p ks -> asc_from p (filter f ks).
Proof.
  revert p; induction ks as [|k ks IH]; intros p H; [exact I|].
  destruct H as [H1 H2]. cbn. destruct (f k).
  - split; [exact H1 | apply IH, H2].
  - apply IH. apply (asc_from_weaken k p); [qco | exact H2].
Qed.

Lemma asc_from_app p ks q : asc_from p ks -> (forall y, In y (p :: ks) -> y < q) -> asc_from p (ks ++ [q]).
Proof.
  revert p; induction ks as [|k ks IH]; intros p H Hq.
  - cbn. split; [apply Hq; left; reflexivity | exact I].
  - destruct H as [H1 H2]. cbn. split; [exact H1|]. apply IH; [exact H2|]. intros y Hy. apply Hq. right. exact Hy.
Qed.

Lemma last_default {A} (l : list A) (d d' : A) : l <> [] -> last l d = last l d'.
Proof.
  induction l as [|a l IH]; intros H; [contradiction|].
  destruct l as [|b l]; [reflexivity|]. cbn [last]. apply IH. discriminate.
Qed.
Lemma last_cons {A} (k : A) (ks : list A) (p : A) : last (k :: ks) p = last ks k.
Proof.
  destruct ks as [|b ks]; [reflexivity|]. change (last (k :: b :: ks) p) with (last (b :: ks) p).
  apply last_default. discriminate.
Qed.

Lemma asc_from_last p ks : asc_from p ks -> forall y, In y (p :: ks) -> y <= last ks p.
Proof.
  revert p; induction ks as [|k ks IH]; intros p H y Hy.
  - destruct Hy as [<-|[]]. apply Qcle_refl.
  - destruct H as [H1 H2]. rewrite last_cons. destruct Hy as [<-|Hy].
    + specialize (IH k H2 k (or_introl eq_refl)). qco.
    + apply IH; assumption.
Qed.

(* ------------------------------------------------------------------ state_at and in_force *)
Lemma state_at_in_force (tr : trace) : forall m s0 u,
  asc_from m (keys tr) -> m < u ->
  exists x s, In (x, s) ((m, s0) :: tr) /\ in_force ((m, s0) :: tr) x u /\ state_at s0 tr u = s.
Proof.
  induction tr as [|[k s1] tr IH]; intros m s0 u A Hu.
  - exists m, s0. split; [left; reflexivity|]. split; [|reflexivity].
    split; [exact Hu|]. intros y [<-|[]] _. apply Qcle_refl.
  - cbn in A. destruct A as [A1 A2]. cbn [state_at].
    destruct (qc_ltb k u) eqn:E; qb.
    + destruct (IH k s1 u A2 E) as [x [s [Hin [[F1 F2] St]]]].
      exists x, s. split; [right; exact Hin|]. split; [|exact St].
      split; [exact F1|]. intros y [<-|Hy] Hyu.
      * specialize (F2 k (or_introl eq_refl) E). qco.
      * apply F2; assumption.
    + exists m, s0. split; [left; reflexivity|]. split; [|reflexivity].
      split; [exact Hu|]. intros y [<-|[<-|Hy]] Hyu; [apply Qcle_refl | qco |].
      pose proof (asc_from_gt k (keys tr) A2 y Hy). qco.
Qed.

Lemma in_force_unique (T : trace) x x' u :
  In x (keys T) -> In x' (keys T) -> in_force T x u -> in_force T x' u -> x = x'.
Proof. intros K K' [A B] [A' B']. apply Qcle_antisym; [apply B'; assumption | apply B; assumption]. Qed.

Lemma In_unique_key (T : trace) x s s' : NoDup (keys T) -> In (x, s) T -> In (x, s') T -> s = s'.
Proof.
  intros ND H H'. pose proof (tlookup_In T x s ND H) as E. rewrite (tlookup_In T x s' ND H') in E. inversion E; reflexivity.
Qed.

Lemma state_at_of_in_force (tr : trace) m s0 u x s :
  asc_from m (keys tr) -> m < u -> In (x, s) ((m, s0) :: tr) -> in_force ((m, s0) :: tr) x u -> state_at s0 tr u = s.
Proof.
  intros A Hu Hin F.
  destruct (state_at_in_force tr m s0 u A Hu) as [x' [s' [Hin' [F' St]]]].
  assert (ND : NoDup (keys ((m, s0) :: tr))) by (apply (asc_from_NoDup m (keys tr)), A).
  assert (x = x').
  { apply (in_force_unique ((m, s0) :: tr) x x' u); auto.
    - change x with (fst (x, s)). apply in_map, Hin.
    - change x' with (fst (x', s')). apply in_map, Hin'. }
  subst x'. rewrite St. symmetry. apply (In_unique_key _ x s s' ND Hin Hin').
Qed.

(* ------------------------------------------------------------------ the final check of one condition *)
(* [T = (-1, s0) :: tr] is the validator's trace; keys strictly increasing *)
Theorem check_cond_spec sc TP (s0 : state) (tr : trace) (c : tcond) :
  asc_from minus1 (keys tr) -> zq 0 <= ai_lo (tc_iv c) -> iv_nonempty (tc_iv c) = true ->
  (check_cond sc TP ((minus1, s0) :: tr) c = true <-> cond_ok sc TP s0 tr c).
Proof.
  intros A L0 NE. set (T := (minus1, s0) :: tr).
  assert (ND : NoDup (keys T)) by (apply (asc_from_NoDup minus1 (keys tr)), A).
  assert (M : In minus1 (keys T)) by (left; reflexivity).
  pose proof (states_in_interval_exact T (tc_iv c) ND M L0 NE) as EX.
  unfold check_cond, cond_ok. rewrite forallb_forall. split.
  - intros H u Hu.
    assert (Hm : minus1 < u).
    { pose proof minus1_lt0. destruct Hu as [Hl _]. destruct (ai_lopen (tc_iv c)); qco. }
    destruct (state_at_in_force tr minus1 s0 u A Hm) as [x [s [Hin [F St]]]].
    rewrite St. apply (H (x, s)). apply EX. split; [exact Hin|]. exists u. split; assumption.
  - intros H [x s] Hin. apply EX in Hin. destruct Hin as [Hin [u [Hu F]]].
    assert (Hm : minus1 < u).
    { pose proof minus1_lt0. destruct Hu as [Hl _]. destruct (ai_lopen (tc_iv c)); qco. }
    cbn [snd]. rewrite <- (state_at_of_in_force tr minus1 s0 u x s A Hm Hin F). apply H, Hu.
Qed.

(* second core lemma in its sharpest form: a condition at an instant t (precondition of an instantaneous action,
   at-start / at-end / intermediate condition, duration constraint) is evaluated in the state produced by the last
   happening STRICTLY before t, i.e. before the effects scheduled at t, even when effects are scheduled at t *)
Theorem conditions_before_effects sc TP (s0 : state) (tr : trace) (t : Qc) bind e :
  asc_from minus1 (keys tr) -> zq 0 <= t ->
  check_cond sc TP ((minus1, s0) :: tr) {| tc_iv := point_interval t; tc_bind := bind; tc_expr := e |} =
  holds_in sc TP (state_at s0 tr t) bind e.
Proof.
  intros A L0.
  set (c := {| tc_iv := point_interval t; tc_bind := bind; tc_expr := e |}).
  assert (NE : iv_nonempty (tc_iv c) = true).
  { unfold iv_nonempty. cbn. rewrite qc_eqb_refl. apply orb_true_r. }
  pose proof (check_cond_spec sc TP s0 tr c A L0 NE) as S.
  destruct (holds_in sc TP (state_at s0 tr t) bind e) eqn:E.
  - apply S. intros u [U1 U2]. cbn in U1, U2. assert (u = t) by (apply Qcle_antisym; assumption). subst u. exact E.
  - destruct (check_cond sc TP ((minus1, s0) :: tr) c) eqn:E2; [|reflexivity].
    pose proof (proj1 S eq_refl t) as E3. cbn in E3. rewrite E in E3. symmetry. apply E3. split; apply Qcle_refl.
Qed.

(* ------------------------------------------------------------------ sample instants (executable reference) *)
Lemma state_at_same (tr : trace) : forall s0 u u',
  (forall k, In k (keys tr) -> (k < u <-> k < u')) -> state_at s0 tr u = state_at s0 tr u'.
Proof.
  induction tr as [|[k s] tr IH]; intros s0 u u' H; [reflexivity|].
  cbn [state_at]. pose proof (H k (or_introl eq_refl)) as Hk.
  destruct (qc_ltb k u) eqn:E1, (qc_ltb k u') eqn:E2; qb.
  - apply IH. intros y Hy. apply H. right. exact Hy.
  - apply Hk in E1. qco.
  - apply Hk in E2. qco.
  - reflexivity.
Qed.

Lemma in_ivb_iff iv u : in_ivb iv u = true <-> in_iv iv u.
Proof.
  unfold in_ivb, in_iv. rewrite andb_true_iff.
  destruct (ai_lopen iv), (ai_hi iv) as [h|]; try destruct (ai_ropen iv);
    rewrite ?qc_ltb_lt, ?qc_leb_le; intuition.
Qed.

(* consecutive breakpoints around an instant *)
Lemma mids_cover (ps : list Qc) : forall p u,
  asc_from p ps -> ps <> [] -> p < u -> u <= last ps p ->
  exists a b, In (mid a b) (mids p ps) /\ a < u /\ u <= b /\ a < b /\ (forall y, In y (p :: ps) -> y <= a \/ b <= y).
Proof.
  induction ps as [|q ps IH]; intros p u A NE Hu Hl; [contradiction|].
  destruct A as [A1 A2].
  destruct (Qclt_le_dec q u) as [L|L].
  - destruct ps as [|q' ps'].
    + cbn in Hl. qco.
    + assert (Hl' : u <= last (q' :: ps') q) by (rewrite last_cons in Hl; exact Hl).
      destruct (IH q u A2 ltac:(discriminate) L Hl') as [a [b [M [H1 [H2 [H3 H4]]]]]].
      exists a, b. split; [right; exact M|]. repeat split; auto.
      intros y [<-|Hy]; [|apply H4, Hy].
      destruct (H4 q (or_introl eq_refl)) as [Hq|Hq]; [left; qco | left; qco].
  - exists p, q. split; [left; reflexivity|]. repeat split; auto.
    intros y [<-|[<-|Hy]]; [left; apply Qcle_refl | right; apply Qcle_refl |].
    right. pose proof (asc_from_gt q ps A2 y Hy). qco.
Qed.

Lemma mids_inside (ps : list Qc) : forall p m, asc_from p ps -> In m (mids p ps) -> p < m /\ m < last ps p.
Proof.
  induction ps as [|q ps IH]; intros p m A Hm; [destruct Hm|].
  destruct A as [A1 A2]. cbn [mids] in Hm.
  assert (Lq : q <= last (q :: ps) p).
  { pose proof (asc_from_last p (q :: ps) (conj A1 A2) q (or_intror (or_introl eq_refl))). exact H. }
  destruct Hm as [<-|Hm].
  - destruct (mid_lt p q A1). split; qco.
  - destruct (IH q m A2 Hm) as [B1 B2]. split; [qco|].
    rewrite last_cons. exact B2.
Qed.

Lemma last_app_single {A} (l : list A) (x d : A) : last (l ++ [x]) d = x.
Proof. induction l as [|a l IH]; [reflexivity|]. cbn. destruct (l ++ [x]) eqn:E; [destruct l; discriminate | exact IH]. Qed.

Section Samples.
  Variable sc : bool.
  Variable TP : tproblem.

  Lemma samples_sound (tr : trace) (iv : ainterval) :
    asc_from minus1 (keys tr) -> forall u, In u (samples tr iv) -> in_iv iv u.
  Proof.
    intros A u Hu. unfold samples in Hu. destruct iv as [lo hi lopen ropen]. cbn [ai_lo ai_hi ai_lopen ai_ropen] in *.
    unfold in_iv. cbn [ai_lo ai_hi ai_lopen ai_ropen].
    destruct hi as [h|].
    - destruct (qc_ltb lo h) eqn:E; qb.
      + apply in_app_iff in Hu. destruct Hu as [Hu|Hu].
        * destruct lopen; [destruct Hu|]. destruct Hu as [<-|[]]. split; [apply Qcle_refl | destruct ropen; qco].
        * set (inner := filter (fun x => qc_ltb lo x && qc_ltb x h) (map fst tr)) in *.
          assert (AI : asc_from lo (inner ++ [h])).
          { apply asc_from_app.
            - assert (asc_from lo inner -> asc_from lo inner) by auto.
              assert (B : forall ks p, asc_from p ks -> forall q, asc_from q (filter (fun x => qc_ltb q x && qc_ltb x h) ks)).
              { clear. induction ks as [|k ks IH]; intros p Ha q; [exact I|].
                destruct Ha as [H1 H2]. cbn. destruct (qc_ltb q k && qc_ltb k h) eqn:E.
                - qb. split; [exact H|].
                  assert (G : filter (fun x => qc_ltb q x && qc_ltb x h) ks = filter (fun x => qc_ltb k x && qc_ltb x h) ks).
                  { apply filter_ext_in. intros y Hy. pose proof (asc_from_gt k ks H2 y Hy).
                    destruct (qc_ltb q y) eqn:E1, (qc_ltb k y) eqn:E2; qb; try reflexivity; qco. }
                  rewrite G. apply (IH k H2 k).
                - apply (IH k H2 q). }
              apply (B (map fst tr) minus1 A lo).
            - intros y [<-|Hy]; [exact E|]. apply filter_In in Hy. destruct Hy as [_ Hy]. qb. exact H0. }
          destruct (mids_inside (inner ++ [h]) lo u AI Hu) as [B1 B2]. rewrite last_app_single in B2.
          split; [destruct lopen; qco | destruct ropen; qco].
      + destruct (in_ivb {| ai_lo := lo; ai_hi := Some h; ai_lopen := lopen; ai_ropen := ropen |} lo) eqn:E2; [|destruct Hu].
        destruct Hu as [<-|[]]. apply in_ivb_iff in E2. exact E2.
    - set (inner := filter (fun x => qc_ltb lo x) (map fst tr)) in *.
      assert (AI : asc_from lo inner).
      { assert (B : forall ks p, asc_from p ks -> forall q, asc_from q (filter (fun x => qc_ltb q x) ks)).
        { clear. induction ks as [|k ks IH]; intros p Ha q; [exact I|].
          destruct Ha as [H1 H2]. cbn. destruct (qc_ltb q k) eqn:E.
          - qb. split; [exact E|].
            assert (G : filter (fun x => qc_ltb q x) ks = filter (fun x => qc_ltb k x) ks).
            { apply filter_ext_in. intros y Hy. pose proof (asc_from_gt k ks H2 y Hy).
              destruct (qc_ltb q y) eqn:E1, (qc_ltb k y) eqn:E2; qb; try reflexivity; qco. }
            rewrite G. apply (IH k H2 k).
          - apply (IH k H2 q). }
        apply (B (map fst tr) minus1 A lo). }
      split; [|exact I].
      apply in_app_iff in Hu. destruct Hu as [Hu|Hu].
      + destruct lopen; [destruct Hu|]. destruct Hu as [<-|[]]. apply Qcle_refl.
      + apply in_app_iff in Hu. destruct Hu as [Hu|[<-|[]]].
        * destruct (mids_inside inner lo u AI Hu) as [B1 _]. destruct lopen; qco.
        * pose proof (asc_from_last lo inner AI lo (or_introl eq_refl)). pose proof (plus1_lt (last inner lo)).
          destruct lopen; qco.
  Qed.

  (* every instant of the interval is represented by a sample instant on the same side of every happening *)
  Lemma samples_complete (tr : trace) (iv : ainterval) :
    asc_from minus1 (keys tr) -> forall u, in_iv iv u ->
    exists u', In u' (samples tr iv) /\ forall k, In k (keys tr) -> (k < u <-> k < u').
  Proof.
    intros A u Hu. unfold samples. destruct iv as [lo hi lopen ropen]. unfold in_iv in Hu.
    cbn [ai_lo ai_hi ai_lopen ai_ropen] in *. destruct Hu as [U1 U2].
    assert (FA : forall (f : Qc -> bool) ks p q, asc_from p ks -> (forall y, f y = true -> q < y) ->
                 (forall y z, f y = true -> f z = false -> y < z -> forall w, z < w -> f w = false) -> True) by (intros; exact I).
    destruct hi as [h|].
    - destruct (qc_ltb lo h) eqn:E; qb.
      + set (inner := filter (fun x => qc_ltb lo x && qc_ltb x h) (map fst tr)).
        destruct (Qc_total lo u) as [L|[L|L]]; [| |destruct lopen; qco].
        * (* lo < u <= h *)
          assert (Uh : u <= h) by (destruct ropen; qco).
          assert (AI : asc_from lo (inner ++ [h])).
          { apply asc_from_app.
            - assert (B : forall ks p, asc_from p ks -> forall q, asc_from q (filter (fun x => qc_ltb q x && qc_ltb x h) ks)).
              { clear. induction ks as [|k ks IH]; intros p Ha q; [exact I|].
                destruct Ha as [H1 H2]. cbn. destruct (qc_ltb q k && qc_ltb k h) eqn:E.
                - qb. split; [exact H|].
                  assert (G : filter (fun x => qc_ltb q x && qc_ltb x h) ks = filter (fun x => qc_ltb k x && qc_ltb x h) ks).
                  { apply filter_ext_in. intros y Hy. pose proof (asc_from_gt k ks H2 y Hy).
                    destruct (qc_ltb q y) eqn:E1, (qc_ltb k y) eqn:E2; qb; try reflexivity; qco. }
                  rewrite G. apply (IH k H2 k).
                - apply (IH k H2 q). }
              apply (B (map fst tr) minus1 A lo).
            - intros y [<-|Hy]; [exact E|]. apply filter_In in Hy. destruct Hy as [_ Hy]. qb. exact H0. }
          assert (NEl : inner ++ [h] <> []) by (destruct inner; discriminate).
          assert (Ul : u <= last (inner ++ [h]) lo) by (rewrite last_app_single; exact Uh).
          destruct (mids_cover (inner ++ [h]) lo u AI NEl L Ul) as [a [b [M [H1 [H2 [H3 H4]]]]]].
          exists (mid a b). split; [apply in_app_iff; right; exact M|].
          destruct (mid_lt a b H3) as [M1 M2].
          assert (Alo : lo <= a /\ b <= h).
          { split.
            - destruct (H4 lo (or_introl eq_refl)) as [G|G]; [exact G | qco].
            - destruct (H4 h) as [G|G]; [right; apply in_app_iff; right; left; reflexivity | qco | exact G]. }
          intros k Hk.
          destruct (Qclt_le_dec lo k) as [K1|K1].
          -- destruct (Qclt_le_dec k h) as [K2|K2].
             ++ assert (Hin : In k (inner ++ [h])).
                { apply in_app_iff. left. apply filter_In. split; [exact Hk|].
                  apply andb_true_iff. split; apply qc_ltb_lt; assumption. }
                destruct (H4 k (or_intror Hin)) as [G|G]; split; intros; qco.
             ++ split; intros; qco.
          -- split; intros; qco.
        * (* u = lo *)
          subst u. destruct lopen; [qco|]. exists lo. split; [left; reflexivity | tauto].
      + (* not lo < h: the interval is a single instant or empty *)
        assert (u = lo).
        { apply Qcle_antisym; [destruct ropen; qco | destruct lopen; qco]. }
        subst u.
        assert (IB : in_ivb {| ai_lo := lo; ai_hi := Some h; ai_lopen := lopen; ai_ropen := ropen |} lo = true).
        { apply in_ivb_iff. split; assumption. }
        rewrite IB. exists lo. split; [left; reflexivity | tauto].
    - set (inner := filter (fun x => qc_ltb lo x) (map fst tr)).
      assert (AI : asc_from lo inner).
      { assert (B : forall ks p, asc_from p ks -> forall q, asc_from q (filter (fun x => qc_ltb q x) ks)).
        { clear. induction ks as [|k ks IH]; intros p Ha q; [exact I|].
          destruct Ha as [H1 H2]. cbn. destruct (qc_ltb q k) eqn:E.
          - qb. split; [exact E|].
            assert (G : filter (fun x => qc_ltb q x) ks = filter (fun x => qc_ltb k x) ks).
            { apply filter_ext_in. intros y Hy. pose proof (asc_from_gt k ks H2 y Hy).
              destruct (qc_ltb q y) eqn:E1, (qc_ltb k y) eqn:E2; qb; try reflexivity; qco. }
            rewrite G. apply (IH k H2 k).
          - apply (IH k H2 q). }
        apply (B (map fst tr) minus1 A lo). }
      destruct (Qc_total lo u) as [L|[L|L]]; [| |destruct lopen; qco].
      + destruct (Qclt_le_dec (last inner lo) u) as [G|G].
        * (* after the last happening *)
          exists (last inner lo + zq 1). split; [apply in_app_iff; right; apply in_app_iff; right; left; reflexivity|].
          intros k Hk. pose proof (plus1_lt (last inner lo)).
          assert (k <= last inner lo).
          { destruct (Qclt_le_dec lo k) as [K|K].
            - apply (asc_from_last lo inner AI k). right. apply filter_In. split; [exact Hk | apply qc_ltb_lt, K].
            - pose proof (asc_from_last lo inner AI lo (or_introl eq_refl)). qco. }
          split; intros; qco.
        * assert (NEl : inner <> []) by (destruct inner; [cbn in G; qco | discriminate]).
          destruct (mids_cover inner lo u AI NEl L G) as [a [b [M [H1 [H2 [H3 H4]]]]]].
          exists (mid a b). split; [apply in_app_iff; right; apply in_app_iff; left; exact M|].
          destruct (mid_lt a b H3) as [M1 M2].
          assert (Alo : lo <= a) by (destruct (H4 lo (or_introl eq_refl)) as [G'|G']; [exact G' | qco]).
          intros k Hk.
          destruct (Qclt_le_dec lo k) as [K1|K1].
          -- assert (Hin : In k inner) by (apply filter_In; split; [exact Hk | apply qc_ltb_lt, K1]).
             destruct (H4 k (or_intror Hin)) as [G'|G']; split; intros; qco.
          -- split; intros; qco.
      + subst u. destruct lopen; [qco|]. exists lo. split; [left; reflexivity | tauto].
  Qed.

  Theorem cond_okb_spec (s0 : state) (tr : trace) (c : tcond) :
    asc_from minus1 (keys tr) -> (cond_okb sc TP s0 tr c = true <-> cond_ok sc TP s0 tr c).
  Proof.
    intros A. unfold cond_okb, cond_ok. rewrite forallb_forall. split.
    - intros H u Hu. destruct (samples_complete tr (tc_iv c) A u Hu) as [u' [Hin Hs]].
      rewrite (state_at_same tr s0 u u' Hs). apply H, Hin.
    - intros H u Hu. apply H. apply (samples_sound tr (tc_iv c) A u Hu).
  Qed.
End Samples.
