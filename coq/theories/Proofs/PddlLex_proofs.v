(* Proofs about Model/PddlLex.v: the tokenisation reads back every layout the converter emits. *)
From Coq Require Import List ZArith NArith QArith Qcanon Bool String Ascii Lia.
Import ListNotations.
Require Import UPV.Core.Expr UPV.Model.PddlExpr UPV.Model.PddlLex UPV.Proofs.PddlExpr_proofs.
Local Open Scope string_scope.

Lemma app_assoc_s (a b c : string) : (a ++ b) ++ c = a ++ (b ++ c).
Proof. induction a as [|x a IH]; cbn [append]; [reflexivity|]. rewrite IH. reflexivity. Qed.

Lemma prep_app a b : prep (a ++ b) = prep a ++ prep b.
Proof. induction a as [|x a IH]; cbn [append prep]; [reflexivity|]. rewrite IH. reflexivity. Qed.

Lemma all_c_app p a b : all_c p (a ++ b) = all_c p a && all_c p b.
Proof. induction a as [|x a IH]; cbn [append all_c]; [reflexivity|]. rewrite IH. apply andb_assoc. Qed.

Lemma all_c_impl (p q : ascii -> bool) s : (forall c, p c = true -> q c = true) -> all_c p s = true -> all_c q s = true.
Proof.
  intro H. induction s as [|c s IH]; cbn [all_c]; [auto|]. intro A. apply andb_true_iff in A as [A1 A2].
  rewrite (H _ A1), (IH A2). reflexivity.
Qed.

Definition dstart (s : string) : bool := match s with EmptyString => true | String c _ => is_delim c end.
Definition ws_str (w : string) : bool := all_c is_ws w.

Lemma lex_open top st r : lex_go top st MWs (String "(" r) = lex_go [] (top :: st) MWs r.
Proof. reflexivity. Qed.
Lemma lex_close top f st r : lex_go top (f :: st) MWs (String ")" r) = lex_go (SList (rev top) :: f) st MWs r.
Proof. reflexivity. Qed.

Lemma ws_skip w : ws_str w = true -> forall top st s, lex_go top st MWs (w ++ s) = lex_go top st MWs s.
Proof.
  induction w as [|c w IH]; cbn [ws_str all_c append]; intros H top st s; [reflexivity|].
  apply andb_true_iff in H as [H1 H2]. cbn [lex_go]. unfold is_delim. rewrite H1. cbn [orb]. apply IH. exact H2.
Qed.

Lemma atom_run a : forall b top st rest, all_c (fun c => negb (is_delim c)) a = true ->
  lex_go top st (MAtom b) (a ++ rest) = lex_go top st (MAtom (b ++ a)) rest.
Proof.
  induction a as [|c a IH]; intros b top st rest H.
  - cbn [append]. rewrite app_empty. reflexivity.
  - cbn [all_c] in H. apply andb_true_iff in H as [H1 H2]. apply negb_true_iff in H1.
    cbn [append lex_go]. rewrite H1. rewrite (IH _ _ _ _ H2). rewrite app_assoc_s. reflexivity.
Qed.

Lemma atom_end b top st rest : dstart rest = true ->
  lex_go top st (MAtom b) rest = lex_go (Atom b :: top) st MWs rest.
Proof.
  destruct rest as [|c r]; cbn [dstart]; intro H; [reflexivity|]. cbn [lex_go]. rewrite H. reflexivity.
Qed.

(* [t] is read as the single element [s], whatever the context, when a delimiter (or the end) follows *)
Definition LX (t : string) (s : sexp) : Prop :=
  forall top st rest, dstart rest = true -> lex_go top st MWs (t ++ rest) = lex_go (s :: top) st MWs rest.

Lemma LX_atom a : atom_ok a = true -> LX a (Atom a).
Proof.
  unfold atom_ok. destruct a as [|c a]; [discriminate|]. cbn [String.eqb negb andb all_c]. intro H.
  apply andb_true_iff in H as [H1 H2]. apply andb_true_iff in H1 as [Hd Hs].
  apply negb_true_iff in Hd. apply negb_true_iff in Hs.
  intros top st rest Hr. cbn [append lex_go]. rewrite Hd, Hs.
  rewrite atom_run by (eapply all_c_impl; [|exact H2]; intros x Hx; apply andb_true_iff in Hx as [Hx _]; exact Hx).
  cbn [append]. apply atom_end. exact Hr.
Qed.

Fixpoint seps_ok (items : list (string * string)) : Prop :=
  match items with
  | [] => True
  | (_, w) :: r => ws_str w = true /\ (r = [] \/ w <> "") /\ seps_ok r
  end.

Lemma cat_lex items ss : Forall2 (fun it s => LX (fst it) s) items ss -> seps_ok items ->
  forall top st rest, lex_go top st MWs (cat items ++ String ")" rest) = lex_go (rev ss ++ top) st MWs (String ")" rest).
Proof.
  induction 1 as [|[t w] s items ss Hx Hl IH]; intros Hs top st rest; [reflexivity|].
  cbn [cat fst seps_ok] in *. destruct Hs as (Hw & Hne & Hs').
  rewrite !app_assoc_s. rewrite Hx.
  - rewrite ws_skip by exact Hw. rewrite IH by exact Hs'. cbn [rev]. rewrite <- app_assoc. reflexivity.
  - destruct w as [|c w'].
    + destruct Hne as [->|Hne]; [reflexivity|congruence].
    + cbn [ws_str all_c] in Hw. apply andb_true_iff in Hw as [Hc _]. cbn [append dstart]. unfold is_delim.
      rewrite Hc. reflexivity.
Qed.

Lemma LX_tl items ss : Forall2 (fun it s => LX (fst it) s) items ss -> seps_ok items -> LX (tl items) (SList ss).
Proof.
  intros F Hs top st rest Hr. unfold tl. cbn [append]. rewrite lex_open, app_assoc_s. cbn [append].
  rewrite (cat_lex items ss F Hs), lex_close, app_nil_r, rev_involutive. reflexivity.
Qed.

Lemma sepd_F2 {R : string -> sexp -> Prop} ts ss : Forall2 R ts ss -> Forall2 (fun it s => R (fst it) s) (sepd ts) ss.
Proof.
  induction 1 as [|t s ts ss Hx Hl IH]; [constructor|]. destruct ts as [|t' ts'].
  - inversion Hl. subst. cbn [sepd]. constructor; [exact Hx|constructor].
  - change (sepd (t :: t' :: ts')) with ((t, " ") :: sepd (t' :: ts')). constructor; [exact Hx|exact IH].
Qed.

Lemma sepd_ok ts : seps_ok (sepd ts).
Proof.
  induction ts as [|t ts IH]; [exact I|]. destruct ts as [|t' ts'].
  - cbn. auto.
  - change (sepd (t :: t' :: ts')) with ((t, " ") :: sepd (t' :: ts')). cbn [seps_ok]. split; [reflexivity|].
    split; [right; discriminate|exact IH].
Qed.

Lemma LX_tlist ts ss : Forall2 LX ts ss -> LX (tlist ts) (SList ss).
Proof. intro F. apply LX_tl; [apply sepd_F2; exact F|apply sepd_ok]. Qed.

(* ---- induction principle for S-expressions ---- *)
Section SexpInd.
  Variable P : sexp -> Prop.
  Hypothesis HA : forall a, P (Atom a).
  Hypothesis HL : forall l, Forall P l -> P (SList l).
  Fixpoint sexp_ind' (s : sexp) : P s :=
    match s with
    | Atom a => HA a
    | SList l => HL l ((fix go (l : list sexp) : Forall P l :=
                          match l with [] => Forall_nil P | x :: r => Forall_cons x (sexp_ind' x) (go r) end) l)
    end.
End SexpInd.

Lemma lex_of_LX t s : LX t s -> lex t = Some s.
Proof. intro H. unfold lex. rewrite <- (app_empty t). rewrite H by reflexivity. reflexivity. Qed.

Lemma show_LX s : atoms_ok s = true -> LX (show s) s.
Proof.
  induction s using sexp_ind'; cbn [atoms_ok show]; intro Hok; [apply LX_atom; exact Hok|].
  apply LX_tlist. induction H as [|x l Hx Hl IH]; [constructor|]. cbn [forallb] in Hok.
  apply andb_true_iff in Hok as [H1 H2]. cbn [map]. constructor; [apply Hx; exact H1|apply IH; exact H2].
Qed.

Theorem lex_show s : atoms_ok s = true -> lex (show s) = Some s.
Proof. intro H. apply lex_of_LX, show_LX, H. Qed.

(* ---- texts that [prep] leaves alone ---- *)
Definition clean (t : string) : Prop := prep t = t.

Lemma clean_app a b : clean a -> clean b -> clean (a ++ b).
Proof. unfold clean. intros A B. rewrite prep_app, A, B. reflexivity. Qed.

Lemma clean_cat items : Forall (fun it => clean (fst it) /\ clean (snd it)) items -> clean (cat items).
Proof.
  induction 1 as [|[t w] items [H1 H2] Hl IH]; [reflexivity|]. cbn [cat]. apply clean_app; [exact H1|].
  apply clean_app; [exact H2|exact IH].
Qed.

Lemma clean_tl items : Forall (fun it => clean (fst it) /\ clean (snd it)) items -> clean (tl items).
Proof.
  intro H. unfold tl. change (String "(" (cat items ++ ")")) with ("(" ++ (cat items ++ ")")).
  apply clean_app; [reflexivity|]. apply clean_app; [apply clean_cat; exact H|reflexivity].
Qed.

Lemma sepd_clean ts : Forall clean ts -> Forall (fun it => clean (fst it) /\ clean (snd it)) (sepd ts).
Proof.
  induction 1 as [|t ts Hx Hl IH]; [constructor|]. destruct ts as [|t' ts'].
  - cbn [sepd]. constructor; [split; [exact Hx|reflexivity]|constructor].
  - change (sepd (t :: t' :: ts')) with ((t, " ") :: sepd (t' :: ts')). constructor; [split; [exact Hx|reflexivity]|exact IH].
Qed.

Definition PT (t : string) (s : sexp) : Prop := LX t s /\ clean t.

Lemma F2_PT ts ss : Forall2 PT ts ss -> Forall2 LX ts ss /\ Forall clean ts.
Proof. induction 1 as [|t s ts ss [H1 H2] Hl [IH1 IH2]]; split; constructor; auto. Qed.

Lemma PT_tlist ts ss : Forall2 PT ts ss -> PT (tlist ts) (SList ss).
Proof.
  intro F. apply F2_PT in F as [F1 F2]. split; [apply LX_tlist; exact F1|apply clean_tl, sepd_clean; exact F2].
Qed.

Lemma name_ok_atom a : name_ok a = true -> atom_ok a = true /\ clean a.
Proof.
  unfold name_ok, atom_ok. intro H. apply andb_true_iff in H as [H1 H2]. rewrite H1. split.
  - eapply all_c_impl; [|exact H2]. unfold okc. intros c Hc. apply andb_true_iff in Hc as [Hc _]. exact Hc.
  - clear H1. unfold clean. induction a as [|c a IH]; [reflexivity|]. cbn [all_c] in H2.
    apply andb_true_iff in H2 as [Hc H2]. unfold okc in Hc. apply andb_true_iff in Hc as [_ Hc].
    apply Ascii.eqb_eq in Hc. cbn [prep]. rewrite Hc, (IH H2). reflexivity.
Qed.

Lemma PT_atom a : name_ok a = true -> PT a (Atom a).
Proof. intro H. destruct (name_ok_atom a H) as [A C]. split; [apply LX_atom; exact A|exact C]. Qed.

Lemma name_ok_q x : name_ok x = true -> name_ok (String "?" x) = true.
Proof.
  unfold name_ok. intro H. apply andb_true_iff in H as [_ H]. cbn [String.eqb negb andb all_c]. rewrite H. reflexivity.
Qed.

(* ---- numeric tokens ---- *)
Definition numch (c : ascii) : bool :=
  match digit_of c with Some _ => true | None => Ascii.eqb c "-" || Ascii.eqb c "." end.

Lemma numch_okc c : numch c = true -> okc c = true.
Proof.
  destruct c as [b0 b1 b2 b3 b4 b5 b6 b7].
  destruct b0, b1, b2, b3, b4, b5, b6, b7; vm_compute; intro H; first [reflexivity|discriminate H].
Qed.

Lemma numch_digit d : (d < 10)%N -> numch (digit_char d) = true.
Proof. intro H. unfold numch. destruct (digit_ok d H) as [D _]. rewrite D. reflexivity. Qed.

Lemma numch_show_N_fuel fuel : forall n acc, all_c numch acc = true -> all_c numch (show_N_fuel fuel n acc) = true.
Proof.
  induction fuel as [|f IH]; intros n acc H; cbn [show_N_fuel]; [exact H|].
  assert (all_c numch (String (digit_char (n mod 10)) acc) = true) as H'.
  { cbn [all_c]. rewrite numch_digit by (apply N.mod_lt; lia). exact H. }
  destruct (n <? 10)%N; [exact H'|apply IH; exact H'].
Qed.

Lemma numch_frac k : forall r acc, all_c numch acc = true -> all_c numch (frac_digits k r acc) = true.
Proof.
  induction k as [|k IH]; intros r acc H; cbn [frac_digits]; [exact H|]. apply IH. cbn [all_c].
  rewrite numch_digit by (apply N.mod_lt; lia). exact H.
Qed.

Lemma numstr_ok ip X : all_c numch X = true -> all_c numch (show_N ip ++ X) = true /\ show_N ip ++ X <> "".
Proof.
  intro H. split.
  - rewrite all_c_app, H. unfold show_N. rewrite numch_show_N_fuel by reflexivity. reflexivity.
  - destruct (show_N_head ip X) as (d & r & _ & E). rewrite E. discriminate.
Qed.

Lemma name_ok_num (neg : bool) body : all_c numch body = true /\ body <> "" ->
  name_ok (if neg then String "-" body else body) = true.
Proof.
  intros [H Hne]. assert (all_c okc body = true) as Hb by (eapply all_c_impl; [exact numch_okc|exact H]).
  unfold name_ok. destruct neg.
  - cbn [String.eqb negb andb all_c]. rewrite Hb. reflexivity.
  - rewrite Hb. destruct body; [congruence|reflexivity].
Qed.

Lemma name_ok_show_Z z : name_ok (show_Z z) = true.
Proof.
  unfold show_Z. apply (name_ok_num (z <? 0)%Z). rewrite <- (app_empty (show_N _)). apply numstr_ok. reflexivity.
Qed.

Lemma name_ok_show_real q s : show_real q = Some s -> name_ok s = true.
Proof.
  unfold show_real. remember (pow10 16) as P16 eqn:HP. clear HP.
  destruct (find_scale MAX_SCALE 0 (N.pos (Qden (this q)))) as [k|]; [|discriminate].
  match goal with |- context [if ?c then Some _ else None] => destruct c end; [|discriminate].
  intro H. inversion H as [Hs]. clear H Hs.
  apply name_ok_num. destruct k as [|k'].
  - match goal with |- context [if ?c then _ else _] => destruct c end; [apply numstr_ok; reflexivity|].
    rewrite <- (app_empty (show_N _)). apply numstr_ok. reflexivity.
  - apply numstr_ok. cbn [all_c]. change (numch ".") with true. cbn [andb]. apply numch_frac. reflexivity.
Qed.

(* ================================================================== the converter's text is read as [print e] *)
Section Text.
  Variable nm : naming.
  (* names are lexically valid tokens: not empty, no white space, parenthesis, ";", tab or upper-case letter
     (_get_pddl_name lower-cases and replaces every character outside [0-9a-zA-Z_-]) *)
  Hypothesis N_fl : forall f, name_ok (nm_fl nm f) = true.
  Hypothesis N_obj : forall o, name_ok (nm_obj nm o) = true.
  Hypothesis N_par : forall p, name_ok (nm_par nm p) = true.
  Hypothesis N_var : forall v, name_ok (nm_var nm v) = true.
  Hypothesis N_ty : forall t, name_ok (nm_ty nm t) = true.

  Ltac f2 := repeat (first [apply Forall2_nil | apply Forall2_cons | apply Forall_nil | apply Forall_cons]).

  Definition TX (e : expr) : Prop :=
    forall s, print nm e = Some s -> exists t, print_text nm e = Some t /\ PT t s.

  Lemma tx_list l : Forall TX l -> forall ss, sequence (map (print nm) l) = Some ss ->
    exists ts, sequence (map (print_text nm) l) = Some ts /\ Forall2 PT ts ss.
  Proof.
    induction 1 as [|x l Hx Hl IH]; intros ss Hs.
    - cbn in Hs. inversion Hs. exists []. split; [reflexivity|constructor].
    - cbn [map sequence] in Hs. destruct (print nm x) as [s|] eqn:Px; [|discriminate].
      destruct (sequence (map (print nm) l)) as [ss'|] eqn:Pl; [|discriminate]. inversion Hs. subst ss.
      destruct (Hx s Px) as (t & T1 & T2). destruct (IH ss' eq_refl) as (ts & U1 & U2).
      exists (t :: ts). cbn [map sequence]. rewrite T1, U1. split; [reflexivity|constructor; assumption].
  Qed.

  Lemma tx_un op a : name_ok op = true -> TX a ->
    forall s, match print nm a with Some x => Some (SList [Atom op; x]) | None => None end = Some s ->
    exists t, match print_text nm a with Some x => Some (tlist [op; x]) | None => None end = Some t /\ PT t s.
  Proof.
    intros Hop Ha s H. destruct (print nm a) as [x|] eqn:Pa; [|discriminate]. inversion H. subst s.
    destruct (Ha x Pa) as (t & T1 & T2). rewrite T1. eexists; split; [reflexivity|].
    apply PT_tlist. f2; [apply PT_atom; exact Hop|exact T2].
  Qed.

  Lemma tx_bin op a b : name_ok op = true -> TX a -> TX b ->
    forall s, match print nm a, print nm b with Some x, Some y => Some (SList [Atom op; x; y]) | _, _ => None end = Some s ->
    exists t, match print_text nm a, print_text nm b with Some x, Some y => Some (tlist [op; x; y]) | _, _ => None end = Some t
              /\ PT t s.
  Proof.
    intros Hop Ha Hb s H. destruct (print nm a) as [x|] eqn:Pa; [|discriminate].
    destruct (print nm b) as [y|] eqn:Pb; [|discriminate]. inversion H. subst s.
    destruct (Ha x Pa) as (t & T1 & T2). destruct (Hb y Pb) as (u & U1 & U2). rewrite T1, U1.
    eexists; split; [reflexivity|]. apply PT_tlist. f2; [apply PT_atom; exact Hop|exact T2|exact U2].
  Qed.

  Lemma tx_vars vs : Forall2 PT (var_toks nm vs) (print_vars nm vs).
  Proof.
    induction vs as [|[v t] vs IH]; [constructor|]. cbn [var_toks print_vars flat_map app fst snd].
    apply Forall2_cons; [apply PT_atom, name_ok_q, N_var|]. apply Forall2_cons; [apply PT_atom; reflexivity|].
    apply Forall2_cons; [apply PT_atom, N_ty|exact IH].
  Qed.

  Lemma tx_quant op vs a : name_ok op = true -> TX a ->
    forall s, match print nm a with Some x => Some (SList [Atom op; SList (print_vars nm vs); x]) | None => None end = Some s ->
    exists t, match print_text nm a with
              | Some x => Some (tl [(op, " "); (tlist (var_toks nm vs), String nl " "); (x, "")])
              | None => None end = Some t /\ PT t s.
  Proof.
    intros Hop Ha s H. destruct (print nm a) as [x|] eqn:Pa; [|discriminate]. inversion H. subst s.
    destruct (Ha x Pa) as (t & T1 & T2 & T3).
    rewrite T1. eexists; split; [reflexivity|]. destruct (PT_atom op Hop) as [A1 A2].
    destruct (PT_tlist _ _ (tx_vars vs)) as [V1 V2]. split.
    - apply LX_tl; [f2; cbn [fst]; assumption|]. cbn. repeat split; auto; right; discriminate.
    - apply clean_tl. f2; cbn [fst snd]; (split; [assumption|reflexivity]).
  Qed.

  Lemma tx_chain op : name_ok op = true -> forall r sr, Forall2 PT r sr -> forall a sa, PT a sa ->
    PT (fold_left (fun x y => tlist [op; y; x]) r a) (fold_left (fun x y => SList [Atom op; y; x]) sr sa).
  Proof.
    intro Hop. induction 1 as [|y sy r sr Hy Hr IH]; intros a sa Ha; [exact Ha|]. cbn [fold_left]. apply IH.
    apply PT_tlist. f2; [apply PT_atom; exact Hop|exact Hy|exact Ha].
  Qed.

  Lemma F2_two {A B} (R : A -> B -> Prop) ts a b r : Forall2 R ts (a :: b :: r) ->
    exists ta tb tr, ts = ta :: tb :: tr /\ R ta a /\ R tb b /\ Forall2 R tr r.
  Proof.
    intro F. inversion F as [|ta ? ts' ? Ra F']. subst. inversion F' as [|tb ? tr ? Rb F'']. subst.
    exists ta, tb, tr. auto.
  Qed.

  Theorem text_of_print : forall e, TX e.
  Proof.
    induction e using expr_ind'; intros s Hp; cbn [print] in Hp; cbn [print_text]; try discriminate Hp.
    - (* EInt *) inversion Hp. eexists; split; [reflexivity|]. apply PT_atom, name_ok_show_Z.
    - (* EReal *) destruct (show_real q) as [t|] eqn:Hq; [|discriminate]. cbn [option_map] in Hp. inversion Hp.
      eexists; split; [reflexivity|]. apply PT_atom. eapply name_ok_show_real; eauto.
    - (* EObj *) inversion Hp. eexists; split; [reflexivity|]. apply PT_atom, N_obj.
    - (* EParam *) inversion Hp. eexists; split; [reflexivity|]. apply PT_atom, name_ok_q, N_par.
    - (* EVar *) inversion Hp. eexists; split; [reflexivity|]. apply PT_atom, name_ok_q, N_var.
    - (* EFluent *) destruct (sequence (map (print nm) args)) as [ss|] eqn:Q; [|discriminate]. inversion Hp.
      destruct (tx_list _ H ss Q) as (ts & T1 & T2). rewrite T1. eexists; split; [reflexivity|].
      apply PT_tlist. apply Forall2_cons; [apply PT_atom, N_fl|exact T2].
    - (* EAnd *) destruct (sequence (map (print nm) l)) as [ss|] eqn:Q; [|discriminate].
      destruct (tx_list _ H ss Q) as (ts & T1 & T2). rewrite T1. unfold nary in Hp.
      destruct ss as [|a [|b r]]; try discriminate Hp. inversion Hp.
      destruct (F2_two _ _ _ _ _ T2) as (ta & tb & tr & -> & Ra & Rb & Rr). eexists; split; [reflexivity|].
      apply PT_tlist. f2; try assumption. apply PT_atom; reflexivity.
    - (* EOr *) destruct (sequence (map (print nm) l)) as [ss|] eqn:Q; [|discriminate].
      destruct (tx_list _ H ss Q) as (ts & T1 & T2). rewrite T1. unfold nary in Hp.
      destruct ss as [|a [|b r]]; try discriminate Hp. inversion Hp.
      destruct (F2_two _ _ _ _ _ T2) as (ta & tb & tr & -> & Ra & Rb & Rr). eexists; split; [reflexivity|].
      apply PT_tlist. f2; try assumption. apply PT_atom; reflexivity.
    - (* ENot *) apply (tx_un "not"); auto.
    - (* EImplies *) apply (tx_bin "imply"); auto.
    - (* EIff *) destruct (print nm e1) as [x|] eqn:P1; [|discriminate]. destruct (print nm e2) as [y|] eqn:P2; [|discriminate].
      inversion Hp. destruct (IHe1 x P1) as (t & T1 & T2). destruct (IHe2 y P2) as (u & U1 & U2).
      rewrite T1, U1. eexists; split; [reflexivity|].
      assert (PT (tlist ["imply"; t; u]) (SList [Atom "imply"; x; y])) as [I1 I2]
        by (apply PT_tlist; f2; [apply PT_atom; reflexivity|assumption|assumption]).
      assert (PT (tlist ["imply"; u; t]) (SList [Atom "imply"; y; x])) as [J1 J2]
        by (apply PT_tlist; f2; [apply PT_atom; reflexivity|assumption|assumption]).
      destruct (PT_atom "and" eq_refl) as [A1 A2]. split.
      + apply LX_tl; [f2; cbn [fst]; assumption|]. cbn. repeat split; auto; right; discriminate.
      + apply clean_tl. f2; cbn [fst snd]; (split; [assumption|reflexivity]).
    - (* EExists *) apply (tx_quant "exists"); auto.
    - (* EForall *) apply (tx_quant "forall"); auto.
    - (* EPlus *) destruct (sequence (map (print nm) l)) as [ss|] eqn:Q; [|discriminate].
      destruct (tx_list _ H ss Q) as (ts & T1 & T2). rewrite T1. unfold chain in Hp.
      destruct ss as [|a [|b r]]; try discriminate Hp. inversion Hp.
      destruct (F2_two _ _ _ _ _ T2) as (ta & tb & tr & -> & Ra & Rb & Rr). eexists; split; [reflexivity|].
      apply (tx_chain "+" eq_refl (tb :: tr) (b :: r)); [apply Forall2_cons; assumption|exact Ra].
    - (* EMinus *) apply (tx_bin "-"); auto.
    - (* ETimes *) destruct (sequence (map (print nm) l)) as [ss|] eqn:Q; [|discriminate].
      destruct (tx_list _ H ss Q) as (ts & T1 & T2). rewrite T1. unfold chain in Hp.
      destruct ss as [|a [|b r]]; try discriminate Hp. inversion Hp.
      destruct (F2_two _ _ _ _ _ T2) as (ta & tb & tr & -> & Ra & Rb & Rr). eexists; split; [reflexivity|].
      apply (tx_chain "*" eq_refl (tb :: tr) (b :: r)); [apply Forall2_cons; assumption|exact Ra].
    - (* EDiv *) apply (tx_bin "/"); auto.
    - (* ELe *) apply (tx_bin "<="); auto.
    - (* ELt *) apply (tx_bin "<"); auto.
    - (* EEquals *) apply (tx_bin "="); auto.
    - apply (tx_un "always"); auto.
    - apply (tx_un "sometime"); auto.
    - apply (tx_bin "sometime-before"); auto.
    - apply (tx_bin "sometime-after"); auto.
    - apply (tx_un "at-most-once"); auto.
  Qed.

  (* the reader's tokenisation of the converter's text is exactly the S-expression of the structural model *)
  Theorem lex_print_text e s : print nm e = Some s ->
    exists t, print_text nm e = Some t /\ prep t = t /\ lex t = Some s.
  Proof.
    intro H. destruct (text_of_print e s H) as (t & T1 & T2 & T3). exists t. split; [exact T1|].
    split; [exact T3|apply lex_of_LX; exact T2].
  Qed.
End Text.

(* ================================================================== composition with the structural round trip *)
Theorem text_roundtrip (nm : naming) (E : env) :
  (forall f, e_fl E (nm_fl nm f) = Some f) -> (forall f, is_kw (nm_fl nm f) = false) ->
  (forall o, e_obj E (nm_obj nm o) = Some o) -> (forall o, e_fl E (nm_obj nm o) = None) ->
  (forall o, starts_q (nm_obj nm o) = false) -> (forall p, e_par E (nm_par nm p) = Some p) ->
  (forall v, e_var E (nm_var nm v) = Some v) -> (forall p v, nm_par nm p <> nm_var nm v) ->
  (forall t, e_ty E (nm_ty nm t) = Some t) -> (forall t, starts_q (nm_ty nm t) = false) ->
  (forall s q, parse_number s = Some q -> e_fl E s = None /\ e_obj E s = None) ->
  (forall f, name_ok (nm_fl nm f) = true) -> (forall o, name_ok (nm_obj nm o) = true) ->
  (forall p, name_ok (nm_par nm p) = true) -> (forall v, name_ok (nm_var nm v) = true) ->
  (forall t, name_ok (nm_ty nm t) = true) ->
  forall e, pddl_ok [] e = true ->
  exists t, print_text nm e = Some t /\ parse_text E t = Some (norm e).
Proof.
  intros H1 H2 H3 H4 H5 H6 H7 H8 H9 H10 H11 N1 N2 N3 N4 N5 e Hok.
  destruct (roundtrip nm E H1 H2 H3 H4 H5 H6 H7 H8 H9 H10 H11 e Hok) as (s & P1 & P2).
  destruct (lex_print_text nm N1 N2 N3 N4 N5 e s P1) as (t & T1 & T2 & T3).
  exists t. split; [exact T1|]. unfold parse_text. rewrite T2, T3. exact P2.
Qed.

Lemma pref_name_ok c n : okc c = true -> name_ok (pref_nm c n) = true.
Proof.
  intro Hc. unfold name_ok, pref_nm. cbn [String.eqb negb andb all_c]. rewrite Hc. cbn [andb].
  eapply all_c_impl; [exact numch_okc|]. unfold show_N. apply numch_show_N_fuel. reflexivity.
Qed.

Definition ex_text_roundtrip :=
  text_roundtrip ex_nm ex_env (pref_ok "x") (fun f => eq_refl) (pref_ok "b") (fun o => eq_refl) (fun o => eq_refl)
            (pref_ok "p") (pref_ok "v") (fun p v (H : pref_nm "p" p = pref_nm "v" v) => ltac:(discriminate H))
            (pref_ok "t") (fun t => eq_refl) ex_num
            (fun f => pref_name_ok "x" f eq_refl) (fun o => pref_name_ok "b" o eq_refl)
            (fun p => pref_name_ok "p" p eq_refl) (fun v => pref_name_ok "v" v eq_refl)
            (fun t => pref_name_ok "t" t eq_refl).

(* ================================================================== groups whose items may follow each other without a
   blank when the next item starts with a delimiter (the writer's "(and(forall ...") *)
Fixpoint seps_ok2 (items : list (string * string)) : Prop :=
  match items with
  | [] => True
  | (_, w) :: r => ws_str w = true /\ (forall x, dstart x = true -> dstart (w ++ (cat r ++ x)) = true) /\ seps_ok2 r
  end.

Lemma cat_lex2 items ss : Forall2 (fun it s => LX (fst it) s) items ss -> seps_ok2 items ->
  forall top st rest, lex_go top st MWs (cat items ++ String ")" rest) = lex_go (rev ss ++ top) st MWs (String ")" rest).
Proof.
  induction 1 as [|[t w] s items ss Hx Hl IH]; intros Hs top st rest; [reflexivity|].
  cbn [cat fst seps_ok2] in *. destruct Hs as (Hw & Hd & Hs').
  rewrite !app_assoc_s. rewrite Hx by (apply Hd; reflexivity).
  rewrite ws_skip by exact Hw. rewrite IH by exact Hs'. cbn [rev]. rewrite <- app_assoc. reflexivity.
Qed.

Lemma LX_tl2 items ss : Forall2 (fun it s => LX (fst it) s) items ss -> seps_ok2 items -> LX (tl items) (SList ss).
Proof.
  intros F Hs top st rest Hr. unfold tl. cbn [append]. rewrite lex_open, app_assoc_s. cbn [append].
  rewrite (cat_lex2 items ss F Hs), lex_close, app_nil_r, rev_involutive. reflexivity.
Qed.

(* the old, syntactic side condition implies the new one *)
Lemma seps_ok_2 items : seps_ok items -> seps_ok2 items.
Proof.
  induction items as [|[t w] r IH]; [auto|]. cbn [seps_ok seps_ok2]. intros (Hw & Hne & Hr). split; [exact Hw|].
  split; [|apply IH; exact Hr]. intros x Hx. destruct w as [|c w'].
  - destruct Hne as [->|Hne]; [exact Hx|congruence].
  - cbn [ws_str all_c] in Hw. apply andb_true_iff in Hw as [Hc _]. cbn [append dstart]. unfold is_delim. rewrite Hc. reflexivity.
Qed.
