(* Idempotence: the output of the simplifier is in a normal form [nf] on which every node function is the identity. *)
From Coq Require Import List ZArith NArith QArith Qcanon Bool Lia.
Import ListNotations.
Require Import UPV.Core.Expr UPV.Core.Eval UPV.Proofs.Eval_lemmas UPV.Walkers.Simplify UPV.Proofs.Simplify_base
  UPV.Proofs.Simplify_fv UPV.Proofs.Simplify_sound.
Local Open Scope nat_scope.

(* ---------------------------------------------------------------- the normal form *)
Definition is_flat (t : bool) (x : expr) : bool :=
  match x with EPlus _ => negb t | ETimes _ => t | _ => false end.
Definition lit_j (k : bool) (x : expr) : bool :=
  negb (is_boolc x) && match junct_args k x with None => true | Some _ => false end.
(* what a second pass of walk_and / walk_or checks, element by element *)
Fixpoint jcheck (k : bool) (l seen : list expr) : bool :=
  match l with
  | [] => true
  | x :: r => lit_j k x && negb (mem_expr (walk_not x) seen) && negb (mem_expr x seen) && jcheck k r (seen ++ [x])
  end.
Definition jnf (k : bool) (l : list expr) : bool := (2 <=? length l) && jcheck k l [].

Definition lit_a (t : bool) (x : expr) : bool := negb (is_num x) && negb (is_flat t x).
Definition last_ok (t : bool) (c : expr) : bool :=
  match num_of c with Some n => negb (num_is_unit t n) && negb (t && num_is0 n) | None => false end.
Fixpoint acheck (t : bool) (l : list expr) : bool :=
  match l with
  | [] => true
  | [c] => lit_a t c || last_ok t c
  | x :: r => lit_a t x && acheck t r
  end.
Definition anf (t : bool) (l : list expr) : bool := (2 <=? length l) && acheck t l.

Definition is_nil {A} (l : list A) : bool := match l with [] => true | _ => false end.
Definition is_none {A} (o : option A) : bool := match o with None => true | _ => false end.

Fixpoint nf (G : cfg) (e : expr) {struct e} : bool :=
  match e with
  | EBool _ | EInt _ | EReal _ | EObj _ | EParam _ | EVar _ _ => true
  | EFluent f l => forallb (nf G) l && expr_eqb (walk_fluent G f l) e
  | EIFun f l => forallb (nf G) l && expr_eqb (walk_ifun G f l) e
  | EAnd l => forallb (nf G) l && jnf true l
  | EOr l => forallb (nf G) l && jnf false l
  | ENot a => nf G a && expr_eqb (walk_not a) e
  | EImplies a b => nf G a && nf G b && expr_eqb (walk_implies a b) e
  | EIff a b => nf G a && nf G b && expr_eqb (walk_iff a b) e
  | EExists vs a => nf G a && negb (is_nil vs) && vars_eqb (prune G vs a) vs && is_none (elim_step G vs a)
  | EForall vs a => nf G a && negb (is_nil vs) && vars_eqb (prune G vs a) vs
  | EPlus l => forallb (nf G) l && anf false l
  | ETimes l => forallb (nf G) l && anf true l
  | EMinus a b => nf G a && nf G b && expr_eqb (walk_minus a b) e
  | EDiv a b => nf G a && nf G b && expr_eqb (walk_div a b) e
  | ELe a b => nf G a && nf G b && expr_eqb (walk_le a b) e
  | ELt a b => nf G a && nf G b && expr_eqb (walk_lt a b) e
  | EEquals a b => nf G a && nf G b && expr_eqb (walk_equals G a b) e
  | EAlways a => nf G a && expr_eqb (walk_always a) e
  | ESometime a => nf G a && expr_eqb (walk_sometime a) e
  | ESometimeBefore a b => nf G a && nf G b && expr_eqb (walk_sometime_before a b) e
  | ESometimeAfter a b => nf G a && nf G b && expr_eqb (walk_sometime_after a b) e
  | EAtMostOnce a => nf G a && expr_eqb (walk_at_most_once a) e
  end.

Section NF.
  Variable G : cfg.
  Hypothesis HG : cfg_consts G.
  Notation nfG := (nf G).

  Lemma nf_const c : is_const c = true -> nfG c = true.
  Proof. destruct c; simpl; congruence. Qed.
  Lemma nf_num n : nfG (num_expr n) = true. Proof. destruct n; reflexivity. Qed.

  (* ---------------------------------------------------------------- walk_and / walk_or: second pass *)
  Lemma lit_j_spec k x : lit_j k x = true -> is_unit k x = false /\ is_zero k x = false /\ junct_args k x = None.
  Proof.
    unfold lit_j. rewrite andb_true_iff, negb_true_iff. intros [A B].
    destruct (junct_args k x); [discriminate|]. destruct x; simpl in *; try discriminate; auto.
  Qed.

  Lemma jcheck_stable k l : forall seen, jcheck k l seen = true -> j_outer k l seen = Some (seen ++ l).
  Proof.
    induction l as [|x r IH]; intros seen H; cbn [jcheck j_outer] in *.
    - rewrite app_nil_r. reflexivity.
    - rewrite !andb_true_iff, !negb_true_iff in H. destruct H as [[[L M1] M2] C].
      destruct (lit_j_spec _ _ L) as (U & Z & J). rewrite U, Z, J, M1.
      unfold add_key. rewrite M2. rewrite (IH _ C), <- app_assoc. reflexivity.
  Qed.

  Lemma jcheck_snoc k l : forall seen s,
    jcheck k (l ++ [s]) seen =
    jcheck k l seen && (lit_j k s && negb (mem_expr (walk_not s) (seen ++ l)) && negb (mem_expr s (seen ++ l))).
  Proof.
    induction l as [|x r IH]; intros seen s; cbn [app jcheck].
    - rewrite app_nil_r, andb_true_r. reflexivity.
    - rewrite IH, <- app_assoc. cbn [app]. rewrite !andb_assoc. reflexivity.
  Qed.

  Lemma jcheck_lit k l : forall seen, jcheck k l seen = true -> Forall (fun x => lit_j k x = true) l.
  Proof.
    induction l as [|x r IH]; intros seen H; [constructor|]. cbn [jcheck] in H.
    rewrite !andb_true_iff in H. destruct H as [[[L _] _] C]. constructor; [exact L|eapply IH; eauto].
  Qed.

  Lemma jnf_stable k l : jnf k l = true -> walk_junct k l = (if k then EAnd l else EOr l).
  Proof.
    unfold jnf. rewrite andb_true_iff. intros [Hlen C].
    assert (Gen : walk_junct_gen k l = (if k then EAnd l else EOr l)).
    { unfold walk_junct_gen. rewrite (jcheck_stable _ _ _ C). cbn [app].
      destruct l as [|a [|b r]]; try discriminate. destruct k; reflexivity. }
    unfold walk_junct. destruct l as [|a [|b [|c r]]]; try exact Gen.
    destruct (expr_eqb a b) eqn:E; [|exact Gen]. apply expr_eqb_eq in E. subst b.
    cbn [jcheck app] in C. rewrite !andb_true_iff, !negb_true_iff in C. destruct C as [_ [[[_ _] M] _]].
    simpl in M. rewrite expr_eqb_refl in M. discriminate.
  Qed.

  (* ---------------------------------------------------------------- walk_and / walk_or: first pass *)
  Lemma add_step k s seen :
    jcheck k seen [] = true -> lit_j k s = true -> mem_expr (walk_not s) seen = false -> jcheck k (add_key s seen) [] = true.
  Proof.
    intros C L M. unfold add_key. destruct (mem_expr s seen) eqn:M2; [exact C|].
    rewrite jcheck_snoc. cbn [app]. rewrite C, L, M, M2. reflexivity.
  Qed.

  Lemma j_inner_nf k ss : forall seen out,
    jcheck k seen [] = true -> Forall (fun x => lit_j k x = true) ss -> j_inner ss seen = Some out -> jcheck k out [] = true.
  Proof.
    induction ss as [|s ss IH]; intros seen out C L H; cbn [j_inner] in H.
    - inversion H; subst. exact C.
    - inversion L; subst. destruct (mem_expr (walk_not s) seen) eqn:M; [discriminate|].
      eapply IH; [|eassumption|exact H]. apply add_step; assumption.
  Qed.

  Lemma nf_junct_child k a ss : junct_args k a = Some ss -> nfG a = true -> forallb nfG ss = true /\ jcheck k ss [] = true.
  Proof.
    destruct a; simpl; try discriminate; destruct k; try discriminate; intros E; inversion E; subst;
      rewrite andb_true_iff; unfold jnf; rewrite andb_true_iff; tauto.
  Qed.

  Lemma j_outer_nf k args : forall seen out,
    jcheck k seen [] = true -> forallb nfG args = true -> j_outer k args seen = Some out -> jcheck k out [] = true.
  Proof.
    induction args as [|a args IH]; intros seen out C N H; cbn [j_outer] in H.
    - inversion H; subst. exact C.
    - cbn [forallb] in N. apply andb_true_iff in N. destruct N as [Na Nr].
      destruct (is_unit k a) eqn:U; [eapply IH; eauto|].
      destruct (is_zero k a) eqn:Z; [discriminate|].
      destruct (junct_args k a) as [ss|] eqn:J.
      + destruct (j_inner ss seen) as [seen'|] eqn:I; [|discriminate].
        destruct (nf_junct_child _ _ _ J Na) as [_ Cs].
        eapply IH; [|exact Nr|exact H]. eapply j_inner_nf; [exact C| |exact I]. eapply jcheck_lit; eauto.
      + destruct (mem_expr (walk_not a) seen) eqn:M; [discriminate|].
        eapply IH; [|exact Nr|exact H]. apply add_step; [exact C| |exact M].
        unfold lit_j. rewrite J, andb_true_r. destruct a; simpl in *; try reflexivity.
        destruct b, k; simpl in *; congruence.
  Qed.

  Lemma nf_jitems k args : forallb nfG args = true -> forallb nfG (jitems k args) = true.
  Proof.
    induction args as [|a l IH]; intros H; [reflexivity|]. cbn [forallb] in H. apply andb_true_iff in H. destruct H as [Ha Hl].
    cbn [jitems flat_map]. fold (jitems k l). rewrite forallb_app, (IH Hl), andb_true_r.
    destruct (junct_args k a) as [ss|] eqn:J; [apply (nf_junct_child _ _ _ J Ha)|]. cbn. rewrite Ha. reflexivity.
  Qed.

  Lemma nf_mkJ k l : forallb nfG l = true -> jcheck k l [] = true -> nfG (mkJ k l) = true.
  Proof.
    intros N C. destruct l as [|a [|b r]].
    - destruct k; reflexivity.
    - cbn in N. rewrite andb_true_r in N. destruct k; exact N.
    - assert (J : jnf k (a :: b :: r) = true) by (unfold jnf; rewrite C; reflexivity).
      destruct k; cbn [mkJ mkAnd mkOr nf]; rewrite N, J; reflexivity.
  Qed.

  Lemma forallb_incl_nf (l l' : list expr) : incl l l' -> forallb nfG l' = true -> forallb nfG l = true.
  Proof. intros HI H. rewrite forallb_forall in *. intros x Hx. apply H, HI, Hx. Qed.

  Lemma nf_walk_junct k args : forallb nfG args = true -> nfG (walk_junct k args) = true.
  Proof.
    intros N.
    assert (Gen : nfG (walk_junct_gen k args) = true).
    { unfold walk_junct_gen. destruct (j_outer k args []) as [keys|] eqn:J; [|reflexivity].
      apply nf_mkJ.
      - eapply forallb_incl_nf; [apply (j_outer_sub _ _ _ _ J)|]. cbn [app]. apply nf_jitems. exact N.
      - exact (j_outer_nf k args [] keys eq_refl N J). }
    unfold walk_junct. destruct args as [|a [|b [|c r]]]; try exact Gen.
    destruct (expr_eqb a b); [|exact Gen]. cbn in N. apply andb_true_iff in N. tauto.
  Qed.

  (* ---------------------------------------------------------------- walk_plus / walk_times: second pass *)
  Lemma flat1_id t l : Forall (fun x => is_flat t x = false) l -> flat1 t l = l.
  Proof.
    induction 1 as [|x l Hx _ IH]; [reflexivity|]. cbn [flat1 flat_map]. fold (flat1 t l). rewrite IH.
    destruct x; try reflexivity; destruct t; simpl in Hx; try discriminate; reflexivity.
  Qed.

  Lemma last_ok_num t c : last_ok t c = true -> exists n, c = num_expr n /\ num_is_unit t n = false /\ (t && num_is0 n = false).
  Proof.
    unfold last_ok. destruct (num_of c) as [n|] eqn:E; [|discriminate].
    rewrite andb_true_iff, !negb_true_iff. intros [A B]. exists n. split; [apply num_of_expr; exact E|auto].
  Qed.

  Lemma lit_a_spec t x : lit_a t x = true -> is_num x = false /\ is_flat t x = false.
  Proof. unfold lit_a. rewrite andb_true_iff, !negb_true_iff. auto. Qed.

  Lemma acheck_shape t l : acheck t l = true ->
    (Forall (fun x => lit_a t x = true) l) \/
    (exists ncs n, l = ncs ++ [num_expr n] /\ Forall (fun x => lit_a t x = true) ncs /\
                   num_is_unit t n = false /\ (t && num_is0 n = false)).
  Proof.
    induction l as [|x r IH]; intros H; [left; constructor|].
    destruct r as [|y r'].
    - cbn [acheck] in H. apply orb_true_iff in H. destruct H as [H|H].
      + left. constructor; [exact H|constructor].
      + right. destruct (last_ok_num _ _ H) as [n [-> [A B]]]. exists [], n. split; [reflexivity|]. split; [constructor|auto].
    - change (acheck t (x :: y :: r')) with (lit_a t x && acheck t (y :: r')) in H.
      apply andb_true_iff in H. destruct H as [Hx Hr]. destruct (IH Hr) as [F|[ncs [n [E [F [A B]]]]]].
      + left. constructor; assumption.
      + right. exists (x :: ncs), n. split; [cbn [app]; rewrite E; reflexivity|]. split; [constructor; assumption|auto].
  Qed.

  Lemma consts_lit t l : Forall (fun x => lit_a t x = true) l -> consts_of l = [] /\ nonconsts_of l = l.
  Proof.
    induction 1 as [|x l Hx _ [IH1 IH2]]; [split; reflexivity|]. destruct (lit_a_spec _ _ Hx) as [A _].
    cbn [consts_of nonconsts_of flat_map filter]. fold (consts_of l). fold (nonconsts_of l).
    apply num_of_none in A as A'. rewrite A', A, IH1, IH2. split; reflexivity.
  Qed.

  Lemma consts_app l1 l2 : consts_of (l1 ++ l2) = consts_of l1 ++ consts_of l2.
  Proof. unfold consts_of. apply flat_map_app. Qed.
  Lemma nonconsts_app l1 l2 : nonconsts_of (l1 ++ l2) = nonconsts_of l1 ++ nonconsts_of l2.
  Proof. unfold nonconsts_of. apply filter_app. Qed.

  Lemma num_op_unit_l t n : num_op t (num_unit t) n = n.
  Proof.
    destruct t, n; unfold num_op, num_unit, num_mul, num_add; cbn [nval].
    - rewrite Z.mul_1_l. reflexivity.
    - f_equal. change (zq 1) with 1%Qc. ring.
    - reflexivity.
    - f_equal. change (zq 0) with 0%Qc. ring.
  Qed.

  Lemma num_is_unit_unit t : num_is_unit t (num_unit t) = true.
  Proof. destruct t; reflexivity. Qed.

  Lemma anf_stable t l : anf t l = true -> walk_arith t l = (if t then ETimes l else EPlus l).
  Proof.
    unfold anf. rewrite andb_true_iff. intros [Hlen C].
    assert (Hm : mkA t l = (if t then ETimes l else EPlus l)).
    { destruct l as [|a [|b r]]; try discriminate. destruct t; reflexivity. }
    unfold walk_arith. cbv zeta. destruct (acheck_shape _ _ C) as [F|[ncs [n [E [F [A B]]]]]].
    - rewrite flat1_id by (eapply Forall_impl; [|exact F]; intros x Hx; apply (lit_a_spec _ _ Hx)).
      destruct (consts_lit _ _ F) as [E1 E2]. rewrite E1, E2. cbn [existsb fold_left]. rewrite andb_false_r, num_is_unit_unit. exact Hm.
    - assert (Fl : Forall (fun x => is_flat t x = false) l).
      { rewrite E. apply Forall_app. split.
        - eapply Forall_impl; [|exact F]. intros x Hx. apply (lit_a_spec _ _ Hx).
        - constructor; [|constructor]. destruct n, t; reflexivity. }
      rewrite (flat1_id _ _ Fl). destruct (consts_lit _ _ F) as [E1 E2].
      assert (In' : is_num (num_expr n) = true) by (destruct n; reflexivity).
      assert (Ec : consts_of l = [n]).
      { rewrite E, consts_app, E1. cbn [consts_of flat_map app]. rewrite num_of_num_expr. reflexivity. }
      assert (En : nonconsts_of l = ncs).
      { rewrite E, nonconsts_app, E2. cbn [nonconsts_of filter]. rewrite In'. cbn [negb]. apply app_nil_r. }
      rewrite Ec, En. cbn [existsb fold_left]. rewrite orb_false_r, B, num_op_unit_l, A, <- E. exact Hm.
  Qed.

  (* ---------------------------------------------------------------- walk_plus / walk_times: first pass *)
  Lemma acheck_all_lit t l : Forall (fun x => lit_a t x = true) l -> acheck t l = true.
  Proof.
    induction 1 as [|x l Hx _ IH]; [reflexivity|]. destruct l as [|y r].
    - cbn [acheck]. rewrite Hx. reflexivity.
    - change (acheck t (x :: y :: r)) with (lit_a t x && acheck t (y :: r)). rewrite Hx, IH. reflexivity.
  Qed.

  Lemma acheck_snoc t l c : Forall (fun x => lit_a t x = true) l -> last_ok t c = true -> acheck t (l ++ [c]) = true.
  Proof.
    induction 1 as [|x l Hx _ IH]; intros Hc.
    - cbn [app acheck]. rewrite Hc. apply orb_true_r.
    - cbn [app]. destruct (l ++ [c]) as [|y r] eqn:E; [destruct l; discriminate|].
      change (acheck t (x :: y :: r)) with (lit_a t x && acheck t (y :: r)). rewrite Hx. cbn [andb]. apply IH. exact Hc.
  Qed.

  Lemma acheck_nonflat t l : acheck t l = true -> Forall (fun x => is_flat t x = false) l.
  Proof.
    intros C. destruct (acheck_shape _ _ C) as [F|[ncs [n [E [F [A B]]]]]].
    - eapply Forall_impl; [|exact F]. intros x Hx. apply (lit_a_spec _ _ Hx).
    - rewrite E. apply Forall_app. split.
      + eapply Forall_impl; [|exact F]. intros x Hx. apply (lit_a_spec _ _ Hx).
      + constructor; [|constructor]. destruct n, t; reflexivity.
  Qed.

  Lemma flat1_nf t args : forallb nfG args = true ->
    forallb nfG (flat1 t args) = true /\ Forall (fun x => is_flat t x = false) (flat1 t args).
  Proof.
    induction args as [|a l IH]; intros H; [split; [reflexivity|constructor]|].
    cbn [forallb] in H. apply andb_true_iff in H. destruct H as [Ha Hl]. destruct (IH Hl) as [I1 I2].
    cbn [flat1 flat_map]. fold (flat1 t l). rewrite forallb_app, I1, andb_true_r.
    assert (D : is_flat t a = false -> forallb nfG [a] = true /\ Forall (fun x => is_flat t x = false) ([a] ++ flat1 t l)).
    { intros Hf. split; [cbn; rewrite Ha; reflexivity|]. constructor; assumption. }
    destruct a; try (apply D; reflexivity); destruct t; try (apply D; reflexivity).
    - cbn [nf] in Ha. apply andb_true_iff in Ha. destruct Ha as [N A]. unfold anf in A. apply andb_true_iff in A.
      split; [exact N|]. apply Forall_app. split; [apply acheck_nonflat; tauto|exact I2].
    - cbn [nf] in Ha. apply andb_true_iff in Ha. destruct Ha as [N A]. unfold anf in A. apply andb_true_iff in A.
      split; [exact N|]. apply Forall_app. split; [apply acheck_nonflat; tauto|exact I2].
  Qed.

  Lemma nf_mkA t l : forallb nfG l = true -> acheck t l = true -> nfG (mkA t l) = true.
  Proof.
    intros N C. destruct l as [|a [|b r]].
    - destruct t; reflexivity.
    - cbn in N. rewrite andb_true_r in N. destruct t; exact N.
    - assert (J : anf t (a :: b :: r) = true) by (unfold anf; rewrite C; reflexivity).
      destruct t; cbn [mkA mkTimes mkPlus nf]; rewrite N, J; reflexivity.
  Qed.

  Lemma num_is0_mul a b : num_is0 (num_mul a b) = num_is0 a || num_is0 b.
  Proof.
    apply eq_true_iff_eq. rewrite orb_true_iff, !num_is0_spec, nval_mul. change (zq 0) with 0%Qc. split.
    - apply Qcmult_integral.
    - intros [-> | ->]; ring.
  Qed.

  Lemma fold_mul_nonzero cs : forall a, num_is0 a = false -> existsb num_is0 cs = false ->
    num_is0 (fold_left num_mul cs a) = false.
  Proof.
    induction cs as [|c cs IH]; intros a Ha H; [exact Ha|]. cbn [existsb fold_left] in *.
    apply orb_false_iff in H. destruct H as [Hc Hr]. apply IH; [|exact Hr]. rewrite num_is0_mul, Ha, Hc. reflexivity.
  Qed.

  Lemma nf_walk_arith t args : forallb nfG args = true -> nfG (walk_arith t args) = true.
  Proof.
    intros N. destruct (flat1_nf t args N) as [N1 F1]. unfold walk_arith.
    destruct (t && existsb num_is0 (consts_of (flat1 t args))) eqn:Z; [reflexivity|].
    assert (Nn : forallb nfG (nonconsts_of (flat1 t args)) = true).
    { eapply forallb_incl_nf; [apply incl_filter|exact N1]. }
    assert (Ln : Forall (fun x => lit_a t x = true) (nonconsts_of (flat1 t args))).
    { apply Forall_forall. intros x Hx. apply filter_In in Hx. destruct Hx as [Hx Hn].
      rewrite Forall_forall in F1. unfold lit_a. rewrite Hn, (F1 x Hx). reflexivity. }
    destruct (num_is_unit t (fold_left (num_op t) (consts_of (flat1 t args)) (num_unit t))) eqn:U.
    - apply nf_mkA; [exact Nn|apply acheck_all_lit; exact Ln].
    - apply nf_mkA.
      + rewrite forallb_app, Nn. cbn. rewrite nf_num. reflexivity.
      + apply acheck_snoc; [exact Ln|]. unfold last_ok. rewrite num_of_num_expr, U. simpl.
        destruct t; [|reflexivity]. simpl in Z. simpl. rewrite fold_mul_nonzero; [reflexivity|reflexivity|exact Z].
  Qed.

  (* ---------------------------------------------------------------- the simple node functions *)
  Lemma nf_ENot_inv a : nfG (ENot a) = true -> nfG a = true.
  Proof. cbn [nf]. rewrite andb_true_iff. tauto. Qed.

  Lemma nf_ENot_intro a : nfG a = true -> walk_not a = ENot a -> nfG (ENot a) = true.
  Proof. intros H E. cbn [nf]. rewrite H, E. apply expr_eqb_refl. Qed.

  Lemma nf_walk_not c : nfG c = true -> nfG (walk_not c) = true.
  Proof.
    intros N. destruct c; cbn [walk_not]; try reflexivity; try (apply nf_ENot_intro; [exact N|reflexivity]).
    apply nf_ENot_inv. exact N.
  Qed.

  Lemma nf_mkNot a : nfG a = true -> as_boolc a = None -> nfG (mkNot a) = true.
  Proof.
    intros N B. destruct a; cbn [mkNot]; try discriminate; try (apply nf_ENot_intro; [exact N|reflexivity]).
    apply nf_ENot_inv. exact N.
  Qed.

  Lemma nf_EIff_intro a b : nfG a = true -> nfG b = true -> walk_iff a b = EIff a b -> nfG (EIff a b) = true.
  Proof. intros Ha Hb E; cbn [nf]; rewrite Ha, Hb, E; apply expr_eqb_refl. Qed.
  Lemma nf_EImplies_intro a b : nfG a = true -> nfG b = true -> walk_implies a b = EImplies a b -> nfG (EImplies a b) = true.
  Proof. intros Ha Hb E; cbn [nf]; rewrite Ha, Hb, E; apply expr_eqb_refl. Qed.
  Lemma nf_EMinus_intro a b : nfG a = true -> nfG b = true -> walk_minus a b = EMinus a b -> nfG (EMinus a b) = true.
  Proof. intros Ha Hb E; cbn [nf]; rewrite Ha, Hb, E; apply expr_eqb_refl. Qed.
  Lemma nf_EDiv_intro a b : nfG a = true -> nfG b = true -> walk_div a b = EDiv a b -> nfG (EDiv a b) = true.
  Proof. intros Ha Hb E; cbn [nf]; rewrite Ha, Hb, E; apply expr_eqb_refl. Qed.
  Lemma nf_ELe_intro a b : nfG a = true -> nfG b = true -> walk_le a b = ELe a b -> nfG (ELe a b) = true.
  Proof. intros Ha Hb E; cbn [nf]; rewrite Ha, Hb, E; apply expr_eqb_refl. Qed.
  Lemma nf_ELt_intro a b : nfG a = true -> nfG b = true -> walk_lt a b = ELt a b -> nfG (ELt a b) = true.
  Proof. intros Ha Hb E; cbn [nf]; rewrite Ha, Hb, E; apply expr_eqb_refl. Qed.
  Lemma nf_EEquals_intro a b : nfG a = true -> nfG b = true -> walk_equals G a b = EEquals a b -> nfG (EEquals a b) = true.
  Proof. intros Ha Hb E; cbn [nf]; rewrite Ha, Hb, E; apply expr_eqb_refl. Qed.
  Lemma nf_ESB_intro a b : nfG a = true -> nfG b = true -> walk_sometime_before a b = ESometimeBefore a b -> nfG (ESometimeBefore a b) = true.
  Proof. intros Ha Hb E; cbn [nf]; rewrite Ha, Hb, E; apply expr_eqb_refl. Qed.
  Lemma nf_ESA_intro a b : nfG a = true -> nfG b = true -> walk_sometime_after a b = ESometimeAfter a b -> nfG (ESometimeAfter a b) = true.
  Proof. intros Ha Hb E; cbn [nf]; rewrite Ha, Hb, E; apply expr_eqb_refl. Qed.
  Lemma nf_EAlways_intro a : nfG a = true -> walk_always a = EAlways a -> nfG (EAlways a) = true.
  Proof. intros Ha E; cbn [nf]; rewrite Ha, E; apply expr_eqb_refl. Qed.
  Lemma nf_ESometime_intro a : nfG a = true -> walk_sometime a = ESometime a -> nfG (ESometime a) = true.
  Proof. intros Ha E; cbn [nf]; rewrite Ha, E; apply expr_eqb_refl. Qed.
  Lemma nf_EAMO_intro a : nfG a = true -> walk_at_most_once a = EAtMostOnce a -> nfG (EAtMostOnce a) = true.
  Proof. intros Ha E; cbn [nf]; rewrite Ha, E; apply expr_eqb_refl. Qed.

  Lemma nf_walk_iff a b : nfG a = true -> nfG b = true -> nfG (walk_iff a b) = true.
  Proof.
    intros Na Nb. unfold walk_iff at 1. destruct (as_boolc a) as [[|]|] eqn:A, (as_boolc b) as [[|]|] eqn:B;
      try reflexivity; try assumption; try (apply nf_mkNot; assumption).
    destruct (expr_eqb a b) eqn:Q; [reflexivity|]. apply nf_EIff_intro; auto. unfold walk_iff. rewrite A, B, Q. reflexivity.
  Qed.

  Lemma nf_walk_implies a b : nfG a = true -> nfG b = true -> nfG (walk_implies a b) = true.
  Proof.
    intros Na Nb. unfold walk_implies at 1. destruct (as_boolc a) as [[|]|] eqn:A, (as_boolc b) as [[|]|] eqn:B;
      try reflexivity; try assumption; try (apply nf_mkNot; assumption).
    destruct (expr_eqb a b) eqn:Q; [reflexivity|]. apply nf_EImplies_intro; auto. unfold walk_implies. rewrite A, B, Q. reflexivity.
  Qed.

  Lemma nf_walk_minus a b : nfG a = true -> nfG b = true -> nfG (walk_minus a b) = true.
  Proof.
    intros Na Nb. unfold walk_minus at 1. destruct (num_of a) as [x|] eqn:A, (num_of b) as [y|] eqn:B.
    - apply nf_num.
    - apply nf_EMinus_intro; auto. unfold walk_minus. rewrite A, B. reflexivity.
    - destruct (num_isneg y) eqn:Ng.
      + apply nf_walk_arith. cbn. rewrite Na, nf_num. reflexivity.
      + apply nf_EMinus_intro; auto. unfold walk_minus. rewrite A, B, Ng. reflexivity.
    - apply nf_EMinus_intro; auto. unfold walk_minus. rewrite A, B. reflexivity.
  Qed.

  Lemma walk_div_cases a b : (is_const (walk_div a b) = true) \/ walk_div a b = EDiv a b.
  Proof.
    unfold walk_div. destruct (num_of a) as [[x|x]|], (num_of b) as [[y|y]|]; try (right; reflexivity);
      repeat match goal with |- context [if ?c then _ else _] => destruct c end; try (right; reflexivity); left; reflexivity.
  Qed.
  Lemma nf_walk_div a b : nfG a = true -> nfG b = true -> nfG (walk_div a b) = true.
  Proof.
    intros Na Nb. destruct (walk_div_cases a b) as [C|E]; [apply nf_const; exact C|].
    rewrite E. apply nf_EDiv_intro; auto.
  Qed.

  Lemma walk_le_cases a b : (is_const (walk_le a b) = true) \/ walk_le a b = ELe a b.
  Proof. unfold walk_le. destruct (num_of a), (num_of b); try (right; reflexivity). left; reflexivity. Qed.
  Lemma nf_walk_le a b : nfG a = true -> nfG b = true -> nfG (walk_le a b) = true.
  Proof.
    intros Na Nb. destruct (walk_le_cases a b) as [C|E]; [apply nf_const; exact C|]. rewrite E. apply nf_ELe_intro; auto.
  Qed.
  Lemma walk_lt_cases a b : (is_const (walk_lt a b) = true) \/ walk_lt a b = ELt a b.
  Proof. unfold walk_lt. destruct (num_of a), (num_of b); try (right; reflexivity). left; reflexivity. Qed.
  Lemma nf_walk_lt a b : nfG a = true -> nfG b = true -> nfG (walk_lt a b) = true.
  Proof.
    intros Na Nb. destruct (walk_lt_cases a b) as [C|E]; [apply nf_const; exact C|]. rewrite E. apply nf_ELt_intro; auto.
  Qed.

  Lemma walk_equals_cases a b : (exists c, walk_equals G a b = EBool c) \/ walk_equals G a b = EEquals a b.
  Proof.
    unfold walk_equals. destruct (is_const a && is_const b); [left; eauto|].
    destruct (expr_eqb a b); [left; eauto|].
    destruct (user_type_of G a), (user_type_of G b); try (right; reflexivity).
    destruct (negb _ && negb _); [left; eauto|right; reflexivity].
  Qed.
  Lemma nf_walk_equals a b : nfG a = true -> nfG b = true -> nfG (walk_equals G a b) = true.
  Proof.
    intros Na Nb. destruct (walk_equals_cases a b) as [[c E]|E]; rewrite E; [reflexivity|]. apply nf_EEquals_intro; auto.
  Qed.

  Lemma nf_walk_fluent f l : forallb nfG l = true -> nfG (walk_fluent G f l) = true.
  Proof.
    intros N. destruct HG as [HS _].
    assert (D : walk_fluent G f l = EFluent f l -> nfG (walk_fluent G f l) = true).
    { intros E. rewrite E. cbn [nf]. rewrite N, E. apply expr_eqb_refl. }
    unfold walk_fluent at 1. unfold walk_fluent in D. destruct (forallb is_const l); [|apply D; reflexivity].
    destruct (stat G f l) as [c|] eqn:S; [apply nf_const; eapply HS; eauto|apply D; reflexivity].
  Qed.
  Lemma nf_walk_ifun f l : forallb nfG l = true -> nfG (walk_ifun G f l) = true.
  Proof.
    intros N. destruct HG as [_ HS].
    assert (D : walk_ifun G f l = EIFun f l -> nfG (walk_ifun G f l) = true).
    { intros E. rewrite E. cbn [nf]. rewrite N, E. apply expr_eqb_refl. }
    unfold walk_ifun at 1. unfold walk_ifun in D. destruct (forallb is_const l); [|apply D; reflexivity].
    destruct (itab G f l) as [c|] eqn:S; [apply nf_const; eapply HS; eauto|apply D; reflexivity].
  Qed.

  Lemma nf_traj :
    (forall a, nfG a = true -> nfG (walk_always a) = true) /\
    (forall a, nfG a = true -> nfG (walk_sometime a) = true) /\
    (forall a, nfG a = true -> nfG (walk_at_most_once a) = true) /\
    (forall a b, nfG a = true -> nfG b = true -> nfG (walk_sometime_before a b) = true) /\
    (forall a b, nfG a = true -> nfG b = true -> nfG (walk_sometime_after a b) = true).
  Proof.
    repeat split; intros.
    - unfold walk_always at 1. destruct (is_true a) eqn:T; [reflexivity|]. destruct (is_false a) eqn:F; [reflexivity|].
      apply nf_EAlways_intro; auto. unfold walk_always. rewrite T, F. reflexivity.
    - unfold walk_sometime at 1. destruct (is_true a) eqn:T; [reflexivity|]. destruct (is_false a) eqn:F; [reflexivity|].
      apply nf_ESometime_intro; auto. unfold walk_sometime. rewrite T, F. reflexivity.
    - unfold walk_at_most_once at 1. destruct (is_true a || is_false a) eqn:T; [reflexivity|].
      apply nf_EAMO_intro; auto. unfold walk_at_most_once. rewrite T. reflexivity.
    - unfold walk_sometime_before at 1. destruct (is_false a) eqn:F; [reflexivity|]. destruct (is_true a) eqn:T; [reflexivity|].
      apply nf_ESB_intro; auto. unfold walk_sometime_before. rewrite T, F. reflexivity.
    - unfold walk_sometime_after at 1. destruct (is_false a) eqn:F; [reflexivity|].
      destruct (is_true a && is_true b) eqn:T1; [reflexivity|]. destruct (is_true a && is_false b) eqn:T2; [reflexivity|].
      apply nf_ESA_intro; auto. unfold walk_sometime_after. rewrite F, T1, T2. reflexivity.
  Qed.

  (* ---------------------------------------------------------------- quantifiers *)
  Lemma prune_idem vs b : prune G (prune G vs b) b = prune G vs b.
  Proof.
    unfold prune. induction vs as [|p r IH]; [reflexivity|]. cbn [filter].
    destruct (memN (fst p) (free_vars b) || empty_ty G (snd p)) eqn:M; [cbn [filter]; rewrite M, IH; reflexivity|exact IH].
  Qed.

  Lemma vars_eqb_refl vs : vars_eqb vs vs = true.
  Proof. apply vars_eqb_eq. reflexivity. Qed.

  Lemma nf_walk_forall vs b : nfG b = true -> nfG (walk_forall G vs b) = true.
  Proof.
    intros N. unfold walk_forall. destruct (prune G vs b) as [|p r] eqn:P; [exact N|].
    cbn [mkForall nf]. rewrite N, <- P, prune_idem, vars_eqb_refl, P. reflexivity.
  Qed.

  Lemma nf_walk_exists_noelim vs b :
    nfG b = true -> elim_step G (prune G vs b) b = None -> nfG (mkExists (prune G vs b) b) = true.
  Proof.
    intros N E. destruct (prune G vs b) as [|p r] eqn:P; [exact N|].
    cbn [mkExists nf]. rewrite N, E, <- P, prune_idem, vars_eqb_refl, P. reflexivity.
  Qed.

  (* ---------------------------------------------------------------- a normal form is a fixed point *)
  Lemma map_id_Forall (f : expr -> expr) l : Forall (fun x => f x = x) l -> map f l = l.
  Proof. induction 1 as [|x l Hx _ IH]; [reflexivity|]. cbn. rewrite Hx, IH. reflexivity. Qed.

  Lemma nf_fix_list m l :
    Forall (fun e => nfG e = true -> simp G m e = e /\ simp_ok G m e = true) l -> forallb nfG l = true ->
    map (simp G m) l = l /\ forallb (simp_ok G m) l = true.
  Proof.
    induction 1 as [|x l Hx _ IH]; intros N; [split; reflexivity|]. cbn [forallb] in N. apply andb_true_iff in N.
    destruct N as [Nx Nl]. destruct (Hx Nx) as [E1 O1]. destruct (IH Nl) as [E2 O2]. cbn [map forallb].
    rewrite E1, E2, O1, O2. split; reflexivity.
  Qed.

  Lemma nf_fix m : forall e, nfG e = true -> simp G m e = e /\ simp_ok G m e = true.
  Proof.
    induction e using expr_ind'; intros N; autorewrite with simp_unfold ok_unfold; try (split; reflexivity);
      cbn [nf] in N; rewrite ?andb_true_iff in N.
    - destruct N as [Nl Ns]. destruct (nf_fix_list m _ H Nl) as [El Ok]. rewrite El, Ok.
      split; [apply expr_eqb_eq; exact Ns|reflexivity].
    - destruct N as [Nl Ns]. destruct (nf_fix_list m _ H Nl) as [El Ok]. rewrite El, Ok.
      split; [apply expr_eqb_eq; exact Ns|reflexivity].
    - destruct N as [Nl Ns]. destruct (nf_fix_list m _ H Nl) as [El Ok]. rewrite El, Ok.
      split; [apply (jnf_stable true); exact Ns|reflexivity].
    - destruct N as [Nl Ns]. destruct (nf_fix_list m _ H Nl) as [El Ok]. rewrite El, Ok.
      split; [apply (jnf_stable false); exact Ns|reflexivity].
    - destruct N as [Na Ns]. destruct (IHe Na) as [E1 O1]. rewrite E1, O1. split; [apply expr_eqb_eq; exact Ns|reflexivity].
    - destruct N as [[Na Nb] Ns]. destruct (IHe1 Na) as [E1 O1]. destruct (IHe2 Nb) as [E2 O2]. rewrite E1, E2, O1, O2.
      split; [apply expr_eqb_eq; exact Ns|reflexivity].
    - destruct N as [[Na Nb] Ns]. destruct (IHe1 Na) as [E1 O1]. destruct (IHe2 Nb) as [E2 O2]. rewrite E1, E2, O1, O2.
      split; [apply expr_eqb_eq; exact Ns|reflexivity].
    - (* EExists *)
      destruct N as [[[Na Nn] Np] Ne]. destruct (IHe Na) as [E1 O1]. rewrite E1, O1.
      apply vars_eqb_eq in Np. destruct (elim_step G vs e) eqn:ES; [discriminate|].
      cbv zeta. unfold walk_exists. rewrite Np, ES. split; [|reflexivity]. destruct vs; [discriminate|reflexivity].
    - destruct N as [[Na Nn] Np]. destruct (IHe Na) as [E1 O1]. rewrite E1, O1. apply vars_eqb_eq in Np. split; [|reflexivity].
      unfold walk_forall. rewrite Np. destruct vs; [discriminate|reflexivity].
    - destruct N as [Nl Ns]. destruct (nf_fix_list m _ H Nl) as [El Ok]. rewrite El, Ok.
      split; [apply (anf_stable false); exact Ns|reflexivity].
    - destruct N as [[Na Nb] Ns]. destruct (IHe1 Na) as [E1 O1]. destruct (IHe2 Nb) as [E2 O2]. rewrite E1, E2, O1, O2.
      split; [apply expr_eqb_eq; exact Ns|reflexivity].
    - destruct N as [Nl Ns]. destruct (nf_fix_list m _ H Nl) as [El Ok]. rewrite El, Ok.
      split; [apply (anf_stable true); exact Ns|reflexivity].
    - destruct N as [[Na Nb] Ns]. destruct (IHe1 Na) as [E1 O1]. destruct (IHe2 Nb) as [E2 O2]. rewrite E1, E2, O1, O2.
      split; [apply expr_eqb_eq; exact Ns|reflexivity].
    - destruct N as [[Na Nb] Ns]. destruct (IHe1 Na) as [E1 O1]. destruct (IHe2 Nb) as [E2 O2]. rewrite E1, E2, O1, O2.
      split; [apply expr_eqb_eq; exact Ns|reflexivity].
    - destruct N as [[Na Nb] Ns]. destruct (IHe1 Na) as [E1 O1]. destruct (IHe2 Nb) as [E2 O2]. rewrite E1, E2, O1, O2.
      split; [apply expr_eqb_eq; exact Ns|reflexivity].
    - destruct N as [[Na Nb] Ns]. destruct (IHe1 Na) as [E1 O1]. destruct (IHe2 Nb) as [E2 O2]. rewrite E1, E2, O1, O2.
      split; [apply expr_eqb_eq; exact Ns|reflexivity].
    - destruct N as [Na Ns]. destruct (IHe Na) as [E1 O1]. rewrite E1, O1. split; [apply expr_eqb_eq; exact Ns|reflexivity].
    - destruct N as [Na Ns]. destruct (IHe Na) as [E1 O1]. rewrite E1, O1. split; [apply expr_eqb_eq; exact Ns|reflexivity].
    - destruct N as [[Na Nb] Ns]. destruct (IHe1 Na) as [E1 O1]. destruct (IHe2 Nb) as [E2 O2]. rewrite E1, E2, O1, O2.
      split; [apply expr_eqb_eq; exact Ns|reflexivity].
    - destruct N as [[Na Nb] Ns]. destruct (IHe1 Na) as [E1 O1]. destruct (IHe2 Nb) as [E2 O2]. rewrite E1, E2, O1, O2.
      split; [apply expr_eqb_eq; exact Ns|reflexivity].
    - destruct N as [Na Ns]. destruct (IHe Na) as [E1 O1]. rewrite E1, O1. split; [apply expr_eqb_eq; exact Ns|reflexivity].
  Qed.

  (* ---------------------------------------------------------------- the output of the simplifier is a normal form *)
  Lemma forallb_nf_map n l :
    Forall (fun e => simp_ok G n e = true -> nfG (simp G n e) = true) l -> forallb (simp_ok G n) l = true ->
    forallb nfG (map (simp G n) l) = true.
  Proof.
    induction 1 as [|x l Hx _ IH]; intros O; [reflexivity|]. cbn [forallb] in O. apply andb_true_iff in O.
    cbn [map forallb]. rewrite (Hx (proj1 O)), (IH (proj2 O)). reflexivity.
  Qed.

  Lemma simp_nf_gen n :
    (forall x, (match n with O => false | S n' => simp_ok G n' x end) = true -> nfG (resimp G n x) = true) ->
    forall e, simp_ok G n e = true -> nfG (simp G n e) = true.
  Proof.
    intros Hrs. pose proof nf_traj as (T1 & T2 & T3 & T4 & T5).
    induction e using expr_ind'; autorewrite with simp_unfold ok_unfold; intros O; try reflexivity;
      rewrite ?andb_true_iff in O.
    - apply nf_walk_fluent. apply forallb_nf_map; assumption.
    - apply nf_walk_ifun. apply forallb_nf_map; assumption.
    - apply nf_walk_junct. apply forallb_nf_map; assumption.
    - apply nf_walk_junct. apply forallb_nf_map; assumption.
    - apply nf_walk_not. auto.
    - apply nf_walk_implies; tauto.
    - apply nf_walk_iff; tauto.
    - (* EExists *)
      destruct O as [Oa Oe]. specialize (IHe Oa). cbv zeta in Oe. unfold walk_exists.
      destruct (elim_step G (prune G vs (simp G n e)) (simp G n e)) as [p|] eqn:ES.
      + destruct (elim_loop G (length (prune G vs (simp G n e))) (prune G vs (simp G n e)) (simp G n e)) as [vs1 b1] eqn:L.
        apply Hrs. destruct n; [discriminate|exact Oe].
      + apply nf_walk_exists_noelim; assumption.
    - apply nf_walk_forall. auto.
    - apply nf_walk_arith. apply forallb_nf_map; assumption.
    - apply nf_walk_minus; tauto.
    - apply nf_walk_arith. apply forallb_nf_map; assumption.
    - apply nf_walk_div; tauto.
    - apply nf_walk_le; tauto.
    - apply nf_walk_lt; tauto.
    - apply nf_walk_equals; tauto.
    - apply T1. auto.
    - apply T2. auto.
    - apply T4; tauto.
    - apply T5; tauto.
    - apply T3. auto.
  Qed.

  Theorem simp_nf n : forall e, simp_ok G n e = true -> nfG (simp G n e) = true.
  Proof.
    induction n as [|n IHn]; apply simp_nf_gen.
    - intros x H. discriminate.
    - intros x H. apply IHn. exact H.
  Qed.

  Theorem simplify_idem e e' : simplify G e = Some e' -> simplify G e' = Some e'.
  Proof.
    unfold simplify. destruct (simp_ok G (size e) e) eqn:O; [|discriminate]. intros H; inversion H; subst.
    assert (N := simp_nf _ _ O). destruct (nf_fix (size (simp G (size e) e)) _ N) as [E1 O1].
    rewrite O1, E1. reflexivity.
  Qed.
End NF.
