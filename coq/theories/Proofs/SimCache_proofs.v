From Coq Require Import List Bool.
Import ListNotations.
Require Import UPV.Planning.SimCache.

Section CacheProofs.
  Variables K A Q R : Type.
  Variable keqb : K -> K -> bool.
  Hypothesis keqb_eq : forall a b, keqb a b = true -> a = b.
  Variable ground : K -> A.
  Variable key : Q -> K.
  Variable answer : A -> Q -> R.

  Definition coherent (c : cache K A) : Prop := forall k a, cfind K A keqb k c = Some a -> a = ground k.

  Lemma coherent_nil : coherent [].
  Proof. intros k a H. discriminate. Qed.

  Lemma cached_ground_correct c k : coherent c ->
    fst (cached_ground K A keqb ground c k) = ground k /\ coherent (snd (cached_ground K A keqb ground c k)).
  Proof.
    intros H. unfold cached_ground. destruct (cfind K A keqb k c) as [a|] eqn:E; simpl.
    - split; [apply H; exact E | exact H].
    - split; [reflexivity|]. intros k' a'. simpl. destruct (keqb k' k) eqn:E2.
      + intros H1. inversion H1. apply keqb_eq in E2. subst. reflexivity.
      + apply H.
  Qed.

  (* every interleaving of queries on ONE simulator instance gives each query the answer the cache-free simulator
     gives it alone, and leaves the cache coherent *)
  Theorem run_cached_queries_pure qs : forall c, coherent c ->
    fst (run_cached_queries K A Q R keqb ground key answer c qs) = map (fun q => answer (ground (key q)) q) qs /\
    coherent (snd (run_cached_queries K A Q R keqb ground key answer c qs)).
  Proof.
    induction qs as [|q qs IH]; intros c H; simpl; [split; [reflexivity | exact H]|].
    unfold cached_query. destruct (cached_ground_correct c (key q) H) as [E1 E2].
    destruct (cached_ground K A keqb ground c (key q)) as [a c'] eqn:EC. simpl in E1, E2.
    specialize (IH c' E2). destruct (run_cached_queries K A Q R keqb ground key answer c' qs) as [rs c''].
    simpl in IH |- *. destruct IH as [IH1 IH2]. split; [rewrite E1, IH1; reflexivity | exact IH2].
  Qed.

  Corollary fresh_simulator_pure qs :
    fst (run_cached_queries K A Q R keqb ground key answer [] qs) = map (fun q => answer (ground (key q)) q) qs.
  Proof. apply run_cached_queries_pure, coherent_nil. Qed.
End CacheProofs.
