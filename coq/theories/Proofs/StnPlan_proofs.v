(* Proofs about the model of the time-triggered <-> STN plan conversions (C26). *)
From Coq Require Import List ZArith NArith QArith Qabs Bool Lia Lqa.
Import ListNotations.
Require Import UPV.Model.Stn UPV.Proofs.Stn_proofs UPV.Proofs.Stn_termination UPV.Planning.StnPlan.
Local Open Scope Q_scope.
Arguments start_node : simpl never.
Arguments end_node : simpl never.
Arguments orig_time : simpl never.

(* ------------------------------------------------------------------ booleans on Q *)
Lemma Qle_bool_true a b : Qle_bool a b = true <-> a <= b.
Proof. apply Qle_bool_iff. Qed.
Lemma Qeq_bool_true a b : Qeq_bool a b = true <-> a == b.
Proof. apply Qeq_bool_iff. Qed.

Lemma qmax_l a b : a <= qmax a b.
Proof. unfold qmax. destruct (Qlt_bool a b) eqn:E; [apply Qlt_bool_iff in E; lra | lra]. Qed.
Lemma qmax_r a b : b <= qmax a b.
Proof. unfold qmax. destruct (Qlt_bool a b) eqn:E; [lra | apply Qlt_bool_false in E; lra]. Qed.
Lemma qmin_cases a b : qmin a b = a \/ qmin a b = b.
Proof. unfold qmin. destruct (Qle_bool a b); auto. Qed.
Lemma qmax_cases a b : qmax a b = a \/ qmax a b = b.
Proof. unfold qmax. destruct (Qlt_bool a b); auto. Qed.

(* ------------------------------------------------------------------ A. consecutive gaps give pairwise gaps *)
Definition ev_rel (eps : Q) (a b : event) : Prop :=
  e_time a <= e_time b /\ (e_time a == e_time b \/ e_time a + eps <= e_time b).

Lemma ev_rel_trans eps a b c : ev_rel eps a b -> ev_rel eps b c -> ev_rel eps a c.
Proof.
  unfold ev_rel. intros [H1 H2] [H3 H4]. split; [lra|].
  destruct H2 as [H2|H2], H4 as [H4|H4]; [left; lra | right; lra | right; lra | right; lra].
Qed.

Lemma head_rel eps : forall r a, sorted_by_time (a :: r) = true -> gap_ok eps (a :: r) = true ->
  forall j b, nth_error r j = Some b -> ev_rel eps a b.
Proof.
  induction r as [|b0 r IH]; intros a Hs Hg j b Hj; [destruct j; discriminate|].
  simpl in Hs, Hg. apply andb_true_iff in Hs. destruct Hs as [Hs1 Hs2].
  apply andb_true_iff in Hg. destruct Hg as [Hg1 Hg2].
  assert (Hab : ev_rel eps a b0).
  { split; [apply Qle_bool_true; exact Hs1|]. apply orb_true_iff in Hg1. destruct Hg1 as [H|H].
    - left. apply Qeq_bool_true. exact H.
    - right. apply Qle_bool_true. exact H. }
  destruct j as [|j]; simpl in Hj.
  - inversion Hj; subst. exact Hab.
  - eapply ev_rel_trans; [exact Hab|]. eapply IH; eauto.
Qed.

Lemma sorted_tail a r : sorted_by_time (a :: r) = true -> sorted_by_time r = true.
Proof. destruct r; [reflexivity|]. simpl. intros H. apply andb_true_iff in H. tauto. Qed.
Lemma gap_tail eps a r : gap_ok eps (a :: r) = true -> gap_ok eps r = true.
Proof. destruct r; [reflexivity|]. simpl. intros H. apply andb_true_iff in H. tauto. Qed.

Lemma chain_pairs eps : forall l, sorted_by_time l = true -> gap_ok eps l = true ->
  forall i j a b, (i < j)%nat -> nth_error l i = Some a -> nth_error l j = Some b -> ev_rel eps a b.
Proof.
  induction l as [|x l IH]; intros Hs Hg i j a b Hij Hi Hj; [destruct i; discriminate|].
  destruct j as [|j]; [lia|]. destruct i as [|i]; simpl in Hi, Hj.
  - inversion Hi; subst. eapply head_rel; eauto.
  - eapply (IH (sorted_tail _ _ Hs) (gap_tail _ _ _ Hg) i j); eauto. lia.
Qed.

(* ------------------------------------------------------------------ sorting *)
Lemma insert_in e x : forall l, In e (insert_ev x l) -> e = x \/ In e l.
Proof.
  induction l as [|y l IH]; simpl; intros H.
  - destruct H as [H|[]]; auto.
  - destruct (Qlt_bool (e_time x) (e_time y)).
    + destruct H as [H|H]; auto.
    + destruct H as [H|H]; [right; left; exact H|]. destruct (IH H) as [->|H']; [left; reflexivity | right; right; exact H'].
Qed.

Lemma fold_insert_in e : forall l acc, In e (fold_left (fun acc e => insert_ev e acc) l acc) -> In e l \/ In e acc.
Proof.
  induction l as [|x l IH]; simpl; intros acc H; [auto|].
  destruct (IH _ H) as [H1|H1]; [auto|]. destruct (insert_in _ _ _ H1); subst; auto.
Qed.

Lemma sort_in e l : In e (sort_events l) -> In e l.
Proof. unfold sort_events. intros H. destruct (fold_insert_in _ _ _ H) as [H1|[]]; exact H1. Qed.

Lemma insert_sorted x : forall l, sorted_by_time l = true -> sorted_by_time (insert_ev x l) = true.
Proof.
  induction l as [|y l IH]; intros Hs; [reflexivity|].
  simpl. destruct (Qlt_bool (e_time x) (e_time y)) eqn:E.
  - change (Qle_bool (e_time x) (e_time y) && sorted_by_time (y :: l) = true).
    apply andb_true_iff. split; [|exact Hs]. apply Qlt_bool_iff in E. apply Qle_bool_true. lra.
  - apply Qlt_bool_false in E. specialize (IH (sorted_tail _ _ Hs)).
    destruct l as [|z l].
    + simpl. apply andb_true_iff. split; [apply Qle_bool_true; exact E | reflexivity].
    + simpl in IH |- *. destruct (Qlt_bool (e_time x) (e_time z)) eqn:E2.
      * apply andb_true_iff. split; [apply Qle_bool_true; exact E | exact IH].
      * simpl in Hs. apply andb_true_iff in Hs. destruct Hs as [H1 H2].
        apply andb_true_iff. split; [exact H1 | exact IH].
Qed.

Lemma sort_sorted l : sorted_by_time (sort_events l) = true.
Proof.
  unfold sort_events. assert (H : sorted_by_time [] = true) by reflexivity. revert H.
  generalize (@nil event). induction l as [|x l IH]; intros acc H; simpl; [exact H|].
  apply IH. apply insert_sorted. exact H.
Qed.

(* ------------------------------------------------------------------ B. every event is start of its generator + skew *)
Definition ev_wf (chain : list step) (e : event) : Prop :=
  exists st, nth_error chain (e_gen e) = Some st /\ e_time e == st_start st + e_skew e.

Lemma step_events_wf eps g st e : In e (step_events eps g st) -> e_gen e = g /\ e_time e == st_start st + e_skew e.
Proof.
  unfold step_events. destruct (st_dur st).
  - intros H. apply in_map_iff in H. destruct H as (t & <- & _). simpl. split; [reflexivity | lra].
  - intros [<-|[]]. simpl. split; [reflexivity | lra].
Qed.

Lemma events_from_wf eps : forall chain g e, In e (events_from eps g chain) ->
  exists st, (g <= e_gen e)%nat /\ nth_error chain (e_gen e - g) = Some st /\ e_time e == st_start st + e_skew e.
Proof.
  induction chain as [|st chain IH]; intros g e H; [destruct H|].
  simpl in H. apply in_app_or in H. destruct H as [H|H].
  - destruct (step_events_wf _ _ _ _ H) as [Hg Ht]. exists st. rewrite Hg, Nat.sub_diag. auto.
  - destruct (IH _ _ H) as (st' & Hle & Hn & Ht). exists st'. split; [lia|]. split; [|exact Ht].
    replace (e_gen e - g)%nat with (S (e_gen e - S g)) by lia. exact Hn.
Qed.

Lemma plan_events_wf eps mock plan e : In e (plan_events eps mock plan) -> ev_wf (mock :: plan) e.
Proof.
  unfold plan_events, all_events. intros H. apply sort_in in H.
  destruct (events_from_wf _ _ _ _ H) as (st & _ & Hn & Ht). rewrite Nat.sub_0_r in Hn. exists st. auto.
Qed.

(* ------------------------------------------------------------------ C. the original times of the nodes *)
Lemma start_node_S_ne k : (start_node (S k) =? start_plan)%N = false /\ (start_node (S k) =? end_plan)%N = false.
Proof. unfold start_node, start_plan, end_plan. split; apply N.eqb_neq; lia. Qed.
Lemma end_node_S_ne k : (end_node (S k) =? start_plan)%N = false /\ (end_node (S k) =? end_plan)%N = false.
Proof. unfold end_node, start_plan, end_plan. split; apply N.eqb_neq; lia. Qed.

Lemma start_node_idx k : N.to_nat ((start_node (S k) - 2) / 2) = k /\ N.even (start_node (S k)) = true.
Proof.
  unfold start_node. split.
  - replace (2 + 2 * N.of_nat k - 2)%N with (N.of_nat k * 2)%N by lia.
    rewrite N.div_mul by discriminate. apply Nat2N.id.
  - rewrite N.even_add_mul_2. reflexivity.
Qed.
Lemma end_node_idx k : N.to_nat ((end_node (S k) - 2) / 2) = k /\ N.even (end_node (S k)) = false.
Proof.
  unfold end_node. split.
  - replace (3 + 2 * N.of_nat k - 2)%N with (1 + N.of_nat k * 2)%N by lia.
    rewrite N.div_add by discriminate. simpl. apply Nat2N.id.
  - rewrite N.even_add_mul_2. reflexivity.
Qed.

Lemma orig_start_plan plan : orig_time plan start_plan = 0.
Proof. reflexivity. Qed.
Lemma orig_end_plan plan : orig_time plan end_plan = makespan plan.
Proof. reflexivity. Qed.
Lemma orig_start_node plan k st : nth_error plan k = Some st -> orig_time plan (start_node (S k)) = st_start st.
Proof.
  intros H. unfold orig_time. destruct (start_node_S_ne k) as [-> ->]. destruct (start_node_idx k) as [-> ->].
  rewrite H. reflexivity.
Qed.
Lemma orig_end_node plan k st : nth_error plan k = Some st -> orig_time plan (end_node (S k)) = step_end st.
Proof.
  intros H. unfold orig_time. destruct (end_node_S_ne k) as [-> ->]. destruct (end_node_idx k) as [-> ->].
  rewrite H. reflexivity.
Qed.

(* start of the generator g of the chain mockup :: plan *)
Lemma orig_gen_start effs conds plan g st :
  nth_error (mock_step effs conds :: plan) g = Some st -> orig_time plan (start_node g) == st_start st.
Proof.
  destruct g as [|k]; intros H.
  - simpl in H. inversion H; subst. reflexivity.
  - change (nth_error plan k = Some st) in H. rewrite (orig_start_node _ _ _ H). reflexivity.
Qed.

Lemma makespan_nonneg plan : times_nonneg plan = true -> 0 <= makespan plan.
Proof.
  destruct plan as [|st r]; simpl; intros H; [lra|].
  apply andb_true_iff in H. destruct H as [H _]. apply andb_true_iff in H. destruct H as [H _].
  apply Qle_bool_true in H. pose proof (qmax_l (st_start st) (step_end st)).
  pose proof (qmax_l (qmax (st_start st) (step_end st)) (makespan r)). lra.
Qed.

Lemma makespan_ge : forall plan k st, nth_error plan k = Some st ->
  st_start st <= makespan plan /\ step_end st <= makespan plan.
Proof.
  induction plan as [|x r IH]; intros k st H; [destruct k; discriminate|].
  simpl. pose proof (qmax_l (qmax (st_start x) (step_end x)) (makespan r)).
  pose proof (qmax_r (qmax (st_start x) (step_end x)) (makespan r)).
  destruct k as [|k]; simpl in H.
  - inversion H; subst. pose proof (qmax_l (st_start st) (step_end st)). pose proof (qmax_r (st_start st) (step_end st)).
    split; lra.
  - destruct (IH _ _ H). split; lra.
Qed.

Lemma step_nonneg plan k st : times_nonneg plan = true -> nth_error plan k = Some st ->
  0 <= st_start st /\ 0 <= step_end st.
Proof.
  intros H Hn. unfold times_nonneg in H. rewrite forallb_forall in H.
  specialize (H st (nth_error_In _ _ Hn)). apply andb_true_iff in H. destruct H as [H1 H2].
  apply Qle_bool_true in H1. unfold step_end. destruct (st_dur st); [apply Qle_bool_true in H2|]; split; lra.
Qed.

(* every node lies between GLOBAL_START and GLOBAL_END *)
Lemma orig_bounds plan n : times_nonneg plan = true ->
  orig_time plan start_plan <= orig_time plan n /\ orig_time plan n <= orig_time plan end_plan.
Proof.
  intros H. rewrite orig_start_plan, orig_end_plan. pose proof (makespan_nonneg _ H) as Hm.
  unfold orig_time. destruct (n =? start_plan)%N; [lra|]. destruct (n =? end_plan)%N; [lra|].
  destruct (nth_error plan (N.to_nat ((n - 2) / 2))) as [st|] eqn:E; [|lra].
  destruct (makespan_ge _ _ _ E). destruct (step_nonneg _ _ _ H E). destruct (N.even n); lra.
Qed.

(* ------------------------------------------------------------------ D. dictionaries of constraints *)
Definition mk_pcon (k : N) (v : oq * oq * N) : pcon := (k, fst (fst v), snd (fst v), snd v).
Definition dict_sat (t : N -> Q) (m : cdict) : Prop :=
  forall k l v, In (k, l) m -> In v l -> sat_pcon t (mk_pcon k v).

Lemma dict_sat_nil t : dict_sat t [].
Proof. intros k l v []. Qed.

Lemma dict_sat_append t k v : forall m, dict_sat t m -> sat_pcon t (mk_pcon k v) -> dict_sat t (dict_append k v m).
Proof.
  induction m as [|[k' l'] m IH]; intros Hm Hv; simpl.
  - intros k0 l0 v0 [H|[]] Hin. inversion H; subst. destruct Hin as [<-|[]]. exact Hv.
  - destruct (N.eqb_spec k k').
    + subst. intros k0 l0 v0 [H|H] Hin.
      * inversion H; subst. apply in_app_or in Hin. destruct Hin as [Hin|[<-|[]]]; [|exact Hv].
        eapply Hm; [left; reflexivity | exact Hin].
      * eapply Hm; [right; exact H | exact Hin].
    + intros k0 l0 v0 [H|H] Hin.
      * inversion H; subst. eapply Hm; [left; reflexivity | exact Hin].
      * eapply (IH (fun a b c H1 H2 => Hm a b c (or_intror H1) H2) Hv); eauto.
Qed.

Lemma flatten_sat t m : dict_sat t m -> forall c, In c (flatten m) -> sat_pcon t c.
Proof.
  intros Hm c H. unfold flatten in H. apply in_flat_map in H. destruct H as ([k l] & Hkl & Hc). simpl in Hc.
  destruct l as [|v0 l].
  - destruct Hc as [<-|[]]. simpl. tauto.
  - change (In c (map (fun v : oq * oq * N => (k, fst (fst v), snd (fst v), snd v)) (v0 :: l))) in Hc.
    apply in_map_iff in Hc. destruct Hc as (v & <- & Hv). exact (Hm _ _ _ Hkl Hv).
Qed.

(* base constraints: 0 <= start of an instantaneous step, [d, d] between start and end of a durative step *)
Lemma base_sat effs conds plan : times_nonneg plan = true ->
  forall chain g m, (forall i st, nth_error chain i = Some st -> nth_error (mock_step effs conds :: plan) (g + i) = Some st) ->
    dict_sat (orig_time plan) m -> dict_sat (orig_time plan) (base_constraints g chain m).
Proof.
  intros Hnn. induction chain as [|st chain IH]; intros g m Hch Hm; [exact Hm|].
  simpl. apply IH.
  - intros i st' Hi. replace (S g + i)%nat with (g + S i)%nat by lia. apply Hch. exact Hi.
  - pose proof (Hch 0%nat st eq_refl) as H0. rewrite Nat.add_0_r in H0.
    destruct (st_dur st) as [d|] eqn:Ed.
    + destruct g as [|k]; [exact Hm|]. apply dict_sat_append; [exact Hm|].
      simpl in H0. unfold mk_pcon; cbn [fst snd].
      unfold sat_pcon. rewrite (orig_start_node _ _ _ H0), (orig_end_node _ _ _ H0). unfold step_end. rewrite Ed. split; lra.
    + apply dict_sat_append; [exact Hm|]. unfold mk_pcon; cbn [fst snd]. unfold sat_pcon.
      rewrite orig_start_plan. split; [|exact I].
      destruct g as [|k]; [simpl in H0; inversion H0; subst; discriminate|].
      simpl in H0. rewrite (orig_start_node _ _ _ H0). destruct (step_nonneg _ _ _ Hnn H0). lra.
Qed.

(* ------------------------------------------------------------------ E. edge constraints *)
Lemma edge_sat eps effs conds plan a b k v :
  ev_wf (mock_step effs conds :: plan) a -> ev_wf (mock_step effs conds :: plan) b -> ev_rel eps a b ->
  edge_constraint eps a b = Some (k, v) -> sat_pcon (orig_time plan) (mk_pcon k v).
Proof.
  intros (sa & Hna & Hta) (sb & Hnb & Htb) [Hle Hgap] H. unfold edge_constraint in H.
  destruct (Nat.eqb (e_gen a) (e_gen b)); [discriminate|].
  pose proof (orig_gen_start _ _ _ _ _ Hna) as Ea. pose proof (orig_gen_start _ _ _ _ _ Hnb) as Eb.
  destruct (Qeq_bool (e_time a) (e_time b)) eqn:E; inversion H; subst; unfold mk_pcon; cbn [fst snd]; unfold sat_pcon.
  - apply Qeq_bool_true in E. split; lra.
  - split; [|exact I]. destruct Hgap as [Hg|Hg]; [apply Qeq_bool_true in Hg; congruence|]. lra.
Qed.

Lemma add_edges_sat eps effs conds plan evs :
  (forall e, In e evs -> ev_wf (mock_step effs conds :: plan) e) ->
  sorted_by_time evs = true -> gap_ok eps evs = true ->
  forall edges m, edges_forward (length evs) edges = true -> dict_sat (orig_time plan) m ->
    dict_sat (orig_time plan) (add_edges eps evs edges m).
Proof.
  intros Hwf Hs Hg. induction edges as [|[i j] edges IH]; intros m Hf Hm; [exact Hm|].
  simpl in Hf. apply andb_true_iff in Hf. destruct Hf as [Hij Hf]. simpl in Hij.
  apply andb_true_iff in Hij. destruct Hij as [Hij _]. apply Nat.ltb_lt in Hij.
  simpl. apply IH; [exact Hf|].
  destruct (nth_error evs i) as [a|] eqn:Ei; [|exact Hm]. destruct (nth_error evs j) as [b|] eqn:Ej; [|exact Hm].
  destruct (edge_constraint eps a b) as [[k v]|] eqn:Ec; [|exact Hm].
  apply dict_sat_append; [exact Hm|].
  apply (edge_sat eps effs conds plan a b k v);
    [apply Hwf; exact (nth_error_In _ _ Ei) | apply Hwf; exact (nth_error_In _ _ Ej) | | exact Ec].
  exact (chain_pairs eps evs Hs Hg i j a b Hij Ei Ej).
Qed.

(* the abstract conversion lemma: ANY list of events (each the start of its generator plus its skew) that is sorted
   by time, with epsilon at most the gap between different consecutive times, and ANY forward edge list *)
Lemma stn_of_events_satisfied eps effs conds plan evs edges :
  times_nonneg plan = true ->
  (forall e, In e evs -> ev_wf (mock_step effs conds :: plan) e) ->
  sorted_by_time evs = true -> gap_ok eps evs = true -> edges_forward (length evs) edges = true ->
  forall c, In c (flatten (add_edges eps evs edges (base_constraints 0 (mock_step effs conds :: plan) []))) ->
    sat_pcon (orig_time plan) c.
Proof.
  intros Hnn Hwf Hs Hg Hf. apply flatten_sat. eapply add_edges_sat; eauto.
  apply (base_sat effs conds plan Hnn); [intros i st H; exact H | apply dict_sat_nil].
Qed.

(* the model of _convert_to_stn: its own event list is sorted and well formed *)
Lemma conv_constraints_satisfied eps effs conds plan edges :
  times_nonneg plan = true ->
  gap_ok eps (plan_events eps (mock_step effs conds) plan) = true ->
  edges_forward (length (plan_events eps (mock_step effs conds) plan)) edges = true ->
  forall c, In c (flatten (conv_constraints eps (mock_step effs conds) plan edges)) -> sat_pcon (orig_time plan) c.
Proof.
  intros Hnn Hg Hf. unfold conv_constraints. apply stn_of_events_satisfied; auto.
  - intros e He. eapply plan_events_wf; eauto.
  - apply sort_sorted.
Qed.

(* ------------------------------------------------------------------ F. from the plan's constraints to the DeltaSTN insertions *)
Definition node_ok (t : N -> Q) (n : N) : Prop := t start_plan <= t n /\ t n <= t end_plan.

Lemma node_adds_sol t n c : node_ok t n -> In c (node_adds n) -> satisfies t c.
Proof.
  intros [H1 H2] H. unfold node_adds in H. apply in_app_or in H.
  destruct H as [H|H].
  - destruct (n =? start_plan)%N; [destruct H|]. destruct H as [<-|[]]. simpl. lra.
  - destruct (n =? end_plan)%N; [destruct H|]. destruct H as [<-|[]]. simpl. lra.
Qed.

Lemma interval_adds_sol t a b lb ub c : sat_pcon t (a, lb, ub, b) -> In c (interval_adds a b lb ub) -> satisfies t c.
Proof.
  intros [H1 H2] H. unfold interval_adds in H. apply in_app_or in H. destruct H as [H|H].
  - destruct lb; [|destruct H]. destruct H as [<-|[]]. simpl. lra.
  - destruct ub; [|destruct H]. destruct H as [<-|[]]. simpl. lra.
Qed.

Lemma init_adds_solution t cs :
  (forall n, node_ok t n) -> (forall c, In c cs -> sat_pcon t c) -> solution t (init_adds cs).
Proof.
  intros Hn Hc c [<-|H].
  - simpl. destruct (Hn end_plan). lra.
  - apply in_flat_map in H. destruct H as ([[[a lb] ub] b] & Hin & H). simpl in H.
    apply in_app_or in H. destruct H as [H|H]; [eapply node_adds_sol; eauto|].
    apply in_app_or in H. destruct H as [H|H]; [eapply node_adds_sol; eauto|].
    eapply interval_adds_sol; eauto.
Qed.

(* conversely a solution of the insertions satisfies the plan's constraints *)
Lemma init_adds_sat t cs : solution t (init_adds cs) -> forall c, In c cs -> sat_pcon t c.
Proof.
  intros Hs [[[a lb] ub] b] Hin. unfold sat_pcon. split.
  - destruct lb as [l|]; [|exact I].
    assert (H : satisfies t (a, b, - l)).
    { apply Hs. right. apply in_flat_map. exists (a, Some l, ub, b). split; [exact Hin|]. simpl.
      apply in_or_app. right. apply in_or_app. right. unfold interval_adds. simpl. left. reflexivity. }
    simpl in H. lra.
  - destruct ub as [u|]; [|exact I].
    assert (H : satisfies t (b, a, u)).
    { apply Hs. right. apply in_flat_map. exists (a, lb, Some u, b). split; [exact Hin|]. simpl.
      apply in_or_app. right. apply in_or_app. right. unfold interval_adds. apply in_or_app. right. left. reflexivity. }
    simpl in H. lra.
Qed.

(* ------------------------------------------------------------------ G. a constraint set with a solution is reported consistent *)
Lemma satisfies_implies_consistent fuel cs t s :
  solution t (init_adds cs) -> stn_plan_init fuel cs = Some s -> check_stn s = true.
Proof.
  intros Hs H. unfold stn_plan_init in H. apply (stn_sat_iff fuel 0 _ s (Qeq_refl 0) H). exists t. exact Hs.
Qed.

Lemma stn_plan_init_terminates cs : exists s, stn_plan_init (enough_fuel (init_adds cs)) cs = Some s.
Proof. unfold stn_plan_init. apply stn_terminates. reflexivity. Qed.

Lemma stn_plan_init_inv fuel cs s : stn_plan_init fuel cs = Some s -> inv s (init_adds cs).
Proof.
  intros H. unfold stn_plan_init in H.
  exact (run_adds_inv fuel (init_adds cs) _ [] _ (inv_empty 0 (Qeq_refl 0)) H).
Qed.

(* ------------------------------------------------------------------ H. the constraints REPORTED by STNPlan.get_constraints *)
Lemma dedupe_in bb dst : forall ns seen, In (bb, dst) (dedupe seen ns) -> In (dst, bb) ns.
Proof.
  induction ns as [|[d b0] ns IH]; intros seen H; [destruct H|].
  simpl in H. destruct (existsb (N.eqb d) seen).
  - right. eapply IH; eauto.
  - destruct H as [H|H]; [inversion H; subst; left; reflexivity | right; eapply IH; eauto].
Qed.

Lemma get_constraints_sat t s A x l bb dst :
  inv s A -> check_stn s = true -> solution t A ->
  In (x, l) (get_constraints s) -> In (bb, dst) l -> t x - t dst <= bb.
Proof.
  intros [_ Hi] Hs Ht Hx Hl. unfold check_stn in Hs. rewrite Hs in Hi.
  unfold get_constraints in Hx. apply in_map_iff in Hx. destruct Hx as ([x' q] & Heq & _). simpl in Heq.
  inversion Heq; subst. apply dedupe_in in Hl.
  exact (Ht _ (i_sub _ _ Hi x dst bb Hl)).
Qed.

Definition up_ok (t : N -> Q) (k : N * N) (u : Q) : Prop := t (snd k) - t (fst k) <= u.
Definition lo_ok (t : N -> Q) (k : N * N) (l : Q) : Prop := l <= t (snd k) - t (fst k).
Definition ball (P : N * N -> Q -> Prop) (m : bdict) : Prop := forall k v, In (k, v) m -> P k v.

Lemma key_eqb_eq a b : key_eqb a b = true -> a = b.
Proof.
  destruct a, b. unfold key_eqb. simpl. intros H. apply andb_true_iff in H. destruct H as [H1 H2].
  apply N.eqb_eq in H1. apply N.eqb_eq in H2. congruence.
Qed.

Lemma bfind_in k : forall m v, bfind k m = Some v -> In (k, v) m.
Proof.
  induction m as [|[k' w] m IH]; intros v H; [discriminate|]. simpl in H.
  destruct (key_eqb k k') eqn:E.
  - inversion H; subst. apply key_eqb_eq in E. subst. left; reflexivity.
  - right. apply IH. exact H.
Qed.

Lemma bupdate_ball (P : N * N -> Q -> Prop) f k v :
  (forall w, P k w -> P k (f w)) -> P k (f v) -> forall m, ball P m -> ball P (bupdate f k v m).
Proof.
  intros Hf Hv. induction m as [|[k' w] m IH]; intros Hm; simpl.
  - intros k0 v0 [H|[]]. inversion H; subst. exact Hv.
  - destruct (key_eqb k k') eqn:E.
    + apply key_eqb_eq in E. subst. intros k0 v0 [H|H].
      * inversion H; subst. apply Hf. apply Hm. left; reflexivity.
      * apply Hm. right; exact H.
    + intros k0 v0 [H|H]; [apply Hm; left; exact H|].
      apply (IH (fun a b H1 => Hm a b (or_intror H1))). exact H.
Qed.

Lemma bounds_step_ok t b_node st x :
  t b_node - t (snd x) <= fst x ->
  ball (up_ok t) (fst st) /\ ball (lo_ok t) (snd st) ->
  ball (up_ok t) (fst (bounds_step b_node st x)) /\ ball (lo_ok t) (snd (bounds_step b_node st x)).
Proof.
  destruct x as [ub a_node]. simpl. intros Hx [Hu Hl]. unfold bounds_step.
  destruct (Qlt_bool 0 ub); simpl; split; auto.
  - apply bupdate_ball; [| |exact Hu].
    + intros w Hw. destruct (qmin_cases ub w) as [-> | ->]; [unfold up_ok; simpl; exact Hx | exact Hw].
    + destruct (qmin_cases ub ub) as [-> | ->]; unfold up_ok; simpl; exact Hx.
  - apply bupdate_ball; [| |exact Hl].
    + intros w Hw. destruct (qmax_cases (- ub) w) as [-> | ->]; [unfold lo_ok; simpl; lra | exact Hw].
    + destruct (qmax_cases (- ub) (- ub)) as [-> | ->]; unfold lo_ok; simpl; lra.
Qed.

Lemma bounds_of_ok t g :
  (forall x l bb dst, In (x, l) g -> In (bb, dst) l -> t x - t dst <= bb) ->
  ball (up_ok t) (fst (bounds_of g)) /\ ball (lo_ok t) (snd (bounds_of g)).
Proof.
  unfold bounds_of. assert (H0 : ball (up_ok t) (fst (@nil ((N * N) * Q), @nil ((N * N) * Q))) /\
                                 ball (lo_ok t) (snd (@nil ((N * N) * Q), @nil ((N * N) * Q)))).
  { split; intros k v []. }
  revert H0. generalize (@nil ((N * N) * Q), @nil ((N * N) * Q)).
  induction g as [|[x l] g IH]; intros st H0 Hg; [exact H0|].
  simpl. apply IH; [|intros; eapply Hg; [right|]; eauto].
  assert (Hl : forall bb dst, In (bb, dst) l -> t x - t dst <= bb) by (intros; eapply Hg; [left; reflexivity | eauto]).
  clear Hg IH. revert st H0. induction l as [|[bb dst] l IHl]; intros st H0; [exact H0|].
  cbn [fold_left]. apply IHl; [intros; apply Hl; right; assumption|].
  apply (bounds_step_ok t x st (bb, dst)); [cbn [fst snd]; apply Hl; left; reflexivity | exact H0].
Qed.

Lemma plan_constraints_of_sat t ul :
  ball (up_ok t) (fst ul) -> ball (lo_ok t) (snd ul) -> dict_sat t (plan_constraints_of ul).
Proof.
  destruct ul as [upper lower]. simpl. intros Hu Hl. unfold plan_constraints_of.
  assert (H1 : forall up m, (forall k v, In (k, v) up -> In (k, v) upper) -> dict_sat t m ->
     dict_sat t (fold_left (fun m kv => dict_append (fst (fst kv)) (bfind (fst kv) lower, Some (snd kv), snd (fst kv)) m) up m)).
  { induction up as [|[k u] up IH]; intros m Hsub Hm; [exact Hm|]. simpl. apply IH; [intros; apply Hsub; right; assumption|].
    apply dict_sat_append; [exact Hm|]. unfold mk_pcon; cbn [fst snd]. unfold sat_pcon. split.
    - destruct (bfind k lower) as [l|] eqn:E; [|exact I]. apply bfind_in in E. exact (Hl _ _ E).
    - exact (Hu _ _ (Hsub _ _ (or_introl eq_refl))). }
  assert (H2 : forall lo m, (forall k v, In (k, v) lo -> In (k, v) lower) -> dict_sat t m ->
     dict_sat t (fold_left (fun m kv => match bfind (fst kv) upper with
                         | Some _ => m
                         | None => dict_append (fst (fst kv)) (Some (snd kv), None, snd (fst kv)) m
                         end) lo m)).
  { induction lo as [|[k l] lo IH]; intros m Hsub Hm; [exact Hm|]. simpl. apply IH; [intros; apply Hsub; right; assumption|].
    destruct (bfind k upper); [exact Hm|]. apply dict_sat_append; [exact Hm|].
    unfold mk_pcon; cbn [fst snd]. unfold sat_pcon. split; [|exact I].
    exact (Hl _ _ (Hsub _ _ (or_introl eq_refl))). }
  apply H2; [auto|]. apply H1; [auto | apply dict_sat_nil].
Qed.

Lemma reported_constraints_sat t s A :
  inv s A -> check_stn s = true -> solution t A ->
  forall c, In c (flatten (plan_constraints s)) -> sat_pcon t c.
Proof.
  intros Hi Hs Ht. apply flatten_sat. unfold plan_constraints.
  destruct (bounds_of_ok t (get_constraints s)) as [Hu Hl].
  - intros x l bb dst Hx Hb. eapply get_constraints_sat; eauto.
  - apply plan_constraints_of_sat; assumption.
Qed.

(* ------------------------------------------------------------------ composition: the forward direction *)
Lemma forward_conversion eps effs conds plan edges :
  times_nonneg plan = true ->
  gap_ok eps (plan_events eps (mock_step effs conds) plan) = true ->
  edges_forward (length (plan_events eps (mock_step effs conds) plan)) edges = true ->
  let cs := flatten (conv_constraints eps (mock_step effs conds) plan edges) in
  (forall c, In c cs -> sat_pcon (orig_time plan) c) /\
  solution (orig_time plan) (init_adds cs) /\
  (exists s, convert_to_stn (enough_fuel (init_adds cs)) eps (mock_step effs conds) plan edges = Some s) /\
  (forall fuel s, convert_to_stn fuel eps (mock_step effs conds) plan edges = Some s ->
     check_stn s = true /\ forall c, In c (flatten (plan_constraints s)) -> sat_pcon (orig_time plan) c).
Proof.
  intros Hnn Hg Hf cs.
  assert (Hc : forall c, In c cs -> sat_pcon (orig_time plan) c) by (apply conv_constraints_satisfied; assumption).
  assert (Hsol : solution (orig_time plan) (init_adds cs)).
  { apply init_adds_solution; [|exact Hc]. intros n. apply orig_bounds. exact Hnn. }
  split; [exact Hc|]. split; [exact Hsol|]. split.
  - apply stn_plan_init_terminates.
  - intros fuel s H. unfold convert_to_stn in H. fold cs in H.
    pose proof (satisfies_implies_consistent _ _ _ _ Hsol H) as Hs. split; [exact Hs|].
    exact (reported_constraints_sat _ _ _ (stn_plan_init_inv _ _ _ H) Hs Hsol).
Qed.

(* ------------------------------------------------------------------ the back conversion reads the least non-negative solution *)
Lemma back_times_solve fuel cs s :
  stn_plan_init fuel cs = Some s -> check_stn s = true ->
  (forall c, In c cs -> sat_pcon (model_of s) c) /\ nonneg (model_of s) /\
  (forall t, nonneg t -> solution t (init_adds cs) -> forall x, model_of s x <= t x).
Proof.
  intros H Hs. unfold stn_plan_init in H.
  destruct (stn_model_least_nonneg fuel 0 _ s (Qeq_refl 0) H Hs) as (H1 & H2 & H3).
  split; [apply init_adds_sat; exact H1|]. split; assumption.
Qed.

(* everything of the round trip except the validity of the re-timed plan *)
Lemma roundtrip_partial (deorder : list step -> list (nat * nat)) eps effs conds plan fuel s :
  times_nonneg plan = true ->
  gap_ok eps (plan_events eps (mock_step effs conds) plan) = true ->
  edges_forward (length (plan_events eps (mock_step effs conds) plan)) (deorder plan) = true ->
  convert_to_stn fuel eps (mock_step effs conds) plan (deorder plan) = Some s ->
  check_stn s = true /\
  (forall c, In c (flatten (plan_constraints s)) -> sat_pcon (orig_time plan) c) /\
  (forall c, In c (flatten (conv_constraints eps (mock_step effs conds) plan (deorder plan))) -> sat_pcon (model_of s) c) /\
  nonneg (model_of s) /\
  (forall x, model_of s x <= orig_time plan x).
Proof.
  intros Hnn Hg Hf H.
  destruct (forward_conversion eps effs conds plan (deorder plan) Hnn Hg Hf) as (_ & Hsol & _ & Hall).
  destruct (Hall fuel s H) as [Hs Hrep]. unfold convert_to_stn in H.
  destruct (back_times_solve _ _ _ H Hs) as (B1 & B2 & B3).
  split; [exact Hs|]. split; [exact Hrep|]. split; [exact B1|]. split; [exact B2|].
  intros x. apply B3; [|exact Hsol]. intros n. destruct (orig_bounds plan n Hnn) as [Hlo _].
  rewrite orig_start_plan in Hlo. exact Hlo.
Qed.

(* ------------------------------------------------------------------ explicit epsilon: the library's conformance test is not enough *)
Definition wit_A : step :=
  {| st_start := 1; st_dur := Some 4;
     st_effs := [ {| tg_anchor := FromEnd; tg_delay := 0 |} ];
     st_conds := [ {| iv_lo := {| tg_anchor := FromStart; tg_delay := 0 |}; iv_hi := {| tg_anchor := FromEnd; tg_delay := 0 |};
                      iv_lopen := true; iv_ropen := false |} ];
     st_dyn := false |}.
Definition wit_inst (t : Q) : step := {| st_start := t; st_dur := None; st_effs := []; st_conds := []; st_dyn := false |}.
Definition wit_plan : list step := [wit_inst 0; wit_A; wit_inst (23 # 16)].
Definition wit_edges : list (nat * nat) := [(0, 1); (1, 2); (2, 3)]%nat.

Lemma conformant_epsilon_refuted :
  ~ (forall E xe effs conds plan edges,
       extract_epsilon (mock_step effs conds) plan = Some xe -> E <= xe -> 0 < E ->
       times_nonneg plan = true ->
       edges_forward (length (plan_events E (mock_step effs conds) plan)) edges = true ->
       forall c, In c (flatten (conv_constraints E (mock_step effs conds) plan edges)) -> sat_pcon (orig_time plan) c).
Proof.
  intros H.
  specialize (H (1 # 4) (7 # 16) [] [] wit_plan wit_edges).
  assert (E1 : extract_epsilon (mock_step [] []) wit_plan = Some (7 # 16)) by (vm_compute; reflexivity).
  assert (E2 : (1 # 4) <= (7 # 16)) by (unfold Qle; simpl; lia).
  assert (E3 : 0 < (1 # 4)) by reflexivity.
  specialize (H E1 E2 E3 eq_refl eq_refl ((4%N, Some (8 # 16), None, 6%N))).
  assert (Hin : In (4%N, Some (8 # 16), None, 6%N) (flatten (conv_constraints (1 # 4) (mock_step [] []) wit_plan wit_edges))).
  { vm_compute. right. right. right. left. reflexivity. }
  specialize (H Hin). destruct H as [H _]. vm_compute in H. apply H. reflexivity.
Qed.
