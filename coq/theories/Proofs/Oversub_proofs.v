(* Proofs about the oversubscription meta-engine loop (Model/Oversub.v). *)
From Coq Require Import List ZArith NArith QArith Qcanon Bool Lia Sorted.
Import ListNotations.
Require Import UPV.Core.Expr UPV.Core.Eval UPV.Proofs.Eval_lemmas UPV.Model.Oversub.
Local Open Scope nat_scope.

(* ------------------------------------------------------------------ the powerset contains every mask *)
Fixpoint count_true (m : mask) : nat :=
  match m with [] => 0 | b :: m' => (if b then 1 else 0) + count_true m' end.

Lemma count_true_le m : count_true m <= length m.
Proof. induction m as [|b m IH]; simpl; [lia|]. destruct b; lia. Qed.

Lemma combos_complete : forall m, In m (combos (length m) (count_true m)).
Proof.
  induction m as [|b m IH]; simpl; [auto|].
  destruct b; simpl.
  - apply in_or_app. left. apply in_map. exact IH.
  - apply in_or_app. right. apply in_map. exact IH.
Qed.

Lemma combos_length : forall n r m, In m (combos n r) -> length m = n.
Proof.
  induction n as [|n IH]; intros r m H; simpl in H.
  - destruct r; simpl in H; [destruct H as [<-|[]]; reflexivity | contradiction].
  - apply in_app_or in H. destruct H as [H|H].
    + destruct r as [|r]; [contradiction|].
      apply in_map_iff in H. destruct H as [m' [<- H]]. simpl. f_equal. eauto.
    + apply in_map_iff in H. destruct H as [m' [<- H]]. simpl. f_equal. eauto.
Qed.

Lemma powerset_complete : forall m, In m (powerset (length m)).
Proof.
  intro m. unfold powerset. apply in_flat_map. exists (count_true m). split.
  - apply in_seq. pose proof (count_true_le m). lia.
  - apply combos_complete.
Qed.

Lemma powerset_length : forall n m, In m (powerset n) -> length m = n.
Proof.
  intros n m H. unfold powerset in H. apply in_flat_map in H. destruct H as [r [_ H]]. eapply combos_length; eauto.
Qed.

Lemma mask_eqb_eq : forall a b, mask_eqb a b = true <-> a = b.
Proof.
  induction a as [|x a IH]; destruct b as [|y b]; simpl; split; intro H; try discriminate; auto.
  - apply andb_true_iff in H. destruct H as [H1 H2]. apply eqb_prop in H1. apply IH in H2. congruence.
  - inversion H; subst. rewrite eqb_reflx. simpl. apply IH. reflexivity.
Qed.

(* ------------------------------------------------------------------ the stable descending sort *)
Definition ge_w (a b : Qc * mask) : Prop := qc_ltb (fst a) (fst b) = false.   (* b is not heavier than a *)

Lemma qc_ltb_false_le a b : qc_ltb a b = false -> (b <= a)%Qc.
Proof.
  intro H. apply Qcnot_lt_le. intro Hlt. apply qc_ltb_lt in Hlt. congruence.
Qed.

Lemma le_qc_ltb_false a b : (b <= a)%Qc -> qc_ltb a b = false.
Proof.
  intro H. destruct (qc_ltb a b) eqn:E; auto. apply qc_ltb_lt in E. exfalso. eapply Qcle_not_lt; eauto.
Qed.

Lemma insert_desc_in x l y : In y (insert_desc x l) <-> y = x \/ In y l.
Proof.
  induction l as [|z l IH]; simpl.
  - intuition.
  - destruct (qc_ltb (fst x) (fst z)); simpl; rewrite ?IH; intuition.
Qed.

Lemma sort_desc_in l y : In y (sort_desc l) <-> In y l.
Proof.
  induction l as [|x l IH]; simpl; [tauto|].
  rewrite insert_desc_in, IH. intuition.
Qed.

Lemma insert_desc_sorted x l : StronglySorted ge_w l -> StronglySorted ge_w (insert_desc x l).
Proof.
  induction l as [|z l IH]; intro H; simpl.
  - constructor; constructor.
  - apply StronglySorted_inv in H. destruct H as [Hl Hz].
    destruct (qc_ltb (fst x) (fst z)) eqn:E.
    + constructor; [auto|].
      apply Forall_forall. intros y Hy. apply insert_desc_in in Hy. destruct Hy as [->|Hy].
      * unfold ge_w. apply le_qc_ltb_false. apply Qclt_le_weak. apply qc_ltb_lt. exact E.
      * rewrite Forall_forall in Hz. auto.
    + constructor; [constructor; auto|].
      constructor; [exact E|].
      apply Forall_forall. intros y Hy. rewrite Forall_forall in Hz. specialize (Hz y Hy).
      unfold ge_w in *. apply le_qc_ltb_false.
      eapply Qcle_trans; [apply qc_ltb_false_le; exact Hz | apply qc_ltb_false_le; exact E].
Qed.

Lemma sort_desc_sorted l : StronglySorted ge_w (sort_desc l).
Proof.
  induction l as [|x l IH]; simpl; [constructor|]. apply insert_desc_sorted. exact IH.
Qed.

Lemma sorted_split : forall pre x post, StronglySorted ge_w (pre ++ x :: post) -> Forall (ge_w x) post.
Proof.
  induction pre as [|a pre IH]; intros x post H; simpl in H; apply StronglySorted_inv in H; destruct H as [H1 H2]; auto.
Qed.

Lemma queue_in ws w m : In (w, m) (queue ws) <-> w = weight ws m /\ In m (powerset (length ws)).
Proof.
  unfold queue. rewrite sort_desc_in, in_map_iff. split.
  - intros [m' [E H]]. inversion E; subst. auto.
  - intros [-> H]. exists m. auto.
Qed.

(* ------------------------------------------------------------------ the loop *)
Section Loop.
  Variable plan : Type.
  Variable planner : mask -> status * option plan.

  Notation loop := (os_loop plan planner).

  Lemma not_pos_not_marks_silent st :
    positive st = false -> st <> Timeout -> marks_incomplete st = false -> silent st = true.
  Proof. destruct st; simpl; intros; congruence. Qed.

  (* an OPTIMAL answer: the incomplete flag never rose, there are soft goals, and every subset tried before the
     answered one got an answer the loop takes as a proof of unsolvability *)
  Lemma os_loop_opt : forall q ng inc pl,
      loop ng inc q = (SolvedOpt, pl) ->
      inc = false /\ ng = false /\
      exists pre w m post st, q = pre ++ (w, m) :: post /\ planner m = (st, pl) /\ positive st = true /\
                              Forall (fun x => silent (fst (planner (snd x))) = true) pre.
  Proof.
    induction q as [|[w m] q IH]; intros ng inc pl H; simpl in H.
    - destruct inc; discriminate.
    - destruct (planner m) as [st pl0] eqn:Hp.
      destruct (positive st) eqn:Hpos.
      + destruct (inc || ng) eqn:E; [discriminate|]. inversion H; subst.
        apply orb_false_iff in E. destruct E as [-> ->]. repeat split; auto.
        exists [], w, m, q, st. simpl. repeat split; auto.
      + assert (st <> Timeout -> loop ng (inc || marks_incomplete st) q = (SolvedOpt, pl)) as H'.
        { intro Hne. destruct st; try exact H; congruence. }
        destruct (status_eqb st Timeout) eqn:Et.
        * destruct st; simpl in Et; discriminate.
        * assert (st <> Timeout) as Hne by (intro; subst; discriminate).
          specialize (H' Hne). apply IH in H'.
          destruct H' as [Hinc [Hng [pre [w' [m' [post [st' [Hq [Hpm [Hpos' Hall]]]]]]]]]].
          apply orb_false_iff in Hinc. destruct Hinc as [-> Hm].
          repeat split; auto.
          exists ((w, m) :: pre), w', m', post, st'. simpl. rewrite Hq. repeat split; auto.
          constructor; auto. simpl. rewrite Hp. simpl. apply not_pos_not_marks_silent; auto.
  Qed.

  (* any positive answer comes from a positive answer of the engine for one of the subsets *)
  Lemma os_loop_pos : forall q ng inc st pl,
      loop ng inc q = (st, pl) -> positive st = true ->
      exists w m st', In (w, m) q /\ planner m = (st', pl) /\ positive st' = true.
  Proof.
    induction q as [|[w m] q IH]; intros ng inc st pl H Hpos; simpl in H.
    - destruct inc; inversion H; subst; discriminate.
    - destruct (planner m) as [st0 pl0] eqn:Hp.
      destruct (positive st0) eqn:Hpos0.
      + inversion H; subst. exists w, m, st0. simpl. auto.
      + assert (exists inc', loop ng inc' q = (st, pl)) as [inc' H'].
        { destruct st0; try (eexists; exact H); inversion H; subst; discriminate. }
        destruct (IH _ _ _ _ H' Hpos) as [w' [m' [st' [Hin Hrest]]]].
        exists w', m', st'. simpl. auto.
  Qed.

  (* UNSOLVABLE_PROVEN: every subset was tried and every answer was taken as a proof *)
  Lemma os_loop_unsolvable : forall q ng inc pl,
      loop ng inc q = (UnsolvProven, pl) ->
      inc = false /\ Forall (fun x => silent (fst (planner (snd x))) = true) q.
  Proof.
    induction q as [|[w m] q IH]; intros ng inc pl H; simpl in H.
    - destruct inc; [discriminate|]. auto.
    - destruct (planner m) as [st pl0] eqn:Hp.
      destruct (positive st) eqn:Hpos.
      + destruct (inc || ng); discriminate.
      + destruct (status_eqb st Timeout) eqn:Et.
        * destruct st; simpl in Et; discriminate.
        * assert (st <> Timeout) as Hne by (intro; subst; discriminate).
          assert (loop ng (inc || marks_incomplete st) q = (UnsolvProven, pl)) as H'
              by (destruct st; try exact H; congruence).
          apply IH in H'. destruct H' as [Hinc Hall].
          apply orb_false_iff in Hinc. destruct Hinc as [-> Hm]. split; auto.
          constructor; auto. simpl. rewrite Hp. simpl. apply not_pos_not_marks_silent; auto.
  Qed.
End Loop.

(* ------------------------------------------------------------------ optimality *)
Section Optimal.
  Variable plan : Type.
  Variable planner : mask -> status * option plan.
  Variable valid_hard : plan -> bool.
  Variable achieved : plan -> option mask.
  Variable ws : list Qc.

  Notation vsub := (valid_sub plan valid_hard achieved).
  Notation gn := (gain plan achieved ws).

  (* one truth value per soft goal *)
  Hypothesis achieved_length : forall p a, achieved p = Some a -> length a = length ws.
  (* the engine returns only valid plans (for the derived problem it was given) *)
  Hypothesis engine_sound : forall m st pl, planner m = (st, pl) -> positive st = true ->
      exists p, pl = Some p /\ vsub m p = true.
  (* an answer that the loop takes as a proof of unsolvability is one *)
  Hypothesis engine_truthful : forall m, silent (fst (planner m)) = true -> forall p, vsub m p = false.

  Lemma vsub_self p a : valid_hard p = true -> achieved p = Some a -> vsub a p = true.
  Proof.
    intros H1 H2. unfold valid_sub. rewrite H1, H2. simpl. apply mask_eqb_eq. reflexivity.
  Qed.

  Lemma vsub_inv m p : vsub m p = true -> valid_hard p = true /\ achieved p = Some m.
  Proof.
    unfold valid_sub. intro H. apply andb_true_iff in H. destruct H as [H1 H2].
    destruct (achieved p) as [a|]; [|discriminate]. apply mask_eqb_eq in H2. subst. auto.
  Qed.

  Lemma oversub_positive_sound_lemma : forall st pl,
      oversub_solve plan planner ws = (st, pl) -> positive st = true ->
      exists p w, pl = Some p /\ valid_hard p = true /\ gn p = Some w.
  Proof.
    intros st pl H Hpos. unfold oversub_solve in H.
    destruct (os_loop_pos _ _ _ _ _ _ _ H Hpos) as [w [m [st' [Hin [Hp Hpos']]]]].
    destruct (engine_sound _ _ _ Hp Hpos') as [p [-> Hv]].
    apply vsub_inv in Hv. destruct Hv as [Hh Ha].
    exists p, (weight ws m). repeat split; auto. unfold gain. rewrite Ha. reflexivity.
  Qed.

  Lemma oversub_optimal_lemma : forall pl,
      oversub_solve plan planner ws = (SolvedOpt, pl) ->
      exists p w, pl = Some p /\ valid_hard p = true /\ gn p = Some w /\
                  forall p' w', valid_hard p' = true -> gn p' = Some w' -> (w' <= w)%Qc.
  Proof.
    intros pl H. unfold oversub_solve in H.
    apply os_loop_opt in H.
    destruct H as [_ [_ [pre [w [m [post [st [Hq [Hp [Hpos Hall]]]]]]]]]].
    destruct (engine_sound _ _ _ Hp Hpos) as [p [-> Hv]].
    apply vsub_inv in Hv. destruct Hv as [Hh Ha].
    assert (In (w, m) (queue ws)) as Hin by (rewrite Hq; apply in_or_app; right; left; reflexivity).
    apply queue_in in Hin. destruct Hin as [-> _].
    exists p, (weight ws m). repeat split; auto.
    { unfold gain. rewrite Ha. reflexivity. }
    intros p' w' Hh' Hg'. unfold gain in Hg'.
    destruct (achieved p') as [a'|] eqn:Ha'; [|discriminate]. simpl in Hg'. inversion Hg'; subst w'. clear Hg'.
    assert (In (weight ws a', a') (queue ws)) as Hin'.
    { apply queue_in. split; auto. rewrite <- (achieved_length _ _ Ha'). apply powerset_complete. }
    rewrite Hq in Hin'. apply in_app_or in Hin'. destruct Hin' as [Hin'|[Heq|Hin']].
    - rewrite Forall_forall in Hall. specialize (Hall _ Hin'). simpl in Hall.
      pose proof (vsub_self _ _ Hh' Ha') as Hc. rewrite (engine_truthful _ Hall p') in Hc. discriminate.
    - injection Heq as Hw Hm. rewrite Hw. apply Qcle_refl.
    - pose proof (sort_desc_sorted (map (fun m => (weight ws m, m)) (powerset (length ws)))) as Hs.
      fold (queue ws) in Hs. rewrite Hq in Hs. apply sorted_split in Hs.
      rewrite Forall_forall in Hs. specialize (Hs _ Hin'). unfold ge_w in Hs. simpl in Hs.
      apply qc_ltb_false_le. exact Hs.
  Qed.

  Lemma oversub_unsolvable_lemma : forall pl,
      oversub_solve plan planner ws = (UnsolvProven, pl) ->
      forall p', valid_hard p' = true -> gn p' = None.
  Proof.
    intros pl H p' Hh'. unfold oversub_solve in H. apply os_loop_unsolvable in H. destruct H as [_ Hall].
    unfold gain. destruct (achieved p') as [a'|] eqn:Ha'; [|reflexivity]. exfalso.
    assert (In (weight ws a', a') (queue ws)) as Hin'.
    { apply queue_in. split; auto. rewrite <- (achieved_length _ _ Ha'). apply powerset_complete. }
    rewrite Forall_forall in Hall. specialize (Hall _ Hin'). simpl in Hall.
    pose proof (vsub_self _ _ Hh' Ha') as Hc. rewrite (engine_truthful _ Hall p') in Hc. discriminate.
  Qed.
End Optimal.

(* the property's hypothesis "returns only valid plans and is complete" implies [engine_truthful] *)
Section SoundComplete.
  Variable plan : Type.
  Variable planner : mask -> status * option plan.
  Variable valid_hard : plan -> bool.
  Variable achieved : plan -> option mask.

  Hypothesis engine_complete : forall m, (exists p, valid_sub plan valid_hard achieved m p = true) ->
      positive (fst (planner m)) = true.

  Lemma complete_truthful : forall m, silent (fst (planner m)) = true ->
      forall p, valid_sub plan valid_hard achieved m p = false.
  Proof.
    intros m Hs p. destruct (valid_sub plan valid_hard achieved m p) eqn:E; auto.
    assert (positive (fst (planner m)) = true) as Hp by (apply engine_complete; eauto).
    destruct (fst (planner m)); simpl in *; congruence.
  Qed.
End SoundComplete.

(* ------------------------------------------------------------------ instance: the planning semantics of
   Planning/Sem.v.  The derived problem of a subset is valid exactly for the plans that are valid for the hard goals
   and end in a state where the truth values of the soft goals are the mask; the gain is the value the validator's
   oversubscription metric computes (SeqValidate.gains). *)
Require Import UPV.Planning.Problem UPV.Planning.Sem UPV.Planning.SeqValidate.

Section Planning.
  Variable sc : bool.
  Variable P : problem.
  Variable s0 : state.
  Variable gs : list (expr * Qc).

  (* the derived problem differs from P only in its goals, which a step does not read *)
  Lemma arg_tuples_soft es m sig : arg_tuples (with_soft P es m) sig = arg_tuples P sig.
  Proof.
    induction sig as [|t sig IH]; [reflexivity|]. cbn [arg_tuples]. rewrite IH. reflexivity.
  Qed.

  Lemma bound_invs_soft es m : bound_invs (with_soft P es m) = bound_invs P.
  Proof.
    unfold bound_invs. change (p_fluents (with_soft P es m)) with (p_fluents P).
    apply flat_map_ext. intro fd. destruct (fd_ty fd); try reflexivity.
    rewrite arg_tuples_soft. reflexivity.
  Qed.

  Lemma invariants_ok_soft es m s : invariants_ok sc (with_soft P es m) s = invariants_ok sc P s.
  Proof.
    unfold invariants_ok. rewrite bound_invs_soft. reflexivity.
  Qed.

  Lemma step_with_soft m s a args :
    spec_step sc (with_soft P (map fst gs) m) s a args = spec_step sc P s a args.
  Proof.
    unfold spec_step.
    change (mk_interp (with_soft P (map fst gs) m) s (zip_params (a_params a) args))
      with (mk_interp P s (zip_params (a_params a) args)).
    destruct (negb (all_hold sc (mk_interp P s (zip_params (a_params a) args)) (a_pre a))); [reflexivity|].
    destruct (fired sc (mk_interp P s (zip_params (a_params a) args)) (a_effs a)) as [acts|]; [|reflexivity].
    change (spec_effects_ok (with_soft P (map fst gs) m) s acts) with (spec_effects_ok P s acts).
    destruct (negb (spec_effects_ok P s acts)); [reflexivity|].
    change (spec_succ (with_soft P (map fst gs) m) s acts) with (spec_succ P s acts).
    rewrite invariants_ok_soft. reflexivity.
  Qed.

  Lemma run_with_soft m : forall pl s,
    run (with_soft P (map fst gs) m) (spec_step sc (with_soft P (map fst gs) m)) s pl
    = run P (spec_step sc P) s pl.
  Proof.
    induction pl as [|[aid args] pl IH]; intro s; simpl; [reflexivity|].
    change (lookup_action (with_soft P (map fst gs) m) aid) with (lookup_action P aid).
    destruct (lookup_action P aid) as [a|]; [|reflexivity].
    rewrite step_with_soft. destruct (spec_step sc P s a args); auto.
  Qed.

  Lemma holds_lits I : forall (es : list expr) (m : mask), length m = length es ->
    forallb (holds sc I) (soft_lits es m)
    = match truths sc I es with Some a => mask_eqb a m | None => false end.
  Proof.
    induction es as [|g es IH]; intros m Hl; destruct m as [|b m]; simpl in Hl; try discriminate; [reflexivity|].
    injection Hl as Hl. cbn [soft_lits forallb truths].
    rewrite (IH m Hl).
    destruct b.
    - unfold holds. destruct (eval sc g I) as [[[|]|q|o]|]; simpl; try reflexivity;
        destruct (truths sc I es); reflexivity.
    - unfold holds. rewrite eval_ENot.
      destruct (eval sc g I) as [[[|]|q|o]|]; simpl; try reflexivity;
        destruct (truths sc I es); reflexivity.
  Qed.

  Lemma truths_length I : forall (es : list expr) a, truths sc I es = Some a -> length a = length es.
  Proof.
    induction es as [|g es IH]; intros a H; simpl in H.
    - inversion H. reflexivity.
    - destruct (eval sc g I) as [[b|q|o]|]; try discriminate.
      destruct (truths sc I es) as [r|] eqn:E; [|discriminate]. inversion H. simpl. f_equal. auto.
  Qed.

  (* the derived problem means what Model/Oversub.v's [valid_sub] says *)
  Lemma valid_with_soft m pl : length m = length gs ->
    valid_plan sc (with_soft P (map fst gs) m) s0 pl
    = valid_sub _ (valid_plan sc P s0) (achieved_in sc P s0 (map fst gs)) m pl.
  Proof.
    intro Hl. unfold valid_plan, valid_sub, achieved_in. rewrite run_with_soft.
    destruct (run P (spec_step sc P) s0 pl) as [s|]; [|reflexivity].
    unfold goals_hold, all_hold.
    change (mk_interp (with_soft P (map fst gs) m) s []) with (mk_interp P s []).
    change (p_goals (with_soft P (map fst gs) m)) with (p_goals P ++ soft_lits (map fst gs) m).
    rewrite forallb_app. f_equal. apply holds_lits. rewrite map_length. exact Hl.
  Qed.

  (* the validator's metric value is the weight of the achieved mask *)
  Lemma gains_weight I : gains sc I gs = option_map (weight (map snd gs)) (truths sc I (map fst gs)).
  Proof.
    induction gs as [|[g w] l IH]; simpl; [reflexivity|].
    rewrite IH. destruct (eval sc g I) as [[b|q|o]|]; try reflexivity.
    destruct (truths sc I (map fst l)); simpl; [|reflexivity]. destruct b; reflexivity.
  Qed.

  Lemma achieved_in_length pl a : achieved_in sc P s0 (map fst gs) pl = Some a -> length a = length (map snd gs).
  Proof.
    unfold achieved_in. destruct (run P (spec_step sc P) s0 pl); [|discriminate].
    intro H. apply truths_length in H. rewrite !map_length in *. exact H.
  Qed.
End Planning.

(* final state and its gain, as the sequential validator computes them *)
Definition final_gain (sc : bool) (P : problem) (s0 : state) (gs : list (expr * Qc)) (pl : list (N * list value))
  : option Qc :=
  match run P (spec_step sc P) s0 pl with
  | Some s => gains sc (mk_interp P s []) gs
  | None => None
  end.

Lemma final_gain_gain sc P s0 gs pl :
  final_gain sc P s0 gs pl = gain _ (achieved_in sc P s0 (map fst gs)) (map snd gs) pl.
Proof.
  unfold final_gain, gain, achieved_in. destruct (run P (spec_step sc P) s0 pl); [|reflexivity].
  apply gains_weight.
Qed.

Section PlanningOptimal.
  Variable sc : bool.
  Variable P : problem.
  Variable s0 : state.
  Variable gs : list (expr * Qc).
  Definition pplan := list (N * list value).
  (* the underlying engine, as a function of the problem it is given *)
  Variable engine : problem -> status * option pplan.

  Hypothesis engine_sound : forall Q st pl, engine Q = (st, pl) -> positive st = true ->
      exists p, pl = Some p /\ valid_plan sc Q s0 p = true.
  Hypothesis engine_complete : forall Q, (exists p, valid_plan sc Q s0 p = true) -> positive (fst (engine Q)) = true.

  (* the meta engine over the concrete derived problems; masks of the wrong length never occur (powerset_length) *)
  Definition meta_planner (m : mask) : status * option pplan := engine (with_soft P (map fst gs) m).

  Lemma oversub_optimal_planning_lemma : forall pl,
      oversub_solve pplan meta_planner (map snd gs) = (SolvedOpt, pl) ->
      exists p w, pl = Some p /\ valid_plan sc P s0 p = true /\ final_gain sc P s0 gs p = Some w /\
        forall p' w', valid_plan sc P s0 p' = true -> final_gain sc P s0 gs p' = Some w' -> (w' <= w)%Qc.
  Proof.
    intros pl H.
    (* only masks of the right length are ever asked (powerset_length): reason about a planner that agrees with
       meta_planner on them and answers UNSUPPORTED elsewhere *)
    set (vh := valid_plan sc P s0). set (ach := achieved_in sc P s0 (map fst gs)).
    set (pl' := fun m => if Nat.eqb (length m) (length gs) then meta_planner m else (Unsupported, None)).
    assert (forall q ng inc, Forall (fun x => length (snd x) = length gs) q ->
                             os_loop pplan pl' ng inc q = os_loop pplan meta_planner ng inc q) as Hsame.
    { induction q as [|[w m] q IH]; intros ng inc Hq; simpl; [reflexivity|].
      inversion Hq as [|? ? Hm Hq']; subst. simpl in Hm. unfold pl' at 1. rewrite Hm, Nat.eqb_refl.
      destruct (meta_planner m) as [st pl0]. destruct (positive st); [reflexivity|].
      destruct st; try reflexivity; apply IH; auto. }
    assert (oversub_solve pplan pl' (map snd gs) = (SolvedOpt, pl)) as H'.
    { unfold oversub_solve in *. rewrite Hsame; auto.
      apply Forall_forall. intros [w m] Hin. apply queue_in in Hin. destruct Hin as [_ Hin].
      apply powerset_length in Hin. simpl. rewrite Hin. apply map_length. }
    destruct (oversub_optimal_lemma pplan pl' vh ach (map snd gs)) with (pl := pl) as [p [w [-> [Hv [Hg Hmax]]]]]; auto.
    - intros p a. apply achieved_in_length.
    - intros m st pl0 Hp Hpos. unfold pl' in Hp.
      destruct (Nat.eqb (length m) (length gs)) eqn:El; [|inversion Hp; subst; discriminate].
      apply Nat.eqb_eq in El. unfold meta_planner in Hp.
      destruct (engine_sound _ _ _ Hp Hpos) as [p [-> Hv]]. exists p. split; auto.
      rewrite valid_with_soft in Hv; auto.
    - intros m Hs p. unfold pl' in Hs.
      destruct (Nat.eqb (length m) (length gs)) eqn:El; [|discriminate].
      apply Nat.eqb_eq in El.
      destruct (valid_sub pplan vh ach m p) eqn:E; auto.
      assert (positive (fst (meta_planner m)) = true) as Hp.
      { unfold meta_planner. apply engine_complete. exists p. rewrite valid_with_soft; auto. }
      destruct (fst (meta_planner m)); simpl in *; congruence.
    - exists p, w. repeat split; auto.
      + rewrite final_gain_gain. exact Hg.
      + intros p' w' Hv' Hg'. apply (Hmax p' w' Hv'). rewrite final_gain_gain in Hg'. exact Hg'.
  Qed.
End PlanningOptimal.

(* ------------------------------------------------------------------ the statement in terms of reachable states:
   [exec p] is the final state of plan p (None when p is not executable from the initial state), so the reachable
   states are the [s] with [exec p = Some s] for some p; [hard s]: the hard goals hold in s; [truth s]: the truth
   values of the soft goals in s. *)
Section States.
  Variable plan state : Type.
  Variable exec : plan -> option state.
  Variable hard : state -> bool.
  Variable truth : state -> option mask.
  Variable ws : list Qc.
  Variable planner : mask -> status * option plan.

  Definition st_valid_hard (p : plan) : bool := match exec p with Some s => hard s | None => false end.
  Definition st_achieved (p : plan) : option mask := match exec p with Some s => truth s | None => None end.
  Definition st_gain (s : state) : option Qc := option_map (weight ws) (truth s).

  Hypothesis truth_length : forall s a, truth s = Some a -> length a = length ws.
  Hypothesis engine_sound : forall m st pl, planner m = (st, pl) -> positive st = true ->
      exists p, pl = Some p /\ valid_sub plan st_valid_hard st_achieved m p = true.
  Hypothesis engine_complete : forall m, (exists p, valid_sub plan st_valid_hard st_achieved m p = true) ->
      positive (fst (planner m)) = true.

  Lemma st_achieved_length p a : st_achieved p = Some a -> length a = length ws.
  Proof. unfold st_achieved. destruct (exec p); [apply truth_length|discriminate]. Qed.

  Lemma oversub_optimal_states : forall pl,
      oversub_solve plan planner ws = (SolvedOpt, pl) ->
      exists p s w, pl = Some p /\ exec p = Some s /\ hard s = true /\ st_gain s = Some w /\
        forall p' s' w', exec p' = Some s' -> hard s' = true -> st_gain s' = Some w' -> (w' <= w)%Qc.
  Proof.
    intros pl H.
    destruct (oversub_optimal_lemma plan planner st_valid_hard st_achieved ws st_achieved_length engine_sound
                (complete_truthful plan planner st_valid_hard st_achieved engine_complete) pl H)
      as [p [w [-> [Hv [Hg Hmax]]]]].
    unfold st_valid_hard in Hv. unfold gain, st_achieved in Hg.
    destruct (exec p) as [s|] eqn:He; [|discriminate].
    exists p, s, w. repeat split; auto.
    intros p' s' w' He' Hh' Hg'. apply (Hmax p' w').
    - unfold st_valid_hard. rewrite He'. exact Hh'.
    - unfold gain, st_achieved. rewrite He'. exact Hg'.
  Qed.

  Lemma oversub_unsolvable_states : forall pl,
      oversub_solve plan planner ws = (UnsolvProven, pl) ->
      forall p' s', exec p' = Some s' -> hard s' = true -> st_gain s' = None.
  Proof.
    intros pl H p' s' He' Hh'.
    pose proof (oversub_unsolvable_lemma plan planner st_valid_hard st_achieved ws st_achieved_length
                  (complete_truthful plan planner st_valid_hard st_achieved engine_complete) pl H p') as Hn.
    unfold st_valid_hard, gain, st_achieved in Hn. rewrite He' in Hn. apply Hn. exact Hh'.
  Qed.

  Lemma oversub_positive_states : forall st pl,
      oversub_solve plan planner ws = (st, pl) -> positive st = true ->
      exists p s w, pl = Some p /\ exec p = Some s /\ hard s = true /\ st_gain s = Some w.
  Proof.
    intros st pl H Hpos.
    destruct (oversub_positive_sound_lemma plan planner st_valid_hard st_achieved ws engine_sound st pl H Hpos)
      as [p [w [-> [Hv Hg]]]].
    unfold st_valid_hard in Hv. unfold gain, st_achieved in Hg.
    destruct (exec p) as [s|] eqn:He; [|discriminate].
    exists p, s, w. auto.
  Qed.
End States.
