(* C11 — proofs about Walkers/Simplify.v.  The development is split into
     Simplify_base   unfolding equations, free variables of the list constructors
     Simplify_fv     no new free variable
     Simplify_sem    coincidence, instances as typed assignments, strict q_fold, refinement congruence, substitution
     Simplify_wf     the side conditions qfree / wfx
     Simplify_wfp    their preservation by substitution and by the simplifier
     Simplify_sound  env_ok, soundness of every non-quantifier node function
     Simplify_quant  soundness of walk_exists / walk_forall, the main induction
     Simplify_nf     normal form, idempotence
     Simplify_raises where walk_div raises, the expression has no value
   This file states the results about the top-level [simplify]. *)
From Coq Require Import List ZArith NArith QArith Qcanon Bool.
Import ListNotations.
Require Import UPV.Core.Expr UPV.Core.Eval UPV.Walkers.Simplify.
Require Export UPV.Proofs.Simplify_base UPV.Proofs.Simplify_fv UPV.Proofs.Simplify_sem UPV.Proofs.Simplify_wf
  UPV.Proofs.Simplify_wfp UPV.Proofs.Simplify_sound UPV.Proofs.Simplify_quant UPV.Proofs.Simplify_nf UPV.Proofs.Simplify_raises.

Lemma simplify_some G e e' : simplify G e = Some e' -> e' = simp G (size e) e.
Proof. unfold simplify. destruct (simp_ok G (size e) e); [|discriminate]. intros H; inversion H; reflexivity. Qed.

Theorem simplify_sound G tau QT S e e' I v :
  cfg_consts G -> wfx tau QT S e = true -> env_ok G tau QT I ->
  simplify G e = Some e' -> eval false e I = Some v -> eval false e' I = Some v.
Proof.
  intros HG W E H. rewrite (simplify_some _ _ _ H). apply (simp_sound G tau QT HG (size e) e S I W E).
Qed.

Theorem simplify_no_new_free_vars G e e' :
  cfg_consts G -> simplify G e = Some e' -> incl (free_vars e') (free_vars e).
Proof. intros HG H. rewrite (simplify_some _ _ _ H). apply simp_fv. exact HG. Qed.

Theorem simplify_idempotent G e e' :
  cfg_consts G -> simplify G e = Some e' -> simplify G e' = Some e'.
Proof. intros HG. apply simplify_idem. exact HG. Qed.

(* the side conditions are preserved, so the theorems compose over repeated simplification *)
Theorem simplify_preserves_wfx G tau QT S e e' :
  cfg_consts G -> wfx tau QT S e = true -> simplify G e = Some e' -> wfx tau QT S e' = true.
Proof. intros HG W H. rewrite (simplify_some _ _ _ H). apply simp_wf; assumption. Qed.

(* for every fuel: soundness and free variables do not depend on the re-simplification bound *)
Theorem simp_sound_any_fuel G tau QT S n e I v :
  cfg_consts G -> wfx tau QT S e = true -> env_ok G tau QT I ->
  eval false e I = Some v -> eval false (simp G n e) I = Some v.
Proof. intros HG W E. apply (simp_sound G tau QT HG n e S I W E). Qed.

(* the Python code raises only on a divisor that simplifies to the constant 0; such an expression has no value *)
Theorem raises_only_without_value G tau QT strict S n e I :
  cfg_consts G -> wfx tau QT S e = true -> env_ok G tau QT I -> raises G strict n e = true -> eval false e I = None.
Proof. intros HG W E. apply (raises_no_value G tau QT strict HG n e S I W E). Qed.
