From Coq Require Import List ZArith NArith QArith Qcanon Bool Lia.
Import ListNotations.
Require Import UPV.Core.Expr UPV.Core.Eval UPV.Proofs.Eval_lemmas UPV.Walkers.Simplify.

Lemma walk_not_involutive_on_not c : walk_not (ENot (ENot c)) = ENot c.
Proof. reflexivity. Qed.
