(* Facts about the REGENERATED tables Gen_Kind.gen_tables (decided by computation over the finite tables). *)
From Coq Require Import List NArith ZArith Bool Lia.
Import ListNotations.
Require Import UPV.Model.Kind UPV.Proofs.Kind_proofs UPV.Gen.Gen_Kind.

Lemma gen_tables_ok : tables_ok gen_tables = true.
Proof. vm_compute. reflexivity. Qed.

(* the feature numbering is a bijection onto the name table, and every class of FEATURES lists known features *)
Definition names_consistent : bool :=
  Nat.eqb (length all_features) (length (nodup N.eq_dec all_features))
  && forallb (fun f => N.ltb f (N.of_nat (length feature_names))) all_features
  && forallb (fun cf => forallb (fun f => existsb (N.eqb f) all_features) (snd cf)) FEATURES
  && forallb (fun f => existsb (fun cf => existsb (N.eqb f) (snd cf)) FEATURES) all_features.
Lemma gen_names_consistent : names_consistent = true.
Proof. vm_compute. reflexivity. Qed.

Lemma gen_upgrade_monotone a b w a' :
  wf gen_tables a = true -> wf gen_tables b = true -> version gen_tables a = version gen_tables b ->
  (version gen_tables a <= w <= LATEST_PROBLEM_KIND_VERSION)%N ->
  le gen_tables a b = Ok true -> upgraded gen_tables a w = Some a' ->
  exists b', upgraded gen_tables b w = Some b' /\ wf gen_tables a' = true /\ wf gen_tables b' = true
             /\ le gen_tables a' b' = Ok true.
Proof. apply (upgrade_monotone gen_tables gen_tables_ok). Qed.

Lemma gen_le_defined a b : wf gen_tables a = true -> wf gen_tables b = true ->
  (version gen_tables a <= LATEST_PROBLEM_KIND_VERSION)%N -> (version gen_tables b <= LATEST_PROBLEM_KIND_VERSION)%N ->
  exists r, le gen_tables a b = Ok r.
Proof. apply (le_defined gen_tables gen_tables_ok). Qed.
