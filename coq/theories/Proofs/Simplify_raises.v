(* Where the implementation raises (a divisor that simplifies to the constant 0), the expression has no value:
   [raises G strict n e = true -> eval false e I = None].  So the exceptions of walk_div (ZeroDivisionError /
   AssertionError, and the type checker's ZeroDivisionError when Div(l, 0) is built) never hide a defined value. *)
From Coq Require Import List ZArith NArith QArith Qcanon Bool Lia.
Import ListNotations.
Require Import UPV.Core.Expr UPV.Core.Eval UPV.Proofs.Eval_lemmas UPV.Walkers.Simplify UPV.Proofs.Simplify_base
  UPV.Proofs.Simplify_fv UPV.Proofs.Simplify_sem UPV.Proofs.Simplify_wf UPV.Proofs.Simplify_wfp UPV.Proofs.Simplify_sound
  UPV.Proofs.Simplify_quant.
Local Open Scope nat_scope.

Section UnfoldRaises.
  Variables (G : cfg) (s : bool) (n : nat).
  Lemma rs_leaf e : match e with EBool _ | EInt _ | EReal _ | EObj _ | EParam _ | EVar _ _ => raises G s n e = false | _ => True end.
  Proof. destruct e; try exact I; destruct n; reflexivity. Qed.
  Lemma rs_EFluent f l : raises G s n (EFluent f l) = existsb (raises G s n) l. Proof. destruct n; reflexivity. Qed.
  Lemma rs_EIFun f l : raises G s n (EIFun f l) = existsb (raises G s n) l. Proof. destruct n; reflexivity. Qed.
  Lemma rs_EAnd l : raises G s n (EAnd l) = existsb (raises G s n) l. Proof. destruct n; reflexivity. Qed.
  Lemma rs_EOr l : raises G s n (EOr l) = existsb (raises G s n) l. Proof. destruct n; reflexivity. Qed.
  Lemma rs_EPlus l : raises G s n (EPlus l) = existsb (raises G s n) l. Proof. destruct n; reflexivity. Qed.
  Lemma rs_ETimes l : raises G s n (ETimes l) = existsb (raises G s n) l. Proof. destruct n; reflexivity. Qed.
  Lemma rs_ENot a : raises G s n (ENot a) = raises G s n a. Proof. destruct n; reflexivity. Qed.
  Lemma rs_EForall vs a : raises G s n (EForall vs a) = raises G s n a. Proof. destruct n; reflexivity. Qed.
  Lemma rs_EImplies a b : raises G s n (EImplies a b) = raises G s n a || raises G s n b. Proof. destruct n; reflexivity. Qed.
  Lemma rs_EIff a b : raises G s n (EIff a b) = raises G s n a || raises G s n b. Proof. destruct n; reflexivity. Qed.
  Lemma rs_EMinus a b : raises G s n (EMinus a b) = raises G s n a || raises G s n b. Proof. destruct n; reflexivity. Qed.
  Lemma rs_ELe a b : raises G s n (ELe a b) = raises G s n a || raises G s n b. Proof. destruct n; reflexivity. Qed.
  Lemma rs_ELt a b : raises G s n (ELt a b) = raises G s n a || raises G s n b. Proof. destruct n; reflexivity. Qed.
  Lemma rs_EEquals a b : raises G s n (EEquals a b) = raises G s n a || raises G s n b. Proof. destruct n; reflexivity. Qed.
  Lemma rs_EDiv a b :
    raises G s n (EDiv a b) = raises G s n a || raises G s n b || div0 s (simp G n a) (simp G n b).
  Proof. destruct n; reflexivity. Qed.
  Lemma rs_EExists vs a :
    raises G s n (EExists vs a) =
    raises G s n a ||
    (let body := simp G n a in
     let vs0 := prune G vs body in
     match elim_step G vs0 body with
     | None => false
     | Some _ =>
         match n with
         | O => false
         | S n' => let '(vs1, b1) := elim_loop G (length vs0) vs0 body in raises G s n' (mkExists vs1 b1)
         end
     end).
  Proof. destruct n; reflexivity. Qed.
End UnfoldRaises.

Lemma evals_none I l x : In x l -> eval false x I = None -> evals false I l = None.
Proof.
  induction l as [|y l IH]; intros Hin Hn; [destruct Hin|]. cbn [evals]. destruct Hin as [->|Hin].
  - rewrite Hn. reflexivity.
  - rewrite (IH Hin Hn). destruct (eval false y I); reflexivity.
Qed.
Lemma ebools_none I l x : In x l -> eval false x I = None -> ebools false I l = None.
Proof.
  induction l as [|y l IH]; intros Hin Hn; [destruct Hin|]. cbn [ebools]. destruct Hin as [->|Hin].
  - rewrite Hn. reflexivity.
  - rewrite (IH Hin Hn). destruct (as_bool (eval false y I)); reflexivity.
Qed.
Lemma enums_none I l x : In x l -> eval false x I = None -> enums false I l = None.
Proof.
  induction l as [|y l IH]; intros Hin Hn; [destruct Hin|]. cbn [enums]. destruct Hin as [->|Hin].
  - rewrite Hn. reflexivity.
  - rewrite (IH Hin Hn). destruct (as_num (eval false y I)); reflexivity.
Qed.

Lemma instances_nonempty I vs : (forall p, In p vs -> objs I (snd p) <> []) -> instances I vs <> [].
Proof.
  revert I. induction vs as [|[v ty] vs IH]; intros I H; cbn [instances]; [discriminate|].
  assert (Ho : objs I ty <> []) by (apply (H (v, ty)); left; reflexivity).
  destruct (objs I ty) as [|o r] eqn:E; [congruence|]. cbn [flat_map].
  assert (Hn : instances (bind_var I v o) vs <> []) by (apply IH; intros p Hp; apply (H p); right; exact Hp).
  destruct (instances (bind_var I v o) vs); [congruence|discriminate].
Qed.

Section Raises.
  Variables (G : cfg) (tau : N -> N) (QT : N -> bool) (strict : bool).
  Hypothesis HG : cfg_consts G.
  Notation wf := (wfx tau QT).
  Notation eok := (env_ok G tau QT).

  Lemma quant_none ex I S vs a :
    eok I -> binders_ok tau QT S vs = true ->
    (forall J, eok J -> eval false a J = None) -> eval false (EQ ex vs a) I = None.
  Proof.
    intros E W H. apply binders_ok_spec in W. destruct W as [A ND]. rewrite eval_EQ.
    assert (Hne : instances I vs <> []).
    { apply instances_nonempty. intros p Hp. destruct (A p Hp) as (_ & A2 & _). apply (ok_inh _ _ _ _ E). exact A2. }
    destruct (instances I vs) as [|J L] eqn:EL; [congruence|]. cbn [map q_fold].
    rewrite (H J); [reflexivity|]. eapply env_ok_inst; eauto.
    - intros p Hp. apply A. exact Hp.
    - rewrite EL. left. reflexivity.
  Qed.

  Lemma existsb_raises_in n l : existsb (raises G strict n) l = true -> exists x, In x l /\ raises G strict n x = true.
  Proof. apply existsb_exists. Qed.

  Lemma raises_gen n :
    (forall x S I, wf S x = true -> eok I ->
       (match n with O => false | S n' => raises G strict n' x end) = true -> eval false x I = None) ->
    forall e S I, wf S e = true -> eok I -> raises G strict n e = true -> eval false e I = None.
  Proof.
    intros Hrs.
    induction e using expr_ind'; intros S I W E Rz;
      try (pose proof (rs_leaf G strict n (EBool b)) as L; simpl in L; congruence);
      cbn [wfx] in W.
    - pose proof (rs_leaf G strict n (EInt z)) as L; simpl in L; congruence.
    - pose proof (rs_leaf G strict n (EReal q)) as L; simpl in L; congruence.
    - pose proof (rs_leaf G strict n (EObj o)) as L; simpl in L; congruence.
    - pose proof (rs_leaf G strict n (EParam p)) as L; simpl in L; congruence.
    - pose proof (rs_leaf G strict n (EVar v t)) as L; simpl in L; congruence.
    - rewrite rs_EFluent in Rz. destruct (existsb_raises_in _ _ Rz) as [x [Hx Rx]]. rewrite eval_EFluent.
      rewrite forallb_forall in W. specialize (W x Hx). apply andb_true_iff in W. rewrite Forall_forall in H.
      rewrite (evals_none I args x Hx (H x Hx S I (proj2 W) E Rx)). reflexivity.
    - rewrite rs_EIFun in Rz. destruct (existsb_raises_in _ _ Rz) as [x [Hx Rx]]. rewrite eval_EIFun.
      rewrite forallb_forall in W. specialize (W x Hx). apply andb_true_iff in W. rewrite Forall_forall in H.
      rewrite (evals_none I args x Hx (H x Hx S I (proj2 W) E Rx)). reflexivity.
    - rewrite rs_EAnd in Rz. destruct (existsb_raises_in _ _ Rz) as [x [Hx Rx]]. rewrite eval_EAnd.
      rewrite forallb_forall in W. rewrite Forall_forall in H.
      rewrite (ebools_none I l x Hx (H x Hx S I (W x Hx) E Rx)). reflexivity.
    - rewrite rs_EOr in Rz. destruct (existsb_raises_in _ _ Rz) as [x [Hx Rx]]. rewrite eval_EOr.
      rewrite forallb_forall in W. rewrite Forall_forall in H.
      rewrite (ebools_none I l x Hx (H x Hx S I (W x Hx) E Rx)). reflexivity.
    - rewrite rs_ENot in Rz. rewrite eval_ENot, (IHe S I W E Rz). reflexivity.
    - rewrite rs_EImplies in Rz. apply andb_true_iff in W. destruct W as [W1 W2]. rewrite eval_EImplies.
      apply orb_true_iff in Rz. destruct Rz as [Rz|Rz].
      + rewrite (IHe1 S I W1 E Rz). reflexivity.
      + rewrite (IHe2 S I W2 E Rz). destruct (as_bool (eval false e1 I)); reflexivity.
    - rewrite rs_EIff in Rz. apply andb_true_iff in W. destruct W as [W1 W2]. rewrite eval_EIff.
      apply orb_true_iff in Rz. destruct Rz as [Rz|Rz].
      + rewrite (IHe1 S I W1 E Rz). reflexivity.
      + rewrite (IHe2 S I W2 E Rz). destruct (as_bool (eval false e1 I)); reflexivity.
    - (* EExists *)
      rewrite rs_EExists in Rz. apply andb_true_iff in W. destruct W as [W1 W2].
      apply orb_true_iff in Rz. destruct Rz as [Rz|Rz].
      + apply (quant_none true I S vs e E W1). intros J EJ. exact (IHe _ J W2 EJ Rz).
      + cbv zeta in Rz.
        destruct (elim_step G (prune G vs (simp G n e)) (simp G n e)) as [p|] eqn:ES; [|discriminate].
        destruct n as [|n']; [discriminate|].
        destruct (elim_loop G (length (prune G vs (simp G (Datatypes.S n') e))) (prune G vs (simp G (Datatypes.S n') e)) (simp G (Datatypes.S n') e)) as [vs1 b1] eqn:L.
        assert (U : walk_exists G (fun x => x) vs (simp G (Datatypes.S n') e) = mkExists vs1 b1).
        { unfold walk_exists. rewrite ES, L. reflexivity. }
        assert (Wb : wf S (EExists vs (simp G (Datatypes.S n') e)) = true).
        { cbn [wfx]. rewrite W1. cbn [andb]. apply simp_wf; assumption. }
        assert (Wm : wf S (mkExists vs1 b1) = true).
        { rewrite <- U. apply (wf_walk_exists tau QT G (fun x => x) vs _ S HG); [auto|exact Wb]. }
        assert (Nn := Hrs _ S I Wm E Rz).
        destruct (eval false (EExists vs e) I) as [v|] eqn:V; [|reflexivity]. exfalso.
        assert (R1 : R I I (EExists vs e) (EExists vs (simp G (Datatypes.S n') e))).
        { assert (W1' := W1). apply binders_ok_spec in W1'. destruct W1' as [A ND].
          apply (cong_EQ_F2 true I I vs vs e (simp G (Datatypes.S n') e)). apply Forall2_diag. intros J HJ.
          apply (simp_sound G tau QT HG (Datatypes.S n') e _ J W2). eapply env_ok_inst; eauto. intros q Hq. apply A. exact Hq. }
        assert (R2 : R I I (EExists vs (simp G (Datatypes.S n') e)) (mkExists vs1 b1)).
        { rewrite <- U. apply (sound_walk_exists G tau QT HG (fun x => x) I S); [|exact E|exact Wb].
          intros x S' I' _ _. apply R_refl. }
        rewrite (R2 _ (R1 _ V)) in Nn. discriminate.
    - rewrite rs_EForall in Rz. apply andb_true_iff in W. destruct W as [W1 W2].
      apply (quant_none false I S vs e E W1). intros J EJ. exact (IHe _ J W2 EJ Rz).
    - rewrite rs_EPlus in Rz. destruct (existsb_raises_in _ _ Rz) as [x [Hx Rx]]. rewrite eval_EPlus.
      rewrite forallb_forall in W. rewrite Forall_forall in H.
      rewrite (enums_none I l x Hx (H x Hx S I (W x Hx) E Rx)). reflexivity.
    - rewrite rs_EMinus in Rz. apply andb_true_iff in W. destruct W as [W1 W2]. rewrite eval_EMinus.
      apply orb_true_iff in Rz. destruct Rz as [Rz|Rz].
      + rewrite (IHe1 S I W1 E Rz). reflexivity.
      + rewrite (IHe2 S I W2 E Rz). destruct (as_num (eval false e1 I)); reflexivity.
    - rewrite rs_ETimes in Rz. destruct (existsb_raises_in _ _ Rz) as [x [Hx Rx]]. rewrite eval_ETimes.
      rewrite forallb_forall in W. rewrite Forall_forall in H.
      rewrite (enums_none I l x Hx (H x Hx S I (W x Hx) E Rx)). reflexivity.
    - (* EDiv *)
      rewrite rs_EDiv in Rz. apply andb_true_iff in W. destruct W as [W1 W2]. rewrite eval_EDiv.
      apply orb_true_iff in Rz. destruct Rz as [Rz|Rz]; [apply orb_true_iff in Rz; destruct Rz as [Rz|Rz]|].
      + rewrite (IHe1 S I W1 E Rz). reflexivity.
      + rewrite (IHe2 S I W2 E Rz). destruct (as_num (eval false e1 I)); reflexivity.
      + unfold div0 in Rz. destruct (num_of (simp G n e2)) as [z|] eqn:Nz; [|discriminate].
        apply andb_true_iff in Rz. destruct Rz as [Z0 _]. apply num_is0_spec in Z0.
        destruct (as_num (eval false e1 I)) as [x|]; [|reflexivity].
        destruct (eval false e2 I) as [v2|] eqn:V2; [|reflexivity].
        assert (V2' := simp_sound G tau QT HG n e2 S I W2 E _ V2).
        rewrite (eval_num_of false I _ z Nz) in V2'. inversion V2'; subst. cbn [as_num]. rewrite Z0. reflexivity.
    - rewrite rs_ELe in Rz. apply andb_true_iff in W. destruct W as [W1 W2]. rewrite eval_ELe.
      apply orb_true_iff in Rz. destruct Rz as [Rz|Rz].
      + rewrite (IHe1 S I W1 E Rz). reflexivity.
      + rewrite (IHe2 S I W2 E Rz). destruct (as_num (eval false e1 I)); reflexivity.
    - rewrite rs_ELt in Rz. apply andb_true_iff in W. destruct W as [W1 W2]. rewrite eval_ELt.
      apply orb_true_iff in Rz. destruct Rz as [Rz|Rz].
      + rewrite (IHe1 S I W1 E Rz). reflexivity.
      + rewrite (IHe2 S I W2 E Rz). destruct (as_num (eval false e1 I)); reflexivity.
    - rewrite rs_EEquals in Rz. apply andb_true_iff in W. destruct W as [W1 W2]. rewrite eval_EEquals.
      apply orb_true_iff in Rz. destruct Rz as [Rz|Rz].
      + rewrite (IHe1 S I W1 E Rz). reflexivity.
      + rewrite (IHe2 S I W2 E Rz). destruct (eval false e1 I) as [[x|x|x]|]; reflexivity.
    - reflexivity.
    - reflexivity.
    - reflexivity.
    - reflexivity.
    - reflexivity.
  Qed.

  Theorem raises_no_value n : forall e S I, wf S e = true -> eok I -> raises G strict n e = true -> eval false e I = None.
  Proof.
    induction n as [|n IHn]; apply raises_gen.
    - intros x S I _ _ H. discriminate.
    - intros x S I W E H. eapply IHn; eauto.
  Qed.
End Raises.
