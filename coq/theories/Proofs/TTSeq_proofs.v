(* C04: proofs — see Props/C04.v *)
(* C04: on plans of instantaneous actions with pairwise distinct start times the model of the time-triggered validator
   and the model of the sequential validator give the same verdict. *)
From Coq Require Import List ZArith NArith QArith Qcanon Bool Lia Lqa Permutation.
Import ListNotations.
Require Import UPV.Core.Expr UPV.Core.Eval UPV.Core.Interp UPV.Planning.Problem UPV.Planning.Sem UPV.Planning.SeqValidate.
Require Import UPV.Planning.Temporal UPV.Planning.TTValidate UPV.Planning.TTSeq.
Require Import UPV.Proofs.Eval_lemmas UPV.Proofs.Sem_proofs UPV.Proofs.Step_proofs.
Require Import UPV.Proofs.Temporal_base UPV.Proofs.Temporal_dense UPV.Proofs.Temporal_joint UPV.Proofs.Temporal_loop
               UPV.Proofs.Temporal_run UPV.Proofs.Temporal_proofs.
Local Open Scope Qc_scope.

(* ------------------------------------------------------------------ list facts *)
Lemma hpush_all_sorted_app L : forall h, sortedT (h ++ L) -> hpush_all L h = h ++ L.
Proof.
  induction L as [|e L IH]; intros h S; [rewrite app_nil_r; reflexivity|].
  unfold hpush_all in *. cbn [fold_left].
  assert (E : hpush e h = h ++ [e]).
  { rewrite <- (app_nil_r h) at 1. rewrite hpush_prefix; [reflexivity|].
    intros x Hx. apply (sortedT_app_lt h (e :: L) x e S Hx). left; reflexivity. }
  rewrite E. rewrite IH; [rewrite <- app_assoc; reflexivity|]. rewrite <- app_assoc. exact S.
Qed.

Fixpoint strictT (h : list event) : Prop :=
  match h with [] => True | e :: r => (forall x, In x r -> ev_time e < ev_time x) /\ strictT r end.

Lemma strictT_sorted h : strictT h -> sortedT h.
Proof.
  induction h as [|e r IH]; [auto|]. intros [H1 H2]. split; [|apply IH, H2].
  intros x Hx. specialize (H1 x Hx). qco.
Qed.

Lemma groups_strict h : strictT h -> groups h = map (fun e => (ev_time e, [e])) h.
Proof.
  induction h as [|e r IH]; intros S; [reflexivity|]. destruct S as [S1 S2]. cbn [groups map].
  rewrite (IH S2). destruct r as [|y r0]; [reflexivity|]. cbn [map].
  assert (E : qc_eqb (ev_time e) (ev_time y) = false).
  { apply qc_eqb_false. intros EE. specialize (S1 y (or_introl eq_refl)). rewrite EE in S1. qco. }
  rewrite E. reflexivity.
Qed.

(* state in force at a key of the trace: the state before that entry *)
Lemma state_at_key (pre : trace) : forall s0 t s post,
  asc_from minus1 (keys (pre ++ (t, s) :: post)) -> state_at s0 (pre ++ (t, s) :: post) t = final_state s0 pre.
Proof.
  induction pre as [|[x sx] pre IH]; intros s0 t s post A.
  - cbn. assert (E : qc_ltb t t = false) by (apply qc_ltb_false, Qcle_refl). rewrite E. reflexivity.
  - cbn [app state_at final_state]. cbn in A. destruct A as [A1 A2].
    assert (L : x < t).
    { apply (asc_from_gt x _ A2 t). unfold keys. rewrite map_app. apply in_or_app. right. left. reflexivity. }
    assert (E : qc_ltb x t = true) by (apply qc_ltb_lt, L). rewrite E.
    apply IH. apply (asc_from_weaken x minus1); [qco | exact A2].
Qed.

Lemma state_at_before (tr : trace) s0 u : (forall x, In x (keys tr) -> u <= x) -> state_at s0 tr u = s0.
Proof.
  destruct tr as [|[x s] tr]; intros H; [reflexivity|]. cbn.
  assert (E : qc_ltb x u = false) by (apply qc_ltb_false, H; left; reflexivity). rewrite E. reflexivity.
Qed.

(* a condition over "every instant from 0 on" holds iff it holds in the initial state and in every state of the trace *)
Lemma always_spec sc TP (s0 : state) (tr : trace) (c : expr) :
  asc_from minus1 (keys tr) -> (forall x, In x (keys tr) -> zq 0 <= x) ->
  (cond_ok sc TP s0 tr {| tc_iv := always_interval; tc_bind := []; tc_expr := c |} <->
   holds_in sc TP s0 [] c = true /\ forall x s, In (x, s) tr -> holds_in sc TP s [] c = true).
Proof.
  intros A K. unfold cond_ok. cbn [tc_iv tc_bind tc_expr]. split.
  - intros H. split.
    + rewrite <- (state_at_before tr s0 (zq 0) K). apply H. split; [apply Qcle_refl | exact I].
    + intros x s Hin.
      assert (Hk : In x (keys tr)) by (change x with (fst (x, s)); apply in_map, Hin).
      destruct (instant_after (keys ((minus1, s0) :: tr)) x None I) as [u [U1 [_ U3]]].
      assert (Hm : minus1 < u) by (pose proof minus1_lt0; specialize (K x Hk); qco).
      rewrite <- (state_at_of_in_force tr minus1 s0 u x s A Hm (or_intror Hin) (conj U1 U3)).
      apply H. split; [specialize (K x Hk); cbn; qco | exact I].
  - intros [H0 H1] u [U _]. cbn in U.
    assert (Hm : minus1 < u) by (pose proof minus1_lt0; qco).
    destruct (state_at_in_force tr minus1 s0 u A Hm) as [x [s [Hin [_ St]]]]. rewrite St.
    destruct Hin as [Hin|Hin]; [inversion Hin as [[Hx Hs]]; rewrite <- Hs; exact H0 | apply (H1 x s Hin)].
Qed.

(* ------------------------------------------------------------------ one instance: _apply_effects = the simulator's loop *)
Lemma src_ok_single (x : src) (l : list aeff) : forall asg,
  (forall k ow, owner k asg = Some ow -> ow = x) -> src_ok asg (map (fun a => (x, a)) l) = true.
Proof.
  induction l as [|a l IH]; intros asg H; [reflexivity|]. cbn [map src_ok].
  destruct (is_assign a); [|apply IH, H].
  destruct (owner (ae_key a) asg) as [ow|] eqn:E.
  - rewrite (H _ _ E), src_eqb_refl. cbn. apply IH, H.
  - apply IH. intros k ow. cbn [owner]. destruct (gfl_eqb k (ae_key a)); [intros HH; inversion HH; reflexivity | apply H].
Qed.

Lemma single_event_step sc P (s s' : state) (e : event) :
  state_eq s s' ->
  (forall acts, fired sc (mk_interp P s' (ev_bind e)) (ev_effs e) = Some acts -> forallb (wt_aeff P) acts = true) ->
  match fired sc (mk_interp P s' (ev_bind e)) (ev_effs e) with
  | None => tt_apply_effects sc P s [e] = None
  | Some acts =>
      match sim_loop P s' ([], []) acts with
      | None => tt_apply_effects sc P s [e] = None
      | Some (upd, _) => exists s1, tt_apply_effects sc P s [e] = Some s1 /\ state_eq s1 (apply_upd s' upd)
      end
  end.
Proof.
  intros SE WT. unfold tt_apply_effects. cbn [fire_events].
  rewrite (fired_ext sc (ev_effs e) _ _ (mk_interp_ext P s s' (ev_bind e) SE)).
  destruct (fired sc (mk_interp P s' (ev_bind e)) (ev_effs e)) as [acts|] eqn:EF; [|reflexivity].
  rewrite app_nil_r. rewrite (tt_loop_ext P s s' _ SE).
  set (l := map (fun a => (ev_src e, a)) acts).
  assert (ML : map snd l = acts) by (unfold l; rewrite map_map; cbn; apply map_id).
  assert (WT' : forallb (wt_aeff P) (map snd l) = true) by (rewrite ML; apply WT; reflexivity).
  pose proof (tt_loop_sim P s' l WT' ([], []) ([], []) (rel_init P)) as L. rewrite ML in L.
  destruct (sim_loop P s' ([], []) acts) as [[upd asg]|]; [|fold l; rewrite L; reflexivity].
  cbn [snd] in L. unfold l in L at 1. rewrite (src_ok_single (ev_src e) acts []) in L by (intros k ow HH; discriminate).
  destruct L as [[upd' asg'] [E [R _]]]. fold l. rewrite E. eexists. split; [reflexivity|].
  intros f x. unfold apply_upd. cbn [fst] in R. rewrite (R (f, x)). destruct (alookup (f, x) upd); [reflexivity | apply SE].
Qed.

Section Agree.
  Variable sc : bool.
  Variable TP : tproblem.
  Let P := tp_base TP.
  Hypothesis INST : instantaneous TP.
  Hypothesis NOT : no_timed TP.
  Hypothesis TY : plan_typed sc P.

  Lemma lookup_tact_inst aid : lookup_tact TP aid = option_map TInst (lookup_action P aid).
  Proof.
    unfold lookup_tact, lookup_action. fold P. destruct (lookupN aid (p_actions P)); [reflexivity|].
    unfold instantaneous in INST. rewrite INST. reflexivity.
  Qed.

  (* the scheduled entry of a step *)
  Definition ev_of (ist : nat * pstep) (a : action) : event :=
    {| ev_time := ps_start (snd ist); ev_src := Some (fst ist);
       ev_bind := zip_params (a_params a) (ps_args (snd ist)); ev_effs := a_effs a |}.

  Lemma evs_of_inst ist a : lookup_action P (ps_act (snd ist)) = Some a -> evs_of TP ist = [ev_of ist a].
  Proof. intros H. unfold evs_of, step_events. rewrite lookup_tact_inst, H. reflexivity. Qed.

  (* all steps resolve to an action *)
  Definition resolved (L : list (nat * pstep)) : Prop := forall ist, In ist L -> exists a, lookup_action P (ps_act (snd ist)) = Some a.

  (* ---------------- the model's run over the steps in start-time order *)
  Fixpoint mrun (s : state) (L : list (nat * pstep)) : option (list state) :=
    match L with
    | [] => Some []
    | ist :: L' =>
        match tt_apply_effects sc P s (evs_of TP ist) with
        | None => None
        | Some s1 => option_map (cons s1) (mrun s1 L')
        end
    end.

  Lemma mrun_length L : forall s ss, mrun s L = Some ss -> length ss = length L.
  Proof.
    induction L as [|ist L IH]; intros s ss H; cbn in H; [inversion H; reflexivity|].
    destruct (tt_apply_effects sc P s (evs_of TP ist)) as [s1|]; [|discriminate].
    destruct (mrun s1 L) as [ss'|] eqn:E; [|discriminate]. inversion H; subst. cbn. f_equal. apply (IH s1 ss' E).
  Qed.

  Fixpoint starts_strict (l : list (nat * pstep)) : Prop :=
    match l with
    | [] => True
    | x :: r => (forall y, In y r -> ps_start (snd x) < ps_start (snd y)) /\ starts_strict r
    end.

  Definition starts_of (L : list (nat * pstep)) : list Qc := map (fun ist => ps_start (snd ist)) L.

  Lemma run_groups_mrun L : forall (m : mstate),
    starts_strict L -> (forall y ist, In y (keys (snd m)) -> In ist L -> y < ps_start (snd ist)) ->
    run_groups sc TP (map (fun ist => (ps_start (snd ist), evs_of TP ist)) L) m =
    match mrun (fst m) L with
    | None => None
    | Some ss => Some (last ss (fst m), snd m ++ List.combine (starts_of L) ss)
    end.
  Proof.
    induction L as [|ist L IH]; intros m S K.
    - cbn. rewrite app_nil_r. destruct m; reflexivity.
    - destruct S as [S1 S2]. cbn [map run_groups mrun]. fold P.
      destruct (tt_apply_effects sc P (fst m) (evs_of TP ist)) as [s1|]; [|reflexivity].
      rewrite trace_set_fresh.
      + rewrite IH; [|exact S2|].
        * cbn [fst snd]. destruct (mrun s1 L) as [ss|]; [|reflexivity]. cbn [option_map].
          rewrite last_cons. cbn [starts_of map List.combine]. rewrite <- app_assoc. reflexivity.
        * cbn [snd]. intros y ist' Hy Hi. unfold keys in Hy. rewrite map_app in Hy. apply in_app_iff in Hy.
          destruct Hy as [Hy|[<-|[]]]; [apply (K y ist' Hy); right; exact Hi | apply S1, Hi].
      + intros y Hy EE. specialize (K y ist Hy (or_introl eq_refl)). subst y. qco.
  Qed.

  Lemma last_cons_default {A} (a : A) l d : last (a :: l) d = last l a.
  Proof. apply last_cons. Qed.

  (* ---------------- what both validators check, over the model's run *)
  Definition bind_of (ist : nat * pstep) : list (N * value) :=
    match lookup_action P (ps_act (snd ist)) with Some a => zip_params (a_params a) (ps_args (snd ist)) | None => [] end.
  Definition pre_of (ist : nat * pstep) : list expr :=
    match lookup_action P (ps_act (snd ist)) with Some a => a_pre a | None => [] end.

  Fixpoint PRE (s : state) (L : list (nat * pstep)) (ss : list state) : Prop :=
    match L, ss with
    | ist :: L', s1 :: ss' => all_hold sc (mk_interp P s (bind_of ist)) (pre_of ist) = true /\ PRE s1 L' ss'
    | _, _ => True
    end.

  Definition run_ok (s : state) (L : list (nat * pstep)) : Prop :=
    exists ss, mrun s L = Some ss /\ (forall x, In x ss -> invariants_ok sc P x = true) /\ PRE s L ss /\
               goals_hold sc P (last ss s) = true.

  Lemma run_ok_ext_nil s s' : state_eq s s' -> (goals_hold sc P s' = true <-> run_ok s []).
  Proof.
    intros SE. unfold run_ok, P. rewrite <- (goals_hold_ext' sc TP s s' SE). cbn [mrun]. split.
    - intros H. exists []. split; [reflexivity|]. split; [intros x []|]. split; [exact I | exact H].
    - intros [ss [E [_ [_ G]]]]. inversion E; subst. exact G.
  Qed.

  (* ---------------- the sequential validator *)
  Lemma seq_side L : resolved L -> forall s s' acc, state_eq s s' ->
    (validate_from sc P MNone (sim_apply sc P) s' acc (seq_of (map snd L)) = Valid None <-> run_ok s L) /\
    (validate_from sc P MNone (sim_apply sc P) s' acc (seq_of (map snd L)) = Valid None \/
     validate_from sc P MNone (sim_apply sc P) s' acc (seq_of (map snd L)) = Invalid).
  Proof.
    induction L as [|ist L IH]; intros RS s s' acc SE.
    - cbn [map seq_of validate_from]. pose proof (run_ok_ext_nil s s' SE) as N.
      destruct (goals_hold sc P s'); cbn [final_metric].
      + split; [split; [intros _; apply N; reflexivity | reflexivity] | left; reflexivity].
      + split; [split; [discriminate | intros H; apply N in H; discriminate] | right; reflexivity].
    - destruct (RS ist (or_introl eq_refl)) as [a EA].
      assert (RS' : resolved L) by (intros x Hx; apply RS; right; exact Hx).
      cbn [map seq_of validate_from]. rewrite EA.
      pose proof (single_event_step sc P s s' (ev_of ist a) SE (TY s' _ a (ps_args (snd ist)) EA)) as ST.
      cbn [ev_of ev_bind ev_effs] in ST.
      unfold run_ok. cbn [mrun]. rewrite (evs_of_inst ist a EA). fold P.
      unfold sim_apply.
      assert (PE : all_hold sc (mk_interp P s (bind_of ist)) (pre_of ist) =
                   all_hold sc (mk_interp P s' (zip_params (a_params a) (ps_args (snd ist)))) (a_pre a)).
      { unfold bind_of, pre_of. rewrite EA. apply all_hold_ext, mk_interp_ext, SE. }
      destruct (all_hold sc (mk_interp P s' (zip_params (a_params a) (ps_args (snd ist)))) (a_pre a)) eqn:EP; cbn [negb].
      + destruct (fired sc (mk_interp P s' (zip_params (a_params a) (ps_args (snd ist)))) (a_effs a)) as [acts|].
        * destruct (sim_loop P s' ([], []) acts) as [[upd asg]|].
          -- destruct ST as [s1 [E1 SE1]]. rewrite E1.
             rewrite <- (invariants_ok_ext sc P s1 (apply_upd s' upd) SE1).
             destruct (invariants_ok sc P s1) eqn:EI.
             ++ cbn [step_metric]. destruct (IH RS' s1 (apply_upd s' upd) acc SE1) as [I1 I2].
                split; [|exact I2]. rewrite I1. unfold run_ok. split.
                ** intros [ss [M [IV [PR G]]]]. exists (s1 :: ss). rewrite M. cbn [option_map]. split; [reflexivity|].
                   split; [intros x [<-|Hx]; [exact EI | apply IV, Hx]|]. split; [cbn [PRE]; split; [exact PE | exact PR]|].
                   rewrite last_cons. exact G.
                ** intros [ss [M [IV [PR G]]]]. destruct (mrun s1 L) as [ss'|]; [|discriminate]. cbn [option_map] in M.
                   inversion M; subst ss. exists ss'. split; [reflexivity|]. split; [intros x Hx; apply IV; right; exact Hx|].
                   cbn [PRE] in PR. split; [apply PR|]. rewrite last_cons in G. exact G.
             ++ split; [|right; reflexivity]. split; [discriminate|].
                intros [ss [M [IV _]]]. destruct (mrun s1 L) as [ss'|]; [|discriminate]. cbn [option_map] in M.
                inversion M; subst ss. rewrite (IV s1 (or_introl eq_refl)) in EI. discriminate.
          -- rewrite ST. split; [|right; reflexivity]. split; [discriminate | intros [ss [M _]]; discriminate].
        * rewrite ST. split; [|right; reflexivity]. split; [discriminate | intros [ss [M _]]; discriminate].
      + split; [|right; reflexivity]. split; [discriminate|].
        intros [ss [M [_ [PR _]]]].
        destruct (tt_apply_effects sc P s [ev_of ist a]) as [s1|]; [|discriminate].
        destruct (mrun s1 L) as [ss'|]; [|discriminate]. cbn [option_map] in M. inversion M; subst ss.
        cbn [PRE] in PR. destruct PR as [PR _]. congruence.
  Qed.

  (* ---------------- the time-triggered validator *)
  Lemma flat_evs_strict L : resolved L -> starts_strict L ->
    strictT (flat_map (evs_of TP) L) /\
    map (fun e => (ev_time e, [e])) (flat_map (evs_of TP) L) = map (fun ist => (ps_start (snd ist), evs_of TP ist)) L /\
    (forall e, In e (flat_map (evs_of TP) L) -> exists ist, In ist L /\ ev_time e = ps_start (snd ist)).
  Proof.
    induction L as [|ist L IH]; intros RS S; [cbn; repeat split; auto; intros e []|].
    destruct S as [S1 S2]. destruct (RS ist (or_introl eq_refl)) as [a EA].
    assert (RS' : resolved L) by (intros x Hx; apply RS; right; exact Hx).
    destruct (IH RS' S2) as (I1 & I2 & I3). cbn [flat_map]. rewrite (evs_of_inst ist a EA). cbn [app map].
    split; [|split].
    - split; [|exact I1]. intros x Hx. destruct (I3 x Hx) as [ist' [Hi Et]]. cbn [ev_of ev_time]. rewrite Et. apply S1, Hi.
    - rewrite (evs_of_inst ist a EA). f_equal. exact I2.
    - intros e [<-|He]; [exists ist; split; [left; reflexivity | reflexivity]|].
      destruct (I3 e He) as [ist' [Hi Et]]. exists ist'. split; [right; exact Hi | exact Et].
  Qed.

  Lemma final_state_app s0 (a : trace) t s : final_state s0 (a ++ [(t, s)]) = s.
  Proof. revert s0; induction a as [|[x sx] a IH]; intros s0; [reflexivity | apply IH]. Qed.

  Lemma pre_spec (s0 : state) L : forall done ss,
    length ss = length L -> asc_from minus1 (keys (done ++ List.combine (starts_of L) ss)) ->
    ((forall ist c, In ist L -> In c (pre_of ist) ->
        holds_in sc TP (state_at s0 (done ++ List.combine (starts_of L) ss) (ps_start (snd ist))) (bind_of ist) c = true) <->
     PRE (final_state s0 done) L ss).
  Proof.
    induction L as [|ist L IH]; intros done ss LEN A.
    - cbn. split; [auto | intros _ ist c []].
    - destruct ss as [|s1 ss]; [discriminate|]. cbn [starts_of map List.combine] in *. fold (starts_of L) in *.
      assert (EQ : done ++ (ps_start (snd ist), s1) :: List.combine (starts_of L) ss =
                   (done ++ [(ps_start (snd ist), s1)]) ++ List.combine (starts_of L) ss) by (rewrite <- app_assoc; reflexivity).
      specialize (IH (done ++ [(ps_start (snd ist), s1)]) ss).
      rewrite <- EQ, final_state_app in IH. cbn [PRE].
      assert (LEN' : length ss = length L) by (cbn in LEN; lia).
      specialize (IH LEN' A).
      pose proof (state_at_key done s0 (ps_start (snd ist)) s1 (List.combine (starts_of L) ss) A) as SK.
      split.
      + intros H. split.
        * unfold all_hold. apply forallb_forall. intros c Hc. specialize (H ist c (or_introl eq_refl) Hc).
          rewrite SK in H. exact H.
        * apply IH. intros ist' c Hi Hc. apply H; [right; exact Hi | exact Hc].
      + intros [H1 H2] ist' c [<-|Hi] Hc.
        * rewrite SK. unfold all_hold in H1. rewrite forallb_forall in H1. apply H1, Hc.
        * apply (proj2 IH H2 ist' c Hi Hc).
  Qed.

  Lemma in_combine_states (ks : list Qc) (ss : list state) : length ss = length ks ->
    forall s, In s ss <-> exists x, In (x, s) (List.combine ks ss).
  Proof.
    revert ss; induction ks as [|k ks IH]; intros ss LEN s.
    - destruct ss; [|discriminate]. cbn. split; [intros [] | intros [x []]].
    - destruct ss as [|s1 ss]; [discriminate|]. cbn in LEN. cbn [List.combine In]. split.
      + intros [<-|H]; [exists k; left; reflexivity|]. apply (IH ss ltac:(lia)) in H. destruct H as [x Hx]. exists x. right. exact Hx.
      + intros [x [H|H]]; [inversion H; left; reflexivity|]. right. apply (IH ss ltac:(lia)). exists x. exact H.
  Qed.

  Lemma keys_combine (ks : list Qc) (ss : list state) : length ss = length ks -> keys (List.combine ks ss) = ks.
  Proof.
    revert ss; induction ks as [|k ks IH]; intros ss LEN; [reflexivity|].
    destruct ss as [|s1 ss]; [discriminate|]. cbn. f_equal. apply IH. cbn in LEN. lia.
  Qed.

  Lemma starts_asc_from L : starts_strict L -> (forall ist, In ist L -> zq 0 <= ps_start (snd ist)) ->
    asc_from minus1 (starts_of L).
  Proof.
    intros S N. apply asc_from_of_asc.
    - induction L as [|ist L IH]; [exact I|]. destruct S as [S1 S2]. cbn.
      assert (A : asc (starts_of L)) by (apply IH; [exact S2 | intros x Hx; apply N; right; exact Hx]).
      apply asc_from_of_asc; [exact A|]. intros x Hx. unfold starts_of in Hx. apply in_map_iff in Hx.
      destruct Hx as [y [<- Hy]]. apply S1, Hy.
    - intros x Hx. unfold starts_of in Hx. apply in_map_iff in Hx. destruct Hx as [y [<- Hy]].
      specialize (N y Hy). pose proof minus1_lt0. qco.
  Qed.

  Theorem tt_side (s0 : state) (pi : tplan) :
    plan_wf TP pi = true -> starts_strict (starts_order pi) -> (forall st, In st pi -> zq 0 <= ps_start st) ->
    (tt_validate sc TP s0 pi = VALID <-> invariants_ok sc P s0 = true /\ run_ok s0 (starts_order pi)) /\
    (tt_validate sc TP s0 pi = VALID \/ tt_validate sc TP s0 pi = INVALID).
  Proof.
    intros WF SS NN. set (L := starts_order pi).
    assert (PL : Permutation L (indexed pi)) by apply (proj2 (starts_order_spec pi)).
    assert (INL : forall ist, In ist L -> In (snd ist) pi).
    { intros [j st] Hi. apply (Permutation_in _ PL) in Hi. apply (indexed_from_In pi 0 j st Hi). }
    assert (RS : resolved L).
    { intros ist Hi. unfold plan_wf in WF. rewrite forallb_forall in WF. specialize (WF (snd ist) (INL ist Hi)).
      unfold step_wf in WF. rewrite lookup_tact_inst in WF.
      destruct (lookup_action P (ps_act (snd ist))) as [a|]; [exists a; reflexivity | discriminate]. }
    assert (NNL : forall ist, In ist L -> zq 0 <= ps_start (snd ist)) by (intros ist Hi; apply NN, INL, Hi).
    destruct (flat_evs_strict L RS SS) as (F1 & F2 & F3).
    unfold tt_validate. rewrite WF. cbn [negb]. fold L.
    assert (IH0 : init_heap TP = []).
    { unfold init_heap, timed_events. destruct NOT as [N1 _]. rewrite N1. reflexivity. }
    rewrite IH0.
    rewrite (tt_main_groups sc TP L [] (s0, [(minus1, s0)]) I (proj1 (starts_order_spec pi))).
    2:{ intros ist e Hi He. destruct (RS ist Hi) as [a EA]. rewrite (evs_of_inst ist a EA) in He.
        destruct He as [<-|[]]. apply Qcle_refl. }
    rewrite (hpush_all_sorted_app _ [] (strictT_sorted _ F1)). cbn [app].
    rewrite (groups_strict _ F1), F2.
    rewrite (run_groups_mrun L (s0, [(minus1, s0)]) SS).
    2:{ cbn [snd]. intros y ist [<-|[]] Hi. specialize (NNL ist Hi). pose proof minus1_lt0. qco. }
    cbn [fst snd]. fold P. unfold run_ok.
    destruct (mrun s0 L) as [ss|] eqn:EM; cbn [dres_of].
    2:{ split; [split; [discriminate | intros [_ [ss [E _]]]; discriminate] | right; reflexivity]. }
    pose proof (mrun_length L s0 ss EM) as LEN.
    set (new := List.combine (starts_of L) ss).
    assert (LEN2 : length ss = length (starts_of L)) by (unfold starts_of; rewrite map_length; exact LEN).
    assert (KN : keys new = starts_of L) by (apply keys_combine, LEN2).
    assert (A : asc_from minus1 (keys new)) by (rewrite KN; apply starts_asc_from; assumption).
    assert (K0 : forall x, In x (keys new) -> zq 0 <= x).
    { rewrite KN. intros x Hx. unfold starts_of in Hx. apply in_map_iff in Hx. destruct Hx as [y [<- Hy]]. apply NNL, Hy. }
    change ([(minus1, s0)] ++ new) with ((minus1, s0) :: new).
    (* the final check of the conditions *)
    assert (FC : forallb (check_cond sc TP ((minus1, s0) :: new)) (tt_conds TP pi) = true <->
                 (invariants_ok sc P s0 = true /\ forall x, In x ss -> invariants_ok sc P x = true) /\ PRE s0 L ss).
    { rewrite forallb_forall. unfold tt_conds, global_conds. fold L. destruct NOT as [_ N2]. rewrite N2. cbn [flat_map app].
      assert (INVS : (forall c, In c (p_invs P ++ bound_invs P) ->
                        check_cond sc TP ((minus1, s0) :: new) {| tc_iv := always_interval; tc_bind := []; tc_expr := c |} = true) <->
                     (invariants_ok sc P s0 = true /\ forall x, In x ss -> invariants_ok sc P x = true)).
      { unfold invariants_ok, all_hold. rewrite forallb_forall.
        assert (CC : forall c, check_cond sc TP ((minus1, s0) :: new) {| tc_iv := always_interval; tc_bind := []; tc_expr := c |} = true <->
                               holds_in sc TP s0 [] c = true /\ forall x s, In (x, s) new -> holds_in sc TP s [] c = true).
        { intros c. rewrite (check_cond_spec sc TP s0 new _ A); [apply always_spec; assumption | apply Qcle_refl | reflexivity]. }
        split.
        - intros H. split; [intros c Hc; apply (proj1 (CC c) (H c Hc))|].
          intros x Hx. apply forallb_forall. intros c Hc. apply (in_combine_states _ _ LEN2) in Hx. destruct Hx as [k Hk].
          apply (proj2 (proj1 (CC c) (H c Hc)) k x Hk).
        - intros [H0 H1] c Hc. apply CC. split; [apply H0, Hc|]. intros k s Hin.
          assert (Hs : In s ss) by (apply (in_combine_states _ _ LEN2); exists k; exact Hin).
          specialize (H1 s Hs). rewrite forallb_forall in H1. apply H1, Hc. }
      assert (PRES : (forall c, In c (flat_map (fun ist => step_dur_cond TP (snd ist) ++ step_conds TP (snd ist)) L) ->
                         check_cond sc TP ((minus1, s0) :: new) c = true) <-> PRE s0 L ss).
      { rewrite <- (pre_spec s0 L [] ss LEN A). cbn [app]. fold new. split.
        - intros H ist c Hi Hc. destruct (RS ist Hi) as [a EA].
          rewrite <- (conditions_before_effects sc TP s0 new _ _ _ A (NNL ist Hi)).
          apply H. apply in_flat_map. exists ist. split; [exact Hi|]. apply in_or_app. right.
          unfold step_conds. rewrite lookup_tact_inst, EA. cbn [option_map]. unfold pre_of in Hc. rewrite EA in Hc.
          unfold bind_of. rewrite EA. apply in_map_iff. exists c. split; [reflexivity | exact Hc].
        - intros H c Hc. apply in_flat_map in Hc. destruct Hc as [ist [Hi Hc]]. destruct (RS ist Hi) as [a EA].
          unfold step_dur_cond, step_conds in Hc. rewrite lookup_tact_inst, EA in Hc. cbn [option_map app] in Hc.
          apply in_map_iff in Hc. destruct Hc as [c0 [<- Hc0]].
          rewrite (conditions_before_effects sc TP s0 new _ _ _ A (NNL ist Hi)).
          specialize (H ist c0 Hi). unfold pre_of, bind_of in H. rewrite EA in H. apply H, Hc0. }
      split.
      - intros H. split; [apply INVS; intros c Hc; apply H, in_or_app; left; apply in_map, Hc|].
        apply PRES. intros c Hc. apply H, in_or_app. right. exact Hc.
      - intros [H1 H2] c Hc. apply in_app_iff in Hc. destruct Hc as [Hc|Hc].
        + apply in_map_iff in Hc. destruct Hc as [c0 [<- Hc0]]. apply (proj2 INVS H1 c0 Hc0).
        + apply (proj2 PRES H2 c Hc). }
    destruct (forallb (check_cond sc TP ((minus1, s0) :: new)) (tt_conds TP pi)) eqn:EFC.
    - destruct (proj1 FC eq_refl) as [[V0 V1] V2].
      destruct (goals_hold sc P (last ss s0)) eqn:EG; cbn [andb].
      + split; [|left; reflexivity]. split; [intros _|reflexivity]. split; [exact V0|]. exists ss. repeat split; auto.
      + split; [|right; reflexivity]. split; [discriminate|]. intros [_ [ss' [E [_ [_ G]]]]]. inversion E; subst. congruence.
    - cbn [andb]. split; [|right; reflexivity]. split; [discriminate|].
      intros [V0 [ss' [E [V1 [V2 _]]]]]. inversion E; subst ss'.
      pose proof (proj2 FC (conj (conj V0 V1) V2)) as X. discriminate X.
  Qed.

  (* ---------------- the two orders coincide when the start times are pairwise distinct *)
  Lemma map_snd_indexed_from {A} (l : list A) : forall i, map snd (indexed_from i l) = l.
  Proof. induction l as [|a l IH]; intros i; [reflexivity|]. cbn. f_equal. apply IH. Qed.

  Fixpoint steps_strict (l : list pstep) : Prop :=
    match l with [] => True | x :: r => (forall y, In y r -> ps_start x < ps_start y) /\ steps_strict r end.
  Fixpoint steps_asc (l : list pstep) : Prop :=
    match l with [] => True | x :: r => (forall y, In y r -> ps_start x <= ps_start y) /\ steps_asc r end.

  Lemma steps_asc_strict l : steps_asc l -> NoDup (map ps_start l) -> steps_strict l.
  Proof.
    induction l as [|x r IH]; intros A ND; [exact I|]. destruct A as [A1 A2]. inversion ND as [|? ? Hn ND']; subst.
    split; [|apply IH; assumption]. intros y Hy. specialize (A1 y Hy).
    destruct (Qcle_lt_or_eq _ _ A1) as [L|E]; [exact L|]. exfalso. apply Hn. rewrite E. apply in_map, Hy.
  Qed.

  Lemma steps_strict_unique l : forall l', Permutation l l' -> steps_strict l -> steps_strict l' -> l = l'.
  Proof.
    induction l as [|a r IH]; intros l' PM S S'.
    - apply Permutation_nil in PM. subst. reflexivity.
    - destruct l' as [|b r']; [apply Permutation_sym, Permutation_nil in PM; discriminate|].
      destruct S as [S1 S2], S' as [S1' S2'].
      assert (a = b).
      { assert (Ha : In a (b :: r')) by (apply (Permutation_in a PM); left; reflexivity).
        assert (Hb : In b (a :: r)) by (apply (Permutation_in b (Permutation_sym PM)); left; reflexivity).
        destruct Ha as [Ha|Ha]; [symmetry; exact Ha|]. destruct Hb as [Hb|Hb]; [exact Hb|].
        specialize (S1 b Hb). specialize (S1' a Ha). qco. }
      subst b. f_equal. apply IH; [apply (Permutation_cons_inv PM) | exact S2 | exact S2'].
  Qed.

  Lemma ins_time_In x l y : In y (ins_time x l) <-> y = x \/ In y l.
  Proof.
    induction l as [|z l IH]; cbn; [intuition|].
    destruct (qc_leb (ps_start x) (ps_start z)); cbn; [intuition|]. rewrite IH. intuition.
  Qed.

  Lemma ins_time_asc x l : steps_asc l -> steps_asc (ins_time x l).
  Proof.
    induction l as [|z l IH]; intros S; cbn; [split; [intros y [] | exact I]|].
    destruct S as [S1 S2]. destruct (qc_leb (ps_start x) (ps_start z)) eqn:E; qb.
    - split; [|split; assumption]. intros y [<-|Hy]; [exact E | specialize (S1 y Hy); qco].
    - split; [|apply IH, S2]. intros y Hy. apply ins_time_In in Hy. destruct Hy as [->|Hy]; [qco | apply S1, Hy].
  Qed.

  Lemma ins_time_perm x l : Permutation (ins_time x l) (x :: l).
  Proof.
    induction l as [|z l IH]; cbn; [apply Permutation_refl|].
    destruct (qc_leb (ps_start x) (ps_start z)); [apply Permutation_refl|].
    eapply Permutation_trans; [apply perm_skip, IH | apply perm_swap].
  Qed.

  Lemma sort_steps_spec pi : steps_asc (sort_steps pi) /\ Permutation (sort_steps pi) pi.
  Proof.
    unfold sort_steps. induction pi as [|x pi [I1 I2]]; cbn; [split; [exact I | constructor]|].
    split; [apply ins_time_asc, I1|]. eapply Permutation_trans; [apply ins_time_perm | apply perm_skip, I2].
  Qed.

  Lemma starts_asc_steps L : starts_asc L -> steps_asc (map snd L).
  Proof.
    induction L as [|x L IH]; intros S; [exact I|]. destruct S as [S1 S2]. cbn. split; [|apply IH, S2].
    intros y Hy. apply in_map_iff in Hy. destruct Hy as [z [<- Hz]]. apply S1, Hz.
  Qed.

  Lemma steps_strict_starts L : steps_strict (map snd L) -> starts_strict L.
  Proof.
    induction L as [|x L IH]; intros S; [exact I|]. destruct S as [S1 S2]. split; [|apply IH, S2].
    intros y Hy. apply S1. apply in_map, Hy.
  Qed.

  Lemma order_agree pi : NoDup (map ps_start pi) ->
    map snd (starts_order pi) = sort_steps pi /\ starts_strict (starts_order pi).
  Proof.
    intros ND. destruct (starts_order_spec pi) as [A PM]. destruct (sort_steps_spec pi) as [A' PM'].
    assert (PM2 : Permutation (map snd (starts_order pi)) pi).
    { eapply Permutation_trans; [apply Permutation_map, PM|]. unfold indexed. rewrite map_snd_indexed_from. apply Permutation_refl. }
    assert (S1 : steps_strict (map snd (starts_order pi))).
    { apply steps_asc_strict; [apply starts_asc_steps, A|].
      apply (Permutation_NoDup (Permutation_sym (Permutation_map ps_start PM2)) ND). }
    assert (S2 : steps_strict (sort_steps pi)).
    { apply steps_asc_strict; [exact A'|]. apply (Permutation_NoDup (Permutation_sym (Permutation_map ps_start PM')) ND). }
    split; [|apply steps_strict_starts, S1].
    apply steps_strict_unique; [|exact S1 | exact S2].
    eapply Permutation_trans; [exact PM2 | apply Permutation_sym, PM'].
  Qed.

  (* ---------------- scheduled plans *)
  Lemma schedule_spec plan : forall times,
    (forall st, In st (schedule plan times) -> ps_dur st = None) /\
    (forall t, In t (map ps_start (schedule plan times)) -> In t times) /\
    (NoDup times -> NoDup (map ps_start (schedule plan times))).
  Proof.
    induction plan as [|[a args] plan IH]; intros times; [cbn; repeat split; try tauto; intros; constructor|].
    destruct times as [|t times]; [cbn; repeat split; try tauto; intros; constructor|].
    destruct (IH times) as (I1 & I2 & I3). cbn [schedule map]. split; [|split].
    - intros st [<-|H]; [reflexivity | apply I1, H].
    - intros x [<-|H]; [left; reflexivity | right; apply I2, H].
    - intros ND. inversion ND as [|? ? Hn ND']; subst. cbn [ps_start]. constructor; [|apply I3, ND'].
      intros H. apply Hn, I2, H.
  Qed.

  Lemma validate_from_unknown plan : forall s acc a args,
    In (a, args) plan -> lookup_action P a = None ->
    validate_from sc P MNone (sim_apply sc P) s acc plan = Invalid.
  Proof.
    induction plan as [|[b bargs] plan IH]; intros s acc a args Hin HL; [destruct Hin|].
    cbn [validate_from]. destruct Hin as [Hin|Hin].
    - inversion Hin; subst. rewrite HL. reflexivity.
    - destruct (lookup_action P b); [|reflexivity]. destruct (sim_apply sc P s a0 bargs); [|reflexivity].
      cbn [step_metric]. apply (IH _ _ a args Hin HL).
  Qed.

  (* ---------------- C04 *)
  Theorem tt_seq_agree (s0 : state) (plan : list (N * list value)) (times : list Qc) :
    init_ok sc TP s0 -> NoDup times -> (forall t, In t times -> zq 0 <= t) ->
    tt_validate sc TP s0 (schedule plan times) = verdict_of (seq_validate sc P MNone s0 (sort_by_time plan times)).
  Proof.
    intros IO ND NN. set (pi := schedule plan times).
    destruct (schedule_spec plan times) as (D1 & D2 & D3). fold pi in D1, D2, D3.
    destruct (order_agree pi (D3 ND)) as [OA SS].
    unfold sort_by_time, seq_validate. fold pi. rewrite <- OA.
    destruct (plan_wf TP pi) eqn:WF.
    - assert (NNp : forall st, In st pi -> zq 0 <= ps_start st) by (intros st Hs; apply NN, D2, in_map, Hs).
      destruct (tt_side s0 pi WF SS NNp) as [T1 T2].
      assert (RS : resolved (starts_order pi)).
      { intros [j st] Hi. apply (Permutation_in _ (proj2 (starts_order_spec pi))) in Hi.
        pose proof (indexed_from_In pi 0 j st Hi) as Hs.
        unfold plan_wf in WF. rewrite forallb_forall in WF. specialize (WF st Hs).
        unfold step_wf in WF. rewrite lookup_tact_inst in WF. cbn [snd].
        destruct (lookup_action P (ps_act st)) as [a|]; [exists a; reflexivity | discriminate]. }
      destruct (seq_side (starts_order pi) RS s0 s0 (zq 0) (fun _ _ => eq_refl)) as [Q1 Q2].
      destruct Q2 as [Q2|Q2]; rewrite Q2; cbn [verdict_of].
      + apply T1. split; [exact IO | apply Q1, Q2].
      + destruct T2 as [T2|T2]; [|exact T2]. exfalso. apply T1 in T2. destruct T2 as [_ T2]. apply Q1 in T2. congruence.
    - unfold tt_validate. rewrite WF. cbn [negb].
      assert (EX : exists st, In st pi /\ step_wf TP st = false).
      { unfold plan_wf in WF. clear -WF. induction pi as [|x l IH]; [discriminate|]. cbn in WF.
        destruct (step_wf TP x) eqn:E; [|exists x; split; [left; reflexivity | exact E]].
        destruct (IH WF) as [st [H1 H2]]. exists st. split; [right; exact H1 | exact H2]. }
      destruct EX as [st [Hs Hw]]. unfold step_wf in Hw. rewrite lookup_tact_inst, (D1 st Hs) in Hw.
      destruct (lookup_action P (ps_act st)) as [a|] eqn:EL; [discriminate|].
      rewrite (validate_from_unknown _ s0 (zq 0) (ps_act st) (ps_args st)); [reflexivity| |exact EL].
      unfold seq_of. rewrite OA. apply in_map_iff. exists st. split; [reflexivity|].
      apply (Permutation_in st (Permutation_sym (proj2 (sort_steps_spec pi)))), Hs.
  Qed.
End Agree.
