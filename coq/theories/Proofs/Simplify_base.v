(* Basic facts about the definitions of Walkers/Simplify.v: unfolding equations of [simp], free variables of lists,
   list helpers.  Used by the other Simplify_*.v proof files. *)
From Coq Require Import List ZArith NArith QArith Qcanon Bool Lia.
Import ListNotations.
Require Import UPV.Core.Expr UPV.Core.Eval UPV.Proofs.Eval_lemmas UPV.Walkers.Simplify.
Local Open Scope nat_scope.

(* ---------------------------------------------------------------- the re-simplifier available at depth n *)
Definition resimp (G : cfg) (n : nat) : expr -> expr :=
  match n with O => (fun x => x) | S n' => simp G n' end.

Section Unfold.
  Variable G : cfg.
  Variable n : nat.
  Lemma simp_EBool b : simp G n (EBool b) = EBool b. Proof. destruct n; reflexivity. Qed.
  Lemma simp_EInt z : simp G n (EInt z) = EInt z. Proof. destruct n; reflexivity. Qed.
  Lemma simp_EReal q : simp G n (EReal q) = EReal q. Proof. destruct n; reflexivity. Qed.
  Lemma simp_EObj o : simp G n (EObj o) = EObj o. Proof. destruct n; reflexivity. Qed.
  Lemma simp_EParam p : simp G n (EParam p) = EParam p. Proof. destruct n; reflexivity. Qed.
  Lemma simp_EVar v t : simp G n (EVar v t) = EVar v t. Proof. destruct n; reflexivity. Qed.
  Lemma simp_EFluent f l : simp G n (EFluent f l) = walk_fluent G f (map (simp G n) l). Proof. destruct n; reflexivity. Qed.
  Lemma simp_EIFun f l : simp G n (EIFun f l) = walk_ifun G f (map (simp G n) l). Proof. destruct n; reflexivity. Qed.
  Lemma simp_EAnd l : simp G n (EAnd l) = walk_junct true (map (simp G n) l). Proof. destruct n; reflexivity. Qed.
  Lemma simp_EOr l : simp G n (EOr l) = walk_junct false (map (simp G n) l). Proof. destruct n; reflexivity. Qed.
  Lemma simp_ENot a : simp G n (ENot a) = walk_not (simp G n a). Proof. destruct n; reflexivity. Qed.
  Lemma simp_EImplies a b : simp G n (EImplies a b) = walk_implies (simp G n a) (simp G n b). Proof. destruct n; reflexivity. Qed.
  Lemma simp_EIff a b : simp G n (EIff a b) = walk_iff (simp G n a) (simp G n b). Proof. destruct n; reflexivity. Qed.
  Lemma simp_EExists vs a : simp G n (EExists vs a) = walk_exists G (resimp G n) vs (simp G n a). Proof. destruct n; reflexivity. Qed.
  Lemma simp_EForall vs a : simp G n (EForall vs a) = walk_forall G vs (simp G n a). Proof. destruct n; reflexivity. Qed.
  Lemma simp_EPlus l : simp G n (EPlus l) = walk_arith false (map (simp G n) l). Proof. destruct n; reflexivity. Qed.
  Lemma simp_EMinus a b : simp G n (EMinus a b) = walk_minus (simp G n a) (simp G n b). Proof. destruct n; reflexivity. Qed.
  Lemma simp_ETimes l : simp G n (ETimes l) = walk_arith true (map (simp G n) l). Proof. destruct n; reflexivity. Qed.
  Lemma simp_EDiv a b : simp G n (EDiv a b) = walk_div (simp G n a) (simp G n b). Proof. destruct n; reflexivity. Qed.
  Lemma simp_ELe a b : simp G n (ELe a b) = walk_le (simp G n a) (simp G n b). Proof. destruct n; reflexivity. Qed.
  Lemma simp_ELt a b : simp G n (ELt a b) = walk_lt (simp G n a) (simp G n b). Proof. destruct n; reflexivity. Qed.
  Lemma simp_EEquals a b : simp G n (EEquals a b) = walk_equals G (simp G n a) (simp G n b). Proof. destruct n; reflexivity. Qed.
  Lemma simp_EAlways a : simp G n (EAlways a) = walk_always (simp G n a). Proof. destruct n; reflexivity. Qed.
  Lemma simp_ESometime a : simp G n (ESometime a) = walk_sometime (simp G n a). Proof. destruct n; reflexivity. Qed.
  Lemma simp_ESometimeBefore a b : simp G n (ESometimeBefore a b) = walk_sometime_before (simp G n a) (simp G n b).
  Proof. destruct n; reflexivity. Qed.
  Lemma simp_ESometimeAfter a b : simp G n (ESometimeAfter a b) = walk_sometime_after (simp G n a) (simp G n b).
  Proof. destruct n; reflexivity. Qed.
  Lemma simp_EAtMostOnce a : simp G n (EAtMostOnce a) = walk_at_most_once (simp G n a). Proof. destruct n; reflexivity. Qed.
End Unfold.

#[export] Hint Rewrite simp_EBool simp_EInt simp_EReal simp_EObj simp_EParam simp_EVar simp_EFluent simp_EIFun simp_EAnd
  simp_EOr simp_ENot simp_EImplies simp_EIff simp_EExists simp_EForall simp_EPlus simp_EMinus simp_ETimes simp_EDiv
  simp_ELe simp_ELt simp_EEquals simp_EAlways simp_ESometime simp_ESometimeBefore simp_ESometimeAfter simp_EAtMostOnce
  : simp_unfold.


(* unfolding equations of [simp_ok] *)
Section UnfoldOk.
  Variable G : cfg.
  Variable n : nat.
  Lemma ok_EBool b : simp_ok G n (EBool b) = true. Proof. destruct n; reflexivity. Qed.
  Lemma ok_EInt z : simp_ok G n (EInt z) = true. Proof. destruct n; reflexivity. Qed.
  Lemma ok_EReal q : simp_ok G n (EReal q) = true. Proof. destruct n; reflexivity. Qed.
  Lemma ok_EObj o : simp_ok G n (EObj o) = true. Proof. destruct n; reflexivity. Qed.
  Lemma ok_EParam p : simp_ok G n (EParam p) = true. Proof. destruct n; reflexivity. Qed.
  Lemma ok_EVar v t : simp_ok G n (EVar v t) = true. Proof. destruct n; reflexivity. Qed.
  Lemma ok_EFluent f l : simp_ok G n (EFluent f l) = forallb (simp_ok G n) l. Proof. destruct n; reflexivity. Qed.
  Lemma ok_EIFun f l : simp_ok G n (EIFun f l) = forallb (simp_ok G n) l. Proof. destruct n; reflexivity. Qed.
  Lemma ok_EAnd l : simp_ok G n (EAnd l) = forallb (simp_ok G n) l. Proof. destruct n; reflexivity. Qed.
  Lemma ok_EOr l : simp_ok G n (EOr l) = forallb (simp_ok G n) l. Proof. destruct n; reflexivity. Qed.
  Lemma ok_EPlus l : simp_ok G n (EPlus l) = forallb (simp_ok G n) l. Proof. destruct n; reflexivity. Qed.
  Lemma ok_ETimes l : simp_ok G n (ETimes l) = forallb (simp_ok G n) l. Proof. destruct n; reflexivity. Qed.
  Lemma ok_ENot a : simp_ok G n (ENot a) = simp_ok G n a. Proof. destruct n; reflexivity. Qed.
  Lemma ok_EAlways a : simp_ok G n (EAlways a) = simp_ok G n a. Proof. destruct n; reflexivity. Qed.
  Lemma ok_ESometime a : simp_ok G n (ESometime a) = simp_ok G n a. Proof. destruct n; reflexivity. Qed.
  Lemma ok_EAtMostOnce a : simp_ok G n (EAtMostOnce a) = simp_ok G n a. Proof. destruct n; reflexivity. Qed.
  Lemma ok_EForall vs a : simp_ok G n (EForall vs a) = simp_ok G n a. Proof. destruct n; reflexivity. Qed.
  Lemma ok_EImplies a b : simp_ok G n (EImplies a b) = simp_ok G n a && simp_ok G n b. Proof. destruct n; reflexivity. Qed.
  Lemma ok_EIff a b : simp_ok G n (EIff a b) = simp_ok G n a && simp_ok G n b. Proof. destruct n; reflexivity. Qed.
  Lemma ok_EMinus a b : simp_ok G n (EMinus a b) = simp_ok G n a && simp_ok G n b. Proof. destruct n; reflexivity. Qed.
  Lemma ok_EDiv a b : simp_ok G n (EDiv a b) = simp_ok G n a && simp_ok G n b. Proof. destruct n; reflexivity. Qed.
  Lemma ok_ELe a b : simp_ok G n (ELe a b) = simp_ok G n a && simp_ok G n b. Proof. destruct n; reflexivity. Qed.
  Lemma ok_ELt a b : simp_ok G n (ELt a b) = simp_ok G n a && simp_ok G n b. Proof. destruct n; reflexivity. Qed.
  Lemma ok_EEquals a b : simp_ok G n (EEquals a b) = simp_ok G n a && simp_ok G n b. Proof. destruct n; reflexivity. Qed.
  Lemma ok_ESometimeBefore a b : simp_ok G n (ESometimeBefore a b) = simp_ok G n a && simp_ok G n b. Proof. destruct n; reflexivity. Qed.
  Lemma ok_ESometimeAfter a b : simp_ok G n (ESometimeAfter a b) = simp_ok G n a && simp_ok G n b. Proof. destruct n; reflexivity. Qed.
  Lemma ok_EExists vs a :
    simp_ok G n (EExists vs a) =
    simp_ok G n a &&
    (let body := simp G n a in
     let vs0 := prune G vs body in
     match elim_step G vs0 body with
     | None => true
     | Some _ =>
         match n with
         | O => false
         | S n' => let '(vs1, b1) := elim_loop G (length vs0) vs0 body in simp_ok G n' (mkExists vs1 b1)
         end
     end).
  Proof. destruct n; reflexivity. Qed.
End UnfoldOk.

#[export] Hint Rewrite ok_EBool ok_EInt ok_EReal ok_EObj ok_EParam ok_EVar ok_EFluent ok_EIFun ok_EAnd ok_EOr ok_EPlus ok_ETimes
  ok_ENot ok_EAlways ok_ESometime ok_EAtMostOnce ok_EForall ok_EImplies ok_EIff ok_EMinus ok_EDiv ok_ELe ok_ELt ok_EEquals
  ok_ESometimeBefore ok_ESometimeAfter ok_EExists : ok_unfold.

(* ---------------------------------------------------------------- free variables of the list constructors *)
Definition fvl (l : list expr) : list N := flat_map free_vars l.

Lemma fv_fix l :
  (fix lf (l : list expr) : list N := match l with [] => [] | x :: l' => free_vars x ++ lf l' end) l = fvl l.
Proof. induction l as [|x l IH]; [reflexivity|]. cbn [fvl flat_map]. rewrite IH. reflexivity. Qed.

Lemma fv_EFluent f l : free_vars (EFluent f l) = fvl l. Proof. cbn [free_vars]. apply fv_fix. Qed.
Lemma fv_EIFun f l : free_vars (EIFun f l) = fvl l. Proof. cbn [free_vars]. apply fv_fix. Qed.
Lemma fv_EAnd l : free_vars (EAnd l) = fvl l. Proof. cbn [free_vars]. apply fv_fix. Qed.
Lemma fv_EOr l : free_vars (EOr l) = fvl l. Proof. cbn [free_vars]. apply fv_fix. Qed.
Lemma fv_EPlus l : free_vars (EPlus l) = fvl l. Proof. cbn [free_vars]. apply fv_fix. Qed.
Lemma fv_ETimes l : free_vars (ETimes l) = fvl l. Proof. cbn [free_vars]. apply fv_fix. Qed.

Lemma fv_EExists vs a : free_vars (EExists vs a) = filter (fun v => negb (memN v (map fst vs))) (free_vars a).
Proof. reflexivity. Qed.
Lemma fv_EForall vs a : free_vars (EForall vs a) = filter (fun v => negb (memN v (map fst vs))) (free_vars a).
Proof. reflexivity. Qed.

Lemma fvl_app a b : fvl (a ++ b) = fvl a ++ fvl b.
Proof. unfold fvl. apply flat_map_app. Qed.

Lemma fvl_cons a l : fvl (a :: l) = free_vars a ++ fvl l. Proof. reflexivity. Qed.

Lemma in_fvl w l : In w (fvl l) <-> exists x, In x l /\ In w (free_vars x).
Proof. unfold fvl. rewrite in_flat_map. tauto. Qed.

Lemma fvl_incl_in x l : In x l -> incl (free_vars x) (fvl l).
Proof. intros H w Hw. apply in_fvl. eauto. Qed.

(* ---------------------------------------------------------------- membership helpers *)
Lemma memN_In x l : memN x l = true <-> In x l.
Proof.
  unfold memN. rewrite existsb_exists. split.
  - intros [y [Hy E]]. apply N.eqb_eq in E. subst. exact Hy.
  - intros H. exists x. split; [exact H | apply N.eqb_refl].
Qed.

Lemma memN_false x l : memN x l = false <-> ~ In x l.
Proof. rewrite <- memN_In. destruct (memN x l); split; congruence. Qed.

Lemma mem_expr_In x l : mem_expr x l = true <-> In x l.
Proof.
  unfold mem_expr. rewrite existsb_exists. split.
  - intros [y [Hy E]]. apply expr_eqb_eq in E. subst. exact Hy.
  - intros H. exists x. split; [exact H | apply expr_eqb_refl].
Qed.

Lemma mem_expr_false x l : mem_expr x l = false <-> ~ In x l.
Proof. rewrite <- mem_expr_In. destruct (mem_expr x l); split; congruence. Qed.

Lemma bound_in_In x vs : bound_in x vs = true <-> In x (map fst vs).
Proof. apply memN_In. Qed.

(* ---------------------------------------------------------------- the smart constructors *)
Lemma fv_mkAnd l : free_vars (mkAnd l) = fvl l.
Proof.
  destruct l as [|a [|b l]]; [reflexivity| |apply fv_EAnd].
  cbn [mkAnd fvl flat_map]. rewrite app_nil_r. reflexivity.
Qed.
Lemma fv_mkOr l : free_vars (mkOr l) = fvl l.
Proof.
  destruct l as [|a [|b l]]; [reflexivity| |apply fv_EOr].
  cbn [mkOr fvl flat_map]. rewrite app_nil_r. reflexivity.
Qed.
Lemma fv_mkPlus l : free_vars (mkPlus l) = fvl l.
Proof.
  destruct l as [|a [|b l]]; [reflexivity| |apply fv_EPlus].
  cbn [mkPlus fvl flat_map]. rewrite app_nil_r. reflexivity.
Qed.
Lemma fv_mkTimes l : free_vars (mkTimes l) = fvl l.
Proof.
  destruct l as [|a [|b l]]; [reflexivity| |apply fv_ETimes].
  cbn [mkTimes fvl flat_map]. rewrite app_nil_r. reflexivity.
Qed.
Lemma fv_mkJ k l : free_vars (mkJ k l) = fvl l.
Proof. destruct k; [apply fv_mkAnd | apply fv_mkOr]. Qed.
Lemma fv_mkA t l : free_vars (mkA t l) = fvl l.
Proof. destruct t; [apply fv_mkTimes | apply fv_mkPlus]. Qed.
Lemma fv_mkNot a : free_vars (mkNot a) = free_vars a.
Proof. destruct a; reflexivity. Qed.

Lemma filter_true {A} (l : list A) : filter (fun _ => true) l = l.
Proof. induction l as [|x l IH]; [reflexivity|]. cbn. rewrite IH. reflexivity. Qed.

Lemma fv_mkExists vs b : free_vars (mkExists vs b) = free_vars (EExists vs b).
Proof. destruct vs; [|reflexivity]. cbn. rewrite filter_true. reflexivity. Qed.
Lemma fv_mkForall vs b : free_vars (mkForall vs b) = free_vars (EForall vs b).
Proof. destruct vs; [|reflexivity]. cbn. rewrite filter_true. reflexivity. Qed.

Lemma in_fv_quant w (vs : list (N * N)) a :
  In w (filter (fun v => negb (memN v (map fst vs))) (free_vars a)) <-> In w (free_vars a) /\ ~ In w (map fst vs).
Proof. rewrite filter_In, negb_true_iff, memN_false. tauto. Qed.

(* constants *)
Lemma num_of_is_num e n : num_of e = Some n -> is_num e = true.
Proof. destruct e; simpl; congruence. Qed.
Lemma num_of_none e : num_of e = None <-> is_num e = false.
Proof. destruct e; simpl; split; congruence. Qed.
Lemma num_of_expr e n : num_of e = Some n -> e = num_expr n.
Proof. destruct e; simpl; intros H; inversion H; reflexivity. Qed.
Lemma num_of_num_expr n : num_of (num_expr n) = Some n.
Proof. destruct n; reflexivity. Qed.
Lemma fv_num_expr n : free_vars (num_expr n) = [].
Proof. destruct n; reflexivity. Qed.
Lemma is_const_closed c : is_const c = true -> free_vars c = [].
Proof. destruct c; simpl; congruence. Qed.
